/-
  Proofs/Enum4Lemmas — helper lemmas for Props/Clean4: the general RELUCTANT repeat over an
  end-deterministic, non-nullable body (Spec/Enum4).
    * `iterMinZ_enum`, `relMore_enum`, `repReluct_ex`   `ReluctantRepeatIterator` over a body that makes
                                         progress yields exactly `reluctIter` (fewest iterations first): the
                                         zero-width rule of `iterMinZ` never fires, the loop fuels suffice,
                                         the force-progress wrapper is the identity (strictly increasing ends)
    * `sem_ex4_*`, `comp4_*`, `exist4_seq`   the inductions over the tree (as in Proofs/Enum3Lemmas)
-/
import RxModel.Spec.Enum4
import RxModel.Proofs.Enum3Lemmas
namespace Rx
open Rx.C08 (noEmptyAtoms noEmptyAtomsL clsCanon clsCanonL)
open Rx.Clean2End (Progress greedyIter_nodup reluctIter_nodup)

/-! ### `ReluctantRepeatIterator` over a body that makes progress -/

/-- what the reluctant iterator needs of its body: exact lists, and progress -/
structure ProgBody (child : Gen) (e : Nat → List Nat) (L : Nat) : Prop where
  ex : ∀ q, q ≤ L → ∀ st, Step.Ex (child q st) (e q)
  prog : Progress e L

theorem DetBody.progBody {child : Gen} {e : Nat → List Nat} {L : Nat} (h : DetBody child e L) :
    ProgBody child e L := ⟨h.ex, h.prog⟩

theorem ProgBody.first_nil {child : Gen} {e : Nat → List Nat} {L : Nat} (hb : ProgBody child e L)
    {q : Nat} (hq : q ≤ L) (st : St) (h : e q = []) : ∃ st', first1 (child q st) = (none, st') := by
  have := hb.ex q hq st
  rw [h] at this
  exact this.first1_nil

theorem ProgBody.first_cons {child : Gen} {e : Nat → List Nat} {L : Nat} (hb : ProgBody child e L)
    {q : Nat} (hq : q ≤ L) (st : St) {n : Nat} {t : List Nat} (h : e q = n :: t) :
    (∃ st', first1 (child q st) = (some (n, st'), st')) ∧ q < n ∧ n ≤ L := by
  have h1 := hb.ex q hq st
  rw [h] at h1
  exact ⟨h1.first1_cons, hb.prog q hq n (by rw [h]; exact List.mem_cons_self)⟩

/-- the minimum loop: the zero-width rule never fires, and the fuel suffices either because it covers the
    remaining mandatory iterations or because it covers the rest of the input -/
theorem iterMinZ_enum {child : Gen} {e : Nat → List Nat} {L : Nat} (hb : ProgBody child e L)
    (mn : Nat) :
    ∀ fuel count pos st b, count ≤ mn → pos ≤ L → mn - count ≤ b →
      (mn - count + 1 ≤ fuel ∨ L + 2 ≤ fuel + pos) →
      ∀ r, iterMinZ child mn fuel count pos st = r →
        (r.1 = none ∧ reluctIter e mn b count pos = []) ∨
        (∃ pos', r.1 = some (mn, pos') ∧ pos' ≤ L ∧
          reluctIter e mn b count pos = reluctIter e mn (b - (mn - count)) mn pos') := by
  intro fuel
  induction fuel with
  | zero => intro count pos st b _ _ _ hf; omega
  | succ f ih =>
    intro count pos st b hcm hpL hbb hfuel r hr
    unfold iterMinZ at hr
    by_cases hlt : count < mn
    · rw [if_pos hlt] at hr
      obtain ⟨b', rfl⟩ : ∃ b', b = b' + 1 := ⟨b - 1, by omega⟩
      simp only [reluctIter]
      rw [if_neg (by omega), List.nil_append]
      cases hl : e pos with
      | nil =>
        obtain ⟨st', hf⟩ := hb.first_nil hpL st hl
        rw [hf] at hr
        simp only at hr
        subst hr
        exact .inl ⟨rfl, rfl⟩
      | cons q t =>
        obtain ⟨⟨st1, hf⟩, hq1, hq2⟩ := hb.first_cons hpL st hl
        rw [hf] at hr
        simp only at hr
        have hne : (q == pos) = false := by simp; omega
        rw [hne] at hr
        simp only [Bool.false_eq_true, if_false] at hr
        have hih := ih (count + 1) q st1 b' (by omega) hq2 (by omega) (by omega) r hr
        have e1 : b' - (mn - (count + 1)) = b' + 1 - (mn - count) := by omega
        rw [e1] at hih
        exact hih
    · rw [if_neg hlt] at hr
      subst hr
      have : count = mn := by omega
      subst this
      refine .inr ⟨pos, rfl, hpL, ?_⟩
      rw [Nat.sub_self, Nat.sub_zero]

/-- after the first result: one more iteration per call, until the body fails or `max` is reached -/
theorem relMore_enum {child : Gen} {e : Nat → List Nat} {L : Nat} (hb : ProgBody child e L)
    (mn mx : Nat) :
    ∀ fuel count pos st, mn ≤ count → count ≤ mx → pos ≤ L → L + 2 ≤ fuel + pos →
      ∀ l, reluctIter e mn (mx - count) count pos = pos :: l →
        Step.Ex (relMore child mx fuel count pos st) l := by
  intro fuel
  induction fuel with
  | zero => intro count pos st _ _ _ hf; omega
  | succ f ih =>
    intro count pos st hmc hcx hpL hfuel l hl
    unfold relMore
    by_cases hlt : count < mx
    · rw [if_pos hlt]
      obtain ⟨b, hbb⟩ : ∃ b, mx - count = b + 1 := ⟨mx - count - 1, by omega⟩
      rw [hbb] at hl
      simp only [reluctIter] at hl
      rw [if_pos hmc] at hl
      cases hle : e pos with
      | nil =>
        obtain ⟨st', hf⟩ := hb.first_nil hpL st hle
        rw [hf]
        simp only
        rw [hle] at hl
        simp only [List.cons_append, List.nil_append, List.cons.injEq, true_and] at hl
        subst hl
        exact .nil _
      | cons q t =>
        obtain ⟨⟨st1, hf⟩, hq1, hq2⟩ := hb.first_cons hpL st hle
        rw [hf]
        simp only
        rw [hle] at hl
        simp only [List.cons_append, List.nil_append, List.cons.injEq, true_and] at hl
        have hb' : mx - (count + 1) = b := by omega
        obtain ⟨l', hl'⟩ := reluctIter_head e mn b (count + 1) q (by omega)
        rw [hl'] at hl
        subst hl
        refine .cons (fun st'' => ?_)
        exact ih (count + 1) q st'' (by omega) (by omega) hq2 (by omega) l' (by rw [hb']; exact hl')
    · rw [if_neg hlt]
      have : mx - count = 0 := by omega
      rw [this] at hl
      simp only [reluctIter, if_pos hmc, List.cons.injEq, true_and] at hl
      subst hl
      exact .nil _

/-- NODE LEVEL: the reluctant iterator yields the ends for the iteration counts `mn, mn+1, …` (as far as the
    body matches and up to `mx`) — strictly increasing, whatever the matcher state, for EVERY `mn` -/
theorem repReluct_ex {child : Gen} {e : Nat → List Nat} (ctx : Ctx) (hb : ProgBody child e ctx.len)
    (mn mx : Nat) (hmm : mn ≤ mx) (p : Nat) (hp : p ≤ ctx.len) (st : St) :
    Step.Ex (repReluctantGen ctx child mn mx p st) (reluctIter e mn mx 0 p) := by
  unfold repReluctantGen
  have hfuel : mn - 0 + 1 ≤ loopFuel ctx mn ∨ ctx.len + 2 ≤ loopFuel ctx mn + p := by
    unfold loopFuel
    show _ ≤ min (mn + 1) (ctx.len + 1000) ∨ _ ≤ min (mn + 1) (ctx.len + 1000) + p
    rw [Nat.min_def]
    split <;> omega
  have hnd := (reluctIter_nodup hb.prog mn mx 0 p hp).2
  have h := iterMinZ_enum hb mn (loopFuel ctx mn) 0 p st mx (Nat.zero_le _) hp (by omega) hfuel _ rfl
  generalize iterMinZ child mn (loopFuel ctx mn) 0 p st = r at h
  obtain ⟨o, st'⟩ := r
  rcases h with ⟨h1, h2⟩ | ⟨pos', h1, h2, h3⟩
  · simp only at h1
    subst h1
    simp only
    rw [h2]
    exact .nil _
  · simp only at h1
    subst h1
    simp only
    rw [h3, Nat.sub_zero] at hnd ⊢
    obtain ⟨l, hl⟩ := reluctIter_head e mn (mx - mn) mn pos' (Nat.le_refl _)
    rw [hl] at hnd ⊢
    refine Step.Ex.force ?_ 0 none ?_
    · exact .cons (fun st'' => relMore_enum hb mn mx _ mn pos' st'' (Nat.le_refl _) hmm h2 (by omega) l hl)
    · have := runsOK_nodup _ [] 0 none hnd (by omega) (fun c' cur' _ => runsOK_nil c' cur')
      rwa [List.append_nil] at this

/-! ### on rep-free trees `enum4` is `enum2` -/

/-! ### on rep-free trees `enum4` is `enum2` -/

mutual
theorem enum4_eq_enum2 (ctx : Ctx) : (op : Op) → shape2 op = true → enum4 ctx op = enum2 ctx op
  | .bol, _ => by funext p; simp only [enum4, enum2]
  | .eol, _ => by funext p; simp only [enum4, enum2]
  | .nothing, _ => by funext p; simp only [enum4, enum2]
  | .endProgram, _ => by funext p; simp only [enum4, enum2]
  | .atom _, _ => by funext p; simp only [enum4, enum2]
  | .cls _, _ => by funext p; simp only [enum4, enum2]; cases ctx.input[p]? <;> rfl
  | .backref _, h | .rep _ _ _ _ _, h => by simp [shape2] at h
  | .unamb x mn mx, h => by
    simp only [shape2] at h
    have : shape2 x = true := by cases x <;> first | rfl | (simp [isAtomOrClass] at h)
    funext p; simp only [enum4, enum2]; rw [enum4_eq_enum2 ctx x this]
  | .capture _ c, h => by
    simp only [shape2] at h
    funext p; simp only [enum4, enum2]; rw [enum4_eq_enum2 ctx c h]
  | .choice bs, h => by
    simp only [shape2] at h
    funext p; simp only [enum4, enum2]; rw [enumAny4_eq ctx bs h]
  | .seq ops, h => by
    simp only [shape2] at h
    funext p; simp only [enum4, enum2]; rw [enumSeq4_eq ctx ops h]
  | .gfixed c _ _ _, h => by
    simp only [shape2] at h
    funext p; simp only [enum4, enum2]; rw [enum4_eq_enum2 ctx c h]
  | .rfixed c _ _ _, h => by
    simp only [shape2] at h
    funext p; simp only [enum4, enum2]; rw [enum4_eq_enum2 ctx c h]
termination_by structural op => op
theorem enumAny4_eq (ctx : Ctx) : (bs : List Op) → shape2L bs = true → enumAny4 ctx bs = enumAny2 ctx bs
  | [], _ => by funext p; simp only [enumAny4, enumAny2]
  | b :: bs, h => by
    simp only [shape2L, Bool.and_eq_true] at h
    funext p; simp only [enumAny4, enumAny2]; rw [enum4_eq_enum2 ctx b h.1, enumAny4_eq ctx bs h.2]
termination_by structural bs => bs
theorem enumSeq4_eq (ctx : Ctx) : (ops : List Op) → shape2L ops = true → enumSeq4 ctx ops = enumSeq2 ctx ops
  | [], _ => by funext p; simp only [enumSeq4, enumSeq2]
  | o :: os, h => by
    simp only [shape2L, Bool.and_eq_true] at h
    funext p; simp only [enumSeq4, enumSeq2]; rw [enum4_eq_enum2 ctx o h.1, enumSeq4_eq ctx os h.2]
termination_by structural ops => ops
end

theorem enum4_eq_enum3 (ctx : Ctx) (c : Op) (h : shape2 c = true) : enum4 ctx c = enum3 ctx c := by
  rw [enum4_eq_enum2 ctx c h, enum3_eq_enum2 ctx c h]

/-! ### the body of a repeat of the fragment -/

/-- the conditions on the body of `.rep id c mn mx g`, unfolded: `1 ≤ mn` is required of the GREEDY node only -/
structure RepOK4 (env : Env) (ctx : Ctx) (c : Op) (mn mx : Nat) (g : Bool) : Prop where
  mng : g = true → 1 ≤ mn
  mnmx : mn ≤ mx
  mx0 : 0 < mx
  clean : cleanOp2 env ctx.caseBlind ctx.multiLine c = true
  nn : nonNull c = true
  det : detB env ctx.caseBlind c = true
  wf : wfOp c = true
  ne : noEmptyAtoms c = true
  can : clsCanon c

theorem repOK4_of {env : Env} {ctx : Ctx} {id : Nat} {c : Op} {mn mx : Nat} {g top : Bool} {F : List Op}
    (hc : cleanOp4F env ctx.caseBlind ctx.multiLine top F (.rep id c mn mx g) = true)
    (hw : wfOp (.rep id c mn mx g) = true) (hn : noEmptyAtoms (.rep id c mn mx g) = true)
    (hcc : clsCanon (.rep id c mn mx g)) : RepOK4 env ctx c mn mx g := by
  simp only [cleanOp4F, Bool.and_eq_true, Bool.or_eq_true, Bool.not_eq_true', decide_eq_true_eq] at hc
  simp only [wfOp, Bool.and_eq_true, decide_eq_true_eq] at hw
  simp only [noEmptyAtoms] at hn
  simp only [clsCanon] at hcc
  refine ⟨fun hg => ?_, hw.1.2, hw.2, hc.1.1.2, hc.1.2, hc.2, hw.1.1, hn, hcc⟩
  rcases hc.1.1.1 with h | h
  · rw [hg] at h; cases h
  · exact h

/-- the body conditions alone, as the structure of Proofs/Enum3Lemmas (with a dummy minimum) -/
theorem RepOK4.repOK {env : Env} {ctx : Ctx} {c : Op} {mn mx : Nat} {g : Bool} (h : RepOK4 env ctx c mn mx g) :
    RepOK env ctx c 1 mx :=
  ⟨Nat.le_refl 1, h.mx0, h.mx0, h.clean, h.nn, h.det, h.wf, h.ne, h.can⟩

theorem detBody4_of (env : Env) (ctx : Ctx) (hI : InputOK env ctx) {c : Op} {mn mx : Nat} {g : Bool}
    (h : RepOK4 env ctx c mn mx g) : DetBody (sem ctx c) (enum4 ctx c) ctx.len := by
  rw [enum4_eq_enum3 ctx c (shape_of_clean2 env _ _ c _ _ h.clean)]
  exact detBody_of env ctx hI h.repOK

theorem headDet_body4 (env : Env) (ctx : Ctx) (hI : InputOK env ctx) {c : Op} {mn mx : Nat} {g : Bool}
    (h : RepOK4 env ctx c mn mx g) : HeadDet (fun a b => OpR ctx c a b) (enum4 ctx c) ctx.len := by
  rw [enum4_eq_enum3 ctx c (shape_of_clean2 env _ _ c _ _ h.clean)]
  exact headDet_body env ctx hI h.repOK

/-! ### the tree: `sem` yields exactly `enum4` -/

theorem fixedBody4_of (ctx : Ctx) (c : Op) (len : Nat) (hwc : wfOp c = true) (hml : matchLen c = some len)
    (hlen0 : 0 < len) (hlen1 : len < usizeMax)
    (hex : ∀ q, q ≤ ctx.len → ∀ st, Step.Ex (sem ctx c q st) (enum4 ctx c q)) :
    FixedBody (sem ctx c) (enum4 ctx c) len ctx.len where
  pos := hlen0
  ex := hex
  fixed := by
    intro q hq n hn
    have h := hex q hq {}
    exact ⟨h.all (matchLen_sound_op ctx c hwc len hml hlen1 q {}) n hn, (ex_sound ctx c hwc hq h n hn).2⟩

theorem cleanOp4F_irrel (env : Env) (cb ml top : Bool) (F : List Op) (o : Op) (h : ¬ isUnamb o = true) :
    cleanOp4F env cb ml top F o = cleanOp4F env cb ml false [] o := by
  cases o with
  | unamb x mn mx => exact absurd rfl h
  | _ => simp only [cleanOp4F]

theorem cleanOp4F_unamb (env : Env) (cb ml top : Bool) (F : List Op) (x : Op) (mn mx : Nat) :
    cleanOp4F env cb ml top F (.unamb x mn mx) = cleanOp2F env cb ml top F (.unamb x mn mx) := by
  simp only [cleanOp4F, cleanOp2F]

theorem enum4_unamb (ctx : Ctx) (x : Op) (mn mx : Nat) (hx : isAtomOrClass x = true) :
    enum4 ctx (.unamb x mn mx) = enum2 ctx (.unamb x mn mx) :=
  enum4_eq_enum2 ctx _ (by simp only [shape2]; exact hx)

mutual
theorem sem_ex4_op (env : Env) (ctx : Ctx) (hI : InputOK env ctx) : (op : Op) → ∀ top F,
    cleanOp4F env ctx.caseBlind ctx.multiLine top F op = true → wfOp op = true →
    noEmptyAtoms op = true → clsCanon op →
    ∀ p, p ≤ ctx.len → ∀ st, Step.Ex (sem ctx op p st) (enum4 ctx op p)
  | .bol, _, _, _, _, _, _, p, _, st => by simp only [sem]; exact bolGen_ex ctx p st
  | .eol, _, _, _, _, _, _, p, _, st => by simp only [sem]; exact eolGen_ex ctx p st
  | .nothing, _, _, _, _, _, _, p, _, st => by simp only [sem]; exact nothingGen_ex ctx p st
  | .endProgram, _, _, _, _, _, _, p, _, st => by simp only [sem]; exact endGen_ex ctx p st
  | .atom cs, _, _, _, _, _, _, p, _, st => by simp only [sem]; exact atomGen_ex ctx cs p st
  | .cls rs, _, _, _, _, _, _, p, _, st => by simp only [sem]; exact clsGen_ex ctx rs p st
  | .backref _, _, _, hc, _, _, _, _, _, _ => by simp [cleanOp4F] at hc
  | .rep id c mn mx g, _, _, hc, hwf, hne, hcc, p, hp, st => by
    have hr := repOK4_of hc hwf hne hcc
    cases g with
    | true =>
      simp only [sem, if_true, enum4]
      exact repGreedy_ex ctx (detBody4_of env ctx hI hr) id mn mx (hr.mng rfl) hr.mx0 p hp st
    | false =>
      simp only [sem, enum4, Bool.false_eq_true, if_false]
      exact repReluct_ex ctx (detBody4_of env ctx hI hr).progBody mn mx hr.mnmx p hp st
  | .unamb x mn mx, _, _, hc, hwf, hne, _, p, hp, st => by
    simp only [cleanOp4F, Bool.and_eq_true] at hc
    simp only [noEmptyAtoms] at hne
    obtain ⟨len, hb⟩ := leaf_fixedBody ctx x hc.1 hne
    rw [enum4_unamb ctx x mn mx hc.1]
    simp only [sem, enum2]
    exact unambGen_ex ctx hb mn mx p hp st
  | .capture g c, _, _, hc, hwf, hne, hcc, p, hp, st => by
    simp only [cleanOp4F] at hc
    simp only [wfOp] at hwf
    simp only [noEmptyAtoms] at hne
    simp only [clsCanon] at hcc
    simp only [sem, enum4]
    exact captureGen_ex (fun st' => sem_ex4_op env ctx hI c _ _ hc hwf hne hcc p hp st') ctx g st
  | .choice bs, _, _, hc, hwf, hne, hcc, p, hp, st => by
    simp only [cleanOp4F] at hc
    simp only [wfOp, Bool.and_eq_true] at hwf
    simp only [noEmptyAtoms] at hne
    simp only [clsCanon] at hcc
    simp only [sem, enum4]
    exact sem_ex4_any env ctx hI bs hc hwf.2 hne hcc p hp st
  | .seq ops, _, _, hc, hwf, hne, hcc, p, hp, st => by
    simp only [cleanOp4F] at hc
    simp only [wfOp, Bool.and_eq_true, Bool.not_eq_true', List.isEmpty_eq_false_iff] at hwf
    simp only [noEmptyAtoms] at hne
    simp only [clsCanon] at hcc
    simp only [sem, enum4]
    exact seqGen_ex (fun st' => sem_ex4_seq env ctx hI ops false hwf.1 hc hwf.2 hne hcc p hp st') _ st
  | .gfixed c mn mx len, _, _, hc, hwf, hne, hcc, p, hp, st => by
    simp only [cleanOp4F] at hc
    simp only [wfOp, Bool.and_eq_true, decide_eq_true_eq, beq_iff_eq] at hwf
    obtain ⟨⟨⟨⟨⟨hwc, hml⟩, hlen0⟩, hlen1⟩, _⟩, hmx⟩ := hwf
    simp only [noEmptyAtoms] at hne
    simp only [clsCanon] at hcc
    simp only [sem, enum4]
    exact gfixedGen_ex ctx
      (fixedBody4_of ctx c len hwc hml hlen0 hlen1
        (fun q hq st' => sem_ex4_op env ctx hI c _ _ hc hwc hne hcc q hq st'))
      mn mx hmx p hp st
  | .rfixed c mn mx len, _, _, hc, hwf, hne, hcc, p, hp, st => by
    simp only [cleanOp4F] at hc
    simp only [wfOp, Bool.and_eq_true, decide_eq_true_eq, beq_iff_eq] at hwf
    obtain ⟨⟨⟨⟨⟨hwc, hml⟩, hlen0⟩, hlen1⟩, hmm⟩, _⟩ := hwf
    simp only [noEmptyAtoms] at hne
    simp only [clsCanon] at hcc
    simp only [sem, enum4]
    exact rfixedGen_ex ctx
      (fixedBody4_of ctx c len hwc hml hlen0 hlen1
        (fun q hq st' => sem_ex4_op env ctx hI c _ _ hc hwc hne hcc q hq st'))
      mn mx hmm p hp st
termination_by structural op => op
theorem sem_ex4_any (env : Env) (ctx : Ctx) (hI : InputOK env ctx) : (bs : List Op) →
    cleanAll4 env ctx.caseBlind ctx.multiLine bs = true → wfOps bs = true →
    noEmptyAtomsL bs = true → clsCanonL bs →
    ∀ p, p ≤ ctx.len → ∀ st, Step.Ex (choiceGen (semL ctx bs) p st) (enumAny4 ctx bs p)
  | [], _, _, _, _, p, _, st => by simp only [semL, enumAny4]; exact choiceGen_nil_ex p st
  | b :: bs, hc, hwf, hne, hcc, p, hp, st => by
    simp only [cleanAll4, Bool.and_eq_true] at hc
    simp only [wfOps, Bool.and_eq_true] at hwf
    simp only [noEmptyAtomsL, Bool.and_eq_true] at hne
    simp only [clsCanonL] at hcc
    simp only [semL, enumAny4]
    exact choiceGen_cons_ex (fun st' => sem_ex4_op env ctx hI b _ _ hc.1 hwf.1 hne.1 hcc.1 p hp st')
      (fun st' => sem_ex4_any env ctx hI bs hc.2 hwf.2 hne.2 hcc.2 p hp st') st
termination_by structural bs => bs
theorem sem_ex4_seq (env : Env) (ctx : Ctx) (hI : InputOK env ctx) : (ops : List Op) → ∀ top, ops ≠ [] →
    cleanSeq4 env ctx.caseBlind ctx.multiLine top ops = true → wfOps ops = true →
    noEmptyAtomsL ops = true → clsCanonL ops →
    ∀ p, p ≤ ctx.len → ∀ st, Step.Ex (seqGo (semL ctx ops) p st) (enumSeq4 ctx ops p)
  | [], _, hnil, _, _, _, _, _, _, _ => absurd rfl hnil
  | [o], top, _, hc, hwf, hne, hcc, p, hp, st => by
    simp only [cleanSeq4, Bool.and_eq_true] at hc
    simp only [wfOps, Bool.and_eq_true] at hwf
    simp only [noEmptyAtomsL, Bool.and_eq_true] at hne
    simp only [clsCanonL] at hcc
    simp only [semL, enumSeq4]
    rw [flatMap_single]
    exact seqGo_single_ex (fun st' => sem_ex4_op env ctx hI o _ _ hc.1 hwf.1 hne.1 hcc.1 p hp st') st
  | o :: o2 :: os, top, _, hc, hwf, hne, hcc, p, hp, st => by
    simp only [cleanSeq4, Bool.and_eq_true] at hc
    simp only [wfOps, Bool.and_eq_true] at hwf
    simp only [noEmptyAtomsL, Bool.and_eq_true] at hne
    simp only [clsCanonL] at hcc
    have hc2 : cleanSeq4 env ctx.caseBlind ctx.multiLine top (o2 :: os) = true := by
      simp only [cleanSeq4, Bool.and_eq_true]; exact hc.2
    have hw2 : wfOps (o2 :: os) = true := by simp only [wfOps, Bool.and_eq_true]; exact hwf.2
    have hn2 : noEmptyAtomsL (o2 :: os) = true := by simp only [noEmptyAtomsL, Bool.and_eq_true]; exact hne.2
    have hcc2 : clsCanonL (o2 :: os) := by simp only [clsCanonL]; exact hcc.2
    have h1 : ∀ st', Step.Ex (sem ctx o p st') (enum4 ctx o p) :=
      fun st' => sem_ex4_op env ctx hI o _ _ hc.1 hwf.1 hne.1 hcc.1 p hp st'
    show Step.Ex (seqGo (sem ctx o :: sem ctx o2 :: semL ctx os) p st)
      ((enum4 ctx o p).flatMap (enumSeq4 ctx (o2 :: os)))
    refine seqGo_cons_ex h1 (fun n hn st' => ?_) st
    have hnL : n ≤ ctx.len := (ex_sound ctx o hwf.1 hp (h1 {}) n hn).2
    exact sem_ex4_seq env ctx hI (o2 :: os) top (List.cons_ne_nil _ _) hc2 hw2 hn2 hcc2 n hnL st'
termination_by structural ops => ops
end

/-- a whole program of the fragment -/
theorem sem_ex4_prog (env : Env) (ctx : Ctx) (hI : InputOK env ctx) (op : Op)
    (hc : cleanProg4 env ctx.caseBlind ctx.multiLine op = true) (hwf : wfOp op = true)
    (hne : noEmptyAtoms op = true) (hcc : clsCanon op) (p : Nat) (hp : p ≤ ctx.len) (st : St) :
    Step.Ex (sem ctx op p st) (enum4 ctx op p) := by
  by_cases hseq : ∃ ops, op = .seq ops
  · obtain ⟨ops, rfl⟩ := hseq
    simp only [cleanProg4] at hc
    simp only [wfOp, Bool.and_eq_true, Bool.not_eq_true', List.isEmpty_eq_false_iff] at hwf
    simp only [noEmptyAtoms] at hne
    simp only [clsCanon] at hcc
    simp only [sem, enum4]
    exact seqGen_ex (fun st' => sem_ex4_seq env ctx hI ops true hwf.1 hc hwf.2 hne hcc p hp st') _ st
  · have hc' : cleanOp4F env ctx.caseBlind ctx.multiLine false [] op = true := by
      cases op with
      | seq ops => exact absurd ⟨ops, rfl⟩ hseq
      | _ => exact hc
    exact sem_ex4_op env ctx hI op _ _ hc' hwf hne hcc p hp st

theorem enum4_sound_prog (env : Env) (ctx : Ctx) (hI : InputOK env ctx) (op : Op)
    (hc : cleanProg4 env ctx.caseBlind ctx.multiLine op = true) (hwf : wfOp op = true)
    (hne : noEmptyAtoms op = true) (hcc : clsCanon op) {p q : Nat} (hp : p ≤ ctx.len)
    (h : q ∈ enum4 ctx op p) : OpR ctx op p q :=
  (ex_sound ctx op hwf hp (sem_ex4_prog env ctx hI op hc hwf hne hcc p hp {}) q h).1

/-! ### `enum4` is complete on the compositional fragment -/

theorem enum4_sound_op (env : Env) (ctx : Ctx) (hI : InputOK env ctx) (op : Op) (top : Bool) (F : List Op)
    (hc : cleanOp4F env ctx.caseBlind ctx.multiLine top F op = true) (hwf : wfOp op = true)
    (hne : noEmptyAtoms op = true) (hcc : clsCanon op) {p q : Nat} (hp : p ≤ ctx.len)
    (h : q ∈ enum4 ctx op p) : OpR ctx op p q :=
  (ex_sound ctx op hwf hp (sem_ex4_op env ctx hI op top F hc hwf hne hcc p hp {}) q h).1

/-- the `.unamb` element of a sequence, in terms of `enum4` -/
theorem unamb_elem4 (env : Env) (ctx : Ctx) (hI : InputOK env ctx) (top : Bool) (x : Op) (mn mx : Nat)
    (F : List Op) (hc : cleanOp4F env ctx.caseBlind ctx.multiLine top F (.unamb x mn mx) = true)
    (hnx : noEmptyAtoms x = true) (hcx : clsCanon x)
    (hwF : wfOps F = true) (hnF : noEmptyAtomsL F = true) (hcF : clsCanonL F)
    (p m q : Nat) (hp : p ≤ ctx.len) (h1 : OpR ctx (.unamb x mn mx) p m) (hF : OpRSeq ctx F m q) :
    (enum4 ctx (.unamb x mn mx) p = [m] ∧ m ≤ ctx.len) ∨
    (F = [.endProgram] ∧ top = true ∧ ∃ m', enum4 ctx (.unamb x mn mx) p = [m'] ∧ m' ≤ ctx.len) := by
  have hx : isAtomOrClass x = true := by
    simp only [cleanOp4F, Bool.and_eq_true] at hc; exact hc.1
  rw [cleanOp4F_unamb] at hc
  rw [enum4_unamb ctx x mn mx hx]
  exact unamb_elem env ctx hI top x mn mx F hc hnx hcx hwF hnF hcF p m q hp h1 hF

mutual
theorem comp4_op (env : Env) (ctx : Ctx) (hI : InputOK env ctx) : (op : Op) →
    cleanOp4F env ctx.caseBlind ctx.multiLine false [] op = true → wfOp op = true →
    noEmptyAtoms op = true → clsCanon op →
    ∀ p q, p ≤ ctx.len → OpR ctx op p q → q ∈ enum4 ctx op p
  | .bol, _, _, _, _, p, q, _, h => by
    simp only [OpR] at h
    simp only [enum4]
    rw [if_pos h.2, h.1]; exact List.mem_singleton.2 rfl
  | .eol, _, _, _, _, p, q, _, h => by
    simp only [OpR] at h
    simp only [enum4]
    rw [if_pos h.2, h.1]; exact List.mem_singleton.2 rfl
  | .nothing, _, _, _, _, p, q, _, h => by
    simp only [OpR] at h
    simp only [enum4]
    rw [h]; exact List.mem_singleton.2 rfl
  | .endProgram, _, _, _, _, p, q, _, h => by
    simp only [OpR] at h
    simp only [enum4]
    rw [h]; exact List.mem_singleton.2 rfl
  | .atom cs, _, _, _, _, p, q, _, h => by
    simp only [OpR] at h
    obtain ⟨rfl, h2, h3⟩ := h
    simp only [enum4]
    rw [if_pos ⟨h2, h3⟩]; exact List.mem_singleton.2 rfl
  | .cls rs, _, _, _, _, p, q, _, h => by
    simp only [OpR] at h
    obtain ⟨rfl, c, h2, h3⟩ := h
    simp only [enum4]
    rw [h2]
    simp only
    rw [if_pos h3]; exact List.mem_singleton.2 rfl
  | .backref _, hc, _, _, _, _, _, _, _ => by simp [cleanOp4F] at hc
  | .rep id c mn mx g, hc, hwf, hne, hcc, p, q, hp, h => by
    have hr := repOK4_of hc hwf hne hcc
    simp only [OpR] at h
    obtain ⟨k, hk1, hk2, hi⟩ := h
    cases g with
    | true =>
      simp only [enum4, if_true]
      exact greedyIter_complete (headDet_body4 env ctx hI hr) mn mx 0 p k q hp hi hk2 (by omega)
    | false =>
      simp only [enum4, Bool.false_eq_true, if_false]
      exact reluctIter_complete (headDet_body4 env ctx hI hr) mn mx 0 p k q hp hi hk2 (by omega)
  | .unamb x mn mx, hc, hwf, hne, hcc, p, q, hp, h => by
    simp only [noEmptyAtoms] at hne
    simp only [clsCanon] at hcc
    rcases unamb_elem4 env ctx hI false x mn mx [] hc hne hcc rfl rfl (by simp only [clsCanonL])
      p q q hp h (by simp only [OpRSeq]) with ⟨h1, _⟩ | ⟨h1, _⟩
    · rw [h1]; exact List.mem_singleton.2 rfl
    · cases h1
  | .capture g c, hc, hwf, hne, hcc, p, q, hp, h => by
    simp only [cleanOp4F] at hc
    simp only [wfOp] at hwf
    simp only [noEmptyAtoms] at hne
    simp only [clsCanon] at hcc
    simp only [OpR] at h
    simp only [enum4]
    exact comp4_op env ctx hI c hc hwf hne hcc p q hp h
  | .choice bs, hc, hwf, hne, hcc, p, q, hp, h => by
    simp only [cleanOp4F] at hc
    simp only [wfOp, Bool.and_eq_true] at hwf
    simp only [noEmptyAtoms] at hne
    simp only [clsCanon] at hcc
    simp only [OpR] at h
    simp only [enum4]
    exact comp4_any env ctx hI bs hc hwf.2 hne hcc p q hp h
  | .seq ops, hc, hwf, hne, hcc, p, q, hp, h => by
    simp only [cleanOp4F] at hc
    simp only [wfOp, Bool.and_eq_true] at hwf
    simp only [noEmptyAtoms] at hne
    simp only [clsCanon] at hcc
    simp only [OpR] at h
    simp only [enum4]
    exact comp4_seq env ctx hI ops hc hwf.2 hne hcc p q hp h
  | .gfixed c mn mx len, hc, hwf, hne, hcc, p, q, hp, h => by
    simp only [cleanOp4F] at hc
    simp only [wfOp, Bool.and_eq_true, decide_eq_true_eq, beq_iff_eq] at hwf
    obtain ⟨⟨⟨⟨⟨hwc, hml⟩, hlen0⟩, hlen1⟩, _⟩, hmx⟩ := hwf
    simp only [noEmptyAtoms] at hne
    simp only [clsCanon] at hcc
    simp only [OpR] at h
    obtain ⟨k, hk1, hk2, hi⟩ := h
    simp only [enum4]
    have hb := fixedBody4_of ctx c len hwc hml hlen0 hlen1
      (fun q hq st' => sem_ex4_op env ctx hI c _ _ hc hwc hne hcc q hq st')
    have hd : HeadDet (fun a b => OpR ctx c a b) (enum4 ctx c) ctx.len := by
      constructor
      intro a ha b hr
      have hmem := comp4_op env ctx hI c hc hwc hne hcc a b ha hr
      have hb1 := hb.fixed a ha b hmem
      cases hl : enum4 ctx c a with
      | nil => rw [hl] at hmem; cases hmem
      | cons x t =>
        have hx := hb.fixed a ha x (by rw [hl]; exact List.mem_cons_self)
        have : x = b := by omega
        subst this
        exact ⟨⟨t, rfl⟩, hb1.2⟩
    exact greedyIter_complete hd mn mx 0 p k q hp hi hk2 (by omega)
  | .rfixed c mn mx len, hc, hwf, hne, hcc, p, q, hp, h => by
    simp only [cleanOp4F] at hc
    simp only [wfOp, Bool.and_eq_true, decide_eq_true_eq, beq_iff_eq] at hwf
    obtain ⟨⟨⟨⟨⟨hwc, hml⟩, hlen0⟩, hlen1⟩, _⟩, hmx⟩ := hwf
    simp only [noEmptyAtoms] at hne
    simp only [clsCanon] at hcc
    simp only [OpR] at h
    obtain ⟨k, hk1, hk2, hi⟩ := h
    simp only [enum4]
    have hb := fixedBody4_of ctx c len hwc hml hlen0 hlen1
      (fun q hq st' => sem_ex4_op env ctx hI c _ _ hc hwc hne hcc q hq st')
    have hd : HeadDet (fun a b => OpR ctx c a b) (enum4 ctx c) ctx.len := by
      constructor
      intro a ha b hr
      have hmem := comp4_op env ctx hI c hc hwc hne hcc a b ha hr
      have hb1 := hb.fixed a ha b hmem
      cases hl : enum4 ctx c a with
      | nil => rw [hl] at hmem; cases hmem
      | cons x t =>
        have hx := hb.fixed a ha x (by rw [hl]; exact List.mem_cons_self)
        have : x = b := by omega
        subst this
        exact ⟨⟨t, rfl⟩, hb1.2⟩
    exact reluctIter_complete hd mn mx 0 p k q hp hi hk2 (by omega)
termination_by structural op => op
theorem comp4_any (env : Env) (ctx : Ctx) (hI : InputOK env ctx) : (bs : List Op) →
    cleanAll4 env ctx.caseBlind ctx.multiLine bs = true → wfOps bs = true →
    noEmptyAtomsL bs = true → clsCanonL bs →
    ∀ p q, p ≤ ctx.len → OpRAny ctx bs p q → q ∈ enumAny4 ctx bs p
  | [], _, _, _, _, p, q, _, h => by simp only [OpRAny] at h
  | b :: bs, hc, hwf, hne, hcc, p, q, hp, h => by
    simp only [cleanAll4, Bool.and_eq_true] at hc
    simp only [wfOps, Bool.and_eq_true] at hwf
    simp only [noEmptyAtomsL, Bool.and_eq_true] at hne
    simp only [clsCanonL] at hcc
    simp only [OpRAny] at h
    simp only [enumAny4, List.mem_append]
    rcases h with h | h
    · exact .inl (comp4_op env ctx hI b hc.1 hwf.1 hne.1 hcc.1 p q hp h)
    · exact .inr (comp4_any env ctx hI bs hc.2 hwf.2 hne.2 hcc.2 p q hp h)
termination_by structural bs => bs
theorem comp4_seq (env : Env) (ctx : Ctx) (hI : InputOK env ctx) : (ops : List Op) →
    cleanSeq4 env ctx.caseBlind ctx.multiLine false ops = true → wfOps ops = true →
    noEmptyAtomsL ops = true → clsCanonL ops →
    ∀ p q, p ≤ ctx.len → OpRSeq ctx ops p q → q ∈ enumSeq4 ctx ops p
  | [], _, _, _, _, p, q, _, h => by
    simp only [OpRSeq] at h
    simp only [enumSeq4]
    rw [h]; exact List.mem_singleton.2 rfl
  | o :: os, hc, hwf, hne, hcc, p, q, hp, h => by
    simp only [cleanSeq4, Bool.and_eq_true] at hc
    simp only [wfOps, Bool.and_eq_true] at hwf
    simp only [noEmptyAtomsL, Bool.and_eq_true] at hne
    simp only [clsCanonL] at hcc
    simp only [OpRSeq] at h
    obtain ⟨m, h1, h2⟩ := h
    simp only [enumSeq4, List.mem_flatMap]
    by_cases hu : isUnamb o = true
    · obtain ⟨x, mn, mx, rfl⟩ := isUnamb_true hu
      have hnx : noEmptyAtoms x = true := by simpa only [noEmptyAtoms] using hne.1
      have hcx : clsCanon x := by simpa only [clsCanon] using hcc.1
      rcases unamb_elem4 env ctx hI false x mn mx os hc.1 hnx hcx hwf.2 hne.2 hcc.2 p m q hp h1 h2 with
        ⟨he, hmL⟩ | ⟨_, ht, _⟩
      · exact ⟨m, by rw [he]; exact List.mem_singleton.2 rfl,
          comp4_seq env ctx hI os hc.2 hwf.2 hne.2 hcc.2 m q hmL h2⟩
      · cases ht
    · have hco : cleanOp4F env ctx.caseBlind ctx.multiLine false [] o = true := by
        rw [← cleanOp4F_irrel env _ _ false os o hu]; exact hc.1
      have hm := (OpR_bounds_op ctx o p m hp h1).2
      exact ⟨m, comp4_op env ctx hI o hco hwf.1 hne.1 hcc.1 p m hp h1,
        comp4_seq env ctx hI os hc.2 hwf.2 hne.2 hcc.2 m q hm h2⟩
termination_by structural ops => ops
end

/-! ### existence-completeness for a root sequence -/

theorem exist4_seq (env : Env) (ctx : Ctx) (hI : InputOK env ctx) : ∀ (ops : List Op),
    cleanSeq4 env ctx.caseBlind ctx.multiLine true ops = true → wfOps ops = true →
    noEmptyAtomsL ops = true → clsCanonL ops →
    ∀ p q, p ≤ ctx.len → OpRSeq ctx ops p q → enumSeq4 ctx ops p ≠ [] := by
  intro ops
  induction ops with
  | nil => intro _ _ _ _ p q _ _; simp [enumSeq4]
  | cons o os ih =>
    intro hc hwf hne hcc p q hp h
    simp only [cleanSeq4, Bool.and_eq_true] at hc
    simp only [wfOps, Bool.and_eq_true] at hwf
    simp only [noEmptyAtomsL, Bool.and_eq_true] at hne
    simp only [clsCanonL] at hcc
    simp only [OpRSeq] at h
    obtain ⟨m, h1, h2⟩ := h
    simp only [enumSeq4]
    have key : ∀ m', m' ∈ enum4 ctx o p → enumSeq4 ctx os m' ≠ [] →
        (enum4 ctx o p).flatMap (enumSeq4 ctx os) ≠ [] := by
      intro m' hm' hne' hnil
      rw [List.flatMap_eq_nil_iff] at hnil
      exact hne' (hnil m' hm')
    by_cases hu : isUnamb o = true
    · obtain ⟨x, mn, mx, rfl⟩ := isUnamb_true hu
      have hnx : noEmptyAtoms x = true := by simpa only [noEmptyAtoms] using hne.1
      have hcx : clsCanon x := by simpa only [clsCanon] using hcc.1
      rcases unamb_elem4 env ctx hI true x mn mx os hc.1 hnx hcx hwf.2 hne.2 hcc.2 p m q hp h1 h2 with
        ⟨he, hmL⟩ | ⟨rfl, _, m', he, hmL⟩
      · exact key m (by rw [he]; exact List.mem_singleton.2 rfl) (ih hc.2 hwf.2 hne.2 hcc.2 m q hmL h2)
      · refine key m' (by rw [he]; exact List.mem_singleton.2 rfl) ?_
        simp [enumSeq4, enum4]
    · have hco : cleanOp4F env ctx.caseBlind ctx.multiLine false [] o = true := by
        rw [← cleanOp4F_irrel env _ _ true os o hu]; exact hc.1
      have hm := (OpR_bounds_op ctx o p m hp h1).2
      exact key m (comp4_op env ctx hI o hco hwf.1 hne.1 hcc.1 p m hp h1)
        (ih hc.2 hwf.2 hne.2 hcc.2 m q hm h2)

/-! ### structural facts about the fragment -/

mutual
theorem clean4_noBackref (env : Env) (cb ml : Bool) : (op : Op) → ∀ top F,
    cleanOp4F env cb ml top F op = true → hasBackref op = false
  | .bol, _, _, _ | .eol, _, _, _ | .nothing, _, _, _ | .endProgram, _, _, _
  | .atom _, _, _, _ | .cls _, _, _, _ => rfl
  | .backref _, _, _, h => by simp [cleanOp4F] at h
  | .rep _ c _ _ _, _, _, h => by
    simp only [cleanOp4F, Bool.and_eq_true] at h
    simp only [hasBackref]
    exact Clean2.shape2_noBackref c (shape_of_clean2 env cb ml c _ _ h.1.1.2)
  | .unamb x _ _, _, _, h => by
    simp only [cleanOp4F, Bool.and_eq_true] at h
    simp only [hasBackref]
    cases x <;> first | rfl | (have := h.1; simp [isAtomOrClass] at this)
  | .capture _ c, _, _, h => by
    simp only [cleanOp4F] at h; simp only [hasBackref]; exact clean4_noBackref env cb ml c _ _ h
  | .choice bs, _, _, h => by
    simp only [cleanOp4F] at h; simp only [hasBackref]; exact clean4_noBackrefAll env cb ml bs h
  | .seq ops, _, _, h => by
    simp only [cleanOp4F] at h; simp only [hasBackref]; exact clean4_noBackrefSeq env cb ml ops _ h
  | .gfixed c _ _ _, _, _, h => by
    simp only [cleanOp4F] at h; simp only [hasBackref]; exact clean4_noBackref env cb ml c _ _ h
  | .rfixed c _ _ _, _, _, h => by
    simp only [cleanOp4F] at h; simp only [hasBackref]; exact clean4_noBackref env cb ml c _ _ h
termination_by structural op => op
theorem clean4_noBackrefAll (env : Env) (cb ml : Bool) : (ops : List Op) →
    cleanAll4 env cb ml ops = true → hasBackrefL ops = false
  | [], _ => rfl
  | o :: os, h => by
    simp only [cleanAll4, Bool.and_eq_true] at h
    simp only [hasBackrefL, Bool.or_eq_false_iff]
    exact ⟨clean4_noBackref env cb ml o _ _ h.1, clean4_noBackrefAll env cb ml os h.2⟩
termination_by structural ops => ops
theorem clean4_noBackrefSeq (env : Env) (cb ml : Bool) : (ops : List Op) → ∀ top,
    cleanSeq4 env cb ml top ops = true → hasBackrefL ops = false
  | [], _, _ => rfl
  | o :: os, top, h => by
    simp only [cleanSeq4, Bool.and_eq_true] at h
    simp only [hasBackrefL, Bool.or_eq_false_iff]
    exact ⟨clean4_noBackref env cb ml o _ _ h.1, clean4_noBackrefSeq env cb ml os top h.2⟩
termination_by structural ops => ops
end


mutual
/-- the fragment of Spec/Enum2 is inside the new one -/
theorem clean4_of_clean2 (env : Env) (cb ml : Bool) : (op : Op) → ∀ top F,
    cleanOp2F env cb ml top F op = true → cleanOp4F env cb ml top F op = true
  | .bol, _, _, _ | .eol, _, _, _ | .nothing, _, _, _ | .endProgram, _, _, _
  | .atom _, _, _, _ | .cls _, _, _, _ => rfl
  | .backref _, _, _, h | .rep _ _ _ _ _, _, _, h => by simp [cleanOp2F] at h
  | .unamb x mn mx, _, _, h => by rw [cleanOp4F_unamb]; exact h
  | .capture _ c, _, _, h => by
    simp only [cleanOp2F] at h; simp only [cleanOp4F]; exact clean4_of_clean2 env cb ml c _ _ h
  | .choice bs, _, _, h => by
    simp only [cleanOp2F] at h; simp only [cleanOp4F]; exact clean4_of_clean2All env cb ml bs h
  | .seq ops, _, _, h => by
    simp only [cleanOp2F] at h; simp only [cleanOp4F]; exact clean4_of_clean2Seq env cb ml ops _ h
  | .gfixed c _ _ _, _, _, h => by
    simp only [cleanOp2F] at h; simp only [cleanOp4F]; exact clean4_of_clean2 env cb ml c _ _ h
  | .rfixed c _ _ _, _, _, h => by
    simp only [cleanOp2F] at h; simp only [cleanOp4F]; exact clean4_of_clean2 env cb ml c _ _ h
termination_by structural op => op
theorem clean4_of_clean2All (env : Env) (cb ml : Bool) : (ops : List Op) →
    cleanAll2 env cb ml ops = true → cleanAll4 env cb ml ops = true
  | [], _ => rfl
  | o :: os, h => by
    simp only [cleanAll2, Bool.and_eq_true] at h
    simp only [cleanAll4, Bool.and_eq_true]
    exact ⟨clean4_of_clean2 env cb ml o _ _ h.1, clean4_of_clean2All env cb ml os h.2⟩
termination_by structural ops => ops
theorem clean4_of_clean2Seq (env : Env) (cb ml : Bool) : (ops : List Op) → ∀ top,
    cleanSeq2 env cb ml top ops = true → cleanSeq4 env cb ml top ops = true
  | [], _, _ => rfl
  | o :: os, top, h => by
    simp only [cleanSeq2, Bool.and_eq_true] at h
    simp only [cleanSeq4, Bool.and_eq_true]
    exact ⟨clean4_of_clean2 env cb ml o _ _ h.1, clean4_of_clean2Seq env cb ml os top h.2⟩
termination_by structural ops => ops
end


mutual
/-- the fragment of Spec/Enum3 is inside the new one -/
theorem clean4_of_clean3 (env : Env) (cb ml : Bool) : (op : Op) → ∀ top F,
    cleanOp3F env cb ml top F op = true → cleanOp4F env cb ml top F op = true
  | .bol, _, _, _ | .eol, _, _, _ | .nothing, _, _, _ | .endProgram, _, _, _
  | .atom _, _, _, _ | .cls _, _, _, _ => rfl
  | .backref _, _, _, h => by simp [cleanOp3F] at h
  | .rep _ c mn _ g, _, _, h => by
    simp only [cleanOp3F, Bool.and_eq_true] at h
    simp only [cleanOp4F, Bool.and_eq_true, Bool.or_eq_true]
    exact ⟨⟨⟨.inr h.1.1.1.2, h.1.1.2⟩, h.1.2⟩, h.2⟩
  | .unamb x mn mx, _, _, h => by simp only [cleanOp3F] at h; simp only [cleanOp4F]; exact h
  | .capture _ c, _, _, h => by
    simp only [cleanOp3F] at h; simp only [cleanOp4F]; exact clean4_of_clean3 env cb ml c _ _ h
  | .choice bs, _, _, h => by
    simp only [cleanOp3F] at h; simp only [cleanOp4F]; exact clean4_of_clean3All env cb ml bs h
  | .seq ops, _, _, h => by
    simp only [cleanOp3F] at h; simp only [cleanOp4F]; exact clean4_of_clean3Seq env cb ml ops _ h
  | .gfixed c _ _ _, _, _, h => by
    simp only [cleanOp3F] at h; simp only [cleanOp4F]; exact clean4_of_clean3 env cb ml c _ _ h
  | .rfixed c _ _ _, _, _, h => by
    simp only [cleanOp3F] at h; simp only [cleanOp4F]; exact clean4_of_clean3 env cb ml c _ _ h
termination_by structural op => op
theorem clean4_of_clean3All (env : Env) (cb ml : Bool) : (ops : List Op) →
    cleanAll3 env cb ml ops = true → cleanAll4 env cb ml ops = true
  | [], _ => rfl
  | o :: os, h => by
    simp only [cleanAll3, Bool.and_eq_true] at h
    simp only [cleanAll4, Bool.and_eq_true]
    exact ⟨clean4_of_clean3 env cb ml o _ _ h.1, clean4_of_clean3All env cb ml os h.2⟩
termination_by structural ops => ops
theorem clean4_of_clean3Seq (env : Env) (cb ml : Bool) : (ops : List Op) → ∀ top,
    cleanSeq3 env cb ml top ops = true → cleanSeq4 env cb ml top ops = true
  | [], _, _ => rfl
  | o :: os, top, h => by
    simp only [cleanSeq3, Bool.and_eq_true] at h
    simp only [cleanSeq4, Bool.and_eq_true]
    exact ⟨clean4_of_clean3 env cb ml o _ _ h.1, clean4_of_clean3Seq env cb ml os top h.2⟩
termination_by structural ops => ops
end

mutual
/-- on the fragment of Spec/Enum3 the two enumerations coincide -/
theorem enum4_eq_enum3_shape (ctx : Ctx) : (op : Op) → shape3 op = true → enum4 ctx op = enum3 ctx op
  | .bol, _ => by funext p; simp only [enum3, enum4]
  | .eol, _ => by funext p; simp only [enum3, enum4]
  | .nothing, _ => by funext p; simp only [enum3, enum4]
  | .endProgram, _ => by funext p; simp only [enum3, enum4]
  | .atom _, _ => by funext p; simp only [enum3, enum4]
  | .cls _, _ => by funext p; simp only [enum3, enum4]; cases ctx.input[p]? <;> rfl
  | .backref _, h => by simp [shape3] at h
  | .rep _ c mn mx g, h => by
    simp only [shape3, Bool.and_eq_true] at h
    obtain ⟨⟨rfl, _⟩, hs⟩ := h
    funext p; simp only [enum3, enum4, if_true]; rw [enum4_eq_enum3 ctx c hs]
  | .unamb x mn mx, h => by
    simp only [shape3] at h
    have : shape2 x = true := by cases x <;> first | rfl | (simp [isAtomOrClass] at h)
    funext p; simp only [enum3, enum4]; rw [enum4_eq_enum3 ctx x this]
  | .capture _ c, h => by
    simp only [shape3] at h
    funext p; simp only [enum3, enum4]; rw [enum4_eq_enum3_shape ctx c h]
  | .choice bs, h => by
    simp only [shape3] at h
    funext p; simp only [enum3, enum4]; rw [enumAny4_eq3 ctx bs h]
  | .seq ops, h => by
    simp only [shape3] at h
    funext p; simp only [enum3, enum4]; rw [enumSeq4_eq3 ctx ops h]
  | .gfixed c _ _ _, h => by
    simp only [shape3] at h
    funext p; simp only [enum3, enum4]; rw [enum4_eq_enum3_shape ctx c h]
  | .rfixed c _ _ _, h => by
    simp only [shape3] at h
    funext p; simp only [enum3, enum4]; rw [enum4_eq_enum3_shape ctx c h]
termination_by structural op => op
theorem enumAny4_eq3 (ctx : Ctx) : (bs : List Op) → shape3L bs = true → enumAny4 ctx bs = enumAny3 ctx bs
  | [], _ => by funext p; simp only [enumAny3, enumAny4]
  | b :: bs, h => by
    simp only [shape3L, Bool.and_eq_true] at h
    funext p; simp only [enumAny3, enumAny4]; rw [enum4_eq_enum3_shape ctx b h.1, enumAny4_eq3 ctx bs h.2]
termination_by structural bs => bs
theorem enumSeq4_eq3 (ctx : Ctx) : (ops : List Op) → shape3L ops = true → enumSeq4 ctx ops = enumSeq3 ctx ops
  | [], _ => by funext p; simp only [enumSeq3, enumSeq4]
  | o :: os, h => by
    simp only [shape3L, Bool.and_eq_true] at h
    funext p; simp only [enumSeq3, enumSeq4]; rw [enum4_eq_enum3_shape ctx o h.1, enumSeq4_eq3 ctx os h.2]
termination_by structural ops => ops
end

/-! ### reluctant = shortest first -/

/-- over a body that makes progress the reluctant enumeration is STRICTLY INCREASING: its head is its minimum -/
theorem reluctIter_sorted {e : Nat → List Nat} {L : Nat} (hp : Progress e L) (mn : Nat) :
    ∀ b k p, p ≤ L → (reluctIter e mn b k p).Pairwise (· < ·) := by
  intro b
  induction b with
  | zero =>
    intro k p _
    simp only [reluctIter]
    split <;> simp
  | succ b ih =>
    intro k p hpL
    simp only [reluctIter]
    cases hl : e p with
    | nil =>
      simp only [List.append_nil]
      split <;> simp
    | cons q t =>
      obtain ⟨hq1, hq2⟩ := hp p hpL q (by rw [hl]; exact List.mem_cons_self)
      have i1 := (reluctIter_nodup hp mn b (k + 1) q hq2).1
      have i2 := ih (k + 1) q hq2
      simp only
      split
      · rw [List.singleton_append, List.pairwise_cons]
        exact ⟨fun x hx => by have := i1 x hx; omega, i2⟩
      · rw [List.nil_append]; exact i2

end Rx
