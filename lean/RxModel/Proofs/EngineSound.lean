/-
  Proofs/EngineSound — soundness of every generator of Model/Engine w.r.t. a position relation,
  by the stream calculus of Proofs/StreamCalc.  Used by Props/C01.
-/
import RxModel.Spec.OpLang
import RxModel.Model.Api
namespace Rx

/-! ### stream helpers -/

theorem first1_sound {P : Nat → Prop} {s : Step} (hs : s.All P) {x : Nat × St} {st' : St}
    (h : first1 s = (some x, st')) : P x.1 := by
  cases hs with
  | nil st => simp [first1] at h
  | cons m st r hm _ =>
    simp only [first1, Prod.mk.injEq, Option.some.injEq] at h
    obtain ⟨rfl, _⟩ := h
    exact hm
  | diverge => simp [first1] at h

theorem Step.All.and {P Q : Nat → Prop} {s : Step} (hp : s.All P) (hq : s.All Q) :
    s.All (fun n => P n ∧ Q n) := by
  induction hp with
  | nil st => exact .nil st
  | cons n st r hn _ ih =>
    cases hq with
    | cons _ _ _ hn' hr' => exact .cons _ _ _ ⟨hn, hn'⟩ (fun st' => ih st' (hr' st'))
  | diverge => exact .diverge

theorem Step.All.head {P : Nat → Prop} {n : Nat} {st : St} {r : St → Step}
    (h : (Step.cons n st r).All P) : P n := by
  cases h with
  | cons _ _ _ hn _ => exact hn

/-! ### iterated relations -/

theorem IterR.mono {R S : Nat → Nat → Prop} (h : ∀ a b, R a b → S a b) {k p q : Nat}
    (hi : IterR R k p q) : IterR S k p q := by
  induction hi with
  | zero p => exact .zero p
  | succ _ hr ih => exact .succ ih (h _ _ hr)

/-- a guarded relation iterated from a point satisfying the guard -/
theorem IterR.guard {R : Nat → Nat → Prop} {D : Nat → Prop} (hD : ∀ a b, D a → R a b → D b)
    {k p q : Nat} (hi : IterR (fun a b => D a → R a b) k p q) (hp : D p) :
    IterR R k p q ∧ D q := by
  induction hi with
  | zero p => exact ⟨.zero p, hp⟩
  | succ _ hr ih =>
    obtain ⟨h1, h2⟩ := ih hp
    exact ⟨.succ h1 (hr h2), hD _ _ h2 (hr h2)⟩

theorem IterR.fixedLen {l k p q : Nat} (hi : IterR (fun a b => b = a + l) k p q) : q = p + k * l := by
  induction hi with
  | zero p => simp
  | succ _ hr ih => rw [hr, ih, Nat.succ_mul, Nat.add_assoc]

/-! ### leaves -/

theorem bolGen_sound (ctx : Ctx) : GenSound (bolGen ctx) (OpR ctx .bol) := by
  intro p st
  unfold bolGen
  split
  · split
    · rename_i h1 h2
      apply Step.All.once
      simp only [Ctx.nlAt, Bool.and_eq_true, beq_iff_eq, decide_eq_true_eq] at h2
      simp only [OpR]
      exact ⟨trivial, .inr ⟨h2.1.1, h2.1.2, h2.2⟩⟩
    · exact .nil _
  · rename_i h1
    apply Step.All.once
    simp only [bne_iff_ne, ne_eq, Decidable.not_not] at h1
    simp only [OpR]
    exact ⟨trivial, .inl h1⟩

theorem eolGen_sound (ctx : Ctx) : GenSound (eolGen ctx) (OpR ctx .eol) := by
  intro p st
  unfold eolGen
  split
  · rename_i hm
    split
    · rename_i h
      apply Step.All.once
      simp only [Ctx.nlAt, Bool.or_eq_true, beq_iff_eq, decide_eq_true_eq] at h
      simp only [OpR]
      refine ⟨trivial, ?_⟩
      rcases h with (h | h) | h
      · left; omega
      · left; exact h
      · right; exact ⟨hm, h⟩
    · exact .nil _
  · split
    · rename_i h
      apply Step.All.once
      simp only [Bool.or_eq_true, beq_iff_eq, decide_eq_true_eq] at h
      simp only [OpR]
      refine ⟨trivial, .inl ?_⟩
      rcases h with h | h <;> omega
    · exact .nil _

theorem nothingGen_sound (ctx : Ctx) : GenSound nothingGen (OpR ctx .nothing) := by
  intro p st
  apply Step.All.once
  simp only [OpR]

theorem endGen_sound (ctx : Ctx) : GenSound endGen (OpR ctx .endProgram) := by
  intro p st
  apply Step.All.once
  simp only [OpR]

theorem atomGen_sound (ctx : Ctx) (cs : List Nat) : GenSound (atomGen ctx cs) (OpR ctx (.atom cs)) := by
  intro p st
  unfold atomGen
  split
  · exact .nil _
  · split
    · rename_i h1 h2
      apply Step.All.once
      simp only [OpR]
      exact ⟨trivial, by omega, h2⟩
    · exact .nil _

theorem clsGen_sound (ctx : Ctx) (rs : Ranges) : GenSound (clsGen ctx rs) (OpR ctx (.cls rs)) := by
  intro p st
  unfold clsGen
  split
  · rename_i c hc
    split
    · rename_i h
      apply Step.All.once
      simp only [OpR]
      exact ⟨trivial, c, hc, h⟩
    · exact .nil _
  · exact .nil _

/-- the only generator whose soundness needs the start position to be inside the input -/
theorem backrefGen_sound (ctx : Ctx) (g : Nat) :
    GenSound (backrefGen ctx g) (fun p q => p ≤ ctx.len → OpR ctx (.backref g) p q) := by
  intro p st
  unfold backrefGen
  split
  · exact .nil _
  · split
    · split
      · apply Step.All.once
        intro hp
        simp only [OpR]
        omega
      · simp only
        split
        · exact .nil _
        · split
          · apply Step.All.once
            intro hp
            simp only [OpR]
            omega
          · exact .nil _
    · apply Step.All.once
      intro hp
      simp only [OpR]
      omega

/-! ### capture, choice, sequence -/

theorem captureGen_sound {child : Gen} {R : Nat → Nat → Prop} (hc : GenSound child R)
    (ctx : Ctx) (g : Nat) : GenSound (captureGen ctx g child) R := by
  intro p st
  unfold captureGen
  exact (hc p _).mapSt

theorem choiceGen_nil_sound (R : Nat → Nat → Prop) : GenSound (choiceGen []) R := by
  intro p st
  exact .nil _

theorem choiceGen_cons_sound {g : Gen} {gs : List Gen} {R : Nat → Nat → Prop}
    (h1 : GenSound g R) (h2 : GenSound (choiceGen gs) R) : GenSound (choiceGen (g :: gs)) R := by
  intro p st
  unfold choiceGen
  exact (h1 p _).append (fun st' => h2 p st')

theorem seqGo_nil_sound (R : Nat → Nat → Prop) : GenSound (seqGo []) R := by
  intro p st
  exact .nil _

theorem seqGo_cons_sound {g : Gen} {gs : List Gen} {R1 R2 : Nat → Nat → Prop}
    (h1 : GenSound g R1) (h2 : GenSound (seqGo gs) R2) (h0 : gs = [] → ∀ m, R2 m m) :
    GenSound (seqGo (g :: gs)) (fun p q => ∃ m, R1 p m ∧ R2 m q) := by
  intro p st
  cases gs with
  | nil =>
    unfold seqGo
    exact ((h1 p st).mapSt).mono (fun q hq => ⟨q, hq, h0 rfl q⟩)
  | cons g2 gs =>
    unfold seqGo
    apply Step.All.bind ((h1 p st).mapSt)
    intro n st' hn
    exact (h2 n st').mono (fun q hq => ⟨n, hn, hq⟩)

theorem seqGen_sound {gs : List Gen} {R : Nat → Nat → Prop} (h : GenSound (seqGo gs) R) (hasCap : Bool) :
    GenSound (seqGen hasCap gs) R := by
  intro p st
  unfold seqGen
  exact (h p st).onNil

/-! ### greedy repeat -/

/-- `k` = iterations so far, `len` = iterator-stack length, `pl` = pushes left on the primed path -/
def GreedyInv (min bound k len : Nat) (pl : Option Nat) : Prop :=
  (len = k ∨ (len = k + 1 ∧ min = 0)) ∧ k ≤ bound ∧ ∀ j, pl = some j → k + j ≤ bound

theorem greedyNode_sound {child : Gen} {R : Nat → Nat → Prop} (hc : GenSound child R)
    (min bound start : Nat) :
    ∀ fuel len pl k n st, IterR R k start n → GreedyInv min bound k len pl →
      (greedyNode child min bound fuel len pl n st).All
        (fun q => ∃ k', min ≤ k' ∧ k' ≤ bound ∧ IterR R k' start q) := by
  intro fuel
  induction fuel with
  | zero =>
    intro len pl k n st hk hinv
    obtain ⟨h1, h2, _⟩ := hinv
    unfold greedyNode
    split
    · exact .once ⟨k, by omega, h2, hk⟩
    · exact .nil _
  | succ f ih =>
    intro len pl k n st hk hinv
    obtain ⟨h1, h2, h3⟩ := hinv
    unfold greedyNode
    simp only
    apply Step.All.append
    · cases pl with
      | none =>
        simp only [Option.map]
        split
        · rename_i hext
          simp only [decide_eq_true_eq] at hext
          have hinv' : GreedyInv min bound (k+1) (len+1) none :=
            ⟨by omega, by omega, fun j hj => by simp at hj⟩
          exact Step.All.bindFR (hc n st)
            (fun n2 st2 hr => ih _ _ (k+1) n2 st2 (.succ hk hr) hinv')
            (fun n2 st2 hr => ih _ _ (k+1) n2 st2 (.succ hk hr) hinv')
        · exact .nil _
      | some j =>
        simp only [Option.map]
        split
        · rename_i hext
          simp only [decide_eq_true_eq] at hext
          have hj := h3 j rfl
          have hinv1 : GreedyInv min bound (k+1) (len+1) (some (j - 1)) :=
            ⟨by omega, by omega, fun j' hj' => by simp only [Option.some.injEq] at hj'; omega⟩
          have hinv2 : GreedyInv min bound (k+1) (len+1) none :=
            ⟨by omega, by omega, fun j' hj' => by simp at hj'⟩
          exact Step.All.bindFR (hc n st)
            (fun n2 st2 hr => ih _ _ (k+1) n2 st2 (.succ hk hr) hinv1)
            (fun n2 st2 hr => ih _ _ (k+1) n2 st2 (.succ hk hr) hinv2)
        · exact .nil _
    · intro st'
      split
      · exact .once ⟨k, by omega, h2, hk⟩
      · exact .nil _

theorem repGreedyGen_sound {child : Gen} {R : Nat → Nat → Prop} (hc : GenSound child R)
    (ctx : Ctx) (id min max : Nat) :
    GenSound (repGreedyGen ctx id child min max)
      (fun p q => ∃ k, min ≤ k ∧ k ≤ max ∧ IterR R k p q) := by
  intro p st
  unfold repGreedyGen
  simp only
  generalize hb : Nat.min max (ctx.len + 1 - p) = bound
  have hbm : bound ≤ max := by rw [← hb]; exact Nat.min_le_left _ _
  have hmono : ∀ q, (∃ k', min ≤ k' ∧ k' ≤ bound ∧ IterR R k' p q) →
      (∃ k, min ≤ k ∧ k ≤ max ∧ IterR R k p q) :=
    fun q ⟨k, h1, h2, h3⟩ => ⟨k, h1, by omega, h3⟩
  have hfirst : bound ≠ 0 → ∀ fuel st,
      (((child p st).bindFR
        (fun n st2 => greedyNode child min bound fuel 1 (some (bound - 1)) n st2)
        (fun n st2 => greedyNode child min bound fuel 1 none n st2)).force 0 none).All
        (fun q => ∃ k, min ≤ k ∧ k ≤ max ∧ IterR R k p q) := by
    intro hb0 fuel st
    apply Step.All.force
    apply Step.All.mono hmono
    apply Step.All.bindFR (hc p st)
    · intro n st2 hr
      refine greedyNode_sound hc min bound p fuel 1 _ 1 n st2 (.succ (.zero p) hr) ⟨.inl rfl, by omega, ?_⟩
      intro j hj; simp only [Option.some.injEq] at hj; omega
    · intro n st2 hr
      refine greedyNode_sound hc min bound p fuel 1 _ 1 n st2 (.succ (.zero p) hr) ⟨.inl rfl, by omega, ?_⟩
      intro j hj; simp at hj
  split
  · rename_i hmin
    simp only [beq_iff_eq] at hmin
    split
    · split
      · exact .nil _
      · rename_i hb0
        simp only [beq_iff_eq] at hb0
        exact hfirst hb0 _ _
    · apply Step.All.force
      apply Step.All.mono hmono
      apply Step.All.append
      · refine greedyNode_sound hc min bound p _ 1 _ 0 p _ (.zero p) ⟨.inr ⟨rfl, hmin⟩, by omega, ?_⟩
        intro j hj; simp only [Option.some.injEq] at hj; omega
      · intro st2
        refine greedyNode_sound hc min bound p _ 1 _ 0 p _ (.zero p) ⟨.inr ⟨rfl, hmin⟩, by omega, ?_⟩
        intro j hj; simp at hj
  · split
    · exact .nil _
    · rename_i hb0
      simp only [beq_iff_eq] at hb0
      exact hfirst hb0 _ _

/-! ### reluctant repeats -/

theorem iterMin_sound {child : Gen} {R : Nat → Nat → Prop} (hc : GenSound child R) (min start : Nat) :
    ∀ fuel count pos st c' pos' st', IterR R count start pos → count ≤ min →
      iterMin child min fuel count pos st = (some (c', pos'), st') →
      c' = min ∧ IterR R min start pos' := by
  intro fuel
  induction fuel with
  | zero =>
    intro count pos st c' pos' st' _ _ h
    simp [iterMin] at h
  | succ f ih =>
    intro count pos st c' pos' st' hk hle h
    unfold iterMin at h
    split at h
    · rename_i hlt
      split at h
      · rename_i n x st1 heq
        have hr : R pos n := first1_sound (hc pos st) heq
        exact ih _ _ _ _ _ _ (.succ hk hr) (by omega) h
      · simp at h
    · rename_i hge
      simp only [Prod.mk.injEq, Option.some.injEq] at h
      obtain ⟨⟨rfl, rfl⟩, _⟩ := h
      have : count = min := by omega
      subst this
      exact ⟨rfl, hk⟩

/-- a zero-width iteration can be repeated -/
theorem IterR.pad {R : Nat → Nat → Prop} {j q p : Nat} (hr : R p p) (h : IterR R j q p) :
    ∀ m, IterR R (j + m) q p
  | 0 => h
  | m+1 => .succ (IterR.pad hr h m) hr

/-- the minimum loop with the zero-width shortcut (fix abfdb8a): still `min` iterations of `R` -/
theorem iterMinZ_sound {child : Gen} {R : Nat → Nat → Prop} (hc : GenSound child R) (min start : Nat) :
    ∀ fuel count pos st c' pos' st', IterR R count start pos → count ≤ min →
      iterMinZ child min fuel count pos st = (some (c', pos'), st') →
      c' = min ∧ IterR R min start pos' := by
  intro fuel
  induction fuel with
  | zero =>
    intro count pos st c' pos' st' _ _ h
    simp [iterMinZ] at h
  | succ f ih =>
    intro count pos st c' pos' st' hk hle h
    unfold iterMinZ at h
    split at h
    · rename_i hlt
      split at h
      · rename_i n x st1 heq
        have hr : R pos n := first1_sound (hc pos st) heq
        split at h
        · rename_i hnp
          simp only [beq_iff_eq] at hnp
          subst hnp
          simp only [Prod.mk.injEq, Option.some.injEq] at h
          obtain ⟨⟨rfl, rfl⟩, _⟩ := h
          have := IterR.pad hr hk (min - count)
          rw [show count + (min - count) = min by omega] at this
          exact ⟨rfl, this⟩
        · exact ih _ _ _ _ _ _ (.succ hk hr) (by omega) h
      · simp at h
    · rename_i hge
      simp only [Prod.mk.injEq, Option.some.injEq] at h
      obtain ⟨⟨rfl, rfl⟩, _⟩ := h
      have : count = min := by omega
      subst this
      exact ⟨rfl, hk⟩

theorem relMore_sound {child : Gen} {R : Nat → Nat → Prop} (hc : GenSound child R) (min max start : Nat) :
    ∀ fuel count pos st, IterR R count start pos → min ≤ count →
      (relMore child max fuel count pos st).All (fun q => ∃ k, min ≤ k ∧ k ≤ max ∧ IterR R k start q) := by
  intro fuel
  induction fuel with
  | zero => intro count pos st _ _; exact .diverge
  | succ f ih =>
    intro count pos st hk hle
    unfold relMore
    split
    · rename_i hlt
      split
      · rename_i n x st1 heq
        have hr : R pos n := first1_sound (hc pos st) heq
        exact .cons _ _ _ ⟨count + 1, by omega, by omega, .succ hk hr⟩
          (fun st'' => ih _ _ _ (.succ hk hr) (by omega))
      · exact .nil _
    · exact .nil _

theorem rfixedMore_sound {child : Gen} {R : Nat → Nat → Prop} (hc : GenSound child R)
    (min max start position : Nat) :
    ∀ fuel count pos st, IterR R count start pos → min ≤ count →
      (rfixedMore child max position fuel count pos st).All
        (fun q => ∃ k, min ≤ k ∧ k ≤ max ∧ IterR R k start q) := by
  intro fuel
  induction fuel with
  | zero => intro count pos st _ _; exact .diverge
  | succ f ih =>
    intro count pos st hk hle
    unfold rfixedMore
    split
    · rename_i hlt
      simp only
      split
      · rename_i n x st1 heq
        have hr : R pos n := first1_sound (hc pos _) heq
        exact .cons _ _ _ ⟨count + 1, by omega, by omega, .succ hk hr⟩
          (fun st'' => ih _ _ _ (.succ hk hr) (by omega))
      · exact .nil _
    · exact .nil _

theorem repReluctantGen_sound {child : Gen} {R : Nat → Nat → Prop} (hc : GenSound child R)
    (ctx : Ctx) (min max : Nat) (hmm : min ≤ max) :
    GenSound (repReluctantGen ctx child min max)
      (fun p q => ∃ k, min ≤ k ∧ k ≤ max ∧ IterR R k p q) := by
  intro p st
  unfold repReluctantGen
  split
  · exact .nil _
  · rename_i count pos st' heq
    obtain ⟨rfl, hk⟩ := iterMinZ_sound hc min p _ _ _ _ _ _ _ (.zero p) (Nat.zero_le _) heq
    apply Step.All.force
    exact .cons _ _ _ ⟨count, Nat.le_refl _, hmm, hk⟩
      (fun st'' => relMore_sound hc count max p _ _ _ _ hk (Nat.le_refl _))

theorem rfixedGen_sound {child : Gen} {R : Nat → Nat → Prop} (hc : GenSound child R)
    (ctx : Ctx) (min max : Nat) (hmm : min ≤ max) :
    GenSound (rfixedGen ctx child min max)
      (fun p q => ∃ k, min ≤ k ∧ k ≤ max ∧ IterR R k p q) := by
  intro p st
  unfold rfixedGen
  split
  · exact .nil _
  · rename_i count pos st' heq
    obtain ⟨rfl, hk⟩ := iterMin_sound hc min p _ _ _ _ _ _ _ (.zero p) (Nat.zero_le _) heq
    exact .cons _ _ _ ⟨count, Nat.le_refl _, hmm, hk⟩
      (fun st'' => rfixedMore_sound hc count max p p _ _ _ _ hk (Nat.le_refl _))

/-! ### unambiguous repeat -/

theorem unambLoop_sound {child : Gen} {R : Nat → Nat → Prop} (hc : GenSound child R)
    (max guard start : Nat) :
    ∀ fuel p m st, IterR R m start p → m ≤ max →
      (unambLoop child max guard fuel p m st).2.1 ≤ max ∧
      IterR R (unambLoop child max guard fuel p m st).2.1 start (unambLoop child max guard fuel p m st).1 := by
  intro fuel
  induction fuel with
  | zero => intro p m st hk hle; exact ⟨hle, hk⟩
  | succ f ih =>
    intro p m st hk hle
    unfold unambLoop
    split
    · rename_i hc1
      simp only [Bool.and_eq_true, decide_eq_true_eq] at hc1
      split
      · rename_i n x st1 heq
        have hr : R p n := first1_sound (hc p st) heq
        exact ih _ _ _ (.succ hk hr) (by omega)
      · exact ⟨hle, hk⟩
    · exact ⟨hle, hk⟩

theorem unambGen_sound {child : Gen} {R : Nat → Nat → Prop} (hc : GenSound child R)
    (ctx : Ctx) (min max : Nat) :
    GenSound (unambGen ctx child min max)
      (fun p q => ∃ k, min ≤ k ∧ k ≤ max ∧ IterR R k p q) := by
  intro p st
  unfold unambGen
  simp only
  have h := unambLoop_sound hc max ctx.len p (Nat.min max (ctx.len + 2) + 1) p 0 st (.zero p) (Nat.zero_le _)
  generalize unambLoop child max ctx.len (Nat.min max (ctx.len + 2) + 1) p 0 st = r at h
  split
  · exact .nil _
  · exact .once ⟨r.2.1, by omega, h.1, h.2⟩

/-! ### greedy fixed-length repeat -/

theorem gfixedLoop_sound {child : Gen} {R : Nat → Nat → Prop} {len : Nat}
    (hc : GenSound child (fun a b => R a b ∧ b = a + len)) (max guard start : Nat) :
    ∀ fuel p m st, m < max → p = start + len * m →
      (∀ j, j ≤ m → IterR R j start (start + len * j)) →
      (gfixedLoop child len max guard fuel p m st).2.1 ≤ max ∧
      (gfixedLoop child len max guard fuel p m st).1
        = start + len * (gfixedLoop child len max guard fuel p m st).2.1 ∧
      (∀ j, j ≤ (gfixedLoop child len max guard fuel p m st).2.1 → IterR R j start (start + len * j)) := by
  intro fuel
  induction fuel with
  | zero => intro p m st hlt hp hit; exact ⟨Nat.le_of_lt hlt, hp, hit⟩
  | succ f ih =>
    intro p m st hlt hp hit
    unfold gfixedLoop
    split
    · split
      · rename_i x st1 heq
        have hr := first1_sound (hc p st) heq
        simp only at hr
        have hp' : p + len = start + len * (m + 1) := by rw [Nat.mul_succ]; omega
        have hit' : ∀ j, j ≤ m + 1 → IterR R j start (start + len * j) := by
          intro j hj
          by_cases hjm : j ≤ m
          · exact hit j hjm
          · have : j = m + 1 := by omega
            subst this
            rw [← hp', ← hr.2]
            have := hit m (Nat.le_refl _)
            rw [← hp] at this
            exact .succ this hr.1
        simp only
        split
        · rename_i heqm
          simp only [beq_iff_eq] at heqm
          exact ⟨by simp only; omega, hp', hit'⟩
        · rename_i hne
          simp only [beq_iff_eq] at hne
          exact ih _ _ _ (by omega) hp' hit'
      · exact ⟨Nat.le_of_lt hlt, hp, hit⟩
    · exact ⟨Nat.le_of_lt hlt, hp, hit⟩

theorem descend_sound {R : Nat → Nat → Prop} (len start min m : Nat) (hlen : 0 < len)
    (hit : ∀ j, j ≤ m → IterR R j start (start + len * j)) :
    ∀ fuel j st, j ≤ m →
      (descend len (start + len * min) fuel (start + len * j) st).All
        (fun q => ∃ k, min ≤ k ∧ k ≤ m ∧ IterR R k start q ∧ q = start + len * k) := by
  intro fuel
  induction fuel with
  | zero => intro j st _; exact .diverge
  | succ f ih =>
    intro j st hj
    unfold descend
    split
    · rename_i hge
      have hmj : min ≤ j := by
        have : len * min ≤ len * j := by omega
        exact Nat.le_of_mul_le_mul_left this hlen
      refine .cons _ _ _ ⟨j, hmj, hj, hit j hj, rfl⟩ (fun st' => ?_)
      split
      · rename_i hge2
        have h1 : len * (min + 1) ≤ len * j := by rw [Nat.mul_succ]; omega
        have h2 : min + 1 ≤ j := Nat.le_of_mul_le_mul_left h1 hlen
        obtain ⟨j', rfl⟩ : ∃ j', j = j' + 1 := ⟨j - 1, by omega⟩
        have h3 : start + len * (j' + 1) - len = start + len * j' := by rw [Nat.mul_succ]; omega
        rw [h3]
        exact ih j' st' (by omega)
      · exact .nil _
    · exact .nil _

theorem gfixedGen_sound {child : Gen} {R : Nat → Nat → Prop} {len : Nat}
    (hc : GenSound child (fun a b => R a b ∧ b = a + len)) (ctx : Ctx) (min max : Nat)
    (hlen : 0 < len) (hmax : 0 < max) :
    GenSound (gfixedGen ctx child min max len)
      (fun p q => ∃ k, min ≤ k ∧ k ≤ max ∧ IterR R k p q ∧ q = p + len * k) := by
  intro p st
  unfold gfixedGen
  simp only
  generalize (if max < usizeMax then Nat.min ctx.len (p + len * max) else ctx.len) = guard
  split
  · exact .nil _
  · have h := gfixedLoop_sound hc max guard p (ctx.len + 2) p 0 st hmax (by simp)
      (fun j hj => by have : j = 0 := by omega
                      subst this; exact .zero p)
    generalize gfixedLoop child len max guard (ctx.len + 2) p 0 st = r at h
    obtain ⟨h1, h2, h3⟩ := h
    split
    · exact .nil _
    · rw [h2]
      exact (descend_sound len p min r.2.1 hlen h3 _ r.2.1 _ (Nat.le_refl _)).mono
        (fun q ⟨k, ha, hb, hc', hd⟩ => ⟨k, ha, by omega, hc', hd⟩)

/-! ### the language stays inside the input -/

theorem IterR.bounds {R : Nat → Nat → Prop} {L : Nat}
    (h : ∀ a b, a ≤ L → R a b → a ≤ b ∧ b ≤ L) {k p q : Nat} (hi : IterR R k p q) (hp : p ≤ L) :
    p ≤ q ∧ q ≤ L := by
  induction hi with
  | zero p => exact ⟨Nat.le_refl _, hp⟩
  | succ _ hr ih =>
    have h1 := ih hp
    have h2 := h _ _ h1.2 hr
    exact ⟨by omega, h2.2⟩

mutual
theorem OpR_bounds_op (ctx : Ctx) : (op : Op) → ∀ p q, p ≤ ctx.len → OpR ctx op p q → p ≤ q ∧ q ≤ ctx.len
  | .bol, p, q, hp, h => by simp only [OpR] at h; omega
  | .eol, p, q, hp, h => by simp only [OpR] at h; omega
  | .nothing, p, q, hp, h => by simp only [OpR] at h; omega
  | .endProgram, p, q, hp, h => by simp only [OpR] at h; omega
  | .atom cs, p, q, hp, h => by simp only [OpR] at h; omega
  | .cls rs, p, q, hp, h => by
    simp only [OpR] at h
    obtain ⟨rfl, c, hc, _⟩ := h
    rcases Nat.lt_or_ge p ctx.input.length with hlt | hge
    · simp only [Ctx.len]; omega
    · rw [List.getElem?_eq_none hge] at hc; cases hc
  | .backref _, p, q, hp, h => by simp only [OpR] at h; exact h
  | .capture _ c, p, q, hp, h => by
    simp only [OpR] at h
    exact OpR_bounds_op ctx c p q hp h
  | .choice bs, p, q, hp, h => by
    simp only [OpR] at h
    exact OpR_bounds_any ctx bs p q hp h
  | .seq ops, p, q, hp, h => by
    simp only [OpR] at h
    exact OpR_bounds_seq ctx ops p q hp h
  | .rep _ c mn mx _, p, q, hp, h => by
    simp only [OpR] at h
    obtain ⟨k, _, _, hi⟩ := h
    exact IterR.bounds (OpR_bounds_op ctx c) hi hp
  | .gfixed c mn mx _, p, q, hp, h => by
    simp only [OpR] at h
    obtain ⟨k, _, _, hi⟩ := h
    exact IterR.bounds (OpR_bounds_op ctx c) hi hp
  | .rfixed c mn mx _, p, q, hp, h => by
    simp only [OpR] at h
    obtain ⟨k, _, _, hi⟩ := h
    exact IterR.bounds (OpR_bounds_op ctx c) hi hp
  | .unamb c mn mx, p, q, hp, h => by
    simp only [OpR] at h
    obtain ⟨k, _, _, hi⟩ := h
    exact IterR.bounds (OpR_bounds_op ctx c) hi hp
termination_by structural op => op
theorem OpR_bounds_any (ctx : Ctx) : (bs : List Op) → ∀ p q, p ≤ ctx.len → OpRAny ctx bs p q → p ≤ q ∧ q ≤ ctx.len
  | [], p, q, hp, h => by simp only [OpRAny] at h
  | b :: bs, p, q, hp, h => by
    simp only [OpRAny] at h
    rcases h with h | h
    · exact OpR_bounds_op ctx b p q hp h
    · exact OpR_bounds_any ctx bs p q hp h
termination_by structural bs => bs
theorem OpR_bounds_seq (ctx : Ctx) : (ops : List Op) → ∀ p q, p ≤ ctx.len → OpRSeq ctx ops p q → p ≤ q ∧ q ≤ ctx.len
  | [], p, q, hp, h => by simp only [OpRSeq] at h; omega
  | o :: os, p, q, hp, h => by
    simp only [OpRSeq] at h
    obtain ⟨m, h1, h2⟩ := h
    have b1 := OpR_bounds_op ctx o p m hp h1
    have b2 := OpR_bounds_seq ctx os m q b1.2 h2
    omega
termination_by structural ops => ops
end

/-! ### fixed match lengths -/

theorem satMul_eq {a b l : Nat} (h : satMul a b = l) (hl : l < usizeMax) : a * b = l := by
  unfold satMul at h
  change min (a * b) usizeMax = l at h
  rw [Nat.min_def] at h
  split at h <;> omega

theorem satAdd_eq {a b l : Nat} (h : satAdd a b = l) (hl : l < usizeMax) : a + b = l := by
  unfold satAdd at h
  change min (a + b) usizeMax = l at h
  rw [Nat.min_def] at h
  split at h <;> omega

theorem rep_fixedLen {mn mx lc l p q : Nat} (hmm : mn = mx) (hl : mn * lc = l)
    (h : ∃ k, mn ≤ k ∧ k ≤ mx ∧ IterR (fun a b => b = a + lc) k p q) : q = p + l := by
  obtain ⟨k, h1, h2, hi⟩ := h
  have : k = mn := by omega
  subst this
  rw [hi.fixedLen, hl]

theorem GenSound.mono {g : Gen} {R S : Nat → Nat → Prop} (h : GenSound g R)
    (hrs : ∀ p q, R p q → S p q) : GenSound g S :=
  fun p st => (h p st).mono (hrs p)

theorem GenSound.and {g : Gen} {R S : Nat → Nat → Prop} (h1 : GenSound g R) (h2 : GenSound g S) :
    GenSound g (fun p q => R p q ∧ S p q) :=
  fun p st => (h1 p st).and (h2 p st)

mutual
theorem matchLen_sound_op (ctx : Ctx) : (op : Op) → wfOp op = true → ∀ l, matchLen op = some l →
    l < usizeMax → GenSound (sem ctx op) (fun p n => n = p + l)
  | .bol, _, l, hl, _ => by
    simp only [matchLen, Option.some.injEq] at hl; subst hl
    simp only [sem]
    exact (bolGen_sound ctx).mono (fun p q h => by simp only [OpR] at h; omega)
  | .eol, _, l, hl, _ => by
    simp only [matchLen, Option.some.injEq] at hl; subst hl
    simp only [sem]
    exact (eolGen_sound ctx).mono (fun p q h => by simp only [OpR] at h; omega)
  | .nothing, _, l, hl, _ => by
    simp only [matchLen, Option.some.injEq] at hl; subst hl
    simp only [sem]
    exact (nothingGen_sound ctx).mono (fun p q h => by simp only [OpR] at h; omega)
  | .endProgram, _, l, hl, _ => by
    simp only [matchLen, Option.some.injEq] at hl; subst hl
    simp only [sem]
    exact (endGen_sound ctx).mono (fun p q h => by simp only [OpR] at h; omega)
  | .atom cs, _, l, hl, _ => by
    simp only [matchLen, Option.some.injEq] at hl; subst hl
    simp only [sem]
    exact (atomGen_sound ctx cs).mono (fun p q h => by simp only [OpR] at h; omega)
  | .cls rs, _, l, hl, _ => by
    simp only [matchLen, Option.some.injEq] at hl; subst hl
    simp only [sem]
    exact (clsGen_sound ctx rs).mono (fun p q h => by simp only [OpR] at h; omega)
  | .backref g, _, l, hl, _ => by simp [matchLen] at hl
  | .capture g c, hwf, l, hl, hlt => by
    simp only [wfOp] at hwf
    simp only [matchLen] at hl
    simp only [sem]
    exact captureGen_sound (matchLen_sound_op ctx c hwf l hl hlt) ctx g
  | .choice bs, hwf, l, hl, hlt => by
    simp only [wfOp, Bool.and_eq_true] at hwf
    simp only [matchLen] at hl
    simp only [sem]
    exact matchLen_sound_choice ctx bs hwf.2 l hl hlt
  | .seq ops, hwf, l, hl, hlt => by
    simp only [wfOp, Bool.and_eq_true] at hwf
    simp only [matchLen] at hl
    simp only [sem]
    exact seqGen_sound (matchLen_sound_seq ctx ops hwf.2 l hl hlt) _
  | .rep id c mn mx greedy, hwf, l, hl, hlt => by
    simp only [wfOp, Bool.and_eq_true, decide_eq_true_eq] at hwf
    obtain ⟨⟨hwc, hmm⟩, hmx⟩ := hwf
    simp only [matchLen] at hl
    cases hc : matchLen c with
    | none => simp [hc] at hl
    | some lc =>
      simp only [hc] at hl
      split at hl
      · rename_i heq
        simp only [beq_iff_eq] at heq
        simp only [Option.some.injEq] at hl
        have hml := satMul_eq hl hlt
        have hlc : lc < usizeMax := by
          have : lc ≤ mn * lc := Nat.le_mul_of_pos_left lc (by omega)
          omega
        have hch := matchLen_sound_op ctx c hwc lc hc hlc
        simp only [sem]
        split
        · exact (repGreedyGen_sound hch ctx id mn mx).mono (fun p q h => rep_fixedLen heq hml h)
        · exact (repReluctantGen_sound hch ctx mn mx hmm).mono (fun p q h => rep_fixedLen heq hml h)
      · simp at hl
  | .gfixed c mn mx len, hwf, l, hl, hlt => by
    simp only [wfOp, Bool.and_eq_true, decide_eq_true_eq, beq_iff_eq] at hwf
    obtain ⟨⟨⟨⟨⟨hwc, hc⟩, hlen0⟩, hlen1⟩, hmm⟩, hmx⟩ := hwf
    simp only [matchLen] at hl
    split at hl
    · rename_i heq
      simp only [beq_iff_eq] at heq
      simp only [Option.some.injEq] at hl
      have hml := satMul_eq hl hlt
      have hch := matchLen_sound_op ctx c hwc len hc hlen1
      simp only [sem]
      have hg := gfixedGen_sound (R := fun _ _ => True) (hch.mono (fun p q h => ⟨trivial, h⟩)) ctx mn mx hlen0 hmx
      refine hg.mono (fun p q h => ?_)
      obtain ⟨k, h1, h2, _, h4⟩ := h
      have : k = mn := by omega
      subst this
      rw [h4, Nat.mul_comm, hml]
    · simp at hl
  | .rfixed c mn mx len, hwf, l, hl, hlt => by
    simp only [wfOp, Bool.and_eq_true, decide_eq_true_eq, beq_iff_eq] at hwf
    obtain ⟨⟨⟨⟨⟨hwc, hc⟩, hlen0⟩, hlen1⟩, hmm⟩, hmx⟩ := hwf
    simp only [matchLen] at hl
    split at hl
    · rename_i heq
      simp only [beq_iff_eq] at heq
      simp only [Option.some.injEq] at hl
      have hml := satMul_eq hl hlt
      have hch := matchLen_sound_op ctx c hwc len hc hlen1
      simp only [sem]
      exact (rfixedGen_sound hch ctx mn mx hmm).mono (fun p q h => rep_fixedLen heq hml h)
    · simp at hl
  | .unamb c mn mx, hwf, l, hl, hlt => by
    simp only [wfOp, Bool.and_eq_true, decide_eq_true_eq] at hwf
    obtain ⟨⟨hwc, hmm⟩, hmx⟩ := hwf
    simp only [matchLen] at hl
    cases hc : matchLen c with
    | none => simp [hc] at hl
    | some lc =>
      simp only [hc] at hl
      split at hl
      · rename_i heq
        simp only [beq_iff_eq] at heq
        simp only [Option.some.injEq] at hl
        have hml := satMul_eq hl hlt
        have hlc : lc < usizeMax := by
          have : lc ≤ mn * lc := Nat.le_mul_of_pos_left lc (by omega)
          omega
        have hch := matchLen_sound_op ctx c hwc lc hc hlc
        simp only [sem]
        exact (unambGen_sound hch ctx mn mx).mono (fun p q h => rep_fixedLen heq hml h)
      · simp at hl
termination_by structural op => op
theorem matchLen_sound_choice (ctx : Ctx) : (bs : List Op) → wfOps bs = true → ∀ l,
    matchLenChoice bs = some l → l < usizeMax →
    GenSound (choiceGen (semL ctx bs)) (fun p n => n = p + l)
  | [], _, l, hl, _ => by simp [matchLenChoice] at hl
  | b :: bs, hwf, l, hl, hlt => by
    simp only [wfOps, Bool.and_eq_true] at hwf
    simp only [matchLenChoice] at hl
    split at hl
    · rename_i hall
      rw [hl] at hall
      simp only [semL]
      exact choiceGen_cons_sound (matchLen_sound_op ctx b hwf.1 l hl hlt)
        (matchLen_sound_allEq ctx bs hwf.2 l hall hlt)
    · simp at hl
termination_by structural bs => bs
theorem matchLen_sound_allEq (ctx : Ctx) : (bs : List Op) → wfOps bs = true → ∀ l,
    matchLenAllEq (some l) bs = true → l < usizeMax →
    GenSound (choiceGen (semL ctx bs)) (fun p n => n = p + l)
  | [], _, l, _, _ => by simp only [semL]; exact choiceGen_nil_sound _
  | b :: bs, hwf, l, hl, hlt => by
    simp only [wfOps, Bool.and_eq_true] at hwf
    simp only [matchLenAllEq, Bool.and_eq_true, beq_iff_eq] at hl
    simp only [semL]
    exact choiceGen_cons_sound (matchLen_sound_op ctx b hwf.1 l hl.1 hlt)
      (matchLen_sound_allEq ctx bs hwf.2 l hl.2 hlt)
termination_by structural bs => bs
theorem matchLen_sound_seq (ctx : Ctx) : (ops : List Op) → wfOps ops = true → ∀ l,
    matchLenSeq ops = some l → l < usizeMax →
    GenSound (seqGo (semL ctx ops)) (fun p n => n = p + l)
  | [], _, l, _, _ => by simp only [semL]; exact seqGo_nil_sound _
  | o :: os, hwf, l, hl, hlt => by
    simp only [wfOps, Bool.and_eq_true] at hwf
    simp only [matchLenSeq] at hl
    cases ha : matchLen o with
    | none => simp [ha] at hl
    | some a =>
      cases hb : matchLenSeq os with
      | none => simp [ha, hb] at hl
      | some b =>
        simp only [ha, hb, Option.some.injEq] at hl
        have hab := satAdd_eq hl hlt
        simp only [semL]
        have h1 := matchLen_sound_op ctx o hwf.1 a ha (by omega)
        have h2 := matchLen_sound_seq ctx os hwf.2 b hb (by omega)
        refine (seqGo_cons_sound h1 h2 ?_).mono (fun p q ⟨m, hm, hq⟩ => by omega)
        intro hnil m
        cases os with
        | nil => simp only [matchLenSeq, Option.some.injEq] at hb; omega
        | cons o2 os2 => simp [semL] at hnil
termination_by structural ops => ops
end

/-! ### soundness of `sem` (start positions inside the input) -/

/-- what is proved by induction over the tree: the start-position guard is part of the relation,
    so that the generator lemmas can be used unconditionally -/
def OpRG (ctx : Ctx) (op : Op) : Nat → Nat → Prop := fun p q => p ≤ ctx.len → OpR ctx op p q

theorem rep_guard (ctx : Ctx) (c : Op) (mn mx : Nat) {p q : Nat}
    (h : ∃ k, mn ≤ k ∧ k ≤ mx ∧ IterR (OpRG ctx c) k p q) (hp : p ≤ ctx.len) :
    ∃ k, mn ≤ k ∧ k ≤ mx ∧ IterR (fun a b => OpR ctx c a b) k p q := by
  obtain ⟨k, h1, h2, hi⟩ := h
  exact ⟨k, h1, h2, (IterR.guard (D := fun a => a ≤ ctx.len)
    (fun a b ha hr => (OpR_bounds_op ctx c a b ha hr).2) hi hp).1⟩

mutual
theorem sem_sound_op (ctx : Ctx) : (op : Op) → wfOp op = true → GenSound (sem ctx op) (OpRG ctx op)
  | .bol, _ => by simp only [sem]; exact (bolGen_sound ctx).mono (fun p q h _ => h)
  | .eol, _ => by simp only [sem]; exact (eolGen_sound ctx).mono (fun p q h _ => h)
  | .nothing, _ => by simp only [sem]; exact (nothingGen_sound ctx).mono (fun p q h _ => h)
  | .endProgram, _ => by simp only [sem]; exact (endGen_sound ctx).mono (fun p q h _ => h)
  | .atom cs, _ => by simp only [sem]; exact (atomGen_sound ctx cs).mono (fun p q h _ => h)
  | .cls rs, _ => by simp only [sem]; exact (clsGen_sound ctx rs).mono (fun p q h _ => h)
  | .backref g, _ => by simp only [sem]; exact backrefGen_sound ctx g
  | .capture g c, hwf => by
    simp only [wfOp] at hwf
    simp only [sem]
    exact (captureGen_sound (sem_sound_op ctx c hwf) ctx g).mono
      (fun p q h hp => by simp only [OpR]; exact h hp)
  | .choice bs, hwf => by
    simp only [wfOp, Bool.and_eq_true] at hwf
    simp only [sem]
    exact (sem_sound_any ctx bs hwf.2).mono (fun p q h hp => by simp only [OpR]; exact h hp)
  | .seq ops, hwf => by
    simp only [wfOp, Bool.and_eq_true] at hwf
    simp only [sem]
    exact (seqGen_sound (sem_sound_seq ctx ops hwf.2) _).mono
      (fun p q h hp => by simp only [OpR]; exact h hp)
  | .rep id c mn mx greedy, hwf => by
    simp only [wfOp, Bool.and_eq_true, decide_eq_true_eq] at hwf
    obtain ⟨⟨hwc, hmm⟩, hmx⟩ := hwf
    have hch := sem_sound_op ctx c hwc
    simp only [sem]
    split
    · exact (repGreedyGen_sound hch ctx id mn mx).mono
        (fun p q h hp => by simp only [OpR]; exact rep_guard ctx c mn mx h hp)
    · exact (repReluctantGen_sound hch ctx mn mx hmm).mono
        (fun p q h hp => by simp only [OpR]; exact rep_guard ctx c mn mx h hp)
  | .gfixed c mn mx len, hwf => by
    simp only [wfOp, Bool.and_eq_true, decide_eq_true_eq, beq_iff_eq] at hwf
    obtain ⟨⟨⟨⟨⟨hwc, hc⟩, hlen0⟩, hlen1⟩, hmm⟩, hmx⟩ := hwf
    have hch := (sem_sound_op ctx c hwc).and (matchLen_sound_op ctx c hwc len hc hlen1)
    simp only [sem]
    exact (gfixedGen_sound hch ctx mn mx hlen0 hmx).mono
      (fun p q ⟨k, h1, h2, h3, _⟩ hp => by
        simp only [OpR]; exact rep_guard ctx c mn mx ⟨k, h1, h2, h3⟩ hp)
  | .rfixed c mn mx len, hwf => by
    simp only [wfOp, Bool.and_eq_true, decide_eq_true_eq, beq_iff_eq] at hwf
    obtain ⟨⟨⟨⟨⟨hwc, hc⟩, hlen0⟩, hlen1⟩, hmm⟩, hmx⟩ := hwf
    have hch := sem_sound_op ctx c hwc
    simp only [sem]
    exact (rfixedGen_sound hch ctx mn mx hmm).mono
      (fun p q h hp => by simp only [OpR]; exact rep_guard ctx c mn mx h hp)
  | .unamb c mn mx, hwf => by
    simp only [wfOp, Bool.and_eq_true, decide_eq_true_eq] at hwf
    obtain ⟨⟨hwc, hmm⟩, hmx⟩ := hwf
    have hch := sem_sound_op ctx c hwc
    simp only [sem]
    exact (unambGen_sound hch ctx mn mx).mono
      (fun p q h hp => by simp only [OpR]; exact rep_guard ctx c mn mx h hp)
termination_by structural op => op
theorem sem_sound_any (ctx : Ctx) : (bs : List Op) → wfOps bs = true →
    GenSound (choiceGen (semL ctx bs)) (fun p q => p ≤ ctx.len → OpRAny ctx bs p q)
  | [], _ => by simp only [semL]; exact choiceGen_nil_sound _
  | b :: bs, hwf => by
    simp only [wfOps, Bool.and_eq_true] at hwf
    simp only [semL]
    exact choiceGen_cons_sound
      ((sem_sound_op ctx b hwf.1).mono (fun p q h hp => by simp only [OpRAny]; exact .inl (h hp)))
      ((sem_sound_any ctx bs hwf.2).mono (fun p q h hp => by simp only [OpRAny]; exact .inr (h hp)))
termination_by structural bs => bs
theorem sem_sound_seq (ctx : Ctx) : (ops : List Op) → wfOps ops = true →
    GenSound (seqGo (semL ctx ops)) (fun p q => p ≤ ctx.len → OpRSeq ctx ops p q)
  | [], _ => by simp only [semL]; exact seqGo_nil_sound _
  | o :: os, hwf => by
    simp only [wfOps, Bool.and_eq_true] at hwf
    simp only [semL]
    have h1 := sem_sound_op ctx o hwf.1
    have h2 := sem_sound_seq ctx os hwf.2
    refine (seqGo_cons_sound h1 h2 ?_).mono (fun p q ⟨m, hm, hq⟩ hp => ?_)
    · intro hnil m _
      cases os with
      | nil => simp only [OpRSeq]
      | cons o2 os2 => simp [semL] at hnil
    · simp only [OpRSeq]
      have hpm := hm hp
      exact ⟨m, hpm, hq (OpR_bounds_op ctx o p m hp hpm).2⟩
termination_by structural ops => ops
end

/-! ### the search -/

theorem matchAt_sound_aux (ctx : Ctx) (op : Op) (hwf : wfOp op = true) (j : Nat) (hj : j ≤ ctx.len)
    (st st' : St) (h : matchAt ctx op j st = (true, st')) : ∃ n, OpR ctx op j n := by
  unfold matchAt at h
  simp only at h
  split at h
  · rename_i n st1 r heq
    have hs : ∀ s r', sem ctx op j s = Step.cons n st1 r' → OpR ctx op j n := by
      intro s r' he
      have hs := sem_sound_op ctx op hwf j s
      rw [he] at hs
      exact hs.head hj
    exact ⟨n, hs _ _ heq⟩
  · simp at h
  · simp at h

theorem tryCands_sound (ctx : Ctx) (op : Op) : ∀ (js : List Nat) (st st' : St),
    tryCands ctx op js st = (true, st') →
    ∃ j, j ∈ js ∧ ∃ st1 st2, matchAt ctx op j st1 = (true, st2) := by
  intro js
  induction js with
  | nil => intro st st' h; simp [tryCands] at h
  | cons j js ih =>
    intro st st' h
    unfold tryCands at h
    split at h
    · rename_i st1 heq
      exact ⟨j, List.mem_cons_self, st, st1, heq⟩
    · split at h
      · simp at h
      · obtain ⟨j', hj', hm⟩ := ih _ _ h
        exact ⟨j', List.mem_cons_of_mem _ hj', hm⟩

theorem mem_rangeFrom {lo hi j : Nat} (h : j ∈ rangeFrom lo hi) : lo ≤ j ∧ j < hi := by
  simp only [rangeFrom, List.mem_filter, List.mem_range, decide_eq_true_eq] at h
  omega

theorem matchesFrom_sound (ctx : Ctx) (pr : Prog) (i : Nat) (st0 st' : St) (hi : i ≤ ctx.len)
    (h : matchesFrom ctx pr i st0 = (true, st')) :
    ∃ j, j ≤ ctx.len ∧ ∃ st1 st2, matchAt ctx pr.op j st1 = (true, st2) := by
  unfold matchesFrom at h
  simp only at h
  split at h
  · split at h
    · split at h
      · simp at h
      · split at h
        · simp at h
        · exact ⟨i, hi, _, _, h⟩
    · obtain ⟨j, hj, hm⟩ := tryCands_sound _ _ _ _ _ h
      refine ⟨j, ?_, hm⟩
      simp only [List.mem_cons, List.mem_filter, decide_eq_true_eq] at hj
      rcases hj with rfl | hj
      · exact hi
      · omega
  · split at h
    · simp at h
    · split at h
      · simp at h
      · split at h
        · split at h
          · simp at h
          · obtain ⟨j, hj, hm⟩ := tryCands_sound _ _ _ _ _ h
            refine ⟨j, ?_, hm⟩
            simp only [List.mem_filter] at hj
            have := mem_rangeFrom hj.1
            omega
        · split at h
          · obtain ⟨j, hj, hm⟩ := tryCands_sound _ _ _ _ _ h
            refine ⟨j, ?_, hm⟩
            simp only [List.mem_filter] at hj
            have := mem_rangeFrom hj.1
            omega
          · split at h
            · simp at h
            · obtain ⟨j, hj, hm⟩ := tryCands_sound _ _ _ _ _ h
              refine ⟨j, ?_, hm⟩
              have := mem_rangeFrom hj
              omega

theorem isMatch_true {pr : Prog} {lower : Nat → Nat} {input : List Nat}
    (h : pr.isMatch lower input = .ok true) :
    ∃ st, matchesFrom (pr.ctx lower input) pr 0 {} = (true, st) := by
  unfold Prog.isMatch at h
  generalize matchesFrom (pr.ctx lower input) pr 0 {} = r at h
  obtain ⟨m, st⟩ := r
  simp only at h
  split at h
  · unfold Out.ofFailed at h
    split at h <;> cases h
  · simp only [Out.ok.injEq] at h
    exact ⟨st, by rw [h]⟩

end Rx
