/-
  Proofs/ApiCompleteLemmas — helper lemmas for Props/ApiComplete: the real API functions
  (`is_match`, `replace_all`, `tokenize`, `analyze`) on the enlarged clean fragment.

    * `sem_wfinv`          a generic state invariant of the engine of a well-formed tree (every
                           invariant kept by the primitive writes; the capture writes only if the tree
                           has a capture node); instances: `parenCount ≥ 1`, `parenCount = 1`
    * `firstSpan`, `spansFrom`   the STATE-FREE span sequence: least start with a match, first end of
                           the priority order `enum2`, continue from that end
    * `FindOK`             what one `matches(pos)` of a non-nullable program of the fragment does,
                           in terms of `firstSpan`; `findOK_of_clean2` establishes it
    * `spansOf_eq`         THE SCAN SEES EXACTLY THE SEMANTIC SPANS: `C04.spansOf` of the concrete
                           matcher is `spansFrom`
    * `tokenLoop_spec`, `replaceLoop_spec`, `analyzeLoop_total`   the three scan loops, total and equal
                           to their specification over `spansFrom`
-/
import RxModel.Props.Clean2Api
import RxModel.Props.C15
import RxModel.Props.C03
namespace Rx.ApiComplete
open Rx Rx.SearchComplete Rx.Spec
open Rx.C08 (noEmptyAtoms)

/-! ## a generic state invariant for well-formed trees -/

mutual
/-- does the tree contain a capture node? -/
def hasCapNode : Op → Bool
  | .capture _ _ => true
  | .choice bs => hasCapNodeL bs
  | .seq ops => hasCapNodeL ops
  | .rep _ c _ _ _ => hasCapNode c
  | .gfixed c _ _ _ => hasCapNode c
  | .rfixed c _ _ _ => hasCapNode c
  | .unamb c _ _ => hasCapNode c
  | _ => false
termination_by structural o => o
def hasCapNodeL : List Op → Bool
  | [] => false
  | o :: os => hasCapNode o || hasCapNodeL os
termination_by structural l => l
end

/-- the two state writes of a capture node keep `I` -/
structure CapOK (I : St → Prop) (ctx : Ctx) : Prop where
  pre : ∀ g p st, I st → I (if ctx.hasBackrefs then
      (if g ≥ st.startBr.length then st.setPanic panicCaptureIndex
       else { st with startBr := setIn st.startBr g (some p) }) else st)
  write : ∀ g p n st, I st → I (captureWrite ctx g p n st)

theorem childOK_wf {I : St → Prop} (ctx : Ctx) (c : Op) (hwc : wfOp c = true)
    (h : GenInv (fun p => p ≤ ctx.len) I (sem ctx c)) :
    ChildOK (fun p => p ≤ ctx.len) I (sem ctx c) where
  inv := h
  fst := fun p st hp hst => first1_inv_nodiv (h p st hp hst) (sem_nd ctx c hwc p st hp)
  pos := fun p st hp => (sem_bounds_op ctx c hwc p hp st).mono (fun _ hn => hn.2)

mutual
/-- every invariant the primitive writes keep is kept by the engine of a well-formed tree started
    inside the input (the capture writes are needed only if the tree has a capture node) -/
theorem sem_wfinv {I : St → Prop} (W : Writes I) (hp : ∀ st c, I st → I (st.setPanic c)) (ctx : Ctx) :
    (op : Op) → wfOp op = true → (hasCapNode op = true → CapOK I ctx) →
    GenInv (fun p => p ≤ ctx.len) I (sem ctx op)
  | .bol, _, _ => by simp only [sem]; exact bolGen_inv ctx
  | .eol, _, _ => by simp only [sem]; exact eolGen_inv ctx
  | .nothing, _, _ => by simp only [sem]; exact nothingGen_inv
  | .endProgram, _, _ => by simp only [sem]; exact endGen_inv W
  | .atom cs, _, _ => by simp only [sem]; exact atomGen_inv ctx cs
  | .cls rs, _, _ => by simp only [sem]; exact clsGen_inv ctx rs
  | .backref g, _, _ => by simp only [sem]; exact backrefGen_inv hp ctx g
  | .capture g c, hwf, hc => by
    simp only [wfOp] at hwf
    have C := hc rfl
    simp only [sem]
    exact captureGen_inv ctx g (fun p st hst => C.pre g p st hst) (fun p n st hst => C.write g p n st hst)
      (sem_wfinv W hp ctx c hwf (fun _ => C))
  | .choice bs, hwf, hc => by
    simp only [wfOp, Bool.and_eq_true] at hwf
    simp only [sem]
    exact sem_wfinv_choice W hp ctx bs hwf.2 (fun h => hc (by simpa only [hasCapNode] using h))
  | .seq ops, hwf, hc => by
    simp only [wfOp, Bool.and_eq_true] at hwf
    simp only [sem]
    exact seqGen_inv W (sem_wfinv_seq W hp ctx ops hwf.2 (fun h => hc (by simpa only [hasCapNode] using h))) _
  | .rep id c mn mx greedy, hwf, hc => by
    simp only [wfOp, Bool.and_eq_true, decide_eq_true_eq] at hwf
    obtain ⟨⟨hwc, _⟩, _⟩ := hwf
    have C := childOK_wf ctx c hwc (sem_wfinv W hp ctx c hwc (fun h => hc (by simpa only [hasCapNode] using h)))
    simp only [sem]
    split
    · exact repGreedyGen_inv W C ctx id mn mx
    · exact repReluctantGen_inv W C ctx mn mx
  | .gfixed c mn mx len, hwf, hc => by
    simp only [wfOp, Bool.and_eq_true, decide_eq_true_eq, beq_iff_eq] at hwf
    obtain ⟨⟨⟨⟨⟨hwc, _⟩, _⟩, _⟩, _⟩, _⟩ := hwf
    have C := childOK_wf ctx c hwc (sem_wfinv W hp ctx c hwc (fun h => hc (by simpa only [hasCapNode] using h)))
    simp only [sem]
    exact gfixedGen_inv W C ctx mn mx len (fun _ h => h)
  | .rfixed c mn mx len, hwf, hc => by
    simp only [wfOp, Bool.and_eq_true, decide_eq_true_eq, beq_iff_eq] at hwf
    obtain ⟨⟨⟨⟨⟨hwc, _⟩, _⟩, _⟩, _⟩, _⟩ := hwf
    have C := childOK_wf ctx c hwc (sem_wfinv W hp ctx c hwc (fun h => hc (by simpa only [hasCapNode] using h)))
    simp only [sem]
    exact rfixedGen_inv W C ctx mn mx
  | .unamb c mn mx, hwf, hc => by
    simp only [wfOp, Bool.and_eq_true, decide_eq_true_eq] at hwf
    obtain ⟨⟨hwc, _⟩, _⟩ := hwf
    have C := childOK_wf ctx c hwc (sem_wfinv W hp ctx c hwc (fun h => hc (by simpa only [hasCapNode] using h)))
    simp only [sem]
    exact unambGen_inv W C ctx mn mx (fun _ h => h)
termination_by structural op => op
theorem sem_wfinv_choice {I : St → Prop} (W : Writes I) (hp : ∀ st c, I st → I (st.setPanic c)) (ctx : Ctx) :
    (bs : List Op) → wfOps bs = true → (hasCapNodeL bs = true → CapOK I ctx) →
    GenInv (fun p => p ≤ ctx.len) I (choiceGen (semL ctx bs))
  | [], _, _ => by simp only [semL]; exact choiceGen_nil_inv
  | b :: bs, hwf, hc => by
    simp only [wfOps, Bool.and_eq_true] at hwf
    simp only [semL]
    exact choiceGen_cons_inv W
      (sem_wfinv W hp ctx b hwf.1 (fun h => hc (by simp only [hasCapNodeL, h, Bool.true_or])))
      (sem_wfinv_choice W hp ctx bs hwf.2 (fun h => hc (by simp only [hasCapNodeL, h, Bool.or_true])))
termination_by structural bs => bs
theorem sem_wfinv_seq {I : St → Prop} (W : Writes I) (hp : ∀ st c, I st → I (st.setPanic c)) (ctx : Ctx) :
    (ops : List Op) → wfOps ops = true → (hasCapNodeL ops = true → CapOK I ctx) →
    GenInv (fun p => p ≤ ctx.len) I (seqGo (semL ctx ops))
  | [], _, _ => by simp only [semL]; exact seqGo_nil_inv
  | o :: os, hwf, hc => by
    simp only [wfOps, Bool.and_eq_true] at hwf
    simp only [semL]
    exact seqGo_cons_inv W
      (sem_wfinv W hp ctx o hwf.1 (fun h => hc (by simp only [hasCapNodeL, h, Bool.true_or])))
      (fun p st hp' => (sem_bounds_op ctx o hwf.1 p hp' st).mono (fun _ hn => hn.2))
      (sem_wfinv_seq W hp ctx os hwf.2 (fun h => hc (by simp only [hasCapNodeL, h, Bool.or_true])))
termination_by structural ops => ops
end

/-- an invariant that only looks at `parenCount` -/
theorem writes_pc (P : Nat → Prop) : Writes (fun st => P st.cap.parenCount) where
  clear := fun _ _ h => h
  div := fun st h => by
    unfold St.setPanic
    split <;> exact h
  hist := fun _ _ h => h
  restore := fun _ _ h _ => h
  setEnd0 := fun _ _ h => h

theorem setPanic_pc (P : Nat → Prop) (st : St) (c : Nat) (h : P st.cap.parenCount) :
    P (st.setPanic c).cap.parenCount := by
  unfold St.setPanic
  split <;> exact h

theorem capOK_ge1 (ctx : Ctx) : CapOK (fun st => 1 ≤ st.cap.parenCount) ctx where
  pre := by
    intro g p st h
    split
    · split
      · exact setPanic_pc (fun n => 1 ≤ n) st _ h
      · exact h
    · exact h
  write := by
    intro g p n st h
    unfold captureWrite
    simp only
    have key : 1 ≤ (((if g ≥ st.cap.parenCount then { st.cap with parenCount := g + 1 } else st.cap).setStart
        g p).setEnd g n).parenCount := by
      simp only [Cap.setStart, Cap.setEnd]
      split
      · exact Nat.le_add_left 1 g
      · exact h
    split
    · exact key
    · exact key

/-- a successful `match_at` leaves `parenCount ≥ 1`, and `= 1` if the tree has no capture node -/
theorem matchAt_pc (ctx : Ctx) (op : Op) (hwf : wfOp op = true) (j : Nat) (hj : j ≤ ctx.len)
    (st st' : St) (h : matchAt ctx op j st = (true, st')) :
    1 ≤ st'.cap.parenCount ∧ (hasCapNode op = false → st'.cap.parenCount = 1) := by
  rw [matchAt_eq] at h
  have h1 : (matchStart ctx j st).cap.parenCount = 1 := by
    unfold matchStart
    simp only
    split <;> rfl
  generalize matchStart ctx j st = s0 at h h1
  have i1 := sem_wfinv (writes_pc (fun n => 1 ≤ n)) (setPanic_pc (fun n => 1 ≤ n)) ctx op hwf (fun _ => capOK_ge1 ctx)
    j s0 hj (by show 1 ≤ s0.cap.parenCount; rw [h1]; exact Nat.le_refl 1)
  split at h
  · rename_i n st1 r heq
    rw [heq] at i1
    simp only [Prod.mk.injEq, true_and] at h
    subst h
    refine ⟨i1.head, fun hnc => ?_⟩
    have i2 := sem_wfinv (writes_pc (fun n => n = 1)) (setPanic_pc (fun n => n = 1)) ctx op hwf
      (fun hc => by rw [hnc] at hc; cases hc) j s0 hj h1
    rw [heq] at i2
    exact i2.head
  · simp at h
  · simp at h

/-! ## the state-free span sequence -/

/-- the first `j ≥ start` (within `fuel` positions) with `e j = some n`, and that `n` -/
def firstFrom (e : Nat → Option Nat) : (fuel : Nat) → (j : Nat) → Option (Nat × Nat)
  | 0, _ => none
  | f+1, j =>
    match e j with
    | some n => some (j, n)
    | none => firstFrom e f (j + 1)

theorem firstFrom_some (e : Nat → Option Nat) : ∀ (f j a n : Nat), firstFrom e f j = some (a, n) →
    j ≤ a ∧ a < j + f ∧ e a = some n ∧ ∀ k, j ≤ k → k < a → e k = none := by
  intro f
  induction f with
  | zero => intro j a n h; simp [firstFrom] at h
  | succ f ih =>
    intro j a n h
    unfold firstFrom at h
    cases he : e j with
    | some m =>
      rw [he] at h
      simp only [Option.some.injEq, Prod.mk.injEq] at h
      obtain ⟨rfl, rfl⟩ := h
      exact ⟨Nat.le_refl _, by omega, he, fun k h1 h2 => by omega⟩
    | none =>
      rw [he] at h
      obtain ⟨h1, h2, h3, h4⟩ := ih (j + 1) a n h
      refine ⟨by omega, by omega, h3, fun k hk1 hk2 => ?_⟩
      by_cases hkj : k = j
      · subst hkj; exact he
      · exact h4 k (by omega) hk2

theorem firstFrom_none (e : Nat → Option Nat) : ∀ (f j : Nat), firstFrom e f j = none →
    ∀ k, j ≤ k → k < j + f → e k = none := by
  intro f
  induction f with
  | zero => intro j _ k h1 h2; omega
  | succ f ih =>
    intro j h k h1 h2
    unfold firstFrom at h
    cases he : e j with
    | some m => rw [he] at h; cases h
    | none =>
      rw [he] at h
      by_cases hkj : k = j
      · subst hkj; exact he
      · exact ih (j + 1) h k (by omega) (by omega)

theorem firstFrom_eq_some (e : Nat → Option Nat) : ∀ (f j a n : Nat), j ≤ a → a < j + f → e a = some n →
    (∀ k, j ≤ k → k < a → e k = none) → firstFrom e f j = some (a, n) := by
  intro f
  induction f with
  | zero => intro j a n h1 h2; omega
  | succ f ih =>
    intro j a n h1 h2 h3 h4
    unfold firstFrom
    by_cases hja : j = a
    · subst hja; rw [h3]
    · rw [h4 j (Nat.le_refl _) (by omega)]
      exact ih (j + 1) a n (by omega) (by omega) h3 (fun k hk1 hk2 => h4 k (by omega) hk2)

theorem firstFrom_eq_none (e : Nat → Option Nat) : ∀ (f j : Nat),
    (∀ k, j ≤ k → k < j + f → e k = none) → firstFrom e f j = none := by
  intro f
  induction f with
  | zero => intro j _; rfl
  | succ f ih =>
    intro j h
    unfold firstFrom
    rw [h j (Nat.le_refl _) (by omega)]
    exact ih (j + 1) (fun k hk1 hk2 => h k (by omega) (by omega))

/-- the least start `≥ pos` (inside the input) from which the priority enumeration `enum2` is
    non-empty, paired with the head of that enumeration -/
def firstSpan (ctx : Ctx) (op : Op) (pos : Nat) : Option (Nat × Nat) :=
  firstFrom (fun j => (enum2 ctx op j).head?) (ctx.len + 1 - pos) pos

/-- search from `pos`, then from the end of each span (the shape of `C04.spansOf`, without states) -/
def spansFrom (ctx : Ctx) (op : Op) : (fuel : Nat) → (pos : Nat) → List (Nat × Nat)
  | 0, _ => []
  | f+1, pos =>
    if pos < ctx.len then
      match firstSpan ctx op pos with
      | some (a, b) => (a, b) :: spansFrom ctx op f b
      | none => []
    else []

theorem spansFrom_cons (ctx : Ctx) (op : Op) (f pos a b : Nat) (hlt : pos < ctx.len)
    (h : firstSpan ctx op pos = some (a, b)) :
    spansFrom ctx op (f + 1) pos = (a, b) :: spansFrom ctx op f b := by
  rw [spansFrom, if_pos hlt, h]

theorem spansFrom_none (ctx : Ctx) (op : Op) (f pos : Nat) (h : firstSpan ctx op pos = none) :
    spansFrom ctx op f pos = [] := by
  cases f with
  | zero => rfl
  | succ f =>
    rw [spansFrom]
    split
    · rw [h]
    · rfl

theorem spansFrom_ge (ctx : Ctx) (op : Op) (f pos : Nat) (h : ¬ pos < ctx.len) :
    spansFrom ctx op f pos = [] := by
  cases f with
  | zero => rfl
  | succ f => rw [spansFrom, if_neg h]

/-! ## what one `matches(pos)` does -/

/-- one search of a NON-NULLABLE program of the fragment, from a clean state: it succeeds exactly when
    `firstSpan` is defined, reports that span (non-empty), stays clean, leaves `parenCount ≥ 1` -/
structure FindOK (ctx : Ctx) (pr : Prog) : Prop where
  step : ∀ pos st, pos ≤ ctx.len → st.panic = none →
    (∃ st' j n, matchesFrom ctx pr pos st = (true, st') ∧ st'.panic = none ∧
        firstSpan ctx pr.op pos = some (j, n) ∧
        getParenStart st' 0 = some j ∧ getParenEnd st' 0 = some n ∧ pos ≤ j ∧ j < n ∧ n ≤ ctx.len ∧
        1 ≤ st'.cap.parenCount ∧ (hasCapNode pr.op = false → st'.cap.parenCount = 1)) ∨
    (∃ st', matchesFrom ctx pr pos st = (false, st') ∧ st'.panic = none ∧ firstSpan ctx pr.op pos = none)
  /-- what `firstSpan` means in terms of the language -/
  sem : ∀ pos, pos ≤ ctx.len →
    (∀ j n, firstSpan ctx pr.op pos = some (j, n) →
      OpR ctx pr.op j n ∧ ∀ k q, pos ≤ k → k < j → ¬ OpR ctx pr.op k q) ∧
    (firstSpan ctx pr.op pos = none → ∀ k q, pos ≤ k → k ≤ ctx.len → ¬ OpR ctx pr.op k q)

/-- an `Outcome` on a tree of the fragment, read through `firstSpan` -/
theorem outcome_firstSpan {ctx : Ctx} {o : Op} (hs : shape2 o = true) (hwf : wfOp o = true)
    (hne : noEmptyAtoms o = true) (hcp : C02.capsPos o = true)
    (hnz : ∀ j, ¬ OpR ctx o j j)
    {pos : Nat} (hpos : pos ≤ ctx.len) {r : Bool × St} (h : Outcome ctx o pos r) :
    (∃ j n, r.1 = true ∧ r.2.panic = none ∧ firstSpan ctx o pos = some (j, n) ∧
        getParenStart r.2 0 = some j ∧ getParenEnd r.2 0 = some n ∧ pos ≤ j ∧ j < n ∧ n ≤ ctx.len ∧
        1 ≤ r.2.cap.parenCount ∧ (hasCapNode o = false → r.2.cap.parenCount = 1) ∧
        OpR ctx o j n ∧ (∀ k q, pos ≤ k → k < j → ¬ OpR ctx o k q)) ∨
    (r.1 = false ∧ r.2.panic = none ∧ firstSpan ctx o pos = none ∧
      ∀ k q, pos ≤ k → k ≤ ctx.len → ¬ OpR ctx o k q) := by
  have hsound : ∀ k, k ≤ ctx.len → (¬ ∃ q, OpR ctx o k q) → (enum2 ctx o k).head? = none := by
    intro k hk hno
    cases hl : enum2 ctx o k with
    | nil => rfl
    | cons q l =>
      exact absurd ⟨q, Clean2.enum2_sound ctx o hs hwf hne k q hk (by rw [hl]; exact List.mem_cons_self)⟩ hno
  rcases h.2 with ⟨ht, j, stj, h1, h2, _, hmin, hma⟩ | ⟨hf, hno⟩
  · left
    obtain ⟨j', n, hs0, he, hh, a1, a2, a3, a4, a5⟩ := h.span_clean2 hs hwf hne hcp ht
    have hjj : j' = j := by
      obtain ⟨b, st'⟩ := r
      simp only at ht
      subst ht
      have := (C02.matchAt_span ctx o hwf hcp j h2 stj st' hma).1
      rw [this] at hs0
      exact (Option.some.inj hs0).symm
    subst hjj
    have hpc : 1 ≤ r.2.cap.parenCount ∧ (hasCapNode o = false → r.2.cap.parenCount = 1) := by
      obtain ⟨b, st'⟩ := r
      simp only at ht
      subst ht
      exact matchAt_pc ctx o hwf j' h2 stj st' hma
    refine ⟨j', n, ht, h.1, ?_, hs0, he, a1, ?_, a3, hpc.1, hpc.2, a4, a5⟩
    · unfold firstSpan
      apply firstFrom_eq_some _ _ _ _ _ a1 (by omega) hh
      intro k hk1 hk2
      exact hsound k (by omega) (fun ⟨q, hq⟩ => a5 k q hk1 hk2 hq)
    · rcases Nat.lt_or_ge j' n with hlt | hge
      · exact hlt
      · have : j' = n := by omega
        subst this
        exact absurd a4 (hnz j')
  · right
    refine ⟨hf, h.1, ?_, fun k q hk1 hk2 hq => hno k hk1 hk2 ⟨q, hq⟩⟩
    unfold firstSpan
    apply firstFrom_eq_none
    intro k hk1 hk2
    exact hsound k (by omega) (hno k hk1 (by omega))

/-- a non-nullable program built from a tree of the fragment satisfies `FindOK` on every admissible input -/
theorem findOK_of_clean2 (env : Env) (pat : List Nat) (op : Op) (mp : Nat) (fl : CFlags) (lower : Nat → Nat)
    (hc : cleanProg2 env fl.caseBlind fl.multiLine op = true) (hwf : wfOp op = true)
    (hne : noEmptyAtoms op = true) (hcan : clsCanonB op = true) (hcp : C02.capsPos op = true)
    (hnull : (mkProgram pat op mp fl false).isMatch lower [] = .ok false)
    (input : List Nat) (hI : InputOKFor env fl lower input) (hlen : input.length < usizeMax) :
    FindOK ((mkProgram pat op mp fl false).ctx lower input) (mkProgram pat op mp fl false) := by
  have hs := Clean2.cleanProg2_shape env _ _ op hc
  have hop := mkProgram_op_shape2 pat op mp fl false hs
  have hnz : ∀ j, ¬ OpR ((mkProgram pat op mp fl false).ctx lower input) (mkProgram pat op mp fl false).op j j := by
    intro j hj
    have hz := C16.OpR_zero_anywhere _ _ j hj
    have hm := (Clean2Complete.clean2_isMatch_iff env pat op mp fl lower [] (Clean2Api.inputOKFor_nil hI) hc hwf hne
      hcan (by decide)).2 ⟨0, 0, Nat.le_refl _, hz⟩
    rw [hnull] at hm
    cases hm
  constructor
  · intro pos st hpos hst
    have ho := clean2_outcome env pat op mp fl lower input hI hc hwf hne hcan hlen pos hpos st hst
    rcases outcome_firstSpan (by rw [hop]; exact hs) (by rw [hop]; exact hwf) (by rw [hop]; exact hne)
        (by rw [hop]; exact hcp) hnz hpos ho with ⟨j, n, a1, a2, a3, a4, a5, a6, a7, a8, a9, a10, _⟩ | ⟨a1, a2, a3, _⟩
    · left
      exact ⟨_, j, n, Prod.ext a1 rfl, a2, a3, a4, a5, a6, a7, a8, a9, a10⟩
    · right
      exact ⟨_, Prod.ext a1 rfl, a2, a3⟩
  · intro pos hpos
    have ho := clean2_outcome env pat op mp fl lower input hI hc hwf hne hcan hlen pos hpos {} rfl
    rcases outcome_firstSpan (by rw [hop]; exact hs) (by rw [hop]; exact hwf) (by rw [hop]; exact hne)
        (by rw [hop]; exact hcp) hnz hpos ho with ⟨j, n, _, _, a3, _, _, _, _, _, _, _, b1, b2⟩ | ⟨_, _, a3, b1⟩
    · refine ⟨fun j' n' h' => ?_, fun h' => ?_⟩
      · rw [a3] at h'
        simp only [Option.some.injEq, Prod.mk.injEq] at h'
        obtain ⟨rfl, rfl⟩ := h'
        exact ⟨b1, b2⟩
      · rw [a3] at h'; cases h'
    · refine ⟨fun j' n' h' => ?_, fun _ => b1⟩
      rw [a3] at h'; cases h'

/-! ## the scan loops over a matcher satisfying `FindOK` -/

section loops
variable {pr : Prog} {lower : Nat → Nat} {input : List Nat}

/-- `FindOK` gives the hypothesis of the C04 theorems -/
theorem FindOK.goodFind (F : FindOK (pr.ctx lower input) pr) :
    C04.GoodFind (pr.matcher lower input) input.length (fun st => st.panic = none) := by
  constructor
  intro st pos st' m hinv hpos hfind hfailed
  refine ⟨hfailed, fun hm => ?_⟩
  subst hm
  have hfind' : matchesFrom (pr.ctx lower input) pr pos st = (true, st') := hfind
  rcases F.step pos st hpos hinv with ⟨st2, j, n, he, _, _, a4, a5, a6, a7, a8, _⟩ | ⟨st2, he, _⟩
  · rw [hfind'] at he
    simp only [Prod.mk.injEq, true_and] at he
    subst he
    exact ⟨j, n, a4, a5, a6, a7, a8⟩
  · rw [hfind'] at he; cases he

/-- what holds of the state in which a span was found -/
structure PostMatch (pr : Prog) (input : List Nat) (st : St) (j n : Nat) : Prop where
  clean : st.panic = none
  start0 : getParenStart st 0 = some j
  end0 : getParenEnd st 0 = some n
  lt : j < n
  le : n ≤ input.length
  pc : 1 ≤ st.cap.parenCount
  pc1 : hasCapNode pr.op = false → st.cap.parenCount = 1

/-- **the scan sees exactly the semantic spans** (with any data computed from the state of a match
    that is determined by the span) -/
theorem spansOf_map (F : FindOK (pr.ctx lower input) pr) {α : Type}
    (f : St → Nat → Nat → α) (g : Nat → Nat → α)
    (hfg : ∀ st j n, PostMatch pr input st j n → f st j n = g j n) :
    ∀ (k pos : Nat) (st : St), st.panic = none → pos ≤ input.length →
      (C04.spansOf (pr.matcher lower input) input.length k pos st).map (fun x => (x.1, x.2.1, f x.2.2 x.1 x.2.1)) =
      (spansFrom (pr.ctx lower input) pr.op k pos).map (fun y => (y.1, y.2, g y.1 y.2)) := by
  intro k
  induction k with
  | zero => intro pos st _ _; rfl
  | succ k ih =>
    intro pos st hst hpos
    have hlen : (pr.ctx lower input).len = input.length := rfl
    by_cases hlt : pos < input.length
    · have hfind : (pr.matcher lower input).find st pos = matchesFrom (pr.ctx lower input) pr pos st := rfl
      rcases F.step pos st hpos hst with ⟨st', j, n, he, a2, a3, a4, a5, a6, a7, a8, a9, a10⟩ | ⟨st', he, _, a3⟩
      · rw [C04.spansOf_true _ _ _ _ j n st st' hlt (hfind.trans he) a4 a5]
        rw [spansFrom_cons _ _ _ _ j n hlt a3]
        simp only [List.map_cons]
        rw [ih n st' a2 a8, hfg st' j n ⟨a2, a4, a5, a7, a8, a9, a10⟩]
      · rw [C04.spansOf_false _ _ _ _ st st' (hfind.trans he), spansFrom_none _ _ _ _ a3]
        rfl
    · rw [C04.spansOf_ge _ _ _ _ _ hlt, spansFrom_ge _ _ _ _ hlt]
      rfl

theorem spansOf_eq (F : FindOK (pr.ctx lower input) pr) (k pos : Nat) (st : St)
    (hst : st.panic = none) (hpos : pos ≤ input.length) :
    C04.spanPairs (C04.spansOf (pr.matcher lower input) input.length k pos st) =
      spansFrom (pr.ctx lower input) pr.op k pos := by
  have := spansOf_map F (fun _ _ _ => ()) (fun _ _ => ()) (fun _ _ _ _ => rfl) k pos st hst hpos
  have h2 := congrArg (List.map (fun x : Nat × Nat × Unit => (x.1, x.2.1))) this
  simpa only [C04.spanPairs, List.map_map, Function.comp_def, List.map_id'] using h2

/-! ### tokenize -/

/-- the token loop is total and yields exactly the pieces between the semantic spans -/
theorem tokenLoop_spec (F : FindOK (pr.ctx lower input) pr) :
    ∀ (l k pe : Nat) (st : St) (acc : List (List Nat)), st.panic = none → pe ≤ input.length →
      input.length - pe + 1 ≤ l → input.length - pe ≤ k →
      tokenLoop (pr.matcher lower input) input l (some pe) st acc =
        .ok (acc ++ pieces input pe (spansFrom (pr.ctx lower input) pr.op k pe), false) := by
  intro l
  induction l with
  | zero => intro k pe st acc _ _ hl; omega
  | succ l ih =>
    intro k pe st acc hst hpe hl hk
    have hlen : (pr.ctx lower input).len = input.length := rfl
    have hfind : (pr.matcher lower input).find st pe = matchesFrom (pr.ctx lower input) pr pe st := rfl
    unfold tokenLoop
    simp only [tokenNext, hfind]
    rcases F.step pe st hpe hst with ⟨st', j, n, he, a2, a3, a4, a5, a6, a7, a8, _⟩ | ⟨st', he, a2, a3⟩
    · have hf : (pr.matcher lower input).failed st' = none := a2
      have hs0 : (pr.matcher lower input).start0 st' = some j := a4
      have he0 : (pr.matcher lower input).end0 st' = some n := a5
      have hnlt : ¬ j < pe := by omega
      simp only [he, hf, hs0, he0, hnlt, if_false]
      obtain ⟨k', rfl⟩ : ∃ k', k = k' + 1 := ⟨k - 1, by omega⟩
      rw [ih k' n st' _ a2 a8 (by omega) (by omega)]
      have hlt : pe < input.length := by omega
      rw [spansFrom_cons _ _ _ _ j n hlt a3]
      simp only [pieces, List.append_assoc, List.singleton_append]
    · have hf : (pr.matcher lower input).failed st' = none := a2
      simp only [he, hf, C04.tokenLoop_none]
      rw [spansFrom_none _ _ _ _ a3]
      simp only [pieces]

/-- … and total for every limit -/
theorem tokenLoop_total (F : FindOK (pr.ctx lower input) pr) :
    ∀ (l : Nat) (pe : Option Nat) (st : St) (acc : List (List Nat)), st.panic = none →
      (∀ p, pe = some p → p ≤ input.length) →
      ∃ toks more, tokenLoop (pr.matcher lower input) input l pe st acc = .ok (toks, more) := by
  intro l
  induction l with
  | zero =>
    intro pe st acc hst hpe
    cases pe with
    | none => exact ⟨acc, false, C04.tokenLoop_none _ _ _ _ _⟩
    | some p =>
      have hfind : (pr.matcher lower input).find st p = matchesFrom (pr.ctx lower input) pr p st := rfl
      unfold tokenLoop
      simp only [tokenNext, hfind]
      rcases F.step p st (hpe p rfl) hst with ⟨st', j, n, he, a2, a3, a4, a5, a6, a7, a8, _⟩ | ⟨st', he, a2, a3⟩
      · have hf : (pr.matcher lower input).failed st' = none := a2
        have hs0 : (pr.matcher lower input).start0 st' = some j := a4
        have hnlt : ¬ j < p := by omega
        simp only [he, hf, hs0, hnlt, if_false]
        exact ⟨_, _, rfl⟩
      · have hf : (pr.matcher lower input).failed st' = none := a2
        simp only [he, hf]
        exact ⟨_, _, rfl⟩
  | succ l ih =>
    intro pe st acc hst hpe
    cases pe with
    | none => exact ⟨acc, false, C04.tokenLoop_none _ _ _ _ _⟩
    | some p =>
      have hfind : (pr.matcher lower input).find st p = matchesFrom (pr.ctx lower input) pr p st := rfl
      unfold tokenLoop
      simp only [tokenNext, hfind]
      rcases F.step p st (hpe p rfl) hst with ⟨st', j, n, he, a2, a3, a4, a5, a6, a7, a8, _⟩ | ⟨st', he, a2, a3⟩
      · have hf : (pr.matcher lower input).failed st' = none := a2
        have hs0 : (pr.matcher lower input).start0 st' = some j := a4
        have he0 : (pr.matcher lower input).end0 st' = some n := a5
        have hnlt : ¬ j < p := by omega
        simp only [he, hf, hs0, he0, hnlt, if_false]
        exact ih (some n) st' _ a2 (fun q hq => by cases hq; exact a8)
      · have hf : (pr.matcher lower input).failed st' = none := a2
        simp only [he, hf]
        exact ih none st' _ a2 (fun q hq => by cases hq)

/-- the span sequence is strictly left to right, non-empty spans, inside the input -/
theorem spansFrom_ordered (F : FindOK (pr.ctx lower input) pr) :
    ∀ (k pos : Nat), pos ≤ input.length →
      C04.Ordered input.length pos (spansFrom (pr.ctx lower input) pr.op k pos) := by
  intro k
  induction k with
  | zero => intro pos _; exact trivial
  | succ k ih =>
    intro pos hpos
    have hlen : (pr.ctx lower input).len = input.length := rfl
    by_cases hlt : pos < input.length
    · rcases F.step pos {} hpos rfl with ⟨st', j, n, _, _, a3, _, _, a6, a7, a8, _⟩ | ⟨st', _, _, a3⟩
      · rw [spansFrom_cons _ _ _ _ j n hlt a3]
        exact ⟨a6, a7, a8, ih n a8⟩
      · rw [spansFrom_none _ _ _ _ a3]; exact trivial
    · rw [spansFrom_ge _ _ _ _ hlt]; exact trivial

/-! ### replace -/

/-- the groups as seen by a replacement string that only refers to the whole match -/
def grp0 (input : List Nat) (j n : Nat) : Nat → Option (List Nat) :=
  fun g => if g = 0 then some (slice input j n) else none

/-- the replacement string is well formed and its expansion depends on group 0 only
    (no `$N` with `N ≥ 1`); holds of every plain replacement, of `$0`, and is implied by the
    decidable `dollar0Only` -/
def Dep0 (mc : Nat) (repl : List Nat) : Prop :=
  ∀ grp grp' : Nat → Option (List Nat), grp 0 = grp' 0 →
    expandSpec mc grp repl = expandSpec mc grp' repl ∧ (expandSpec mc grp repl).isSome = true

/-- decidable: well formed, and every group reference is `$0` -/
def dollar0Only (mc : Nat) (repl : List Nat) : Bool :=
  match tokens mc (repl.length + 1) repl with
  | some ts => ts.all (fun t => match t with | .lit _ => true | .group n => n == 0)
  | none => false

theorem dep0_of_dollar0Only (mc : Nat) (repl : List Nat) (h : dollar0Only mc repl = true) : Dep0 mc repl := by
  intro grp grp' h0
  unfold dollar0Only at h
  unfold expandSpec
  cases ht : tokens mc (repl.length + 1) repl with
  | none => rw [ht] at h; cases h
  | some ts =>
    rw [ht] at h
    simp only [List.all_eq_true] at h
    refine ⟨?_, rfl⟩
    simp only [Option.map_some, Option.some.injEq]
    congr 1
    apply List.map_congr_left
    intro t htm
    have := h t htm
    cases t with
    | lit c => rfl
    | group n =>
      simp only [beq_iff_eq] at this
      subst this
      simp only [tokText, h0]

theorem expandSpec_plain (mc : Nat) (grp : Nat → Option (List Nat)) (repl : List Nat)
    (h : plainRepl repl = true) : expandSpec mc grp repl = some repl := by
  rw [← C15.expand_spec, C15.expand_plain mc grp repl h]; rfl

theorem dep0_of_plain (mc : Nat) (repl : List Nat) (h : plainRepl repl = true) : Dep0 mc repl := by
  intro grp grp' _
  rw [expandSpec_plain mc grp repl h, expandSpec_plain mc grp' repl h]
  exact ⟨rfl, rfl⟩

theorem expandSpec_dollar0 (mc : Nat) (grp : Nat → Option (List Nat)) :
    expandSpec mc grp [36, 48] = some ((grp 0).getD []) := by
  rw [← C15.expand_spec, C15.expand_dollar0]

theorem dep0_dollar0 (mc : Nat) : Dep0 mc [36, 48] := by
  intro grp grp' h0
  rw [expandSpec_dollar0, expandSpec_dollar0, h0]
  exact ⟨rfl, rfl⟩

/-- the text a match `[j, n)` is replaced by -/
def replText (pr : Prog) (input repl : List Nat) (j n : Nat) : List Nat :=
  if pr.literal then repl else (expandSpec (pr.maxParens - 1) (grp0 input j n) repl).getD []

theorem getParen_post {st : St} {j n : Nat} (h : PostMatch pr input st j n) :
    getParen input st 0 = some (slice input j n) := by
  unfold getParen
  rw [if_pos (show 0 < st.cap.parenCount from h.pc), h.start0, h.end0]

/-- the substitution in the state of a match -/
theorem subst_post (repl : List Nat) (hmp : pr.maxParens ≠ 0) (hd : Dep0 (pr.maxParens - 1) repl)
    {st : St} {j n : Nat} (h : PostMatch pr input st j n) (simple : Bool)
    (h1 : pr.literal = true → simple = true)
    (h2 : simple = true → pr.literal = true ∨ plainRepl repl = true) :
    ∃ s', pr.subst input repl st simple = some (replText pr input repl j n, s') ∧
      (pr.literal = true → s' = true) ∧ (s' = true → pr.literal = true ∨ plainRepl repl = true) := by
  cases simple with
  | true =>
    refine ⟨true, ?_, fun _ => rfl, fun _ => h2 rfl⟩
    simp only [Prog.subst, if_true]
    unfold replText
    rcases h2 rfl with hl | hp
    · rw [hl]; rfl
    · cases hlit : pr.literal with
      | true => rfl
      | false =>
        simp only [Bool.false_eq_true, if_false]
        rw [expandSpec_plain _ _ _ hp]; rfl
  | false =>
    have hl : pr.literal = false := by
      cases hlit : pr.literal with
      | false => rfl
      | true => exact absurd (h1 hlit) (by decide)
    have hmp' : (pr.maxParens == 0) = false := by simp [hmp]
    simp only [Prog.subst, Bool.false_eq_true, if_false, hmp']
    have hg : getParen input st 0 = grp0 input j n 0 := by
      rw [getParen_post h]; rfl
    obtain ⟨hc, hs⟩ := hd (getParen input st) (grp0 input j n) hg
    have hspec := C15.expand_spec (pr.maxParens - 1) (getParen input st) repl
    cases he : expand (pr.maxParens - 1) (getParen input st) repl with
    | none =>
      rw [he] at hspec
      rw [← hspec] at hs
      cases hs
    | some ts =>
      obtain ⟨t, s'⟩ := ts
      rw [he] at hspec
      simp only [Option.map_some] at hspec
      refine ⟨s', ?_, (fun hlt => by rw [hl] at hlt; cases hlt), fun hs' => ?_⟩
      · unfold replText
        simp only [hl, Bool.false_eq_true, if_false]
        rw [← hc, ← hspec]; rfl
      · subst hs'
        exact .inr (C15.latch_sound _ _ _ _ he).1

/-- the replace loop is total and equals its specification over the semantic spans -/
theorem replaceLoop_spec (F : FindOK (pr.ctx lower input) pr) (repl : List Nat)
    (hmp : pr.maxParens ≠ 0) (hd : Dep0 (pr.maxParens - 1) repl) :
    ∀ (f pos : Nat) (st : St) (first simple : Bool) (acc : List Nat),
    st.panic = none → pos ≤ input.length → input.length + 1 ≤ f + pos →
    (first = true → acc = [] ∧ pos = 0) →
    (first = false → pr.literal = true → simple = true) →
    (first = false → simple = true → pr.literal = true ∨ plainRepl repl = true) →
    replaceLoop (pr.matcher lower input) (pr.subst input repl) input pr.literal f pos st first simple acc =
      .ok (acc ++ replaced input pos
        ((spansFrom (pr.ctx lower input) pr.op f pos).map (fun x => (x.1, x.2, replText pr input repl x.1 x.2)))) := by
  intro f
  induction f with
  | zero => intro pos st first simple acc _ hp hf; omega
  | succ f ih =>
    intro pos st first simple acc hst hp hf hfirst hs1 hs2
    have hlen : (pr.ctx lower input).len = input.length := rfl
    unfold replaceLoop
    by_cases hlt : pos < input.length
    · simp only [hlt, if_true]
      have hfind : (pr.matcher lower input).find st pos = matchesFrom (pr.ctx lower input) pr pos st := rfl
      rw [hfind]
      rcases F.step pos st hp hst with ⟨st', j, n, he, a2, a3, a4, a5, a6, a7, a8, a9, a10⟩ | ⟨st', he, a2, a3⟩
      · have hfl : (pr.matcher lower input).failed st' = none := a2
        have hs0 : (pr.matcher lower input).start0 st' = some j := a4
        have he0 : (pr.matcher lower input).end0 st' = some n := a5
        have hnlt : ¬ j < pos := by omega
        have hne : (n == pos) = false := by simp; omega
        have PM : PostMatch pr input st' j n := ⟨a2, a4, a5, a7, a8, a9, a10⟩
        obtain ⟨s', hsub, b1, b2⟩ := subst_post repl hmp hd PM (if first = true then pr.literal else simple)
          (by
            intro hl
            cases first with
            | true => simpa using hl
            | false => simpa using hs1 rfl hl)
          (by
            intro hsim
            cases first with
            | true => left; simpa using hsim
            | false => exact hs2 rfl (by simpa using hsim))
        simp only [he, hfl, hs0, he0, hnlt, if_false, hsub, hne, Bool.false_eq_true]
        rw [ih n st' false s' _ a2 a8 (by omega) (by simp) (fun _ hl => b1 hl) (fun _ hs' => b2 hs')]
        rw [spansFrom_cons _ _ _ _ j n hlt a3]
        simp only [List.map_cons, replaced, List.append_assoc]
      · have hfl : (pr.matcher lower input).failed st' = none := a2
        simp only [he, hfl, C04.first_end input acc pos first hfirst]
        rw [spansFrom_none _ _ _ _ a3]
        simp only [List.map_nil, replaced]
    · simp only [hlt, if_false, C04.first_end input acc pos first hfirst]
      rw [spansFrom_ge _ _ _ _ hlt]
      simp only [List.map_nil, replaced]

/-- a replacement that is the same text for every span: the pieces joined by it -/
theorem replaced_const' (input R : List Nat) : ∀ (l : List (Nat × Nat)) (pos : Nat),
    replaced input pos (l.map (fun x => (x.1, x.2, R))) = joinWith R (pieces input pos l)
  | [], pos => by simp [replaced, pieces, joinWith]
  | (a, b) :: rest, pos => by
    have ih := replaced_const' input R rest b
    obtain ⟨t, ts, e⟩ := C04.pieces_ne_nil input rest b
    simp only [List.map_cons, replaced, pieces, ih, e, joinWith]

/-- replacing every span by its own text gives the input back -/
theorem replaced_self' (input : List Nat) (len : Nat) : ∀ (l : List (Nat × Nat)) (pos : Nat),
    C04.Ordered len pos l →
    replaced input pos (l.map (fun x => (x.1, x.2, slice input x.1 x.2))) = input.drop pos
  | [], pos, _ => by simp [replaced]
  | (a, b) :: rest, pos, ho => by
    obtain ⟨h1, h2, _, h4⟩ := ho
    have ih := replaced_self' input len rest b h4
    simp only [List.map_cons, replaced, ih, List.append_assoc]
    exact C04.slice_slice_drop input pos a b h1 (by omega)

/-! ### analyze -/

/-- the invariant of the analyze iterator over a `FindOK` matcher -/
structure AInv (pr : Prog) (input : List Nat) (a : AState St) : Prop where
  clean : a.st.panic = none
  skip : a.skip = false
  pe : ∀ p, a.prevEnd = some p → p ≤ input.length
  sub : ∀ s, a.nextSub = some s → ∃ j n, PostMatch pr input a.st j n

/-- one `next()` of the analyze iterator: it never diverges and never panics by itself — the only
    possible failure is a panic of the entry builder, called in the state of a match -/
theorem analyzeNext_step (F : FindOK (pr.ctx lower input) pr) (entry : St → List Nat → Out (List MEntry))
    (P : Nat → Prop)
    (hentry : ∀ st t j n, PostMatch pr input st j n →
      (∃ es, entry st t = .ok es) ∨ (∃ c, entry st t = .panic c ∧ P c))
    (a : AState St) (hA : AInv pr input a) :
    (∃ o a', analyzeNext (pr.matcher lower input) entry input a = (.ok o, a') ∧ AInv pr input a') ∨
    (∃ c a', analyzeNext (pr.matcher lower input) entry input a = (.panic c, a') ∧ P c) := by
  obtain ⟨st, nextSub, prevEnd, skip⟩ := a
  obtain ⟨hcl, hsk, hpe, hsub⟩ := hA
  simp only at hcl hsk hpe hsub
  subst hsk
  unfold analyzeNext
  cases prevEnd with
  | none => exact .inl ⟨none, _, rfl, ⟨hcl, rfl, hpe, hsub⟩⟩
  | some pe =>
    have hpel := hpe pe rfl
    cases nextSub with
    | some sub =>
      obtain ⟨j, n, PM⟩ := hsub sub rfl
      have he0 : (pr.matcher lower input).end0 st = some n := PM.end0
      simp only [he0]
      rcases hentry st sub j n PM with ⟨es, hes⟩ | ⟨c, hc, hP⟩
      · rw [hes]
        exact .inl ⟨_, _, rfl, ⟨hcl, rfl, fun p hp => by cases hp; exact PM.le, fun s hs => by cases hs⟩⟩
      · rw [hc]
        exact .inr ⟨c, _, rfl, hP⟩
    | none =>
      have hfind : (pr.matcher lower input).find st pe = matchesFrom (pr.ctx lower input) pr pe st := rfl
      simp only [Bool.false_and, Bool.false_eq_true, if_false, hfind]
      rcases F.step pe st hpel hcl with ⟨st', j, n, he, a2, a3, a4, a5, a6, a7, a8, a9, a10⟩ | ⟨st', he, a2, a3⟩
      · have hfl : (pr.matcher lower input).failed st' = none := a2
        have hs0 : (pr.matcher lower input).start0 st' = some j := a4
        have he0 : (pr.matcher lower input).end0 st' = some n := a5
        have PM : PostMatch pr input st' j n := ⟨a2, a4, a5, a7, a8, a9, a10⟩
        have hjn : (j == n) = false := by simp; omega
        simp only [he, hfl, hs0, he0, hjn]
        by_cases hpj : (pe == j) = true
        · rw [if_pos hpj]
          rcases hentry st' (slice input j n) j n PM with ⟨es, hes⟩ | ⟨c, hc, hP⟩
          · rw [hes]
            exact .inl ⟨_, _, rfl, ⟨a2, rfl, fun p hp => by cases hp; exact a8, fun s hs => by cases hs⟩⟩
          · rw [hc]
            exact .inr ⟨c, _, rfl, hP⟩
        · rw [if_neg hpj, if_neg (by omega : ¬ j < pe)]
          exact .inl ⟨_, _, rfl, ⟨a2, rfl, fun p hp => by cases hp; exact hpel, fun s _ => ⟨j, n, PM⟩⟩⟩
      · have hfl : (pr.matcher lower input).failed st' = none := a2
        simp only [he, hfl]
        split
        · exact .inl ⟨_, _, rfl, ⟨a2, rfl, fun p hp => (by cases hp), fun s hs => (by cases hs)⟩⟩
        · exact .inl ⟨_, _, rfl, ⟨a2, rfl, fun p hp => (by cases hp), fun s hs => (by cases hs)⟩⟩

/-- hence the analyze loop: `.ok`, or a panic of the entry builder -/
theorem analyzeLoop_total (F : FindOK (pr.ctx lower input) pr) (entry : St → List Nat → Out (List MEntry))
    (P : Nat → Prop)
    (hentry : ∀ st t j n, PostMatch pr input st j n →
      (∃ es, entry st t = .ok es) ∨ (∃ c, entry st t = .panic c ∧ P c)) :
    ∀ (l : Nat) (a : AState St) (acc : List AEntry), AInv pr input a →
      (∃ es more, analyzeLoop (pr.matcher lower input) entry input l a acc = .ok (es, more)) ∨
      (∃ c, analyzeLoop (pr.matcher lower input) entry input l a acc = .panic c ∧ P c) := by
  intro l
  induction l with
  | zero =>
    intro a acc hA
    unfold analyzeLoop
    rcases analyzeNext_step F entry P hentry a hA with ⟨o, a', he, _⟩ | ⟨c, a', he, hP⟩
    · rw [he]
      cases o with
      | none => exact .inl ⟨_, _, rfl⟩
      | some e => exact .inl ⟨_, _, rfl⟩
    · rw [he]
      exact .inr ⟨c, rfl, hP⟩
  | succ l ih =>
    intro a acc hA
    unfold analyzeLoop
    rcases analyzeNext_step F entry P hentry a hA with ⟨o, a', he, hA'⟩ | ⟨c, a', he, hP⟩
    · rw [he]
      cases o with
      | none => exact .inl ⟨_, _, rfl⟩
      | some e => exact ih a' _ hA'
    · rw [he]
      exact .inr ⟨c, rfl, hP⟩

theorem AInv.init (pr : Prog) (input : List Nat) : AInv pr input { st := ({} : St) } :=
  ⟨rfl, rfl, fun p hp => by cases hp; exact Nat.zero_le _, fun s hs => by cases hs⟩

/-- `process_matching_substring` answers `.ok` or panics at its own site — nothing else -/
theorem processMatch_cases (tbl : List (Nat × Nat)) (st : St) (cur : List Nat) :
    (∃ es, processMatch tbl st cur = .ok es) ∨ processMatch tbl st cur = .panic panicAnalyze := by
  unfold processMatch
  dsimp only
  repeat' split
  all_goals first
    | exact .inl ⟨_, rfl⟩
    | exact .inr rfl

end loops

/-! ## further loop facts -/

section loops2
variable {pr : Prog} {lower : Nat → Nat} {input : List Nat}

/-- the replace loop with ANY substitution: `.ok`, or `InvalidReplacementString` — never a panic,
    never out of fuel -/
theorem replaceLoop_total (F : FindOK (pr.ctx lower input) pr) (subst : Subst St) (lit : Bool) :
    ∀ (f pos : Nat) (st : St) (first simple : Bool) (acc : List Nat),
    st.panic = none → pos ≤ input.length → input.length + 1 ≤ f + pos →
    (∃ r, replaceLoop (pr.matcher lower input) subst input lit f pos st first simple acc = .ok r) ∨
    replaceLoop (pr.matcher lower input) subst input lit f pos st first simple acc = .err .invalidReplacement := by
  intro f
  induction f with
  | zero => intro pos st first simple acc _ hp hf; omega
  | succ f ih =>
    intro pos st first simple acc hst hp hf
    unfold replaceLoop
    by_cases hlt : pos < input.length
    · simp only [hlt, if_true]
      have hfind : (pr.matcher lower input).find st pos = matchesFrom (pr.ctx lower input) pr pos st := rfl
      rw [hfind]
      rcases F.step pos st hp hst with ⟨st', j, n, he, a2, a3, a4, a5, a6, a7, a8, _⟩ | ⟨st', he, a2, a3⟩
      · have hfl : (pr.matcher lower input).failed st' = none := a2
        have hs0 : (pr.matcher lower input).start0 st' = some j := a4
        have he0 : (pr.matcher lower input).end0 st' = some n := a5
        have hnlt : ¬ j < pos := by omega
        have hne : (n == pos) = false := by simp; omega
        simp only [he, hfl, hs0, hnlt, if_false]
        cases hs : subst st' (if first = true then lit else simple) with
        | none => exact .inr rfl
        | some ts =>
          obtain ⟨text, s'⟩ := ts
          simp only [he0, hne, Bool.false_eq_true, if_false]
          exact ih n st' false s' _ a2 a8 (by omega)
      · have hfl : (pr.matcher lower input).failed st' = none := a2
        simp only [he, hfl]
        cases first <;> exact .inl ⟨_, rfl⟩
    · simp only [hlt, if_false]
      cases first <;> exact .inl ⟨_, rfl⟩

/-- entries whose Match entry is the matched text: all texts concatenate to the input -/
theorem entries_text' (input : List Nat) : ∀ (l : List (Nat × Nat)) (pos : Nat),
    C04.Ordered input.length pos l →
    aTextL (entries input pos (l.map (fun x => (x.1, x.2, [MEntry.str (slice input x.1 x.2)])))) = input.drop pos
  | [], pos, _ => by
    simp only [List.map_nil, entries]
    split
    · simp [aTextL, aText]
    · rw [List.drop_eq_nil_of_le (by omega)]; rfl
  | (a, b) :: rest, pos, ho => by
    obtain ⟨h1, h2, _, h4⟩ := ho
    have ih := entries_text' input rest b h4
    simp only [List.map_cons, entries]
    rw [C04.aTextL_append, C04.aTextL_append, ih]
    have hm : aTextL [AEntry.isMatch [MEntry.str (slice input a b)]] = slice input a b := by
      simp [aTextL, aText, mTextL, mText]
    rw [hm]
    split
    · have : aTextL [AEntry.nonMatch (slice input pos a)] = slice input pos a := by simp [aTextL, aText]
      rw [this, List.append_assoc]
      exact C04.slice_slice_drop input pos a b h1 (by omega)
    · have hpa : pos = a := by omega
      subst hpa
      have := C04.slice_slice_drop input pos pos b (Nat.le_refl _) (by omega)
      rw [C04.slice_self] at this
      simpa [aTextL] using this

end loops2

/-! ## the group counter of a compiled program -/

theorem compile_maxParens (env : Env) (fl : CFlags) (pat : List Nat) (pr : Prog)
    (h : compileCore env fl pat true = .ok pr) : pr.maxParens ≠ 0 := by
  unfold compileCore at h
  by_cases hl : fl.literal = true
  · rw [if_pos hl] at h
    simp only [if_true, Out.ok.injEq] at h
    subst h
    obtain ⟨_, _, _, _, hmp, _⟩ := mkProgram_shape pat (makeSequence (.atom pat) .endProgram) 1 fl false
    rw [hmp]; decide
  · rw [if_neg hl] at h
    dsimp only at h
    cases hp : parseExpr { pat := pat, fl := fl, env := env } (4 * pat.length + 16) {} true with
    | err e => rw [hp] at h; cases h
    | ok op s =>
      rw [hp] at h
      dsimp only at h
      split at h
      · cases h
      · simp only [if_true, Out.ok.injEq] at h
        subst h
        obtain ⟨_, _, _, _, hmp, _⟩ := mkProgram_shape pat (optimize env fl op) s.parens fl s.hasBackrefs
        rw [hmp]
        have hst : WF.ST ({} : PS).hasBackrefs s :=
          (WF.parse_st _ _ _).1 {} true (WF.ST.refl (Nat.le_refl 1)) op s hp
        have := hst.1
        omega

theorem mkProgram_literal (pat : List Nat) (op : Op) (mp : Nat) (fl : CFlags) (hb : Bool) :
    (mkProgram pat op mp fl hb).literal = fl.literal := by
  unfold mkProgram
  simp only
  split
  · split <;> rfl
  · rfl

/-! ## the language does not depend on the engine-only fields of the context -/

theorem prefixMatch_congr (ctx ctx' : Ctx) (hcb : ctx.caseBlind = ctx'.caseBlind) (hlo : ctx.lower = ctx'.lower) :
    ∀ (cs xs : List Nat), prefixMatch ctx cs xs = prefixMatch ctx' cs xs
  | [], _ => rfl
  | _ :: _, [] => rfl
  | c :: cs, x :: xs => by
    simp only [prefixMatch, Ctx.eqAt, hcb, hlo, prefixMatch_congr ctx ctx' hcb hlo cs xs]

theorem IterR_congr {R S : Nat → Nat → Prop} (h : ∀ a b, R a b ↔ S a b) {k p q : Nat} :
    IterR R k p q ↔ IterR S k p q :=
  ⟨IterR.mono (fun a b => (h a b).1), IterR.mono (fun a b => (h a b).2)⟩

mutual
theorem OpR_ctx_congr (ctx ctx' : Ctx) (hin : ctx.input = ctx'.input) (hcb : ctx.caseBlind = ctx'.caseBlind)
    (hml : ctx.multiLine = ctx'.multiLine) (hlo : ctx.lower = ctx'.lower) :
    ∀ (op : Op) (p q : Nat), OpR ctx op p q ↔ OpR ctx' op p q
  | .bol, p, q => by simp only [OpR, Ctx.len, hin, hml]
  | .eol, p, q => by simp only [OpR, Ctx.len, hin, hml]
  | .nothing, p, q => by simp only [OpR]
  | .endProgram, p, q => by simp only [OpR]
  | .atom cs, p, q => by
    simp only [OpR, Ctx.len, hin, prefixMatch_congr ctx ctx' hcb hlo]
  | .cls rs, p, q => by simp only [OpR, hin]
  | .backref _, p, q => by simp only [OpR, Ctx.len, hin]
  | .capture _ c, p, q => by simp only [OpR]; exact OpR_ctx_congr ctx ctx' hin hcb hml hlo c p q
  | .choice bs, p, q => by simp only [OpR]; exact OpRAny_ctx_congr ctx ctx' hin hcb hml hlo bs p q
  | .seq ops, p, q => by simp only [OpR]; exact OpRSeq_ctx_congr ctx ctx' hin hcb hml hlo ops p q
  | .rep _ c mn mx _, p, q => by
    simp only [OpR, IterR_congr (fun a b => OpR_ctx_congr ctx ctx' hin hcb hml hlo c a b)]
  | .gfixed c mn mx _, p, q => by
    simp only [OpR, IterR_congr (fun a b => OpR_ctx_congr ctx ctx' hin hcb hml hlo c a b)]
  | .rfixed c mn mx _, p, q => by
    simp only [OpR, IterR_congr (fun a b => OpR_ctx_congr ctx ctx' hin hcb hml hlo c a b)]
  | .unamb c mn mx, p, q => by
    simp only [OpR, IterR_congr (fun a b => OpR_ctx_congr ctx ctx' hin hcb hml hlo c a b)]
termination_by structural op => op
theorem OpRAny_ctx_congr (ctx ctx' : Ctx) (hin : ctx.input = ctx'.input) (hcb : ctx.caseBlind = ctx'.caseBlind)
    (hml : ctx.multiLine = ctx'.multiLine) (hlo : ctx.lower = ctx'.lower) :
    ∀ (bs : List Op) (p q : Nat), OpRAny ctx bs p q ↔ OpRAny ctx' bs p q
  | [], p, q => by simp only [OpRAny]
  | b :: bs, p, q => by
    simp only [OpRAny, OpR_ctx_congr ctx ctx' hin hcb hml hlo b p q,
      OpRAny_ctx_congr ctx ctx' hin hcb hml hlo bs p q]
termination_by structural bs => bs
theorem OpRSeq_ctx_congr (ctx ctx' : Ctx) (hin : ctx.input = ctx'.input) (hcb : ctx.caseBlind = ctx'.caseBlind)
    (hml : ctx.multiLine = ctx'.multiLine) (hlo : ctx.lower = ctx'.lower) :
    ∀ (ops : List Op) (p q : Nat), OpRSeq ctx ops p q ↔ OpRSeq ctx' ops p q
  | [], p, q => by simp only [OpRSeq]
  | o :: os, p, q => by
    simp only [OpRSeq]
    constructor
    · rintro ⟨m, h1, h2⟩
      exact ⟨m, (OpR_ctx_congr ctx ctx' hin hcb hml hlo o p m).1 h1,
        (OpRSeq_ctx_congr ctx ctx' hin hcb hml hlo os m q).1 h2⟩
    · rintro ⟨m, h1, h2⟩
      exact ⟨m, (OpR_ctx_congr ctx ctx' hin hcb hml hlo o p m).2 h1,
        (OpRSeq_ctx_congr ctx ctx' hin hcb hml hlo os m q).2 h2⟩
termination_by structural ops => ops
end

/-! ## comparing two span sequences -/

theorem firstFrom_congr (e e' : Nat → Option Nat) : ∀ (f j : Nat),
    (∀ k, j ≤ k → k < j + f → e k = e' k) → firstFrom e f j = firstFrom e' f j := by
  intro f
  induction f with
  | zero => intro j _; rfl
  | succ f ih =>
    intro j h
    unfold firstFrom
    rw [← h j (Nat.le_refl _) (by omega)]
    cases e j with
    | some n => rfl
    | none => exact ih (j + 1) (fun k hk1 hk2 => h k (by omega) (by omega))

theorem spansFrom_congr (ctx ctx' : Ctx) (o o' : Op) (hlen : ctx.len = ctx'.len)
    (h : ∀ pos, firstSpan ctx o pos = firstSpan ctx' o' pos) :
    ∀ (f pos : Nat), spansFrom ctx o f pos = spansFrom ctx' o' f pos := by
  intro f
  induction f with
  | zero => intro pos; rfl
  | succ f ih =>
    intro pos
    rw [spansFrom, spansFrom, hlen, h pos]
    split
    · split
      · rw [ih]
      · rfl
    · rfl

end Rx.ApiComplete
