/-
  Proofs/OptLemmas — helper lemmas for Props/C08: soundness of the static analyses
  (`get_minimum_match_length`, `matches_empty_string`) and language preservation of `optimize`
  and `numberReps`, all against the compositional language `OpR` (Spec/OpLang).
-/
import RxModel.Spec.OpLang
import RxModel.Model.Program
import RxModel.Proofs.EngineSound
import RxModel.Proofs.MiscLemmas
namespace Rx.OptL
open Rx

/-! ### saturating arithmetic only lowers a bound -/

theorem satAdd_le (a b : Nat) : satAdd a b ≤ a + b := Nat.min_le_left _ _
theorem satMul_le (a b : Nat) : satMul a b ≤ a * b := Nat.min_le_left _ _

/-! ### minimum match length -/

theorem IterR_minlen {R : Nat → Nat → Prop} {d : Nat} (hR : ∀ a b, R a b → a + d ≤ b)
    {k p q : Nat} (h : IterR R k p q) : p + k * d ≤ q := by
  induction h with
  | zero p => simp
  | succ _ hr ih =>
    have := hR _ _ hr
    rw [Nat.succ_mul]
    omega

theorem rep_minlen {mn k d p q : Nat} (hk : mn ≤ k) (h : p + k * d ≤ q) : p + satMul mn d ≤ q := by
  have h1 := satMul_le mn d
  have h2 : mn * d ≤ k * d := Nat.mul_le_mul_right d hk
  omega

mutual
theorem minLen_op (ctx : Ctx) : ∀ (op : Op) (p q : Nat), OpR ctx op p q → p + minLenOp op ≤ q
  | .bol, p, q, h => by simp only [OpR] at h; simp only [minLenOp]; omega
  | .eol, p, q, h => by simp only [OpR] at h; simp only [minLenOp]; omega
  | .nothing, p, q, h => by simp only [OpR] at h; simp only [minLenOp]; omega
  | .endProgram, p, q, h => by simp only [OpR] at h; simp only [minLenOp]; omega
  | .atom cs, p, q, h => by simp only [OpR] at h; simp only [minLenOp]; omega
  | .cls rs, p, q, h => by simp only [OpR] at h; simp only [minLenOp]; omega
  | .backref _, p, q, h => by simp only [OpR] at h; simp only [minLenOp]; omega
  | .capture _ c, p, q, h => by
      simp only [OpR] at h; simp only [minLenOp]; exact minLen_op ctx c p q h
  | .choice bs, p, q, h => by
      simp only [OpR] at h; simp only [minLenOp]; exact minLen_any ctx bs p q h
  | .seq ops, p, q, h => by
      simp only [OpR] at h; simp only [minLenOp]; exact minLen_seq ctx ops p q h
  | .rep _ c mn mx _, p, q, h => by
      simp only [OpR] at h; obtain ⟨k, hk, _, hi⟩ := h
      simp only [minLenOp]
      exact rep_minlen hk (IterR_minlen (fun a b => minLen_op ctx c a b) hi)
  | .gfixed c mn mx _, p, q, h => by
      simp only [OpR] at h; obtain ⟨k, hk, _, hi⟩ := h
      simp only [minLenOp]
      exact rep_minlen hk (IterR_minlen (fun a b => minLen_op ctx c a b) hi)
  | .rfixed c mn mx _, p, q, h => by
      simp only [OpR] at h; obtain ⟨k, hk, _, hi⟩ := h
      simp only [minLenOp]
      exact rep_minlen hk (IterR_minlen (fun a b => minLen_op ctx c a b) hi)
  | .unamb c mn mx, p, q, h => by
      simp only [OpR] at h; obtain ⟨k, hk, _, hi⟩ := h
      simp only [minLenOp]
      exact rep_minlen hk (IterR_minlen (fun a b => minLen_op ctx c a b) hi)
termination_by structural op => op
theorem minLen_any (ctx : Ctx) : ∀ (bs : List Op) (p q : Nat), OpRAny ctx bs p q → p + minLenChoice bs ≤ q
  | [], p, q, h => by simp only [OpRAny] at h
  | [b], p, q, h => by
      simp only [OpRAny, or_false] at h
      simp only [minLenChoice]
      exact minLen_op ctx b p q h
  | b :: b2 :: bs, p, q, h => by
      have h' : OpR ctx b p q ∨ OpRAny ctx (b2 :: bs) p q := by simpa only [OpRAny] using h
      have hm : minLenChoice (b :: b2 :: bs) = Nat.min (minLenOp b) (minLenChoice (b2 :: bs)) := by
        simp only [minLenChoice]
      rw [hm]
      rcases h' with h' | h'
      · have := minLen_op ctx b p q h'
        have := Nat.min_le_left (minLenOp b) (minLenChoice (b2 :: bs))
        show p + min (minLenOp b) (minLenChoice (b2 :: bs)) ≤ q
        omega
      · have := minLen_any ctx (b2 :: bs) p q h'
        have := Nat.min_le_right (minLenOp b) (minLenChoice (b2 :: bs))
        show p + min (minLenOp b) (minLenChoice (b2 :: bs)) ≤ q
        omega
termination_by structural bs => bs
theorem minLen_seq (ctx : Ctx) : ∀ (ops : List Op) (p q : Nat), OpRSeq ctx ops p q → p + minLenSeq ops ≤ q
  | [], p, q, h => by simp only [OpRSeq] at h; simp only [minLenSeq]; omega
  | o :: os, p, q, h => by
      simp only [OpRSeq] at h
      obtain ⟨m, h1, h2⟩ := h
      have a1 := minLen_op ctx o p m h1
      have a2 := minLen_seq ctx os m q h2
      have a3 := satAdd_le (minLenOp o) (minLenSeq os)
      simp only [minLenSeq]
      omega
termination_by structural ops => ops
end

/-! ### `matches_empty_string`: the possible values -/

/-- the values a choice can report -/
def MV (m : Nat) : Prop := m = 0 ∨ m = 1 ∨ m = 2 ∨ m = 3 ∨ m = 7

theorem natOr_MV {a b : Nat} (ha : MV a) (hb : MV b) :
    MV (natOr a b) ∧ (natOr a b = 7 → a = 7 ∨ b = 7) := by
  unfold MV at ha hb
  rcases ha with rfl | rfl | rfl | rfl | rfl <;> rcases hb with rfl | rfl | rfl | rfl | rfl <;>
    (unfold MV natOr; decide)

theorem first_cons (m : Nat) (rest : List Nat) :
    mzsSeqOf.first (m :: rest) =
      if m = 1024 then some 1024 else if m = 7 then mzsSeqOf.first rest else none := by
  simp only [mzsSeqOf.first, ZLS_ANYWHERE, ZLS_NEVER, beq_iff_eq, bne_iff_ne, ne_eq, ite_not]

theorem first_val : ∀ (ms : List Nat) (r : Nat), mzsSeqOf.first ms = some r → r = 7 ∨ r = 1024
  | [], r, h => by
      simp only [mzsSeqOf.first, ZLS_ANYWHERE, Option.some.injEq] at h; omega
  | m :: rest, r, h => by
      rw [first_cons] at h
      split at h
      · simp only [Option.some.injEq] at h; omega
      · split at h
        · exact first_val rest r h
        · cases h

theorem mzsSeqOf_eq (ms : List Nat) :
    mzsSeqOf ms = match mzsSeqOf.first ms with
      | some r => r
      | none => if ms.all (fun m => natAnd m 1 != 0) = true then 1
                else if ms.all (fun m => natAnd m 2 != 0) = true then 2 else 0 := by
  unfold mzsSeqOf
  split
  · rename_i r hr; simp only [hr]
  · rename_i hr
    simp only [hr, ZLS_AT_START, ZLS_AT_END]
    by_cases h1 : ms.all (fun m => natAnd m 1 != 0) = true
    · simp only [h1, if_true]
    · by_cases h2 : ms.all (fun m => natAnd m 2 != 0) = true
      · simp only [h1, h2, if_true]
      · simp only [h1, h2]

theorem mzsSeqOf_cases (ms : List Nat) :
    (∃ r, mzsSeqOf.first ms = some r ∧ mzsSeqOf ms = r) ∨ mzsSeqOf ms = 1 ∨ mzsSeqOf ms = 2 ∨
      mzsSeqOf ms = 0 := by
  rw [mzsSeqOf_eq]
  cases hf : mzsSeqOf.first ms with
  | some r => exact .inl ⟨r, rfl, rfl⟩
  | none =>
    right
    show (if _ then 1 else if _ then 2 else 0) = 1 ∨ (if _ then 1 else if _ then 2 else 0) = 2 ∨
      (if _ then 1 else if _ then 2 else 0) = 0
    split
    · exact .inl rfl
    · split
      · exact .inr (.inl rfl)
      · exact .inr (.inr rfl)

theorem mzsSeqOf_anywhere {ms : List Nat} (h : mzsSeqOf ms = 7) : mzsSeqOf.first ms = some 7 := by
  rcases mzsSeqOf_cases ms with ⟨r, hr, he⟩ | he | he | he
  · rw [hr, ← he, h]
  all_goals omega

theorem mzsSeqOf_never {ms : List Nat} (h : mzsSeqOf ms = 1024) : mzsSeqOf.first ms = some 1024 := by
  rcases mzsSeqOf_cases ms with ⟨r, hr, he⟩ | he | he | he
  · rw [hr, ← he, h]
  all_goals omega

theorem mzsSeqOf_val (ms : List Nat) : MV (mzsSeqOf ms) ∨ mzsSeqOf ms = 1024 := by
  unfold MV
  rcases mzsSeqOf_cases ms with ⟨r, hr, he⟩ | he | he | he
  · rcases first_val ms r hr with rfl | rfl <;> omega
  all_goals omega

theorem first_cons_anywhere {m : Nat} {rest : List Nat} (h : mzsSeqOf.first (m :: rest) = some 7) :
    m = 7 ∧ mzsSeqOf.first rest = some 7 := by
  rw [first_cons] at h
  split at h
  · simp only [Option.some.injEq] at h; omega
  · split at h
    · rename_i h2; exact ⟨h2, h⟩
    · cases h

theorem first_cons_never {m : Nat} {rest : List Nat} (h : mzsSeqOf.first (m :: rest) = some 1024) :
    m = 1024 ∨ (m = 7 ∧ mzsSeqOf.first rest = some 1024) := by
  rw [first_cons] at h
  split at h
  · rename_i h1; exact .inl h1
  · split at h
    · rename_i h2; exact .inr ⟨h2, h⟩
    · cases h

theorem mzs_rep_eq (mn : Nat) (m : Nat) :
    (if (mn == 0) = true then ZLS_ANYWHERE else m) = if mn = 0 then 7 else m := by
  simp only [ZLS_ANYWHERE, beq_iff_eq]

theorem mzs_atom_eq (cs : List Nat) :
    mzs (.atom cs) = if cs.length = 0 then 7 else 1024 := by
  simp only [mzs, ZLS_ANYWHERE, ZLS_NEVER, beq_iff_eq]

theorem mzsChoice_cons (b : Op) (bs : List Op) :
    mzsChoice (b :: bs) = if mzs b = 1024 then mzsChoice bs else natOr (mzsChoice bs) (mzs b) := by
  simp only [mzsChoice, ZLS_NEVER, bne_iff_ne, ne_eq, ite_not]

mutual
theorem mzs_val : ∀ (op : Op), MV (mzs op) ∨ mzs op = 1024
  | .bol => by simp only [mzs, ZLS_AT_START]; unfold MV; omega
  | .eol => by simp only [mzs, ZLS_AT_END]; unfold MV; omega
  | .nothing => by simp only [mzs, ZLS_ANYWHERE]; unfold MV; omega
  | .endProgram => by simp only [mzs, ZLS_ANYWHERE]; unfold MV; omega
  | .atom cs => by
      rw [mzs_atom_eq]; unfold MV; split <;> omega
  | .cls _ => by simp only [mzs, ZLS_NEVER]; exact .inr trivial
  | .backref _ => by simp only [mzs]; unfold MV; omega
  | .capture _ c => by simp only [mzs]; exact mzs_val c
  | .choice bs => by simp only [mzs]; exact .inl (mzsChoice_val bs)
  | .seq ops => by simp only [mzs]; exact mzsSeqOf_val _
  | .rep _ c mn _ _ => by
      simp only [mzs]; rw [mzs_rep_eq]
      split
      · left; unfold MV; omega
      · exact mzs_val c
  | .gfixed c mn _ _ => by
      simp only [mzs]; rw [mzs_rep_eq]
      split
      · left; unfold MV; omega
      · exact mzs_val c
  | .rfixed c mn _ _ => by
      simp only [mzs]; rw [mzs_rep_eq]
      split
      · left; unfold MV; omega
      · exact mzs_val c
  | .unamb c mn _ => by
      simp only [mzs]; rw [mzs_rep_eq]
      split
      · left; unfold MV; omega
      · exact mzs_val c
termination_by structural op => op
theorem mzsChoice_val : ∀ (bs : List Op), MV (mzsChoice bs)
  | [] => by simp only [mzsChoice]; unfold MV; omega
  | b :: bs => by
      rw [mzsChoice_cons]
      have ih := mzsChoice_val bs
      split
      · exact ih
      · rename_i hne
        rcases mzs_val b with hb | hb
        · exact (natOr_MV ih hb).1
        · exact absurd hb hne
termination_by structural bs => bs
end

/-! ### quantifier bounds (the part of `wfOp` the empty-match analysis needs) -/

mutual
/-- every quantifier in the tree has `min ≤ max` and `0 < max` -/
def bnd : Op → Bool
  | .capture _ c => bnd c
  | .choice bs => bndL bs
  | .seq ops => bndL ops
  | .rep _ c mn mx _ => bnd c && decide (mn ≤ mx) && decide (0 < mx)
  | .gfixed c mn mx _ => bnd c && decide (mn ≤ mx) && decide (0 < mx)
  | .rfixed c mn mx _ => bnd c && decide (mn ≤ mx) && decide (0 < mx)
  | .unamb c mn mx => bnd c && decide (mn ≤ mx) && decide (0 < mx)
  | _ => true
termination_by structural o => o
def bndL : List Op → Bool
  | [] => true
  | o :: os => bnd o && bndL os
termination_by structural l => l
end

mutual
theorem bnd_of_wf : ∀ (op : Op), wfOp op = true → bnd op = true
  | .bol, _ => by simp only [bnd]
  | .eol, _ => by simp only [bnd]
  | .nothing, _ => by simp only [bnd]
  | .endProgram, _ => by simp only [bnd]
  | .atom _, _ => by simp only [bnd]
  | .cls _, _ => by simp only [bnd]
  | .backref _, _ => by simp only [bnd]
  | .capture _ c, h => by
      simp only [wfOp] at h; simp only [bnd]; exact bnd_of_wf c h
  | .choice bs, h => by
      simp only [wfOp, Bool.and_eq_true] at h; simp only [bnd]; exact bndL_of_wf bs h.2
  | .seq ops, h => by
      simp only [wfOp, Bool.and_eq_true] at h; simp only [bnd]; exact bndL_of_wf ops h.2
  | .rep _ c mn mx _, h => by
      simp only [wfOp, Bool.and_eq_true, decide_eq_true_eq] at h
      simp only [bnd, Bool.and_eq_true, decide_eq_true_eq]
      exact ⟨⟨bnd_of_wf c h.1.1, h.1.2⟩, h.2⟩
  | .gfixed c mn mx _, h => by
      simp only [wfOp, Bool.and_eq_true, decide_eq_true_eq] at h
      simp only [bnd, Bool.and_eq_true, decide_eq_true_eq]
      exact ⟨⟨bnd_of_wf c h.1.1.1.1.1, h.1.2⟩, h.2⟩
  | .rfixed c mn mx _, h => by
      simp only [wfOp, Bool.and_eq_true, decide_eq_true_eq] at h
      simp only [bnd, Bool.and_eq_true, decide_eq_true_eq]
      exact ⟨⟨bnd_of_wf c h.1.1.1.1.1, h.1.2⟩, h.2⟩
  | .unamb c mn mx, h => by
      simp only [wfOp, Bool.and_eq_true, decide_eq_true_eq] at h
      simp only [bnd, Bool.and_eq_true, decide_eq_true_eq]
      exact ⟨⟨bnd_of_wf c h.1.1, h.1.2⟩, h.2⟩
termination_by structural op => op
theorem bndL_of_wf : ∀ (l : List Op), wfOps l = true → bndL l = true
  | [], _ => by simp only [bndL]
  | o :: os, h => by
      simp only [wfOps, Bool.and_eq_true] at h
      simp only [bndL, Bool.and_eq_true]
      exact ⟨bnd_of_wf o h.1, bndL_of_wf os h.2⟩
termination_by structural l => l
end

/-! ### `MATCHES_ZLS_ANYWHERE` -/

theorem rep_anywhere {R : Nat → Nat → Prop} {mn mx m p : Nat} (hmn : mn ≤ mx)
    (h : (if mn = 0 then 7 else m) = 7) (hc : m = 7 → R p p) :
    ∃ k, mn ≤ k ∧ k ≤ mx ∧ IterR R k p p := by
  have hit : ∀ k, R p p → IterR R k p p := by
    intro k hr
    induction k with
    | zero => exact .zero p
    | succ k ih => exact .succ ih hr
  by_cases h0 : mn = 0
  · exact ⟨0, by omega, by omega, .zero p⟩
  · simp only [h0, if_false] at h
    exact ⟨mn, Nat.le_refl _, hmn, hit mn (hc h)⟩

mutual
theorem anywhere_op (ctx : Ctx) : ∀ (op : Op), bnd op = true → mzs op = 7 →
    ∀ p, p ≤ ctx.len → OpR ctx op p p
  | .bol, _, h, p, hp => by simp only [mzs, ZLS_AT_START] at h; omega
  | .eol, _, h, p, hp => by simp only [mzs, ZLS_AT_END] at h; omega
  | .nothing, _, h, p, hp => by simp only [OpR]
  | .endProgram, _, h, p, hp => by simp only [OpR]
  | .atom cs, _, h, p, hp => by
      rw [mzs_atom_eq] at h
      split at h
      · rename_i h0
        have : cs = [] := List.eq_nil_of_length_eq_zero h0
        subst this
        simp only [OpR, List.length_nil, Nat.add_zero, prefixMatch, and_true, true_and]
        exact hp
      · omega
  | .cls _, _, h, p, hp => by simp only [mzs, ZLS_NEVER] at h; omega
  | .backref _, _, h, p, hp => by simp only [mzs] at h; omega
  | .capture _ c, hb, h, p, hp => by
      simp only [bnd] at hb; simp only [mzs] at h; simp only [OpR]
      exact anywhere_op ctx c hb h p hp
  | .choice bs, hb, h, p, hp => by
      simp only [bnd] at hb; simp only [mzs] at h; simp only [OpR]
      exact anywhere_any ctx bs hb h p hp
  | .seq ops, hb, h, p, hp => by
      simp only [bnd] at hb; simp only [mzs] at h; simp only [OpR]
      exact anywhere_seq ctx ops hb (mzsSeqOf_anywhere h) p hp
  | .rep _ c mn mx _, hb, h, p, hp => by
      simp only [bnd, Bool.and_eq_true, decide_eq_true_eq] at hb
      simp only [mzs] at h; rw [mzs_rep_eq] at h
      simp only [OpR]
      exact rep_anywhere hb.1.2 h (fun hc => anywhere_op ctx c hb.1.1 hc p hp)
  | .gfixed c mn mx _, hb, h, p, hp => by
      simp only [bnd, Bool.and_eq_true, decide_eq_true_eq] at hb
      simp only [mzs] at h; rw [mzs_rep_eq] at h
      simp only [OpR]
      exact rep_anywhere hb.1.2 h (fun hc => anywhere_op ctx c hb.1.1 hc p hp)
  | .rfixed c mn mx _, hb, h, p, hp => by
      simp only [bnd, Bool.and_eq_true, decide_eq_true_eq] at hb
      simp only [mzs] at h; rw [mzs_rep_eq] at h
      simp only [OpR]
      exact rep_anywhere hb.1.2 h (fun hc => anywhere_op ctx c hb.1.1 hc p hp)
  | .unamb c mn mx, hb, h, p, hp => by
      simp only [bnd, Bool.and_eq_true, decide_eq_true_eq] at hb
      simp only [mzs] at h; rw [mzs_rep_eq] at h
      simp only [OpR]
      exact rep_anywhere hb.1.2 h (fun hc => anywhere_op ctx c hb.1.1 hc p hp)
termination_by structural op => op
theorem anywhere_any (ctx : Ctx) : ∀ (bs : List Op), bndL bs = true → mzsChoice bs = 7 →
    ∀ p, p ≤ ctx.len → OpRAny ctx bs p p
  | [], _, h, p, hp => by simp only [mzsChoice] at h; omega
  | b :: bs, hb, h, p, hp => by
      simp only [bndL, Bool.and_eq_true] at hb
      rw [mzsChoice_cons] at h
      simp only [OpRAny]
      split at h
      · exact .inr (anywhere_any ctx bs hb.2 h p hp)
      · rename_i hne
        have hv : MV (mzs b) := by
          rcases mzs_val b with hv | hv
          · exact hv
          · exact absurd hv hne
        rcases (natOr_MV (mzsChoice_val bs) hv).2 h with h7 | h7
        · exact .inr (anywhere_any ctx bs hb.2 h7 p hp)
        · exact .inl (anywhere_op ctx b hb.1 h7 p hp)
termination_by structural bs => bs
theorem anywhere_seq (ctx : Ctx) : ∀ (ops : List Op), bndL ops = true →
    mzsSeqOf.first (mzsL ops) = some 7 → ∀ p, p ≤ ctx.len → OpRSeq ctx ops p p
  | [], _, h, p, hp => by simp only [OpRSeq]
  | o :: os, hb, h, p, hp => by
      simp only [bndL, Bool.and_eq_true] at hb
      simp only [mzsL] at h
      obtain ⟨h1, h2⟩ := first_cons_anywhere h
      simp only [OpRSeq]
      exact ⟨p, anywhere_op ctx o hb.1 h1 p hp, anywhere_seq ctx os hb.2 h2 p hp⟩
termination_by structural ops => ops
end

/-! ### `MATCHES_ZLS_NEVER` -/

theorem rep_never {R : Nat → Nat → Prop} {mn m k p : Nat} (hR : ∀ a b, R a b → a ≤ b)
    (h : (if mn = 0 then 7 else m) = 1024) (hc : m = 1024 → ¬ R p p) (hk : mn ≤ k)
    (hi : IterR R k p p) : False := by
  by_cases h0 : mn = 0
  · simp only [h0, if_true] at h; omega
  · simp only [h0, if_false] at h
    cases hi with
    | zero => omega
    | @succ k' _ q _ hi' hr =>
      have h1 := IterR_mono hR hi'
      have h2 := hR _ _ hr
      have : q = p := by omega
      subst this
      exact hc h hr

mutual
theorem never_op (ctx : Ctx) : ∀ (op : Op), mzs op = 1024 → ∀ p, ¬ OpR ctx op p p
  | .bol, h, p => by simp only [mzs, ZLS_AT_START] at h; omega
  | .eol, h, p => by simp only [mzs, ZLS_AT_END] at h; omega
  | .nothing, h, p => by simp only [mzs, ZLS_ANYWHERE] at h; omega
  | .endProgram, h, p => by simp only [mzs, ZLS_ANYWHERE] at h; omega
  | .atom cs, h, p => by
      rw [mzs_atom_eq] at h
      split at h
      · omega
      · simp only [OpR]; omega
  | .cls _, h, p => by simp only [OpR]; omega
  | .backref _, h, p => by simp only [mzs] at h; omega
  | .capture _ c, h, p => by
      simp only [mzs] at h; simp only [OpR]; exact never_op ctx c h p
  | .choice bs, h, p => by
      simp only [mzs] at h
      have := mzsChoice_val bs
      unfold MV at this
      omega
  | .seq ops, h, p => by
      simp only [mzs] at h; simp only [OpR]
      exact never_seq ctx ops (mzsSeqOf_never h) p
  | .rep _ c mn mx _, h, p => by
      simp only [mzs] at h; rw [mzs_rep_eq] at h
      simp only [OpR]
      rintro ⟨k, hk, _, hi⟩
      exact rep_never (fun a b => OpR_mono ctx c a b) h (fun hc => never_op ctx c hc p) hk hi
  | .gfixed c mn mx _, h, p => by
      simp only [mzs] at h; rw [mzs_rep_eq] at h
      simp only [OpR]
      rintro ⟨k, hk, _, hi⟩
      exact rep_never (fun a b => OpR_mono ctx c a b) h (fun hc => never_op ctx c hc p) hk hi
  | .rfixed c mn mx _, h, p => by
      simp only [mzs] at h; rw [mzs_rep_eq] at h
      simp only [OpR]
      rintro ⟨k, hk, _, hi⟩
      exact rep_never (fun a b => OpR_mono ctx c a b) h (fun hc => never_op ctx c hc p) hk hi
  | .unamb c mn mx, h, p => by
      simp only [mzs] at h; rw [mzs_rep_eq] at h
      simp only [OpR]
      rintro ⟨k, hk, _, hi⟩
      exact rep_never (fun a b => OpR_mono ctx c a b) h (fun hc => never_op ctx c hc p) hk hi
termination_by structural op => op
theorem never_seq (ctx : Ctx) : ∀ (ops : List Op), mzsSeqOf.first (mzsL ops) = some 1024 →
    ∀ p, ¬ OpRSeq ctx ops p p
  | [], h, p => by
      simp only [mzsL, mzsSeqOf.first, ZLS_ANYWHERE, Option.some.injEq] at h; omega
  | o :: os, h, p => by
      simp only [mzsL] at h
      simp only [OpRSeq]
      rintro ⟨m, h1, h2⟩
      have a1 := OpR_mono ctx o p m h1
      have a2 := OpRSeq_mono ctx os m p h2
      have : m = p := by omega
      subst this
      rcases first_cons_never h with hn | ⟨_, hn⟩
      · exact never_op ctx o hn m h1
      · exact never_seq ctx os hn m h2
termination_by structural ops => ops
end

/-! ### `optimize` -/

/-- the element `optimizeSeq` puts in place of the optimised element `opt` followed by `nxt` -/
def seqElem (env : Env) (fl : CFlags) (opt nxt : Op) : Op :=
  match repeatParts opt with
  | some (child, mn, mx, greedy) =>
    if isAtomOrClass child then
      if mn == mx then .unamb child mn mx
      else if noAmbiguity env child nxt fl.caseBlind (!greedy) fl.multiLine then .unamb child mn mx
      else opt
    else opt
  | none => opt

theorem optimizeSeq_cons2 (env : Env) (fl : CFlags) (o nxt : Op) (os : List Op) :
    optimizeSeq env fl (o :: nxt :: os) =
      seqElem env fl (optimize env fl o) nxt :: optimizeSeq env fl (nxt :: os) := by
  simp only [optimizeSeq, seqElem]
  rfl

/-- `seqElem` is `opt` itself or the `unamb` form of the repeat `opt` -/
theorem seqElem_cases (env : Env) (fl : CFlags) (opt nxt : Op) :
    seqElem env fl opt nxt = opt ∨
      ∃ child mn mx g, repeatParts opt = some (child, mn, mx, g) ∧
        seqElem env fl opt nxt = .unamb child mn mx := by
  unfold seqElem
  split
  · rename_i child mn mx g hrp
    split
    · split
      · exact .inr ⟨child, mn, mx, g, hrp, rfl⟩
      · split
        · exact .inr ⟨child, mn, mx, g, hrp, rfl⟩
        · exact .inl rfl
    · exact .inl rfl
  · exact .inl rfl

theorem unamb_OpR (ctx : Ctx) {opt child : Op} {mn mx : Nat} {g : Bool}
    (h : repeatParts opt = some (child, mn, mx, g)) (p q : Nat) :
    OpR ctx (.unamb child mn mx) p q ↔ OpR ctx opt p q := by
  cases opt <;> simp only [repeatParts, Option.some.injEq, Prod.mk.injEq, reduceCtorEq] at h
  all_goals
    obtain ⟨rfl, rfl, rfl, _⟩ := h
    simp only [OpR]

theorem seqElem_OpR (env : Env) (fl : CFlags) (ctx : Ctx) (opt nxt : Op) (p q : Nat) :
    OpR ctx (seqElem env fl opt nxt) p q ↔ OpR ctx opt p q := by
  rcases seqElem_cases env fl opt nxt with h | ⟨child, mn, mx, g, hrp, h⟩
  · rw [h]
  · rw [h]; exact unamb_OpR ctx hrp p q

theorem unamb_bnd {opt child : Op} {mn mx : Nat} {g : Bool}
    (h : repeatParts opt = some (child, mn, mx, g)) (hb : bnd opt = true) :
    bnd (.unamb child mn mx) = true := by
  cases opt <;> simp only [repeatParts, Option.some.injEq, Prod.mk.injEq, reduceCtorEq] at h
  all_goals
    obtain ⟨rfl, rfl, rfl, _⟩ := h
    simpa only [bnd] using hb

theorem seqElem_bnd (env : Env) (fl : CFlags) (opt nxt : Op) (hb : bnd opt = true) :
    bnd (seqElem env fl opt nxt) = true := by
  rcases seqElem_cases env fl opt nxt with h | ⟨child, mn, mx, g, hrp, h⟩
  · rw [h]; exact hb
  · rw [h]; exact unamb_bnd hrp hb

mutual
theorem bnd_optimize (env : Env) (fl : CFlags) : ∀ (op : Op), bnd op = true →
    bnd (optimize env fl op) = true
  | .bol, h => by simp only [optimize]; exact h
  | .eol, h => by simp only [optimize]; exact h
  | .nothing, h => by simp only [optimize]; exact h
  | .endProgram, h => by simp only [optimize]; exact h
  | .atom _, h => by simp only [optimize]; exact h
  | .cls _, h => by simp only [optimize]; exact h
  | .backref _, h => by simp only [optimize]; exact h
  | .capture _ c, h => by
      simp only [bnd] at h; simp only [optimize, bnd]; exact bnd_optimize env fl c h
  | .choice bs, h => by
      simp only [bnd] at h; simp only [optimize, bnd]; exact bndL_optimizeL env fl bs h
  | .seq ops, h => by
      simp only [bnd] at h
      have ih := bndL_optimizeSeq env fl ops h
      cases ops with
      | nil => simp only [optimize, bnd]
      | cons o t =>
        cases t with
        | nil =>
          simp only [bndL, Bool.and_true] at h
          simp only [optimize]; exact h
        | cons o2 os => simp only [optimize, bnd]; exact ih
  | .rep _ c mn mx _, h => by
      simp only [bnd, Bool.and_eq_true, decide_eq_true_eq] at h
      simp only [optimize, bnd, Bool.and_eq_true, decide_eq_true_eq]
      refine ⟨⟨bnd_optimize env fl c h.1.1, ?_⟩, h.2⟩
      split <;> omega
  | .gfixed c mn mx len, h => by
      simp only [bnd, Bool.and_eq_true, decide_eq_true_eq] at h
      simp only [optimize]
      split
      · simp only [bnd]
      · split
        · exact h.1.1
        · simp only [bnd, Bool.and_eq_true, decide_eq_true_eq]
          exact ⟨⟨bnd_optimize env fl c h.1.1, h.1.2⟩, h.2⟩
  | .rfixed c mn mx len, h => by
      simp only [bnd, Bool.and_eq_true, decide_eq_true_eq] at h
      simp only [optimize, bnd, Bool.and_eq_true, decide_eq_true_eq]
      exact ⟨⟨bnd_optimize env fl c h.1.1, h.1.2⟩, h.2⟩
  | .unamb c mn mx, h => by
      simp only [bnd, Bool.and_eq_true, decide_eq_true_eq] at h
      simp only [optimize, bnd, Bool.and_eq_true, decide_eq_true_eq]
      exact ⟨⟨bnd_optimize env fl c h.1.1, h.1.2⟩, h.2⟩
termination_by structural op => op
theorem bndL_optimizeL (env : Env) (fl : CFlags) : ∀ (l : List Op), bndL l = true →
    bndL (optimizeL env fl l) = true
  | [], _ => by simp only [optimizeL, bndL]
  | o :: os, h => by
      simp only [bndL, Bool.and_eq_true] at h
      simp only [optimizeL, bndL, Bool.and_eq_true]
      exact ⟨bnd_optimize env fl o h.1, bndL_optimizeL env fl os h.2⟩
termination_by structural l => l
theorem bndL_optimizeSeq (env : Env) (fl : CFlags) : ∀ (l : List Op), bndL l = true →
    bndL (optimizeSeq env fl l) = true
  | [], _ => by simp only [optimizeSeq, bndL]
  | [o], h => by
      simp only [bndL, Bool.and_true] at h
      simp only [optimizeSeq, bndL, Bool.and_true]
      exact bnd_optimize env fl o h
  | o :: nxt :: os, h => by
      have h' : bnd o = true ∧ bndL (nxt :: os) = true := by
        simpa only [bndL, Bool.and_eq_true] using h
      rw [optimizeSeq_cons2]
      have a1 := seqElem_bnd env fl _ nxt (bnd_optimize env fl o h'.1)
      have a2 := bndL_optimizeSeq env fl (nxt :: os) h'.2
      simp only [bndL, Bool.and_eq_true] at a2 ⊢
      exact ⟨a1, a2⟩
termination_by structural l => l
end

/-- transfer an iteration along a pointwise implication that is only available inside the input -/
theorem IterR_transfer {R S : Nat → Nat → Prop} {L : Nat}
    (hb : ∀ a b, a ≤ L → R a b → b ≤ L) (h : ∀ a b, a ≤ L → R a b → S a b)
    {k p q : Nat} (hi : IterR R k p q) (hp : p ≤ L) : IterR S k p q ∧ q ≤ L := by
  induction hi with
  | zero p => exact ⟨.zero p, hp⟩
  | succ _ hr ih =>
    obtain ⟨h1, h2⟩ := ih hp
    exact ⟨.succ h1 (h _ _ h2 hr), hb _ _ h2 hr⟩

theorem IterR_congr (ctx : Ctx) {c c' : Op}
    (ih : ∀ a b, a ≤ ctx.len → (OpR ctx c' a b ↔ OpR ctx c a b)) {k p q : Nat} (hp : p ≤ ctx.len) :
    IterR (fun a b => OpR ctx c' a b) k p q ↔ IterR (fun a b => OpR ctx c a b) k p q := by
  constructor
  · intro hi
    exact (IterR_transfer (L := ctx.len)
      (fun a b ha hr => (OpR_bounds_op ctx c a b ha ((ih a b ha).1 hr)).2)
      (fun a b ha hr => (ih a b ha).1 hr) hi hp).1
  · intro hi
    exact (IterR_transfer (L := ctx.len)
      (fun a b ha hr => (OpR_bounds_op ctx c a b ha hr).2)
      (fun a b ha hr => (ih a b ha).2 hr) hi hp).1

theorem rep_congr (ctx : Ctx) {c c' : Op}
    (ih : ∀ a b, a ≤ ctx.len → (OpR ctx c' a b ↔ OpR ctx c a b)) (mn mx : Nat) {p q : Nat}
    (hp : p ≤ ctx.len) :
    (∃ k, mn ≤ k ∧ k ≤ mx ∧ IterR (fun a b => OpR ctx c' a b) k p q) ↔
      (∃ k, mn ≤ k ∧ k ≤ mx ∧ IterR (fun a b => OpR ctx c a b) k p q) := by
  constructor
  · rintro ⟨k, h1, h2, hi⟩; exact ⟨k, h1, h2, (IterR_congr ctx ih hp).1 hi⟩
  · rintro ⟨k, h1, h2, hi⟩; exact ⟨k, h1, h2, (IterR_congr ctx ih hp).2 hi⟩

/-- the `rep` case of `optimize`: raising `min` from 0 to 1 over a child that matches the empty
    string everywhere -/
theorem rep_opt (ctx : Ctx) {c c' : Op}
    (ih : ∀ a b, a ≤ ctx.len → (OpR ctx c' a b ↔ OpR ctx c a b))
    (hany : mzs c' = 7 → ∀ p, p ≤ ctx.len → OpR ctx c' p p)
    (mn mx : Nat) (hmx : 0 < mx) {p q : Nat} (hp : p ≤ ctx.len) :
    (∃ k, (if (mn == 0 && mzs c' == ZLS_ANYWHERE) = true then 1 else mn) ≤ k ∧ k ≤ mx ∧
        IterR (fun a b => OpR ctx c' a b) k p q) ↔
      (∃ k, mn ≤ k ∧ k ≤ mx ∧ IterR (fun a b => OpR ctx c a b) k p q) := by
  rw [← rep_congr ctx ih mn mx hp]
  by_cases hc : (mn == 0 && mzs c' == ZLS_ANYWHERE) = true
  · simp only [hc, if_true]
    simp only [Bool.and_eq_true, beq_iff_eq, ZLS_ANYWHERE] at hc
    obtain ⟨rfl, h7⟩ := hc
    constructor
    · rintro ⟨k, _, h2, hi⟩; exact ⟨k, Nat.zero_le _, h2, hi⟩
    · rintro ⟨k, _, h2, hi⟩
      cases hi with
      | zero => exact ⟨1, Nat.le_refl _, hmx, .succ (.zero p) (hany h7 p hp)⟩
      | succ hi' hr => exact ⟨_, by omega, h2, .succ hi' hr⟩
  · simp only [hc]
    exact Iff.rfl

mutual
theorem opt_op (env : Env) (fl : CFlags) (ctx : Ctx) : ∀ (op : Op), wfOp op = true →
    ∀ p q, p ≤ ctx.len → (OpR ctx (optimize env fl op) p q ↔ OpR ctx op p q)
  | .bol, _, p, q, _ => by simp only [optimize]
  | .eol, _, p, q, _ => by simp only [optimize]
  | .nothing, _, p, q, _ => by simp only [optimize]
  | .endProgram, _, p, q, _ => by simp only [optimize]
  | .atom _, _, p, q, _ => by simp only [optimize]
  | .cls _, _, p, q, _ => by simp only [optimize]
  | .backref _, _, p, q, _ => by simp only [optimize]
  | .capture _ c, hwf, p, q, hp => by
      simp only [wfOp] at hwf
      simp only [optimize, OpR]
      exact opt_op env fl ctx c hwf p q hp
  | .choice bs, hwf, p, q, hp => by
      simp only [wfOp, Bool.and_eq_true] at hwf
      simp only [optimize, OpR]
      exact opt_any env fl ctx bs hwf.2 p q hp
  | .seq ops, hwf, p, q, hp => by
      simp only [wfOp, Bool.and_eq_true] at hwf
      have ih := opt_seq env fl ctx ops hwf.2 p q hp
      cases ops with
      | nil => simp only [optimize, OpR, OpRSeq]
      | cons o t =>
        cases t with
        | nil =>
          simp only [optimize, OpR, OpRSeq]
          constructor
          · intro h; exact ⟨q, h, rfl⟩
          · rintro ⟨m, h, rfl⟩; exact h
        | cons o2 os => simp only [optimize, OpR]; exact ih
  | .rep _ c mn mx _, hwf, p, q, hp => by
      simp only [wfOp, Bool.and_eq_true, decide_eq_true_eq] at hwf
      simp only [optimize, OpR]
      exact rep_opt ctx (fun a b ha => opt_op env fl ctx c hwf.1.1 a b ha)
        (anywhere_op ctx _ (bnd_optimize env fl c (bnd_of_wf c hwf.1.1))) mn mx hwf.2 hp
  | .gfixed c mn mx len, hwf, p, q, hp => by
      simp only [wfOp, Bool.and_eq_true, decide_eq_true_eq, beq_iff_eq] at hwf
      obtain ⟨⟨⟨⟨⟨hc, hml⟩, hlen⟩, _⟩, _⟩, hmx⟩ := hwf
      have h1 : (mx == 0) = false := by
        simp only [beq_eq_false_iff_ne, ne_eq]; omega
      have h2 : (matchLen c == some 0) = false := by
        rw [hml]; simp only [beq_eq_false_iff_ne, ne_eq, Option.some.injEq]; omega
      simp only [optimize, h1, h2, Bool.false_eq_true, if_false, OpR]
      exact rep_congr ctx (fun a b ha => opt_op env fl ctx c hc a b ha) mn mx hp
  | .rfixed c mn mx len, hwf, p, q, hp => by
      simp only [wfOp, Bool.and_eq_true, decide_eq_true_eq] at hwf
      simp only [optimize, OpR]
      exact rep_congr ctx (fun a b ha => opt_op env fl ctx c hwf.1.1.1.1.1 a b ha) mn mx hp
  | .unamb c mn mx, hwf, p, q, hp => by
      simp only [wfOp, Bool.and_eq_true, decide_eq_true_eq] at hwf
      simp only [optimize, OpR]
      exact rep_congr ctx (fun a b ha => opt_op env fl ctx c hwf.1.1 a b ha) mn mx hp
termination_by structural op => op
theorem opt_any (env : Env) (fl : CFlags) (ctx : Ctx) : ∀ (bs : List Op), wfOps bs = true →
    ∀ p q, p ≤ ctx.len → (OpRAny ctx (optimizeL env fl bs) p q ↔ OpRAny ctx bs p q)
  | [], _, p, q, _ => by simp only [optimizeL]
  | b :: bs, hwf, p, q, hp => by
      simp only [wfOps, Bool.and_eq_true] at hwf
      simp only [optimizeL, OpRAny]
      rw [opt_op env fl ctx b hwf.1 p q hp, opt_any env fl ctx bs hwf.2 p q hp]
termination_by structural bs => bs
theorem opt_seq (env : Env) (fl : CFlags) (ctx : Ctx) : ∀ (ops : List Op), wfOps ops = true →
    ∀ p q, p ≤ ctx.len → (OpRSeq ctx (optimizeSeq env fl ops) p q ↔ OpRSeq ctx ops p q)
  | [], _, p, q, _ => by simp only [optimizeSeq]
  | [o], hwf, p, q, hp => by
      simp only [wfOps, Bool.and_true] at hwf
      simp only [optimizeSeq, OpRSeq]
      constructor
      · rintro ⟨m, h, rfl⟩; exact ⟨_, (opt_op env fl ctx o hwf p _ hp).1 h, rfl⟩
      · rintro ⟨m, h, rfl⟩; exact ⟨_, (opt_op env fl ctx o hwf p _ hp).2 h, rfl⟩
  | o :: nxt :: os, hwf, p, q, hp => by
      have hwf' : wfOp o = true ∧ wfOps (nxt :: os) = true := by
        simpa only [wfOps, Bool.and_eq_true] using hwf
      rw [optimizeSeq_cons2]
      have e : ∀ l : List Op, OpRSeq ctx (o :: l) p q ↔ ∃ m, OpR ctx o p m ∧ OpRSeq ctx l m q := by
        intro l; simp only [OpRSeq]
      have e' : ∀ (x : Op) (l : List Op),
          OpRSeq ctx (x :: l) p q ↔ ∃ m, OpR ctx x p m ∧ OpRSeq ctx l m q := by
        intro x l; simp only [OpRSeq]
      rw [e, e']
      constructor
      · rintro ⟨m, h1, h2⟩
        have h1' := (opt_op env fl ctx o hwf'.1 p m hp).1 ((seqElem_OpR env fl ctx _ nxt p m).1 h1)
        have hm := (OpR_bounds_op ctx o p m hp h1').2
        exact ⟨m, h1', (opt_seq env fl ctx (nxt :: os) hwf'.2 m q hm).1 h2⟩
      · rintro ⟨m, h1, h2⟩
        have hm := (OpR_bounds_op ctx o p m hp h1).2
        exact ⟨m, (seqElem_OpR env fl ctx _ nxt p m).2 ((opt_op env fl ctx o hwf'.1 p m hp).2 h1),
          (opt_seq env fl ctx (nxt :: os) hwf'.2 m q hm).2 h2⟩
termination_by structural ops => ops
end

/-! ### `numberReps` -/

mutual
theorem num_op (ctx : Ctx) : ∀ (op : Op) (n p q : Nat),
    OpR ctx (numberReps op n).1 p q ↔ OpR ctx op p q
  | .bol, n, p, q => by simp only [numberReps]
  | .eol, n, p, q => by simp only [numberReps]
  | .nothing, n, p, q => by simp only [numberReps]
  | .endProgram, n, p, q => by simp only [numberReps]
  | .atom _, n, p, q => by simp only [numberReps]
  | .cls _, n, p, q => by simp only [numberReps]
  | .backref _, n, p, q => by simp only [numberReps]
  | .capture _ c, n, p, q => by
      simp only [numberReps, OpR]; exact num_op ctx c n p q
  | .choice bs, n, p, q => by
      simp only [numberReps, OpR]; exact num_any ctx bs n p q
  | .seq ops, n, p, q => by
      simp only [numberReps, OpR]; exact num_seq ctx ops n p q
  | .rep _ c mn mx _, n, p, q => by
      have e : (fun a b => OpR ctx (numberReps c (n + 1)).1 a b) = (fun a b => OpR ctx c a b) := by
        funext a b; exact propext (num_op ctx c (n + 1) a b)
      simp only [numberReps, OpR]
      rw [e]
  | .gfixed c mn mx _, n, p, q => by
      have e : (fun a b => OpR ctx (numberReps c n).1 a b) = (fun a b => OpR ctx c a b) := by
        funext a b; exact propext (num_op ctx c n a b)
      simp only [numberReps, OpR]
      rw [e]
  | .rfixed c mn mx _, n, p, q => by
      have e : (fun a b => OpR ctx (numberReps c n).1 a b) = (fun a b => OpR ctx c a b) := by
        funext a b; exact propext (num_op ctx c n a b)
      simp only [numberReps, OpR]
      rw [e]
  | .unamb c mn mx, n, p, q => by
      have e : (fun a b => OpR ctx (numberReps c n).1 a b) = (fun a b => OpR ctx c a b) := by
        funext a b; exact propext (num_op ctx c n a b)
      simp only [numberReps, OpR]
      rw [e]
termination_by structural op => op
theorem num_any (ctx : Ctx) : ∀ (bs : List Op) (n p q : Nat),
    OpRAny ctx (numberRepsL bs n).1 p q ↔ OpRAny ctx bs p q
  | [], n, p, q => by simp only [numberRepsL]
  | b :: bs, n, p, q => by
      simp only [numberRepsL, OpRAny]
      rw [num_op ctx b n p q, num_any ctx bs _ p q]
termination_by structural bs => bs
theorem num_seq (ctx : Ctx) : ∀ (ops : List Op) (n p q : Nat),
    OpRSeq ctx (numberRepsL ops n).1 p q ↔ OpRSeq ctx ops p q
  | [], n, p, q => by simp only [numberRepsL]
  | o :: os, n, p, q => by
      simp only [numberRepsL, OpRSeq]
      constructor
      · rintro ⟨m, h1, h2⟩
        exact ⟨m, (num_op ctx o n p m).1 h1, (num_seq ctx os _ m q).1 h2⟩
      · rintro ⟨m, h1, h2⟩
        exact ⟨m, (num_op ctx o n p m).2 h1, (num_seq ctx os _ m q).2 h2⟩
termination_by structural ops => ops
end

end Rx.OptL
