/-
  Proofs/ClosureStdLemmas — helper lemmas for Props/C11d: Boolean checkers over a case-closure
  table (an association list `List (Nat × List Nat)` with increasing keys) for

    * symmetry      `y ∈ closure x → x ∈ closure y`
    * transitivity  `y ∈ closure x → z ∈ closure y → z = x ∨ z ∈ closure x`
    * no surrogate key

  and their soundness.  One `lookupN` in the 2884-entry table costs the kernel about half a
  second, so the checker does not use `lookupN`: it looks the keys up in a balanced search tree
  built from the table (`build`, `find`).  Soundness needs only ONE direction of the tree —
  whatever `find` returns is an entry of the table (`find_mem`) — because the checker REQUIRES every
  look-up to succeed (every member of a closure must be a key, which symmetry forces anyway), and
  an entry of a table with increasing keys is what `lookupN` finds at its key.
-/
import RxModel.Proofs.EnvStdLemmas
namespace Rx.ClosureStdL
open Rx Rx.EnvStdL

/-! ### a search tree over an association list -/

inductive Tree (β : Type) where
  | leaf : Tree β
  | node : Tree β → Nat → β → Tree β → Tree β

/-- split in the middle, recursively (fuel: the depth) -/
def build {β : Type} : Nat → List (Nat × β) → Tree β
  | 0, _ => .leaf
  | f + 1, l =>
    match l.drop (l.length / 2) with
    | [] => .leaf
    | (a, b) :: r => .node (build f (l.take (l.length / 2))) a b (build f r)

def find {β : Type} : Tree β → Nat → Option β
  | .leaf, _ => none
  | .node l a b r, k => if k < a then find l k else if a < k then find r k else some b

def Tree.Mem {β : Type} (k : Nat) (v : β) : Tree β → Prop
  | .leaf => False
  | .node l a b r => Tree.Mem k v l ∨ (k = a ∧ v = b) ∨ Tree.Mem k v r

theorem find_treeMem {β : Type} : ∀ (t : Tree β) (k : Nat) (v : β), find t k = some v → t.Mem k v
  | .leaf, _, _, h => by cases h
  | .node l a b r, k, v, h => by
    simp only [find] at h
    split at h
    · exact .inl (find_treeMem l k v h)
    · split at h
      · exact .inr (.inr (find_treeMem r k v h))
      · refine .inr (.inl ⟨by omega, ?_⟩)
        cases h; rfl

theorem build_mem {β : Type} : ∀ (f : Nat) (l : List (Nat × β)) (k : Nat) (v : β),
    (build f l).Mem k v → (k, v) ∈ l
  | 0, _, _, _, h => by cases h
  | f + 1, l, k, v, h => by
    simp only [build] at h
    split at h
    · cases h
    · rename_i a b r hd
      have hsub : ∀ e, e ∈ (a, b) :: r → e ∈ l := by
        intro e he
        rw [← hd] at he
        exact List.mem_of_mem_drop he
      rcases h with h | ⟨h1, h2⟩ | h
      · exact List.mem_of_mem_take (build_mem f _ k v h)
      · subst h1; subst h2
        exact hsub _ List.mem_cons_self
      · exact hsub _ (List.mem_cons_of_mem _ (build_mem f r k v h))

/-- what `find` returns in the tree of a table is an entry of the table -/
theorem find_mem {β : Type} (f : Nat) (l : List (Nat × β)) (k : Nat) (v : β)
    (h : find (build f l) k = some v) : (k, v) ∈ l :=
  build_mem f l k v (find_treeMem _ k v h)

/-- … hence, with increasing keys, what `lookupN` returns -/
theorem find_lookupN {β : Type} (f : Nat) (l : List (Nat × β)) (hk : keysInc l = true) (k : Nat) (v : β)
    (h : find (build f l) k = some v) : lookupN l k = some v :=
  lookupN_of_mem l 0 hk k v (find_mem f l k v h)

/-! ### the checkers -/

/-- for every entry `(x, cx)` and every `y ∈ cx`: `y` is a key, `x` is in its closure `cy`, and
    every `z ∈ cy` is `x` or in `cx` -/
def equivB (t : Tree (List Nat)) (C : List (Nat × List Nat)) : Bool :=
  C.all (fun e => e.2.all (fun y =>
    match find t y with
    | none => false
    | some cy => cy.contains e.1 && cy.all (fun z => z == e.1 || e.2.contains z)))

/-- the depth used for the tree: 20 levels hold a million entries -/
def equivCheck (C : List (Nat × List Nat)) : Bool := equivB (build 20 C) C

/-- no key of the table is a surrogate -/
def noSurKeyB (C : List (Nat × List Nat)) : Bool := C.all (fun e => !isSurrogate e.1)

theorem closureOfT_entry (C : List (Nat × List Nat)) (x y : Nat) (h : y ∈ closureOfT C x) :
    ∃ cx, (x, cx) ∈ C ∧ lookupN C x = some cx ∧ y ∈ cx := by
  unfold closureOfT at h
  cases hl : lookupN C x with
  | none => rw [hl] at h; cases h
  | some cx =>
    rw [hl] at h
    exact ⟨cx, CaseL.lookupN_mem C x cx hl, rfl, h⟩

/-- what the check says about one pair -/
theorem equiv_entry (f : Nat) (C : List (Nat × List Nat)) (hk : keysInc C = true)
    (h : equivB (build f C) C = true) (x y : Nat) (hy : y ∈ closureOfT C x) :
    x ∈ closureOfT C y ∧ ∀ z ∈ closureOfT C y, z = x ∨ z ∈ closureOfT C x := by
  obtain ⟨cx, hm, hl, hycx⟩ := closureOfT_entry C x y hy
  unfold equivB at h
  rw [List.all_eq_true] at h
  have h1 := h _ hm
  rw [List.all_eq_true] at h1
  have h2 := h1 y hycx
  split at h2
  · cases h2
  · rename_i cy hf
    have hly := find_lookupN f C hk y cy hf
    simp only [Bool.and_eq_true, List.contains_eq_mem, decide_eq_true_eq, List.all_eq_true,
      Bool.or_eq_true, beq_iff_eq] at h2
    have hcy : closureOfT C y = cy := by unfold closureOfT; rw [hly]; rfl
    have hcx : closureOfT C x = cx := by unfold closureOfT; rw [hl]; rfl
    rw [hcy, hcx]
    exact ⟨h2.1, h2.2⟩

theorem sym_of_check (f : Nat) (C : List (Nat × List Nat)) (hk : keysInc C = true)
    (h : equivB (build f C) C = true) (x y : Nat) (hy : y ∈ closureOfT C x) : x ∈ closureOfT C y :=
  (equiv_entry f C hk h x y hy).1

theorem trans_of_check (f : Nat) (C : List (Nat × List Nat)) (hk : keysInc C = true)
    (h : equivB (build f C) C = true) (x y z : Nat) (hy : y ∈ closureOfT C x)
    (hz : z ∈ closureOfT C y) : z = x ∨ z ∈ closureOfT C x :=
  (equiv_entry f C hk h x y hy).2 z hz

theorem noSur_of_check (C : List (Nat × List Nat)) (h : noSurKeyB C = true) (s : Nat)
    (hs : isSurrogate s = true) : closureOfT C s = [] := by
  unfold closureOfT
  cases hl : lookupN C s with
  | none => rfl
  | some cs =>
    unfold noSurKeyB at h
    rw [List.all_eq_true] at h
    have := h _ (CaseL.lookupN_mem C s cs hl)
    simp only [hs, Bool.not_true] at this
    cases this

end Rx.ClosureStdL
