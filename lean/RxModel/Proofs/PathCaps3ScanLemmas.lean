/-
  Proofs/PathCaps3ScanLemmas — helper lemmas for Props/C03g: the results of Props/C03f (`straightCaps3`:
  captures and back-references next to capture-free variable-length repeats) lifted through the search
  loop (`matchesFrom`, all shortcuts) and to `replace_all`, as Proofs/C03cLemmas does for Props/C03b.

  Re-used from Proofs/C03cLemmas unchanged (generic in the enumerator): `ReprP` and its closure lemmas,
  `matchStart_reprP`, `Good`, `HasP`, `grpOf`, `replText`, `checkPre_good`, `preHolds_good`,
  `quietAll_simplePre`.  Twins (the originals mention `straightCaps` / `enumC` concretely): `sem_seqCP3`
  (Proofs/PathCaps3StreamP), `StraightOK3`, `MatchRes3`, `matchAt_casesP3`, `tryCands_specP3`, `OutcomeP3`,
  `matchesFrom_outcomeP3`, `PathR_zero3`, `firstMatch3`, `specSpans3`, `SearchOK3`, `replaceLoop_straight3`.
-/
import RxModel.Proofs.PathCaps3StreamP
namespace Rx
open Rx.C08 (noEmptyAtoms noEmptyAtomsL clsCanon clsCanonL)

/-- the program-side hypotheses of Props/C03f, unpacked, with the input-side hypothesis `InputOK` -/
structure StraightOK3 (env : Env) (ctx : Ctx) (op : Op) : Prop where
  inputOK : InputOK env ctx
  straight : straightCaps3 env ctx.caseBlind ctx.multiLine op = true
  wf : wfOp op = true
  noEmpty : noEmptyAtoms op = true
  canonB : clsCanonB op = true
  capsPos : C02.capsPos op = true
  scope : scopeOK ctx.hasBackrefs ctx.maxParens op [] [] = true
  nodup : (capsOf op).Nodup

theorem StraightOK3.canon {env : Env} {ctx : Ctx} {op : Op} (H : StraightOK3 env ctx op) : clsCanon op :=
  clsCanon_of_B op H.canonB

theorem StraightOK3.of_progOK3 {env : Env} {ctx : Ctx} {op : Op} (hI : InputOK env ctx)
    (h : C03f.progOK3 env ctx.caseBlind ctx.multiLine ctx.hasBackrefs ctx.maxParens op = true) :
    StraightOK3 env ctx op := by
  simp only [C03f.progOK3, Bool.and_eq_true, decide_eq_true_eq] at h
  obtain ⟨⟨⟨⟨⟨⟨h1, h2⟩, h3⟩, h4⟩, h5⟩, h6⟩, h7⟩ := h
  exact ⟨hI, h1, h2, h3, h4, h5, h6, h7⟩

/-- what a successful `match_at(j)` leaves: the FIRST path `(n, e')` of the priority order from `j`,
    group 0 = `(j, n)`, a state representing `e'` (with `parenCount` above every bound group) -/
structure MatchRes3 (ctx : Ctx) (op : Op) (j n : Nat) (e' : CEnv) (st' : St) : Prop where
  path : PathR ctx op j CEnv.empty n e'
  first : (enumC3 ctx op j CEnv.empty).head? = some (n, e')
  start0 : getParenStart st' 0 = some j
  end0 : getParenEnd st' 0 = some n
  le : j ≤ n
  len : n ≤ ctx.len
  reprP : ReprP ctx [] st' e'
  env : EnvIn e' j n
  dom : ∀ g, g ∈ capsOf op ↔ (e' g).isSome = true
  clean : st'.panic = none

theorem MatchRes3.repr {ctx : Ctx} {op : Op} {j n : Nat} {e' : CEnv} {st' : St}
    (h : MatchRes3 ctx op j n e' st') : Repr ctx st' e' := h.reprP.repr

theorem matchAt_casesP3 (env : Env) (ctx : Ctx) (op : Op) (H : StraightOK3 env ctx op) (j : Nat) (hj : j ≤ ctx.len)
    (st : St) (hst : Good op st) :
    (HasP ctx op j ∧ ∃ st' n e', matchAt ctx op j st = (true, st') ∧ MatchRes3 ctx op j n e' st') ∨
    (¬ HasP ctx op j ∧ ∃ st', matchAt ctx op j st = (false, st') ∧ Good op st') := by
  have hnd := C06b.matchAt_no_diverge_all ctx op H.wf (C03f.straight3_unambLeaf env _ _ op H.straight H.noEmpty) j hj st
    (by unfold C06.NoDivMark; rw [hst.2]; exact fun hc => by cases hc)
  have hrepr := matchStart_reprP ctx op j st hst.1 (.inl hst.2)
  have hseq := sem_seqCP3 env ctx H.inputOK j op H.straight H.wf H.noEmpty H.canon [] [] H.scope j CEnv.empty (matchStart ctx j st) hj
    (Nat.le_refl _) (EnvIn.empty _ _) (Dom.nil _) hrepr
  have hfacts := enumC3_facts env ctx H.inputOK j op H.straight H.wf H.noEmpty H.canon [] j CEnv.empty hj (Nat.le_refl _) (EnvIn.empty _ _)
    (Dom.nil _)
  have hcompl := enumC3_complete env ctx H.inputOK op H.straight H.wf H.noEmpty H.canon j CEnv.empty
  have hinv := sem_s0 ctx j op H.wf (by rw [← C02.capsPos_eq]; exact H.capsPos) j (matchStart ctx j st) hj
    (matchStart_s0 ctx j st)
  rw [matchAt_eq] at hnd ⊢
  generalize hl : enumC3 ctx op j CEnv.empty = l at hseq hfacts hcompl
  generalize sem ctx op j (matchStart ctx j st) = s at hnd hseq hinv
  cases hseq with
  | nil st2 hn =>
    right
    refine ⟨?_, _, rfl, ?_, ?_⟩
    · rintro ⟨n, e', hp⟩
      have := hcompl n e' hj hp
      cases this
    · intro k hk hnk
      have := hn.repr.agree k hk (by simpa using hnk)
      exact ⟨this.1, this.2.1⟩
    · simp only at hnd
      rcases hn.repr.np with h | h
      · exact h
      · exact absurd h hnd
  | cons n st2 r e' l' hr _ =>
    left
    have f := hfacts (n, e') List.mem_cons_self
    refine ⟨⟨n, e', f.path⟩, _, n, e', rfl, ?_⟩
    have hr' := hr.setEnd0 n
    have hg0 : getParenStart { st2 with cap := st2.cap.setEnd 0 n } 0 = some j := hinv.head
    have hend : getParenEnd { st2 with cap := st2.cap.setEnd 0 n } 0 = some n := by
      simp only [getParenEnd, Cap.setEnd]
      exact getO_setAt_zero _ _
    refine ⟨f.path, by rw [hl]; rfl, hg0, hend, f.le, f.len, hr', f.env, fun g => ⟨fun hg => ?_, fun hg => ?_⟩, ?_⟩
    · exact f.dom g (by simpa using hg)
    · apply Classical.byContradiction
      intro hng
      have := PathR_frame3 env _ _ ctx op H.straight j CEnv.empty n e' f.path g hng
      rw [this] at hg
      simp [CEnv.empty] at hg
    · simp only at hnd
      rcases hr'.repr.np with h | h
      · exact h
      · exact absurd h hnd
/-! ## the candidate loop and the five shortcuts, with the capture state

  The development of Proofs/SearchLemmas, with "has a match" read as "a path of the semantics WITH
  environments starts here" (`HasP`; with back-references the language `OpR` is too coarse) and the
  loop invariant strengthened from "panic marker clear" to `Good`. -/

open SearchComplete in
/-- `tryCands` on a good state: it stops at the FIRST candidate from which a path exists (and
    `match_at` succeeds there, leaving the first path of the priority order), or no candidate has a
    path and it fails in a good state -/
theorem tryCands_specP3 (env : Env) (ctx : Ctx) (op : Op) (H : StraightOK3 env ctx op) :
    ∀ (cands : List Nat) (st : St), (∀ j ∈ cands, j ≤ ctx.len) → Good op st →
    (∃ pre j post stj st' n e', cands = pre ++ j :: post ∧ (∀ k ∈ pre, ¬ HasP ctx op k) ∧
        tryCands ctx op cands st = (true, st') ∧ matchAt ctx op j stj = (true, st') ∧
        MatchRes3 ctx op j n e' st') ∨
    ((∀ k ∈ cands, ¬ HasP ctx op k) ∧ ∃ st', tryCands ctx op cands st = (false, st') ∧ Good op st') := by
  intro cands
  induction cands with
  | nil =>
    intro st _ hst
    right
    exact ⟨fun k hk => (by cases hk), st, rfl, hst⟩
  | cons j js ih =>
    intro st hb hst
    have hj := hb j List.mem_cons_self
    have hb' : ∀ k ∈ js, k ≤ ctx.len := fun k hk => hb k (List.mem_cons_of_mem _ hk)
    rcases matchAt_casesP3 env ctx op H j hj st hst with ⟨_, st', n, e', he, hres⟩ | ⟨hm, st1, he, hg⟩
    · left
      refine ⟨[], j, js, st, st', n, e', rfl, fun k hk => (by cases hk), ?_, he, hres⟩
      unfold tryCands
      rw [he]
    · have hp : ¬ st1.panic.isSome = true := by rw [hg.2]; simp
      have hstep : tryCands ctx op (j :: js) st = tryCands ctx op js st1 := tryCands_cons_false he hp
      rcases ih st1 hb' hg with ⟨pre, j', post, stj, st', n, e', hcs, hpre, ht, hma, hres⟩ | ⟨hall, st', ht, hg'⟩
      · left
        refine ⟨j :: pre, j', post, stj, st', n, e', by rw [hcs]; rfl, ?_, by rw [hstep]; exact ht, hma, hres⟩
        intro k hk
        rcases List.mem_cons.1 hk with rfl | hk
        · exact hm
        · exact hpre k hk
      · right
        refine ⟨?_, st', by rw [hstep]; exact ht, hg'⟩
        intro k hk
        rcases List.mem_cons.1 hk with rfl | hk
        · exact hm
        · exact hall k hk

/-- what a search for the first match starting at or after `i` returns on a straight-capture
    program: `true` by a successful `match_at(j)` at the LEAST `j ≥ i` from which a path exists, leaving
    the first path of the priority order from `j` and a state representing its environment; or `false`,
    a good state, and no path from any `j ≥ i` inside the input -/
def OutcomeP3 (ctx : Ctx) (op : Op) (i : Nat) (r : Bool × St) : Prop :=
  (r.1 = true ∧ ∃ j stj n e', i ≤ j ∧ j ≤ ctx.len ∧ (∀ k, i ≤ k → k < j → ¬ HasP ctx op k) ∧
      matchAt ctx op j stj = r ∧ MatchRes3 ctx op j n e' r.2) ∨
  (r.1 = false ∧ Good op r.2 ∧ ∀ j, i ≤ j → j ≤ ctx.len → ¬ HasP ctx op j)

theorem tryCands_outcomeP3 (env : Env) (ctx : Ctx) (op : Op) (H : StraightOK3 env ctx op) (i : Nat)
    (cands : List Nat) (hsort : cands.Pairwise (· < ·)) (hb : ∀ j ∈ cands, i ≤ j ∧ j ≤ ctx.len)
    (hcover : ∀ j, i ≤ j → j ≤ ctx.len → HasP ctx op j → j ∈ cands)
    (st : St) (hst : Good op st) : OutcomeP3 ctx op i (tryCands ctx op cands st) := by
  rcases tryCands_specP3 env ctx op H cands st (fun j hj => (hb j hj).2) hst with
    ⟨pre, j, post, stj, st', n, e', hcs, hpre, ht, hma, hres⟩ | ⟨hall, st', ht, hg⟩
  · rw [ht]
    refine .inl ⟨rfl, j, stj, n, e', ?_, ?_, ?_, hma, hres⟩
    · exact (hb j (by rw [hcs]; simp)).1
    · exact (hb j (by rw [hcs]; simp)).2
    · intro k hik hkj hmk
      have hjl := (hb j (by rw [hcs]; simp)).2
      have hk := hcover k hik (by omega) hmk
      rw [hcs] at hk hsort
      rw [List.pairwise_append] at hsort
      obtain ⟨_, hs2, _⟩ := hsort
      rw [List.pairwise_cons] at hs2
      rcases List.mem_append.1 hk with hk | hk
      · exact hpre k hk hmk
      · rcases List.mem_cons.1 hk with rfl | hk
        · omega
        · have := hs2.1 k hk
          omega
  · rw [ht]
    refine .inr ⟨rfl, hg, ?_⟩
    intro j hij hjl hmj
    exact hall j (hcover j hij hjl hmj) hmj

theorem matchAt_outcomeP3 (env : Env) (ctx : Ctx) (op : Op) (H : StraightOK3 env ctx op) (i : Nat)
    (hi : i ≤ ctx.len) (honly : ∀ j, i ≤ j → j ≤ ctx.len → HasP ctx op j → j = i)
    (st : St) (hst : Good op st) : OutcomeP3 ctx op i (matchAt ctx op i st) := by
  rcases matchAt_casesP3 env ctx op H i hi st hst with ⟨_, st', n, e', he, hres⟩ | ⟨hm, st', he, hg⟩
  · rw [he]
    exact .inl ⟨rfl, i, st, n, e', Nat.le_refl _, hi, fun k h1 h2 => by omega, he, hres⟩
  · rw [he]
    refine .inr ⟨rfl, hg, fun j hij hjl hmj => ?_⟩
    have := honly j hij hjl hmj
    subst this
    exact hm hmj

open SearchComplete in
/-- the "preconditions, then candidates" tail shared by two branches of `matches` -/
theorem pre_thenP3 {ctx : Ctx} {pr : Prog} (F : SearchFacts ctx pr)
    (hP : ∀ q ∈ pr.pres, CompleteAt ctx q.op ∧ C06.simplePre q.op = true)
    (i : Nat) (st : St) (hst : Good pr.op st) (k : St → Bool × St)
    (hk : ∀ st', Good pr.op st' → OutcomeP3 ctx pr.op i (k st')) :
    OutcomeP3 ctx pr.op i
      (match checkPre ctx i pr.pres st with
       | (false, st') => (false, st')
       | (true, st') => k st') := by
  have hcl := checkPre_good ctx pr.op i pr.pres st (fun q hq => (hP q hq).2) hst
  cases h : checkPre ctx i pr.pres st with
  | mk b st' =>
    rw [h] at hcl
    cases b with
    | true => exact hk st' hcl
    | false =>
      refine .inr ⟨rfl, hcl, fun j hij hjl hmj => ?_⟩
      obtain ⟨q, hq⟩ := hmj.has hjl
      have hf := F.pres i j q hij hjl hq
      rcases checkPre_spec i pr.pres st
          (fun p hp => ⟨(hP p hp).1, (quietAll_simplePre ctx p.op (hP p hp).2).quiet⟩)
          (fun p hp => (hf p hp).2) hst.2 with ⟨_, st2, he, _⟩ | ⟨hno, _⟩
      · rw [h] at he; cases he
      · exact hno (fun p hp => (hf p hp).1)

open SearchComplete in
/-- THE SEARCH LOOP on a straight-capture program: with all five shortcuts, `matches(i)` returns the
    right outcome -/
theorem matchesFrom_outcomeP3 {env : Env} {ctx : Ctx} {pr : Prog} (F : SearchFacts ctx pr) (hlen : ctx.len < usizeMax)
    (H : StraightOK3 env ctx pr.op)
    (hP : ∀ q ∈ pr.pres, CompleteAt ctx q.op ∧ C06.simplePre q.op = true)
    (i : Nat) (hi : i ≤ ctx.len) (st0 : St) (hst0 : st0.panic = none) :
    OutcomeP3 ctx pr.op i (matchesFrom ctx pr i st0) := by
  unfold matchesFrom
  simp only
  have hst : Good pr.op ({ st0 with cap := {} } : St) := ⟨capsClear_of_nil _ _ rfl rfl, hst0⟩
  generalize ({ st0 with cap := {} } : St) = st at hst
  have hcov : ∀ j, j ≤ ctx.len → HasP ctx pr.op j → ∃ q, OpR ctx pr.op j q := fun j hj h => h.has hj
  by_cases hbol : pr.hasBol = true
  · rw [if_pos hbol]
    cases hml : ctx.multiLine with
    | false =>
      simp only [Bool.not_false, if_true]
      have honly : ∀ j, j ≤ ctx.len → HasP ctx pr.op j → j = 0 := by
        intro j hj hm
        obtain ⟨q, hq⟩ := hcov j hj hm
        rcases F.bol hbol j q hq with h | h
        · exact h
        · rw [hml] at h; cases h.1
      by_cases h0 : i = 0
      · subst h0
        simp only [bne_self_eq_false, Bool.false_eq_true, if_false]
        exact pre_thenP3 F hP 0 st hst _ (fun st' hc =>
          matchAt_outcomeP3 env ctx pr.op H 0 hi (fun j _ hjl hm => honly j hjl hm) st' hc)
      · have hne : (i != 0) = true := by simp [h0]
        rw [if_pos hne]
        refine .inr ⟨rfl, hst, fun j hij hjl hmj => ?_⟩
        have := honly j hjl hmj
        omega
    | true =>
      simp only [Bool.not_true, Bool.false_eq_true, if_false]
      apply tryCands_outcomeP3 env ctx pr.op H i _ _ _ _ st hst
      · rw [List.pairwise_cons]
        refine ⟨?_, ?_⟩
        · intro a ha
          simp only [List.mem_filter, List.mem_map, decide_eq_true_eq] at ha
          obtain ⟨⟨k, ⟨hk, _⟩, rfl⟩, _⟩ := ha
          have := mem_rangeFrom hk
          omega
        · apply List.Pairwise.filter
          apply List.Pairwise.map _ _ (List.Pairwise.filter _ (rangeFrom_pairwise i ctx.len))
          intro a b hab
          exact Nat.add_lt_add_right hab 1
      · intro j hj
        simp only [List.mem_cons, List.mem_filter, List.mem_map, decide_eq_true_eq] at hj
        rcases hj with rfl | ⟨⟨k, ⟨hk, _⟩, rfl⟩, hlt⟩
        · exact ⟨Nat.le_refl _, hi⟩
        · have := mem_rangeFrom hk
          omega
      · intro j hij hjl hm
        obtain ⟨q, hq⟩ := hcov j hjl hm
        by_cases hji : j = i
        · subst hji; exact List.mem_cons_self
        · apply List.mem_cons_of_mem
          rcases F.bol hbol j q hq with h | ⟨_, hnl, hlt⟩
          · omega
          · simp only [List.mem_filter, List.mem_map, decide_eq_true_eq]
            refine ⟨⟨j - 1, ⟨?_, ?_⟩, by omega⟩, hlt⟩
            · rw [mem_rangeFrom_iff]
              omega
            · simp only [Ctx.nlAt, hnl, beq_self_eq_true]
  · rw [if_neg hbol]
    rw [if_neg (by omega : ¬ i > ctx.len)]
    by_cases hcut : ctx.len - i < pr.minLen
    · rw [if_pos hcut]
      refine .inr ⟨rfl, hst, ?_⟩
      intro j hij hjl hm
      obtain ⟨q, hq⟩ := hcov j hjl hm
      have h1 := F.minLen j q hq
      have h2 := (C01.OpR_bounds ctx pr.op j q hjl hq).2
      omega
    · rw [if_neg hcut]
      cases hpre : pr.prefix_ with
      | some cs =>
        simp only
        have hcs : ¬ cs.length > ctx.len + 1 := by
          rcases F.prefixLen cs hpre with h | h <;> omega
        rw [if_neg hcs]
        apply tryCands_outcomeP3 env ctx pr.op H i _ _ _ _ st hst
        · exact List.Pairwise.filter _ (rangeFrom_pairwise _ _)
        · intro j hj
          simp only [List.mem_filter] at hj
          have := mem_rangeFrom hj.1
          omega
        · intro j hij hjl hm
          obtain ⟨q, hq⟩ := hcov j hjl hm
          obtain ⟨h1, h2⟩ := F.prefix_ cs hpre j q hq
          simp only [List.mem_filter]
          refine ⟨?_, h2⟩
          rw [mem_rangeFrom_iff]
          omega
      | none =>
        simp only
        cases hicc : pr.icc with
        | some rs =>
          simp only
          apply tryCands_outcomeP3 env ctx pr.op H i _ _ _ _ st hst
          · exact List.Pairwise.filter _ (rangeFrom_pairwise _ _)
          · intro j hj
            simp only [List.mem_filter] at hj
            have := mem_rangeFrom hj.1
            omega
          · intro j hij hjl hm
            obtain ⟨q, hq⟩ := hcov j hjl hm
            obtain ⟨c, h1, h2⟩ := F.icc rs hicc j q hq
            simp only [List.mem_filter]
            refine ⟨?_, by rw [h1]; exact h2⟩
            rw [mem_rangeFrom_iff]
            obtain ⟨hlt, _⟩ := List.getElem?_eq_some_iff.1 h1
            exact ⟨hij, hlt⟩
        | none =>
          simp only
          refine pre_thenP3 F hP i st hst _ (fun st' hc => ?_)
          apply tryCands_outcomeP3 env ctx pr.op H i _ _ _ _ st' hc
          · exact rangeFrom_pairwise _ _
          · intro j hj
            have := mem_rangeFrom hj
            omega
          · intro j hij hjl _
            rw [mem_rangeFrom_iff]
            omega

mutual
/-- a zero-length path anywhere in any input gives a zero-length path on the empty input -/
theorem PathR_zero3 (env : Env) (cb ml : Bool) (ctx : Ctx) : (op : Op) → straightCaps3 env cb ml op = true → ∀ i e e', i ≤ ctx.len →
    PathR ctx op i e i e' → PathR ctx.onEmpty op 0 e.zero 0 e'.zero
  | .bol, _, i, e, e', _, h => by
    obtain ⟨rfl, hr⟩ := (PathR_plain ctx .bol rfl i e i e').1 h
    exact (PathR_plain _ .bol rfl 0 _ 0 _).2 ⟨rfl, OpR_zero ctx _ i hr⟩
  | .eol, _, i, e, e', _, h => by
    obtain ⟨rfl, hr⟩ := (PathR_plain ctx .eol rfl i e i e').1 h
    exact (PathR_plain _ .eol rfl 0 _ 0 _).2 ⟨rfl, OpR_zero ctx _ i hr⟩
  | .nothing, _, i, e, e', _, h => by
    obtain ⟨rfl, hr⟩ := (PathR_plain ctx .nothing rfl i e i e').1 h
    exact (PathR_plain _ .nothing rfl 0 _ 0 _).2 ⟨rfl, OpR_zero ctx _ i hr⟩
  | .endProgram, _, i, e, e', _, h => by
    obtain ⟨rfl, hr⟩ := (PathR_plain ctx .endProgram rfl i e i e').1 h
    exact (PathR_plain _ .endProgram rfl 0 _ 0 _).2 ⟨rfl, OpR_zero ctx _ i hr⟩
  | .atom cs, _, i, e, e', _, h => by
    obtain ⟨rfl, hr⟩ := (PathR_plain ctx (.atom cs) rfl i e i e').1 h
    exact (PathR_plain _ (.atom cs) rfl 0 _ 0 _).2 ⟨rfl, OpR_zero ctx _ i hr⟩
  | .cls rs, _, i, e, e', _, h => by
    obtain ⟨rfl, hr⟩ := (PathR_plain ctx (.cls rs) rfl i e i e').1 h
    exact (PathR_plain _ (.cls rs) rfl 0 _ 0 _).2 ⟨rfl, OpR_zero ctx _ i hr⟩
  | .choice bs, hs, i, e, e', _, h => by
    have hp : plainOp (.choice bs) = true := by simpa only [straightCaps3, plainOp] using hs
    obtain ⟨rfl, hr⟩ := (PathR_plain ctx _ hp i e i e').1 h
    exact (PathR_plain _ _ hp 0 _ 0 _).2 ⟨rfl, OpR_zero ctx _ i hr⟩
  | .gfixed c mn mx l, hs, i, e, e', _, h => by
    have hp : plainOp (.gfixed c mn mx l) = true := by simpa only [straightCaps3, plainOp] using hs
    obtain ⟨rfl, hr⟩ := (PathR_plain ctx _ hp i e i e').1 h
    exact (PathR_plain _ _ hp 0 _ 0 _).2 ⟨rfl, OpR_zero ctx _ i hr⟩
  | .rfixed c mn mx l, hs, i, e, e', _, h => by
    have hp : plainOp (.rfixed c mn mx l) = true := by simpa only [straightCaps3, plainOp] using hs
    obtain ⟨rfl, hr⟩ := (PathR_plain ctx _ hp i e i e').1 h
    exact (PathR_plain _ _ hp 0 _ 0 _).2 ⟨rfl, OpR_zero ctx _ i hr⟩
  | .unamb _ _ _, hs, _, _, _, _, _ => by simp [straightCaps3] at hs
  | .rep id c mn mx g, hs, i, e, e', _, h => by
    have hc := (rep3_split hs).2
    obtain ⟨rfl, hr⟩ := (PathR_noCap ctx _ hc i e i e').1 h
    exact (PathR_noCap _ _ hc 0 _ 0 _).2 ⟨rfl, OpR_zero ctx _ i hr⟩
  | .backref g, _, i, e, e', _, h => by
    simp only [PathR] at h ⊢
    obtain ⟨rfl, h⟩ := h
    refine ⟨rfl, ?_⟩
    simp only [CEnv.zero]
    cases hg : e' g with
    | none => simp [BackrefR]
    | some ab => simp [BackrefR, sameText, Ctx.len]
  | .capture g c, hs, i, e, e', hi, h => by
    simp only [straightCaps3] at hs
    simp only [PathR] at h ⊢
    obtain ⟨e1, h1, rfl⟩ := h
    exact ⟨e1.zero, PathR_zero3 env cb ml ctx c hs i e e1 hi h1, CEnv.zero_set _ _ _ _⟩
  | .seq ops, hs, i, e, e', hi, h => by
    simp only [straightCaps3] at hs
    simp only [PathR] at h ⊢
    exact PathRSeq_zero3 env cb ml ctx ops hs i e e' hi h
termination_by structural op => op
theorem PathRSeq_zero3 (env : Env) (cb ml : Bool) (ctx : Ctx) : (ops : List Op) → straightCaps3L env cb ml ops = true → ∀ i e e', i ≤ ctx.len →
    PathRSeq ctx ops i e i e' → PathRSeq ctx.onEmpty ops 0 e.zero 0 e'.zero
  | [], _, i, e, e', _, h => by
    simp only [PathRSeq] at h
    simp only [PathRSeq]
    exact ⟨trivial, by rw [h.2]⟩
  | o :: os, hs, i, e, e', hi, h => by
    simp only [straightCaps3L, Bool.and_eq_true] at hs
    simp only [PathRSeq] at h ⊢
    obtain ⟨m, e1, h1, h2⟩ := h
    have hb1 := PathR_bounds ctx o hi h1
    have hb2 := OpR_bounds_seq ctx os m i hb1.2 (PathRSeq_OpR ctx os m e1 i e' hb1.2 h2)
    have : m = i := by omega
    subst this
    exact ⟨0, e1.zero, PathR_zero3 env cb ml ctx o hs.1 m e e1 hi h1, PathRSeq_zero3 env cb ml ctx os hs.2 m e1 e' hi h2⟩
termination_by structural ops => ops
end

/-- no path on the empty input ⇒ no zero-length path anywhere -/
theorem no_zero_path3 (env : Env) (cb ml : Bool) (ctx : Ctx) (op : Op) (hs : straightCaps3 env cb ml op = true)
    (hnull : ¬ HasP ctx.onEmpty op 0) (j n : Nat) (e' : CEnv) (hj : j ≤ ctx.len)
    (h : PathR ctx op j CEnv.empty n e') (hjn : j ≤ n) : j < n := by
  rcases Nat.lt_or_ge j n with hlt | hge
  · exact hlt
  · exfalso
    have : n = j := by omega
    subst this
    have hz := PathR_zero3 env cb ml ctx op hs n _ _ hj h
    rw [CEnv.zero_empty] at hz
    have hb := PathR_bounds ctx.onEmpty op (Nat.zero_le _) hz
    exact hnull ⟨0, _, hz⟩

theorem getParen_matchRes3 {ctx : Ctx} {op : Op} {j n : Nat} {e' : CEnv} {st' : St}
    (h : MatchRes3 ctx op j n e' st') (input : List Nat) (g : Nat) :
    getParen input st' g = grpOf input j n e' g := by
  unfold getParen grpOf
  by_cases hg : g = 0
  · subst hg
    have := h.reprP.pc0
    rw [if_pos (by omega), h.start0, h.end0]
    simp
  · have hg1 : 1 ≤ g := by omega
    have ha := h.reprP.repr.agree g hg1 (by simp)
    rw [if_neg hg]
    cases he : e' g with
    | none =>
      rw [he] at ha
      simp only [getParenStart, getParenEnd, ha.1, ha.2.1, Option.map_none]
      split <;> rfl
    | some ab =>
      rw [he] at ha
      have hpc := h.reprP.pc g hg1 (by simp) (by rw [he]; rfl)
      simp only [getParenStart, getParenEnd, ha.1, ha.2.1, Option.map_some, if_pos hpc]

/-! ## the span sequence, state-free: least start with a path, first path of the priority order -/

/-- the first match at or after `pos` as the semantics describes it: the least `j ≥ pos` (inside the
    input) from which a path exists, with the first path of the priority order from `j` -/
def firstFrom3 (ctx : Ctx) (op : Op) : (fuel : Nat) → (pos : Nat) → Option (Nat × Nat × CEnv)
  | 0, _ => none
  | f+1, pos =>
    if pos > ctx.len then none else
    match (enumC3 ctx op pos CEnv.empty).head? with
    | some x => some (pos, x.1, x.2)
    | none => firstFrom3 ctx op f (pos + 1)

def firstMatch3 (ctx : Ctx) (op : Op) (pos : Nat) : Option (Nat × Nat × CEnv) :=
  firstFrom3 ctx op (ctx.len + 1 - pos) pos

/-- the matches the scan loops see: search from `pos`, then from the end of each match -/
def specSpans3 (ctx : Ctx) (op : Op) : (fuel : Nat) → (pos : Nat) → List (Nat × Nat × CEnv)
  | 0, _ => []
  | f+1, pos =>
    if pos < ctx.len then
      match firstMatch3 ctx op pos with
      | some (j, n, e') => (j, n, e') :: specSpans3 ctx op f n
      | none => []
    else []

theorem hasP_iff3 (env : Env) (ctx : Ctx) (op : Op) (H : StraightOK3 env ctx op) (j : Nat)
    (hj : j ≤ ctx.len) : HasP ctx op j ↔ (enumC3 ctx op j CEnv.empty).head?.isSome = true := by
  constructor
  · rintro ⟨n, e', hp⟩
    have := enumC3_complete env ctx H.inputOK op H.straight H.wf H.noEmpty H.canon j CEnv.empty n e' hj hp
    cases hl : enumC3 ctx op j CEnv.empty with
    | nil => rw [hl] at this; cases this
    | cons x l => rfl
  · intro h
    cases hl : enumC3 ctx op j CEnv.empty with
    | nil => rw [hl] at h; cases h
    | cons x l =>
      have := enumC3_facts env ctx H.inputOK j op H.straight H.wf H.noEmpty H.canon [] j CEnv.empty hj (Nat.le_refl _) (EnvIn.empty _ _) (Dom.nil _) x
        (by rw [hl]; exact List.mem_cons_self)
      exact ⟨x.1, x.2, this.path⟩

theorem firstFrom3_some (env : Env) (ctx : Ctx) (op : Op) (H : StraightOK3 env ctx op)
    (j n : Nat) (e' : CEnv) (hj : j ≤ ctx.len) (hhead : (enumC3 ctx op j CEnv.empty).head? = some (n, e')) :
    ∀ f pos, pos ≤ j → j + 1 ≤ f + pos → (∀ k, pos ≤ k → k < j → ¬ HasP ctx op k) →
      firstFrom3 ctx op f pos = some (j, n, e') := by
  intro f
  induction f with
  | zero => intro pos h1 h2 _; omega
  | succ f ih =>
    intro pos h1 h2 hno
    unfold firstFrom3
    rw [if_neg (by omega)]
    by_cases hpj : pos = j
    · subst hpj
      rw [hhead]
    · have hn := hno pos (Nat.le_refl _) (by omega)
      rw [hasP_iff3 env ctx op H pos (by omega)] at hn
      cases hh : (enumC3 ctx op pos CEnv.empty).head? with
      | some x => rw [hh] at hn; exact absurd rfl hn
      | none =>
        simp only
        exact ih (pos + 1) (by omega) (by omega) (fun k hk1 hk2 => hno k (by omega) hk2)

theorem firstFrom3_none (env : Env) (ctx : Ctx) (op : Op) (H : StraightOK3 env ctx op) :
    ∀ f pos, (∀ k, pos ≤ k → k ≤ ctx.len → ¬ HasP ctx op k) → firstFrom3 ctx op f pos = none := by
  intro f
  induction f with
  | zero => intro pos _; rfl
  | succ f ih =>
    intro pos hno
    unfold firstFrom3
    split
    · rfl
    · rename_i hle
      have hn := hno pos (Nat.le_refl _) (by omega)
      rw [hasP_iff3 env ctx op H pos (by omega)] at hn
      cases hh : (enumC3 ctx op pos CEnv.empty).head? with
      | some x => rw [hh] at hn; exact absurd rfl hn
      | none =>
        simp only
        exact ih (pos + 1) (fun k hk1 hk2 => hno k (by omega) hk2)

/-- an outcome of the search loop, read against the state-free description -/
theorem OutcomeP3.first {ctx : Ctx} {op : Op} (H : StraightOK3 env ctx op) {i : Nat} {r : Bool × St}
    (h : OutcomeP3 ctx op i r) :
    (r.1 = true ∧ ∃ j n e', firstMatch3 ctx op i = some (j, n, e') ∧ i ≤ j ∧ MatchRes3 ctx op j n e' r.2) ∨
    (r.1 = false ∧ firstMatch3 ctx op i = none ∧ Good op r.2) := by
  rcases h with ⟨ht, j, stj, n, e', h1, h2, h3, _, hres⟩ | ⟨hf, hg, hno⟩
  · left
    refine ⟨ht, j, n, e', ?_, h1, hres⟩
    exact firstFrom3_some env ctx op H j n e' h2 hres.first _ i h1 (by omega) h3
  · right
    exact ⟨hf, firstFrom3_none env ctx op H _ i hno, hg⟩

/-! ## the concrete matcher of a straight-capture program -/

/-- everything the lifting needs about a program and an input: the decidable program-side hypotheses
    of C03b (`StraightOK3 env`), the facts `ReProgram::new` records (for this input and for the empty
    input — `SearchComplete.mkProgram_searchFacts`), the shape of the precondition trees, and the
    nullability gate of the API (`is_match("") = false`, what `Regex::new` stores — C16) -/
structure SearchOK3 (env : Env) (pr : Prog) (lower : Nat → Nat) (input : List Nat) : Prop where
  ok : StraightOK3 env (pr.ctx lower input) pr.op
  inputOK0 : InputOK env (pr.ctx lower [])
  facts : SearchComplete.SearchFacts (pr.ctx lower input) pr
  facts0 : SearchComplete.SearchFacts (pr.ctx lower []) pr
  pres : ∀ q ∈ pr.pres, SearchComplete.preShape q.op = true ∧ C06.simplePre q.op = true
  len : input.length < usizeMax
  nonnull : pr.isMatch lower [] = .ok false

namespace SearchOK3
variable {env : Env} {pr : Prog} {lower : Nat → Nat} {input : List Nat}

theorem outcome (S : SearchOK3 env pr lower input) (i : Nat) (hi : i ≤ input.length) (st : St)
    (hst : st.panic = none) :
    OutcomeP3 (pr.ctx lower input) pr.op i (matchesFrom (pr.ctx lower input) pr i st) :=
  matchesFrom_outcomeP3 S.facts S.len S.ok
    (fun q hq => ⟨SearchComplete.preShape_completeAt _ q.op (S.pres q hq).1, (S.pres q hq).2⟩) i hi st hst

theorem no_empty_path (S : SearchOK3 env pr lower input) : ¬ HasP (pr.ctx lower input).onEmpty pr.op 0 := by
  have H0 : StraightOK3 env (pr.ctx lower []) pr.op :=
    ⟨S.inputOK0, S.ok.straight, S.ok.wf, S.ok.noEmpty, S.ok.canonB, S.ok.capsPos, S.ok.scope, S.ok.nodup⟩
  have ho := matchesFrom_outcomeP3 (ctx := pr.ctx lower []) S.facts0
    (show (0 : Nat) < usizeMax by decide) H0
    (fun q hq => ⟨SearchComplete.preShape_completeAt _ q.op (S.pres q hq).1, (S.pres q hq).2⟩)
    0 (Nat.zero_le _) {} rfl
  have hn := S.nonnull
  unfold Prog.isMatch at hn
  generalize matchesFrom (pr.ctx lower []) pr 0 {} = r at ho hn
  obtain ⟨m, st⟩ := r
  rcases ho with ⟨ht, j, stj, n, e', _, _, _, _, hres⟩ | ⟨_, _, hno⟩
  · simp only at ht hn hres
    subst ht
    rw [hres.clean] at hn
    cases hn
  · exact hno 0 (Nat.le_refl _) (Nat.zero_le _)

/-- one call of `matches(pos)` from a clean state, against the state-free description -/
theorem find_step (S : SearchOK3 env pr lower input) (pos : Nat) (hpos : pos ≤ input.length) (st : St)
    (hst : st.panic = none) :
    (∃ st' j n e', matchesFrom (pr.ctx lower input) pr pos st = (true, st') ∧
        firstMatch3 (pr.ctx lower input) pr.op pos = some (j, n, e') ∧ pos ≤ j ∧ j < n ∧
        MatchRes3 (pr.ctx lower input) pr.op j n e' st') ∨
    (∃ st', matchesFrom (pr.ctx lower input) pr pos st = (false, st') ∧
        firstMatch3 (pr.ctx lower input) pr.op pos = none ∧ st'.panic = none) := by
  have ho := (S.outcome pos hpos st hst).first S.ok
  generalize matchesFrom (pr.ctx lower input) pr pos st = r at ho
  obtain ⟨m, st'⟩ := r
  rcases ho with ⟨ht, j, n, e', h1, h2, hres⟩ | ⟨hf, h1, hg⟩
  · left
    simp only at ht hres
    subst ht
    have hjl : j ≤ (pr.ctx lower input).len := Nat.le_trans hres.le hres.len
    exact ⟨st', j, n, e', rfl, h1, h2,
      no_zero_path3 env _ _ _ pr.op S.ok.straight S.no_empty_path j n e' hjl hres.path hres.le, hres⟩
  · right
    simp only at hf hg
    subst hf
    exact ⟨st', rfl, h1, hg.2⟩

/-- the hypothesis of every C04 theorem, for the concrete matcher -/
theorem goodFind (S : SearchOK3 env pr lower input) :
    C04.GoodFind (pr.matcher lower input) input.length (fun st => st.panic = none) := by
  constructor
  intro st pos st' m hinv hpos hfind hfailed
  refine ⟨hfailed, fun hm => ?_⟩
  subst hm
  rcases S.find_step pos hpos st hinv with ⟨st2, j, n, e', he, _, h2, h3, hres⟩ | ⟨st2, he, _⟩
  · have : st2 = st' := by
      have := he.symm.trans hfind
      simpa using this
    subst this
    exact ⟨j, n, hres.start0, hres.end0, h2, h3, hres.len⟩
  · have := he.symm.trans hfind
    simp at this

end SearchOK3

/-- one substitution, in the state of a match -/
theorem subst_matchRes3 {pr : Prog} {lower : Nat → Nat} {input : List Nat} {j n : Nat} {e' : CEnv} {st' : St}
    (h : MatchRes3 (pr.ctx lower input) pr.op j n e' st') (repl : List Nat)
    (hmp : pr.maxParens ≠ 0) (hwf : Spec.wfRepl repl = true) (simple : Bool)
    (hsimple : simple = true → Spec.plainRepl repl = true) :
    ∃ s', pr.subst input repl st' simple = some (replText pr input repl (j, n, e'), s') ∧
      (s' = true → Spec.plainRepl repl = true) := by
  have hgrp : getParen input st' = grpOf input j n e' := funext (getParen_matchRes3 h input)
  have hspec := C15.expand_spec (pr.maxParens - 1) (grpOf input j n e') repl
  cases simple with
  | true =>
    have hp := hsimple rfl
    refine ⟨true, ?_, fun _ => hp⟩
    have := C15.expand_plain (pr.maxParens - 1) (grpOf input j n e') repl hp
    rw [this] at hspec
    simp only [Prog.subst, if_true, replText]
    rw [← hspec]; rfl
  | false =>
    have hmp' : (pr.maxParens == 0) = false := by simp [hmp]
    simp only [Prog.subst, Bool.false_eq_true, if_false, hmp', hgrp]
    have hsome := C15.expand_isSome_iff_wf (pr.maxParens - 1) (grpOf input j n e') repl
    rw [hwf] at hsome
    cases he : expand (pr.maxParens - 1) (grpOf input j n e') repl with
    | none => rw [he] at hsome; cases hsome
    | some r =>
      obtain ⟨t, s'⟩ := r
      rw [he] at hspec
      refine ⟨s', ?_, fun hs => ?_⟩
      · simp only [replText]
        rw [← hspec]; rfl
      · subst hs
        exact (C15.latch_sound _ _ _ _ he).1

/-- **the replace loop over a straight-capture program**: never fails, and its result is the input
    with every match of the state-free span sequence replaced by the expansion of the replacement
    string in the environment of that match -/
theorem replaceLoop_straight3 {env : Env} {pr : Prog} {lower : Nat → Nat} {input : List Nat} (S : SearchOK3 env pr lower input)
    (repl : List Nat) (hmp : pr.maxParens ≠ 0) (hwf : Spec.wfRepl repl = true) (hlit : pr.literal = false) :
    ∀ (f pos : Nat) (st : St) (first simple : Bool) (acc : List Nat),
    st.panic = none → pos ≤ input.length → input.length + 1 ≤ f + pos →
    (first = true → acc = [] ∧ pos = 0) → (first = false → simple = true → Spec.plainRepl repl = true) →
    replaceLoop (pr.matcher lower input) (pr.subst input repl) input pr.literal f pos st first simple acc =
      .ok (acc ++ Spec.replaced input pos
        ((specSpans3 (pr.ctx lower input) pr.op f pos).map (fun x => (x.1, x.2.1, replText pr input repl x)))) := by
  intro f
  induction f with
  | zero => intro pos st first simple acc _ hp hf; omega
  | succ f ih =>
    intro pos st first simple acc hst hp hf hfirst hsim
    have hlen : (pr.ctx lower input).len = input.length := rfl
    unfold replaceLoop specSpans3
    by_cases hlt : pos < input.length
    · simp only [hlt, if_true, hlen]
      have hfind : (pr.matcher lower input).find st pos = matchesFrom (pr.ctx lower input) pr pos st := rfl
      rw [hfind]
      rcases S.find_step pos hp st hst with ⟨st', j, n, e', he, hfm, hpj, hjn, hres⟩ | ⟨st', he, hfm, hcl⟩
      · rw [he, hfm]
        simp only
        have hfail : (pr.matcher lower input).failed st' = none := hres.clean
        have hs0 : (pr.matcher lower input).start0 st' = some j := hres.start0
        have he0 : (pr.matcher lower input).end0 st' = some n := hres.end0
        rw [hfail, hs0]
        simp only
        rw [if_neg (by omega : ¬ j < pos)]
        obtain ⟨s', hsub, hs'⟩ := subst_matchRes3 hres repl hmp hwf (if first = true then pr.literal else simple)
          (by
            cases first with
            | true => simp [hlit]
            | false => simpa using hsim rfl)
        rw [hsub, he0]
        simp only
        have hne : (n == pos) = false := by simp; omega
        rw [hne]
        simp only [Bool.false_eq_true, if_false]
        rw [ih n st' false s' _ hres.clean hres.len (by omega) (by simp) (fun _ => hs')]
        simp only [List.map_cons, Spec.replaced, List.append_assoc]
      · rw [he, hfm]
        simp only
        have hfail : (pr.matcher lower input).failed st' = none := hcl
        rw [hfail]
        simp only [C04.first_end input acc pos first hfirst, List.map_nil, Spec.replaced]
    · simp only [hlt, if_false, hlen, C04.first_end input acc pos first hfirst, List.map_nil, Spec.replaced]

theorem firstFrom3_sound (ctx : Ctx) (op : Op) : ∀ f pos j n e', firstFrom3 ctx op f pos = some (j, n, e') →
    pos ≤ j ∧ j ≤ ctx.len ∧ (enumC3 ctx op j CEnv.empty).head? = some (n, e') ∧
    ∀ k, pos ≤ k → k < j → (enumC3 ctx op k CEnv.empty).head? = none := by
  intro f
  induction f with
  | zero => intro pos j n e' h; cases h
  | succ f ih =>
    intro pos j n e' h
    unfold firstFrom3 at h
    split at h
    · cases h
    · rename_i hle
      cases hh : (enumC3 ctx op pos CEnv.empty).head? with
      | some x =>
        rw [hh] at h
        simp only [Option.some.injEq, Prod.mk.injEq] at h
        obtain ⟨rfl, rfl, rfl⟩ := h
        exact ⟨Nat.le_refl _, by omega, hh, fun k h1 h2 => by omega⟩
      | none =>
        rw [hh] at h
        obtain ⟨h1, h2, h3, h4⟩ := ih (pos + 1) j n e' h
        refine ⟨by omega, h2, h3, fun k hk1 hk2 => ?_⟩
        by_cases hkp : k = pos
        · subst hkp; exact hh
        · exact h4 k (by omega) hk2


end Rx
