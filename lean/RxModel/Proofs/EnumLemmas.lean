/-
  Proofs/EnumLemmas — the calculus of *exact* yield lists (`Step.Seq`, Spec/Enum) for the stream
  combinators and for every generator of the clean fragment, and the induction over the tree:
  `sem ctx op p st` yields exactly `enum ctx op p` (under every consumer), and `enum` lists exactly
  the language `OpR`.  Used by Props/Clean.
-/
import RxModel.Spec.Enum
import RxModel.Proofs.EngineSound
import RxModel.Proofs.LawLemmas
namespace Rx

/-- `s` yields exactly `l` and then ends, under every consumer -/
abbrev Step.Ex (s : Step) (l : List Nat) : Prop := Step.Seq anySt s l

namespace Step.Ex

theorem nil (st : St) : Step.Ex (.nil st) [] := Step.Seq.nil st

theorem cons {n : Nat} {st : St} {r : St → Step} {l : List Nat} (h : ∀ st', Step.Ex (r st') l) :
    Step.Ex (.cons n st r) (n :: l) :=
  Step.Seq.cons n st r l (fun st' _ => h st')

theorem once (n : Nat) (st : St) : Step.Ex (Step.once n st) [n] := cons (fun st' => nil st')

/-- weakening of the consumer assumption: an exact list under every consumer is exact under the
    consumers that respect `I` -/
theorem weaken {I : St → Prop} {s : Step} {l : List Nat} (h : Step.Ex s l) : Step.Seq I s l := by
  induction h with
  | nil st => exact .nil st
  | cons n st r l _ ih => exact .cons n st r l (fun st' _ => ih st' trivial)

theorem append {s : Step} {f : St → Step} {l1 l2 : List Nat}
    (hs : Step.Ex s l1) (hf : ∀ st, Step.Ex (f st) l2) : Step.Ex (s.append f) (l1 ++ l2) := by
  induction hs with
  | nil st => exact hf st
  | cons n st r l _ ih => exact cons (fun st' => ih st' trivial)

theorem bind {s : Step} {f : Nat → St → Step} {l : List Nat} {g : Nat → List Nat}
    (hs : Step.Ex s l) (hf : ∀ n, n ∈ l → ∀ st, Step.Ex (f n st) (g n)) :
    Step.Ex (s.bind f) (l.flatMap g) := by
  induction hs with
  | nil st => exact nil st
  | cons n st r l _ ih =>
    rw [List.flatMap_cons]
    exact append (hf n List.mem_cons_self st)
      (fun st' => ih st' trivial (fun m hm => hf m (List.mem_cons_of_mem _ hm)))

theorem mapSt {s : Step} {f : Nat → St → St} {l : List Nat} (hs : Step.Ex s l) :
    Step.Ex (s.mapSt f) l := by
  induction hs with
  | nil st => exact nil _
  | cons n st r l _ ih => exact cons (fun st' => ih st' trivial)

theorem onNil {s : Step} {f : St → St} {l : List Nat} (hs : Step.Ex s l) :
    Step.Ex (s.onNil f) l := by
  induction hs with
  | nil st => exact nil _
  | cons n st r l _ ih => exact cons (fun st' => ih st' trivial)

/-- a sound iterator's exact list lies in the relation -/
theorem all {P : Nat → Prop} {s : Step} {l : List Nat} (hs : Step.Ex s l) (ha : s.All P) :
    ∀ n, n ∈ l → P n := by
  induction hs with
  | nil st => intro n hn; cases hn
  | cons m st r l _ ih =>
    intro n hn
    cases ha with
    | cons _ _ _ hm hr =>
      rcases List.mem_cons.1 hn with rfl | hn
      · exact hm
      · exact ih st trivial (hr st) n hn

/-- the exact list is unique -/
theorem unique {s : Step} {l l' : List Nat} (h : Step.Ex s l) (h' : Step.Ex s l') : l = l' := by
  induction h generalizing l' with
  | nil st => cases h'; rfl
  | cons n st r l _ ih =>
    cases h' with
    | cons _ _ _ l2 hr => rw [ih st trivial (hr st trivial)]

theorem first1_nil {s : Step} (h : Step.Ex s []) : ∃ st', first1 s = (none, st') := by
  cases h with
  | nil st => exact ⟨st, rfl⟩

theorem first1_cons {s : Step} {n : Nat} {l : List Nat} (h : Step.Ex s (n :: l)) :
    ∃ st', first1 s = (some (n, st'), st') := by
  cases h with
  | cons _ st r _ _ => exact ⟨st, rfl⟩

end Step.Ex

/-! ### leaves -/

theorem bolGen_ex (ctx : Ctx) (p : Nat) (st : St) : Step.Ex (bolGen ctx p st) (enum ctx .bol p) := by
  unfold bolGen
  simp only [enum]
  by_cases hp : p = 0
  · subst hp
    simp only [bne_self_eq_false, Bool.false_eq_true, if_false, true_or, if_true]
    exact .once _ _
  · have h1 : (p != 0) = true := by simp [hp]
    simp only [h1, if_true, hp, false_or, Ctx.nlAt, Bool.and_eq_true, beq_iff_eq, decide_eq_true_eq,
      and_assoc]
    split
    · exact .once _ _
    · exact .nil _

theorem eolGen_ex (ctx : Ctx) (p : Nat) (st : St) : Step.Ex (eolGen ctx p st) (enum ctx .eol p) := by
  unfold eolGen
  simp only [enum, Ctx.nlAt, Bool.or_eq_true, beq_iff_eq, decide_eq_true_eq]
  by_cases hm : ctx.multiLine = true
  · simp only [hm, if_true, true_and]
    by_cases hc : (ctx.len = 0 ∨ p ≥ ctx.len) ∨ ctx.input[p]? = some 10
    · have hc' : p ≥ ctx.len ∨ ctx.input[p]? = some 10 := by
        rcases hc with (h | h) | h
        · left; omega
        · left; exact h
        · right; exact h
      rw [if_pos hc, if_pos hc']
      exact .once _ _
    · have hc' : ¬ (p ≥ ctx.len ∨ ctx.input[p]? = some 10) := by
        intro h; apply hc
        rcases h with h | h
        · exact .inl (.inr h)
        · exact .inr h
      rw [if_neg hc, if_neg hc']
      exact .nil _
  · simp only [hm, Bool.false_eq_true, if_false, false_and, or_false]
    by_cases hc : ctx.len = 0 ∨ p ≥ ctx.len
    · have hc' : p ≥ ctx.len := by omega
      rw [if_pos hc, if_pos hc']
      exact .once _ _
    · have hc' : ¬ p ≥ ctx.len := by omega
      rw [if_neg hc, if_neg hc']
      exact .nil _

theorem nothingGen_ex (ctx : Ctx) (p : Nat) (st : St) : Step.Ex (nothingGen p st) (enum ctx .nothing p) := by
  simp only [enum]; exact .once _ _

theorem endGen_ex (ctx : Ctx) (p : Nat) (st : St) : Step.Ex (endGen p st) (enum ctx .endProgram p) := by
  simp only [enum]; exact .once _ _

theorem atomGen_ex (ctx : Ctx) (cs : List Nat) (p : Nat) (st : St) :
    Step.Ex (atomGen ctx cs p st) (enum ctx (.atom cs) p) := by
  unfold atomGen
  simp only [enum]
  by_cases h1 : p + cs.length > ctx.len
  · have h1' : ¬ p + cs.length ≤ ctx.len := by omega
    simp only [h1, if_true, h1', false_and, if_false]
    exact .nil _
  · have h1' : p + cs.length ≤ ctx.len := by omega
    simp only [h1, if_false, h1', true_and]
    split
    · exact .once _ _
    · exact .nil _

theorem clsGen_ex (ctx : Ctx) (rs : Ranges) (p : Nat) (st : St) :
    Step.Ex (clsGen ctx rs p st) (enum ctx (.cls rs) p) := by
  unfold clsGen
  simp only [enum]
  cases ctx.input[p]? with
  | none => exact .nil _
  | some c =>
    simp only
    split
    · exact .once _ _
    · exact .nil _

/-! ### capture, choice, sequence -/

theorem captureGen_ex {child : Gen} {p : Nat} {l : List Nat} (hc : ∀ st, Step.Ex (child p st) l)
    (ctx : Ctx) (g : Nat) (st : St) : Step.Ex (captureGen ctx g child p st) l := by
  unfold captureGen
  exact (hc _).mapSt

theorem choiceGen_nil_ex (p : Nat) (st : St) : Step.Ex (choiceGen [] p st) [] := .nil _

theorem choiceGen_cons_ex {g : Gen} {gs : List Gen} {p : Nat} {l1 l2 : List Nat}
    (h1 : ∀ st, Step.Ex (g p st) l1) (h2 : ∀ st, Step.Ex (choiceGen gs p st) l2) (st : St) :
    Step.Ex (choiceGen (g :: gs) p st) (l1 ++ l2) := by
  unfold choiceGen
  exact (h1 _).append h2

theorem flatMap_single (l : List Nat) : l.flatMap (fun m => [m]) = l := by
  induction l with
  | nil => rfl
  | cons a l ih => rw [List.flatMap_cons, ih]; rfl

theorem seqGo_single_ex {g : Gen} {p : Nat} {l : List Nat} (h : ∀ st, Step.Ex (g p st) l) (st : St) :
    Step.Ex (seqGo [g] p st) l := by
  unfold seqGo
  exact (h st).mapSt

theorem seqGo_cons_ex {g g2 : Gen} {gs : List Gen} {p : Nat} {l : List Nat} {e : Nat → List Nat}
    (h1 : ∀ st, Step.Ex (g p st) l)
    (h2 : ∀ n, n ∈ l → ∀ st, Step.Ex (seqGo (g2 :: gs) n st) (e n)) (st : St) :
    Step.Ex (seqGo (g :: g2 :: gs) p st) (l.flatMap e) := by
  unfold seqGo
  exact ((h1 st).mapSt).bind h2

theorem seqGen_ex {gs : List Gen} {p : Nat} {l : List Nat} (h : ∀ st, Step.Ex (seqGo gs p st) l)
    (hasCap : Bool) (st : St) : Step.Ex (seqGen hasCap gs p st) l := by
  unfold seqGen
  exact (h st).onNil

/-! ### greedy fixed-length repeat -/

/-- `n + 1` positions from `cur` downwards in steps of `len` -/
def downList (len : Nat) : Nat → Nat → List Nat
  | 0, cur => [cur]
  | n+1, cur => cur :: downList len n (cur - len)

theorem downList_snoc (len : Nat) : ∀ n cur,
    downList len n cur ++ [cur - len * (n + 1)] = downList len (n + 1) cur := by
  intro n
  induction n with
  | zero => intro cur; simp only [downList, Nat.zero_add, Nat.mul_one]; rfl
  | succ n ih =>
    intro cur
    have h := ih (cur - len)
    have e : cur - len - len * (n + 1) = cur - len * (n + 1 + 1) := by
      rw [Nat.mul_succ len (n + 1)]; omega
    rw [e] at h
    show cur :: (downList len n (cur - len) ++ [cur - len * (n + 1 + 1)]) = _
    rw [h]
    rfl

theorem descend_ex (len limit : Nat) (hlen : 0 < len) : ∀ n fuel cur st,
    cur = limit + len * n → n < fuel →
    Step.Ex (descend len limit fuel cur st) (downList len n cur) := by
  intro n
  induction n with
  | zero =>
    intro fuel cur st hcur hf
    obtain ⟨f, rfl⟩ : ∃ f, fuel = f + 1 := ⟨fuel - 1, by omega⟩
    simp only [Nat.mul_zero, Nat.add_zero] at hcur
    unfold descend
    rw [if_pos (by omega)]
    refine .cons (fun st' => ?_)
    rw [if_neg (by omega)]
    exact .nil _
  | succ n ih =>
    intro fuel cur st hcur hf
    obtain ⟨f, rfl⟩ : ∃ f, fuel = f + 1 := ⟨fuel - 1, by omega⟩
    rw [Nat.mul_succ] at hcur
    unfold descend
    rw [if_pos (by omega)]
    refine .cons (fun st' => ?_)
    rw [if_pos (by omega)]
    exact ih f (cur - len) st' (by omega) (by omega)

/-- what the body of a fixed-length quantifier provides: an exact enumeration `e` from every start
    inside the input (length `L`), all of whose members are `len` further and inside the input -/
structure FixedBody (child : Gen) (e : Nat → List Nat) (len L : Nat) : Prop where
  pos : 0 < len
  ex : ∀ q, q ≤ L → ∀ st, Step.Ex (child q st) (e q)
  fixed : ∀ q, q ≤ L → ∀ n, n ∈ e q → n = q + len ∧ n ≤ L

theorem FixedBody.first_nil {child : Gen} {e : Nat → List Nat} {len L : Nat} (hb : FixedBody child e len L)
    {q : Nat} (hq : q ≤ L) (st : St) (h : e q = []) : ∃ st', first1 (child q st) = (none, st') := by
  have := hb.ex q hq st
  rw [h] at this
  exact this.first1_nil

theorem FixedBody.first_cons {child : Gen} {e : Nat → List Nat} {len L : Nat} (hb : FixedBody child e len L)
    {q : Nat} (hq : q ≤ L) (st : St) {n : Nat} {t : List Nat} (h : e q = n :: t) :
    (∃ st', first1 (child q st) = (some (n, st'), st')) ∧ n = q + len ∧ n ≤ L := by
  have h1 := hb.ex q hq st
  rw [h] at h1
  exact ⟨h1.first1_cons, hb.fixed q hq n (by rw [h]; exact List.mem_cons_self)⟩

theorem gfixedLoop_enum {child : Gen} {e : Nat → List Nat} {len L : Nat} (hb : FixedBody child e len L)
    (mx guard start mn : Nat)
    (hg : ∀ m, m < mx → start + len * m ≤ L → start + len * m ≤ guard) :
    ∀ fuel p m st, m < mx → p = start + len * m → p ≤ L → L + 2 ≤ fuel + p →
      ∀ r, gfixedLoop child len mx guard fuel p m st = r →
        m ≤ r.2.1 ∧ r.1 = start + len * r.2.1 ∧ r.1 ≤ L ∧
        greedyIter e mn (mx - m) m p =
          if r.2.1 < mn then [] else downList len (r.2.1 - max mn m) r.1 := by
  intro fuel
  induction fuel with
  | zero => intro p m st _ _ hpL hf; omega
  | succ f ih =>
    intro p m st hlt hp hpL hfuel r hr
    have hlen := hb.pos
    have hpg : p ≤ guard := by rw [hp]; exact hg m hlt (by rw [← hp]; exact hpL)
    obtain ⟨b, hbb⟩ : ∃ b, mx - m = b + 1 := ⟨mx - m - 1, by omega⟩
    unfold gfixedLoop at hr
    rw [if_pos hpg] at hr
    rw [hbb]
    simp only [greedyIter]
    cases hl : e p with
    | nil =>
      obtain ⟨st', hf⟩ := hb.first_nil hpL st hl
      rw [hf] at hr
      simp only at hr
      subst hr
      refine ⟨Nat.le_refl _, hp, hpL, ?_⟩
      simp only [List.nil_append]
      by_cases hmn : mn ≤ m
      · have e0 : m - max mn m = 0 := by omega
        rw [if_pos hmn, if_neg (by omega), e0]
        rfl
      · rw [if_neg hmn, if_pos (by omega)]
    | cons q t =>
      obtain ⟨⟨st1, hf⟩, hq1, hq2⟩ := hb.first_cons hpL st hl
      rw [hf] at hr
      simp only at hr
      have hp' : p + len = start + len * (m + 1) := by rw [Nat.mul_succ]; omega
      subst hq1
      simp only
      by_cases hm : m + 1 = mx
      · have hbeq : (m + 1 == mx) = true := by simp [hm]
        rw [if_pos hbeq] at hr
        subst hr
        have hb0 : b = 0 := by omega
        subst hb0
        simp only [greedyIter]
        refine ⟨Nat.le_succ _, hp', hq2, ?_⟩
        by_cases h1 : mn ≤ m
        · have e1 : m + 1 - max mn m = 1 := by omega
          rw [if_pos (by omega), if_pos h1, if_neg (by omega), e1]
          simp only [downList, Nat.add_sub_cancel]
          rfl
        · by_cases h2 : mn ≤ m + 1
          · have e1 : m + 1 - max mn m = 0 := by omega
            rw [if_pos h2, if_neg h1, if_neg (by omega), e1]
            rfl
          · rw [if_neg h2, if_neg h1, if_pos (by omega)]
            rfl
      · have hbeq : ¬ (m + 1 == mx) = true := by simp [hm]
        rw [if_neg hbeq] at hr
        have hih := ih (p + len) (m + 1) st1 (by omega) hp' hq2 (by omega) r hr
        obtain ⟨i1, i2, i3, i4⟩ := hih
        have hb' : mx - (m + 1) = b := by omega
        rw [hb'] at i4
        refine ⟨by omega, i2, i3, ?_⟩
        rw [i4]
        by_cases h1 : mn ≤ m
        · rw [if_pos h1, if_neg (by omega), if_neg (by omega)]
          obtain ⟨n, hn⟩ : ∃ n, r.2.1 = m + (n + 1) := ⟨r.2.1 - (m + 1), by omega⟩
          have e1 : r.2.1 - max mn (m + 1) = n := by omega
          have e2 : r.2.1 - max mn m = n + 1 := by omega
          have e3 : p = r.1 - len * (n + 1) := by
            rw [i2, hn, Nat.mul_add]; omega
          rw [e1, e2, e3]
          exact downList_snoc len n r.1
        · have e1 : r.2.1 - max mn (m + 1) = r.2.1 - max mn m := by omega
          rw [if_neg h1, List.append_nil, e1]

theorem gfixedGen_ex {child : Gen} {e : Nat → List Nat} {len : Nat} (ctx : Ctx)
    (hb : FixedBody child e len ctx.len) (mn mx : Nat) (hmx : 0 < mx) (p : Nat) (hp : p ≤ ctx.len) (st : St) :
    Step.Ex (gfixedGen ctx child mn mx len p st) (greedyIter e mn mx 0 p) := by
  have hlen := hb.pos
  unfold gfixedGen
  simp only
  generalize hguard : (if mx < usizeMax then Nat.min ctx.len (p + len * mx) else ctx.len) = guard
  have hpos : 0 < len * mx := Nat.mul_pos hlen hmx
  have hgd : guard = ctx.len ∨ guard = p + len * mx ∧ p + len * mx ≤ ctx.len := by
    rw [← hguard]
    split
    · show min ctx.len (p + len * mx) = ctx.len ∨ min ctx.len (p + len * mx) = p + len * mx ∧ _
      rw [Nat.min_def]
      split
      · exact .inl rfl
      · exact .inr ⟨rfl, by omega⟩
    · exact .inl rfl
  have hg2 : ∀ m, m < mx → p + len * m ≤ ctx.len → p + len * m ≤ guard := by
    intro m hm hle
    have : len * m ≤ len * mx := Nat.mul_le_mul_left len (Nat.le_of_lt hm)
    rcases hgd with h | ⟨h, _⟩ <;> omega
  split
  · rename_i hexit
    simp only [Bool.and_eq_true, decide_eq_true_eq] at hexit
    have hpe : p = ctx.len := by rcases hgd with h | ⟨h, _⟩ <;> omega
    have he0 : e p = [] := by
      cases hl : e p with
      | nil => rfl
      | cons q t =>
        have := hb.fixed p hp q (by rw [hl]; exact List.mem_cons_self)
        omega
    obtain ⟨b, rfl⟩ : ∃ b, mx = b + 1 := ⟨mx - 1, by omega⟩
    simp only [greedyIter]
    rw [he0, if_neg (by omega)]
    exact .nil _
  · have h := gfixedLoop_enum hb mx guard p mn hg2 (ctx.len + 2) p 0 st hmx (by simp) hp (by omega) _ rfl
    generalize gfixedLoop child len mx guard (ctx.len + 2) p 0 st = r at h
    obtain ⟨_, h2, h3, h4⟩ := h
    rw [Nat.sub_zero] at h4
    rw [h4]
    split
    · exact .nil _
    · rename_i hge
      have hle : r.2.1 ≤ len * r.2.1 := Nat.le_mul_of_pos_left _ hlen
      have e1 : r.2.1 - max mn 0 = r.2.1 - mn := by omega
      rw [e1]
      apply descend_ex len (p + len * mn) hlen (r.2.1 - mn) _ r.1 _ _ (by omega)
      rw [h2]
      obtain ⟨n, hn⟩ : ∃ n, r.2.1 = mn + n := ⟨r.2.1 - mn, by omega⟩
      rw [hn, Nat.mul_add]
      have : mn + n - mn = n := by omega
      rw [this]; omega

/-! ### reluctant fixed-length repeat -/

theorem reluctIter_head (e : Nat → List Nat) (mn b k p : Nat) (h : mn ≤ k) :
    ∃ l, reluctIter e mn b k p = p :: l := by
  cases b with
  | zero => exact ⟨[], by simp only [reluctIter, if_pos h]⟩
  | succ b => exact ⟨_, by simp only [reluctIter, if_pos h]; rfl⟩

theorem iterMin_enum {child : Gen} {e : Nat → List Nat} {len L : Nat} (hb : FixedBody child e len L)
    (mn : Nat) :
    ∀ fuel count pos st b, count ≤ mn → pos ≤ L → mn - count ≤ b →
      (mn - count + 1 ≤ fuel ∨ L + 2 ≤ fuel + pos) →
      ∀ r, iterMin child mn fuel count pos st = r →
        (r.1 = none ∧ reluctIter e mn b count pos = []) ∨
        (∃ pos', r.1 = some (mn, pos') ∧ pos' ≤ L ∧
          reluctIter e mn b count pos = reluctIter e mn (b - (mn - count)) mn pos') := by
  intro fuel
  induction fuel with
  | zero => intro count pos st b _ _ _ hf; omega
  | succ f ih =>
    intro count pos st b hcm hpL hbb hfuel r hr
    have hlen := hb.pos
    unfold iterMin at hr
    by_cases hlt : count < mn
    · rw [if_pos hlt] at hr
      obtain ⟨b', rfl⟩ : ∃ b', b = b' + 1 := ⟨b - 1, by omega⟩
      simp only [reluctIter]
      rw [if_neg (by omega), List.nil_append]
      cases hl : e pos with
      | nil =>
        obtain ⟨st', hf⟩ := hb.first_nil hpL st hl
        rw [hf] at hr
        simp only at hr
        subst hr
        exact .inl ⟨rfl, rfl⟩
      | cons q t =>
        obtain ⟨⟨st1, hf⟩, hq1, hq2⟩ := hb.first_cons hpL st hl
        rw [hf] at hr
        simp only at hr
        have hih := ih (count + 1) q st1 b' (by omega) hq2 (by omega) (by omega) r hr
        have e1 : b' - (mn - (count + 1)) = b' + 1 - (mn - count) := by omega
        rw [e1] at hih
        exact hih
    · rw [if_neg hlt] at hr
      subst hr
      have : count = mn := by omega
      subst this
      refine .inr ⟨pos, rfl, hpL, ?_⟩
      rw [Nat.sub_self, Nat.sub_zero]

theorem rfixedMore_enum {child : Gen} {e : Nat → List Nat} {len L : Nat} (hb : FixedBody child e len L)
    (mn mx position : Nat) :
    ∀ fuel count pos st, mn ≤ count → count ≤ mx → pos ≤ L → L + 2 ≤ fuel + pos →
      ∀ l, reluctIter e mn (mx - count) count pos = pos :: l →
        Step.Ex (rfixedMore child mx position fuel count pos st) l := by
  intro fuel
  induction fuel with
  | zero => intro count pos st _ _ _ hf; omega
  | succ f ih =>
    intro count pos st hmc hcx hpL hfuel l hl
    have hlen := hb.pos
    unfold rfixedMore
    by_cases hlt : count < mx
    · rw [if_pos hlt]
      obtain ⟨b, hbb⟩ : ∃ b, mx - count = b + 1 := ⟨mx - count - 1, by omega⟩
      rw [hbb] at hl
      simp only [reluctIter] at hl
      rw [if_pos hmc] at hl
      simp only
      cases hle : e pos with
      | nil =>
        obtain ⟨st', hf⟩ := hb.first_nil hpL (clearBeyond st position) hle
        rw [hf]
        simp only
        rw [hle] at hl
        simp only [List.cons_append, List.nil_append, List.cons.injEq, true_and] at hl
        subst hl
        exact .nil _
      | cons q t =>
        obtain ⟨⟨st1, hf⟩, hq1, hq2⟩ := hb.first_cons hpL (clearBeyond st position) hle
        rw [hf]
        simp only
        rw [hle] at hl
        simp only [List.cons_append, List.nil_append, List.cons.injEq, true_and] at hl
        have hb' : mx - (count + 1) = b := by omega
        obtain ⟨l', hl'⟩ := reluctIter_head e mn b (count + 1) q (by omega)
        rw [hl'] at hl
        subst hl
        refine .cons (fun st'' => ?_)
        exact ih (count + 1) q st'' (by omega) (by omega) hq2 (by omega) l' (by rw [hb']; exact hl')
    · rw [if_neg hlt]
      have : mx - count = 0 := by omega
      rw [this] at hl
      simp only [reluctIter, if_pos hmc, List.cons.injEq, true_and] at hl
      subst hl
      exact .nil _

theorem rfixedGen_ex {child : Gen} {e : Nat → List Nat} {len : Nat} (ctx : Ctx)
    (hb : FixedBody child e len ctx.len) (mn mx : Nat) (hmm : mn ≤ mx) (p : Nat) (hp : p ≤ ctx.len) (st : St) :
    Step.Ex (rfixedGen ctx child mn mx p st) (reluctIter e mn mx 0 p) := by
  unfold rfixedGen
  have hfuel : mn - 0 + 1 ≤ loopFuel ctx mn ∨ ctx.len + 2 ≤ loopFuel ctx mn + p := by
    unfold loopFuel
    show _ ≤ min (mn + 1) (ctx.len + 1000) ∨ _ ≤ min (mn + 1) (ctx.len + 1000) + p
    rw [Nat.min_def]
    split <;> omega
  have h := iterMin_enum hb mn (loopFuel ctx mn) 0 p st mx (Nat.zero_le _) hp (by omega) hfuel _ rfl
  generalize iterMin child mn (loopFuel ctx mn) 0 p st = r at h
  obtain ⟨o, st'⟩ := r
  rcases h with ⟨h1, h2⟩ | ⟨pos', h1, h2, h3⟩
  · simp only at h1
    subst h1
    simp only
    rw [h2]
    exact .nil _
  · simp only at h1
    subst h1
    simp only
    rw [h3, Nat.sub_zero]
    obtain ⟨l, hl⟩ := reluctIter_head e mn (mx - mn) mn pos' (Nat.le_refl _)
    rw [hl]
    exact .cons (fun st'' => rfixedMore_enum hb mn mx p _ mn pos' st'' (Nat.le_refl _) hmm h2 (by omega) l hl)

/-! ### the tree: `sem` yields exactly `enum` -/

/-- members of the exact list of a well-formed operation are in its language and inside the input -/
theorem ex_sound (ctx : Ctx) (op : Op) (hwf : wfOp op = true) {p : Nat} (hp : p ≤ ctx.len) {st : St}
    {l : List Nat} (h : Step.Ex (sem ctx op p st) l) : ∀ n, n ∈ l → OpR ctx op p n ∧ n ≤ ctx.len := by
  intro n hn
  have h1 : OpR ctx op p n := h.all (sem_sound_op ctx op hwf p st) n hn hp
  exact ⟨h1, (OpR_bounds_op ctx op p n hp h1).2⟩

theorem fixedBody_of (ctx : Ctx) (c : Op) (len : Nat) (hwc : wfOp c = true) (hml : matchLen c = some len)
    (hlen0 : 0 < len) (hlen1 : len < usizeMax)
    (hex : ∀ q, q ≤ ctx.len → ∀ st, Step.Ex (sem ctx c q st) (enum ctx c q)) :
    FixedBody (sem ctx c) (enum ctx c) len ctx.len where
  pos := hlen0
  ex := hex
  fixed := by
    intro q hq n hn
    have h := hex q hq {}
    exact ⟨h.all (matchLen_sound_op ctx c hwc len hml hlen1 q {}) n hn, (ex_sound ctx c hwc hq h n hn).2⟩

mutual
theorem sem_ex_op (ctx : Ctx) : (op : Op) → cleanOp op = true → wfOp op = true →
    ∀ p, p ≤ ctx.len → ∀ st, Step.Ex (sem ctx op p st) (enum ctx op p)
  | .bol, _, _, p, _, st => by simp only [sem]; exact bolGen_ex ctx p st
  | .eol, _, _, p, _, st => by simp only [sem]; exact eolGen_ex ctx p st
  | .nothing, _, _, p, _, st => by simp only [sem]; exact nothingGen_ex ctx p st
  | .endProgram, _, _, p, _, st => by simp only [sem]; exact endGen_ex ctx p st
  | .atom cs, _, _, p, _, st => by simp only [sem]; exact atomGen_ex ctx cs p st
  | .cls rs, _, _, p, _, st => by simp only [sem]; exact clsGen_ex ctx rs p st
  | .backref _, hc, _, _, _, _ => by simp [cleanOp] at hc
  | .rep _ _ _ _ _, hc, _, _, _, _ => by simp [cleanOp] at hc
  | .unamb _ _ _, hc, _, _, _, _ => by simp [cleanOp] at hc
  | .capture g c, hc, hwf, p, hp, st => by
    simp only [cleanOp] at hc
    simp only [wfOp] at hwf
    simp only [sem, enum]
    exact captureGen_ex (fun st' => sem_ex_op ctx c hc hwf p hp st') ctx g st
  | .choice bs, hc, hwf, p, hp, st => by
    simp only [cleanOp] at hc
    simp only [wfOp, Bool.and_eq_true] at hwf
    simp only [sem, enum]
    exact sem_ex_any ctx bs hc hwf.2 p hp st
  | .seq ops, hc, hwf, p, hp, st => by
    simp only [cleanOp] at hc
    simp only [wfOp, Bool.and_eq_true, Bool.not_eq_true', List.isEmpty_eq_false_iff] at hwf
    simp only [sem, enum]
    exact seqGen_ex (fun st' => sem_ex_seq ctx ops hwf.1 hc hwf.2 p hp st') _ st
  | .gfixed c mn mx len, hc, hwf, p, hp, st => by
    simp only [cleanOp] at hc
    simp only [wfOp, Bool.and_eq_true, decide_eq_true_eq, beq_iff_eq] at hwf
    obtain ⟨⟨⟨⟨⟨hwc, hml⟩, hlen0⟩, hlen1⟩, _⟩, hmx⟩ := hwf
    simp only [sem, enum]
    exact gfixedGen_ex ctx
      (fixedBody_of ctx c len hwc hml hlen0 hlen1 (fun q hq st' => sem_ex_op ctx c hc hwc q hq st'))
      mn mx hmx p hp st
  | .rfixed c mn mx len, hc, hwf, p, hp, st => by
    simp only [cleanOp] at hc
    simp only [wfOp, Bool.and_eq_true, decide_eq_true_eq, beq_iff_eq] at hwf
    obtain ⟨⟨⟨⟨⟨hwc, hml⟩, hlen0⟩, hlen1⟩, hmm⟩, _⟩ := hwf
    simp only [sem, enum]
    exact rfixedGen_ex ctx
      (fixedBody_of ctx c len hwc hml hlen0 hlen1 (fun q hq st' => sem_ex_op ctx c hc hwc q hq st'))
      mn mx hmm p hp st
termination_by structural op => op
theorem sem_ex_any (ctx : Ctx) : (bs : List Op) → cleanOps bs = true → wfOps bs = true →
    ∀ p, p ≤ ctx.len → ∀ st, Step.Ex (choiceGen (semL ctx bs) p st) (enumAny ctx bs p)
  | [], _, _, p, _, st => by simp only [semL, enumAny]; exact choiceGen_nil_ex p st
  | b :: bs, hc, hwf, p, hp, st => by
    simp only [cleanOps, Bool.and_eq_true] at hc
    simp only [wfOps, Bool.and_eq_true] at hwf
    simp only [semL, enumAny]
    exact choiceGen_cons_ex (fun st' => sem_ex_op ctx b hc.1 hwf.1 p hp st')
      (fun st' => sem_ex_any ctx bs hc.2 hwf.2 p hp st') st
termination_by structural bs => bs
theorem sem_ex_seq (ctx : Ctx) : (ops : List Op) → ops ≠ [] → cleanOps ops = true → wfOps ops = true →
    ∀ p, p ≤ ctx.len → ∀ st, Step.Ex (seqGo (semL ctx ops) p st) (enumSeq ctx ops p)
  | [], hne, _, _, _, _, _ => absurd rfl hne
  | [o], _, hc, hwf, p, hp, st => by
    simp only [cleanOps, Bool.and_eq_true] at hc
    simp only [wfOps, Bool.and_eq_true] at hwf
    simp only [semL, enumSeq]
    rw [flatMap_single]
    exact seqGo_single_ex (fun st' => sem_ex_op ctx o hc.1 hwf.1 p hp st') st
  | o :: o2 :: os, _, hc, hwf, p, hp, st => by
    simp only [cleanOps, Bool.and_eq_true] at hc
    simp only [wfOps, Bool.and_eq_true] at hwf
    have hc2 : cleanOps (o2 :: os) = true := by simp only [cleanOps, Bool.and_eq_true]; exact hc.2
    have hw2 : wfOps (o2 :: os) = true := by simp only [wfOps, Bool.and_eq_true]; exact hwf.2
    have h1 : ∀ st', Step.Ex (sem ctx o p st') (enum ctx o p) :=
      fun st' => sem_ex_op ctx o hc.1 hwf.1 p hp st'
    show Step.Ex (seqGo (sem ctx o :: sem ctx o2 :: semL ctx os) p st)
      ((enum ctx o p).flatMap (enumSeq ctx (o2 :: os)))
    refine seqGo_cons_ex h1 (fun n hn st' => ?_) st
    have hnL : n ≤ ctx.len := (ex_sound ctx o hwf.1 hp (h1 {}) n hn).2
    exact sem_ex_seq ctx (o2 :: os) (List.cons_ne_nil _ _) hc2 hw2 n hnL st'
termination_by structural ops => ops
end

/-! ### `enum` lists exactly the language -/

theorem enum_sound (ctx : Ctx) (op : Op) (hc : cleanOp op = true) (hwf : wfOp op = true) {p q : Nat}
    (hp : p ≤ ctx.len) (h : q ∈ enum ctx op p) : OpR ctx op p q :=
  (ex_sound ctx op hwf hp (sem_ex_op ctx op hc hwf p hp {}) q h).1

/-- a body relation all of whose members are the first element of `e` -/
structure HeadDet (R : Nat → Nat → Prop) (e : Nat → List Nat) (L : Nat) : Prop where
  det : ∀ a, a ≤ L → ∀ b, R a b → (∃ t, e a = b :: t) ∧ b ≤ L

theorem greedyIter_complete {R : Nat → Nat → Prop} {e : Nat → List Nat} {L : Nat} (hd : HeadDet R e L)
    (mn : Nat) : ∀ b k p j q, p ≤ L → IterR R j p q → j ≤ b → mn ≤ k + j → q ∈ greedyIter e mn b k p := by
  intro b
  induction b with
  | zero =>
    intro k p j q _ hi hj hmn
    have : j = 0 := by omega
    subst this
    rw [IterR.zero_iff.1 hi]
    simp only [greedyIter, if_pos (show mn ≤ k by omega), List.mem_singleton]
  | succ b ih =>
    intro k p j q hp hi hj hmn
    simp only [greedyIter, List.mem_append]
    cases j with
    | zero =>
      rw [IterR.zero_iff.1 hi]
      right
      simp only [if_pos (show mn ≤ k by omega), List.mem_singleton]
    | succ j =>
      obtain ⟨a, ha, hi'⟩ := IterR.uncons hi
      obtain ⟨⟨t, ht⟩, haL⟩ := hd.det p hp a ha
      left
      rw [ht]
      exact ih (k + 1) a j q haL hi' (by omega) (by omega)

theorem reluctIter_complete {R : Nat → Nat → Prop} {e : Nat → List Nat} {L : Nat} (hd : HeadDet R e L)
    (mn : Nat) : ∀ b k p j q, p ≤ L → IterR R j p q → j ≤ b → mn ≤ k + j → q ∈ reluctIter e mn b k p := by
  intro b
  induction b with
  | zero =>
    intro k p j q _ hi hj hmn
    have : j = 0 := by omega
    subst this
    rw [IterR.zero_iff.1 hi]
    simp only [reluctIter, if_pos (show mn ≤ k by omega), List.mem_singleton]
  | succ b ih =>
    intro k p j q hp hi hj hmn
    simp only [reluctIter, List.mem_append]
    cases j with
    | zero =>
      rw [IterR.zero_iff.1 hi]
      left
      simp only [if_pos (show mn ≤ k by omega), List.mem_singleton]
    | succ j =>
      obtain ⟨a, ha, hi'⟩ := IterR.uncons hi
      obtain ⟨⟨t, ht⟩, haL⟩ := hd.det p hp a ha
      right
      rw [ht]
      exact ih (k + 1) a j q haL hi' (by omega) (by omega)

theorem headDet_of (ctx : Ctx) (c : Op) (len : Nat) (hb : FixedBody (sem ctx c) (enum ctx c) len ctx.len)
    (hcomp : ∀ p q, p ≤ ctx.len → OpR ctx c p q → q ∈ enum ctx c p) :
    HeadDet (fun a b => OpR ctx c a b) (enum ctx c) ctx.len where
  det := by
    intro a ha b hr
    have hmem := hcomp a b ha hr
    have hb1 := hb.fixed a ha b hmem
    cases hl : enum ctx c a with
    | nil => rw [hl] at hmem; cases hmem
    | cons x t =>
      have hx := hb.fixed a ha x (by rw [hl]; exact List.mem_cons_self)
      have : x = b := by omega
      subst this
      exact ⟨⟨t, rfl⟩, hb1.2⟩

mutual
theorem enum_complete_op (ctx : Ctx) : (op : Op) → cleanOp op = true → wfOp op = true →
    ∀ p q, p ≤ ctx.len → OpR ctx op p q → q ∈ enum ctx op p
  | .bol, _, _, p, q, _, h => by
    simp only [OpR] at h
    simp only [enum]
    rw [if_pos h.2, h.1]; exact List.mem_singleton.2 rfl
  | .eol, _, _, p, q, _, h => by
    simp only [OpR] at h
    simp only [enum]
    rw [if_pos h.2, h.1]; exact List.mem_singleton.2 rfl
  | .nothing, _, _, p, q, _, h => by
    simp only [OpR] at h
    simp only [enum]
    rw [h]; exact List.mem_singleton.2 rfl
  | .endProgram, _, _, p, q, _, h => by
    simp only [OpR] at h
    simp only [enum]
    rw [h]; exact List.mem_singleton.2 rfl
  | .atom cs, _, _, p, q, _, h => by
    simp only [OpR] at h
    obtain ⟨rfl, h2, h3⟩ := h
    simp only [enum]
    rw [if_pos ⟨h2, h3⟩]; exact List.mem_singleton.2 rfl
  | .cls rs, _, _, p, q, _, h => by
    simp only [OpR] at h
    obtain ⟨rfl, c, h2, h3⟩ := h
    simp only [enum]
    rw [h2]
    simp only
    rw [if_pos h3]; exact List.mem_singleton.2 rfl
  | .backref _, hc, _, _, _, _, _ => by simp [cleanOp] at hc
  | .rep _ _ _ _ _, hc, _, _, _, _, _ => by simp [cleanOp] at hc
  | .unamb _ _ _, hc, _, _, _, _, _ => by simp [cleanOp] at hc
  | .capture g c, hc, hwf, p, q, hp, h => by
    simp only [cleanOp] at hc
    simp only [wfOp] at hwf
    simp only [OpR] at h
    simp only [enum]
    exact enum_complete_op ctx c hc hwf p q hp h
  | .choice bs, hc, hwf, p, q, hp, h => by
    simp only [cleanOp] at hc
    simp only [wfOp, Bool.and_eq_true] at hwf
    simp only [OpR] at h
    simp only [enum]
    exact enum_complete_any ctx bs hc hwf.2 p q hp h
  | .seq ops, hc, hwf, p, q, hp, h => by
    simp only [cleanOp] at hc
    simp only [wfOp, Bool.and_eq_true] at hwf
    simp only [OpR] at h
    simp only [enum]
    exact enum_complete_seq ctx ops hc hwf.2 p q hp h
  | .gfixed c mn mx len, hc, hwf, p, q, hp, h => by
    simp only [cleanOp] at hc
    simp only [wfOp, Bool.and_eq_true, decide_eq_true_eq, beq_iff_eq] at hwf
    obtain ⟨⟨⟨⟨⟨hwc, hml⟩, hlen0⟩, hlen1⟩, _⟩, hmx⟩ := hwf
    simp only [OpR] at h
    obtain ⟨k, hk1, hk2, hi⟩ := h
    simp only [enum]
    have hb := fixedBody_of ctx c len hwc hml hlen0 hlen1 (fun q hq st' => sem_ex_op ctx c hc hwc q hq st')
    have hd := headDet_of ctx c len hb (fun a b ha hr => enum_complete_op ctx c hc hwc a b ha hr)
    exact greedyIter_complete hd mn mx 0 p k q hp hi hk2 (by omega)
  | .rfixed c mn mx len, hc, hwf, p, q, hp, h => by
    simp only [cleanOp] at hc
    simp only [wfOp, Bool.and_eq_true, decide_eq_true_eq, beq_iff_eq] at hwf
    obtain ⟨⟨⟨⟨⟨hwc, hml⟩, hlen0⟩, hlen1⟩, _⟩, hmx⟩ := hwf
    simp only [OpR] at h
    obtain ⟨k, hk1, hk2, hi⟩ := h
    simp only [enum]
    have hb := fixedBody_of ctx c len hwc hml hlen0 hlen1 (fun q hq st' => sem_ex_op ctx c hc hwc q hq st')
    have hd := headDet_of ctx c len hb (fun a b ha hr => enum_complete_op ctx c hc hwc a b ha hr)
    exact reluctIter_complete hd mn mx 0 p k q hp hi hk2 (by omega)
termination_by structural op => op
theorem enum_complete_any (ctx : Ctx) : (bs : List Op) → cleanOps bs = true → wfOps bs = true →
    ∀ p q, p ≤ ctx.len → OpRAny ctx bs p q → q ∈ enumAny ctx bs p
  | [], _, _, p, q, _, h => by simp only [OpRAny] at h
  | b :: bs, hc, hwf, p, q, hp, h => by
    simp only [cleanOps, Bool.and_eq_true] at hc
    simp only [wfOps, Bool.and_eq_true] at hwf
    simp only [OpRAny] at h
    simp only [enumAny, List.mem_append]
    rcases h with h | h
    · exact .inl (enum_complete_op ctx b hc.1 hwf.1 p q hp h)
    · exact .inr (enum_complete_any ctx bs hc.2 hwf.2 p q hp h)
termination_by structural bs => bs
theorem enum_complete_seq (ctx : Ctx) : (ops : List Op) → cleanOps ops = true → wfOps ops = true →
    ∀ p q, p ≤ ctx.len → OpRSeq ctx ops p q → q ∈ enumSeq ctx ops p
  | [], _, _, p, q, _, h => by
    simp only [OpRSeq] at h
    simp only [enumSeq]
    rw [h]; exact List.mem_singleton.2 rfl
  | o :: os, hc, hwf, p, q, hp, h => by
    simp only [cleanOps, Bool.and_eq_true] at hc
    simp only [wfOps, Bool.and_eq_true] at hwf
    simp only [OpRSeq] at h
    obtain ⟨m, h1, h2⟩ := h
    simp only [enumSeq, List.mem_flatMap]
    have hm := (OpR_bounds_op ctx o p m hp h1).2
    exact ⟨m, enum_complete_op ctx o hc.1 hwf.1 p m hp h1, enum_complete_seq ctx os hc.2 hwf.2 m q hm h2⟩
termination_by structural ops => ops
end

end Rx
