/-
  Proofs/ApiLemmas — helper lemmas for Props/Api: the operations `add_precondition` records are of
  the shape `C06.simplePre`, and numbering the repeat nodes (`numberReps` / `numberPres`) keeps
  that shape.
-/
import RxModel.Model.Compile
import RxModel.Spec.OpLang
import RxModel.Props.C06
import RxModel.Proofs.PreLemmas
import RxModel.Proofs.WFLemmas
namespace Rx.ApiL
open Rx Rx.C08

/-- a child without empty literal is an admissible child of a recorded repeat -/
theorem simplePreChild_of_noEmpty (c : Op) (hne : noEmptyAtoms c = true) :
    C06.simplePre.simplePreChild c = true := by
  cases c with
  | atom cs => simpa only [noEmptyAtoms, C06.simplePre.simplePreChild] using hne
  | _ => rfl

/-- the common shape of the four repeat forms in `add_precondition` -/
theorem rep_case (ml : Bool) (c self : Op) (mn : Nat) (fp : Option Nat) (mp : Nat)
    (hne : noEmptyAtoms c = true)
    (hself : isAtomOrClass c = true → mn = 1 → C06.simplePre self = true)
    (IH : ∀ q ∈ addPre ml c fp mp, C06.simplePre q.op = true) :
    ∀ q ∈ (if mn ≥ 1 then
        (if isAtomOrClass c then
          (if mn == 1 then [({ op := self, fixed := fp, minPos := mp } : Pre)]
           else [{ op := .rep 0 c mn mn true, fixed := fp, minPos := mp }])
         else addPre ml c fp mp)
      else []), C06.simplePre q.op = true := by
  intro q hq
  split at hq
  · rename_i h1
    split at hq
    · rename_i hac
      split at hq
      · rename_i h2
        simp only [List.mem_singleton] at hq; subst hq
        exact hself hac (by simpa using h2)
      · simp only [List.mem_singleton] at hq; subst hq
        have hch := simplePreChild_of_noEmpty c hne
        have h0 : 0 < mn := h1
        simp only [C06.simplePre, hac, hch, Nat.le_refl, h0, decide_true, Bool.and_self, Bool.true_or]
    · exact IH q hq
  · cases hq

mutual
theorem addPre_simple (ml : Bool) : (op : Op) → wfOp op = true → noEmptyAtoms op = true →
    ∀ (fp : Option Nat) (mp : Nat), ∀ q ∈ addPre ml op fp mp, C06.simplePre q.op = true
  | .bol, _, _, fp, mp => by intro q hq; simp only [addPre] at hq; cases hq
  | .eol, _, _, fp, mp => by intro q hq; simp only [addPre] at hq; cases hq
  | .nothing, _, _, fp, mp => by intro q hq; simp only [addPre] at hq; cases hq
  | .endProgram, _, _, fp, mp => by intro q hq; simp only [addPre] at hq; cases hq
  | .backref _, _, _, fp, mp => by intro q hq; simp only [addPre] at hq; cases hq
  | .choice _, _, _, fp, mp => by intro q hq; simp only [addPre] at hq; cases hq
  | .atom cs, _, hne, fp, mp => by
    intro q hq
    simp only [addPre, List.mem_singleton] at hq; subst hq
    simpa only [noEmptyAtoms, C06.simplePre] using hne
  | .cls rs, _, _, fp, mp => by
    intro q hq
    simp only [addPre, List.mem_singleton] at hq; subst hq
    rfl
  | .capture _ c, hwf, hne, fp, mp => by
    simp only [wfOp] at hwf
    simp only [noEmptyAtoms] at hne
    simp only [addPre]
    exact addPre_simple ml c hwf hne fp mp
  | .seq ops, hwf, hne, fp, mp => by
    simp only [wfOp, Bool.and_eq_true] at hwf
    simp only [noEmptyAtoms] at hne
    simp only [addPre]
    exact addPreSeq_simple ml ops hwf.2 hne fp mp
  | .rep id c mn mx g, hwf, hne, fp, mp => by
    simp only [wfOp, Bool.and_eq_true, decide_eq_true_eq] at hwf
    obtain ⟨⟨hwc, hmm⟩, hmx⟩ := hwf
    simp only [noEmptyAtoms] at hne
    simp only [addPre]
    refine rep_case ml c _ mn fp mp hne (fun hac h1 => ?_) (addPre_simple ml c hwc hne fp mp)
    have hch := simplePreChild_of_noEmpty c hne
    subst h1
    simp only [C06.simplePre, hac, hch, hmm, hmx, decide_true, Bool.and_self, Bool.or_true,
      show (1 : Nat) < 1000 by omega]
  | .gfixed c mn mx len, hwf, hne, fp, mp => by
    simp only [wfOp, Bool.and_eq_true, decide_eq_true_eq] at hwf
    obtain ⟨⟨⟨⟨⟨hwc, hc⟩, hlen0⟩, hlen1⟩, hmm⟩, hmx⟩ := hwf
    simp only [noEmptyAtoms] at hne
    simp only [addPre]
    refine rep_case ml c _ mn fp mp hne (fun hac h1 => ?_) (addPre_simple ml c hwc hne fp mp)
    have hch := simplePreChild_of_noEmpty c hne
    simp only [C06.simplePre, hac, hch, hc, hlen0, hlen1, hmm, hmx, decide_true, Bool.and_self]
  | .rfixed c mn mx len, hwf, hne, fp, mp => by
    simp only [wfOp, Bool.and_eq_true, decide_eq_true_eq] at hwf
    obtain ⟨⟨⟨⟨⟨hwc, hc⟩, hlen0⟩, hlen1⟩, hmm⟩, hmx⟩ := hwf
    simp only [noEmptyAtoms] at hne
    simp only [addPre]
    refine rep_case ml c _ mn fp mp hne (fun hac h1 => ?_) (addPre_simple ml c hwc hne fp mp)
    have hch := simplePreChild_of_noEmpty c hne
    simp only [C06.simplePre, hac, hch, hc, hlen0, hlen1, hmm, hmx, decide_true, Bool.and_self]
  | .unamb c mn mx, hwf, hne, fp, mp => by
    simp only [wfOp, Bool.and_eq_true, decide_eq_true_eq] at hwf
    obtain ⟨⟨hwc, hmm⟩, hmx⟩ := hwf
    simp only [noEmptyAtoms] at hne
    simp only [addPre]
    refine rep_case ml c _ mn fp mp hne (fun hac h1 => ?_) (addPre_simple ml c hwc hne fp mp)
    have hch := simplePreChild_of_noEmpty c hne
    simp only [C06.simplePre, hac, hch, hmm, hmx, decide_true, Bool.and_self]
termination_by structural op => op
theorem addPreSeq_simple (ml : Bool) : (ops : List Op) → wfOps ops = true → noEmptyAtomsL ops = true →
    ∀ (fp : Option Nat) (mp : Nat), ∀ q ∈ addPreSeq ml ops fp mp, C06.simplePre q.op = true
  | [], _, _, fp, mp => by intro q hq; simp only [addPreSeq] at hq; cases hq
  | o :: os, hwf, hne, fp, mp => by
    simp only [wfOps, Bool.and_eq_true] at hwf
    simp only [noEmptyAtomsL, Bool.and_eq_true] at hne
    intro q hq
    rw [PreL.addPreSeq_cons, List.mem_append] at hq
    rcases hq with hq | hq
    · exact addPre_simple ml o hwf.1 hne.1 _ mp q hq
    · exact addPreSeq_simple ml os hwf.2 hne.2 _ _ q hq
termination_by structural ops => ops
end

/-! ### numbering the repeat nodes keeps the shape -/

theorem numberReps_leaf (c : Op) (h : isAtomOrClass c = true) (n : Nat) : (numberReps c n).1 = c := by
  cases c <;> first | rfl | (simp [isAtomOrClass] at h)

theorem simplePre_numberReps (op : Op) (n : Nat) (h : C06.simplePre op = true) :
    C06.simplePre (numberReps op n).1 = true := by
  cases op with
  | atom cs => exact h
  | cls rs => exact h
  | rep id c mn mx g =>
    have hac : isAtomOrClass c = true := by
      simp only [C06.simplePre, Bool.and_eq_true] at h; exact h.1.1.1.1
    simp only [numberReps, numberReps_leaf c hac]
    exact h
  | gfixed c mn mx len =>
    have hac : isAtomOrClass c = true := by
      simp only [C06.simplePre, Bool.and_eq_true] at h; exact h.1.1.1.1.1.1
    simp only [numberReps, numberReps_leaf c hac]
    exact h
  | rfixed c mn mx len =>
    have hac : isAtomOrClass c = true := by
      simp only [C06.simplePre, Bool.and_eq_true] at h; exact h.1.1.1.1.1.1
    simp only [numberReps, numberReps_leaf c hac]
    exact h
  | unamb c mn mx =>
    have hac : isAtomOrClass c = true := by
      simp only [C06.simplePre, Bool.and_eq_true] at h; exact h.1.1.1
    simp only [numberReps, numberReps_leaf c hac]
    exact h
  | _ => simp [C06.simplePre] at h

theorem numberPres_simple : ∀ (ps : List Pre) (n : Nat), (∀ q ∈ ps, C06.simplePre q.op = true) →
    ∀ q ∈ numberPres ps n, C06.simplePre q.op = true := by
  intro ps
  induction ps with
  | nil => intro n _ q hq; simp only [numberPres] at hq; cases hq
  | cons p ps ih =>
    intro n h q hq
    simp only [numberPres, List.mem_cons] at hq
    rcases hq with hq | hq
    · subst hq
      exact simplePre_numberReps _ _ (h p List.mem_cons_self)
    · exact ih _ (fun q' hq' => h q' (List.mem_cons_of_mem _ hq')) q hq

mutual
theorem noEmptyAtoms_numberReps : (op : Op) → ∀ n, noEmptyAtoms (numberReps op n).1 = noEmptyAtoms op
  | .bol, n => by simp only [numberReps]
  | .eol, n => by simp only [numberReps]
  | .nothing, n => by simp only [numberReps]
  | .endProgram, n => by simp only [numberReps]
  | .atom cs, n => by simp only [numberReps]
  | .cls rs, n => by simp only [numberReps]
  | .backref g, n => by simp only [numberReps]
  | .capture g c, n => by simp only [numberReps, noEmptyAtoms]; exact noEmptyAtoms_numberReps c n
  | .choice bs, n => by simp only [numberReps, noEmptyAtoms]; exact noEmptyAtomsL_numberRepsL bs n
  | .seq ops, n => by simp only [numberReps, noEmptyAtoms]; exact noEmptyAtomsL_numberRepsL ops n
  | .rep id c mn mx g, n => by simp only [numberReps, noEmptyAtoms]; exact noEmptyAtoms_numberReps c (n + 1)
  | .gfixed c mn mx len, n => by simp only [numberReps, noEmptyAtoms]; exact noEmptyAtoms_numberReps c n
  | .rfixed c mn mx len, n => by simp only [numberReps, noEmptyAtoms]; exact noEmptyAtoms_numberReps c n
  | .unamb c mn mx, n => by simp only [numberReps, noEmptyAtoms]; exact noEmptyAtoms_numberReps c n
termination_by structural op => op
theorem noEmptyAtomsL_numberRepsL : (ops : List Op) → ∀ n,
    noEmptyAtomsL (numberRepsL ops n).1 = noEmptyAtomsL ops
  | [], n => by simp only [numberRepsL]
  | o :: os, n => by
    simp only [numberRepsL, noEmptyAtomsL]
    rw [noEmptyAtoms_numberReps o n, noEmptyAtomsL_numberRepsL os]
termination_by structural ops => ops
end

/-- every precondition of a program built by `ReProgram::new` from a well-formed tree without
    empty literal is of the simple shape -/
theorem mkProgram_pres_simple (pat : List Nat) (op : Op) (mp : Nat) (fl : CFlags) (hb : Bool)
    (hwf : wfOp op = true) (hne : noEmptyAtoms op = true) :
    ∀ q ∈ (mkProgram pat op mp fl hb).pres, C06.simplePre q.op = true := by
  unfold mkProgram
  simp only
  have hw := WF.wfOp_numberReps op 0
  have hn := noEmptyAtoms_numberReps op 0
  rw [hwf] at hw
  rw [hne] at hn
  generalize numberReps op 0 = r at hw hn
  obtain ⟨op', n'⟩ := r
  simp only at hw hn ⊢
  split
  · rename_i first rest
    have hpres : ∀ q ∈ numberPres (addPre fl.multiLine (.seq (first :: rest)) none 0) n',
        C06.simplePre q.op = true :=
      numberPres_simple _ _ (addPre_simple _ _ hw hn _ _)
    split <;> exact hpres
  · intro q hq; simp at hq

end Rx.ApiL
