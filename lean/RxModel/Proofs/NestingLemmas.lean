/-
  Proofs/NestingLemmas — `AnalyzeIter::compute_nesting_table` (`nestingGo`, the second scanner over
  the pattern text) against the grammar: on the rendering of a well-formed tree it computes the
  syntactic nesting table `tableOf`; and the capture nodes of the compiled tree are nested as that
  table says.
-/
import RxModel.Model.Compile
import RxModel.Model.Api
import RxModel.Spec.Grammar
import RxModel.Proofs.GrammarLemmas
import RxModel.Proofs.GrammarInvLemmas
import RxModel.Proofs.XsdLemmas
import RxModel.Proofs.OptLemmas
import RxModel.Proofs.C03cTree
namespace Rx.Grammar
open Rx
open Rx.C17 (POk)
open Rx.OptL (seqElem optimizeSeq_cons2 seqElem_cases)
set_option linter.unusedSimpArgs false
set_option linter.unusedVariables false

/-! ### the syntactic nesting table -/

/- the table after the tree: `par` = innermost enclosing capturing group (0 at top level),
   `n` = capturing groups opened to the left, `t` = the table so far (latest group first) -/
mutual
def Atom.tbl (par n : Nat) (t : List (Nat × Nat)) : Atom → List (Nat × Nat)
  | .group r => r.tbl (n + 1) (n + 1) ((n + 1, par) :: t)
  | .ncgroup r => r.tbl par n t
  | _ => t
def Branch.tbl (par n : Nat) (t : List (Nat × Nat)) : Branch → List (Nat × Nat)
  | .nil => t
  | .cons a _ b => b.tbl par (n + a.groups) (a.tbl par n t)
def RegExp.tbl (par n : Nat) (t : List (Nat × Nat)) : RegExp → List (Nat × Nat)
  | .one b => b.tbl par n t
  | .alt b r => r.tbl par (n + b.groups) (b.tbl par n t)
end

/-- group number (in the order of the opening parentheses) ↦ number of the innermost enclosing
    capturing group, 0 at top level; the latest group first, as `compute_nesting_table` builds it -/
def tableOf (a : Ast) : List (Nat × Nat) := RegExp.tbl 0 0 [] a

/-! ### one step of the scanner -/

/-- scanner configuration -/
structure NS where
  i : Nat
  stack : List Nat
  capStack : List Bool
  group : Nat
  inBr : Int
  tbl : List (Nat × Nat)

def nrun (pat : List Nat) (f : Nat) (σ : NS) : Option (List (Nat × Nat)) :=
  nestingGo pat pat.length f σ.i σ.stack σ.capStack σ.group σ.inBr σ.tbl

/-- `σ'` is reached from `σ` in at most `L` steps -/
def Adv (pat : List Nat) (σ σ' : NS) (L : Nat) : Prop :=
  ∃ k, k ≤ L ∧ ∀ f, nrun pat (f + k) σ = nrun pat f σ'

theorem Adv.refl (pat : List Nat) (σ : NS) : Adv pat σ σ 0 := ⟨0, Nat.le_refl _, fun _ => rfl⟩

theorem Adv.trans {pat : List Nat} {σ σ' σ'' : NS} {L1 L2 : Nat} (h1 : Adv pat σ σ' L1)
    (h2 : Adv pat σ' σ'' L2) : Adv pat σ σ'' (L1 + L2) := by
  obtain ⟨k1, a1, b1⟩ := h1
  obtain ⟨k2, a2, b2⟩ := h2
  refine ⟨k2 + k1, by omega, fun f => ?_⟩
  rw [← Nat.add_assoc, b1, b2]

theorem Adv.mono {pat : List Nat} {σ σ' : NS} {L L' : Nat} (h : Adv pat σ σ' L) (hl : L ≤ L') :
    Adv pat σ σ' L' := by
  obtain ⟨k, a, b⟩ := h
  exact ⟨k, by omega, b⟩

theorem getElem?_of_drop {pat : List Nat} {i ch : Nat} {tl : List Nat} (h : pat.drop i = ch :: tl) :
    pat[i]? = some ch := by
  have h0 : (pat.drop i)[0]? = some ch := by rw [h]; rfl
  rw [List.getElem?_drop] at h0
  simpa using h0

theorem drop_succ_of_drop {pat : List Nat} {i ch : Nat} {tl : List Nat} (h : pat.drop i = ch :: tl) :
    pat.drop (i + 1) = tl := by
  have : pat.drop (i + 1) = (pat.drop i).drop 1 := by rw [List.drop_drop]
  rw [this, h]; rfl

theorem lt_length_of_drop {pat : List Nat} {i ch : Nat} {tl : List Nat} (h : pat.drop i = ch :: tl) :
    i + tl.length + 1 = pat.length := by
  have := congrArg List.length h
  simp only [List.length_drop, List.length_cons] at this
  omega

theorem nestingGo_succ (pat : List Nat) (plen f i : Nat) (stack : List Nat) (capStack : List Bool)
    (group : Nat) (inBr : Int) (tbl : List (Nat × Nat)) :
    nestingGo pat plen (f + 1) i stack capStack group inBr tbl =
    match pat[i]? with
    | none => some tbl
    | some ch =>
      if ch == 92 then nestingGo pat plen f (i + 2) stack capStack group inBr tbl
      else if ch == 91 then nestingGo pat plen f (i + 1) stack capStack group (inBr + 1) tbl
      else if ch == 93 then nestingGo pat plen f (i + 1) stack capStack group (inBr - 1) tbl
      else if ch == 40 && inBr == 0 then
        match pat[i+1]? with
        | none => none
        | some nx =>
          let capture := nx != 63
          if capStack.length ≥ plen then none else
          if capture then
            if stack.length ≥ plen then none else
            nestingGo pat plen f (i + 1) (group :: stack) (capture :: capStack) (group + 1) inBr
              ((group, stack.headD 0) :: tbl)
          else nestingGo pat plen f (i + 1) stack (capture :: capStack) group inBr tbl
      else if ch == 41 && inBr == 0 then
        match capStack with
        | [] => none
        | cap :: capStack' =>
          if cap then nestingGo pat plen f (i + 1) stack.tail capStack' group inBr tbl
          else nestingGo pat plen f (i + 1) stack capStack' group inBr tbl
      else nestingGo pat plen f (i + 1) stack capStack group inBr tbl := by
  rfl

/-- an ordinary character: not `\`, `[`, `]`, and not a parenthesis outside a class -/
theorem step_ord {pat : List Nat} {σ : NS} {ch : Nat} {tl : List Nat} (h : pat.drop σ.i = ch :: tl)
    (h92 : ch ≠ 92) (h91 : ch ≠ 91) (h93 : ch ≠ 93) (hp : σ.inBr ≠ 0 ∨ (ch ≠ 40 ∧ ch ≠ 41)) :
    Adv pat σ { σ with i := σ.i + 1 } 1 := by
  refine ⟨1, Nat.le_refl _, fun f => ?_⟩
  simp only [nrun]
  rw [nestingGo_succ, getElem?_of_drop h]
  have e : ∀ k : Nat, ch ≠ k → (ch == k) = false := fun k hk => by simpa using hk
  simp only [e 92 h92, e 91 h91, e 93 h93, Bool.false_eq_true, if_false]
  rcases hp with hp | ⟨h40, h41⟩
  · have : (σ.inBr == 0) = false := by simpa using hp
    simp [this]
  · simp [e 40 h40, e 41 h41]

/-- a backslash skips the next character -/
theorem step_esc {pat : List Nat} {σ : NS} {tl : List Nat} (h : pat.drop σ.i = 92 :: tl) :
    Adv pat σ { σ with i := σ.i + 2 } 2 := by
  refine ⟨1, by omega, fun f => ?_⟩
  simp only [nrun]
  rw [nestingGo_succ, getElem?_of_drop h]
  simp

theorem step_lbr {pat : List Nat} {σ : NS} {tl : List Nat} (h : pat.drop σ.i = 91 :: tl) :
    Adv pat σ { σ with i := σ.i + 1, inBr := σ.inBr + 1 } 1 := by
  refine ⟨1, Nat.le_refl _, fun f => ?_⟩
  simp only [nrun]
  rw [nestingGo_succ, getElem?_of_drop h]
  simp

theorem step_rbr {pat : List Nat} {σ : NS} {tl : List Nat} (h : pat.drop σ.i = 93 :: tl) :
    Adv pat σ { σ with i := σ.i + 1, inBr := σ.inBr - 1 } 1 := by
  refine ⟨1, Nat.le_refl _, fun f => ?_⟩
  simp only [nrun]
  rw [nestingGo_succ, getElem?_of_drop h]
  simp

/-- `(` outside a class, not followed by `?`: a capturing group is opened -/
theorem step_open {pat : List Nat} {σ : NS} {nx : Nat} {tl : List Nat}
    (h : pat.drop σ.i = 40 :: nx :: tl) (hb : σ.inBr = 0) (hnx : nx ≠ 63)
    (h1 : σ.capStack.length ≤ σ.i) (h2 : σ.stack.length ≤ σ.i + 1) :
    Adv pat σ { σ with i := σ.i + 1, stack := σ.group :: σ.stack, capStack := true :: σ.capStack,
                       group := σ.group + 1, tbl := (σ.group, σ.stack.headD 0) :: σ.tbl } 1 := by
  refine ⟨1, Nat.le_refl _, fun f => ?_⟩
  have hl := lt_length_of_drop h
  simp only [List.length_cons] at hl
  simp only [nrun]
  rw [nestingGo_succ, getElem?_of_drop h, getElem?_of_drop (drop_succ_of_drop h)]
  have c1 : ¬ σ.capStack.length ≥ pat.length := by omega
  have c2 : ¬ σ.stack.length ≥ pat.length := by omega
  have c3 : (nx != 63) = true := by simpa using hnx
  simp [hb, c1, c2, c3]

/-- `(?`: a non-capturing group is opened -/
theorem step_open_nc {pat : List Nat} {σ : NS} {tl : List Nat}
    (h : pat.drop σ.i = 40 :: 63 :: tl) (hb : σ.inBr = 0) (h1 : σ.capStack.length ≤ σ.i) :
    Adv pat σ { σ with i := σ.i + 1, capStack := false :: σ.capStack } 1 := by
  refine ⟨1, Nat.le_refl _, fun f => ?_⟩
  have hl := lt_length_of_drop h
  simp only [List.length_cons] at hl
  simp only [nrun]
  rw [nestingGo_succ, getElem?_of_drop h, getElem?_of_drop (drop_succ_of_drop h)]
  have c1 : ¬ σ.capStack.length ≥ pat.length := by omega
  simp [hb, c1]

/-- `)` outside a class closes the innermost open group -/
theorem step_close {pat : List Nat} {σ : NS} {tl : List Nat} {cap : Bool} {cs : List Bool}
    (h : pat.drop σ.i = 41 :: tl) (hb : σ.inBr = 0) (hc : σ.capStack = cap :: cs) :
    Adv pat σ { σ with i := σ.i + 1, stack := if cap then σ.stack.tail else σ.stack, capStack := cs } 1 := by
  refine ⟨1, Nat.le_refl _, fun f => ?_⟩
  simp only [nrun]
  rw [nestingGo_succ, getElem?_of_drop h]
  cases cap <;> simp [hb, hc]

/-! ### runs of characters the scanner does not act upon -/

def NS.adv (σ : NS) (k : Nat) : NS := { σ with i := σ.i + k }

@[simp] theorem NS.adv_i (σ : NS) (k : Nat) : (σ.adv k).i = σ.i + k := rfl
@[simp] theorem NS.adv_stack (σ : NS) (k : Nat) : (σ.adv k).stack = σ.stack := rfl
@[simp] theorem NS.adv_capStack (σ : NS) (k : Nat) : (σ.adv k).capStack = σ.capStack := rfl
@[simp] theorem NS.adv_group (σ : NS) (k : Nat) : (σ.adv k).group = σ.group := rfl
@[simp] theorem NS.adv_inBr (σ : NS) (k : Nat) : (σ.adv k).inBr = σ.inBr := rfl
@[simp] theorem NS.adv_tbl (σ : NS) (k : Nat) : (σ.adv k).tbl = σ.tbl := rfl
theorem NS.adv_adv (σ : NS) (a b : Nat) : (σ.adv a).adv b = σ.adv (a + b) := by
  simp only [NS.adv, Nat.add_assoc]
theorem NS.adv_zero (σ : NS) : σ.adv 0 = σ := rfl

theorem Adv.cast {pat : List Nat} {σ : NS} {k1 k2 k' : Nat} (h : Adv pat σ (σ.adv k1) k2)
    (e1 : k1 = k') (e2 : k2 = k') : Adv pat σ (σ.adv k') k' := by subst e1; subst e2; exact h

/-- a character the scanner passes over: not `\`, `[`, `]`; outside a class not `(`, `)` -/
def ordB (outside : Bool) (x : Nat) : Bool :=
  x != 92 && x != 91 && x != 93 && (!outside || (x != 40 && x != 41))

theorem ord_run {pat : List Nat} : ∀ (X : List Nat) (σ : NS) (rest : List Nat),
    pat.drop σ.i = X ++ rest → X.all (ordB (decide (σ.inBr = 0))) = true →
    Adv pat σ (σ.adv X.length) X.length := by
  intro X
  induction X with
  | nil => intro σ rest _ _; exact Adv.refl pat σ
  | cons x xs ih =>
    intro σ rest h hall
    simp only [List.all_cons, Bool.and_eq_true] at hall
    obtain ⟨hx, hxs⟩ := hall
    simp only [ordB, Bool.and_eq_true, bne_iff_ne, ne_eq, Bool.or_eq_true, Bool.not_eq_true',
      decide_eq_false_iff_not] at hx
    obtain ⟨⟨⟨h92, h91⟩, h93⟩, hp⟩ := hx
    have s1 := step_ord (σ := σ) (by simpa using h) h92 h91 h93 hp
    have h' : pat.drop (σ.adv 1).i = xs ++ rest := drop_succ_of_drop (by simpa using h)
    have s2 := ih (σ.adv 1) rest h' hxs
    have := Adv.trans s1 s2
    rw [NS.adv_adv] at this
    simpa [Nat.add_comm] using this

/-! ### character classes -/

/-- a character of a category / block name that the scanner passes over anywhere -/
def plainNameChar (x : Nat) : Bool := x != 92 && x != 91 && x != 93 && x != 40 && x != 41

/-- the names the environment knows contain no `\ [ ] ( )` (true of the Unicode names) -/
def EnvNamesPlain (env : Env) : Prop :=
  ∀ name, (C09.propLookup env name).isSome = true → name.all plainNameChar = true

theorem drop_add {pat : List Nat} {i : Nat} {l1 l2 : List Nat} (h : pat.drop i = l1 ++ l2) :
    pat.drop (i + l1.length) = l2 := by
  rw [← List.drop_drop, h, List.drop_left]

/-- `\p{name}` / `\P{name}` anywhere -/
theorem prop_run {pat : List Nat} {env : Env} (henv : EnvNamesPlain env) {σ : NS} {pos : Bool}
    {name rest : List Nat}
    (h : pat.drop σ.i = 92 :: (if pos then 112 else 80) :: 123 :: (name ++ [125]) ++ rest)
    (hl : (C09.propLookup env name).isSome = true) :
    Adv pat σ (σ.adv (name.length + 4)) (name.length + 4) := by
  have s1 := step_esc (σ := σ) (by simpa using h)
  have h2 : pat.drop (σ.adv 2).i = (123 :: (name ++ [125])) ++ rest := by
    have := drop_add (l1 := [92, if pos then 112 else 80]) (by simpa using h)
    simpa using this
  have hall : (123 :: (name ++ [125])).all (ordB (decide ((σ.adv 2).inBr = 0))) = true := by
    have hn := henv name hl
    simp only [List.all_cons, List.all_append, List.all_nil, Bool.and_true, Bool.and_eq_true]
    refine ⟨by cases decide ((σ.adv 2).inBr = 0) <;> rfl, ?_, by cases decide ((σ.adv 2).inBr = 0) <;> rfl⟩
    rw [List.all_eq_true] at hn ⊢
    intro x hx
    have := hn x hx
    simp only [plainNameChar, Bool.and_eq_true] at this
    simp only [ordB, this.1.1.1.1, this.1.1.1.2, this.1.1.2, this.1.2, this.2, Bool.and_self,
      Bool.or_true]
  have s2 := ord_run _ (σ.adv 2) rest h2 hall
  have := Adv.trans s1 s2
  rw [NS.adv_adv] at this
  have e : 2 + (123 :: (name ++ [125])).length = name.length + 4 := by simp; omega
  rw [e] at this
  exact this

theorem single_run {pat : List Nat} {xsd : Bool} {σ : NS} (hb : σ.inBr ≠ 0) {a : C09.Single}
    {rest : List Nat} (h : pat.drop σ.i = a.render ++ rest) (ha : a.ok xsd = true) :
    Adv pat σ (σ.adv a.render.length) a.render.length := by
  cases a with
  | plain x =>
    simp only [C09.Single.ok, C09.plainC, Bool.not_eq_true', Bool.or_eq_false_iff,
      beq_eq_false_iff_ne, ne_eq] at ha
    exact step_ord (σ := σ) (by simpa [C09.Single.render] using h) ha.1.1.1 ha.1.1.2 ha.1.2 (.inl hb)
  | esc e => exact step_esc (σ := σ) (by simpa [C09.Single.render] using h)

theorem item_run {pat : List Nat} {xsd : Bool} {env : Env} (henv : EnvNamesPlain env) {σ : NS}
    (hb : σ.inBr ≠ 0) {it : C09.Item} {rest : List Nat} (h : pat.drop σ.i = it.render ++ rest)
    (hok : it.ok xsd env = true) : Adv pat σ (σ.adv it.render.length) it.render.length := by
  cases it with
  | one a =>
    simp only [C09.Item.ok, Bool.and_eq_true] at hok
    exact single_run hb (by simpa [C09.Item.render] using h) hok.1
  | range a b =>
    simp only [C09.Item.ok, Bool.and_eq_true] at hok
    simp only [C09.Item.render, List.append_assoc, List.cons_append] at h
    have s1 := single_run hb h hok.1.1.1
    have h2 := drop_add h
    have s2 := step_ord (σ := σ.adv a.render.length) (ch := 45) h2 (by decide) (by decide) (by decide)
      (.inl hb)
    have h3 : pat.drop ((σ.adv a.render.length).adv 1).i = b.render ++ rest := drop_succ_of_drop h2
    have s3 := single_run (σ := (σ.adv a.render.length).adv 1) hb h3 hok.1.1.2
    have := Adv.trans s1 (Adv.trans s2 s3)
    simp only [NS.adv_adv] at this
    exact Adv.cast this (by simp [C09.Item.render]; omega) (by simp [C09.Item.render]; omega)
  | hyphen =>
    exact step_ord (σ := σ) (ch := 45) (by simpa [C09.Item.render] using h) (by decide) (by decide)
      (by decide) (.inl hb)
  | cls e => exact step_esc (σ := σ) (by simpa [C09.Item.render] using h)
  | prop pos name =>
    simp only [C09.Item.ok, Bool.and_eq_true] at hok
    have := prop_run henv (σ := σ) (pos := pos) (name := name) (rest := rest)
      (by simpa [C09.Item.render] using h) hok.2
    exact Adv.cast this (by simp [C09.Item.render]) (by simp [C09.Item.render])

theorem items_run {pat : List Nat} {xsd : Bool} {env : Env} (henv : EnvNamesPlain env) :
    ∀ (items : List C09.Item) (σ : NS) (rest : List Nat), σ.inBr ≠ 0 →
    pat.drop σ.i = C09.renderAll items ++ rest → C09.itemsOk xsd env items = true →
    Adv pat σ (σ.adv (C09.renderAll items).length) (C09.renderAll items).length := by
  intro items
  induction items with
  | nil => intro σ rest _ _ _; exact Adv.refl pat σ
  | cons it more ih =>
    intro σ rest hb h hok
    simp only [C09.itemsOk, Bool.and_eq_true] at hok
    simp only [C09.renderAll, List.append_assoc] at h
    have s1 := item_run henv hb h hok.1.1
    have s2 := ih (σ.adv it.render.length) rest hb (drop_add h) hok.2
    have := Adv.trans s1 s2
    rw [NS.adv_adv] at this
    simpa [C09.renderAll] using this

/-- the same configuration one bracket level deeper -/
def NS.deeper (σ : NS) : NS := { σ with inBr := σ.inBr + 1 }

theorem Adv.to {pat : List Nat} {σ σ1 σ2 : NS} {L : Nat} (h : Adv pat σ σ1 L) (e : σ1 = σ2) :
    Adv pat σ σ2 L := e ▸ h

/-- optional `^`, the members, and what follows them up to the closing `]` are passed over one level
    deeper; the closing `]` restores the level -/
theorem cexpr_run {pat : List Nat} {xsd : Bool} {env : Env} (henv : EnvNamesPlain env) :
    ∀ (e : C09.CExpr) (σ : NS) (rest : List Nat), 0 ≤ σ.inBr →
    pat.drop σ.i = e.render ++ rest → e.ok xsd env = true →
    Adv pat σ (σ.adv e.render.length) e.render.length := by
  intro e
  induction e with
  | leaf neg items =>
    intro σ rest hd h hok
    simp only [C09.CExpr.ok, C09.headOk, Bool.and_eq_true] at hok
    have hdeep : σ.deeper.inBr ≠ 0 := by simp only [NS.deeper]; omega
    simp only [C09.CExpr.render, List.cons_append, List.append_assoc] at h
    have s1 := (step_lbr (σ := σ) h).to (σ2 := σ.deeper.adv 1) rfl
    have h1 : pat.drop (σ.deeper.adv 1).i = (if neg then [94] else []) ++ (C09.renderAll items ++ ([93] ++ rest)) :=
      drop_succ_of_drop h
    have s2 : Adv pat (σ.deeper.adv 1) ((σ.deeper.adv 1).adv (if neg then [94] else []).length)
        (if neg then [94] else []).length := by
      apply ord_run _ _ _ h1
      cases neg
      · rfl
      · simp only [if_true, List.all_cons, List.all_nil, Bool.and_true, ordB]
        have : decide ((σ.deeper.adv 1).inBr = 0) = false := decide_eq_false hdeep
        rw [this]; rfl
    have h2 := drop_add h1
    have s3 := items_run henv items ((σ.deeper.adv 1).adv (if neg then [94] else []).length) _
      hdeep h2 hok.1.2
    have h3 := drop_add h2
    have s4 := step_rbr (σ := ((σ.deeper.adv 1).adv (if neg then [94] else []).length).adv
      (C09.renderAll items).length) (by simpa using h3)
    refine (Adv.trans s1 (Adv.trans s2 (Adv.trans s3 s4))).to ?_ |>.mono ?_
    · simp only [NS.adv, NS.deeper, C09.CExpr.render, List.length_cons, List.length_append,
        List.length_nil]
      congr 1
      · omega
      · omega
    · simp only [C09.CExpr.render, List.length_cons, List.length_append, List.length_nil]; omega
  | minus neg items sub ih =>
    intro σ rest hd h hok
    simp only [C09.CExpr.ok, C09.headOk, Bool.and_eq_true] at hok
    have hdeep : σ.deeper.inBr ≠ 0 := by simp only [NS.deeper]; omega
    simp only [C09.CExpr.render, List.cons_append, List.append_assoc] at h
    have s1 := (step_lbr (σ := σ) h).to (σ2 := σ.deeper.adv 1) rfl
    have h1 : pat.drop (σ.deeper.adv 1).i = (if neg then [94] else []) ++
        (C09.renderAll items ++ (45 :: (sub.render ++ ([93] ++ rest)))) := drop_succ_of_drop h
    have s2 : Adv pat (σ.deeper.adv 1) ((σ.deeper.adv 1).adv (if neg then [94] else []).length)
        (if neg then [94] else []).length := by
      apply ord_run _ _ _ h1
      cases neg
      · rfl
      · simp only [if_true, List.all_cons, List.all_nil, Bool.and_true, ordB]
        have : decide ((σ.deeper.adv 1).inBr = 0) = false := decide_eq_false hdeep
        rw [this]; rfl
    have h2 := drop_add h1
    have s3 := items_run henv items ((σ.deeper.adv 1).adv (if neg then [94] else []).length) _
      hdeep h2 hok.1.1.2
    have h3 := drop_add h2
    have s4 := step_ord (σ := ((σ.deeper.adv 1).adv (if neg then [94] else []).length).adv
      (C09.renderAll items).length) (ch := 45) h3 (by decide) (by decide) (by decide) (.inl hdeep)
    have h4 := drop_succ_of_drop h3
    have s5 := ih ((((σ.deeper.adv 1).adv (if neg then [94] else []).length).adv
      (C09.renderAll items).length).adv 1) _ (by simp only [NS.adv, NS.deeper]; omega) h4 hok.2
    have h5 := drop_add h4
    have s6 := step_rbr (σ := ((((σ.deeper.adv 1).adv (if neg then [94] else []).length).adv
      (C09.renderAll items).length).adv 1).adv sub.render.length) (by simpa using h5)
    refine (Adv.trans s1 (Adv.trans s2 (Adv.trans s3 (Adv.trans s4 (Adv.trans s5 s6))))).to ?_ |>.mono ?_
    · simp only [NS.adv, NS.deeper, C09.CExpr.render, List.length_cons, List.length_append,
        List.length_nil]
      congr 1
      · omega
      · omega
    · simp only [C09.CExpr.render, List.length_cons, List.length_append, List.length_nil]; omega

/-! ### atoms, branches, regExps -/

/-- the scanner is outside a class, `par` is the innermost open capturing group, `n` groups have
    been opened; the two stacks are shorter than the text read so far -/
structure Cfg (σ : NS) (par : Nat) (st : List Nat) (n : Nat) : Prop where
  inBr : σ.inBr = 0
  stack : σ.stack = par :: st
  group : σ.group = n + 1
  cap_le : σ.capStack.length ≤ σ.i
  stack_le : σ.stack.length ≤ σ.i + 1

/-- `k` characters on, `g` more groups opened, table `t` -/
def NS.after (σ : NS) (k g : Nat) (t : List (Nat × Nat)) : NS :=
  { σ with i := σ.i + k, group := σ.group + g, tbl := t }

theorem Cfg.after {σ : NS} {par : Nat} {st : List Nat} {n : Nat} (h : Cfg σ par st n) (k g : Nat)
    (t : List (Nat × Nat)) : Cfg (σ.after k g t) par st (n + g) :=
  ⟨h.inBr, h.stack, by simp only [NS.after, h.group]; omega,
   by simp only [NS.after]; have := h.cap_le; omega, by simp only [NS.after]; have := h.stack_le; omega⟩

theorem adv_eq_after (σ : NS) (k : Nat) : σ.adv k = σ.after k 0 σ.tbl := rfl

theorem after_after (σ : NS) (k1 g1 k2 g2 : Nat) (t1 t2 : List (Nat × Nat)) :
    (σ.after k1 g1 t1).after k2 g2 t2 = σ.after (k1 + k2) (g1 + g2) t2 := by
  simp only [NS.after, Nat.add_assoc]

theorem isDigit_ord {b : Bool} {d : Nat} (h : isDigit d = true) : ordB b d = true := by
  simp only [isDigit, Bool.and_eq_true, decide_eq_true_eq] at h
  have e : ∀ k : Nat, d ≠ k → (d != k) = true := fun k hk => by simpa using hk
  simp only [ordB, e 92 (by omega), e 91 (by omega), e 93 (by omega), e 40 (by omega), e 41 (by omega),
    Bool.and_self, Bool.or_true]

theorem all_digits_ord {b : Bool} {ds : List Nat} (h : ds.all isDigit = true) :
    ds.all (ordB b) = true := by
  rw [List.all_eq_true] at h ⊢
  exact fun x hx => isDigit_ord (h x hx)

theorem numeral_digits {ds : List Nat} (h : numeral ds = true) : ds.all isDigit = true := by
  simp only [numeral, Bool.and_eq_true] at h; exact h.2

theorem quant_ord {b : Bool} {q : Quant} (h : q.kind.ok = true) : q.render.all (ordB b) = true := by
  obtain ⟨k, r⟩ := q
  have hr : (if r then [63] else ([] : List Nat)).all (ordB b) = true := by
    cases r <;> cases b <;> rfl
  simp only [Quant.render, List.all_append, hr, Bool.and_true]
  cases k with
  | opt => cases b <;> rfl
  | star => cases b <;> rfl
  | plus => cases b <;> rfl
  | exact n =>
    simp only [QKind.ok] at h
    simp only [QKind.render, List.all_cons, List.all_append, all_digits_ord (numeral_digits h),
      List.all_nil, Bool.and_true, Bool.true_and]
    cases b <;> rfl
  | atLeast n =>
    simp only [QKind.ok] at h
    simp only [QKind.render, List.all_cons, List.all_append, all_digits_ord (numeral_digits h),
      List.all_nil, Bool.and_true, Bool.true_and]
    cases b <;> rfl
  | range n m =>
    simp only [QKind.ok, Bool.and_eq_true] at h
    simp only [QKind.render, List.all_cons, List.all_append, all_digits_ord (numeral_digits h.1.1),
      all_digits_ord (numeral_digits h.1.2), List.all_nil, Bool.and_true, Bool.true_and]
    cases b <;> rfl

theorem qrender_run {pat : List Nat} {xsd : Bool} {σ : NS} {q : Option Quant} {rest : List Nat}
    (h : pat.drop σ.i = qRender q ++ rest) (hq : qOk xsd q = true) :
    Adv pat σ (σ.adv (qRender q).length) (qRender q).length := by
  cases q with
  | none => exact Adv.refl pat σ
  | some qq =>
    simp only [qOk, Quant.ok, Bool.and_eq_true] at hq
    exact ord_run _ σ rest h (quant_ord hq.1)

/-- after `(` of a capturing group -/
def NS.openCap (σ : NS) : NS :=
  { i := σ.i + 1, stack := σ.group :: σ.stack, capStack := true :: σ.capStack, group := σ.group + 1,
    inBr := σ.inBr, tbl := (σ.group, σ.stack.headD 0) :: σ.tbl }

/-- after `(` of `(?:` -/
def NS.openNc (σ : NS) : NS :=
  { i := σ.i + 1, stack := σ.stack, capStack := false :: σ.capStack, group := σ.group,
    inBr := σ.inBr, tbl := σ.tbl }

theorem Adv.after {pat : List Nat} {σ : NS} {k : Nat} (h : Adv pat σ (σ.adv k) k) {k' : Nat}
    (e : k = k') : Adv pat σ (σ.after k' 0 σ.tbl) k' := by subst e; exact h

theorem normal_ord {xsd : Bool} {x : Nat} (h : normalChar xsd x = true) : ordB true x = true := by
  simp only [normalChar, Bool.and_eq_true, Bool.not_eq_true', Bool.or_eq_false_iff,
    beq_eq_false_iff_ne, ne_eq] at h
  have e : ∀ k : Nat, x ≠ k → (x != k) = true := fun k hk => by simpa using hk
  simp only [ordB, e 92 (by omega), e 91 (by omega), e 93 (by omega), e 40 (by omega), e 41 (by omega),
    Bool.and_self, Bool.not_true, Bool.false_or]

mutual
/-- the scanner over a well-formed atom: it ends right after it, with the groups of the atom
    entered into the table under their syntactic parents -/
theorem atom_run {pat : List Nat} {xsd : Bool} {env : Env} (henv : EnvNamesPlain env) :
    (a : Atom) → ∀ (σ : NS) (par : Nat) (st : List Nat) (n : Nat) (cl rest : List Nat),
    Cfg σ par st n → a.ok xsd env n cl = true → pat.drop σ.i = a.render ++ rest →
    Adv pat σ (σ.after a.render.length a.groups (a.tbl par n σ.tbl)) a.render.length
  | .chr x, σ, par, st, n, cl, rest, hc, hok, h => by
    have hn : normalChar xsd x = true := by simpa [Atom.ok] using hok
    have hb : decide (σ.inBr = 0) = true := by simp [hc.inBr]
    have := ord_run [x] σ rest (by simpa [Atom.render] using h) (by simp [hb, normal_ord hn])
    exact this
  | .dot, σ, par, st, n, cl, rest, hc, hok, h =>
    ord_run [46] σ rest (by simpa [Atom.render] using h) (by cases decide (σ.inBr = 0) <;> rfl)
  | .bol, σ, par, st, n, cl, rest, hc, hok, h =>
    ord_run [94] σ rest (by simpa [Atom.render] using h) (by cases decide (σ.inBr = 0) <;> rfl)
  | .eol, σ, par, st, n, cl, rest, hc, hok, h =>
    ord_run [36] σ rest (by simpa [Atom.render] using h) (by cases decide (σ.inBr = 0) <;> rfl)
  | .esc e, σ, par, st, n, cl, rest, hc, hok, h =>
    step_esc (σ := σ) (by simpa [Atom.render] using h)
  | .clsEsc e, σ, par, st, n, cl, rest, hc, hok, h =>
    step_esc (σ := σ) (by simpa [Atom.render] using h)
  | .prop pos name, σ, par, st, n, cl, rest, hc, hok, h => by
    simp only [Atom.ok, Bool.and_eq_true] at hok
    have := prop_run henv (σ := σ) (pos := pos) (name := name) (rest := rest)
      (by simpa [Atom.render] using h) hok.2
    exact this.after (by simp [Atom.render])
  | .backref ds, σ, par, st, n, cl, rest, hc, hok, h => by
    simp only [Atom.ok, Bool.and_eq_true] at hok
    obtain ⟨⟨⟨_, hnum⟩, _⟩, _⟩ := hok
    cases ds with
    | nil => simp [backrefNumeral] at hnum
    | cons d more =>
      simp only [backrefNumeral, List.all_cons, Bool.and_eq_true] at hnum
      simp only [Atom.render, List.cons_append] at h
      have s1 := step_esc (σ := σ) h
      have h2 : pat.drop (σ.adv 2).i = more ++ rest := by
        have := drop_add (l1 := [92, d]) (l2 := more ++ rest) (by simpa using h)
        simpa using this
      have s2 := ord_run more (σ.adv 2) rest h2 (all_digits_ord hnum.1.2)
      have := Adv.trans s1 s2
      rw [NS.adv_adv] at this
      exact this.after (by simp [Atom.render]; omega)
  | .cls e, σ, par, st, n, cl, rest, hc, hok, h => by
    simp only [Atom.ok] at hok
    exact cexpr_run henv e σ rest (by rw [hc.inBr]; exact Int.le_refl 0) (by simpa [Atom.render] using h) hok
  | .group r, σ, par, st, n, cl, rest, hc, hok, h => by
    simp only [Atom.ok] at hok
    simp only [Atom.render, List.cons_append, List.append_assoc, List.nil_append] at h
    have hne : (r.render ++ 41 :: rest).head? ≠ some 63 :=
      RegExp.head_ne hok (rest := 41 :: rest) (.inr ⟨rest, rfl⟩)
    obtain ⟨nx, tl, hnx⟩ : ∃ nx tl, r.render ++ 41 :: rest = nx :: tl := by
      cases hr : r.render ++ 41 :: rest with
      | nil => simp at hr
      | cons nx tl => exact ⟨nx, tl, rfl⟩
    have hnx63 : nx ≠ 63 := by
      intro e; apply hne; rw [hnx, e]; rfl
    have s1 : Adv pat σ σ.openCap 1 :=
      step_open (σ := σ) (nx := nx) (tl := tl) (by rw [h, hnx]) hc.inBr hnx63 hc.cap_le hc.stack_le
    have hc1 : Cfg σ.openCap (n + 1) (par :: st) (n + 1) :=
      ⟨hc.inBr, by simp only [NS.openCap, hc.group, hc.stack], by simp only [NS.openCap, hc.group],
       by simp only [NS.openCap, List.length_cons]; have := hc.cap_le; omega,
       by simp only [NS.openCap, List.length_cons]; have := hc.stack_le; omega⟩
    have h1 : pat.drop σ.openCap.i = r.render ++ 41 :: rest := drop_succ_of_drop h
    have s2 := regexp_run henv r σ.openCap (n + 1) (par :: st) (n + 1) cl (41 :: rest) hc1 hok h1
    have h3 := drop_add h1
    have s3 := step_close (pat := pat)
      (σ := σ.openCap.after r.render.length r.groups (r.tbl (n + 1) (n + 1) σ.openCap.tbl))
      (tl := rest) (cap := true) (cs := σ.capStack) h3 hc.inBr rfl
    refine (Adv.trans s1 (Adv.trans s2 s3)).to ?_ |>.mono ?_
    · simp only [NS.after, NS.openCap, if_true, List.tail_cons, Atom.render, Atom.groups, Atom.tbl,
        List.length_cons, List.length_append, List.length_nil, hc.group, hc.stack, List.headD_cons]
      congr 1 <;> omega
    · simp only [Atom.render, List.length_cons, List.length_append, List.length_nil]; omega
  | .ncgroup r, σ, par, st, n, cl, rest, hc, hok, h => by
    simp only [Atom.ok, Bool.and_eq_true] at hok
    simp only [Atom.render, List.cons_append, List.append_assoc, List.nil_append] at h
    have s1 : Adv pat σ σ.openNc 1 := step_open_nc (σ := σ) h hc.inBr hc.cap_le
    have h1 : pat.drop σ.openNc.i = [63, 58] ++ (r.render ++ 41 :: rest) := drop_succ_of_drop h
    have s2 := ord_run [63, 58] σ.openNc (r.render ++ 41 :: rest) h1
      (by have : decide (σ.openNc.inBr = 0) = true := by simp [NS.openNc, hc.inBr]
          rw [this]; decide)
    have hc1 : Cfg (σ.openNc.adv [63, 58].length) par st n :=
      ⟨hc.inBr, hc.stack, hc.group,
       by simp only [NS.adv, NS.openNc, List.length_cons, List.length_nil]; have := hc.cap_le; omega,
       by simp only [NS.adv, NS.openNc, List.length_cons, List.length_nil]; have := hc.stack_le; omega⟩
    have h2 : pat.drop (σ.openNc.adv [63, 58].length).i = r.render ++ 41 :: rest := drop_add h1
    have s3 := regexp_run henv r _ par st n cl (41 :: rest) hc1 hok.2 h2
    have h3 := drop_add h2
    have s4 := step_close (pat := pat)
      (σ := (σ.openNc.adv [63, 58].length).after r.render.length r.groups (r.tbl par n σ.tbl))
      (tl := rest) (cap := false) (cs := σ.capStack) h3 hc.inBr rfl
    refine (Adv.trans s1 (Adv.trans s2 (Adv.trans s3 s4))).to ?_ |>.mono ?_
    · simp only [NS.after, NS.adv, NS.openNc, Bool.false_eq_true, if_false, Atom.render, Atom.groups,
        Atom.tbl, List.length_cons, List.length_append, List.length_nil]
      congr 1
      omega
    · simp only [Atom.render, List.length_cons, List.length_append, List.length_nil]; omega
termination_by structural a => a
theorem branch_run {pat : List Nat} {xsd : Bool} {env : Env} (henv : EnvNamesPlain env) :
    (b : Branch) → ∀ (σ : NS) (par : Nat) (st : List Nat) (n : Nat) (cl rest : List Nat),
    Cfg σ par st n → b.ok xsd env n cl = true → pat.drop σ.i = b.render ++ rest →
    Adv pat σ (σ.after b.render.length b.groups (b.tbl par n σ.tbl)) b.render.length
  | .nil, σ, par, st, n, cl, rest, hc, hok, h => Adv.refl pat σ
  | .cons a q b, σ, par, st, n, cl, rest, hc, hok, h => by
    simp only [Branch.ok, Bool.and_eq_true] at hok
    simp only [Branch.render, List.append_assoc] at h
    have s1 := atom_run henv a σ par st n cl _ hc hok.1.1.1 h
    have h1 := drop_add h
    have s2 := qrender_run (σ := σ.after a.render.length a.groups (a.tbl par n σ.tbl)) h1 hok.1.1.2
    have hc2 : Cfg ((σ.after a.render.length a.groups (a.tbl par n σ.tbl)).adv (qRender q).length)
        par st (n + a.groups) := by
      rw [adv_eq_after, after_after]
      exact hc.after _ _ _
    have h2 := drop_add h1
    have s3 := branch_run henv b _ par st (n + a.groups) _ rest hc2 hok.2 h2
    refine (Adv.trans s1 (Adv.trans s2 s3)).to ?_ |>.mono ?_
    · simp only [NS.after, NS.adv, Branch.render, Branch.groups, Branch.tbl, List.length_append]
      congr 1 <;> omega
    · simp only [Branch.render, List.length_append]; omega
termination_by structural b => b
theorem regexp_run {pat : List Nat} {xsd : Bool} {env : Env} (henv : EnvNamesPlain env) :
    (r : RegExp) → ∀ (σ : NS) (par : Nat) (st : List Nat) (n : Nat) (cl rest : List Nat),
    Cfg σ par st n → r.ok xsd env n cl = true → pat.drop σ.i = r.render ++ rest →
    Adv pat σ (σ.after r.render.length r.groups (r.tbl par n σ.tbl)) r.render.length
  | .one b, σ, par, st, n, cl, rest, hc, hok, h => by
    simp only [RegExp.ok] at hok
    simpa [RegExp.render, RegExp.groups, RegExp.tbl] using
      branch_run henv b σ par st n cl rest hc hok (by simpa [RegExp.render] using h)
  | .alt b r, σ, par, st, n, cl, rest, hc, hok, h => by
    simp only [RegExp.ok, Bool.and_eq_true] at hok
    simp only [RegExp.render, List.append_assoc, List.cons_append] at h
    have s1 := branch_run henv b σ par st n cl _ hc hok.1 h
    have h1 := drop_add h
    have s2 := step_ord (σ := σ.after b.render.length b.groups (b.tbl par n σ.tbl)) (ch := 124) h1
      (by decide) (by decide) (by decide) (.inr ⟨by decide, by decide⟩)
    have hc2 : Cfg (NS.adv (σ.after b.render.length b.groups (b.tbl par n σ.tbl)) 1) par st
        (n + b.groups) := by
      rw [adv_eq_after, after_after]
      exact hc.after _ _ _
    have s3 := regexp_run henv r _ par st (n + b.groups) _ rest hc2 hok.2 (drop_succ_of_drop h1)
    refine (Adv.trans s1 (Adv.trans s2 s3)).to ?_ |>.mono ?_
    · simp only [NS.after, NS.adv, RegExp.render, RegExp.groups, RegExp.tbl, List.length_append,
        List.length_cons]
      congr 1 <;> omega
    · simp only [RegExp.render, List.length_append, List.length_cons]; omega
termination_by structural r => r
end

/-- the scanner on the rendering of a well-formed tree computes the syntactic table -/
theorem nestingTable_render {xsd : Bool} {env : Env} (henv : EnvNamesPlain env) (a : Ast)
    (hok : RegExp.ok xsd env 0 [] a = true) : nestingTable a.render = some (tableOf a) := by
  have hc : Cfg ⟨0, [0], [], 1, 0, []⟩ 0 [] 0 := ⟨rfl, rfl, rfl, Nat.le_refl _, Nat.le_refl _⟩
  obtain ⟨k, hk, hrun⟩ := regexp_run (pat := a.render) henv a ⟨0, [0], [], 1, 0, []⟩ 0 [] 0 [] [] hc hok
    (by simp)
  have := hrun (a.render.length - k)
  unfold nestingTable
  rw [show a.render.length + 1 = (a.render.length - k + 1) + k by omega]
  have h2 := hrun (a.render.length - k + 1)
  simp only [nrun] at h2
  rw [h2]
  simp only [NS.after, Nat.zero_add]
  rw [nestingGo_succ]
  have : (RegExp.render a)[(RegExp.render a).length]? = none := by simp
  rw [this]
  rfl

/-! ### the table against the compiled tree -/

/- the table answers, for EVERY capture node of the tree (also below alternations and repeats, which
   do not change the enclosing group), the group that encloses it -/
mutual
def tblD (T : List (Nat × Nat)) : Op → Nat → Bool
  | .capture g c, par => (lookupNat T g == some par) && tblD T c g
  | .seq ops, par => tblDL T ops par
  | .choice bs, par => tblDL T bs par
  | .rep _ c _ _ _, par => tblD T c par
  | .gfixed c _ _ _, par => tblD T c par
  | .rfixed c _ _ _, par => tblD T c par
  | .unamb c _ _, par => tblD T c par
  | _, _ => true
termination_by structural o => o
def tblDL (T : List (Nat × Nat)) : List Op → Nat → Bool
  | [], _ => true
  | o :: os, par => tblD T o par && tblDL T os par
termination_by structural l => l
end

mutual
theorem tblOK_of_tblD (T : List (Nat × Nat)) : ∀ (op : Op) (par : Nat), tblD T op par = true →
    tblOK T op par = true
  | .capture g c, par, h => by
    simp only [tblD, Bool.and_eq_true] at h
    simp only [tblOK, Bool.and_eq_true]
    exact ⟨h.1, tblOK_of_tblD T c g h.2⟩
  | .seq ops, par, h => by
    simp only [tblD] at h
    simp only [tblOK]
    exact tblOKL_of_tblDL T ops par h
  | .bol, _, _ | .eol, _, _ | .nothing, _, _ | .endProgram, _, _ | .atom _, _, _ | .cls _, _, _
  | .backref _, _, _ | .choice _, _, _ | .rep _ _ _ _ _, _, _ | .gfixed _ _ _ _, _, _
  | .rfixed _ _ _ _, _, _ | .unamb _ _ _, _, _ => by simp only [tblOK]
termination_by structural op => op
theorem tblOKL_of_tblDL (T : List (Nat × Nat)) : ∀ (l : List Op) (par : Nat), tblDL T l par = true →
    tblOKL T l par = true
  | [], _, _ => by simp only [tblOKL]
  | o :: os, par, h => by
    simp only [tblDL, Bool.and_eq_true] at h
    simp only [tblOKL, Bool.and_eq_true]
    exact ⟨tblOK_of_tblD T o par h.1, tblOKL_of_tblDL T os par h.2⟩
termination_by structural l => l
end

theorem tblDL_append (T : List (Nat × Nat)) (l1 l2 : List Op) (par : Nat) :
    tblDL T (l1 ++ l2) par = (tblDL T l1 par && tblDL T l2 par) := by
  induction l1 with
  | nil => simp [tblDL]
  | cons o os ih => simp only [List.cons_append, tblDL, ih, Bool.and_assoc]

mutual
/-- `optimize` may drop or unwrap sub-trees but never re-parents a capture -/
theorem tblD_optimize (env : Env) (fl : CFlags) (T : List (Nat × Nat)) : ∀ (op : Op) (par : Nat),
    tblD T op par = true → tblD T (optimize env fl op) par = true
  | .bol, _, h | .eol, _, h | .nothing, _, h | .endProgram, _, h => by simp only [optimize]; exact h
  | .atom _, _, h | .cls _, _, h | .backref _, _, h => by simp only [optimize]; exact h
  | .capture g x, par, h => by
    simp only [tblD, Bool.and_eq_true] at h
    simp only [optimize, tblD, Bool.and_eq_true]
    exact ⟨h.1, tblD_optimize env fl T x g h.2⟩
  | .choice bs, par, h => by
    simp only [tblD] at h
    simp only [optimize, tblD]
    exact tblDL_optimizeL env fl T bs par h
  | .seq ops, par, h => by
    simp only [tblD] at h
    have ih := tblDL_optimizeSeq env fl T ops par h
    cases ops with
    | nil => simp only [optimize, tblD]
    | cons o t =>
      cases t with
      | nil =>
        simp only [tblDL, Bool.and_true] at h
        simp only [optimize]; exact h
      | cons o2 os => simp only [optimize, tblD]; exact ih
  | .rep _ x mn mx _, par, h => by
    simp only [tblD] at h
    simp only [optimize, tblD]
    exact tblD_optimize env fl T x par h
  | .gfixed x mn mx len, par, h => by
    simp only [tblD] at h
    simp only [optimize]
    split
    · simp only [tblD]
    · split
      · exact h
      · simp only [tblD]; exact tblD_optimize env fl T x par h
  | .rfixed x mn mx len, par, h => by
    simp only [tblD] at h
    simp only [optimize, tblD]
    exact tblD_optimize env fl T x par h
  | .unamb x mn mx, par, h => by
    simp only [tblD] at h
    simp only [optimize, tblD]
    exact tblD_optimize env fl T x par h
termination_by structural op => op
theorem tblDL_optimizeL (env : Env) (fl : CFlags) (T : List (Nat × Nat)) : ∀ (l : List Op) (par : Nat),
    tblDL T l par = true → tblDL T (optimizeL env fl l) par = true
  | [], _, _ => by simp only [optimizeL, tblDL]
  | o :: os, par, h => by
    simp only [tblDL, Bool.and_eq_true] at h
    simp only [optimizeL, tblDL, Bool.and_eq_true]
    exact ⟨tblD_optimize env fl T o par h.1, tblDL_optimizeL env fl T os par h.2⟩
termination_by structural l => l
theorem tblDL_optimizeSeq (env : Env) (fl : CFlags) (T : List (Nat × Nat)) : ∀ (l : List Op) (par : Nat),
    tblDL T l par = true → tblDL T (optimizeSeq env fl l) par = true
  | [], _, _ => by simp only [optimizeSeq, tblDL]
  | [o], par, h => by
    simp only [tblDL, Bool.and_true] at h
    simp only [optimizeSeq, tblDL, Bool.and_true]
    exact tblD_optimize env fl T o par h
  | o :: nxt :: os, par, h => by
    have h' : tblD T o par = true ∧ tblDL T (nxt :: os) par = true := by
      simpa only [tblDL, Bool.and_eq_true] using h
    rw [optimizeSeq_cons2]
    have a1 : tblD T (seqElem env fl (optimize env fl o) nxt) par = true := by
      have a0 := tblD_optimize env fl T o par h'.1
      rcases seqElem_cases env fl (optimize env fl o) nxt with e | ⟨child, mn, mx, g, hrp, e⟩
      · rw [e]; exact a0
      · rw [e]
        generalize optimize env fl o = opt at a0 hrp
        cases opt <;> simp only [repeatParts, Option.some.injEq, Prod.mk.injEq, reduceCtorEq] at hrp
        all_goals
          obtain ⟨rfl, rfl, rfl, _⟩ := hrp
          simpa only [tblD] using a0
    have a2 := tblDL_optimizeSeq env fl T (nxt :: os) par h'.2
    simp only [tblDL, Bool.and_eq_true] at a2 ⊢
    exact ⟨a1, a2⟩
termination_by structural l => l
end

mutual
theorem tblD_numberReps (T : List (Nat × Nat)) : ∀ (op : Op) (k par : Nat),
    tblD T (numberReps op k).1 par = tblD T op par
  | .bol, _, _ | .eol, _, _ | .nothing, _, _ | .endProgram, _, _ => by simp only [numberReps]
  | .atom _, _, _ | .cls _, _, _ | .backref _, _, _ => by simp only [numberReps]
  | .capture g c, k, par => by simp only [numberReps, tblD]; rw [tblD_numberReps T c k g]
  | .choice bs, k, par => by simp only [numberReps, tblD]; exact tblDL_numberRepsL T bs k par
  | .seq ops, k, par => by simp only [numberReps, tblD]; exact tblDL_numberRepsL T ops k par
  | .rep id c mn mx g, k, par => by simp only [numberReps, tblD]; exact tblD_numberReps T c (k + 1) par
  | .gfixed c mn mx len, k, par => by simp only [numberReps, tblD]; exact tblD_numberReps T c k par
  | .rfixed c mn mx len, k, par => by simp only [numberReps, tblD]; exact tblD_numberReps T c k par
  | .unamb c mn mx, k, par => by simp only [numberReps, tblD]; exact tblD_numberReps T c k par
termination_by structural op => op
theorem tblDL_numberRepsL (T : List (Nat × Nat)) : ∀ (l : List Op) (k par : Nat),
    tblDL T (numberRepsL l k).1 par = tblDL T l par
  | [], _, _ => by simp only [numberRepsL]
  | o :: os, k, par => by
    simp only [numberRepsL, tblDL]
    rw [tblD_numberReps T o k par, tblDL_numberRepsL T os]
termination_by structural l => l
end

/-- whatever table `ret` agrees with, `op` agrees with -/
def TP (ret op : Op) : Prop := ∀ (T : List (Nat × Nat)) (par : Nat), tblD T ret par = true → tblD T op par = true

theorem TP.refl (ret : Op) : TP ret ret := fun _ _ h => h
theorem TP.nothing (ret : Op) : TP ret .nothing := fun _ _ _ => rfl
theorem TP.gfixed {ret p : Op} (mn mx l : Nat) (hp : TP ret p) : TP ret (.gfixed p mn mx l) :=
  fun T par h => by simp only [tblD]; exact hp T par h
theorem TP.rfixed {ret p : Op} (mn mx l : Nat) (hp : TP ret p) : TP ret (.rfixed p mn mx l) :=
  fun T par h => by simp only [tblD]; exact hp T par h
theorem TP.rep {ret p : Op} (id mn mx : Nat) (g : Bool) (hp : TP ret p) : TP ret (.rep id p mn mx g) :=
  fun T par h => by simp only [tblD]; exact hp T par h

/-- `pieceQuant` wraps its terminal (or `nothing`) in a repeat node, or returns one of them -/
theorem pieceQuant_TP (c : PC) (ret : Op) (s : PS) : POk (fun op _ => TP ret op) (pieceQuant c ret s) := by
  have hret : TP ret ret := TP.refl ret
  rw [pieceQuant]
  apply POk.ite <;> intro _
  · exact POk.ok hret
  · extract_lets q r
    clear_value r
    cases r with
    | err e => exact POk.err
    | ok hasQ s1 =>
      dsimp -zeta only
      extract_lets +onlyGivenNames qt0
      generalize hpr : (if (hasQ && isAnchor ret) = true then
          (if (qt0 == 63 || qt0 == 42 || (qt0 == 123 && s1.bmin == 0)) = true then
            ((Op.nothing, 0) : Op × Nat) else (ret, 0)) else (ret, qt0)) = pr
      have hp1 : TP ret pr.1 := by
        subst hpr
        split
        · split
          · exact TP.nothing ret
          · exact hret
        · exact hret
      clear_value qt0
      clear hpr
      extract_lets qt reluctant s2 greedy mm mn mx
      clear_value mx mn mm greedy s2 qt
      repeat' first
        | exact POk.err
        | (apply POk.ite <;> intro _)
        | exact POk.ok hp1
        | exact POk.ok (TP.nothing ret)
        | exact POk.ok (TP.gfixed _ _ _ hp1)
        | exact POk.ok (TP.rfixed _ _ _ hp1)
        | exact POk.ok (TP.rep _ _ _ _ hp1)
        | split

theorem tblD_makeSequence (T : List (Nat × Nat)) (o1 o2 : Op) (par : Nat) (h1 : tblD T o1 par = true)
    (h2 : tblD T o2 par = true) : tblD T (makeSequence o1 o2) par = true := by
  cases o1 <;> cases o2 <;>
    simp only [makeSequence, tblD, tblDL, tblDL_append, Bool.and_eq_true, Bool.and_true] at h1 h2 ⊢ <;>
    first | exact ⟨h1, h2⟩ | exact h1 | exact h2 | trivial

/-! ### facts about the syntactic table -/

mutual
theorem Atom.tbl_append (par n : Nat) (t : List (Nat × Nat)) : (a : Atom) →
    a.tbl par n t = a.tbl par n [] ++ t
  | .group r => by
    simp only [Atom.tbl]
    rw [RegExp.tbl_append (n + 1) (n + 1) ((n + 1, par) :: t) r,
      RegExp.tbl_append (n + 1) (n + 1) [(n + 1, par)] r]
    simp
  | .ncgroup r => by simp only [Atom.tbl]; exact RegExp.tbl_append par n t r
  | .chr _ | .dot | .bol | .eol | .esc _ | .clsEsc _ | .prop _ _ | .backref _ | .cls _ => by
    simp only [Atom.tbl, List.nil_append]
termination_by structural a => a
theorem Branch.tbl_append (par n : Nat) (t : List (Nat × Nat)) : (b : Branch) →
    b.tbl par n t = b.tbl par n [] ++ t
  | .nil => by simp only [Branch.tbl, List.nil_append]
  | .cons a q b => by
    simp only [Branch.tbl]
    rw [Branch.tbl_append par (n + a.groups) (a.tbl par n t) b,
      Branch.tbl_append par (n + a.groups) (a.tbl par n []) b, Atom.tbl_append par n t a]
    simp
termination_by structural b => b
theorem RegExp.tbl_append (par n : Nat) (t : List (Nat × Nat)) : (r : RegExp) →
    r.tbl par n t = r.tbl par n [] ++ t
  | .one b => by simp only [RegExp.tbl]; exact Branch.tbl_append par n t b
  | .alt b r => by
    simp only [RegExp.tbl]
    rw [RegExp.tbl_append par (n + b.groups) (b.tbl par n t) r,
      RegExp.tbl_append par (n + b.groups) (b.tbl par n []) r, Branch.tbl_append par n t b]
    simp
termination_by structural r => r
end

/-- keys strictly decreasing, all in `(n, n + g]` -/
def KeysIn (L : List (Nat × Nat)) (n g : Nat) : Prop :=
  L.Pairwise (fun p q => q.1 < p.1) ∧ ∀ p ∈ L, n < p.1 ∧ p.1 ≤ n + g

theorem KeysIn.nil (n g : Nat) : KeysIn [] n g := ⟨List.Pairwise.nil, fun _ h => by cases h⟩

theorem KeysIn.append {L1 L2 : List (Nat × Nat)} {n g1 g2 : Nat} (h2 : KeysIn L2 (n + g1) g2)
    (h1 : KeysIn L1 n g1) : KeysIn (L2 ++ L1) n (g1 + g2) := by
  refine ⟨List.pairwise_append.2 ⟨h2.1, h1.1, fun p hp q hq => ?_⟩, fun p hp => ?_⟩
  · have a := h2.2 p hp
    have b := h1.2 q hq
    omega
  · rcases List.mem_append.1 hp with hp | hp
    · have := h2.2 p hp; omega
    · have := h1.2 p hp; omega

mutual
theorem Atom.tbl_keys (par n : Nat) : (a : Atom) → KeysIn (a.tbl par n []) n a.groups
  | .group r => by
    simp only [Atom.tbl, Atom.groups]
    rw [RegExp.tbl_append]
    have h1 : KeysIn [(n + 1, par)] n 1 :=
      ⟨List.pairwise_singleton _ _, fun p hp => by simp at hp; subst hp; simp⟩
    have := KeysIn.append (RegExp.tbl_keys (n + 1) (n + 1) r) h1
    rwa [Nat.add_comm 1 r.groups] at this
  | .ncgroup r => by simp only [Atom.tbl, Atom.groups]; exact RegExp.tbl_keys par n r
  | .chr _ | .dot | .bol | .eol | .esc _ | .clsEsc _ | .prop _ _ | .backref _ | .cls _ => by
    simp only [Atom.tbl, Atom.groups]; exact KeysIn.nil _ _
termination_by structural a => a
theorem Branch.tbl_keys (par n : Nat) : (b : Branch) → KeysIn (b.tbl par n []) n b.groups
  | .nil => by simp only [Branch.tbl, Branch.groups]; exact KeysIn.nil _ _
  | .cons a q b => by
    simp only [Branch.tbl, Branch.groups]
    rw [Branch.tbl_append]
    exact KeysIn.append (Branch.tbl_keys par (n + a.groups) b) (Atom.tbl_keys par n a)
termination_by structural b => b
theorem RegExp.tbl_keys (par n : Nat) : (r : RegExp) → KeysIn (r.tbl par n []) n r.groups
  | .one b => by simp only [RegExp.tbl, RegExp.groups]; exact Branch.tbl_keys par n b
  | .alt b r => by
    simp only [RegExp.tbl, RegExp.groups]
    rw [RegExp.tbl_append]
    exact KeysIn.append (RegExp.tbl_keys par (n + b.groups) r) (Branch.tbl_keys par n b)
termination_by structural r => r
end

theorem lookupNat_of_mem : ∀ (L : List (Nat × Nat)), L.Pairwise (fun p q => q.1 < p.1) →
    ∀ p ∈ L, lookupNat L p.1 = some p.2 := by
  intro L
  induction L with
  | nil => intro _ p hp; cases hp
  | cons x xs ih =>
    intro hpw p hp
    rw [List.pairwise_cons] at hpw
    obtain ⟨a, b⟩ := x
    rw [lookupNat]
    rcases List.mem_cons.1 hp with rfl | hp'
    · simp
    · have hlt := hpw.1 p hp'
      have hne : (a == p.1) = false := by
        rw [beq_eq_false_iff_ne]; simp only [] at hlt; omega
      rw [hne]
      simp only [Bool.false_eq_true, if_false]
      exact ih hpw.2 p hp'

/-- `T` answers every group of the tree (at context `par`, `n`) with its syntactic parent -/
def Agree (T : List (Nat × Nat)) (L : List (Nat × Nat)) : Prop :=
  ∀ p ∈ L, lookupNat T p.1 = some p.2

theorem agree_tableOf (a : Ast) : Agree (tableOf a) (RegExp.tbl 0 0 [] a) :=
  lookupNat_of_mem _ (RegExp.tbl_keys 0 0 a).1

theorem Agree.append {T L1 L2 : List (Nat × Nat)} (h : Agree T (L1 ++ L2)) : Agree T L1 ∧ Agree T L2 :=
  ⟨fun p hp => h p (List.mem_append_left _ hp), fun p hp => h p (List.mem_append_right _ hp)⟩

theorem consChars_tbl {xsd : Bool} {env : Env} (L : List Atom) (hL : CharAtoms xsd env L) (b : Branch)
    (par n : Nat) (t : List (Nat × Nat)) : (consChars L b).tbl par n t = b.tbl par n t := by
  induction L generalizing t with
  | nil => rfl
  | cons a as ih =>
    have ha := hL a (List.mem_cons_self ..)
    have hch := ha.1
    have hg : a.groups = 0 ∧ ∀ t, a.tbl par n t = t := by
      cases a <;> first | exact ⟨rfl, fun _ => rfl⟩ | cases hch
    have := ih (fun x hx => hL x (List.mem_cons_of_mem _ hx)) t
    simp only [consChars, List.foldr_cons] at this ⊢
    simp only [Branch.tbl, hg.1, hg.2, Nat.add_zero, this]

/-- one branch stays as it is, several become a choice -/
def altOf (bs : List Op) : Op :=
  match bs with
  | [b] => b
  | bs => .choice bs

/-- the operation `parse_expr` returns, from its parts -/
theorem exprBody_op {c : PC} {f cp paren : Nat} {s1 : PS} {op : Op} {s' sA sB : PS} {b1 : Op}
    {bs : List Op} (h : exprBody c f cp paren s1 = .ok op s')
    (h1 : parseBranch c f s1 none = .ok b1 sA) (h2 : parseBranches c f sA [b1] = .ok bs sB) :
    op = (if paren = 0 then makeSequence (altOf bs) .endProgram
          else if paren = 1 then .capture cp (altOf bs)
          else (altOf bs)) := by
  unfold exprBody at h
  rw [h1] at h
  simp only [] at h
  rw [h2] at h
  simp only [] at h
  by_cases hp : paren = 0
  · subst hp
    simp only [bne_self_eq_false, Bool.false_eq_true, if_false, PRes.ok.injEq] at h
    simp only [if_true]; exact h.1.symm
  · have hp' : (paren != 0) = true := by simpa using hp
    rw [if_pos hp'] at h
    rw [if_neg hp]
    split at h
    · by_cases h1' : paren = 1
      · subst h1'
        simp only [beq_self_eq_true, if_true, PRes.ok.injEq] at h
        simp only [if_true]; exact h.1.symm
      · have h1'' : (paren == 1) = false := by simpa using h1'
        rw [h1''] at h
        simp only [Bool.false_eq_true, if_false, PRes.ok.injEq] at h
        rw [if_neg h1']; exact h.1.symm
    · cases h

def JT (c : PC) (f : Nat) : Prop :=
  ∀ (s : PS) (ret : Op) (s' : PS) (n : Nat), parseTerminal c f s = .ok ret s' → s.parens = n + 1 →
    s.idx ≤ c.len →
    ∃ (front : List Atom) (a : Atom), CharAtoms c.fl.xsd c.env front ∧
      a.ok c.fl.xsd c.env n s.captures = true ∧ a.inLimit = true ∧
      a.followOk n (c.pat.drop s'.idx) = true ∧
      Span c s s' (renderAtoms front ++ a.render) a.groups (a.closed n s.captures) ∧
      ∀ T par, Agree T (a.tbl par n []) → tblD T ret par = true

def JB (c : PC) (f : Nat) : Prop :=
  ∀ (s : PS) (cur : Option Op) (op : Op) (s' : PS) (n : Nat), parseBranch c f s cur = .ok op s' →
    s.parens = n + 1 → s.idx ≤ c.len →
    ∃ b : Branch, b.ok c.fl.xsd c.env n s.captures = true ∧ b.inLimit = true ∧
      Span c s s' b.render b.groups (b.closed n s.captures) ∧
      ∀ T par, (∀ o, cur = some o → tblD T o par = true) → Agree T (b.tbl par n []) →
        tblD T op par = true

def JBs (c : PC) (f : Nat) : Prop :=
  ∀ (s : PS) (acc l : List Op) (s' : PS) (n : Nat), parseBranches c f s acc = .ok l s' →
    s.parens = n + 1 → s.idx ≤ c.len →
    (Span c s s' [] 0 s.captures ∧ l = acc) ∨
    ∃ (r : RegExp) (more : List Op), r.ok c.fl.xsd c.env n s.captures = true ∧ r.inLimit = true ∧
      Span c s s' (124 :: r.render) r.groups (r.closed n s.captures) ∧ l = acc ++ more ∧ more ≠ [] ∧
      ∀ T par, Agree T (r.tbl par n []) → tblDL T more par = true

def JE (c : PC) (f : Nat) : Prop :=
  ∀ (s : PS) (op : Op) (s' : PS) (n : Nat), parseExpr c f s false = .ok op s' → c.at s.idx = 40 →
    s.parens = n + 1 →
    ∃ a : Atom, a.ok c.fl.xsd c.env n s.captures = true ∧ a.inLimit = true ∧
      (∀ X, a.followOk n X = true) ∧ Span c s s' a.render a.groups (a.closed n s.captures) ∧
      ∀ T par, Agree T (a.tbl par n []) → tblD T op par = true

theorem jbody {c : PC} {f : Nat} (hB : JB c f) (hBs : JBs c f) {s sA sB : PS} {b1 : Op}
    {bs : List Op} {n : Nat} (h1 : parseBranch c f s none = .ok b1 sA)
    (h2 : parseBranches c f sA [b1] = .ok bs sB) (hp : s.parens = n + 1) (hs : s.idx ≤ c.len) :
    ∃ r : RegExp, r.ok c.fl.xsd c.env n s.captures = true ∧ r.inLimit = true ∧
      Span c s sB r.render r.groups (r.closed n s.captures) ∧
      ∀ T par, Agree T (r.tbl par n []) →
        tblD T (altOf bs) par = true := by
  obtain ⟨b, b1', b2, b3, b4⟩ := hB s none b1 sA n h1 hp hs
  have hpA : sA.parens = (n + b.groups) + 1 := by rw [b3.parens, hp]; omega
  rcases hBs sA [b1] bs sB (n + b.groups) h2 hpA (b3.le_len hs) with ⟨hsp, rfl⟩ | ⟨r, more, r1, r2, r3, r4, r5, r6⟩
  · refine ⟨.one b, b1', b2, ?_, ?_⟩
    · have := Span.trans b3 hsp
      rw [b3.caps] at this
      simpa [RegExp.render, RegExp.groups, RegExp.closed] using this
    · intro T par hag
      show tblD T b1 par = true
      exact b4 T par (fun o ho => by cases ho) (by simpa [RegExp.tbl] using hag)
  · rw [b3.caps] at r1 r3
    refine ⟨.alt b r, by simp [RegExp.ok, b1', r1], by simp [RegExp.inLimit, b2, r2], ?_, ?_⟩
    · have := Span.trans b3 r3
      simpa [RegExp.render, RegExp.groups, RegExp.closed] using this
    · intro T par hag
      simp only [RegExp.tbl] at hag
      rw [RegExp.tbl_append] at hag
      obtain ⟨hr, hb⟩ := hag.append
      subst r4
      cases more with
      | nil => exact absurd rfl r5
      | cons m ms =>
        show tblD T (.choice (b1 :: m :: ms)) par = true
        simp only [tblD, tblDL, Bool.and_eq_true]
        have := r6 T par hr
        simp only [tblDL, Bool.and_eq_true] at this
        exact ⟨b4 T par (fun o ho => by cases ho) hb, this⟩

theorem JBs_step {c : PC} {f : Nat} (hB : JB c f) (hBs : JBs c f) : JBs c (f + 1) := by
  intro s acc l s' n h hp hs
  rw [parseBranches] at h
  by_cases hc : (decide (s.idx < c.len) && c.at s.idx == 124) = true
  · rw [if_pos hc] at h
    simp only [Bool.and_eq_true, decide_eq_true_eq, beq_iff_eq] at hc
    cases hb : parseBranch c f { s with idx := s.idx + 1 } none with
    | err e => rw [hb] at h; cases h
    | ok b1 sA =>
      rw [hb] at h
      simp only [] at h
      obtain ⟨b, b1', b2, b3, b4⟩ := hB { s with idx := s.idx + 1 } none b1 sA n hb hp (by simp only []; omega)
      have hbar : Span c s { s with idx := s.idx + 1 } [124] 0 s.captures :=
        ⟨by rw [drop_at hc.1, hc.2]; rfl, rfl, rfl, rfl⟩
      have hpA : sA.parens = (n + b.groups) + 1 := by rw [b3.parens]; simp only []; omega
      have hsA : sA.idx ≤ c.len := b3.le_len (by simp only []; omega)
      right
      rcases hBs sA (acc ++ [b1]) l s' (n + b.groups) h hpA hsA with ⟨hsp, rfl⟩ | ⟨r, more, r1, r2, r3, r4, r5, r6⟩
      · refine ⟨.one b, [b1], b1', b2, ?_, rfl, by simp, ?_⟩
        · have := Span.trans hbar (Span.trans b3 hsp)
          rw [b3.caps] at this
          simpa [RegExp.render, RegExp.groups, RegExp.closed] using this
        · intro T par hag
          simp only [tblDL, Bool.and_true]
          exact b4 T par (fun o ho => by cases ho) (by simpa [RegExp.tbl] using hag)
      · rw [b3.caps] at r1 r3
        refine ⟨.alt b r, b1 :: more, by simp [RegExp.ok, b1', r1], by simp [RegExp.inLimit, b2, r2], ?_,
          by rw [r4]; simp, by simp, ?_⟩
        · have := Span.trans hbar (Span.trans b3 r3)
          simpa [RegExp.render, RegExp.groups, RegExp.closed, Nat.add_assoc] using this
        · intro T par hag
          simp only [RegExp.tbl] at hag
          rw [RegExp.tbl_append] at hag
          obtain ⟨hr, hb'⟩ := hag.append
          simp only [tblDL, Bool.and_eq_true]
          exact ⟨b4 T par (fun o ho => by cases ho) hb', r6 T par hr⟩
  · rw [if_neg hc] at h
    simp only [PRes.ok.injEq] at h
    obtain ⟨rfl, rfl⟩ := h
    exact .inl ⟨Span.refl c s, rfl⟩

theorem JE_step {c : PC} {f : Nat} (hB : JB c f) (hBs : JBs c f) : JE c (f + 1) := by
  intro s op s' n h h40 hp
  have hlt : s.idx < c.len := at_lt_of_ne_zero (by rw [h40]; decide)
  rw [parseExpr_succ] at h
  cases ho : exprOpen c s false with
  | err e => rw [ho] at h; cases h
  | ok paren s1 =>
    rw [ho] at h
    simp only [] at h
    obtain ⟨b1, sA, bs, sB, e1, e2, e3⟩ := exprBody_inv h
    have hop := exprBody_op h e1 e2
    rcases exprOpen_inv ho with ⟨_, _, h0 | h0⟩ | ⟨rfl, _, _, rfl⟩ | ⟨rfl, _, hx, hl2, _, h63, h58, rfl⟩
    · cases h0
    · exact absurd h40 h0
    · obtain ⟨r, r1, r2, r3, r4⟩ := jbody hB hBs (n := n + 1) e1 e2 (by simp only []; omega)
        (by simp only []; omega)
      rcases e3 with ⟨h0, _⟩ | ⟨_, hl, h41, hs'⟩
      · cases h0
      simp only [if_true] at hs'
      subst hs'
      simp only [show (1 : Nat) ≠ 0 by decide, if_false, if_true] at hop
      refine ⟨.group r, by simpa [Atom.ok] using r1, by simpa [Atom.inLimit] using r2, fun _ => rfl, ?_, ?_⟩
      · simp only [] at r1 r3
        refine ⟨?_, ?_, ?_, ?_⟩
        · simp only [Atom.render, List.cons_append, List.append_assoc]
          rw [drop_at hlt, h40, r3.text, drop_at hl, h41]; rfl
        · simp only [Atom.render, List.length_cons, List.length_append, List.length_nil]
          have := r3.idx; simp only [] at this; omega
        · simp only [Atom.groups]
          have := r3.parens; simp only [] at this; omega
        · simp only [Atom.closed]
          rw [r3.caps, hp]
      · intro T par hag
        simp only [Atom.tbl] at hag
        rw [RegExp.tbl_append] at hag
        obtain ⟨hr, hself⟩ := hag.append
        rw [hop, hp]
        simp only [tblD, Bool.and_eq_true, beq_iff_eq]
        exact ⟨hself (n + 1, par) (by simp), r4 T (n + 1) hr⟩
    · obtain ⟨r, r1, r2, r3, r4⟩ := jbody hB hBs (n := n) e1 e2 hp (by simp only []; omega)
      rcases e3 with ⟨h0, _⟩ | ⟨_, hl, h41, hs'⟩
      · cases h0
      simp only [show (2 : Nat) ≠ 1 by decide, if_false] at hs'
      subst hs'
      simp only [show (2 : Nat) ≠ 0 by decide, show (2 : Nat) ≠ 1 by decide, if_false] at hop
      refine ⟨.ncgroup r, by simpa [Atom.ok, hx] using r1, by simpa [Atom.inLimit] using r2,
        fun _ => rfl, ?_, ?_⟩
      · simp only [] at r1 r3
        refine ⟨?_, ?_, ?_, ?_⟩
        · simp only [Atom.render, List.cons_append, List.append_assoc]
          rw [drop_at hlt, h40, drop_at (by omega), h63, show s.idx + 1 + 1 = s.idx + 2 from rfl,
            drop_at hl2, h58, show s.idx + 2 + 1 = s.idx + 3 from rfl, r3.text, drop_at hl, h41]; rfl
        · simp only [Atom.render, List.length_cons, List.length_append, List.length_nil]
          have := r3.idx; simp only [] at this; omega
        · simp only [Atom.groups]; exact r3.parens
        · simp only [Atom.closed]; exact r3.caps
      · intro T par hag
        rw [hop]
        exact r4 T par (by simpa [Atom.tbl] using hag)

theorem JT_of_chars {c : PC} {s s' : PS} {n : Nat} {front : List Atom} {a : Atom} {ret : Op}
    (hf : CharAtoms c.fl.xsd c.env front) (hch : a.isChar = true)
    (hok : a.ok c.fl.xsd c.env 0 [] = true)
    (hsp : Span c s s' (renderAtoms front ++ a.render) 0 s.captures)
    (hret : ∀ T par, tblD T ret par = true) :
    ∃ (front : List Atom) (a : Atom), CharAtoms c.fl.xsd c.env front ∧
      a.ok c.fl.xsd c.env n s.captures = true ∧ a.inLimit = true ∧
      a.followOk n (c.pat.drop s'.idx) = true ∧
      Span c s s' (renderAtoms front ++ a.render) a.groups (a.closed n s.captures) ∧
      ∀ T par, Agree T (a.tbl par n []) → tblD T ret par = true := by
  obtain ⟨front', a', h1, h2, h3, h4, h5⟩ := IT_of_chars (n := n) hf hch hok hsp
  exact ⟨front', a', h1, h2, h3, h4, h5, fun T par _ => hret T par⟩

theorem JT_of_leaf {c : PC} {s s' : PS} {n : Nat} {ret : Op} (a : Atom) (hg : a.groups = 0)
    (hcl : a.closed n s.captures = s.captures) (hok : a.ok c.fl.xsd c.env n s.captures = true)
    (hlim : a.inLimit = true) (hfol : a.followOk n (c.pat.drop s'.idx) = true)
    (hsp : Span c s s' a.render 0 s.captures) (hret : ∀ T par, tblD T ret par = true) :
    ∃ (front : List Atom) (a : Atom), CharAtoms c.fl.xsd c.env front ∧
      a.ok c.fl.xsd c.env n s.captures = true ∧ a.inLimit = true ∧
      a.followOk n (c.pat.drop s'.idx) = true ∧
      Span c s s' (renderAtoms front ++ a.render) a.groups (a.closed n s.captures) ∧
      ∀ T par, Agree T (a.tbl par n []) → tblD T ret par = true :=
  ⟨[], a, CharAtoms.nil, hok, hlim, hfol, by rw [hg, hcl]; simpa [renderAtoms] using hsp,
    fun T par _ => hret T par⟩

theorem parseAtom_atom {c : PC} {s : PS} {op : Op} {s' : PS} (h : parseAtom c s = .ok op s') :
    ∀ T par, tblD T op par = true := by
  unfold parseAtom at h
  split at h
  · cases h
  · split at h
    · cases h
    · simp only [PRes.ok.injEq] at h
      intro T par; rw [← h.1]; rfl

theorem JT_step {c : PC} (hcls : ClassInv c) {f : Nat} (hE : JE c f) : JT c (f + 1) := by
  intro s ret s' n h hp hs
  rw [parseTerminal] at h
  have one : ∀ x, c.at s.idx = x → x ≠ 0 →
      Span c s { s with idx := s.idx + 1 } [x] 0 s.captures := by
    intro x hx h0
    have hlt : s.idx < c.len := at_lt_of_ne_zero (by rw [hx]; exact h0)
    exact ⟨by rw [drop_at hlt, hx]; rfl, rfl, rfl, rfl⟩
  by_cases c1 : (c.at s.idx == 36 && !c.fl.xsd) = true
  · rw [if_pos c1] at h
    simp only [Bool.and_eq_true, beq_iff_eq, Bool.not_eq_true'] at c1
    simp only [PRes.ok.injEq] at h
    obtain ⟨rfl, rfl⟩ := h
    exact JT_of_leaf .eol rfl rfl (by simp [Atom.ok, c1.2]) rfl rfl (one 36 c1.1 (by decide))
      (fun _ _ => rfl)
  rw [if_neg c1] at h
  by_cases c2 : (c.at s.idx == 94 && !c.fl.xsd) = true
  · rw [if_pos c2] at h
    simp only [Bool.and_eq_true, beq_iff_eq, Bool.not_eq_true'] at c2
    simp only [PRes.ok.injEq] at h
    obtain ⟨rfl, rfl⟩ := h
    exact JT_of_leaf .bol rfl rfl (by simp [Atom.ok, c2.2]) rfl rfl (one 94 c2.1 (by decide))
      (fun _ _ => rfl)
  rw [if_neg c2] at h
  by_cases c3 : (c.at s.idx == 46) = true
  · rw [if_pos c3] at h
    simp only [PRes.ok.injEq] at h
    obtain ⟨rfl, rfl⟩ := h
    exact JT_of_leaf .dot rfl rfl rfl rfl rfl (one 46 (eq_of_beq c3) (by decide)) (fun _ _ => rfl)
  rw [if_neg c3] at h
  by_cases c4 : (c.at s.idx == 91) = true
  · rw [if_pos c4] at h
    cases hc : parseClass c (c.len + 2) s with
    | err e => rw [hc] at h; cases h
    | ok rs s1 =>
      rw [hc] at h
      simp only [PRes.ok.injEq] at h
      obtain ⟨rfl, rfl⟩ := h
      obtain ⟨e, e1, e2⟩ := hcls.span hc
      exact JT_of_leaf (.cls e) rfl rfl (by simpa [Atom.ok] using e1) rfl rfl
        (by simpa [Atom.render] using e2) (fun _ _ => rfl)
  rw [if_neg c4] at h
  by_cases c5 : (c.at s.idx == 40) = true
  · rw [if_pos c5] at h
    obtain ⟨a, a1, a2, a3, a4, a5⟩ := hE s ret s' n h (eq_of_beq c5) hp
    exact ⟨[], a, CharAtoms.nil, a1, a2, a3 _, by simpa [renderAtoms] using a4, a5⟩
  rw [if_neg c5] at h
  by_cases c6 : (c.at s.idx == 41) = true
  · rw [if_pos c6] at h; cases h
  rw [if_neg c6] at h
  by_cases c7 : (c.at s.idx == 124) = true
  · rw [if_pos c7] at h; cases h
  rw [if_neg c7] at h
  by_cases c8 : (c.at s.idx == 93) = true
  · rw [if_pos c8] at h; cases h
  rw [if_neg c8] at h
  by_cases c9 : (c.at s.idx == 63 || c.at s.idx == 43 || c.at s.idx == 123 || c.at s.idx == 42) = true
  · rw [if_pos c9] at h; cases h
  rw [if_neg c9] at h
  by_cases c10 : (c.at s.idx == 92) = true
  · rw [if_pos c10] at h
    cases he : escape c s false with
    | err e => rw [he] at h; cases h
    | ok r s1 =>
      rw [he] at h
      have hinv := escape_inv he
      cases hinv with
      | single e ht hok =>
        simp only [] at h
        obtain ⟨front, a, f1, f2, f3, f4⟩ := parseAtom_inv h
        exact JT_of_chars f1 f2 f3 f4 (parseAtom_atom h)
      | cls e ht hok =>
        simp only [PRes.ok.injEq] at h
        obtain ⟨rfl, rfl⟩ := h
        exact JT_of_leaf (.clsEsc e) rfl rfl (by simpa [Atom.ok] using hok) rfl rfl
          ⟨by simpa [Atom.render] using ht, rfl, rfl, rfl⟩ (fun _ _ => rfl)
      | prop pos name ht hall hl =>
        simp only [PRes.ok.injEq] at h
        obtain ⟨rfl, rfl⟩ := h
        exact JT_of_leaf (.prop pos name) rfl rfl (by simp [Atom.ok, hall, hl]) rfl rfl
          ⟨by simpa [Atom.render] using ht, by simp [Atom.render]; omega, rfl, rfl⟩ (fun _ _ => rfl)
      | backref ds hx hnum ht hmem hfol =>
        simp only [] at h
        by_cases hle : s.parens ≤ Spec.digitsVal ds
        · rw [if_pos hle] at h; cases h
        rw [if_neg hle] at h
        simp only [PRes.ok.injEq] at h
        obtain ⟨rfl, rfl⟩ := h
        refine JT_of_leaf (.backref ds) rfl rfl ?_ rfl ?_
          ⟨by simpa [Atom.render] using ht, by simp [Atom.render]; omega, rfl, rfl⟩ (fun _ _ => rfl)
        · simp only [Atom.ok, hx, hnum, Bool.not_false, Bool.true_and, Bool.and_eq_true,
            decide_eq_true_eq]
          exact ⟨by omega, hmem⟩
        · simp only [Atom.followOk]
          rw [hp] at hfol
          simpa using hfol
  rw [if_neg c10] at h
  obtain ⟨front, a, f1, f2, f3, f4⟩ := parseAtom_inv h
  exact JT_of_chars f1 f2 f3 f4 (parseAtom_atom h)

theorem JB_step {c : PC} {f : Nat} (hT : JT c f) (hB : JB c f) : JB c (f + 1) := by
  intro s cur op s' n h hp hs
  rw [parseBranch] at h
  by_cases hc : (decide (s.idx < c.len) && c.at s.idx != 124 && c.at s.idx != 41) = true
  · rw [if_pos hc] at h
    cases ht : parseTerminal c f s with
    | err e => rw [ht] at h; cases h
    | ok ret s1 =>
      rw [ht] at h
      simp only [] at h
      cases hq : pieceQuant c ret s1 with
      | err e => rw [hq] at h; cases h
      | ok op1 s2 =>
        rw [hq] at h
        simp only [] at h
        obtain ⟨front, a, t1, t2, t3, t4, t5, t6⟩ := hT s ret s1 n ht hp hs
        have hs1 : s1.idx ≤ c.len := t5.le_len hs
        obtain ⟨q, q1, q2, q3⟩ := pieceQuant_inv c ret s1 op1 s2 hs1 hq
        have htp : TP ret op1 := pieceQuant_TP c ret s1 op1 s2 hq
        have hs2 : s2.idx ≤ c.len := q3.le_len hs1
        have hp2 : s2.parens = (n + a.groups) + 1 := by rw [q3.parens, t5.parens, hp]; omega
        obtain ⟨b2, b21, b22, b23, b24⟩ := hB s2 _ op s' (n + a.groups) h hp2 hs2
        have hc2 : s2.captures = a.closed n s.captures := by rw [q3.caps, t5.caps]
        rw [hc2] at b21 b23
        obtain ⟨k1, k2, k3, k4⟩ := consChars_facts front t1 (.cons a q b2) n s.captures
        refine ⟨consChars front (.cons a q b2), ?_, ?_, ?_, ?_⟩
        · rw [k1]
          have hfol : a.followOk n (qRender q ++ b2.render) = true := by
            apply followOk_prefix (Y := c.pat.drop s'.idx)
            rw [List.append_assoc, ← b23.text, ← q3.text]
            exact t4
          simp only [Branch.ok, t2, q1, hfol, b21, Bool.and_self]
        · rw [k4]; simp only [Branch.inLimit, t3, q2, b22, Bool.and_self]
        · rw [consChars_render, k2, k3]
          have := Span.trans t5 (Span.trans q3 b23)
          simpa [Branch.render, Branch.groups, Branch.closed, List.append_assoc] using this
        · intro T par hcur hag
          rw [consChars_tbl front t1] at hag
          simp only [Branch.tbl] at hag
          rw [Branch.tbl_append] at hag
          obtain ⟨hb2, ha⟩ := hag.append
          have hop1 : tblD T op1 par = true := htp T par (t6 T par ha)
          refine b24 T par ?_ hb2
          intro o ho
          simp only [Option.some.injEq] at ho
          subst ho
          cases cur with
          | none => exact hop1
          | some cu => exact tblD_makeSequence T cu op1 par (hcur cu rfl) hop1
  · rw [if_neg hc] at h
    simp only [PRes.ok.injEq] at h
    obtain ⟨rfl, rfl⟩ := h
    refine ⟨.nil, rfl, rfl, Span.refl c s, ?_⟩
    intro T par hcur _
    cases cur with
    | none => rfl
    | some cu => exact hcur cu rfl

theorem j_all (c : PC) (hcls : ClassInv c) : ∀ f, JE c f ∧ JBs c f ∧ JB c f ∧ JT c f := by
  intro f
  induction f with
  | zero =>
    refine ⟨?_, ?_, ?_, ?_⟩
    · intro s op s' n h; rw [parseExpr] at h; cases h
    · intro s acc l s' n h; rw [parseBranches] at h; cases h
    · intro s cur op s' n h; rw [parseBranch] at h; cases h
    · intro s ret s' n h; rw [parseTerminal] at h; cases h
  | succ f ih =>
    obtain ⟨hE, hBs, hB, hT⟩ := ih
    exact ⟨JE_step hB hBs, JBs_step hB hBs, JB_step hT hB, JT_step hcls hE⟩

/-- the top-level parse: the tree it returns nests its capture nodes as the syntactic table of the
    regExp it has read says -/
theorem parse_top_tbl (c : PC) (hcls : ClassInv c) (f : Nat) (op : Op) (s' : PS)
    (h : parseExpr c f {} true = .ok op s') :
    ∃ r : RegExp, r.ok c.fl.xsd c.env 0 [] = true ∧ r.inLimit = true ∧
      Span c {} s' r.render r.groups (r.closed 0 []) ∧
      ∀ T, Agree T (r.tbl 0 0 []) → tblD T op 0 = true := by
  cases f with
  | zero => rw [parseExpr] at h; cases h
  | succ f =>
    obtain ⟨_, hBs, hB, _⟩ := j_all c hcls f
    rw [parseExpr_succ, exprOpen_top] at h
    simp only [] at h
    obtain ⟨b1, sA, bs, sB, e1, e2, e3⟩ := exprBody_inv h
    have hop := exprBody_op h e1 e2
    simp only [if_true] at hop
    rcases e3 with ⟨_, rfl⟩ | ⟨h0, _⟩
    · obtain ⟨r, r1, r2, r3, r4⟩ := jbody hB hBs (n := 0) e1 e2 rfl (Nat.zero_le _)
      refine ⟨r, r1, r2, r3, fun T hag => ?_⟩
      rw [hop]
      exact tblD_makeSequence T _ _ 0 (r4 T 0 hag) rfl
    · exact absurd rfl h0

/-! ### compiled programs -/

theorem mkProgram_fields (pat : List Nat) (op : Op) (n : Nat) (fl : CFlags) (hb : Bool) :
    (mkProgram pat op n fl hb).pattern = pat ∧ (mkProgram pat op n fl hb).op = (numberReps op 0).1 ∧
      (mkProgram pat op n fl hb).literal = fl.literal := by
  unfold mkProgram
  simp only []
  split
  · split <;> exact ⟨rfl, rfl, rfl⟩
  · exact ⟨rfl, rfl, rfl⟩

/-- for every accepted non-literal pattern: the pattern is the rendering of a well-formed tree, the
    scanner computes that tree's table from the stored text, and the compiled (optimised or bare)
    operation tree nests its capture nodes as the table says -/
theorem compile_table (env : Env) (henv : EnvNamesPlain env) (fl : CFlags) (hlit : fl.literal = false)
    (pat : List Nat) (hcls : ClassInv { pat := pat, fl := fl, env := env }) (opt : Bool) (pr : Prog)
    (h : compileCore env fl pat opt = .ok pr) :
    ∃ a : Ast, a.okFor fl.xsd env = true ∧ a.inLimit = true ∧ pat = a.render ∧ pr.pattern = pat ∧
      pr.literal = false ∧ nestingTable pr.pattern = some (tableOf a) ∧
      tblD (tableOf a) pr.op 0 = true := by
  rw [compileCore_eq env fl pat opt hlit] at h
  cases hp : parseExpr { pat := pat, fl := fl, env := env } (4 * pat.length + 16) {} true with
  | err e => rw [hp] at h; cases h
  | ok op s' =>
    rw [hp] at h
    simp only [] at h
    by_cases hi : (s'.idx != pat.length) = true
    · rw [if_pos hi] at h; cases h
    rw [if_neg hi] at h
    have hend : s'.idx = pat.length := by simpa using hi
    obtain ⟨r, r1, r2, r3, r4⟩ := parse_top_tbl _ hcls _ op s' hp
    have hpat : pat = r.render := by
      have := r3.text
      simp only [] at this
      rw [hend, List.drop_length] at this
      simpa using this
    have hD : tblD (tableOf r) op 0 = true := r4 _ (agree_tableOf r)
    have hnt : nestingTable pat = some (tableOf r) := by
      rw [hpat]; exact nestingTable_render henv r r1
    cases opt with
    | true =>
      simp only [if_true, Out.ok.injEq] at h
      obtain ⟨f1, f2, f3⟩ := mkProgram_fields pat (optimize env fl op) s'.parens fl s'.hasBackrefs
      rw [← h]
      refine ⟨r, r1, r2, hpat, f1, by rw [f3, hlit], by rw [f1]; exact hnt, ?_⟩
      rw [f2, tblD_numberReps]
      exact tblD_optimize env fl _ op 0 hD
    | false =>
      simp only [Bool.false_eq_true, if_false, Out.ok.injEq] at h
      rw [← h]
      refine ⟨r, r1, r2, hpat, rfl, hlit, hnt, ?_⟩
      show tblD (tableOf r) (numberReps op 0).1 0 = true
      rw [tblD_numberReps]; exact hD

end Rx.Grammar
