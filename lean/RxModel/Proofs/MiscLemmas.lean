/-
  Proofs/MiscLemmas — helper lemmas for Props/C14 (whitespace pre-pass), Props/C16 (nullability)
  and Props/C07 (flags, `{m,n}`, error kinds of the parser).
-/
import RxModel.Model.Compile
import RxModel.Spec.OpLang
import RxModel.Spec.Repl
namespace Rx

/-! ## C14: `stripWs` -/

def isWs4 (c : Nat) : Bool := c == 9 || c == 10 || c == 13 || c == 32

theorem stripWs_cons (ch : Nat) (rest : List Nat) (n : Int) (e : Bool) :
    stripWs (ch :: rest) n e =
      if ch == 92 && !e then ch :: stripWs rest n true
      else if ch == 91 && !e then ch :: stripWs rest (n + 1) e
      else if ch == 93 && !e then ch :: stripWs rest (n - 1) e
      else if n == 0 && (ch == 9 || ch == 10 || ch == 13 || ch == 32) then stripWs rest n e
      else ch :: stripWs rest n false := by
  rw [stripWs]

theorem stripWs_idem (p : List Nat) : ∀ (n : Int) (e : Bool), stripWs (stripWs p n e) n e = stripWs p n e := by
  induction p with
  | nil => intro n e; simp [stripWs]
  | cons ch rest ih =>
    intro n e
    rw [stripWs_cons ch rest]
    split
    · rename_i h; rw [stripWs_cons, if_pos h, ih]
    · split
      · rename_i h1 h; rw [stripWs_cons, if_neg h1, if_pos h, ih]
      · split
        · rename_i h1 h2 h; rw [stripWs_cons, if_neg h1, if_neg h2, if_pos h, ih]
        · split
          · exact ih n e
          · rename_i h1 h2 h3 h; rw [stripWs_cons, if_neg h1, if_neg h2, if_neg h3, if_neg h, ih]

theorem stripWs_filter (p : List Nat) : ∀ (n : Int) (e : Bool),
    (stripWs p n e).filter (fun c => !isWs4 c) = p.filter (fun c => !isWs4 c) := by
  induction p with
  | nil => intro n e; simp [stripWs]
  | cons ch rest ih =>
    intro n e
    rw [stripWs_cons ch rest]
    split
    · simp [List.filter_cons, ih]
    · split
      · simp [List.filter_cons, ih]
      · split
        · simp [List.filter_cons, ih]
        · split
          · rename_i h
            have : isWs4 ch = true := by simp [isWs4]; simp at h; exact h.2
            simp [ih, this]
          · simp [List.filter_cons, ih]

theorem stripWs_sublist (p : List Nat) : ∀ (n : Int) (e : Bool), (stripWs p n e).Sublist p := by
  induction p with
  | nil => intro n e; simp [stripWs]
  | cons ch rest ih =>
    intro n e
    rw [stripWs_cons ch rest]
    split
    · exact (ih _ _).cons_cons _
    · split
      · exact (ih _ _).cons_cons _
      · split
        · exact (ih _ _).cons_cons _
        · split
          · exact (ih _ _).cons _
          · exact (ih _ _).cons_cons _

theorem stripWs_id (p : List Nat) (h : p.all (fun c => !isWs4 c) = true) : ∀ (n : Int) (e : Bool),
    stripWs p n e = p := by
  induction p with
  | nil => intro n e; simp [stripWs]
  | cons ch rest ih =>
    intro n e
    simp only [List.all_cons, Bool.and_eq_true] at h
    have h1 := h.1
    have ih := ih h.2
    rw [stripWs_cons ch rest]
    have : (ch == 9 || ch == 10 || ch == 13 || ch == 32) = false := by
      simpa [isWs4] using h1
    simp [this, ih]

theorem stripWs_ws_not_special (c : Nat) (hc : isWs4 c = true) : c ≠ 92 ∧ c ≠ 91 ∧ c ≠ 93 := by
  simp only [isWs4, Bool.or_eq_true, beq_iff_eq] at hc
  omega


/-! ## C16 -/

theorem Out.ofFailed_ne_err {α : Type} (c : Nat) (e : Err) : (Out.ofFailed c : Out α) ≠ .err e := by
  unfold Out.ofFailed; split <;> simp

theorem replaceLoop_err {σ : Type} (M : MatcherI σ) (subst : Subst σ) (input : List Nat) (literal : Bool) :
    ∀ (fuel pos : Nat) (st : σ) (first simple : Bool) (acc : List Nat) (e : Err),
      replaceLoop M subst input literal fuel pos st first simple acc = .err e → e = .invalidReplacement := by
  intro fuel
  induction fuel with
  | zero => intro pos st first simple acc e h; simp [replaceLoop] at h
  | succ f ih =>
    intro pos st first simple acc e h
    simp only [replaceLoop] at h
    repeat' (split at h)
    all_goals first
      | exact absurd h (Out.ofFailed_ne_err _ _)
      | (simp at h; done)
      | (simp at h; exact h.symm)
      | exact ih _ _ _ _ _ _ h

theorem tokenNext_ne_err {σ : Type} (M : MatcherI σ) (input : List Nat) (pe : Option Nat) (st : σ) (e : Err) :
    (tokenNext M input pe st).1 ≠ .err e := by
  unfold tokenNext
  split
  · simp
  · split
    · split
      · exact Out.ofFailed_ne_err _ _
      · split
        · simp
        · split <;> simp
    · split
      · exact Out.ofFailed_ne_err _ _
      · simp

theorem tokenLoop_ne_err {σ : Type} (M : MatcherI σ) (input : List Nat) :
    ∀ (limit : Nat) (pe : Option Nat) (st : σ) (acc : List (List Nat)) (e : Err),
      tokenLoop M input limit pe st acc ≠ .err e := by
  intro limit
  induction limit with
  | zero =>
    intro pe st acc e
    unfold tokenLoop
    split <;> try simp
    rename_i h
    exact absurd (congrArg Prod.fst h) (tokenNext_ne_err _ _ _ _ _)
  | succ l ih =>
    intro pe st acc e
    unfold tokenLoop
    split <;> try simp
    · exact ih _ _ _ _
    · rename_i h
      exact absurd (congrArg Prod.fst h) (tokenNext_ne_err _ _ _ _ _)

theorem analyzeNext_err {σ : Type} (M : MatcherI σ) (entry : σ → List Nat → Out (List MEntry))
    (hentry : ∀ st t e, entry st t ≠ .err e) (input : List Nat) (a : AState σ) (e : Err) :
    (analyzeNext M entry input a).1 ≠ .err e := by
  unfold analyzeNext
  split
  · simp
  · split
    · simp only
      split
      · split <;> try simp
        rename_i h; exact absurd h (hentry _ _ _)
      · simp
    · simp only
      split
      · simp
      · split
        · split
          · exact Out.ofFailed_ne_err _ _
          · split
            · split
              · split <;> try simp
                rename_i h; exact absurd h (hentry _ _ _)
              · split <;> simp
            · simp
        · split
          · exact Out.ofFailed_ne_err _ _
          · split <;> simp

theorem analyzeLoop_ne_err {σ : Type} (M : MatcherI σ) (entry : σ → List Nat → Out (List MEntry))
    (hentry : ∀ st t e, entry st t ≠ .err e) (input : List Nat) :
    ∀ (limit : Nat) (a : AState σ) (acc : List AEntry) (e : Err),
      analyzeLoop M entry input limit a acc ≠ .err e := by
  intro limit
  induction limit with
  | zero =>
    intro a acc e
    unfold analyzeLoop
    split <;> try simp
    rename_i h
    exact absurd (congrArg Prod.fst h) (analyzeNext_err _ _ hentry _ _ _)
  | succ l ih =>
    intro a acc e
    unfold analyzeLoop
    split <;> try simp
    · exact ih _ _ _
    · rename_i h
      exact absurd (congrArg Prod.fst h) (analyzeNext_err _ _ hentry _ _ _)

theorem processMatch_ne_err (tbl : List (Nat × Nat)) (st : St) (cur : List Nat) (e : Err) :
    processMatch tbl st cur ≠ .err e := by
  unfold processMatch
  split
  · simp
  · simp only
    split
    · simp
    · split
      · simp
      · split <;> simp

theorem isMatch_ne_err (pr : Prog) (lower : Nat → Nat) (input : List Nat) (e : Err) :
    pr.isMatch lower input ≠ .err e := by
  unfold Prog.isMatch
  split
  split
  · exact Out.ofFailed_ne_err _ _
  · simp


/-! ### `OpR`: positions only move forward; zero-length members -/

theorem IterR_mono {R : Nat → Nat → Prop} (hR : ∀ a b, R a b → a ≤ b) {k p q : Nat} (h : IterR R k p q) : p ≤ q := by
  induction h with
  | zero p => exact Nat.le_refl _
  | succ _ hr ih => exact Nat.le_trans ih (hR _ _ hr)

theorem IterR_zero {R R' : Nat → Nat → Prop} (hR : ∀ a b, R a b → a ≤ b) (h0 : ∀ i, R i i → R' 0 0)
    {k p q : Nat} (h : IterR R k p q) : p = q → IterR R' k 0 0 := by
  induction h with
  | zero p => intro _; exact .zero 0
  | @succ k p q r hi hr ih =>
    intro hpr
    have h1 := IterR_mono hR hi
    have h2 := hR _ _ hr
    have hq : p = q := by omega
    have hqr : q = r := by omega
    subst hqr
    exact .succ (ih hq) (h0 _ hr)

mutual
theorem OpR_mono (ctx : Ctx) : ∀ (op : Op) (p q : Nat), OpR ctx op p q → p ≤ q
  | .bol, p, q, h => by simp only [OpR] at h; omega
  | .eol, p, q, h => by simp only [OpR] at h; omega
  | .nothing, p, q, h => by simp only [OpR] at h; omega
  | .endProgram, p, q, h => by simp only [OpR] at h; omega
  | .atom cs, p, q, h => by simp only [OpR] at h; omega
  | .cls rs, p, q, h => by simp only [OpR] at h; omega
  | .backref _, p, q, h => by simp only [OpR] at h; omega
  | .capture _ c, p, q, h => by simp only [OpR] at h; exact OpR_mono ctx c p q h
  | .choice bs, p, q, h => by simp only [OpR] at h; exact OpRAny_mono ctx bs p q h
  | .seq ops, p, q, h => by simp only [OpR] at h; exact OpRSeq_mono ctx ops p q h
  | .rep _ c mn mx _, p, q, h => by
      simp only [OpR] at h; obtain ⟨k, _, _, hk⟩ := h
      exact IterR_mono (fun a b => OpR_mono ctx c a b) hk
  | .gfixed c mn mx _, p, q, h => by
      simp only [OpR] at h; obtain ⟨k, _, _, hk⟩ := h
      exact IterR_mono (fun a b => OpR_mono ctx c a b) hk
  | .rfixed c mn mx _, p, q, h => by
      simp only [OpR] at h; obtain ⟨k, _, _, hk⟩ := h
      exact IterR_mono (fun a b => OpR_mono ctx c a b) hk
  | .unamb c mn mx, p, q, h => by
      simp only [OpR] at h; obtain ⟨k, _, _, hk⟩ := h
      exact IterR_mono (fun a b => OpR_mono ctx c a b) hk
termination_by structural op => op
theorem OpRAny_mono (ctx : Ctx) : ∀ (l : List Op) (p q : Nat), OpRAny ctx l p q → p ≤ q
  | [], p, q, h => by simp only [OpRAny] at h
  | b :: bs, p, q, h => by
      simp only [OpRAny] at h
      rcases h with h | h
      · exact OpR_mono ctx b p q h
      · exact OpRAny_mono ctx bs p q h
termination_by structural l => l
theorem OpRSeq_mono (ctx : Ctx) : ∀ (l : List Op) (p q : Nat), OpRSeq ctx l p q → p ≤ q
  | [], p, q, h => by simp only [OpRSeq] at h; omega
  | o :: os, p, q, h => by
      simp only [OpRSeq] at h
      obtain ⟨m, h1, h2⟩ := h
      exact Nat.le_trans (OpR_mono ctx o p m h1) (OpRSeq_mono ctx os m q h2)
termination_by structural l => l
end


/-- the context with the input replaced by the empty string -/
abbrev Ctx.onEmpty (ctx : Ctx) : Ctx := { ctx with input := [] }

mutual
theorem OpR_zero (ctx : Ctx) : ∀ (op : Op) (i : Nat), OpR ctx op i i → OpR ctx.onEmpty op 0 0
  | .bol, i, h => by simp [OpR]
  | .eol, i, h => by simp [OpR, Ctx.len]
  | .nothing, i, h => by simp [OpR]
  | .endProgram, i, h => by simp [OpR]
  | .atom cs, i, h => by
      simp only [OpR] at h
      have : cs = [] := List.eq_nil_of_length_eq_zero (by omega)
      subst this
      simp [OpR, prefixMatch]
  | .cls rs, i, h => by simp only [OpR] at h; omega
  | .backref _, i, h => by simp [OpR]
  | .capture _ c, i, h => by simp only [OpR] at h ⊢; exact OpR_zero ctx c i h
  | .choice bs, i, h => by simp only [OpR] at h ⊢; exact OpRAny_zero ctx bs i h
  | .seq ops, i, h => by simp only [OpR] at h ⊢; exact OpRSeq_zero ctx ops i h
  | .rep _ c mn mx _, i, h => by
      simp only [OpR] at h ⊢; obtain ⟨k, h1, h2, hk⟩ := h
      exact ⟨k, h1, h2, IterR_zero (fun a b => OpR_mono ctx c a b) (fun j => OpR_zero ctx c j) hk rfl⟩
  | .gfixed c mn mx _, i, h => by
      simp only [OpR] at h ⊢; obtain ⟨k, h1, h2, hk⟩ := h
      exact ⟨k, h1, h2, IterR_zero (fun a b => OpR_mono ctx c a b) (fun j => OpR_zero ctx c j) hk rfl⟩
  | .rfixed c mn mx _, i, h => by
      simp only [OpR] at h ⊢; obtain ⟨k, h1, h2, hk⟩ := h
      exact ⟨k, h1, h2, IterR_zero (fun a b => OpR_mono ctx c a b) (fun j => OpR_zero ctx c j) hk rfl⟩
  | .unamb c mn mx, i, h => by
      simp only [OpR] at h ⊢; obtain ⟨k, h1, h2, hk⟩ := h
      exact ⟨k, h1, h2, IterR_zero (fun a b => OpR_mono ctx c a b) (fun j => OpR_zero ctx c j) hk rfl⟩
termination_by structural op => op
theorem OpRAny_zero (ctx : Ctx) : ∀ (l : List Op) (i : Nat), OpRAny ctx l i i → OpRAny ctx.onEmpty l 0 0
  | [], i, h => by simp only [OpRAny] at h
  | b :: bs, i, h => by
      simp only [OpRAny] at h ⊢
      rcases h with h | h
      · exact .inl (OpR_zero ctx b i h)
      · exact .inr (OpRAny_zero ctx bs i h)
termination_by structural l => l
theorem OpRSeq_zero (ctx : Ctx) : ∀ (l : List Op) (i : Nat), OpRSeq ctx l i i → OpRSeq ctx.onEmpty l 0 0
  | [], i, h => by simp [OpRSeq]
  | o :: os, i, h => by
      simp only [OpRSeq] at h ⊢
      obtain ⟨m, h1, h2⟩ := h
      have a1 := OpR_mono ctx o i m h1
      have a2 := OpRSeq_mono ctx os m i h2
      have : m = i := by omega
      subst this
      exact ⟨0, OpR_zero ctx o m h1, OpRSeq_zero ctx os m h2⟩
termination_by structural l => l
end



/-! ## C07: flags -/

def isMainFlag' (xsd : Bool) (c : Nat) : Bool :=
  c == 105 || c == 109 || c == 115 || c == 120 || (c == 113 && !xsd)
def isTailFlag' (c : Nat) : Bool := c == 103 || c == 107 || c == 75
def flagsOK' (xsd : Bool) : List Nat → Bool
  | [] => true
  | c :: cs => if c == 59 then cs.all isTailFlag' else isMainFlag' xsd c && flagsOK' xsd cs

theorem parseFlagsTail_isSome (cs : List Nat) : ∀ r : Flags, (parseFlagsTail cs r).isSome = cs.all isTailFlag' := by
  induction cs with
  | nil => intro r; simp [parseFlagsTail]
  | cons c cs ih =>
    intro r
    simp only [parseFlagsTail, List.all_cons, isTailFlag']
    by_cases h1 : c = 103
    · simp [h1, ih]
    · by_cases h2 : c = 107
      · simp [h2, ih]
      · by_cases h3 : c = 75
        · simp [h3, ih]
        · simp [h1, h2, h3]

theorem parseFlagsGo_isSome (fs : List Nat) : ∀ r : Flags, (parseFlagsGo fs r).isSome = flagsOK' r.xsd fs := by
  induction fs with
  | nil => intro r; simp [parseFlagsGo, flagsOK']
  | cons c cs ih =>
    intro r
    simp only [parseFlagsGo, flagsOK', isMainFlag']
    by_cases h0 : c = 59
    · simp [h0, parseFlagsTail_isSome]
    · by_cases h1 : c = 105
      · simp [h1, ih]
      · by_cases h2 : c = 109
        · simp [h2, ih]
        · by_cases h3 : c = 115
          · simp [h3, ih]
          · by_cases h4 : c = 113
            · cases hx : r.xsd <;> simp [h4, ih]
            · by_cases h5 : c = 120
              · simp [h5, ih]
              · simp [h0, h1, h2, h3, h4, h5]

theorem parseFlagsTail_values (cs : List Nat) : ∀ (r fl : Flags), parseFlagsTail cs r = some fl →
    fl.xsd = r.xsd ∧ fl.caseBlind = r.caseBlind ∧ fl.multiLine = r.multiLine ∧ fl.singleLine = r.singleLine ∧
    fl.allowWs = r.allowWs ∧ fl.literal = r.literal := by
  induction cs with
  | nil => intro r fl h; simp [parseFlagsTail] at h; subst h; simp
  | cons c cs ih =>
    intro r fl h
    simp only [parseFlagsTail] at h
    repeat' (split at h)
    all_goals first
      | (simp at h; done)
      | simpa using ih _ _ h

theorem parseFlagsGo_values (fs : List Nat) : ∀ (r fl : Flags), parseFlagsGo fs r = some fl →
    fl.xsd = r.xsd ∧
    fl.caseBlind = (r.caseBlind || (fs.takeWhile (· != 59)).contains 105) ∧
    fl.multiLine = (r.multiLine || (fs.takeWhile (· != 59)).contains 109) ∧
    fl.singleLine = (r.singleLine || (fs.takeWhile (· != 59)).contains 115) ∧
    fl.allowWs = (r.allowWs || (fs.takeWhile (· != 59)).contains 120) ∧
    fl.literal = (r.literal || (fs.takeWhile (· != 59)).contains 113) := by
  induction fs with
  | nil => intro r fl h; simp [parseFlagsGo] at h; subst h; simp
  | cons c cs ih =>
    intro r fl h
    simp only [parseFlagsGo] at h
    by_cases h0 : c = 59
    · simp only [h0, beq_self_eq_true, if_true] at h
      have := parseFlagsTail_values _ _ _ h
      simpa [h0, List.takeWhile_cons] using this
    · by_cases h1 : c = 105
      · subst h1; simp at h; have := ih _ _ h; simp at this ⊢; exact this
      · by_cases h2 : c = 109
        · subst h2; simp at h; have := ih _ _ h; simp at this ⊢; exact this
        · by_cases h3 : c = 115
          · subst h3; simp at h; have := ih _ _ h; simp at this ⊢; exact this
          · by_cases h4 : c = 113
            · subst h4; simp at h; have := ih _ _ h.2; simp at this ⊢; exact this
            · by_cases h5 : c = 120
              · subst h5; simp at h; have := ih _ _ h; simp at this ⊢; exact this
              · simp [h0, h1, h2, h3, h4, h5] at h

theorem parseFlagsGo_unknown (pre post : List Nat) (c : Nat) (xsd : Bool)
    (hpre : pre.all (isMainFlag' xsd) = true) (hc : isMainFlag' xsd c = false) (hsemi : c ≠ 59) :
    ∀ r : Flags, r.xsd = xsd → parseFlagsGo (pre ++ c :: post) r = none := by
  intro r hr
  have h1 := parseFlagsGo_isSome (pre ++ c :: post) r
  have h2 : flagsOK' r.xsd (pre ++ c :: post) = false := by
    rw [hr]
    clear h1
    induction pre with
    | nil => simp [flagsOK', hsemi, hc]
    | cons a pre ih =>
      simp only [List.all_cons, Bool.and_eq_true] at hpre
      have ha : a ≠ 59 := by
        intro h; subst h; have := hpre.1; simp [isMainFlag'] at this
      simp [flagsOK', ha, ih hpre.2]
  rw [h2] at h1
  simpa using h1


/-! ## C07: `{m,n}` -/

theorem PC.drop_cons {c : PC} {i x : Nat} {t : List Nat} (h : c.pat.drop i = x :: t) :
    i < c.len ∧ c.at i = x ∧ c.pat.drop (i + 1) = t := by
  have hlt : i < c.pat.length := by
    apply Classical.byContradiction; intro hn
    rw [List.drop_eq_nil_of_le (by omega)] at h; cases h
  refine ⟨hlt, ?_, ?_⟩
  · have := List.getElem_cons_drop (as := c.pat) (i := i) hlt
    rw [h] at this
    simp only [PC.at, List.getD_eq_getElem?_getD, List.getElem?_eq_getElem hlt, Option.getD_some]
    exact (List.cons.inj this).1
  · rw [← List.drop_drop, h]; rfl

theorem PC.drop_nil {c : PC} {i : Nat} (h : c.pat.drop i = []) : ¬ i < c.len := by
  intro hlt
  have : (c.pat.drop i).length = c.pat.length - i := List.length_drop
  rw [h] at this; simp [PC.len] at *; omega

theorem PC.drop_append {c : PC} {i : Nat} {ds rest : List Nat} (h : c.pat.drop i = ds ++ rest) :
    c.pat.drop (i + ds.length) = rest ∧ ds.length ≤ c.len := by
  constructor
  · rw [← List.drop_drop, h, List.drop_left]
  · have : (c.pat.drop i).length = c.pat.length - i := List.length_drop
    rw [h, List.length_append] at this
    simp only [PC.len]; omega

theorem takeDigitRun_spec (c : PC) (ds : List Nat) :
    ∀ (rest : List Nat) (fuel idx acc : Nat), ds.all isDigit = true →
      (∀ x, rest.head? = some x → isDigit x = false) →
      c.pat.drop idx = ds ++ rest → ds.length < fuel →
      takeDigitRun c fuel idx acc = (idx + ds.length, ds.foldl (fun n d => n * 10 + (d - 48)) acc) := by
  induction ds with
  | nil =>
    intro rest fuel idx acc _ hrest hpat hfuel
    obtain ⟨f, rfl⟩ : ∃ f, fuel = f + 1 := ⟨fuel - 1, by simp at hfuel; omega⟩
    simp only [List.nil_append] at hpat
    simp only [takeDigitRun, List.length_nil, Nat.add_zero, List.foldl_nil]
    cases rest with
    | nil => simp [PC.drop_nil hpat]
    | cons x t =>
      have := PC.drop_cons hpat
      simp [this.1, this.2.1, hrest x rfl]
  | cons d ds ih =>
    intro rest fuel idx acc hds hrest hpat hfuel
    obtain ⟨f, rfl⟩ : ∃ f, fuel = f + 1 := ⟨fuel - 1, by simp at hfuel; omega⟩
    simp only [List.cons_append] at hpat
    simp only [List.all_cons, Bool.and_eq_true] at hds
    have h3 := PC.drop_cons hpat
    simp only [takeDigitRun, h3.1, h3.2.1, hds.1, decide_true, Bool.and_self, if_true]
    rw [ih rest f (idx + 1) _ hds.2 hrest h3.2.2 (by simp at hfuel; omega)]
    simp only [List.length_cons, List.foldl_cons]
    congr 1; omega

theorem takeDigitRun_ge (c : PC) : ∀ (fuel idx acc : Nat), idx ≤ (takeDigitRun c fuel idx acc).1 := by
  intro fuel
  induction fuel with
  | zero => intro idx acc; simp [takeDigitRun]
  | succ f ih =>
    intro idx acc
    simp only [takeDigitRun]
    split
    · exact Nat.le_trans (Nat.le_succ _) (ih _ _)
    · exact Nat.le_refl _


/-- the common first part of `bracket`: at `{` followed by the numeral `ds` -/
theorem bracket_head (c : PC) (s : PS) (ds rest : List Nat) (hne : ds ≠ []) (hds : ds.all isDigit = true)
    (hrest : ∀ x, rest.head? = some x → isDigit x = false)
    (hpat : c.pat.drop s.idx = 123 :: (ds ++ rest)) :
    s.idx < c.len ∧ c.at s.idx = 123 ∧ s.idx + 1 < c.len ∧ isDigit (c.at (s.idx + 1)) = true ∧
    takeDigitRun c (c.len + 1) (s.idx + 1) 0 = (s.idx + 1 + ds.length, Spec.digitsVal ds) ∧
    c.pat.drop (s.idx + 1 + ds.length) = rest := by
  have h1 := PC.drop_cons hpat
  have h2 := PC.drop_append h1.2.2
  refine ⟨h1.1, h1.2.1, ?_, ?_, ?_, h2.1⟩
  · cases ds with
    | nil => exact absurd rfl hne
    | cons d ds => exact (PC.drop_cons (by simpa using h1.2.2)).1
  · cases ds with
    | nil => exact absurd rfl hne
    | cons d ds =>
      rw [(PC.drop_cons (by simpa using h1.2.2)).2.1]
      simp only [List.all_cons, Bool.and_eq_true] at hds
      exact hds.1
  · exact takeDigitRun_spec c ds rest _ _ 0 hds hrest h1.2.2 (by have := h2.2; omega)


theorem isDigit_125 : isDigit 125 = false := by decide
theorem isDigit_44 : isDigit 44 = false := by decide

theorem bracket_exact' (c : PC) (s : PS) (ds rest : List Nat) (hne : ds ≠ []) (hds : ds.all isDigit = true)
    (hn : Spec.digitsVal ds ≤ usizeMax)
    (hpat : c.pat.drop s.idx = 123 :: (ds ++ 125 :: rest)) :
    bracket c s = .ok () { s with idx := s.idx + ds.length + 2, bmin := Spec.digitsVal ds, bmax := Spec.digitsVal ds } := by
  obtain ⟨a1, a2, a3, a4, a5, a6⟩ := bracket_head c s ds (125 :: rest) hne hds
    (by intro x hx; simp at hx; subst hx; exact isDigit_125) hpat
  have b := PC.drop_cons a6
  have e : s.idx + 1 + ds.length + 1 = s.idx + ds.length + 2 := by omega
  unfold bracket
  simp [Nat.not_le.mpr a1, a2, Nat.not_le.mpr a3, a4, a5, Nat.not_lt.mpr hn, Nat.not_le.mpr b.1, b.2.1, e]


theorem bracket_open' (c : PC) (s : PS) (ds rest : List Nat) (hne : ds ≠ []) (hds : ds.all isDigit = true)
    (hn : Spec.digitsVal ds ≤ usizeMax)
    (hpat : c.pat.drop s.idx = 123 :: (ds ++ 44 :: 125 :: rest)) :
    bracket c s = .ok () { s with idx := s.idx + ds.length + 3, bmin := Spec.digitsVal ds, bmax := usizeMax } := by
  obtain ⟨a1, a2, a3, a4, a5, a6⟩ := bracket_head c s ds (44 :: 125 :: rest) hne hds
    (by intro x hx; simp at hx; subst hx; exact isDigit_44) hpat
  have b := PC.drop_cons a6
  have b' := PC.drop_cons b.2.2
  have e : s.idx + 1 + ds.length + 1 + 1 = s.idx + ds.length + 3 := by omega
  unfold bracket
  simp [Nat.not_le.mpr a1, a2, Nat.not_le.mpr a3, a4, a5, Nat.not_lt.mpr hn, Nat.not_le.mpr b.1, b.2.1,
    Nat.not_le.mpr b'.1, b'.2.1, e]

theorem bracket_range' (c : PC) (s : PS) (ds es rest : List Nat) (hne : ds ≠ []) (hds : ds.all isDigit = true)
    (hne' : es ≠ []) (hes : es.all isDigit = true)
    (hn : Spec.digitsVal ds ≤ usizeMax) (hm : Spec.digitsVal es ≤ usizeMax)
    (hpat : c.pat.drop s.idx = 123 :: (ds ++ 44 :: (es ++ 125 :: rest))) :
    bracket c s = if Spec.digitsVal ds ≤ Spec.digitsVal es
                  then .ok () { s with idx := s.idx + ds.length + es.length + 3, bmin := Spec.digitsVal ds, bmax := Spec.digitsVal es }
                  else .err .syntax := by
  obtain ⟨a1, a2, a3, a4, a5, a6⟩ := bracket_head c s ds (44 :: (es ++ 125 :: rest)) hne hds
    (by intro x hx; simp at hx; subst hx; exact isDigit_44) hpat
  have b := PC.drop_cons a6
  -- the second numeral: view position `s.idx + 1 + ds.length` as a fake `{`-position
  have b2 := PC.drop_append b.2.2
  have b3 := PC.drop_cons b2.1
  obtain ⟨d, es', rfl⟩ : ∃ d es', es = d :: es' := by
    cases es with
    | nil => exact absurd rfl hne'
    | cons d es' => exact ⟨d, es', rfl⟩
  have b4 := PC.drop_cons (by simpa using b.2.2 : c.pat.drop (s.idx + 1 + ds.length + 1) = d :: (es' ++ 125 :: rest))
  have hd : isDigit d = true := by simp only [List.all_cons, Bool.and_eq_true] at hes; exact hes.1
  have hd125 : d ≠ 125 := by intro h; subst h; exact absurd hd (by decide)
  have t := takeDigitRun_spec c (d :: es') (125 :: rest) (c.len + 1) (s.idx + 1 + ds.length + 1) 0 hes
    (by intro x hx; simp at hx; subst hx; exact isDigit_125) b.2.2 (by have := b2.2; omega)
  have e : s.idx + 1 + ds.length + 1 + (d :: es').length + 1 = s.idx + ds.length + (d :: es').length + 3 := by omega
  unfold bracket
  simp only [Nat.not_le.mpr a1, a2, Nat.not_le.mpr a3, a4, a5, Nat.not_lt.mpr hn, Nat.not_le.mpr b.1, b.2.1,
    Nat.not_le.mpr b4.1, b4.2.1, hd, hd125, t, ge_iff_le, if_false, bne_self_eq_false, Bool.false_eq_true,
    Bool.or_self, Bool.not_true, decide_false, gt_iff_lt, beq_iff_eq]
  have hv : List.foldl (fun n d => n * 10 + (d - 48)) 0 (d :: es') = Spec.digitsVal (d :: es') := rfl
  rw [hv, e]
  have b3a := b3.1
  have b3b := b3.2.1
  simp only [show (44 : Nat) = 125 ↔ False by decide, if_false, Nat.not_lt.mpr hm, Nat.not_le.mpr b3a, b3b,
    decide_false, bne_self_eq_false, Bool.or_self, Bool.false_eq_true]
  by_cases hle : Spec.digitsVal ds ≤ Spec.digitsVal (d :: es')
  · simp only [hle, Nat.not_lt.mpr hle, if_true, if_false]
  · simp only [hle, Nat.not_le.mp hle, if_true, if_false]


theorem bracket_overflow' (c : PC) (s : PS) (ds rest : List Nat) (hne : ds ≠ []) (hds : ds.all isDigit = true)
    (hn : Spec.digitsVal ds > usizeMax) (hrest : ∀ x, rest.head? = some x → isDigit x = false)
    (hpat : c.pat.drop s.idx = 123 :: (ds ++ rest)) :
    bracket c s = .err .syntax := by
  obtain ⟨a1, a2, a3, a4, a5, a6⟩ := bracket_head c s ds rest hne hds hrest hpat
  unfold bracket
  simp [Nat.not_le.mpr a1, a2, Nat.not_le.mpr a3, a4, a5, hn]


/-- the part of `bracket` after `{m,` -/
def bracketTail (c : PC) (s : PS) (mn idx : Nat) : PRes Unit :=
  let idx := idx + 1
  if idx ≥ c.len then .err .syntax else
  if c.at idx == 125 then .ok () { s with idx := idx + 1, bmin := mn, bmax := usizeMax } else
  if !isDigit (c.at idx) then .err .syntax else
  let r := takeDigitRun c (c.len + 1) idx 0
  let idx := r.1
  let mx := r.2
  if mx > usizeMax then .err .syntax else
  if mx < mn then .err .syntax else
  if idx ≥ c.len || c.at idx != 125 then .err .syntax else
  .ok () { s with idx := idx + 1, bmin := mn, bmax := mx }

theorem bracket_eq (c : PC) (s : PS) : bracket c s =
  if s.idx ≥ c.len then .err .internal else
  if c.at s.idx != 123 then .err .internal else
  if s.idx + 1 ≥ c.len || !isDigit (c.at (s.idx + 1)) then .err .syntax else
  let r := takeDigitRun c (c.len + 1) (s.idx + 1) 0
  if r.2 > usizeMax then .err .syntax else
  if r.1 ≥ c.len then .err .syntax else
  if c.at r.1 == 125 then .ok () { s with idx := r.1 + 1, bmin := r.2, bmax := r.2 } else
  if c.at r.1 != 44 then .err .syntax else bracketTail c s r.2 r.1 := rfl

theorem bracketTail_ne_internal (c : PC) (s : PS) (mn idx : Nat) (e : Err) (h : bracketTail c s mn idx = .err e) :
    e = .syntax := by
  simp only [bracketTail] at h
  repeat' (split at h)
  all_goals first
    | (simp at h; done)
    | (simp at h; exact h.symm)


/-- `bracket` reports only `Syntax`, and `Internal` only when not called at a `{` -/
theorem bracket_err (c : PC) (s : PS) (e : Err) (h : bracket c s = .err e) :
    e = .syntax ∨ (e = .internal ∧ ¬ (s.idx < c.len ∧ c.at s.idx = 123)) := by
  rw [bracket_eq] at h
  simp only [] at h
  repeat' (split at h)
  all_goals first
    | (simp at h; done)
    | (simp at h; exact .inl h.symm)
    | exact .inl (bracketTail_ne_internal _ _ _ _ _ h)
    | (simp only [PRes.err.injEq] at h; subst h; right; refine ⟨rfl, ?_⟩; rintro ⟨h1, h2⟩; omega)
    | (rename_i hne; simp only [PRes.err.injEq] at h; subst h; right; refine ⟨rfl, ?_⟩; rintro ⟨h1, h2⟩; simp [h2] at hne)

theorem bracketTail_ok (c : PC) (s s' : PS) (mn idx : Nat) (hmn : mn ≤ usizeMax) (h : bracketTail c s mn idx = .ok () s') :
    s'.bmin ≤ s'.bmax ∧ s'.bmax ≤ usizeMax ∧ idx < s'.idx := by
  have g2 := takeDigitRun_ge c (c.len + 1) (idx + 1) 0
  simp only [bracketTail] at h
  repeat' (split at h)
  all_goals first
    | (simp at h; done)
    | (simp only [PRes.ok.injEq, true_and] at h; subst h; dsimp only; omega)

theorem bracket_ok_bounds' (c : PC) (s s' : PS) (h : bracket c s = .ok () s') :
    s'.bmin ≤ s'.bmax ∧ s'.bmax ≤ usizeMax ∧ s.idx < s'.idx := by
  have g1 := takeDigitRun_ge c (c.len + 1) (s.idx + 1) 0
  rw [bracket_eq] at h
  simp only [] at h
  repeat' (split at h)
  all_goals first
    | (simp at h; done)
    | (simp only [PRes.ok.injEq, true_and] at h; subst h; dsimp only; omega)
    | (have := bracketTail_ok _ _ _ _ _ (by omega) h; omega)


/-! ## C07: the parser reports only `Syntax` and `Internal` -/

/-- a parser result that is not an error of a kind other than `Syntax` / `Internal` -/
inductive PRes.Good {α : Type} : PRes α → Prop
  | ok (a : α) (s : PS) : Good (.ok a s)
  | syn : Good (.err .syntax)
  | int : Good (.err .internal)

theorem PRes.Good.err {α : Type} {r : PRes α} (h : r.Good) (e : Err) (heq : r = .err e) :
    e = .syntax ∨ e = .internal := by
  cases h with
  | ok a s => cases heq
  | syn => cases heq; exact .inl rfl
  | int => cases heq; exact .inr rfl

theorem PRes.good_of {α β : Type} {r : PRes α} {e : Err} (h : r.Good) (heq : r = .err e) :
    (PRes.err e : PRes β).Good := by
  rcases h.err e heq with rfl | rfl
  · exact .syn
  · exact .int

theorem bracket_good (c : PC) (s : PS) : (bracket c s).Good := by
  cases h : bracket c s with
  | ok a s' => exact .ok a s'
  | err e =>
    rcases bracket_err c s e h with rfl | ⟨rfl, _⟩
    · exact .syn
    · exact .int

theorem PRes.good_ite {α : Type} {p : Prop} [Decidable p] {a b : PRes α}
    (ha : p → a.Good) (hb : ¬ p → b.Good) : (if p then a else b).Good := by
  by_cases hp : p
  · rw [if_pos hp]; exact ha hp
  · rw [if_neg hp]; exact hb hp

/-- one step of case analysis on a goal `PRes.Good _` (linear in the depth of `if` chains);
    the listed facts are tried with up to four explicit arguments -/
syntax "good_step" "[" term,* "]" : tactic
macro_rules
  | `(tactic| good_step [$ts,*]) => do
    let alts ← ts.getElems.mapM fun t =>
      `(tactic| first | exact $t _ | exact $t _ _ | exact $t _ _ _ | exact $t _ _ _ _)
    `(tactic| first
      | with_reducible exact PRes.Good.ok _ _
      | with_reducible exact PRes.Good.syn
      | with_reducible exact PRes.Good.int
      | (with_reducible apply PRes.good_ite) <;> intro _
      | with_reducible (first | fail $[| $alts:tactic]*)
      | with_reducible refine PRes.good_of ?_ ‹_ = PRes.err _›
      | split)

theorem escape_good (c : PC) (s : PS) (b : Bool) : (escape c s b).Good := by
  simp only [escape]
  repeat' good_step []

theorem parseClass_classLoop_good (c : PC) : ∀ f : Nat,
    (∀ s, (parseClass c f s).Good) ∧ (∀ s k, (classLoop c f s k).Good) := by
  have hesc := escape_good c
  intro f
  induction f with
  | zero => exact ⟨fun s => by simp only [parseClass]; exact PRes.Good.int,
                   fun s k => by simp only [classLoop]; exact PRes.Good.int⟩
  | succ f ih =>
    obtain ⟨ih1, ih2⟩ := ih
    constructor
    · intro s
      simp only [parseClass]
      repeat' good_step [ih2]
    · intro s k
      simp only [classLoop]
      repeat' good_step [ih1, ih2, hesc]

theorem parseAtomGo_good (c : PC) : ∀ (f : Nat) (s : PS) (ub : List Nat), (parseAtomGo c f s ub).Good := by
  have hesc := escape_good c
  intro f
  induction f with
  | zero => intro s ub; simp only [parseAtomGo]; exact PRes.Good.ok _ _
  | succ f ih =>
    intro s ub
    simp only [parseAtomGo]
    repeat' good_step [ih, hesc]

theorem parseAtom_good (c : PC) (s : PS) : (parseAtom c s).Good := by
  have h := parseAtomGo_good c
  simp only [parseAtom]
  repeat' good_step [h]

theorem pieceQuant_good (c : PC) (ret : Op) (s : PS) : (pieceQuant c ret s).Good := by
  have h := bracket_good c
  simp only [pieceQuant]
  repeat' good_step [h]


theorem parser_good (c : PC) : ∀ f : Nat,
    (∀ s top, (parseExpr c f s top).Good) ∧ (∀ s acc, (parseBranches c f s acc).Good) ∧
    (∀ s cur, (parseBranch c f s cur).Good) ∧ (∀ s, (parseTerminal c f s).Good) := by
  have hesc := escape_good c
  have hcls := fun f => (parseClass_classLoop_good c f).1
  have hatom := parseAtom_good c
  have hpq := pieceQuant_good c
  intro f
  induction f with
  | zero =>
    refine ⟨fun s top => ?_, fun s acc => ?_, fun s cur => ?_, fun s => ?_⟩
    · simp only [parseExpr]; exact .int
    · simp only [parseBranches]; exact .int
    · simp only [parseBranch]; exact .int
    · simp only [parseTerminal]; exact .int
  | succ f ih =>
    obtain ⟨ihE, ihBs, ihB, ihT⟩ := ih
    refine ⟨fun s top => ?_, fun s acc => ?_, fun s cur => ?_, fun s => ?_⟩
    · simp only [parseExpr]
      repeat' good_step [ihB, ihBs]
    · simp only [parseBranches]
      repeat' good_step [ihB, ihBs]
    · simp only [parseBranch]
      repeat' good_step [ihT, hpq, ihB]
    · simp only [parseTerminal]
      repeat' good_step [hcls, ihE, hesc, hatom]

theorem parseExpr_good (c : PC) (f : Nat) (s : PS) (top : Bool) : (parseExpr c f s top).Good :=
  (parser_good c f).1 s top


/-! ### `compileCore`, `compileProg`, `Regex.new`: which errors can come out -/

theorem compileCore_err (env : Env) (fl : CFlags) (pat : List Nat) (opt : Bool) (e : Err)
    (h : compileCore env fl pat opt = .err e) : e = .syntax ∨ e = .internal := by
  simp only [compileCore] at h
  repeat' (split at h)
  all_goals first
    | (simp at h; done)
    | (simp only [Out.err.injEq] at h; subst h; exact .inl rfl)
    | (rename_i heq; simp only [Out.err.injEq] at h; subst h; exact (parseExpr_good _ _ _ _).err _ heq)

theorem compileProg_err (env : Env) (fl : Flags) (pat : List Nat) (opt : Bool) (e : Err)
    (h : compileProg env fl pat opt = .err e) : e = .syntax ∨ e = .internal :=
  compileCore_err _ _ _ _ _ h

/-- `Regex.new` fails with `Syntax`, `Internal` (from the compiler) or `InvalidFlags` (exactly when the
    flag string is rejected) -/
theorem Regex.new_err (env : Env) (p fs : List Nat) (xsd opt : Bool) (e : Err)
    (h : Regex.new env p fs xsd opt = .err e) :
    (e = .invalidFlags ∧ parseFlags fs xsd = none) ∨ ((e = .syntax ∨ e = .internal) ∧ (parseFlags fs xsd).isSome = true) := by
  simp only [Regex.new] at h
  split at h
  · rename_i hnone
    simp only [Out.err.injEq] at h; subst h; exact .inl ⟨rfl, hnone⟩
  · rename_i fl hsome
    right
    refine ⟨?_, by simp [hsome]⟩
    split at h
    · rename_i heq; simp only [Out.err.injEq] at h; subst h; exact compileProg_err _ _ _ _ _ heq
    · simp at h
    · simp at h
    · split at h
      · simp at h
      · rename_i heq; exact absurd heq (isMatch_ne_err _ _ _ _)
      · simp at h
      · simp at h

end Rx
