/-
  Proofs/StreamCalc — a calculus for resumption streams.
    `Step.All P s`   : every position `s` ever yields satisfies `P`, whatever states the consumer
                       hands back (soundness-style facts)
    `Step.Inv I s`   : every state `s` exposes (at a yield or at exhaustion) satisfies `I`, provided
                       the consumer hands back states satisfying `I` (state invariants)
    `Step.NoDiv s`   : `s` never reaches `.diverge`, whatever the consumer does
-/
import RxModel.Model.Engine
namespace Rx

inductive Step.All (P : Nat → Prop) : Step → Prop
  | nil (st) : All P (.nil st)
  | cons (n st r) : P n → (∀ st', All P (r st')) → All P (.cons n st r)
  | diverge : All P .diverge

inductive Step.Inv (I : St → Prop) : Step → Prop
  | nil (st) : I st → Inv I (.nil st)
  | cons (n st r) : I st → (∀ st', I st' → Inv I (r st')) → Inv I (.cons n st r)
  | diverge : Inv I .diverge

inductive Step.NoDiv : Step → Prop
  | nil (st) : NoDiv (.nil st)
  | cons (n st r) : (∀ st', NoDiv (r st')) → NoDiv (.cons n st r)

namespace Step.All
variable {P Q : Nat → Prop}

theorem mono (h : ∀ n, P n → Q n) {s : Step} (hs : s.All P) : s.All Q := by
  induction hs with
  | nil st => exact .nil st
  | cons n st r hn _ ih => exact .cons _ _ _ (h _ hn) ih
  | diverge => exact .diverge

theorem append {s : Step} {f : St → Step}
    (hs : s.All P) (hf : ∀ st, (f st).All P) : (s.append f).All P := by
  induction hs with
  | nil st => exact hf st
  | cons n st r hn _ ih => exact .cons _ _ _ hn ih
  | diverge => exact .diverge

theorem bind {s : Step} {f : Nat → St → Step}
    (hs : s.All P) (hf : ∀ n st, P n → (f n st).All Q) : (s.bind f).All Q := by
  induction hs with
  | nil st => exact .nil st
  | cons n st r hn _ ih => exact (hf n st hn).append ih
  | diverge => exact .diverge

theorem bindFR {s : Step} {f g : Nat → St → Step}
    (hs : s.All P) (hf : ∀ n st, P n → (f n st).All Q)
    (hg : ∀ n st, P n → (g n st).All Q) : (s.bindFR f g).All Q := by
  cases hs with
  | nil st => exact .nil st
  | cons n st r hn hr => exact (hf n st hn).append (fun st' => (hr st').bind hg)
  | diverge => exact .diverge

theorem mapSt {s : Step} {f : Nat → St → St} (hs : s.All P) : (s.mapSt f).All P := by
  induction hs with
  | nil st => exact .nil st
  | cons n st r hn _ ih => exact .cons _ _ _ hn ih
  | diverge => exact .diverge

theorem onNil {s : Step} {f : St → St} (hs : s.All P) : (s.onNil f).All P := by
  induction hs with
  | nil st => exact .nil _
  | cons n st r hn _ ih => exact .cons _ _ _ hn ih
  | diverge => exact .diverge

theorem force {s : Step} (hs : s.All P) : ∀ cnt cur, (s.force cnt cur).All P := by
  induction hs with
  | nil st => intro _ _; exact .nil _
  | cons n st r hn _ ih =>
    intro cnt cur
    refine .cons _ _ _ hn (fun st' => ?_)
    generalize (if (some n == cur) = true then cnt + 1 else 0) = c
    by_cases hc : c > 3
    · simp only [hc, if_true]; exact .nil _
    · simp only [hc, if_false]; exact ih st' _ _
  | diverge => intro _ _; exact .diverge

theorem once {n : Nat} {st : St} (h : P n) : (Step.once n st).All P :=
  .cons _ _ _ h (fun _ => .nil _)

end Step.All

/-- a generator is sound for a position relation `R` -/
def GenSound (g : Gen) (R : Nat → Nat → Prop) : Prop := ∀ p st, (g p st).All (R p)

/-- k-fold composition of a relation -/
inductive IterR (R : Nat → Nat → Prop) : Nat → Nat → Nat → Prop
  | zero (p) : IterR R 0 p p
  | succ {k p q r} : IterR R k p q → R q r → IterR R (k+1) p r

end Rx
