/-
  Proofs/SearchLemmas — helper lemmas for Props/SearchComplete: the search loop of
  `ReMatcher::matches` (Model/Search) is complete relative to completeness of the per-position
  engine test.

  The definitions `CompleteAt`, `Quiet`, `QuietAll`, `SearchFacts`, `Found`, `Outcome` live here
  (namespace `Rx.SearchComplete`) because the helper lemmas need them; Props/SearchComplete states
  the property theorems.
-/
import RxModel.Spec.OpLang
import RxModel.Model.Program
import RxModel.Model.Api
import RxModel.Props.C01
import RxModel.Props.C02
import RxModel.Props.C05
import RxModel.Props.C06
import RxModel.Props.C08
import RxModel.Props.C08b
import RxModel.Proofs.ApiLemmas
import RxModel.Proofs.WFLemmas
namespace Rx.SearchComplete
open Rx

/-! ## the parameters -/

/-- the engine decides membership at every start inside the input: pulling the first result of
    `sem ctx o` at `j` succeeds iff `o` has a match from `j`.  (`match_at`, `preHolds` and
    `findFrom` all test exactly "is the stream a `cons`", i.e. `(first1 …).1.isSome`; `match_at`
    first re-initialises the capture state, which is covered by quantifying over every state whose
    panic marker is clear.) -/
def CompleteAt (ctx : Ctx) (o : Op) : Prop :=
  ∀ j st, j ≤ ctx.len → st.panic = none →
    (((first1 (sem ctx o j st)).1.isSome = true) ↔ ∃ q, OpR ctx o j q)

/-- the engine test neither diverges nor raises the panic marker, at every start inside the input -/
def Quiet (ctx : Ctx) (o : Op) : Prop :=
  ∀ j st, j ≤ ctx.len → st.panic = none →
    sem ctx o j st ≠ .diverge ∧ (first1 (sem ctx o j st)).2.panic = none

/-- … at every start whatsoever (a precondition with a fixed position may be evaluated beyond the
    end of the input) -/
def QuietAll (ctx : Ctx) (o : Op) : Prop :=
  ∀ j st, st.panic = none →
    sem ctx o j st ≠ .diverge ∧ (first1 (sem ctx o j st)).2.panic = none

theorem QuietAll.quiet {ctx : Ctx} {o : Op} (h : QuietAll ctx o) : Quiet ctx o :=
  fun j st _ hst => h j st hst

/-- "`o` has a match starting at `j`" -/
def Has (ctx : Ctx) (o : Op) (j : Nat) : Prop := ∃ q, OpR ctx o j q

/-! ## one engine test -/

/-- the three-way case split behind every use of the stream by the search loop -/
theorem sem_cases {ctx : Ctx} {o : Op} (hC : CompleteAt ctx o) (hQ : Quiet ctx o)
    (j : Nat) (st : St) (hj : j ≤ ctx.len) (hst : st.panic = none) :
    (Has ctx o j ∧ ∃ n st' r, sem ctx o j st = .cons n st' r ∧ st'.panic = none) ∨
    (¬ Has ctx o j ∧ ∃ st', sem ctx o j st = .nil st' ∧ st'.panic = none) := by
  have h1 := hC j st hj hst
  have h2 := hQ j st hj hst
  cases hs : sem ctx o j st with
  | nil st' =>
    rw [hs] at h1 h2
    right
    refine ⟨fun hm => ?_, st', rfl, h2.2⟩
    have := h1.2 hm
    simp [first1] at this
  | cons n st' r =>
    rw [hs] at h1 h2
    left
    exact ⟨h1.1 rfl, n, st', r, rfl, h2.2⟩
  | diverge => exact absurd hs h2.1

theorem matchStart_panic (ctx : Ctx) (j : Nat) (st : St) : (matchStart ctx j st).panic = st.panic := by
  unfold matchStart
  simp only
  split <;> rfl

/-- `match_at(j)` on a clean state: succeeds iff there is a match from `j`; the state stays clean -/
theorem matchAt_cases {ctx : Ctx} {o : Op} (hC : CompleteAt ctx o) (hQ : Quiet ctx o)
    (j : Nat) (st : St) (hj : j ≤ ctx.len) (hst : st.panic = none) :
    (Has ctx o j ∧ ∃ st', matchAt ctx o j st = (true, st') ∧ st'.panic = none) ∨
    (¬ Has ctx o j ∧ ∃ st', matchAt ctx o j st = (false, st') ∧ st'.panic = none) := by
  have hp : (matchStart ctx j st).panic = none := by rw [matchStart_panic]; exact hst
  rw [matchAt_eq]
  rcases sem_cases hC hQ j (matchStart ctx j st) hj hp with ⟨hm, n, st', r, hs, hc⟩ | ⟨hm, st', hs, hc⟩
  · left
    rw [hs]
    exact ⟨hm, _, rfl, hc⟩
  · right
    rw [hs]
    exact ⟨hm, _, rfl, hc⟩

/-- the precondition test on a clean state, inside the input -/
theorem preHolds_cases {ctx : Ctx} {o : Op} (hC : CompleteAt ctx o) (hQ : Quiet ctx o)
    (j : Nat) (st : St) (hj : j ≤ ctx.len) (hst : st.panic = none) :
    (Has ctx o j ∧ ∃ st', preHolds ctx o j st = (true, st') ∧ st'.panic = none) ∨
    (¬ Has ctx o j ∧ ∃ st', preHolds ctx o j st = (false, st') ∧ st'.panic = none) := by
  unfold preHolds
  rcases sem_cases hC hQ j st hj hst with ⟨hm, n, st', r, hs, hc⟩ | ⟨hm, st', hs, hc⟩
  · left
    rw [hs]
    exact ⟨hm, _, rfl, hc⟩
  · right
    rw [hs]
    exact ⟨hm, _, rfl, hc⟩

/-- the precondition test keeps a clean state clean, at any position -/
theorem preHolds_clean {ctx : Ctx} {o : Op} (hQ : QuietAll ctx o) (j : Nat) (st : St)
    (hst : st.panic = none) : (preHolds ctx o j st).2.panic = none := by
  have h := hQ j st hst
  unfold preHolds
  cases hs : sem ctx o j st with
  | nil st' => rw [hs] at h; exact h.2
  | cons n st' r => rw [hs] at h; exact h.2
  | diverge => exact absurd hs h.1

/-! ## the candidate loop -/

/-- `tryCands` on a clean state: it stops at the FIRST candidate that has a match (and succeeds
    there), or no candidate has a match and it fails; the state stays clean either way -/
theorem tryCands_spec {ctx : Ctx} {o : Op} (hC : CompleteAt ctx o) (hQ : Quiet ctx o) :
    ∀ (cands : List Nat) (st : St), (∀ j ∈ cands, j ≤ ctx.len) → st.panic = none →
    (∃ pre j post stj st', cands = pre ++ j :: post ∧ (∀ k ∈ pre, ¬ Has ctx o k) ∧ Has ctx o j ∧
        tryCands ctx o cands st = (true, st') ∧ st'.panic = none ∧
        matchAt ctx o j stj = (true, st')) ∨
    ((∀ k ∈ cands, ¬ Has ctx o k) ∧ ∃ st', tryCands ctx o cands st = (false, st') ∧ st'.panic = none) := by
  intro cands
  induction cands with
  | nil =>
    intro st _ hst
    right
    exact ⟨fun k hk => (by cases hk), st, rfl, hst⟩
  | cons j js ih =>
    intro st hb hst
    have hj := hb j List.mem_cons_self
    have hb' : ∀ k ∈ js, k ≤ ctx.len := fun k hk => hb k (List.mem_cons_of_mem _ hk)
    rcases matchAt_cases hC hQ j st hj hst with ⟨hm, st', he, hc⟩ | ⟨hm, st1, he, hc⟩
    · left
      refine ⟨[], j, js, st, st', rfl, fun k hk => (by cases hk), hm, ?_, hc, he⟩
      unfold tryCands
      rw [he]
    · have hp : ¬ st1.panic.isSome = true := by rw [hc]; simp
      have hstep : tryCands ctx o (j :: js) st = tryCands ctx o js st1 := tryCands_cons_false he hp
      rcases ih st1 hb' hc with ⟨pre, j', post, stj, st', hcs, hpre, hmj, ht, hcl, hma⟩ | ⟨hall, st', ht, hcl⟩
      · left
        refine ⟨j :: pre, j', post, stj, st', by rw [hcs]; rfl, ?_, hmj, by rw [hstep]; exact ht, hcl, hma⟩
        intro k hk
        rcases List.mem_cons.1 hk with rfl | hk
        · exact hm
        · exact hpre k hk
      · right
        refine ⟨?_, st', by rw [hstep]; exact ht, hcl⟩
        intro k hk
        rcases List.mem_cons.1 hk with rfl | hk
        · exact hm
        · exact hall k hk

/-- what a search for the first match starting at or after `i` has to return: a clean state, and
    either `true` by a successful `match_at(j)` at the LEAST `j ≥ i` that has a match, or `false`
    and no `j ≥ i` (inside the input) has a match -/
def Outcome (ctx : Ctx) (o : Op) (i : Nat) (r : Bool × St) : Prop :=
  r.2.panic = none ∧
  ((r.1 = true ∧ ∃ j stj, i ≤ j ∧ j ≤ ctx.len ∧ Has ctx o j ∧ (∀ k, i ≤ k → k < j → ¬ Has ctx o k) ∧
      matchAt ctx o j stj = r) ∨
   (r.1 = false ∧ ∀ j, i ≤ j → j ≤ ctx.len → ¬ Has ctx o j))

/-- `tryCands` over an increasing list of candidates `≥ i` that contains every start `≥ i` with a
    match returns the right outcome -/
theorem tryCands_outcome {ctx : Ctx} {o : Op} (hC : CompleteAt ctx o) (hQ : Quiet ctx o) (i : Nat)
    (cands : List Nat) (hsort : cands.Pairwise (· < ·)) (hb : ∀ j ∈ cands, i ≤ j ∧ j ≤ ctx.len)
    (hcover : ∀ j, i ≤ j → j ≤ ctx.len → Has ctx o j → j ∈ cands)
    (st : St) (hst : st.panic = none) : Outcome ctx o i (tryCands ctx o cands st) := by
  rcases tryCands_spec hC hQ cands st (fun j hj => (hb j hj).2) hst with
    ⟨pre, j, post, stj, st', hcs, hpre, hmj, ht, hcl, hma⟩ | ⟨hall, st', ht, hcl⟩
  · rw [ht]
    refine ⟨hcl, .inl ⟨rfl, j, stj, ?_, ?_, hmj, ?_, hma⟩⟩
    · exact (hb j (by rw [hcs]; simp)).1
    · exact (hb j (by rw [hcs]; simp)).2
    · intro k hik hkj hmk
      have hjl := (hb j (by rw [hcs]; simp)).2
      have hk := hcover k hik (by omega) hmk
      rw [hcs] at hk hsort
      rw [List.pairwise_append] at hsort
      obtain ⟨_, hs2, _⟩ := hsort
      rw [List.pairwise_cons] at hs2
      rcases List.mem_append.1 hk with hk | hk
      · exact hpre k hk hmk
      · rcases List.mem_cons.1 hk with rfl | hk
        · omega
        · have := hs2.1 k hk
          omega
  · rw [ht]
    refine ⟨hcl, .inr ⟨rfl, ?_⟩⟩
    intro j hij hjl hmj
    exact hall j (hcover j hij hjl hmj) hmj

/-! ## preconditions -/

/-- `findFrom` on a clean state with enough fuel: true iff some position in `[j, len)` has a match -/
theorem findFrom_spec {ctx : Ctx} {o : Op} (hC : CompleteAt ctx o) (hQ : Quiet ctx o) :
    ∀ (fuel j : Nat) (st : St), ctx.len ≤ j + fuel → st.panic = none →
    ((∃ k, j ≤ k ∧ k < ctx.len ∧ Has ctx o k) ∧
        ∃ st', findFrom ctx o fuel j st = (true, st') ∧ st'.panic = none) ∨
    ((¬ ∃ k, j ≤ k ∧ k < ctx.len ∧ Has ctx o k) ∧
        ∃ st', findFrom ctx o fuel j st = (false, st') ∧ st'.panic = none) := by
  intro fuel
  induction fuel with
  | zero =>
    intro j st hf hst
    right
    exact ⟨fun ⟨k, h1, h2, _⟩ => by omega, st, rfl, hst⟩
  | succ f ih =>
    intro j st hf hst
    unfold findFrom
    by_cases hj : j < ctx.len
    · rw [if_pos hj]
      rcases preHolds_cases hC hQ j st (by omega) hst with ⟨hm, st', he, hc⟩ | ⟨hm, st1, he, hc⟩
      · left
        rw [he]
        exact ⟨⟨j, Nat.le_refl _, hj, hm⟩, st', rfl, hc⟩
      · rw [he]
        have hp : ¬ st1.panic.isSome = true := by rw [hc]; simp
        simp only [hp]
        rcases ih (j + 1) st1 (by omega) hc with ⟨⟨k, h1, h2, h3⟩, hr⟩ | ⟨hno, hr⟩
        · left
          exact ⟨⟨k, by omega, h2, h3⟩, hr⟩
        · right
          refine ⟨?_, hr⟩
          rintro ⟨k, h1, h2, h3⟩
          by_cases hkj : k = j
          · subst hkj; exact hm h3
          · exact hno ⟨k, by omega, h2, h3⟩
    · rw [if_neg hj]
      right
      exact ⟨fun ⟨k, h1, h2, _⟩ => by omega, st, rfl, hst⟩

theorem findFrom_clean {ctx : Ctx} {o : Op} (hQ : QuietAll ctx o) :
    ∀ (fuel j : Nat) (st : St), st.panic = none → (findFrom ctx o fuel j st).2.panic = none := by
  intro fuel
  induction fuel with
  | zero => intro j st hst; exact hst
  | succ f ih =>
    intro j st hst
    unfold findFrom
    split
    · have hp := preHolds_clean hQ j st hst
      split
      · rename_i st' heq
        rw [heq] at hp; exact hp
      · rename_i st' heq
        rw [heq] at hp
        split
        · exact hp
        · exact ih _ _ hp
    · exact hst

/-- `check_preconditions` keeps a clean state clean -/
theorem checkPre_clean {ctx : Ctx} (start : Nat) :
    ∀ (pres : List Pre) (st : St), (∀ q ∈ pres, QuietAll ctx q.op) → st.panic = none →
      (checkPre ctx start pres st).2.panic = none := by
  intro pres
  induction pres with
  | nil => intro st _ hst; exact hst
  | cons pre rest ih =>
    intro st hq hst
    have hpre := hq pre List.mem_cons_self
    have hrest : ∀ q ∈ rest, QuietAll ctx q.op := fun q hm => hq q (List.mem_cons_of_mem _ hm)
    unfold checkPre
    split
    · rename_i fixed _
      have hp := preHolds_clean hpre fixed st hst
      split
      · rename_i st' heq
        rw [heq] at hp
        exact ih _ hrest hp
      · rename_i st' heq
        rw [heq] at hp; exact hp
    · simp only
      have hp := findFrom_clean hpre (ctx.len + 1)
        (if start < pre.minPos then pre.minPos else start) st hst
      split
      · rename_i st' heq
        rw [heq] at hp
        exact ih _ hrest hp
      · rename_i st' heq
        rw [heq] at hp; exact hp

/-- what `check_preconditions(start)` tests for one precondition, as a statement about the
    language (this is `C08.PreOK`) -/
abbrev PreSat (ctx : Ctx) (q : Pre) (start : Nat) : Prop := C08.PreOK ctx q start

/-- `check_preconditions(start)` on a clean state, all fixed positions inside the input:
    true iff every precondition is satisfiable where it is tested -/
theorem checkPre_spec {ctx : Ctx} (start : Nat) :
    ∀ (pres : List Pre) (st : St), (∀ q ∈ pres, CompleteAt ctx q.op ∧ Quiet ctx q.op) →
      (∀ q ∈ pres, ∀ f, q.fixed = some f → f ≤ ctx.len) → st.panic = none →
      ((∀ q ∈ pres, PreSat ctx q start) ∧
          ∃ st', checkPre ctx start pres st = (true, st') ∧ st'.panic = none) ∨
      ((¬ ∀ q ∈ pres, PreSat ctx q start) ∧
          ∃ st', checkPre ctx start pres st = (false, st') ∧ st'.panic = none) := by
  intro pres
  induction pres with
  | nil =>
    intro st _ _ hst
    left
    exact ⟨fun q hq => (by cases hq), st, rfl, hst⟩
  | cons pre rest ih =>
    intro st hq hfix hst
    obtain ⟨hC, hQ⟩ := hq pre List.mem_cons_self
    have hrest : ∀ q ∈ rest, CompleteAt ctx q.op ∧ Quiet ctx q.op :=
      fun q hm => hq q (List.mem_cons_of_mem _ hm)
    have hfixr : ∀ q ∈ rest, ∀ f, q.fixed = some f → f ≤ ctx.len :=
      fun q hm => hfix q (List.mem_cons_of_mem _ hm)
    -- the verdict on the first precondition
    have hhead : (PreSat ctx pre start ∧ ∃ st1, st1.panic = none ∧
          checkPre ctx start (pre :: rest) st = checkPre ctx start rest st1) ∨
        (¬ PreSat ctx pre start ∧ ∃ st1, st1.panic = none ∧
          checkPre ctx start (pre :: rest) st = (false, st1)) := by
      cases hf : pre.fixed with
      | some f =>
        have hfl := hfix pre List.mem_cons_self f hf
        rcases preHolds_cases hC hQ f st hfl hst with ⟨hm, st1, he, hc⟩ | ⟨hm, st1, he, hc⟩
        · left
          refine ⟨?_, st1, hc, ?_⟩
          · simp only [PreSat, C08.PreOK, hf]; exact hm
          · rw [checkPre]; simp only [hf, he]
        · right
          refine ⟨?_, st1, hc, ?_⟩
          · simp only [PreSat, C08.PreOK, hf]; exact hm
          · rw [checkPre]; simp only [hf, he]
      | none =>
        rcases findFrom_spec hC hQ (ctx.len + 1) (if start < pre.minPos then pre.minPos else start) st
            (by omega) hst with ⟨⟨k, h1, h2, h3⟩, st1, he, hc⟩ | ⟨hno, st1, he, hc⟩
        · left
          refine ⟨?_, st1, hc, ?_⟩
          · simp only [PreSat, C08.PreOK, hf]
            obtain ⟨n, hn⟩ := h3
            refine ⟨k, n, ?_, ?_, h2, hn⟩
            · split at h1 <;> omega
            · split at h1 <;> omega
          · rw [checkPre]; simp only [hf, he]
        · right
          refine ⟨?_, st1, hc, ?_⟩
          · simp only [PreSat, C08.PreOK, hf]
            rintro ⟨k, n, h1, h2, h3, hn⟩
            refine hno ⟨k, ?_, h3, n, hn⟩
            split <;> omega
          · rw [checkPre]; simp only [hf, he]
    rcases hhead with ⟨hp, st1, hc, he⟩ | ⟨hp, st1, hc, he⟩
    · rw [he]
      rcases ih st1 hrest hfixr hc with ⟨hall, hr⟩ | ⟨hno, hr⟩
      · left
        refine ⟨?_, hr⟩
        intro q hq'
        rcases List.mem_cons.1 hq' with rfl | hq'
        · exact hp
        · exact hall q hq'
      · right
        exact ⟨fun hall => hno (fun q hq' => hall q (List.mem_cons_of_mem _ hq')), hr⟩
    · rw [he]
      right
      exact ⟨fun hall => hp (hall pre List.mem_cons_self), st1, rfl, hc⟩

/-! ## the five shortcuts -/

/-- what the search loop relies on about the facts recorded in the program — each a statement
    about the language of `pr.op` (so: "the shortcut skips no member").  `mkProgram_searchFacts`
    shows that `ReProgram::new` establishes them. -/
structure SearchFacts (ctx : Ctx) (pr : Prog) : Prop where
  /-- minimum length -/
  minLen : ∀ j q, OpR ctx pr.op j q → j + pr.minLen ≤ q
  /-- the literal prefix is not longer than the minimum length (so `len + 1 - prefix.len` cannot
      underflow once the minimum-length cut-off has been passed) -/
  prefixLen : ∀ cs, pr.prefix_ = some cs → cs.length ≤ pr.minLen ∨ pr.minLen = usizeMax
  /-- literal prefix -/
  prefix_ : ∀ cs, pr.prefix_ = some cs → ∀ j q, OpR ctx pr.op j q →
    j + cs.length ≤ ctx.len ∧ prefixMatch ctx cs (ctx.input.drop j) = true
  /-- initial character class -/
  icc : ∀ rs, pr.icc = some rs → ∀ j q, OpR ctx pr.op j q →
    ∃ c, ctx.input[j]? = some c ∧ clsContains rs c = true
  /-- start anchor -/
  bol : pr.hasBol = true → ∀ j q, OpR ctx pr.op j q →
    j = 0 ∨ (ctx.multiLine = true ∧ ctx.input[j - 1]? = some 10 ∧ j < ctx.len)
  /-- preconditions: satisfiable whenever a match starts at or after `start`; fixed positions of
      satisfiable preconditions lie inside the input -/
  pres : ∀ start j q, start ≤ j → j ≤ ctx.len → OpR ctx pr.op j q →
    ∀ pre ∈ pr.pres, C08.PreOK ctx pre start ∧ ∀ f, pre.fixed = some f → f ≤ ctx.len

theorem mem_rangeFrom_iff (lo hi j : Nat) : j ∈ rangeFrom lo hi ↔ lo ≤ j ∧ j < hi := by
  simp only [rangeFrom, List.mem_filter, List.mem_range, decide_eq_true_eq]
  omega

theorem rangeFrom_pairwise (lo hi : Nat) : (rangeFrom lo hi).Pairwise (· < ·) := by
  unfold rangeFrom
  exact List.Pairwise.filter _ List.pairwise_lt_range

/-- a single `match_at(i)` is the right outcome when only `i` itself can have a match -/
theorem matchAt_outcome {ctx : Ctx} {o : Op} (hC : CompleteAt ctx o) (hQ : Quiet ctx o) (i : Nat)
    (hi : i ≤ ctx.len) (honly : ∀ j, i ≤ j → j ≤ ctx.len → Has ctx o j → j = i)
    (st : St) (hst : st.panic = none) : Outcome ctx o i (matchAt ctx o i st) := by
  rcases matchAt_cases hC hQ i st hi hst with ⟨hm, st', he, hc⟩ | ⟨hm, st', he, hc⟩
  · rw [he]
    exact ⟨hc, .inl ⟨rfl, i, st, Nat.le_refl _, hi, hm, fun k h1 h2 => by omega, he⟩⟩
  · rw [he]
    refine ⟨hc, .inr ⟨rfl, fun j hij hjl hmj => ?_⟩⟩
    have := honly j hij hjl hmj
    subst this
    exact hm hmj

/-- the "preconditions, then candidates" tail shared by two branches of `matches` -/
theorem pre_then {ctx : Ctx} {pr : Prog} (F : SearchFacts ctx pr)
    (hP : ∀ q ∈ pr.pres, CompleteAt ctx q.op ∧ QuietAll ctx q.op)
    (i : Nat) (st : St) (hst : st.panic = none) (k : St → Bool × St)
    (hk : ∀ st', st'.panic = none → Outcome ctx pr.op i (k st')) :
    Outcome ctx pr.op i
      (match checkPre ctx i pr.pres st with
       | (false, st') => (false, st')
       | (true, st') => k st') := by
  have hcl := checkPre_clean i pr.pres st (fun q hq => (hP q hq).2) hst
  cases h : checkPre ctx i pr.pres st with
  | mk b st' =>
    rw [h] at hcl
    cases b with
    | true => exact hk st' hcl
    | false =>
      refine ⟨hcl, .inr ⟨rfl, fun j hij hjl hmj => ?_⟩⟩
      obtain ⟨q, hq⟩ := hmj
      have hf := F.pres i j q hij hjl hq
      rcases checkPre_spec i pr.pres st (fun p hp => ⟨(hP p hp).1, (hP p hp).2.quiet⟩)
          (fun p hp => (hf p hp).2) hst with ⟨_, st2, he, _⟩ | ⟨hno, _⟩
      · rw [h] at he; cases he
      · exact hno (fun p hp => (hf p hp).1)

/-- branch: start anchor, not multi-line -/
theorem bol_single {ctx : Ctx} {pr : Prog} (F : SearchFacts ctx pr) (hbol : pr.hasBol = true)
    (hml : ctx.multiLine = false)
    (hC : CompleteAt ctx pr.op) (hQ : Quiet ctx pr.op)
    (hP : ∀ q ∈ pr.pres, CompleteAt ctx q.op ∧ QuietAll ctx q.op)
    (i : Nat) (hi : i ≤ ctx.len) (st : St) (hst : st.panic = none) :
    Outcome ctx pr.op i
      (if i != 0 then (false, st) else
        match checkPre ctx i pr.pres st with
        | (false, st') => (false, st')
        | (true, st') => matchAt ctx pr.op i st') := by
  have honly : ∀ j, Has ctx pr.op j → j = 0 := by
    rintro j ⟨q, hq⟩
    rcases F.bol hbol j q hq with h | h
    · exact h
    · rw [hml] at h; cases h.1
  by_cases h0 : i = 0
  · subst h0
    simp only [bne_self_eq_false, Bool.false_eq_true, if_false]
    exact pre_then F hP 0 st hst _ (fun st' hc =>
      matchAt_outcome hC hQ 0 hi (fun j _ _ hm => honly j hm) st' hc)
  · have hne : (i != 0) = true := by simp [h0]
    rw [if_pos hne]
    refine ⟨hst, .inr ⟨rfl, fun j hij _ hmj => ?_⟩⟩
    have := honly j hmj
    omega

/-- branch: start anchor, multi-line: `i`, then the position after every newline -/
theorem bol_multi {ctx : Ctx} {pr : Prog} (F : SearchFacts ctx pr) (hbol : pr.hasBol = true)
    (hC : CompleteAt ctx pr.op) (hQ : Quiet ctx pr.op)
    (i : Nat) (hi : i ≤ ctx.len) (st : St) (hst : st.panic = none) :
    Outcome ctx pr.op i
      (tryCands ctx pr.op
        (i :: (((rangeFrom i ctx.len).filter (fun k => ctx.nlAt k)).map (· + 1) |>.filter
          (fun k => decide (k < ctx.len)))) st) := by
  apply tryCands_outcome hC hQ i _ _ _ _ st hst
  · rw [List.pairwise_cons]
    refine ⟨?_, ?_⟩
    · intro a ha
      simp only [List.mem_filter, List.mem_map, decide_eq_true_eq] at ha
      obtain ⟨⟨k, ⟨hk, _⟩, rfl⟩, _⟩ := ha
      have := mem_rangeFrom hk
      omega
    · apply List.Pairwise.filter
      apply List.Pairwise.map _ _ (List.Pairwise.filter _ (rangeFrom_pairwise i ctx.len))
      intro a b hab
      exact Nat.add_lt_add_right hab 1
  · intro j hj
    simp only [List.mem_cons, List.mem_filter, List.mem_map, decide_eq_true_eq] at hj
    rcases hj with rfl | ⟨⟨k, ⟨hk, _⟩, rfl⟩, hlt⟩
    · exact ⟨Nat.le_refl _, hi⟩
    · have := mem_rangeFrom hk
      omega
  · rintro j hij hjl ⟨q, hq⟩
    by_cases hji : j = i
    · subst hji; exact List.mem_cons_self
    · apply List.mem_cons_of_mem
      rcases F.bol hbol j q hq with h | ⟨_, hnl, hlt⟩
      · omega
      · simp only [List.mem_filter, List.mem_map, decide_eq_true_eq]
        refine ⟨⟨j - 1, ⟨?_, ?_⟩, by omega⟩, hlt⟩
        · rw [mem_rangeFrom_iff]
          omega
        · simp only [Ctx.nlAt, hnl, beq_self_eq_true]

/-- branch: literal prefix -/
theorem prefix_branch {ctx : Ctx} {pr : Prog} (F : SearchFacts ctx pr) (cs : List Nat)
    (hpre : pr.prefix_ = some cs) (hC : CompleteAt ctx pr.op) (hQ : Quiet ctx pr.op)
    (i : Nat) (st : St) (hst : st.panic = none) :
    Outcome ctx pr.op i
      (tryCands ctx pr.op
        ((rangeFrom i (ctx.len + 1 - cs.length)).filter
          (fun j => prefixMatch ctx cs (ctx.input.drop j))) st) := by
  apply tryCands_outcome hC hQ i _ _ _ _ st hst
  · exact List.Pairwise.filter _ (rangeFrom_pairwise _ _)
  · intro j hj
    simp only [List.mem_filter] at hj
    have := mem_rangeFrom hj.1
    omega
  · rintro j hij _ ⟨q, hq⟩
    obtain ⟨h1, h2⟩ := F.prefix_ cs hpre j q hq
    simp only [List.mem_filter]
    refine ⟨?_, h2⟩
    rw [mem_rangeFrom_iff]
    omega

/-- branch: initial character class -/
theorem icc_branch {ctx : Ctx} {pr : Prog} (F : SearchFacts ctx pr) (rs : Ranges)
    (hicc : pr.icc = some rs) (hC : CompleteAt ctx pr.op) (hQ : Quiet ctx pr.op)
    (i : Nat) (st : St) (hst : st.panic = none) :
    Outcome ctx pr.op i
      (tryCands ctx pr.op
        ((rangeFrom i ctx.len).filter (fun j =>
          match ctx.input[j]? with | some c => clsContains rs c | none => false)) st) := by
  apply tryCands_outcome hC hQ i _ _ _ _ st hst
  · exact List.Pairwise.filter _ (rangeFrom_pairwise _ _)
  · intro j hj
    simp only [List.mem_filter] at hj
    have := mem_rangeFrom hj.1
    omega
  · rintro j hij _ ⟨q, hq⟩
    obtain ⟨c, h1, h2⟩ := F.icc rs hicc j q hq
    simp only [List.mem_filter]
    refine ⟨?_, by rw [h1]; exact h2⟩
    rw [mem_rangeFrom_iff]
    obtain ⟨hlt, _⟩ := List.getElem?_eq_some_iff.1 h1
    exact ⟨hij, hlt⟩

/-- branch: every position from `i` to `len` -/
theorem naive_branch {ctx : Ctx} {o : Op} (hC : CompleteAt ctx o) (hQ : Quiet ctx o)
    (i : Nat) (st : St) (hst : st.panic = none) :
    Outcome ctx o i (tryCands ctx o (rangeFrom i (ctx.len + 1)) st) := by
  apply tryCands_outcome hC hQ i _ _ _ _ st hst
  · exact rangeFrom_pairwise _ _
  · intro j hj
    have := mem_rangeFrom hj
    omega
  · intro j hij hjl _
    rw [mem_rangeFrom_iff]
    omega

/-- THE SEARCH LOOP: with all five shortcuts, `matches(i)` returns the right outcome -/
theorem matchesFrom_outcome {ctx : Ctx} {pr : Prog} (F : SearchFacts ctx pr) (hlen : ctx.len < usizeMax)
    (hC : CompleteAt ctx pr.op) (hQ : Quiet ctx pr.op)
    (hP : ∀ q ∈ pr.pres, CompleteAt ctx q.op ∧ QuietAll ctx q.op)
    (i : Nat) (hi : i ≤ ctx.len) (st0 : St) (hst0 : st0.panic = none) :
    Outcome ctx pr.op i (matchesFrom ctx pr i st0) := by
  unfold matchesFrom
  simp only
  have hst : ({ st0 with cap := {} } : St).panic = none := hst0
  generalize ({ st0 with cap := {} } : St) = st at hst
  by_cases hbol : pr.hasBol = true
  · rw [if_pos hbol]
    cases hml : ctx.multiLine with
    | false =>
      simp only [Bool.not_false, if_true]
      exact bol_single F hbol hml hC hQ hP i hi st hst
    | true =>
      simp only [Bool.not_true, Bool.false_eq_true, if_false]
      exact bol_multi F hbol hC hQ i hi st hst
  · rw [if_neg hbol]
    rw [if_neg (by omega : ¬ i > ctx.len)]
    by_cases hcut : ctx.len - i < pr.minLen
    · rw [if_pos hcut]
      refine ⟨hst, .inr ⟨rfl, ?_⟩⟩
      rintro j hij hjl ⟨q, hq⟩
      have h1 := F.minLen j q hq
      have h2 := (C01.OpR_bounds ctx pr.op j q hjl hq).2
      omega
    · rw [if_neg hcut]
      cases hpre : pr.prefix_ with
      | some cs =>
        simp only
        have hcs : ¬ cs.length > ctx.len + 1 := by
          rcases F.prefixLen cs hpre with h | h <;> omega
        rw [if_neg hcs]
        exact prefix_branch F cs hpre hC hQ i st hst
      | none =>
        simp only
        cases hicc : pr.icc with
        | some rs =>
          simp only
          exact icc_branch F rs hicc hC hQ i st hst
        | none =>
          simp only
          exact pre_then F hP i st hst _ (fun st' hc => naive_branch hC hQ i st' hc)

/-- the search with every shortcut switched off returns the right outcome, too -/
theorem matchesNaive_outcome {ctx : Ctx} {o : Op} (hC : CompleteAt ctx o) (hQ : Quiet ctx o)
    (i : Nat) (st0 : St) (hst0 : st0.panic = none) :
    Outcome ctx o i (matchesNaive ctx o i st0) :=
  naive_branch hC hQ i _ hst0

/-! ## `ReProgram::new` establishes the facts -/

theorem satMul_pos {a b : Nat} (ha : 1 ≤ a) (hb : 1 ≤ b) : 1 ≤ satMul a b := by
  unfold satMul
  have h1 : 1 ≤ a * b := Nat.mul_pos ha hb
  have h2 : 1 ≤ usizeMax := by decide
  exact Nat.le_min.2 ⟨h1, h2⟩

theorem leaf_minLen_pos (c : Op) (hac : isAtomOrClass c = true) (hne : C08.noEmptyAtoms c = true) :
    1 ≤ minLenOp c := by
  cases c with
  | atom cs =>
    cases cs with
    | nil => simp [C08.noEmptyAtoms] at hne
    | cons a t => simp [minLenOp]
  | cls rs => simp [minLenOp]
  | _ => simp [isAtomOrClass] at hac

/-- the common shape of the four repeat forms in `add_precondition` -/
theorem minLen_rep_case (ml : Bool) (c full : Op) (mn : Nat) (fp : Option Nat) (mp : Nat)
    (hne : C08.noEmptyAtoms c = true) (hfull : minLenOp full = satMul mn (minLenOp c))
    (ih : ∀ q ∈ addPre ml c fp mp, 1 ≤ minLenOp q.op) (q : Pre)
    (hq : q ∈ (if mn ≥ 1 then
        (if isAtomOrClass c then
          (if mn == 1 then [{ op := full, fixed := fp, minPos := mp }]
           else [{ op := .rep 0 c mn mn true, fixed := fp, minPos := mp }])
         else addPre ml c fp mp)
      else [])) : 1 ≤ minLenOp q.op := by
  split at hq
  · rename_i h1
    split at hq
    · rename_i hac
      have hc := leaf_minLen_pos c hac hne
      split at hq
      · simp only [List.mem_singleton] at hq; subst hq
        simp only [hfull]
        exact satMul_pos h1 hc
      · simp only [List.mem_singleton] at hq; subst hq
        simp only [minLenOp]
        exact satMul_pos h1 hc
    · exact ih q hq
  · cases hq

mutual
/-- every recorded precondition consumes at least one character -/
theorem addPre_minLen_pos (ml : Bool) : (o : Op) → ∀ fp mp, C08.noEmptyAtoms o = true →
    ∀ q ∈ addPre ml o fp mp, 1 ≤ minLenOp q.op
  | .bol, fp, mp, _, q, hq => by simp only [addPre] at hq; cases hq
  | .eol, fp, mp, _, q, hq => by simp only [addPre] at hq; cases hq
  | .nothing, fp, mp, _, q, hq => by simp only [addPre] at hq; cases hq
  | .endProgram, fp, mp, _, q, hq => by simp only [addPre] at hq; cases hq
  | .backref g, fp, mp, _, q, hq => by simp only [addPre] at hq; cases hq
  | .choice bs, fp, mp, _, q, hq => by simp only [addPre] at hq; cases hq
  | .atom cs, fp, mp, h, q, hq => by
    simp only [addPre, List.mem_singleton] at hq; subst hq
    exact leaf_minLen_pos (.atom cs) rfl h
  | .cls rs, fp, mp, h, q, hq => by
    simp only [addPre, List.mem_singleton] at hq; subst hq
    exact leaf_minLen_pos (.cls rs) rfl h
  | .capture g c, fp, mp, h, q, hq => by
    simp only [C08.noEmptyAtoms] at h
    simp only [addPre] at hq
    exact addPre_minLen_pos ml c fp mp h q hq
  | .seq ops, fp, mp, h, q, hq => by
    simp only [C08.noEmptyAtoms] at h
    simp only [addPre] at hq
    exact addPreSeq_minLen_pos ml ops fp mp h q hq
  | .rep id c mn mx g, fp, mp, h, q, hq => by
    simp only [C08.noEmptyAtoms] at h
    simp only [addPre] at hq
    exact minLen_rep_case ml c _ mn fp mp h (by simp only [minLenOp]) (addPre_minLen_pos ml c fp mp h) q hq
  | .gfixed c mn mx len, fp, mp, h, q, hq => by
    simp only [C08.noEmptyAtoms] at h
    simp only [addPre] at hq
    exact minLen_rep_case ml c _ mn fp mp h (by simp only [minLenOp]) (addPre_minLen_pos ml c fp mp h) q hq
  | .rfixed c mn mx len, fp, mp, h, q, hq => by
    simp only [C08.noEmptyAtoms] at h
    simp only [addPre] at hq
    exact minLen_rep_case ml c _ mn fp mp h (by simp only [minLenOp]) (addPre_minLen_pos ml c fp mp h) q hq
  | .unamb c mn mx, fp, mp, h, q, hq => by
    simp only [C08.noEmptyAtoms] at h
    simp only [addPre] at hq
    exact minLen_rep_case ml c _ mn fp mp h (by simp only [minLenOp]) (addPre_minLen_pos ml c fp mp h) q hq
termination_by structural o => o
theorem addPreSeq_minLen_pos (ml : Bool) : (ops : List Op) → ∀ fp mp, C08.noEmptyAtomsL ops = true →
    ∀ q ∈ addPreSeq ml ops fp mp, 1 ≤ minLenOp q.op
  | [], fp, mp, _, q, hq => by simp only [addPreSeq] at hq; cases hq
  | o :: os, fp, mp, h, q, hq => by
    simp only [C08.noEmptyAtomsL, Bool.and_eq_true] at h
    simp only [addPreSeq, List.mem_append] at hq
    rcases hq with hq | hq
    · exact addPre_minLen_pos ml o _ mp h.1 q hq
    · exact addPreSeq_minLen_pos ml os _ _ h.2 q hq
termination_by structural ops => ops
end

/-- a single character (non-empty literal / class) can only match strictly inside the input -/
theorem leaf_start_lt (ctx : Ctx) (c : Op) (hac : isAtomOrClass c = true)
    (hch : C06.simplePre.simplePreChild c = true) (x m : Nat) (h : OpR ctx c x m) : x < ctx.len := by
  cases c with
  | atom cs =>
    cases cs with
    | nil => simp [C06.simplePre.simplePreChild] at hch
    | cons a t => simp only [OpR, List.length_cons] at h; omega
  | cls rs =>
    simp only [OpR] at h
    obtain ⟨_, ch, hc, _⟩ := h
    obtain ⟨hlt, _⟩ := List.getElem?_eq_some_iff.1 hc
    exact hlt
  | _ => simp [isAtomOrClass] at hac

theorem iter_start_lt (ctx : Ctx) (c : Op) (hac : isAtomOrClass c = true)
    (hch : C06.simplePre.simplePreChild c = true) (x y : Nat) (hxy : x < y)
    (h : ∃ k mn mx : Nat, mn ≤ k ∧ k ≤ mx ∧ IterR (fun a b => OpR ctx c a b) k x y) : x < ctx.len := by
  obtain ⟨k, _, _, _, _, hi⟩ := h
  cases k with
  | zero =>
    have := IterR.zero_iff.1 hi
    omega
  | succ k =>
    obtain ⟨m, hm, _⟩ := IterR.uncons hi
    exact leaf_start_lt ctx c hac hch x m hm

/-- a non-empty match of an operation of the shape `add_precondition` records starts strictly
    inside the input -/
theorem simplePre_start_lt (ctx : Ctx) (o : Op) (hs : C06.simplePre o = true) (x y : Nat)
    (h : OpR ctx o x y) (hxy : x < y) : x < ctx.len := by
  cases o with
  | atom cs => simp only [OpR] at h; omega
  | cls rs =>
    simp only [OpR] at h
    obtain ⟨_, ch, hc, _⟩ := h
    obtain ⟨hlt, _⟩ := List.getElem?_eq_some_iff.1 hc
    exact hlt
  | rep id c mn mx g =>
    simp only [C06.simplePre, Bool.and_eq_true] at hs
    simp only [OpR] at h
    obtain ⟨k, h1, h2, h3⟩ := h
    exact iter_start_lt ctx c hs.1.1.1.1 hs.1.1.1.2 x y hxy ⟨k, mn, mx, h1, h2, h3⟩
  | gfixed c mn mx len =>
    simp only [C06.simplePre, Bool.and_eq_true] at hs
    simp only [OpR] at h
    obtain ⟨k, h1, h2, h3⟩ := h
    exact iter_start_lt ctx c hs.1.1.1.1.1.1 hs.1.1.1.1.1.2 x y hxy ⟨k, mn, mx, h1, h2, h3⟩
  | rfixed c mn mx len =>
    simp only [C06.simplePre, Bool.and_eq_true] at hs
    simp only [OpR] at h
    obtain ⟨k, h1, h2, h3⟩ := h
    exact iter_start_lt ctx c hs.1.1.1.1.1.1 hs.1.1.1.1.1.2 x y hxy ⟨k, mn, mx, h1, h2, h3⟩
  | unamb c mn mx =>
    simp only [C06.simplePre, Bool.and_eq_true] at hs
    simp only [OpR] at h
    obtain ⟨k, h1, h2, h3⟩ := h
    exact iter_start_lt ctx c hs.1.1.1 hs.1.1.2 x y hxy ⟨k, mn, mx, h1, h2, h3⟩
  | _ => simp [C06.simplePre] at hs

theorem mem_numberPres : ∀ (ps : List Pre) (n : Nat) (q : Pre), q ∈ numberPres ps n →
    ∃ p ∈ ps, ∃ b, q = { p with op := (numberReps p.op b).1 } := by
  intro ps
  induction ps with
  | nil => intro n q hq; simp only [numberPres] at hq; cases hq
  | cons p ps ih =>
    intro n q hq
    simp only [numberPres, List.mem_cons] at hq
    rcases hq with hq | hq
    · exact ⟨p, List.mem_cons_self, _, hq⟩
    · obtain ⟨p', hp', b, hb⟩ := ih _ q hq
      exact ⟨p', List.mem_cons_of_mem _ hp', b, hb⟩

/-- the preconditions fact for a renumbered `add_precondition` list -/
theorem pres_fact (ctx : Ctx) (hlen : ctx.len < usizeMax) (op : Op) (hwf : wfOp op = true)
    (hne : C08.noEmptyAtoms op = true) (n : Nat)
    (start j q : Nat) (hsj : start ≤ j) (hjl : j ≤ ctx.len) (h : OpR ctx op j q) :
    ∀ pre ∈ numberPres (addPre ctx.multiLine op none 0) n,
      C08.PreOK ctx pre start ∧ ∀ f, pre.fixed = some f → f ≤ ctx.len := by
  intro pre hpre
  obtain ⟨p, hp, b, rfl⟩ := mem_numberPres _ _ _ hpre
  have hok := C08.preconditions_sound ctx hlen op hwf hne start j q hsj hjl h p hp
  have hsimple := ApiL.addPre_simple ctx.multiLine op hwf hne none 0 p hp
  have hpos := addPre_minLen_pos ctx.multiLine op none 0 hne p hp
  refine ⟨?_, ?_⟩
  · unfold C08.PreOK at hok ⊢
    simp only
    cases hf : p.fixed with
    | some f =>
      simp only [hf] at hok ⊢
      obtain ⟨m, hm⟩ := hok
      exact ⟨m, (OptL.num_op ctx p.op b f m).2 hm⟩
    | none =>
      simp only [hf] at hok ⊢
      obtain ⟨k, m, h1, h2, h3, hm⟩ := hok
      exact ⟨k, m, h1, h2, h3, (OptL.num_op ctx p.op b k m).2 hm⟩
  · intro f hf
    simp only at hf
    unfold C08.PreOK at hok
    simp only [hf] at hok
    obtain ⟨m, hm⟩ := hok
    have h1 := OptL.minLen_op ctx p.op f m hm
    have := simplePre_start_lt ctx p.op hsimple f m hm (by omega)
    omega

/-- what `ReProgram::new` records, by cases on the first element of the top-level sequence -/
theorem mkProgram_shape (pat : List Nat) (op : Op) (mp : Nat) (fl : CFlags) (hb : Bool) :
    (mkProgram pat op mp fl hb).op = (numberReps op 0).1 ∧
    (mkProgram pat op mp fl hb).caseBlind = fl.caseBlind ∧
    (mkProgram pat op mp fl hb).multiLine = fl.multiLine ∧
    (mkProgram pat op mp fl hb).hasBackrefs = hb ∧
    (mkProgram pat op mp fl hb).maxParens = mp ∧
    (mkProgram pat op mp fl hb).minLen = minLenOp (numberReps op 0).1 ∧
    ((mkProgram pat op mp fl hb).hasBol = true → ∃ rest, (numberReps op 0).1 = .seq (.bol :: rest)) ∧
    (∀ cs, (mkProgram pat op mp fl hb).prefix_ = some cs →
      ∃ rest, (numberReps op 0).1 = .seq (.atom cs :: rest)) ∧
    (∀ rs, (mkProgram pat op mp fl hb).icc = some rs →
      ∃ rest, (numberReps op 0).1 = .seq (.cls rs :: rest)) ∧
    ((mkProgram pat op mp fl hb).pres = [] ∨
      ∃ n, (mkProgram pat op mp fl hb).pres =
        numberPres (addPre fl.multiLine (numberReps op 0).1 none 0) n) := by
  unfold mkProgram
  simp only
  generalize numberReps op 0 = r
  obtain ⟨op', n'⟩ := r
  simp only
  split
  · rename_i first rest
    split
    · exact ⟨rfl, rfl, rfl, rfl, rfl, rfl, fun _ => ⟨rest, rfl⟩, fun cs h => by simp at h,
        fun rs h => by simp at h, .inr ⟨n', rfl⟩⟩
    · rename_i cs
      refine ⟨rfl, rfl, rfl, rfl, rfl, rfl, fun h => by simp at h, fun cs' h => ?_,
        fun rs h => by simp at h, .inr ⟨n', rfl⟩⟩
      simp only [Option.some.injEq] at h
      subst h
      exact ⟨rest, rfl⟩
    · rename_i rs
      refine ⟨rfl, rfl, rfl, rfl, rfl, rfl, fun h => by simp at h, fun cs h => by simp at h,
        fun rs' h => ?_, .inr ⟨n', rfl⟩⟩
      simp only [Option.some.injEq] at h
      subst h
      exact ⟨rest, rfl⟩
    · exact ⟨rfl, rfl, rfl, rfl, rfl, rfl, fun h => by simp at h, fun cs h => by simp at h,
        fun rs h => by simp at h, .inr ⟨n', rfl⟩⟩
  · exact ⟨rfl, rfl, rfl, rfl, rfl, rfl, fun h => by simp at h, fun cs h => by simp at h,
      fun rs h => by simp at h, .inl rfl⟩

/-- `ReProgram::new` establishes every fact the search loop relies on (well-formed tree without
    empty literal, input shorter than `usize::MAX`) -/
theorem mkProgram_searchFacts (pat : List Nat) (op : Op) (mp : Nat) (fl : CFlags) (hb : Bool)
    (lower : Nat → Nat) (input : List Nat)
    (hwf : wfOp op = true) (hne : C08.noEmptyAtoms op = true) (hlen : input.length < usizeMax) :
    SearchFacts ((mkProgram pat op mp fl hb).ctx lower input) (mkProgram pat op mp fl hb) := by
  obtain ⟨hop, hcb, hml, hhb, hmp, hmin, hbol, hpre, hicc, hpres⟩ := mkProgram_shape pat op mp fl hb
  have hw : wfOp (numberReps op 0).1 = true := by rw [WF.wfOp_numberReps]; exact hwf
  have hn : C08.noEmptyAtoms (numberReps op 0).1 = true := by
    rw [ApiL.noEmptyAtoms_numberReps]; exact hne
  generalize hpr : mkProgram pat op mp fl hb = pr at *
  have hctxml : (pr.ctx lower input).multiLine = fl.multiLine := hml
  have hctxlen : (pr.ctx lower input).len < usizeMax := hlen
  generalize pr.ctx lower input = ctx at *
  constructor
  · intro j q h
    rw [hop] at h
    rw [hmin]
    exact OptL.minLen_op ctx _ j q h
  · intro cs hcs
    obtain ⟨rest, hr⟩ := hpre cs hcs
    rw [hmin, hr]
    simp only [minLenOp, minLenSeq]
    exact le_satAdd_or _ _
  · intro cs hcs j q h
    obtain ⟨rest, hr⟩ := hpre cs hcs
    rw [hop, hr] at h
    exact C08.prefix_sound ctx cs rest j q h
  · intro rs hrs j q h
    obtain ⟨rest, hr⟩ := hicc rs hrs
    rw [hop, hr] at h
    exact C08.icc_sound ctx rs rest j q h
  · intro hb' j q h
    obtain ⟨rest, hr⟩ := hbol hb'
    rw [hop, hr] at h
    exact C08.hasbol_sound ctx rest j q h
  · intro start j q hsj hjl h pre hmem
    rw [hop] at h
    rcases hpres with he | ⟨n, he⟩
    · rw [he] at hmem; cases hmem
    · rw [he, ← hctxml] at hmem
      exact pres_fact ctx hctxlen _ hw hn n start j q hsj hjl h pre hmem

/-! ## the side conditions `Quiet` / `QuietAll` from the decidable hypotheses of C05 and C06 -/

theorem clean_of {st : St} (h1 : C05.NoPanic st) (h2 : C06.NoDivMark st) : st.panic = none := by
  rcases h1 with h | h
  · exact h
  · exact absurd h h2

/-- a well-formed back-reference-free tree (C05) whose loops are covered by the model's fuel (C06)
    is quiet at every start inside the input -/
theorem quiet_of_wf (ctx : Ctx) (hb : ctx.hasBackrefs = false) (op : Op) (hop : hasBackref op = false)
    (hwf : wfOp op = true) (hs : C06.smallMin ctx.len op = true) : Quiet ctx op := by
  intro j st hj hst
  have hnp : C05.NoPanic st := .inl hst
  have hnd : C06.NoDivMark st := by unfold C06.NoDivMark; rw [hst]; simp
  have h1 := C05.sem_no_panic ctx hb op hop j st hnp
  obtain ⟨h2, h3⟩ := C06.sem_no_diverge ctx op hwf hs j hj st hnd
  exact ⟨h2.ne_diverge, clean_of (first1_inv_nodiv h1 h2) (first1_inv_nodiv h3 h2)⟩

/-- an operation of the shape `add_precondition` records is quiet at every start whatsoever -/
theorem quietAll_of_simplePre (ctx : Ctx) (hb : ctx.hasBackrefs = false) (op : Op)
    (hop : hasBackref op = false) (hs : C06.simplePre op = true) : QuietAll ctx op := by
  intro j st hst
  have hnp : C05.NoPanic st := .inl hst
  have hnd : C06.NoDivMark st := by unfold C06.NoDivMark; rw [hst]; simp
  have h1 := C05.sem_no_panic ctx hb op hop j st hnp
  obtain ⟨h2, h3⟩ := C06.pre_no_diverge ctx op hs j st hnd
  exact ⟨h2.ne_diverge, clean_of (first1_inv_nodiv h1 h2) (first1_inv_nodiv h3 h2)⟩

mutual
theorem smallMin_numberReps (len : Nat) : (op : Op) → ∀ n,
    C06.smallMin len (numberReps op n).1 = C06.smallMin len op
  | .bol, n | .eol, n | .nothing, n | .endProgram, n => by simp only [numberReps]
  | .atom _, n | .cls _, n | .backref _, n => by simp only [numberReps]
  | .capture g c, n => by simp only [numberReps, C06.smallMin]; rw [smallMin_numberReps len c n]
  | .choice bs, n => by simp only [numberReps, C06.smallMin]; exact smallMinL_numberRepsL len bs n
  | .seq ops, n => by simp only [numberReps, C06.smallMin]; exact smallMinL_numberRepsL len ops n
  | .rep id c mn mx g, n => by
    simp only [numberReps, C06.smallMin]; rw [smallMin_numberReps len c (n + 1)]
  | .gfixed c mn mx l, n => by simp only [numberReps, C06.smallMin]; exact smallMin_numberReps len c n
  | .rfixed c mn mx l, n => by simp only [numberReps, C06.smallMin]; exact smallMin_numberReps len c n
  | .unamb c mn mx, n => by cases c <;> simp only [numberReps, C06.smallMin]
termination_by structural op => op
theorem smallMinL_numberRepsL (len : Nat) : (l : List Op) → ∀ n,
    C06.smallMinL len (numberRepsL l n).1 = C06.smallMinL len l
  | [], n => by simp only [numberRepsL]
  | o :: os, n => by
    simp only [numberRepsL, C06.smallMinL]
    rw [smallMin_numberReps len o n, smallMinL_numberRepsL len os]
termination_by structural l => l
end

/-! ## reading an `Outcome` -/

theorem Outcome.clean {ctx : Ctx} {o : Op} {i : Nat} {r : Bool × St} (h : Outcome ctx o i r) :
    r.2.panic = none := h.1

/-- the Boolean: true iff some start `≥ i` has a match -/
theorem Outcome.iff {ctx : Ctx} {o : Op} {i : Nat} {r : Bool × St} (h : Outcome ctx o i r) :
    r.1 = true ↔ ∃ j q, i ≤ j ∧ j ≤ ctx.len ∧ OpR ctx o j q := by
  rcases h.2 with ⟨ht, j, _, h1, h2, ⟨q, hq⟩, _, _⟩ | ⟨hf, hno⟩
  · exact ⟨fun _ => ⟨j, q, h1, h2, hq⟩, fun _ => ht⟩
  · constructor
    · intro ht; rw [hf] at ht; cases ht
    · rintro ⟨j, q, h1, h2, hq⟩
      exact absurd ⟨q, hq⟩ (hno j h1 h2)

/-- the recorded span: group 0 starts at the LEAST start `≥ i` that has a match, and ends at a
    member of the language from there -/
theorem Outcome.leftmost {ctx : Ctx} {o : Op} (hwf : wfOp o = true) (hcp : C02.capsPos o = true)
    {i : Nat} {r : Bool × St} (h : Outcome ctx o i r) (ht : r.1 = true) :
    ∃ j n, getParenStart r.2 0 = some j ∧ getParenEnd r.2 0 = some n ∧
      i ≤ j ∧ j ≤ n ∧ n ≤ ctx.len ∧ OpR ctx o j n ∧
      ∀ k q, i ≤ k → k < j → ¬ OpR ctx o k q := by
  rcases h.2 with ⟨_, j, stj, h1, h2, _, hmin, hma⟩ | ⟨hf, _⟩
  · obtain ⟨b, st'⟩ := r
    simp only at ht
    subst ht
    obtain ⟨hs, n, he, hjn, hnl, hopr⟩ := C02.matchAt_span ctx o hwf hcp j h2 stj st' hma
    exact ⟨j, n, hs, he, h1, hjn, hnl, hopr, fun k q hik hkj hq => hmin k hik hkj ⟨q, hq⟩⟩
  · rw [hf] at ht; cases ht

/-- two searches with the right outcome agree on the Boolean and, on success, on the start -/
theorem Outcome.agree {ctx : Ctx} {o : Op} (hwf : wfOp o = true) (hcp : C02.capsPos o = true)
    {i : Nat} {r1 r2 : Bool × St} (h1 : Outcome ctx o i r1) (h2 : Outcome ctx o i r2) :
    r1.1 = r2.1 ∧ (r1.1 = true → getParenStart r1.2 0 = getParenStart r2.2 0 ∧
      ∃ j, getParenStart r1.2 0 = some j) := by
  have hb : r1.1 = r2.1 := by
    rw [Bool.eq_iff_iff]
    exact h1.iff.trans h2.iff.symm
  refine ⟨hb, fun ht => ?_⟩
  obtain ⟨j1, n1, hs1, _, a1, _, _, hm1, hl1⟩ := h1.leftmost hwf hcp ht
  obtain ⟨j2, n2, hs2, _, a2, _, _, hm2, hl2⟩ := h2.leftmost hwf hcp (hb ▸ ht)
  have : j1 = j2 := by
    rcases Nat.lt_trichotomy j1 j2 with h | h | h
    · exact absurd hm1 (hl2 j1 n1 a1 h)
    · exact h
    · exact absurd hm2 (hl1 j2 n2 a2 h)
  subst this
  exact ⟨by rw [hs1, hs2], j1, hs1⟩

/-! ## programs built by `ReProgram::new` -/

/-- the search on a program built by `ReProgram::new` from a well-formed, back-reference-free tree
    without empty literal, relative to completeness of the engine test on the main tree and on the
    precondition trees -/
theorem mkProgram_outcome (pat : List Nat) (op : Op) (mp : Nat) (fl : CFlags)
    (lower : Nat → Nat) (input : List Nat)
    (hwf : wfOp op = true) (hnb : hasBackref op = false) (hne : C08.noEmptyAtoms op = true)
    (hsm : C06.smallMin input.length op = true) (hlen : input.length < usizeMax)
    (hC : CompleteAt ((mkProgram pat op mp fl false).ctx lower input) (mkProgram pat op mp fl false).op)
    (hP : ∀ pre ∈ (mkProgram pat op mp fl false).pres,
      CompleteAt ((mkProgram pat op mp fl false).ctx lower input) pre.op)
    (i : Nat) (hi : i ≤ input.length) (st : St) (hst : st.panic = none) :
    Outcome ((mkProgram pat op mp fl false).ctx lower input) (mkProgram pat op mp fl false).op i
      (matchesFrom ((mkProgram pat op mp fl false).ctx lower input) (mkProgram pat op mp fl false) i st) := by
  have F := mkProgram_searchFacts pat op mp fl false lower input hwf hne hlen
  have hfo := WF.mkProgram_factsOK_any pat op mp fl false hnb
  have hps := ApiL.mkProgram_pres_simple pat op mp fl false hwf hne
  obtain ⟨hop, hbr⟩ := WF.mkProgram_op pat op mp fl false
  have hw : wfOp (mkProgram pat op mp fl false).op = true := by
    rw [hop, WF.wfOp_numberReps]; exact hwf
  have hn : hasBackref (mkProgram pat op mp fl false).op = false := by
    rw [hop, hasBackref_numberReps]; exact hnb
  have hs : C06.smallMin input.length (mkProgram pat op mp fl false).op = true := by
    rw [hop, smallMin_numberReps]; exact hsm
  generalize mkProgram pat op mp fl false = pr at *
  have hcb : (pr.ctx lower input).hasBackrefs = false := hbr
  have hcl : (pr.ctx lower input).len = input.length := rfl
  generalize pr.ctx lower input = ctx at *
  have hQ : Quiet ctx pr.op := quiet_of_wf ctx hcb pr.op hn hw (by rw [hcl]; exact hs)
  exact matchesFrom_outcome F (by rw [hcl]; exact hlen) hC hQ
    (fun q hq => ⟨hP q hq, quietAll_of_simplePre ctx hcb q.op (hfo.2 q hq) (hps q hq)⟩)
    i (by rw [hcl]; exact hi) st hst

/-! ## a first fragment on which the engine test IS complete: single-result leaves, alternation,
    and sequences `leaf · … · leaf · x · EndProgram` (used for the non-vacuity examples; the
    combinators are stated generally so that they can be reused) -/

theorem clearBeyond_panic (st : St) (p : Nat) : (clearBeyond st p).panic = st.panic := rfl

theorem completeAt_atom (ctx : Ctx) (cs : List Nat) : CompleteAt ctx (.atom cs) := by
  intro j st _ _
  simp only [sem, atomGen, OpR]
  by_cases h1 : j + cs.length > ctx.len
  · rw [if_pos h1]
    simp only [first1, Option.isSome_none, Bool.false_eq_true, false_iff]
    rintro ⟨q, rfl, h2, _⟩
    omega
  · rw [if_neg h1]
    by_cases h2 : prefixMatch ctx cs (ctx.input.drop j) = true
    · rw [if_pos h2]
      simp only [Step.once, first1, Option.isSome_some, true_iff]
      exact ⟨_, rfl, by omega, h2⟩
    · rw [if_neg h2]
      simp only [first1, Option.isSome_none, Bool.false_eq_true, false_iff]
      rintro ⟨q, _, _, h3⟩
      exact h2 h3

theorem completeAt_cls (ctx : Ctx) (rs : Ranges) : CompleteAt ctx (.cls rs) := by
  intro j st _ _
  simp only [sem, clsGen, OpR]
  cases hc : ctx.input[j]? with
  | none =>
    simp only [first1, Option.isSome_none, Bool.false_eq_true, false_iff]
    rintro ⟨q, _, c, h, _⟩
    cases h
  | some c =>
    simp only
    by_cases h2 : clsContains rs c = true
    · rw [if_pos h2]
      simp only [Step.once, first1, Option.isSome_some, true_iff]
      exact ⟨_, rfl, c, rfl, h2⟩
    · rw [if_neg h2]
      simp only [first1, Option.isSome_none, Bool.false_eq_true, false_iff]
      rintro ⟨q, _, c', h, h3⟩
      simp only [Option.some.injEq] at h
      subst h
      exact h2 h3

theorem completeAt_bol (ctx : Ctx) : CompleteAt ctx .bol := by
  intro j st _ _
  simp only [sem, bolGen, OpR]
  by_cases h0 : j = 0
  · subst h0
    simp [Step.once, first1]
  · have hne : (j != 0) = true := by simp [h0]
    rw [if_pos hne]
    by_cases h2 : (ctx.multiLine && ctx.nlAt (j - 1) && decide (j < ctx.len)) = true
    · rw [if_pos h2]
      simp only [Bool.and_eq_true, decide_eq_true_eq, Ctx.nlAt, beq_iff_eq] at h2
      simp only [Step.once, first1, Option.isSome_some, true_iff]
      exact ⟨j, rfl, .inr ⟨h2.1.1, h2.1.2, h2.2⟩⟩
    · rw [if_neg h2]
      simp only [first1, Option.isSome_none, Bool.false_eq_true, false_iff]
      rintro ⟨q, _, h | ⟨h3, h4, h5⟩⟩
      · exact h0 h
      · apply h2
        simp only [Bool.and_eq_true, decide_eq_true_eq, Ctx.nlAt, beq_iff_eq]
        exact ⟨⟨h3, h4⟩, h5⟩

theorem completeAt_nothing (ctx : Ctx) : CompleteAt ctx .nothing := by
  intro j st _ _
  simp [sem, nothingGen, Step.once, first1, OpR]

/-- alternation: complete when every branch is complete and quiet -/
theorem completeAt_choice (ctx : Ctx) : ∀ (bs : List Op), (∀ b ∈ bs, CompleteAt ctx b ∧ Quiet ctx b) →
    CompleteAt ctx (.choice bs) := by
  intro bs hbs
  suffices h : ∀ (bs : List Op), (∀ b ∈ bs, CompleteAt ctx b ∧ Quiet ctx b) →
      ∀ j st, j ≤ ctx.len → st.panic = none →
        ((first1 (choiceGen (semL ctx bs) j st)).1.isSome = true ↔ ∃ q, OpRAny ctx bs j q) by
    intro j st hj hst
    simp only [sem, OpR]
    exact h bs hbs j st hj hst
  intro bs
  induction bs with
  | nil =>
    intro _ j st _ _
    simp [semL, choiceGen, first1, OpRAny]
  | cons b bs ih =>
    intro hbs j st hj hst
    obtain ⟨hC, hQ⟩ := hbs b List.mem_cons_self
    have ih' := ih (fun b' hb' => hbs b' (List.mem_cons_of_mem _ hb'))
    simp only [semL, choiceGen, OpRAny]
    rcases sem_cases hC hQ j (clearBeyond st j) hj (by rw [clearBeyond_panic]; exact hst) with
      ⟨⟨q, hq⟩, n, st', r, hs, _⟩ | ⟨hm, st', hs, hc⟩
    · rw [hs]
      simp only [Step.append, first1, Option.isSome_some, true_iff]
      exact ⟨q, .inl hq⟩
    · rw [hs]
      simp only [Step.append]
      rw [ih' j st' hj hc]
      constructor
      · rintro ⟨q, hq⟩; exact ⟨q, .inr hq⟩
      · rintro ⟨q, hq | hq⟩
        · exact absurd ⟨q, hq⟩ hm
        · exact ⟨q, hq⟩

theorem isSome_onNil (s : Step) (f : St → St) : (first1 (s.onNil f)).1.isSome = (first1 s).1.isSome := by
  cases s <;> rfl

/-- `x · EndProgram` yields iff `x` yields -/
theorem seq_end_isSome (ctx : Ctx) (x : Op) (p : Nat) (st : St) :
    (first1 (sem ctx (.seq [x, .endProgram]) p st)).1.isSome = (first1 (sem ctx x p st)).1.isSome := by
  simp only [sem, semL, seqGen, isSome_onNil, seqGo]
  cases sem ctx x p st <;> simp [Step.mapSt, Step.bind, Step.append, endGen, Step.once, first1]

theorem completeAt_seq_end (ctx : Ctx) (x : Op) (hC : CompleteAt ctx x) :
    CompleteAt ctx (.seq [x, .endProgram]) := by
  intro j st hj hst
  rw [seq_end_isSome, hC j st hj hst]
  simp only [OpR, OpRSeq]
  constructor
  · rintro ⟨q, hq⟩; exact ⟨q, q, hq, q, rfl, rfl⟩
  · rintro ⟨q, m, hm, _⟩; exact ⟨m, hm⟩

/-- an operation with at most one result, of fixed length `d`, which does not touch the state -/
def Det1 (ctx : Ctx) (o : Op) (d : Nat) : Prop :=
  (∀ p st, sem ctx o p st = .nil st ∨ sem ctx o p st = .once (p + d) st) ∧
  (∀ p m, OpR ctx o p m → m = p + d)

theorem det1_atom (ctx : Ctx) (cs : List Nat) : Det1 ctx (.atom cs) cs.length := by
  refine ⟨fun p st => ?_, fun p m h => ?_⟩
  · simp only [sem, atomGen]
    split
    · exact .inl rfl
    · split
      · exact .inr rfl
      · exact .inl rfl
  · simp only [OpR] at h; exact h.1

theorem det1_cls (ctx : Ctx) (rs : Ranges) : Det1 ctx (.cls rs) 1 := by
  refine ⟨fun p st => ?_, fun p m h => ?_⟩
  · simp only [sem, clsGen]
    split
    · split
      · exact .inr rfl
      · exact .inl rfl
    · exact .inl rfl
  · simp only [OpR] at h; exact h.1

theorem det1_bol (ctx : Ctx) : Det1 ctx .bol 0 := by
  refine ⟨fun p st => ?_, fun p m h => ?_⟩
  · simp only [sem, bolGen, Nat.add_zero]
    split
    · split
      · exact .inr rfl
      · exact .inl rfl
    · exact .inr rfl
  · simp only [OpR] at h; simp only [Nat.add_zero]; exact h.1

theorem det1_nothing (ctx : Ctx) : Det1 ctx .nothing 0 := by
  refine ⟨fun p st => .inr ?_, fun p m h => ?_⟩
  · simp only [sem, nothingGen, Nat.add_zero]
  · simp only [OpR] at h; simp only [Nat.add_zero]; exact h

theorem seq_cons_once (ctx : Ctx) (o o2 : Op) (os : List Op) (p n : Nat) (st : St)
    (h : sem ctx o p st = .once n st) :
    (first1 (sem ctx (.seq (o :: o2 :: os)) p st)).1.isSome =
      (first1 (sem ctx (.seq (o2 :: os)) n (clearBeyond st n))).1.isSome := by
  simp only [sem, semL, seqGen, isSome_onNil]
  rw [seqGo]
  simp only []
  rw [h]
  simp only [Step.once, Step.mapSt, Step.bind]
  cases seqGo (sem ctx o2 :: semL ctx os) n (clearBeyond st n) <;>
    simp [Step.append, first1]

theorem seq_cons_nil (ctx : Ctx) (o o2 : Op) (os : List Op) (p : Nat) (st : St)
    (h : sem ctx o p st = .nil st) :
    (first1 (sem ctx (.seq (o :: o2 :: os)) p st)).1.isSome = false := by
  simp only [sem, semL, seqGen, isSome_onNil]
  rw [seqGo]
  simp only []
  rw [h]
  simp [Step.mapSt, Step.bind, first1]

/-- a single-result element in front of a complete sequence -/
theorem completeAt_seq_det (ctx : Ctx) (o o2 : Op) (os : List Op) (d : Nat)
    (hD : Det1 ctx o d) (hCo : CompleteAt ctx o) (hC : CompleteAt ctx (.seq (o2 :: os))) :
    CompleteAt ctx (.seq (o :: o2 :: os)) := by
  intro j st hj hst
  have hCo' := hCo j st hj hst
  have hopr : (∃ q, OpR ctx (.seq (o :: o2 :: os)) j q) ↔
      OpR ctx o j (j + d) ∧ ∃ q, OpR ctx (.seq (o2 :: os)) (j + d) q := by
    simp only [OpR]
    constructor
    · rintro ⟨q, hq⟩
      rw [OpRSeq] at hq
      obtain ⟨m, h1, h2⟩ := hq
      have := hD.2 j m h1
      subst this
      exact ⟨h1, q, h2⟩
    · rintro ⟨h1, q, h2⟩
      refine ⟨q, ?_⟩
      rw [OpRSeq]
      exact ⟨_, h1, h2⟩
  rw [hopr]
  rcases hD.1 j st with h | h
  · rw [seq_cons_nil ctx o o2 os j st h]
    rw [h] at hCo'
    simp only [first1, Option.isSome_none, Bool.false_eq_true, false_iff] at hCo' ⊢
    rintro ⟨h1, _⟩
    exact hCo' ⟨_, h1⟩
  · rw [seq_cons_once ctx o o2 os j (j + d) st h]
    rw [h] at hCo'
    simp only [Step.once, first1, Option.isSome_some, true_iff] at hCo'
    obtain ⟨q, hq⟩ := hCo'
    have := hD.2 j q hq
    subst this
    have hb := (C01.OpR_bounds ctx o j _ hj hq).2
    rw [hC (j + d) (clearBeyond st (j + d)) hb (by rw [clearBeyond_panic]; exact hst)]
    exact ⟨fun h2 => ⟨hq, h2⟩, fun h2 => h2.2⟩

end Rx.SearchComplete
