/-
  Proofs/ClassCaseLemmas — the class parser under flag i (Props/C09e).

  * `closRange`, `addCharG`, `addRangeG`: the builder operations of `clsSimple`, written on the
    environment and a Boolean `ci` (the flag) instead of the parser context;
  * `Item.stepG`, `CExpr.denoteG env ci`: the denotation in the shape the parser builds it, for
    either value of the flag (`ci = false` is `CExpr.denote`, `ci = true` is `CExpr.denoteI`);
  * `parseClass_renderG`: the parser returns `e.denoteG c.env c.fl.caseBlind`, no hypothesis on the flag;
  * `closRange_spec`, `stepI_spec`, `denoteI_spec`: membership in the lists built under flag i.
-/
import RxModel.Model.Parser
import RxModel.Props.C09
import RxModel.Props.C09c
import RxModel.Proofs.ClassFullLemmas
namespace Rx.C09
open Rx
set_option linter.unusedSimpArgs false

/-! ### the builder operations, on the environment -/

/-- `addClosureRange` on the environment: the closure of every non-surrogate `y` with
    `a ≤ y ≤ b` (and `y < a + fuel`) is added -/
def closRange (env : Env) : (fuel : Nat) → (a b : Nat) → Ranges → Ranges
  | 0, _, _, rs => rs
  | f+1, a, b, rs =>
    if a > b then rs
    else closRange env f (a + 1) b (if isSurrogate a then rs else addChars (env.closure a) rs)

theorem addClosureRange_eq (c : PC) : ∀ (f a b : Nat) (rs : Ranges),
    addClosureRange c f a b rs = closRange c.env f a b rs := by
  intro f
  induction f with
  | zero => intro a b rs; rfl
  | succ f ih => intro a b rs; simp only [addClosureRange, closRange, ih]

/-- `addCharCI` with the flag as a parameter -/
def addCharG (env : Env) (ci : Bool) (ch : Nat) (rs : Ranges) : Ranges :=
  if ci then addChars (env.closure ch) (addChar ch rs) else addChar ch rs

theorem addCharCI_eq (c : PC) (ch : Nat) (rs : Ranges) :
    addCharCI c ch rs = addCharG c.env c.fl.caseBlind ch rs := rfl

/-- what `clsSimple` does to the builder at the end of a range `a-b` -/
def addRangeG (env : Env) (ci : Bool) (a b : Nat) (rs : Ranges) : Ranges :=
  if ci then closRange env (b - a + 2) a b (addRange a (b + 1) rs) else addRange a (b + 1) rs

/-- effect of a member on the character builder (either flag) -/
def Item.addBG (env : Env) (ci : Bool) (b : Ranges) : Item → Ranges
  | .one a => addCharG env ci a.val b
  | .range a b' => addRangeG env ci a.val b'.val b
  | .hyphen => addCharG env ci 45 b
  | _ => b

def Item.stepG (env : Env) (ci : Bool) (k : ClsSt) (i : Item) : ClsSt :=
  { k with builder := i.addBG env ci k.builder, addend := i.addA env k.addend }

/-- the inversion list the parser builds, for either value of flag i -/
def CExpr.denoteG (env : Env) (ci : Bool) : CExpr → Ranges
  | .leaf neg items => (items.foldl (Item.stepG env ci) { positive := !neg }).finish
  | .minus neg items sub =>
    ({ items.foldl (Item.stepG env ci) { positive := !neg } with
        subtrahend := some (sub.denoteG env ci) }).finish

theorem stepG_false (env : Env) : Item.stepG env false = Item.step env := by
  funext k i
  cases i <;> rfl

theorem denoteG_false (env : Env) : ∀ e : CExpr, e.denoteG env false = e.denote env := by
  intro e
  induction e with
  | leaf neg items => simp only [CExpr.denoteG, CExpr.denote, stepG_false]
  | minus neg items sub ih => simp only [CExpr.denoteG, CExpr.denote, stepG_false, ih]

/-! ### `clsSimple` and the loop steps, without a hypothesis on the flag -/

/-- the end of a range -/
theorem clsSimple_rangeEndG {c : PC} {i : Nat} {k : ClsSt} {a b : Nat}
    (hk : k.definingRange = true) (hs : k.rangeStart = some a) (hab : a ≤ b) :
    clsSimple c i k (some b) =
      some { k with builder := addRangeG c.env c.fl.caseBlind a b k.builder, definingRange := false,
                    rangeStart := none } := by
  have hgt : ¬ a > b := by omega
  unfold clsSimple
  simp only [hk, hs, hgt, addRangeG, addClosureRange_eq, Bool.false_eq_true, if_false, if_true]

/-- a character followed by anything but a range-forming `-` is added to the builder -/
theorem clsSimple_addG {c : PC} {i : Nat} {k : ClsSt} {x : Nat}
    {l : List Nat} (h : c.pat.drop i = l) (hf : FolS l) (hk : k.definingRange = false) :
    clsSimple c i k (some x) = some { k with builder := addCharG c.env c.fl.caseBlind x k.builder } := by
  unfold clsSimple
  rcases hf with hn | ⟨tl, rfl⟩ | ⟨tl, rfl⟩ | ⟨tl, rfl⟩
  · have t : thereFollows c i [45] = false := by
      rw [thereFollows_eq h (by simp)]
      cases l with
      | nil => rfl
      | cons y tl =>
        have : y ≠ 45 := fun hy => hn tl (by rw [hy])
        simp [this]
    simp only [hk, t, Bool.false_eq_true, if_false, addCharCI_eq]
  · have t : thereFollows c i [45, 93] = true := by
      rw [thereFollows_eq h (by simp)]; simp
    simp only [hk, t, Bool.false_eq_true, if_false, addCharCI_eq, Bool.or_true, Bool.true_or,
      if_true, ite_self]
  · have t : thereFollows c i [45, 91] = true := by
      rw [thereFollows_eq h (by simp)]; simp
    simp only [hk, t, Bool.false_eq_true, if_false, addCharCI_eq, Bool.or_true, Bool.true_or,
      if_true, ite_self]
  · have t : thereFollows c i [45, 45, 91] = true := by
      rw [thereFollows_eq h (by simp)]; simp
    simp only [hk, t, Bool.false_eq_true, if_false, addCharCI_eq, Bool.or_true, Bool.true_or,
      if_true, ite_self]

/-- a single character that is a member -/
theorem classLoop_oneG {c : PC} {f : Nat} {st : PS} {k : ClsSt}
    {a : Single} {nxt : List Nat} (h : c.pat.drop st.idx = a.render ++ nxt)
    (ha : a.ok c.fl.xsd = true) (hf : FolS nxt) (hk : k.definingRange = false) :
    classLoop c (f + 1) st k =
      classLoop c f { st with idx := st.idx + a.render.length }
        { k with builder := addCharG c.env c.fl.caseBlind a.val k.builder } := by
  have hn : c.pat.drop (st.idx + a.render.length) = nxt := by
    rw [← List.drop_drop, h, List.drop_left]
  rw [classLoop_single h ha, clsSimple_addG hn hf hk]

/-- a literal hyphen -/
theorem classLoop_hyphenG {c : PC} {f : Nat} {st : PS} {k : ClsSt}
    {nxt : List Nat} (h : c.pat.drop st.idx = 45 :: nxt) (hf : FolH nxt)
    (hk : k.definingRange = false) (hr : k.rangeStart = none) :
    classLoop c (f + 1) st k =
      classLoop c f { st with idx := st.idx + 1 } { k with builder := addCharG c.env c.fl.caseBlind 45 k.builder } := by
  obtain ⟨hlt, hat, hn⟩ := drop_cons_facts h
  have h1 : (decide (st.idx < c.len) && c.at st.idx != 93) = true := by simp [hat, hlt]
  have hcs := clsSimple_addG (x := 45) hn hf.folS hk
  rw [classLoop, if_pos h1]
  have e91 : ((45 : Nat) == 91) = false := by decide
  have e92 : ((45 : Nat) == 92) = false := by decide
  have hrs : k.rangeStart.isSome = false := by rw [hr]; rfl
  rcases hf with ⟨tl, rfl⟩ | ⟨tl, rfl⟩ | ⟨y, tl, rfl, hy45, hy91, hy93⟩
  · have t1 : thereFollows c st.idx [45, 91] = false := by
      rw [thereFollows_eq h (by simp)]; simp
    have t2 : thereFollows c st.idx [45, 93] = true := by
      rw [thereFollows_eq h (by simp)]; simp
    simp only [hat, e91, e92, t1, t2, hcs, beq_self_eq_true, Bool.false_eq_true, if_false, if_true]
  · have t1 : thereFollows c st.idx [45, 91] = false := by
      rw [thereFollows_eq h (by simp)]; simp
    have t2 : thereFollows c st.idx [45, 93] = false := by
      rw [thereFollows_eq h (by simp)]; simp
    have t3 : thereFollows c st.idx [45, 45, 91] = true := by
      rw [thereFollows_eq h (by simp)]; simp
    simp only [hat, e91, e92, t1, t2, t3, hrs, hk, hcs, beq_self_eq_true, Bool.false_eq_true,
      if_false, if_true, Bool.not_true, Bool.and_false]
  · have t1 : thereFollows c st.idx [45, 91] = false := by
      rw [thereFollows_eq h (by simp)]; simp [hy91]
    have t2 : thereFollows c st.idx [45, 93] = false := by
      rw [thereFollows_eq h (by simp)]; simp [hy93]
    have t3 : thereFollows c st.idx [45, 45] = false := by
      rw [thereFollows_eq h (by simp)]; simp [hy45]
    simp only [hat, e91, e92, t1, t2, t3, hrs, hk, hcs, beq_self_eq_true, Bool.false_eq_true,
      if_false, if_true, Bool.false_and]

/-- a range `a-b` with plain or escaped end points: three loop steps -/
theorem classLoop_range2G {c : PC} {f : Nat} {st : PS} {k : ClsSt}
    {a b : Single} {nxt : List Nat}
    (h : c.pat.drop st.idx = (a.render ++ 45 :: b.render) ++ nxt)
    (ha : a.ok c.fl.xsd = true) (hb : b.ok c.fl.xsd = true) (hab : a.val ≤ b.val)
    (hk : k.definingRange = false) (hr : k.rangeStart = none) :
    classLoop c (f + 3) st k =
      classLoop c f { st with idx := st.idx + (a.render ++ 45 :: b.render).length }
        { k with builder := addRangeG c.env c.fl.caseBlind a.val b.val k.builder } := by
  obtain ⟨y, btl, hby, hy45, hy91, hy93⟩ := Single.render_head hb
  have h0 : c.pat.drop st.idx = a.render ++ (45 :: b.render ++ nxt) := by
    rw [h]; simp
  have h1 : c.pat.drop (st.idx + a.render.length) = 45 :: (b.render ++ nxt) := by
    rw [← List.drop_drop, h0, List.drop_left]; rfl
  have h1' : c.pat.drop (st.idx + a.render.length) = 45 :: y :: (btl ++ nxt) := by
    rw [h1, hby]; rfl
  have h2 : c.pat.drop (st.idx + a.render.length + 1) = b.render ++ nxt := (drop_cons_facts h1).2.2
  rw [classLoop_single (f := f + 2) h0 ha, clsSimple_rangeStart h1' hy91 hy93 hy45 hk]
  simp only
  rw [classLoop_dash (f := f + 1) (st := { st with idx := st.idx + a.render.length }) h1' hy91 hy93 rfl]
  rw [classLoop_single (f := f) (st := { st with idx := st.idx + a.render.length + 1 }) h2 hb,
    clsSimple_rangeEndG rfl rfl hab]
  simp only [List.length_append, List.length_cons]
  have : st.idx + a.render.length + 1 + b.render.length = st.idx + (a.render.length + (b.render.length + 1)) := by
    omega
  rw [this]
  congr 1
  cases k
  simp only at hk hr
  subst hk; subst hr
  rfl

theorem classLoop_allG {c : PC} (fol : List Nat) (hfol : FolOk fol) :
    ∀ (items : List Item) (fuel : Nat) (st : PS) (k : ClsSt),
      itemsOk c.fl.xsd c.env items = true →
      c.pat.drop st.idx = renderAll items ++ fol →
      k.definingRange = false → k.rangeStart = none →
      stepsAll items ≤ fuel →
      classLoop c fuel st k =
        classLoop c (fuel - stepsAll items) { st with idx := st.idx + (renderAll items).length }
          (items.foldl (Item.stepG c.env c.fl.caseBlind) k) := by
  intro items
  induction items with
  | nil =>
    intro fuel st k _ _ _ _ _
    rfl
  | cons it more ih =>
    intro fuel st k hok hpat hk hr hfuel
    simp only [itemsOk, Bool.and_eq_true] at hok
    obtain ⟨⟨hit, hadj⟩, hmore⟩ := hok
    simp only [renderAll, List.append_assoc] at hpat
    have hnext := drop_add_of_append hpat
    simp only [stepsAll] at hfuel ⊢
    simp only [renderAll, List.length_append, List.foldl_cons]
    cases it with
    | one a =>
      simp only [Item.ok, Bool.and_eq_true] at hit
      simp only [Item.steps] at hfuel ⊢
      obtain ⟨f, rfl⟩ : ∃ f, fuel = f + 1 := ⟨fuel - 1, by omega⟩
      simp only [Item.render] at hpat hnext ⊢
      rw [classLoop_oneG hpat hit.1 (folS_of hmore hadj hfol) hk]
      rw [ih f { st with idx := st.idx + a.render.length }
            { k with builder := addCharG c.env c.fl.caseBlind a.val k.builder } hmore hnext hk hr (by omega)]
      have e1 : f + 1 - (1 + stepsAll more) = f - stepsAll more := by omega
      rw [e1, Nat.add_assoc]
      rfl
    | range a b =>
      simp only [Item.ok, Bool.and_eq_true, decide_eq_true_eq] at hit
      simp only [Item.steps] at hfuel ⊢
      obtain ⟨f, rfl⟩ : ∃ f, fuel = f + 3 := ⟨fuel - 3, by omega⟩
      simp only [Item.render] at hpat hnext ⊢
      rw [classLoop_range2G (by rw [hpat, List.append_assoc]) hit.1.1.1 hit.1.1.2 hit.1.2 hk hr]
      rw [ih f { st with idx := st.idx + (a.render ++ 45 :: b.render).length }
            { k with builder := addRangeG c.env c.fl.caseBlind a.val b.val k.builder } hmore hnext hk hr (by omega)]
      have e1 : f + 3 - (3 + stepsAll more) = f - stepsAll more := by omega
      rw [e1, Nat.add_assoc]
      rfl
    | hyphen =>
      simp only [Item.steps] at hfuel ⊢
      obtain ⟨f, rfl⟩ : ∃ f, fuel = f + 1 := ⟨fuel - 1, by omega⟩
      simp only [Item.render, List.cons_append, List.nil_append, List.length_cons,
        List.length_nil] at hpat hnext ⊢
      rw [classLoop_hyphenG hpat (folH_of hmore hadj hfol) hk hr]
      rw [ih f { st with idx := st.idx + 1 } { k with builder := addCharG c.env c.fl.caseBlind 45 k.builder } hmore hnext
            hk hr (by omega)]
      have e1 : f + 1 - (1 + stepsAll more) = f - stepsAll more := by omega
      rw [e1, Nat.add_assoc]
      rfl
    | cls e =>
      simp only [Item.ok] at hit
      simp only [Item.steps] at hfuel ⊢
      obtain ⟨f, rfl⟩ : ∃ f, fuel = f + 1 := ⟨fuel - 1, by omega⟩
      simp only [Item.render, List.cons_append, List.nil_append, List.length_cons,
        List.length_nil] at hpat hnext ⊢
      rw [classLoop_set hpat (escape_cls true hpat hit) hk]
      refine (ih f { st with idx := st.idx + 2 } (Item.stepG c.env c.fl.caseBlind k (.cls e)) hmore hnext hk hr
        (by omega)).trans ?_
      have e1 : f + 1 - (1 + stepsAll more) = f - stepsAll more := by omega
      rw [e1, Nat.add_assoc]
    | prop pos name =>
      simp only [Item.ok, Bool.and_eq_true] at hit
      obtain ⟨hall, hsome⟩ := hit
      obtain ⟨rs, hrs⟩ := Option.isSome_iff_exists.1 hsome
      simp only [Item.steps] at hfuel ⊢
      obtain ⟨f, rfl⟩ : ∃ f, fuel = f + 1 := ⟨fuel - 1, by omega⟩
      simp only [Item.render, List.cons_append, List.append_assoc, List.nil_append,
        List.length_cons, List.length_append, List.length_nil] at hpat hnext ⊢
      rw [classLoop_set hpat (escape_prop true hpat hall hrs) hk]
      have hnext' : c.pat.drop (st.idx + 4 + name.length) = renderAll more ++ fol := by
        rw [← hnext]; congr 1; omega
      have hk' : Item.stepG c.env c.fl.caseBlind k (.prop pos name) =
          { k with addend := some (match k.addend with
              | some a => unionR a (if pos = true then rs else complR rs)
              | none => if pos = true then rs else complR rs) } := by
        simp only [Item.stepG, Item.addBG, Item.addA, addU, propSet, hrs]
        rfl
      rw [hk']
      refine (ih f { st with idx := st.idx + 4 + name.length }
        { k with addend := some (match k.addend with
              | some a => unionR a (if pos = true then rs else complR rs)
              | none => if pos = true then rs else complR rs) } hmore hnext' hk hr (by omega)).trans ?_
      have e1 : f + 1 - (1 + stepsAll more) = f - stepsAll more := by omega
      have e2 : st.idx + 4 + name.length + (renderAll more).length =
          st.idx + (name.length + (0 + 1) + 1 + 1 + 1 + (renderAll more).length) := by omega
      rw [e1]
      simp only [e2]

theorem foldl_stepG_fields (env : Env) (ci : Bool) : ∀ (items : List Item) (k : ClsSt),
    (items.foldl (Item.stepG env ci) k).definingRange = k.definingRange ∧
    (items.foldl (Item.stepG env ci) k).rangeStart = k.rangeStart ∧
    (items.foldl (Item.stepG env ci) k).positive = k.positive ∧
    (items.foldl (Item.stepG env ci) k).subtrahend = k.subtrahend := by
  intro items
  induction items with
  | nil => intro k; exact ⟨rfl, rfl, rfl, rfl⟩
  | cons i more ih => intro k; exact ih (Item.stepG env ci k i)

theorem parseClass_renderG {c : PC} :
    ∀ (e : CExpr) (s : PS) (rest : List Nat) (fuel : Nat),
      e.ok c.fl.xsd c.env = true →
      c.pat.drop s.idx = e.render ++ rest →
      e.render.length ≤ fuel →
      parseClass c fuel s = .ok (e.denoteG c.env c.fl.caseBlind) { s with idx := s.idx + e.render.length } := by
  intro e
  induction e with
  | leaf neg items =>
    intro s rest fuel hok hpat hfuel
    simp only [CExpr.ok, headOk, Bool.and_eq_true, Bool.not_eq_true', List.isEmpty_eq_false_iff,
      Bool.or_eq_true] at hok
    obtain ⟨⟨hne, hitems⟩, hfirst⟩ := hok
    have hfol : FolOk (93 :: rest) := Or.inl ⟨rest, rfl⟩
    obtain ⟨y, z, tl, hbody, hhead, _, h93, h45⟩ := body_head hne hitems hfol
    have hpat' : c.pat.drop s.idx = 91 :: ((if neg then [94] else []) ++ (renderAll items ++ 93 :: rest)) := by
      rw [hpat]; simp [CExpr.render]
    have hpat2 := hpat'
    rw [hbody] at hpat2
    have h94 : neg = false → y ≠ 94 := by
      intro hn
      rcases hfirst with h | h
      · rw [hn] at h; cases h
      · rw [hhead] at h
        intro hy
        rw [hy] at h
        simp at h
    have hlenR : (CExpr.leaf neg items).render.length =
        1 + (if neg then 1 else 0) + (renderAll items).length + 1 := by
      cases neg <;> simp [CExpr.render] <;> omega
    rw [hlenR] at hfuel ⊢
    have hsteps := stepsAll_le items
    obtain ⟨f, rfl⟩ : ∃ f, fuel = f + 1 := ⟨fuel - 1, by omega⟩
    rw [parseClass_open hpat2 h93 h45 h94]
    have hst1 : c.pat.drop (s.idx + 1 + (if neg then 1 else 0)) = renderAll items ++ 93 :: rest := by
      have := drop_add_of_append (l := 91 :: (if neg then [94] else [])) (r := renderAll items ++ 93 :: rest)
        (by rw [hpat']; simp)
      rw [← this]
      cases neg <;> rfl
    rw [classLoop_allG (93 :: rest) hfol items f
          { s with idx := s.idx + 1 + (if neg then 1 else 0) } { positive := !neg } hitems hst1 rfl rfl
          (by omega)]
    obtain ⟨f2, hf2⟩ : ∃ f2, f - stepsAll items = f2 + 1 := ⟨f - stepsAll items - 1, by omega⟩
    rw [hf2]
    have hst2 : c.pat.drop (s.idx + 1 + (if neg then 1 else 0) + (renderAll items).length) = 93 :: rest :=
      drop_add_of_append hst1
    rw [classLoop_stop (st := { s with idx := s.idx + 1 + (if neg then 1 else 0) + (renderAll items).length })
          hst2]
    simp only [CExpr.denoteG]
    congr 2
    omega
  | minus neg items sub ih =>
    intro s rest fuel hok hpat hfuel
    simp only [CExpr.ok, headOk, Bool.and_eq_true, Bool.not_eq_true', List.isEmpty_eq_false_iff,
      Bool.or_eq_true] at hok
    obtain ⟨⟨⟨hne, hitems⟩, hfirst⟩, hsub⟩ := hok
    obtain ⟨stl, hstl⟩ := sub.render_cons
    have hfol : FolOk (45 :: (sub.render ++ 93 :: rest)) := Or.inr ⟨stl ++ 93 :: rest, by rw [hstl]; rfl⟩
    obtain ⟨y, z, tl, hbody, hhead, _, h93, h45⟩ := body_head hne hitems hfol
    have hpat' : c.pat.drop s.idx =
        91 :: ((if neg then [94] else []) ++ (renderAll items ++ 45 :: (sub.render ++ 93 :: rest))) := by
      rw [hpat]; simp [CExpr.render]
    have hpat2 := hpat'
    rw [hbody] at hpat2
    have h94 : neg = false → y ≠ 94 := by
      intro hn
      rcases hfirst with h | h
      · rw [hn] at h; cases h
      · rw [hhead] at h
        intro hy
        rw [hy] at h
        simp at h
    have hlenR : (CExpr.minus neg items sub).render.length =
        1 + (if neg then 1 else 0) + (renderAll items).length + 1 + sub.render.length + 1 := by
      cases neg <;> simp [CExpr.render] <;> omega
    rw [hlenR] at hfuel ⊢
    have hsteps := stepsAll_le items
    obtain ⟨f, rfl⟩ : ∃ f, fuel = f + 1 := ⟨fuel - 1, by omega⟩
    rw [parseClass_open hpat2 h93 h45 h94]
    have hst1 : c.pat.drop (s.idx + 1 + (if neg then 1 else 0)) =
        renderAll items ++ 45 :: (sub.render ++ 93 :: rest) := by
      have := drop_add_of_append (l := 91 :: (if neg then [94] else []))
        (r := renderAll items ++ 45 :: (sub.render ++ 93 :: rest)) (by rw [hpat']; simp)
      rw [← this]
      cases neg <;> rfl
    rw [classLoop_allG _ hfol items f
          { s with idx := s.idx + 1 + (if neg then 1 else 0) } { positive := !neg } hitems hst1 rfl rfl
          (by omega)]
    obtain ⟨f2, hf2⟩ : ∃ f2, f - stepsAll items = f2 + 2 := ⟨f - stepsAll items - 2, by omega⟩
    rw [hf2]
    have hst2 : c.pat.drop (s.idx + 1 + (if neg then 1 else 0) + (renderAll items).length) =
        45 :: (sub.render ++ 93 :: rest) := drop_add_of_append hst1
    have hst2' : c.pat.drop (s.idx + 1 + (if neg then 1 else 0) + (renderAll items).length) =
        45 :: 91 :: (stl ++ 93 :: rest) := by rw [hst2, hstl]; rfl
    have hst3 := (drop_cons_facts hst2).2.2
    have hp := ih { s with idx := s.idx + 1 + (if neg then 1 else 0) + (renderAll items).length + 1 }
      (93 :: rest) (f2 + 1) hsub hst3 (by omega)
    have hst4 : c.pat.drop (s.idx + 1 + (if neg then 1 else 0) + (renderAll items).length + 1
        + sub.render.length) = 93 :: rest := drop_add_of_append hst3
    have hdr := (foldl_stepG_fields c.env c.fl.caseBlind items { positive := !neg }).1
    rw [classLoop_sub (st := { s with idx := s.idx + 1 + (if neg then 1 else 0) + (renderAll items).length })
          hst2' hp hst4 hdr]
    simp only [CExpr.denoteG]
    congr 2
    omega

/-! ### membership in the lists built under flag i -/

/-- every member of a case closure is a code point -/
def ClosureOK (env : Env) : Prop := ∀ a x, x ∈ env.closure a → x < cpLimit

theorem addChars_spec' (l : List Nat) (hl : ∀ y ∈ l, y < cpLimit) : ∀ (rs : Ranges), Canon rs →
    Canon (addChars l rs) ∧
      ∀ x, (clsContains (addChars l rs) x = true ↔ x ∈ l ∨ clsContains rs x = true) := by
  induction l with
  | nil => intro rs h; exact ⟨h, fun x => by simp [addChars]⟩
  | cons ch l ih =>
    intro rs h
    have hch := hl ch List.mem_cons_self
    have hc : Canon (addChar ch rs) := canon_addRange rs h ch (ch + 1) (by omega)
    obtain ⟨h1, h2⟩ := ih (fun y hy => hl y (List.mem_cons_of_mem _ hy)) _ hc
    refine ⟨h1, fun x => ?_⟩
    show clsContains (addChars l (addChar ch rs)) x = true ↔ _
    rw [h2 x, contains_addChar rs h, List.mem_cons]
    simp only [Bool.or_eq_true, decide_eq_true_eq]
    constructor
    · rintro (h | h | h)
      · exact Or.inl (Or.inr h)
      · exact Or.inl (Or.inl h)
      · exact Or.inr h
    · rintro ((h | h) | h)
      · exact Or.inr (Or.inl h)
      · exact Or.inl h
      · exact Or.inr (Or.inr h)

/-- the range-closure loop: the list stays canonical and gains exactly the closures of the
    non-surrogate characters of `[a, b]` that the fuel reaches -/
theorem closRange_spec {env : Env} (hc : ClosureOK env) : ∀ (f a b : Nat) (rs : Ranges), Canon rs →
    Canon (closRange env f a b rs) ∧
      ∀ x, (clsContains (closRange env f a b rs) x = true ↔
        clsContains rs x = true ∨
          ∃ y, a ≤ y ∧ y ≤ b ∧ y < a + f ∧ isSurrogate y = false ∧ x ∈ env.closure y) := by
  intro f
  induction f with
  | zero =>
    intro a b rs h
    refine ⟨h, fun x => ?_⟩
    simp only [closRange]
    constructor
    · exact Or.inl
    · rintro (h | ⟨y, h1, _, h3, _⟩)
      · exact h
      · omega
  | succ f ih =>
    intro a b rs h
    by_cases hab : a > b
    · simp only [closRange, if_pos hab]
      refine ⟨h, fun x => ?_⟩
      constructor
      · exact Or.inl
      · rintro (h | ⟨y, h1, h2, _⟩)
        · exact h
        · omega
    · simp only [closRange, if_neg hab]
      have h' : Canon (if isSurrogate a then rs else addChars (env.closure a) rs) ∧
          ∀ x, (clsContains (if isSurrogate a then rs else addChars (env.closure a) rs) x = true ↔
            clsContains rs x = true ∨ (isSurrogate a = false ∧ x ∈ env.closure a)) := by
        cases hs : isSurrogate a with
        | true => simp only [if_true]; exact ⟨h, fun x => by simp⟩
        | false =>
          simp only [Bool.false_eq_true, if_false]
          obtain ⟨g1, g2⟩ := addChars_spec' (env.closure a) (fun y hy => hc a y hy) rs h
          refine ⟨g1, fun x => ?_⟩
          rw [g2 x]
          simp only [true_and]
          exact Or.comm
      obtain ⟨g1, g2⟩ := ih (a + 1) b _ h'.1
      refine ⟨g1, fun x => ?_⟩
      rw [g2 x, h'.2 x]
      constructor
      · rintro ((h | ⟨hs, hx⟩) | ⟨y, h1, h2, h3, h4, h5⟩)
        · exact Or.inl h
        · exact Or.inr ⟨a, Nat.le_refl _, by omega, by omega, hs, hx⟩
        · exact Or.inr ⟨y, by omega, h2, by omega, h4, h5⟩
      · rintro (h | ⟨y, h1, h2, h3, h4, h5⟩)
        · exact Or.inl (Or.inl h)
        · by_cases hy : y = a
          · subst hy; exact Or.inl (Or.inr ⟨h4, h5⟩)
          · exact Or.inr ⟨y, by omega, h2, by omega, h4, h5⟩

/-- `x` is matched by one member under flag i: a single character `a` matches `a` and the members
    of its closure; a range `a-b` matches `[a, b]` (surrogates included, as in the case-sensitive
    parser) and the closures of the NON-surrogate characters of `[a, b]`; a literal hyphen matches
    `-` and its closure; the class escapes are not closed. -/
def Item.MemI (env : Env) (x : Nat) : Item → Prop
  | .one a => x = a.val ∨ x ∈ env.closure a.val
  | .range a b => (a.val ≤ x ∧ x ≤ b.val) ∨
      ∃ y, a.val ≤ y ∧ y ≤ b.val ∧ isSurrogate y = false ∧ x ∈ env.closure y
  | .hyphen => x = 45 ∨ x ∈ env.closure 45
  | .cls e => Item.Mem env x (.cls e)
  | .prop pos name => Item.Mem env x (.prop pos name)

/-- (member of some item) XOR negated, and not a member of the subtrahend — under flag i -/
def CExpr.MemberI (env : Env) (x : Nat) : CExpr → Prop
  | .leaf neg items => ((∃ i ∈ items, i.MemI env x) ↔ neg = false)
  | .minus neg items sub => ((∃ i ∈ items, i.MemI env x) ↔ neg = false) ∧ ¬ sub.MemberI env x

/-- `x` is in the builder or in the set of class escapes -/
def InK (k : ClsSt) (x : Nat) : Prop := clsContains k.builder x = true ∨ optC k.addend x = true

theorem addCharI_spec {env : Env} (hc : ClosureOK env) (rs : Ranges) (h : Canon rs) (ch : Nat)
    (hch : ch < cpLimit) :
    Canon (addCharG env true ch rs) ∧
      ∀ x, (clsContains (addCharG env true ch rs) x = true ↔
        (x = ch ∨ x ∈ env.closure ch) ∨ clsContains rs x = true) := by
  have hcc : Canon (addChar ch rs) := canon_addRange rs h ch (ch + 1) (by omega)
  obtain ⟨g1, g2⟩ := addChars_spec' (env.closure ch) (fun y hy => hc ch y hy) _ hcc
  simp only [addCharG, if_true]
  refine ⟨g1, fun x => ?_⟩
  rw [g2 x, contains_addChar rs h]
  simp only [Bool.or_eq_true, decide_eq_true_eq]
  constructor
  · rintro (h | h | h)
    · exact Or.inl (Or.inr h)
    · exact Or.inl (Or.inl h)
    · exact Or.inr h
  · rintro ((h | h) | h)
    · exact Or.inr (Or.inl h)
    · exact Or.inl h
    · exact Or.inr (Or.inr h)

theorem addRangeI_spec {env : Env} (hc : ClosureOK env) (rs : Ranges) (h : Canon rs) (a b : Nat)
    (hb : b < cpLimit) :
    Canon (addRangeG env true a b rs) ∧
      ∀ x, (clsContains (addRangeG env true a b rs) x = true ↔
        ((a ≤ x ∧ x ≤ b) ∨ ∃ y, a ≤ y ∧ y ≤ b ∧ isSurrogate y = false ∧ x ∈ env.closure y) ∨
          clsContains rs x = true) := by
  have hcc : Canon (addRange a (b + 1) rs) := canon_addRange rs h a (b + 1) (by omega)
  obtain ⟨g1, g2⟩ := closRange_spec hc (b - a + 2) a b _ hcc
  simp only [addRangeG, if_true]
  refine ⟨g1, fun x => ?_⟩
  rw [g2 x, contains_addRange rs h]
  simp only [Bool.or_eq_true, Bool.and_eq_true, decide_eq_true_eq]
  constructor
  · rintro ((h | h) | ⟨y, h1, h2, _, h4, h5⟩)
    · exact Or.inl (Or.inl ⟨h.1, by omega⟩)
    · exact Or.inr h
    · exact Or.inl (Or.inr ⟨y, h1, h2, h4, h5⟩)
  · rintro ((h | ⟨y, h1, h2, h4, h5⟩) | h)
    · exact Or.inl (Or.inl ⟨h.1, by omega⟩)
    · exact Or.inr ⟨y, h1, h2, by omega, h4, h5⟩
    · exact Or.inl (Or.inr h)

theorem inK_iff (k : ClsSt) (x : Nat) :
    InK k x ↔ (clsContains k.builder x || optC k.addend x) = true := by
  simp only [InK, Bool.or_eq_true]

/-- one member under flag i: builder and addend stay canonical and gain exactly the member -/
theorem stepI_spec {env : Env} (henv : EnvCanon env) (hc : ClosureOK env) {xsd : Bool} (x : Nat)
    (hx : x < cpLimit) (i : Item) (hi : i.ok xsd env = true) (k : ClsSt) (hb : Canon k.builder)
    (had : ∀ a, k.addend = some a → Canon a) :
    Canon (Item.stepG env true k i).builder ∧
    (∀ a, (Item.stepG env true k i).addend = some a → Canon a) ∧
    (InK (Item.stepG env true k i) x ↔ i.MemI env x ∨ InK k x) := by
  cases i with
  | one a =>
    simp only [Item.ok, Bool.and_eq_true, decide_eq_true_eq] at hi
    obtain ⟨g1, g2⟩ := addCharI_spec hc k.builder hb a.val hi.2
    refine ⟨g1, had, ?_⟩
    simp only [InK, Item.stepG, Item.addBG, Item.addA, Item.MemI]
    rw [g2 x, or_assoc]
  | range a b =>
    simp only [Item.ok, Bool.and_eq_true, decide_eq_true_eq] at hi
    obtain ⟨g1, g2⟩ := addRangeI_spec hc k.builder hb a.val b.val hi.2
    refine ⟨g1, had, ?_⟩
    simp only [InK, Item.stepG, Item.addBG, Item.addA, Item.MemI]
    rw [g2 x, or_assoc]
  | hyphen =>
    obtain ⟨g1, g2⟩ := addCharI_spec hc k.builder hb 45 (by simp [cpLimit])
    refine ⟨g1, had, ?_⟩
    simp only [InK, Item.stepG, Item.addBG, Item.addA, Item.MemI]
    rw [g2 x, or_assoc]
  | cls e =>
    obtain ⟨h1, h2, h3⟩ := step_spec henv x hx (.cls e) hi k hb had
    refine ⟨h1, h2, ?_⟩
    rw [show Item.stepG env true k (.cls e) = Item.step env k (.cls e) from rfl, inK_iff, h3,
      Bool.or_eq_true, Item.mem_iff, ← inK_iff]
    rfl
  | prop pos name =>
    obtain ⟨h1, h2, h3⟩ := step_spec henv x hx (.prop pos name) hi k hb had
    refine ⟨h1, h2, ?_⟩
    rw [show Item.stepG env true k (.prop pos name) = Item.step env k (.prop pos name) from rfl,
      inK_iff, h3, Bool.or_eq_true, Item.mem_iff, ← inK_iff]
    rfl

theorem foldl_stepI_spec {env : Env} (henv : EnvCanon env) (hc : ClosureOK env) {xsd : Bool} (x : Nat)
    (hx : x < cpLimit) :
    ∀ (items : List Item) (k : ClsSt), itemsOk xsd env items = true → Canon k.builder →
      (∀ a, k.addend = some a → Canon a) →
      Canon (items.foldl (Item.stepG env true) k).builder ∧
      (∀ a, (items.foldl (Item.stepG env true) k).addend = some a → Canon a) ∧
      (InK (items.foldl (Item.stepG env true) k) x ↔ (∃ i ∈ items, i.MemI env x) ∨ InK k x) := by
  intro items
  induction items with
  | nil => intro k _ hb had; exact ⟨hb, had, by simp⟩
  | cons i more ih =>
    intro k hok hb had
    simp only [itemsOk, Bool.and_eq_true] at hok
    obtain ⟨h1, h2, h3⟩ := stepI_spec henv hc x hx i hok.1.1 k hb had
    obtain ⟨g1, g2, g3⟩ := ih (Item.stepG env true k i) hok.2 h1 h2
    refine ⟨g1, g2, ?_⟩
    simp only [List.foldl_cons]
    rw [g3, h3]
    simp only [List.mem_cons, exists_eq_or_imp]
    constructor
    · rintro (h | h | h)
      · exact Or.inl (Or.inr h)
      · exact Or.inl (Or.inl h)
      · exact Or.inr h
    · rintro ((h | h) | h)
      · exact Or.inr (Or.inl h)
      · exact Or.inl h
      · exact Or.inr (Or.inr h)

theorem finish_iff (k : ClsSt) (hb : Canon k.builder) (ha : ∀ a, k.addend = some a → Canon a)
    (hs : ∀ s, k.subtrahend = some s → Canon s) (x : Nat) (hx : x < cpLimit) :
    clsContains k.finish x = true ↔
      ((InK k x ↔ k.positive = true) ∧ ¬ optC k.subtrahend x = true) := by
  rw [finish_denotes k hb ha hs x hx]
  unfold InK optC
  cases k.positive <;> cases clsContains k.builder x <;>
    cases ((k.addend.map (clsContains · x)).getD false) <;>
    cases ((k.subtrahend.map (clsContains · x)).getD false) <;> simp

theorem inK_init (neg : Bool) (x : Nat) : ¬ InK { positive := !neg } x := by
  simp [InK, optC, clsContains]

/-- the inversion list built under flag i is canonical and contains exactly the characters of the
    set-algebra reading `MemberI` -/
theorem denoteI_spec {env : Env} (henv : EnvCanon env) (hc : ClosureOK env) {xsd : Bool} (x : Nat)
    (hx : x < cpLimit) :
    ∀ (e : CExpr), e.ok xsd env = true →
      Canon (e.denoteG env true) ∧ (clsContains (e.denoteG env true) x = true ↔ e.MemberI env x) := by
  intro e
  induction e with
  | leaf neg items =>
    intro hok
    simp only [CExpr.ok, headOk, Bool.and_eq_true] at hok
    obtain ⟨g1, g2, g3⟩ := foldl_stepI_spec henv hc x hx items { positive := !neg } hok.1.2
      (by simp [Canon]) (by intro a h; cases h)
    obtain ⟨_, _, f3, f4⟩ := foldl_stepG_fields env true items { positive := !neg }
    have hs : ∀ s, (items.foldl (Item.stepG env true) { positive := !neg }).subtrahend = some s →
        Canon s := by
      intro s h; rw [f4] at h; cases h
    refine ⟨canon_finish _ g1 g2 hs, ?_⟩
    simp only [CExpr.denoteG, CExpr.MemberI]
    rw [finish_iff _ g1 g2 hs x hx, g3, f3, f4]
    have := inK_init neg x
    simp only [optC, Option.map_none, Option.getD_none, Bool.false_eq_true, not_false_eq_true,
      and_true, this, or_false, Bool.not_eq_true']
  | minus neg items sub ih =>
    intro hok
    simp only [CExpr.ok, headOk, Bool.and_eq_true] at hok
    obtain ⟨hcs, hms⟩ := ih hok.2
    obtain ⟨g1, g2, g3⟩ := foldl_stepI_spec henv hc x hx items { positive := !neg } hok.1.1.2
      (by simp [Canon]) (by intro a h; cases h)
    obtain ⟨_, _, f3, _⟩ := foldl_stepG_fields env true items { positive := !neg }
    have hs : ∀ s, ({ items.foldl (Item.stepG env true) { positive := !neg } with
        subtrahend := some (sub.denoteG env true) } : ClsSt).subtrahend = some s → Canon s := by
      intro s h
      simp only [Option.some.injEq] at h
      rw [← h]; exact hcs
    refine ⟨canon_finish _ g1 g2 hs, ?_⟩
    simp only [CExpr.denoteG, CExpr.MemberI]
    rw [finish_iff ({ items.foldl (Item.stepG env true) { positive := !neg } with
        subtrahend := some (sub.denoteG env true) }) g1 g2 hs x hx]
    have := inK_init neg x
    have hInK : InK ({ items.foldl (Item.stepG env true) { positive := !neg } with
        subtrahend := some (sub.denoteG env true) }) x ↔
        InK (items.foldl (Item.stepG env true) { positive := !neg }) x := Iff.rfl
    rw [hInK, g3]
    simp only [f3, optC, Option.map_some, Option.getD_some, this, or_false, Bool.not_eq_true', hms]

/-! ### flag i adds members; closure of character members -/

/-- single characters, literal hyphens and ranges (no class escapes) -/
def Item.isChars : Item → Bool
  | .one _ => true
  | .range _ _ => true
  | .hyphen => true
  | _ => false

theorem Item.memI_of_mem {env : Env} {x : Nat} {i : Item} (h : i.Mem env x) : i.MemI env x := by
  cases i with
  | one a => exact Or.inl h
  | range a b => exact Or.inl h
  | hyphen => exact Or.inl h
  | cls e => exact h
  | prop pos name => exact h

theorem single_closed {env : Env}
    (htr : ∀ x y z, y ∈ env.closure x → z ∈ env.closure y → z = x ∨ z ∈ env.closure x)
    {a x y : Nat} (hm : x = a ∨ x ∈ env.closure a) (hy : y ∈ env.closure x) :
    y = a ∨ y ∈ env.closure a := by
  rcases hm with rfl | h
  · exact Or.inr hy
  · exact htr a x y h hy

/-- a character member under flag i: its case variants are members too -/
theorem Item.memI_closed {env : Env}
    (htr : ∀ x y z, y ∈ env.closure x → z ∈ env.closure y → z = x ∨ z ∈ env.closure x)
    (hsur : ∀ s, isSurrogate s = true → env.closure s = []) {i : Item} (hi : i.isChars = true)
    {x y : Nat} (hm : i.MemI env x) (hy : y ∈ env.closure x) : i.MemI env y := by
  cases i with
  | one a => exact single_closed htr hm hy
  | hyphen => exact single_closed htr hm hy
  | range a b =>
    rcases hm with ⟨h1, h2⟩ | ⟨y0, h1, h2, h3, h4⟩
    · cases hs : isSurrogate x with
      | false => exact Or.inr ⟨x, h1, h2, hs, hy⟩
      | true => rw [hsur x hs] at hy; cases hy
    · rcases htr y0 x y h4 hy with rfl | h
      · exact Or.inl ⟨h1, h2⟩
      · exact Or.inr ⟨y0, h1, h2, h3, h⟩
  | cls e => cases hi
  | prop pos name => cases hi

end Rx.C09
