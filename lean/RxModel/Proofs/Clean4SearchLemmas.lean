/-
  Proofs/Clean4SearchLemmas — helper lemmas for Props/Clean4: `CompleteAt` / `match_at` on the fragment of
  Spec/Enum4 (namespace `Rx.Clean4L`), and the hypotheses of the search-loop theorems (Props/SearchComplete)
  on it (namespace `Rx.SearchComplete`): the shapes `add_precondition` records (`preShape4`: additionally
  `x{1,m}?` as a general reluctant repeat over one character), `Quiet` WITHOUT a bound on reluctant minima
  (Props/C06b), `clean4_outcome`, `Outcome.span_clean4`.
-/
import RxModel.Proofs.Enum4Lemmas
import RxModel.Proofs.Clean3SearchLemmas
import RxModel.Props.C06b
namespace Rx.Clean4L
open Rx Rx.SearchComplete
open Rx.C08 (noEmptyAtoms noEmptyAtomsL clsCanon clsCanonL)

/-! ### a. the iterator yields exactly `enum4` -/

theorem sem_seq_enum4 (env : Env) (ctx : Ctx) (hI : InputOK env ctx) (op : Op)
    (hc : cleanProg4 env ctx.caseBlind ctx.multiLine op = true) (hwf : wfOp op = true)
    (hne : noEmptyAtoms op = true) (hcan : clsCanonB op = true) (p : Nat) (hp : p ≤ ctx.len) (st : St)
    (_ : anySt st) : Step.Seq anySt (sem ctx op p st) (enum4 ctx op p) :=
  sem_ex4_prog env ctx hI op hc hwf hne (clsCanon_of_B op hcan) p hp st

theorem sem_seq_enum4_of (I : St → Prop) (env : Env) (ctx : Ctx) (hI : InputOK env ctx) (op : Op)
    (hc : cleanProg4 env ctx.caseBlind ctx.multiLine op = true) (hwf : wfOp op = true)
    (hne : noEmptyAtoms op = true) (hcan : clsCanonB op = true) (p : Nat) (hp : p ≤ ctx.len) (st : St) :
    Step.Seq I (sem ctx op p st) (enum4 ctx op p) :=
  (sem_ex4_prog env ctx hI op hc hwf hne (clsCanon_of_B op hcan) p hp st).weaken

/-- the fragments of Spec/Enum2 are inside -/
theorem cleanOp4_of_cleanOp2 (env : Env) (cb ml : Bool) (op : Op) (h : cleanOp2 env cb ml op = true) :
    cleanOp4 env cb ml op = true :=
  clean4_of_clean2 env cb ml op false [] h

theorem cleanProg4_of_cleanProg2 (env : Env) (cb ml : Bool) (op : Op) (h : cleanProg2 env cb ml op = true) :
    cleanProg4 env cb ml op = true := by
  cases op with
  | seq ops => exact clean4_of_clean2Seq env cb ml ops true h
  | _ => exact clean4_of_clean2 env cb ml _ false [] h

/-! ### b. soundness -/

theorem enum4_sound (env : Env) (ctx : Ctx) (hI : InputOK env ctx) (op : Op)
    (hc : cleanProg4 env ctx.caseBlind ctx.multiLine op = true) (hwf : wfOp op = true)
    (hne : noEmptyAtoms op = true) (hcan : clsCanonB op = true) (p q : Nat) (hp : p ≤ ctx.len)
    (h : q ∈ enum4 ctx op p) : OpR ctx op p q :=
  enum4_sound_prog env ctx hI op hc hwf hne (clsCanon_of_B op hcan) hp h

/-! ### c. completeness -/

/-- the compositional fragment: `enum4` lists exactly the language -/
theorem enum4_iff_OpR (env : Env) (ctx : Ctx) (hI : InputOK env ctx) (op : Op)
    (hc : cleanOp4 env ctx.caseBlind ctx.multiLine op = true) (hwf : wfOp op = true)
    (hne : noEmptyAtoms op = true) (hcan : clsCanonB op = true) (p q : Nat) (hp : p ≤ ctx.len) :
    q ∈ enum4 ctx op p ↔ OpR ctx op p q :=
  ⟨fun h => enum4_sound_op env ctx hI op false [] hc hwf hne (clsCanon_of_B op hcan) hp h,
   fun h => comp4_op env ctx hI op hc hwf hne (clsCanon_of_B op hcan) p q hp h⟩

/-- whole programs: if the language has a member from `p`, the enumeration is non-empty -/
theorem enum4_complete (env : Env) (ctx : Ctx) (hI : InputOK env ctx) (op : Op)
    (hc : cleanProg4 env ctx.caseBlind ctx.multiLine op = true) (hwf : wfOp op = true)
    (hne : noEmptyAtoms op = true) (hcan : clsCanonB op = true) (p : Nat) (hp : p ≤ ctx.len)
    (h : ∃ q, OpR ctx op p q) : enum4 ctx op p ≠ [] := by
  obtain ⟨q, hq⟩ := h
  have hcc := clsCanon_of_B op hcan
  by_cases hseq : ∃ ops, op = .seq ops
  · obtain ⟨ops, rfl⟩ := hseq
    simp only [cleanProg4] at hc
    simp only [wfOp, Bool.and_eq_true] at hwf
    simp only [noEmptyAtoms] at hne
    simp only [clsCanon] at hcc
    simp only [OpR] at hq
    simp only [enum4]
    exact exist4_seq env ctx hI ops hc hwf.2 hne hcc p q hp hq
  · have hc' : cleanOp4F env ctx.caseBlind ctx.multiLine false [] op = true := by
      cases op with
      | seq ops => exact absurd ⟨ops, rfl⟩ hseq
      | _ => exact hc
    intro hnil
    have := comp4_op env ctx hI op hc' hwf hne hcc p q hp hq
    rw [hnil] at this
    cases this

/-! ### d. `CompleteAt`, `match_at` -/

theorem first1_enum4 (env : Env) (ctx : Ctx) (hI : InputOK env ctx) (op : Op)
    (hc : cleanProg4 env ctx.caseBlind ctx.multiLine op = true) (hwf : wfOp op = true)
    (hne : noEmptyAtoms op = true) (hcan : clsCanonB op = true) (p : Nat) (hp : p ≤ ctx.len) (st : St) :
    (first1 (sem ctx op p st)).1.map (·.1) = (enum4 ctx op p).head? := by
  have h := sem_ex4_prog env ctx hI op hc hwf hne (clsCanon_of_B op hcan) p hp st
  cases hl : enum4 ctx op p with
  | nil =>
    rw [hl] at h
    obtain ⟨st', hf⟩ := h.first1_nil
    rw [hf]; rfl
  | cons n l =>
    rw [hl] at h
    obtain ⟨st', hf⟩ := h.first1_cons
    rw [hf]; rfl

/-- the engine test is complete on the fragment, from EVERY state -/
theorem completeAt_clean4 (env : Env) (ctx : Ctx) (hI : InputOK env ctx) (op : Op)
    (hc : cleanProg4 env ctx.caseBlind ctx.multiLine op = true) (hwf : wfOp op = true)
    (hne : noEmptyAtoms op = true) (hcan : clsCanonB op = true) : CompleteAt ctx op :=
  completeAt_of_ex ctx op (enum4 ctx op)
    (fun j hj st => sem_ex4_prog env ctx hI op hc hwf hne (clsCanon_of_B op hcan) j hj st)
    (fun j hj => by
      constructor
      · intro hnil
        cases hl : enum4 ctx op j with
        | nil => exact absurd hl hnil
        | cons q t => exact ⟨q, enum4_sound env ctx hI op hc hwf hne hcan j q hj (by rw [hl]; exact List.mem_cons_self)⟩
      · exact enum4_complete env ctx hI op hc hwf hne hcan j hj)

theorem matchAt_iff4 (env : Env) (ctx : Ctx) (hI : InputOK env ctx) (op : Op)
    (hc : cleanProg4 env ctx.caseBlind ctx.multiLine op = true) (hwf : wfOp op = true)
    (hne : noEmptyAtoms op = true) (hcan : clsCanonB op = true) (i : Nat) (hi : i ≤ ctx.len) (st : St) :
    (matchAt ctx op i st).1 = true ↔ ∃ j, OpR ctx op i j := by
  rw [(Clean.matchAt_of_ex ctx op i _
    (fun st' => sem_ex4_prog env ctx hI op hc hwf hne (clsCanon_of_B op hcan) i hi st') st).1]
  constructor
  · intro hnil
    cases hl : enum4 ctx op i with
    | nil => exact absurd hl hnil
    | cons j t => exact ⟨j, enum4_sound env ctx hI op hc hwf hne hcan i j hi (by rw [hl]; exact List.mem_cons_self)⟩
  · exact enum4_complete env ctx hI op hc hwf hne hcan i hi

/-- on success the end recorded for group 0 is the head of `enum4` -/
theorem matchAt_end4 (env : Env) (ctx : Ctx) (hI : InputOK env ctx) (op : Op)
    (hc : cleanProg4 env ctx.caseBlind ctx.multiLine op = true) (hwf : wfOp op = true)
    (hne : noEmptyAtoms op = true) (hcan : clsCanonB op = true) (i : Nat) (hi : i ≤ ctx.len) (st : St)
    (h : (matchAt ctx op i st).1 = true) :
    getParenEnd (matchAt ctx op i st).2 0 = (enum4 ctx op i).head? :=
  (Clean.matchAt_of_ex ctx op i _
    (fun st' => sem_ex4_prog env ctx hI op hc hwf hne (clsCanon_of_B op hcan) i hi st') st).2 h

/-! ### e. no back-reference, loops covered by the fuel, no divergence -/

theorem clean4_noBackref' (env : Env) (cb ml : Bool) (op : Op) (h : cleanProg4 env cb ml op = true) :
    hasBackref op = false := by
  cases op with
  | seq ops => simp only [cleanProg4] at h; simp only [hasBackref]; exact clean4_noBackrefSeq env cb ml ops true h
  | _ => exact clean4_noBackref env cb ml _ false [] h

theorem sem_noDiv4 (env : Env) (ctx : Ctx) (hI : InputOK env ctx) (op : Op)
    (hc : cleanProg4 env ctx.caseBlind ctx.multiLine op = true) (hwf : wfOp op = true)
    (hne : noEmptyAtoms op = true) (hcan : clsCanonB op = true) (p : Nat) (hp : p ≤ ctx.len) (st : St) :
    (sem ctx op p st).NoDiv := by
  have h := sem_ex4_prog env ctx hI op hc hwf hne (clsCanon_of_B op hcan) p hp st
  generalize sem ctx op p st = s at h
  generalize enum4 ctx op p = l at h
  induction h with
  | nil st => exact .nil st
  | cons n st r l _ ih => exact .cons n st r (fun st' => ih st' trivial)

/-! ### case-sensitive matching -/

theorem completeAt_clean4_cs (env : Env) (ctx : Ctx) (hcb : ctx.caseBlind = false)
    (hce : ∀ a x, x ∈ env.closure a → x < cpLimit)
    (hin : ∀ c ∈ ctx.input, c < cpLimit) (hsc : ∀ c ∈ ctx.input, isSurrogate c = false) (op : Op)
    (hc : cleanProg4 env false ctx.multiLine op = true) (hwf : wfOp op = true)
    (hne : noEmptyAtoms op = true) (hcan : clsCanonB op = true) : CompleteAt ctx op :=
  completeAt_clean4 env ctx (.of_caseSensitive hcb hce hin hsc) op (by rw [hcb]; exact hc) hwf hne hcan

end Rx.Clean4L

namespace Rx.SearchComplete
open Rx
open Rx.C08 (noEmptyAtoms noEmptyAtomsL clsCanon clsCanonL)

/-! ## the shape of the fragment -/

mutual
theorem shape4_of_clean4 (env : Env) (cb ml : Bool) : (op : Op) → ∀ top F,
    cleanOp4F env cb ml top F op = true → shape4 op = true
  | .bol, _, _, _ | .eol, _, _, _ | .nothing, _, _, _ | .endProgram, _, _, _
  | .atom _, _, _, _ | .cls _, _, _, _ => rfl
  | .backref _, _, _, h => by simp [cleanOp4F] at h
  | .rep _ c mn _ g, _, _, h => by
    simp only [cleanOp4F, Bool.and_eq_true] at h
    simp only [shape4, Bool.and_eq_true]
    exact ⟨h.1.1.1, shape_of_clean2 env cb ml c _ _ h.1.1.2⟩
  | .unamb x mn mx, _, _, h => by
    simp only [cleanOp4F, Bool.and_eq_true] at h
    simp only [shape4]; exact h.1
  | .capture _ c, _, _, h => by
    simp only [cleanOp4F] at h; simp only [shape4]; exact shape4_of_clean4 env cb ml c _ _ h
  | .choice bs, _, _, h => by
    simp only [cleanOp4F] at h; simp only [shape4]; exact shape4_of_cleanAll4 env cb ml bs h
  | .seq ops, _, _, h => by
    simp only [cleanOp4F] at h; simp only [shape4]; exact shape4_of_cleanSeq4 env cb ml ops _ h
  | .gfixed c _ _ _, _, _, h => by
    simp only [cleanOp4F] at h; simp only [shape4]; exact shape4_of_clean4 env cb ml c _ _ h
  | .rfixed c _ _ _, _, _, h => by
    simp only [cleanOp4F] at h; simp only [shape4]; exact shape4_of_clean4 env cb ml c _ _ h
termination_by structural op => op
theorem shape4_of_cleanAll4 (env : Env) (cb ml : Bool) : (ops : List Op) →
    cleanAll4 env cb ml ops = true → shape4L ops = true
  | [], _ => rfl
  | o :: os, h => by
    simp only [cleanAll4, Bool.and_eq_true] at h
    simp only [shape4L, Bool.and_eq_true]
    exact ⟨shape4_of_clean4 env cb ml o _ _ h.1, shape4_of_cleanAll4 env cb ml os h.2⟩
termination_by structural ops => ops
theorem shape4_of_cleanSeq4 (env : Env) (cb ml : Bool) : (ops : List Op) → ∀ top,
    cleanSeq4 env cb ml top ops = true → shape4L ops = true
  | [], _, _ => rfl
  | o :: os, top, h => by
    simp only [cleanSeq4, Bool.and_eq_true] at h
    simp only [shape4L, Bool.and_eq_true]
    exact ⟨shape4_of_clean4 env cb ml o _ _ h.1, shape4_of_cleanSeq4 env cb ml os top h.2⟩
termination_by structural ops => ops
end

theorem shape4_of_cleanProg4 (env : Env) (cb ml : Bool) (op : Op) (h : cleanProg4 env cb ml op = true) :
    shape4 op = true := by
  cases op with
  | seq ops => simp only [cleanProg4] at h; simp only [shape4]; exact shape4_of_cleanSeq4 env cb ml ops true h
  | _ => exact shape4_of_clean4 env cb ml _ false [] h


mutual
theorem clean4_unambLeaf (env : Env) (cb ml : Bool) : (op : Op) → ∀ top F,
    cleanOp4F env cb ml top F op = true → noEmptyAtoms op = true → C06b.unambLeaf op = true
  | .bol, _, _, _, _ | .eol, _, _, _, _ | .nothing, _, _, _, _ | .endProgram, _, _, _, _
  | .atom _, _, _, _, _ | .cls _, _, _, _, _ => rfl
  | .backref _, _, _, h, _ => by simp [cleanOp4F] at h
  | .rep _ c _ _ g, _, _, h, hne => by
    simp only [cleanOp4F, Bool.and_eq_true] at h
    simp only [noEmptyAtoms] at hne
    simp only [C06b.unambLeaf]
    exact C06b.smallMin_unambLeaf 0 c (Clean2.shape2_smallMin 0 c (shape_of_clean2 env cb ml c _ _ h.1.1.2) hne)
  | .unamb x _ _, _, _, h, hne => by
    simp only [cleanOp4F, Bool.and_eq_true] at h
    simp only [noEmptyAtoms] at hne
    cases x with
    | atom cs => simpa only [C06b.unambLeaf, noEmptyAtoms] using hne
    | cls rs => rfl
    | _ => have := h.1; simp [isAtomOrClass] at this
  | .capture _ c, _, _, h, hne => by
    simp only [cleanOp4F] at h; simp only [noEmptyAtoms] at hne
    simp only [C06b.unambLeaf]; exact clean4_unambLeaf env cb ml c _ _ h hne
  | .choice bs, _, _, h, hne => by
    simp only [cleanOp4F] at h; simp only [noEmptyAtoms] at hne
    simp only [C06b.unambLeaf]; exact clean4_unambLeafAll env cb ml bs h hne
  | .seq ops, _, _, h, hne => by
    simp only [cleanOp4F] at h; simp only [noEmptyAtoms] at hne
    simp only [C06b.unambLeaf]; exact clean4_unambLeafSeq env cb ml ops _ h hne
  | .gfixed c _ _ _, _, _, h, hne => by
    simp only [cleanOp4F] at h; simp only [noEmptyAtoms] at hne
    simp only [C06b.unambLeaf]; exact clean4_unambLeaf env cb ml c _ _ h hne
  | .rfixed c _ _ _, _, _, h, hne => by
    simp only [cleanOp4F] at h; simp only [noEmptyAtoms] at hne
    simp only [C06b.unambLeaf]; exact clean4_unambLeaf env cb ml c _ _ h hne
termination_by structural op => op
theorem clean4_unambLeafAll (env : Env) (cb ml : Bool) : (ops : List Op) →
    cleanAll4 env cb ml ops = true → noEmptyAtomsL ops = true → C06b.unambLeafL ops = true
  | [], _, _ => rfl
  | o :: os, h, hne => by
    simp only [cleanAll4, Bool.and_eq_true] at h
    simp only [noEmptyAtomsL, Bool.and_eq_true] at hne
    simp only [C06b.unambLeafL, Bool.and_eq_true]
    exact ⟨clean4_unambLeaf env cb ml o _ _ h.1 hne.1, clean4_unambLeafAll env cb ml os h.2 hne.2⟩
termination_by structural ops => ops
theorem clean4_unambLeafSeq (env : Env) (cb ml : Bool) : (ops : List Op) → ∀ top,
    cleanSeq4 env cb ml top ops = true → noEmptyAtomsL ops = true → C06b.unambLeafL ops = true
  | [], _, _, _ => rfl
  | o :: os, top, h, hne => by
    simp only [cleanSeq4, Bool.and_eq_true] at h
    simp only [noEmptyAtomsL, Bool.and_eq_true] at hne
    simp only [C06b.unambLeafL, Bool.and_eq_true]
    exact ⟨clean4_unambLeaf env cb ml o _ _ h.1 hne.1, clean4_unambLeafSeq env cb ml os top h.2 hne.2⟩
termination_by structural ops => ops
end


theorem clean4_unambLeaf' (env : Env) (cb ml : Bool) (op : Op) (h : cleanProg4 env cb ml op = true)
    (hne : noEmptyAtoms op = true) : C06b.unambLeaf op = true := by
  cases op with
  | seq ops =>
    simp only [cleanProg4] at h
    simp only [noEmptyAtoms] at hne
    simp only [C06b.unambLeaf]; exact clean4_unambLeafSeq env cb ml ops true h hne
  | _ => exact clean4_unambLeaf env cb ml _ false [] h hne

/-- `quiet_of_wf` without the bound on reluctant minima (Props/C06b) -/
theorem quiet_of_wf_all (ctx : Ctx) (hb : ctx.hasBackrefs = false) (op : Op) (hop : hasBackref op = false)
    (hwf : wfOp op = true) (hs : C06b.unambLeaf op = true) : Quiet ctx op := by
  intro j st hj hst
  have hnp : C05.NoPanic st := .inl hst
  have hnd : C06.NoDivMark st := by unfold C06.NoDivMark; rw [hst]; simp
  have h1 := C05.sem_no_panic ctx hb op hop j st hnp
  obtain ⟨h2, h3⟩ := C06b.sem_no_diverge_all ctx op hwf hs j hj st hnd
  exact ⟨h2.ne_diverge, clean_of (first1_inv_nodiv h1 h2) (first1_inv_nodiv h3 h2)⟩

/-- `mkProgram_outcome` with `unambLeaf` (on the program's tree) instead of `smallMin` -/
theorem mkProgram_outcome_all (pat : List Nat) (op : Op) (mp : Nat) (fl : CFlags)
    (lower : Nat → Nat) (input : List Nat)
    (hwf : wfOp op = true) (hnb : hasBackref op = false) (hne : C08.noEmptyAtoms op = true)
    (hs : C06b.unambLeaf (mkProgram pat op mp fl false).op = true) (hlen : input.length < usizeMax)
    (hC : CompleteAt ((mkProgram pat op mp fl false).ctx lower input) (mkProgram pat op mp fl false).op)
    (hP : ∀ pre ∈ (mkProgram pat op mp fl false).pres,
      CompleteAt ((mkProgram pat op mp fl false).ctx lower input) pre.op)
    (i : Nat) (hi : i ≤ input.length) (st : St) (hst : st.panic = none) :
    Outcome ((mkProgram pat op mp fl false).ctx lower input) (mkProgram pat op mp fl false).op i
      (matchesFrom ((mkProgram pat op mp fl false).ctx lower input) (mkProgram pat op mp fl false) i st) := by
  have F := mkProgram_searchFacts pat op mp fl false lower input hwf hne hlen
  have hfo := WF.mkProgram_factsOK_any pat op mp fl false hnb
  have hps := ApiL.mkProgram_pres_simple pat op mp fl false hwf hne
  obtain ⟨hop, hbr⟩ := WF.mkProgram_op pat op mp fl false
  have hw : wfOp (mkProgram pat op mp fl false).op = true := by
    rw [hop, WF.wfOp_numberReps]; exact hwf
  have hn : hasBackref (mkProgram pat op mp fl false).op = false := by
    rw [hop, hasBackref_numberReps]; exact hnb
  generalize mkProgram pat op mp fl false = pr at *
  have hcb : (pr.ctx lower input).hasBackrefs = false := hbr
  have hcl : (pr.ctx lower input).len = input.length := rfl
  generalize pr.ctx lower input = ctx at *
  have hQ : Quiet ctx pr.op := quiet_of_wf_all ctx hcb pr.op hn hw hs
  exact matchesFrom_outcome F (by rw [hcl]; exact hlen) hC hQ
    (fun q hq => ⟨hP q hq, quietAll_of_simplePre ctx hcb q.op (hfo.2 q hq) (hps q hq)⟩)
    i (by rw [hcl]; exact hi) st hst

/-! ## the precondition trees -/

/-- the shapes `add_precondition` records for a tree of the fragment: those of the fragment without the
    general repeat (`preShape2`), or `x{1,m}` as a general greedy repeat over one non-empty literal / class -/
def preShape4 (o : Op) : Bool :=
  preShape2 o ||
  (match o with
   | .rep _ c mn mx _ => isAtomOrClass c && noEmptyAtoms c && clsCanonB c && (mn == 1) && decide (1 ≤ mx)
   | _ => false)

theorem preShape4_completeAt (env : Env) (ctx : Ctx) (hI : InputOK env ctx) (o : Op) (h : preShape4 o = true) :
    CompleteAt ctx o := by
  unfold preShape4 at h
  rcases Bool.or_eq_true_iff.1 h with h | h
  · exact preShape2_completeAt ctx o h
  · cases o with
    | rep id c mn mx g =>
      simp only [Bool.and_eq_true, beq_iff_eq, decide_eq_true_eq] at h
      obtain ⟨⟨⟨⟨hac, hne⟩, hcan⟩, rfl⟩, hmx⟩ := h
      obtain ⟨hcl, hwc⟩ := leaf_clean c hac
      have hc2 : cleanOp2 env ctx.caseBlind ctx.multiLine c = true := Clean2.cleanOp2_of_cleanOp env _ _ c hcl
      have hnn : nonNull c = true := by
        cases c with
        | atom cs => simpa only [nonNull, noEmptyAtoms] using hne
        | cls rs => rfl
        | _ => simp [isAtomOrClass] at hac
      have hdet : detB env ctx.caseBlind c = true := by
        cases c <;> first | rfl | (simp [isAtomOrClass] at hac)
      refine Clean4L.completeAt_clean4 env ctx hI (.rep id c 1 mx g) ?_ ?_ ?_ ?_
      · show cleanOp4F env ctx.caseBlind ctx.multiLine false [] (.rep id c 1 mx g) = true
        simp only [cleanOp4F, hc2, hnn, hdet, Nat.le_refl, decide_true, Bool.and_self, Bool.or_true]
      · simp only [wfOp, hwc, Bool.true_and, Bool.and_eq_true, decide_eq_true_eq]; exact ⟨hmx, by omega⟩
      · simp only [noEmptyAtoms]; exact hne
      · simp only [clsCanonB]; exact hcan
    | _ => simp at h

theorem preShape4_numberReps (o : Op) (n : Nat) (h : preShape4 o = true) :
    preShape4 (numberReps o n).1 = true := by
  unfold preShape4 at h
  rcases Bool.or_eq_true_iff.1 h with h | h
  · unfold preShape4; rw [preShape2_numberReps o n h]; rfl
  · cases o with
    | rep id c mn mx g =>
      have hac : isAtomOrClass c = true := by
        simp only [Bool.and_eq_true] at h; exact h.1.1.1.1
      simp only [numberReps, ApiL.numberReps_leaf c hac]
      unfold preShape4
      exact Bool.or_eq_true_iff.2 (.inr h)
    | _ => simp at h

theorem preShape4_of_2 {o : Op} (h : preShape2 o = true) : preShape4 o = true := by
  unfold preShape4; rw [h]; rfl

mutual
theorem addPre_preShape4 (ml : Bool) : (o : Op) → shape4 o = true → wfOp o = true →
    noEmptyAtoms o = true → clsCanonB o = true → ∀ fp mp, ∀ q ∈ addPre ml o fp mp, preShape4 q.op = true
  | .bol, _, _, _, _, fp, mp, q, hq => by simp only [addPre] at hq; cases hq
  | .eol, _, _, _, _, fp, mp, q, hq => by simp only [addPre] at hq; cases hq
  | .nothing, _, _, _, _, fp, mp, q, hq => by simp only [addPre] at hq; cases hq
  | .endProgram, _, _, _, _, fp, mp, q, hq => by simp only [addPre] at hq; cases hq
  | .backref g, _, _, _, _, fp, mp, q, hq => by simp only [addPre] at hq; cases hq
  | .choice bs, _, _, _, _, fp, mp, q, hq => by simp only [addPre] at hq; cases hq
  | .atom cs, _, _, _, _, fp, mp, q, hq => by
    simp only [addPre, List.mem_singleton] at hq; subst hq; rfl
  | .cls rs, _, _, _, _, fp, mp, q, hq => by
    simp only [addPre, List.mem_singleton] at hq; subst hq; rfl
  | .capture g c, hc, hwf, hne, hcan, fp, mp, q, hq => by
    simp only [shape4] at hc
    simp only [wfOp] at hwf
    simp only [noEmptyAtoms] at hne
    simp only [clsCanonB] at hcan
    simp only [addPre] at hq
    exact addPre_preShape4 ml c hc hwf hne hcan fp mp q hq
  | .seq ops, hc, hwf, hne, hcan, fp, mp, q, hq => by
    simp only [shape4] at hc
    simp only [wfOp, Bool.and_eq_true] at hwf
    simp only [noEmptyAtoms] at hne
    simp only [clsCanonB] at hcan
    simp only [addPre] at hq
    exact addPreSeq_preShape4 ml ops hc hwf.2 hne hcan fp mp q hq
  | .rep id c mn mx g, hc, hwf, hne, hcan, fp, mp, q, hq => by
    simp only [shape4, Bool.and_eq_true] at hc
    obtain ⟨_, hsc⟩ := hc
    simp only [wfOp, Bool.and_eq_true, decide_eq_true_eq] at hwf
    simp only [noEmptyAtoms] at hne
    simp only [clsCanonB] at hcan
    simp only [addPre] at hq
    by_cases hmn : 1 ≤ mn
    case neg => rw [if_neg hmn] at hq; cases hq
    rw [if_pos hmn] at hq
    split at hq
    · rename_i hac
      split at hq
      · rename_i h1
        simp only [List.mem_singleton] at hq; subst hq
        have hm1 : mn = 1 := by simpa using h1
        subst hm1
        simp only [preShape4, hac, hne, hcan, beq_self_eq_true, Bool.and_self, Bool.true_and, Bool.or_eq_true,
          decide_eq_true_eq]
        right; omega
      · simp only [List.mem_singleton] at hq; subst hq
        apply preShape4_of_2
        simp only [preShape2, preShape, cleanOp, Bool.false_and, Bool.false_or, hac, hne, beq_self_eq_true,
          hmn, decide_true, Bool.and_self, Bool.or_false]
    · exact preShape4_of_2 (addPre_preShape2 ml c hsc hwf.1.1 hne fp mp q hq)
  | .unamb c mn mx, hc, hwf, hne, _, fp, mp, q, hq => by
    have hs2 : shape2 (.unamb c mn mx) = true := by simpa only [shape4, shape2] using hc
    exact preShape4_of_2 (addPre_preShape2 ml _ hs2 hwf hne fp mp q hq)
  | .gfixed c mn mx len, hc, hwf, hne, hcan, fp, mp, q, hq => by
    have hwf0 := hwf
    simp only [shape4] at hc
    have hwc : wfOp c = true := by simp only [wfOp, Bool.and_eq_true] at hwf; exact hwf.1.1.1.1.1
    simp only [noEmptyAtoms] at hne
    simp only [clsCanonB] at hcan
    have hself : isAtomOrClass c = true → preShape2 (.gfixed c mn mx len) = true := by
      intro hac
      have : cleanOp (.gfixed c mn mx len) = true := by simp only [cleanOp]; exact (leaf_clean c hac).1
      unfold preShape2 preShape; rw [this, hwf0]; rfl
    simp only [addPre] at hq
    split at hq
    · split at hq
      · rename_i hac
        split at hq
        · simp only [List.mem_singleton] at hq; subst hq; exact preShape4_of_2 (hself hac)
        · rename_i h1 _
          simp only [List.mem_singleton] at hq; subst hq
          apply preShape4_of_2
          have h1' : 1 ≤ mn := h1
          simp only [preShape2, preShape, cleanOp, Bool.false_and, Bool.false_or, hac, hne, beq_self_eq_true,
            h1', decide_true, Bool.and_self, Bool.or_false]
      · exact addPre_preShape4 ml c hc hwc hne hcan fp mp q hq
    · cases hq
  | .rfixed c mn mx len, hc, hwf, hne, hcan, fp, mp, q, hq => by
    have hwf0 := hwf
    simp only [shape4] at hc
    have hwc : wfOp c = true := by simp only [wfOp, Bool.and_eq_true] at hwf; exact hwf.1.1.1.1.1
    simp only [noEmptyAtoms] at hne
    simp only [clsCanonB] at hcan
    have hself : isAtomOrClass c = true → preShape2 (.rfixed c mn mx len) = true := by
      intro hac
      have : cleanOp (.rfixed c mn mx len) = true := by simp only [cleanOp]; exact (leaf_clean c hac).1
      unfold preShape2 preShape; rw [this, hwf0]; rfl
    simp only [addPre] at hq
    split at hq
    · split at hq
      · rename_i hac
        split at hq
        · simp only [List.mem_singleton] at hq; subst hq; exact preShape4_of_2 (hself hac)
        · rename_i h1 _
          simp only [List.mem_singleton] at hq; subst hq
          apply preShape4_of_2
          have h1' : 1 ≤ mn := h1
          simp only [preShape2, preShape, cleanOp, Bool.false_and, Bool.false_or, hac, hne, beq_self_eq_true,
            h1', decide_true, Bool.and_self, Bool.or_false]
      · exact addPre_preShape4 ml c hc hwc hne hcan fp mp q hq
    · cases hq
termination_by structural o => o
theorem addPreSeq_preShape4 (ml : Bool) : (ops : List Op) → shape4L ops = true → wfOps ops = true →
    noEmptyAtomsL ops = true → clsCanonBL ops = true →
    ∀ fp mp, ∀ q ∈ addPreSeq ml ops fp mp, preShape4 q.op = true
  | [], _, _, _, _, fp, mp, q, hq => by simp only [addPreSeq] at hq; cases hq
  | o :: os, hc, hwf, hne, hcan, fp, mp, q, hq => by
    simp only [shape4L, Bool.and_eq_true] at hc
    simp only [wfOps, Bool.and_eq_true] at hwf
    simp only [noEmptyAtomsL, Bool.and_eq_true] at hne
    simp only [clsCanonBL, Bool.and_eq_true] at hcan
    simp only [addPreSeq, List.mem_append] at hq
    rcases hq with hq | hq
    · exact addPre_preShape4 ml o hc.1 hwf.1 hne.1 hcan.1 _ mp q hq
    · exact addPreSeq_preShape4 ml os hc.2 hwf.2 hne.2 hcan.2 _ _ q hq
termination_by structural ops => ops
end

/-- every precondition tree of the program has one of the shapes; `T` is the program's (numbered) tree -/
theorem mkProgram_pres_preShape4 (pat : List Nat) (op : Op) (mp : Nat) (fl : CFlags) (hb : Bool)
    (hs : shape4 (numberReps op 0).1 = true) (hwf : wfOp (numberReps op 0).1 = true)
    (hne : noEmptyAtoms (numberReps op 0).1 = true) (hcan : clsCanonB (numberReps op 0).1 = true) :
    ∀ q ∈ (mkProgram pat op mp fl hb).pres, preShape4 q.op = true := by
  obtain ⟨_, _, _, _, _, _, _, _, _, hpres⟩ := mkProgram_shape pat op mp fl hb
  intro q hq
  rcases hpres with he | ⟨n, he⟩
  · rw [he] at hq; cases hq
  · rw [he] at hq
    obtain ⟨p, hp, b, rfl⟩ := mem_numberPres _ _ _ hq
    apply preShape4_numberReps
    exact addPre_preShape4 fl.multiLine _ hs hwf hne hcan none 0 p hp

/-! ## outcomes -/

/-- the search on a program whose tree is in the fragment returns the right outcome -/
theorem clean4_outcome (env : Env) (pat : List Nat) (op : Op) (mp : Nat) (fl : CFlags)
    (lower : Nat → Nat) (input : List Nat) (hI : InputOKFor env fl lower input)
    (hc : cleanProg4 env fl.caseBlind fl.multiLine (mkProgram pat op mp fl false).op = true)
    (hwf : wfOp op = true) (hne : noEmptyAtoms op = true)
    (hcan : clsCanonB (mkProgram pat op mp fl false).op = true) (hlen : input.length < usizeMax)
    (i : Nat) (hi : i ≤ input.length) (st : St) (hst : st.panic = none) :
    Outcome ((mkProgram pat op mp fl false).ctx lower input) (mkProgram pat op mp fl false).op i
      (matchesFrom ((mkProgram pat op mp fl false).ctx lower input) (mkProgram pat op mp fl false) i st) := by
  obtain ⟨hop, _⟩ := WF.mkProgram_op pat op mp fl false
  obtain ⟨hcb, hml, _⟩ := mkProgram_ctx pat op mp fl false lower input
  have hwT : wfOp (mkProgram pat op mp fl false).op = true := by rw [hop, WF.wfOp_numberReps]; exact hwf
  have hnT : noEmptyAtoms (mkProgram pat op mp fl false).op = true := by
    rw [hop, ApiL.noEmptyAtoms_numberReps]; exact hne
  have hnb : hasBackref op = false := by
    have := Clean4L.clean4_noBackref' env _ _ _ hc
    rwa [hop, hasBackref_numberReps] at this
  have hsm : C06b.unambLeaf (mkProgram pat op mp fl false).op = true := clean4_unambLeaf' env _ _ _ hc hnT
  have hIc := hI.ctx pat op mp false
  have hC : CompleteAt ((mkProgram pat op mp fl false).ctx lower input) (mkProgram pat op mp fl false).op :=
    Clean4L.completeAt_clean4 env _ hIc _ (by rw [hcb, hml]; exact hc) hwT hnT hcan
  refine mkProgram_outcome_all pat op mp fl lower input hwf hnb hne hsm hlen hC ?_ i hi st hst
  intro q hq
  have hs := shape4_of_cleanProg4 env _ _ _ hc
  rw [hop] at hs hwT hnT hcan
  exact preShape4_completeAt env _ hIc q.op (mkProgram_pres_preShape4 pat op mp fl false hs hwT hnT hcan q hq)

/-- … and so does the search with every shortcut off -/
theorem clean4_naive_outcome (env : Env) (pat : List Nat) (op : Op) (mp : Nat) (fl : CFlags)
    (lower : Nat → Nat) (input : List Nat) (hI : InputOKFor env fl lower input)
    (hc : cleanProg4 env fl.caseBlind fl.multiLine (mkProgram pat op mp fl false).op = true)
    (hwf : wfOp op = true) (hne : noEmptyAtoms op = true)
    (hcan : clsCanonB (mkProgram pat op mp fl false).op = true)
    (i : Nat) (st : St) (hst : st.panic = none) :
    Outcome ((mkProgram pat op mp fl false).ctx lower input) (mkProgram pat op mp fl false).op i
      (matchesNaive ((mkProgram pat op mp fl false).ctx lower input) (mkProgram pat op mp fl false).op i st) := by
  obtain ⟨hop, _⟩ := WF.mkProgram_op pat op mp fl false
  obtain ⟨hcb, hml, _, _, hbr⟩ := mkProgram_ctx pat op mp fl false lower input
  have hwT : wfOp (mkProgram pat op mp fl false).op = true := by rw [hop, WF.wfOp_numberReps]; exact hwf
  have hnT : noEmptyAtoms (mkProgram pat op mp fl false).op = true := by
    rw [hop, ApiL.noEmptyAtoms_numberReps]; exact hne
  have hC := Clean4L.completeAt_clean4 env _ (hI.ctx pat op mp false) _ (by rw [hcb, hml]; exact hc) hwT hnT hcan
  have hQ : Quiet ((mkProgram pat op mp fl false).ctx lower input) (mkProgram pat op mp fl false).op :=
    quiet_of_wf_all _ hbr _ (Clean4L.clean4_noBackref' env _ _ _ hc) hwT (clean4_unambLeaf' env _ _ _ hc hnT)
  exact matchesNaive_outcome hC hQ i st hst

/-- a successful search: group 0 is `(j, n)`, `j` the LEAST start `≥ i` with a match, `n` the head of `enum4` -/
theorem Outcome.span_clean4 {env : Env} {ctx : Ctx} (hI : InputOK env ctx) {o : Op}
    (hc : cleanProg4 env ctx.caseBlind ctx.multiLine o = true) (hwf : wfOp o = true)
    (hne : noEmptyAtoms o = true) (hcan : clsCanonB o = true)
    (hcp : C02.capsPos o = true) {i : Nat} {r : Bool × St} (h : Outcome ctx o i r) (ht : r.1 = true) :
    ∃ j n, getParenStart r.2 0 = some j ∧ getParenEnd r.2 0 = some n ∧
      (enum4 ctx o j).head? = some n ∧ i ≤ j ∧ j ≤ n ∧ n ≤ ctx.len ∧ OpR ctx o j n ∧
      ∀ k q, i ≤ k → k < j → ¬ OpR ctx o k q := by
  rcases h.2 with ⟨_, j, stj, h1, h2, _, hmin, hma⟩ | ⟨hf, _⟩
  · obtain ⟨b, st'⟩ := r
    simp only at ht
    subst ht
    obtain ⟨hs0, n, he, hjn, hnl, hopr⟩ := C02.matchAt_span ctx o hwf hcp j h2 stj st' hma
    have hend := Clean4L.matchAt_end4 env ctx hI o hc hwf hne hcan j h2 stj (by rw [hma])
    rw [hma] at hend
    simp only at hend
    exact ⟨j, n, hs0, he, by rw [← hend, he], h1, hjn, hnl, hopr,
      fun k q hik hkj hq => hmin k hik hkj ⟨q, hq⟩⟩
  · rw [hf] at ht; cases ht

end Rx.SearchComplete
