/-
  Proofs/TermLemmas — the fuels of Model/Engine are sufficient: every generator terminates
  (`Step.Term`) when its body does.  Used by Props/C06.

  `MarkOk b` is the state invariant: for `b = true` "the divergence marker is clear", for `b = false`
  nothing — so that `Step.Term (MarkOk false)` is `Step.NoDiv` and `Step.Term (MarkOk true)` gives
  `Step.Inv` of the marker invariant.
-/
import RxModel.Proofs.TermCalc
import RxModel.Proofs.EngineSound
namespace Rx

def MarkOk (b : Bool) (st : St) : Prop := b = true → st.panic ≠ some panicDiverge

theorem MarkOk.of_panic_eq {b : Bool} {st st' : St} (h : st'.panic = st.panic) (hm : MarkOk b st) : MarkOk b st' := by
  intro hb; rw [h]; exact hm hb

theorem MarkOk.setPanic {b : Bool} {st : St} {c : Nat} (hc : c ≠ panicDiverge) (hm : MarkOk b st) :
    MarkOk b (st.setPanic c) := by
  intro hb
  have := hm hb
  unfold St.setPanic
  split
  · exact this
  · simp only [ne_eq, Option.some.injEq]; exact hc

theorem MarkOk.clearBeyond {b : Bool} {st : St} (p : Nat) (hm : MarkOk b st) : MarkOk b (clearBeyond st p) :=
  hm.of_panic_eq rfl

theorem captureWrite_panic (ctx : Ctx) (g p n : Nat) (st : St) :
    (captureWrite ctx g p n st).panic = st.panic := by
  unfold captureWrite
  simp only
  split <;> rfl

theorem MarkOk.false (st : St) : MarkOk false st := by intro h; cases h

/-! ### leaves -/

section leaves
variable {b : Bool}

theorem atomGen_term (ctx : Ctx) (cs : List Nat) (p : Nat) (st : St) (hm : MarkOk b st) :
    (atomGen ctx cs p st).Term (MarkOk b) := by
  unfold atomGen
  split
  · exact .nil _ hm
  · split
    · exact .once hm
    · exact .nil _ hm

theorem clsGen_term (ctx : Ctx) (rs : Ranges) (p : Nat) (st : St) (hm : MarkOk b st) :
    (clsGen ctx rs p st).Term (MarkOk b) := by
  unfold clsGen
  split
  · split
    · exact .once hm
    · exact .nil _ hm
  · exact .nil _ hm

theorem bolGen_term (ctx : Ctx) (p : Nat) (st : St) (hm : MarkOk b st) :
    (bolGen ctx p st).Term (MarkOk b) := by
  unfold bolGen
  split
  · split
    · exact .once hm
    · exact .nil _ hm
  · exact .once hm

theorem eolGen_term (ctx : Ctx) (p : Nat) (st : St) (hm : MarkOk b st) :
    (eolGen ctx p st).Term (MarkOk b) := by
  unfold eolGen
  split
  · split
    · exact .once hm
    · exact .nil _ hm
  · split
    · exact .once hm
    · exact .nil _ hm

theorem nothingGen_term (p : Nat) (st : St) (hm : MarkOk b st) : (nothingGen p st).Term (MarkOk b) :=
  .once hm

theorem endGen_term (p : Nat) (st : St) (hm : MarkOk b st) : (endGen p st).Term (MarkOk b) :=
  .once (hm.of_panic_eq rfl)

theorem backrefGen_term (ctx : Ctx) (g : Nat) (p : Nat) (st : St) (hm : MarkOk b st) :
    (backrefGen ctx g p st).Term (MarkOk b) := by
  unfold backrefGen
  split
  · exact .nil _ (hm.setPanic (by decide))
  · split
    · split
      · exact .once hm
      · simp only
        split
        · exact .nil _ hm
        · split
          · exact .once hm
          · exact .nil _ hm
    · exact .once hm

end leaves

/-! ### capture, choice, sequence -/

section comb
variable {b : Bool}

theorem captureGen_term (ctx : Ctx) (g : Nat) {child : Gen} {p : Nat}
    (hT : ∀ st, MarkOk b st → (child p st).Term (MarkOk b)) (st : St) (hm : MarkOk b st) :
    (captureGen ctx g child p st).Term (MarkOk b) := by
  unfold captureGen
  simp only
  apply Step.Term.mapSt
  · apply hT
    split
    · split
      · exact hm.setPanic (by decide)
      · exact hm.of_panic_eq rfl
    · exact hm
  · intro n st' h'
    exact h'.of_panic_eq (captureWrite_panic ctx g p n st')

theorem choiceGen_nil_term (p : Nat) (st : St) (hm : MarkOk b st) : (choiceGen [] p st).Term (MarkOk b) :=
  .nil _ hm

theorem choiceGen_cons_term {g : Gen} {gs : List Gen} {p : Nat}
    (h1 : ∀ st, MarkOk b st → (g p st).Term (MarkOk b))
    (h2 : ∀ st, MarkOk b st → (choiceGen gs p st).Term (MarkOk b)) (st : St) (hm : MarkOk b st) :
    (choiceGen (g :: gs) p st).Term (MarkOk b) := by
  unfold choiceGen
  exact (h1 _ (hm.clearBeyond p)).append (fun st' h' => h2 st' h')

theorem seqGo_nil_term (p : Nat) (st : St) (hm : MarkOk b st) : (seqGo [] p st).Term (MarkOk b) :=
  .nil _ hm

theorem seqGo_cons_term {g : Gen} {gs : List Gen} {p : Nat} {P : Nat → Prop}
    (h1 : ∀ st, MarkOk b st → (g p st).Term (MarkOk b)) (ha : ∀ st, (g p st).All P)
    (h2 : ∀ n st, P n → MarkOk b st → (seqGo gs n st).Term (MarkOk b)) (st : St) (hm : MarkOk b st) :
    (seqGo (g :: gs) p st).Term (MarkOk b) := by
  cases gs with
  | nil =>
    unfold seqGo
    exact (h1 st hm).mapSt (fun n st' h' => h'.clearBeyond n)
  | cons g2 gs =>
    unfold seqGo
    exact Step.Term.bind ((h1 st hm).mapSt (fun n st' h' => h'.clearBeyond n)) (ha st).mapSt h2

theorem seqGen_term {gs : List Gen} {p : Nat} (hasCap : Bool)
    (h : ∀ st, MarkOk b st → (seqGo gs p st).Term (MarkOk b)) (st : St) (hm : MarkOk b st) :
    (seqGen hasCap gs p st).Term (MarkOk b) := by
  unfold seqGen
  simp only
  apply (h st hm).onNil
  intro st' h'
  split
  · exact h'.of_panic_eq rfl
  · exact h'

end comb

/-! ### greedy fixed-length repeat -/

section gfixed
variable {b : Bool} {child : Gen}

/-- the counting loop ends before its fuel does: every round moves `p` by `len ≥ 1` towards the
    guard -/
theorem gfixedLoop_mk (len max guard : Nat) (hlen : 0 < len)
    (hT : ∀ p st, p ≤ guard → MarkOk b st → (child p st).Term (MarkOk b)) :
    ∀ fuel p m st, MarkOk b st → 1 ≤ fuel → guard + 2 ≤ p + fuel →
      MarkOk b (gfixedLoop child len max guard fuel p m st).2.2 := by
  intro fuel
  induction fuel with
  | zero => intro p m st _ h1 _; omega
  | succ f ih =>
    intro p m st hm h1 h2
    unfold gfixedLoop
    split
    · rename_i hpg
      split
      · rename_i x st1 heq
        have hm1 : MarkOk b st1 := (hT p st hpg hm).first1_eq heq
        simp only
        split
        · exact hm1
        · exact ih _ _ _ hm1 (by omega) (by omega)
      · rename_i st1 heq
        exact (hT p st hpg hm).first1_eq heq
    · exact hm

theorem gfixedLoop_posT (len max guard : Nat) :
    ∀ fuel p m st, (gfixedLoop child len max guard fuel p m st).1 ≤ p ∨
      (gfixedLoop child len max guard fuel p m st).1 ≤ guard + len := by
  intro fuel
  induction fuel with
  | zero => intro p m st; exact .inl (Nat.le_refl _)
  | succ f ih =>
    intro p m st
    unfold gfixedLoop
    split
    · rename_i hpg
      split
      · simp only
        split
        · right; simp only; omega
        · rcases ih (p + len) (m + 1) ‹St› with h | h
          · right; omega
          · right; exact h
      · exact .inl (Nat.le_refl _)
    · exact .inl (Nat.le_refl _)

theorem descend_term {I : St → Prop} (len limit : Nat) :
    ∀ fuel cur st, I st → 1 ≤ fuel → cur < limit + len * fuel →
      (descend len limit fuel cur st).Term I := by
  intro fuel
  induction fuel with
  | zero => intro cur st _ h1 _; omega
  | succ f ih =>
    intro cur st hi _ h2
    unfold descend
    rw [Nat.mul_succ] at h2
    split
    · refine .cons _ _ _ hi (fun st' h' => ?_)
      split
      · rename_i hge
        have hf : 1 ≤ f := by
          cases f with
          | zero => simp only [Nat.mul_zero] at h2; omega
          | succ f' => omega
        exact ih _ _ h' hf (by omega)
      · exact .nil _ h'
    · exact .nil _ hi

theorem gfixedGen_term (ctx : Ctx) (min max len : Nat) (hlen : 0 < len)
    (hT : ∀ p st, p ≤ ctx.len → MarkOk b st → (child p st).Term (MarkOk b))
    (position : Nat) (st : St) (hm : MarkOk b st) :
    (gfixedGen ctx child min max len position st).Term (MarkOk b) := by
  unfold gfixedGen
  simp only
  have hg : (if max < usizeMax then Nat.min ctx.len (position + len * max) else ctx.len) ≤ ctx.len := by
    split
    · exact Nat.min_le_left _ _
    · exact Nat.le_refl _
  generalize (if max < usizeMax then Nat.min ctx.len (position + len * max) else ctx.len) = guard at hg
  split
  · exact .nil _ hm
  · have hmk := gfixedLoop_mk (b := b) (child := child) len max guard hlen
      (fun p st hp h => hT p st (by omega) h) (ctx.len + 2) position 0 st hm (by omega) (by omega)
    have hpos := gfixedLoop_posT (child := child) len max guard (ctx.len + 2) position 0 st
    generalize gfixedLoop child len max guard (ctx.len + 2) position 0 st = r at hmk hpos
    split
    · exact .nil _ hmk
    · apply descend_term _ _ _ _ _ hmk (by omega)
      have h1 : ctx.len ≤ len * ctx.len := Nat.le_mul_of_pos_left _ hlen
      rw [Nat.mul_add]
      omega

end gfixed

/-! ### loops over a body that is only called inside a domain `D` closed under its results,
    where every result lies `d` beyond the start and inside `[0, L]` -/

section loops
variable {b : Bool} {child : Gen} {D : Nat → Prop} {L d : Nat}

theorem iterMin_mk
    (hB : ∀ p st, D p → (child p st).All (fun n => D n ∧ p + d ≤ n ∧ n ≤ L))
    (hT : ∀ p st, D p → MarkOk b st → (child p st).Term (MarkOk b)) (min : Nat) :
    ∀ fuel count pos st, D pos → MarkOk b st → 1 ≤ fuel →
      (min + 1 ≤ count + fuel ∨ (1 ≤ d ∧ L + 2 ≤ pos + fuel)) →
      MarkOk b (iterMin child min fuel count pos st).2 ∧
      ∀ c' pos', (iterMin child min fuel count pos st).1 = some (c', pos') → D pos' := by
  intro fuel
  induction fuel with
  | zero => intro count pos st _ _ h1 _; omega
  | succ f ih =>
    intro count pos st hD hm _ hinv
    unfold iterMin
    split
    · rename_i hlt
      split
      · rename_i n x st1 heq
        have hm1 : MarkOk b st1 := (hT pos st hD hm).first1_eq heq
        have hn := first1_sound (hB pos st hD) heq
        simp only at hn
        exact ih _ _ _ hn.1 hm1 (by omega) (by omega)
      · rename_i st1 heq
        refine ⟨(hT pos st hD hm).first1_eq heq, ?_⟩
        intro c' pos' h; simp at h
    · refine ⟨hm, ?_⟩
      intro c' pos' h
      simp only [Option.some.injEq, Prod.mk.injEq] at h
      rw [← h.2]; exact hD

/-- the minimum loop with the zero-width shortcut (fix abfdb8a): every iteration but the last advances
    the position, so the fuel `min (min+1) (len+1000)` suffices for EVERY `min` (no `1 ≤ d` needed) -/
theorem iterMinZ_mk
    (hB : ∀ p st, D p → (child p st).All (fun n => D n ∧ p + d ≤ n ∧ n ≤ L))
    (hT : ∀ p st, D p → MarkOk b st → (child p st).Term (MarkOk b)) (min : Nat) :
    ∀ fuel count pos st, D pos → MarkOk b st → 1 ≤ fuel →
      (min + 1 ≤ count + fuel ∨ L + 2 ≤ pos + fuel) →
      MarkOk b (iterMinZ child min fuel count pos st).2 ∧
      ∀ c' pos', (iterMinZ child min fuel count pos st).1 = some (c', pos') → D pos' := by
  intro fuel
  induction fuel with
  | zero => intro count pos st _ _ h1 _; omega
  | succ f ih =>
    intro count pos st hD hm _ hinv
    unfold iterMinZ
    split
    · rename_i hlt
      split
      · rename_i n x st1 heq
        have hm1 : MarkOk b st1 := (hT pos st hD hm).first1_eq heq
        have hn := first1_sound (hB pos st hD) heq
        simp only at hn
        split
        · refine ⟨hm1, ?_⟩
          intro c' pos' h
          simp only [Option.some.injEq, Prod.mk.injEq] at h
          rw [← h.2]; exact hD
        · rename_i hne
          have hne' : n ≠ pos := by simpa using hne
          exact ih _ _ _ hn.1 hm1 (by omega) (by omega)
      · rename_i st1 heq
        refine ⟨(hT pos st hD hm).first1_eq heq, ?_⟩
        intro c' pos' h; simp at h
    · refine ⟨hm, ?_⟩
      intro c' pos' h
      simp only [Option.some.injEq, Prod.mk.injEq] at h
      rw [← h.2]; exact hD

theorem rfixedMore_term
    (hB : ∀ p st, D p → (child p st).All (fun n => D n ∧ p + d ≤ n ∧ n ≤ L))
    (hT : ∀ p st, D p → MarkOk b st → (child p st).Term (MarkOk b)) (hd : 1 ≤ d) (max position : Nat) :
    ∀ fuel count pos st, D pos → MarkOk b st → 1 ≤ fuel → L + 2 ≤ pos + fuel →
      (rfixedMore child max position fuel count pos st).Term (MarkOk b) := by
  intro fuel
  induction fuel with
  | zero => intro count pos st _ _ h1 _; omega
  | succ f ih =>
    intro count pos st hD hm _ hinv
    unfold rfixedMore
    split
    · simp only
      split
      · rename_i n x st1 heq
        have hm1 : MarkOk b st1 := (hT pos _ hD (hm.clearBeyond position)).first1_eq heq
        have hn := first1_sound (hB pos _ hD) heq
        simp only at hn
        exact .cons _ _ _ hm1 (fun st'' h'' => ih _ _ _ hn.1 h'' (by omega) (by omega))
      · rename_i st1 heq
        exact .nil _ ((hT pos _ hD (hm.clearBeyond position)).first1_eq heq)
    · exact .nil _ hm

/-- ReluctantRepeatIterator behind ForceProgressIterator: positions never decrease and stay
    `≤ L`, and the same position is handed out at most five times in a row -/
theorem relMore_force_term
    (hB : ∀ p st, D p → (child p st).All (fun n => D n ∧ p + d ≤ n ∧ n ≤ L))
    (hT : ∀ p st, D p → MarkOk b st → (child p st).Term (MarkOk b)) (max : Nat) :
    ∀ fuel count pos cnt st, D pos → MarkOk b st → cnt ≤ 3 → 4 * (L - pos) + (4 - cnt) ≤ fuel →
      ((relMore child max fuel count pos st).force cnt (some pos)).Term (MarkOk b) := by
  intro fuel
  induction fuel with
  | zero => intro count pos cnt st _ _ h1 h2; omega
  | succ f ih =>
    intro count pos cnt st hD hm hc hinv
    unfold relMore
    split
    · split
      · rename_i n x st1 heq
        have hm1 : MarkOk b st1 := (hT pos _ hD hm).first1_eq heq
        have hn := first1_sound (hB pos _ hD) heq
        simp only at hn
        simp only [Step.force]
        refine .cons _ _ _ hm1 (fun st'' h'' => ?_)
        by_cases hnp : n = pos
        · subst hnp
          simp only [beq_self_eq_true, if_true]
          split
          · exact .nil _ h''
          · exact ih _ _ _ _ hD h'' (by omega) (by omega)
        · have hne : (some n == some pos) = false := by
            simp only [Option.some_beq_some, beq_eq_false_iff_ne, ne_eq]; exact hnp
          simp only [hne, Bool.false_eq_true, if_false]
          split
          · exact .nil _ h''
          · exact ih _ _ _ _ hn.1 h'' (by omega) (by omega)
      · rename_i st1 heq
        exact .nil _ ((hT pos _ hD hm).first1_eq heq)
    · exact .nil _ hm

theorem unambLoop_mk
    (hB : ∀ p st, D p → (child p st).All (fun n => D n ∧ p + d ≤ n ∧ n ≤ L))
    (hT : ∀ p st, D p → MarkOk b st → (child p st).Term (MarkOk b)) (hd : 1 ≤ d) (max guard : Nat) :
    ∀ fuel p m st, D p → MarkOk b st → 1 ≤ fuel → (max + 1 ≤ m + fuel ∨ L + 3 ≤ p + fuel) →
      MarkOk b (unambLoop child max guard fuel p m st).2.2 := by
  intro fuel
  induction fuel with
  | zero => intro p m st _ _ h1 _; omega
  | succ f ih =>
    intro p m st hD hm _ hinv
    unfold unambLoop
    split
    · rename_i hc1
      simp only [Bool.and_eq_true, decide_eq_true_eq] at hc1
      split
      · rename_i n x st1 heq
        have hm1 : MarkOk b st1 := (hT p st hD hm).first1_eq heq
        have hn := first1_sound (hB p st hD) heq
        simp only at hn
        exact ih _ _ _ hn.1 hm1 (by omega) (by omega)
      · rename_i st1 heq
        exact (hT p st hD hm).first1_eq heq
    · exact hm

theorem greedyNode_term
    (hB : ∀ p st, D p → (child p st).All (fun n => D n ∧ p + d ≤ n ∧ n ≤ L))
    (hT : ∀ p st, D p → MarkOk b st → (child p st).Term (MarkOk b)) (min bound : Nat) :
    ∀ fuel len pl n st, D n → MarkOk b st →
      (greedyNode child min bound fuel len pl n st).Term (MarkOk b) := by
  intro fuel
  induction fuel with
  | zero =>
    intro len pl n st _ hm
    unfold greedyNode
    split
    · exact .once hm
    · exact .nil _ hm
  | succ f ih =>
    intro len pl n st hD hm
    unfold greedyNode
    simp only
    apply Step.Term.append
    · split <;> split
      all_goals first
        | exact .nil _ hm
        | exact Step.Term.bindFR (hT n st hD hm) (hB n st hD)
            (fun n2 st2 hn h2 => ih _ _ n2 st2 hn.1 h2)
            (fun n2 st2 hn h2 => ih _ _ n2 st2 hn.1 h2)
    · intro st' h'
      split
      · exact .once h'
      · exact .nil _ h'

end loops

/-! ### the repeat generators -/

section gens
variable {b : Bool} {child : Gen} {D : Nat → Prop} {L d : Nat}

theorem repGreedyGen_term (ctx : Ctx)
    (hB : ∀ p st, D p → (child p st).All (fun n => D n ∧ p + d ≤ n ∧ n ≤ L))
    (hT : ∀ p st, D p → MarkOk b st → (child p st).Term (MarkOk b)) (id min max : Nat)
    (position : Nat) (hD : D position) (st : St) (hm : MarkOk b st) :
    (repGreedyGen ctx id child min max position st).Term (MarkOk b) := by
  unfold repGreedyGen
  simp only
  generalize Nat.min max (ctx.len + 1 - position) = bound
  have hfirst : ∀ fuel st, MarkOk b st →
      (((child position st).bindFR
        (fun n st2 => greedyNode child min bound fuel 1 (some (bound - 1)) n st2)
        (fun n st2 => greedyNode child min bound fuel 1 none n st2)).force 0 none).Term (MarkOk b) := by
    intro fuel st hm
    apply Step.Term.force
    exact Step.Term.bindFR (hT position st hD hm) (hB position st hD)
      (fun n2 st2 hn h2 => greedyNode_term hB hT min bound _ _ _ n2 st2 hn.1 h2)
      (fun n2 st2 hn h2 => greedyNode_term hB hT min bound _ _ _ n2 st2 hn.1 h2)
  split
  · split
    · split
      · exact .nil _ hm
      · exact hfirst _ _ hm
    · apply Step.Term.force
      apply Step.Term.append
      · exact greedyNode_term hB hT min bound _ _ _ position _ hD (hm.of_panic_eq rfl)
      · intro st2 h2
        exact greedyNode_term hB hT min bound _ _ _ position _ hD h2
  · split
    · exact .nil _ hm
    · exact hfirst _ _ hm

theorem loopFuel_pos (ctx : Ctx) (min : Nat) : 1 ≤ loopFuel ctx min := by
  unfold loopFuel
  change 1 ≤ Min.min (min + 1) (ctx.len + 1000)
  rw [Nat.min_def]
  split <;> omega

/-- the reluctant repeat terminates for EVERY minimum (fix abfdb8a; no `min < len + 1000`) -/
theorem repReluctantGen_term_all (ctx : Ctx)
    (hB : ∀ p st, D p → (child p st).All (fun n => D n ∧ p + d ≤ n ∧ n ≤ ctx.len))
    (hT : ∀ p st, D p → MarkOk b st → (child p st).Term (MarkOk b)) (min max : Nat)
    (position : Nat) (hD : D position) (st : St) (hm : MarkOk b st) :
    (repReluctantGen ctx child min max position st).Term (MarkOk b) := by
  unfold repReluctantGen
  have hfuel : min + 1 ≤ 0 + loopFuel ctx min ∨ ctx.len + 2 ≤ position + loopFuel ctx min := by
    unfold loopFuel
    change min + 1 ≤ 0 + Min.min (min + 1) (ctx.len + 1000) ∨
      ctx.len + 2 ≤ position + Min.min (min + 1) (ctx.len + 1000)
    rw [Nat.min_def]
    split
    · left; omega
    · right; omega
  have h := iterMinZ_mk hB hT min (loopFuel ctx min) 0 position st hD hm (loopFuel_pos ctx min) hfuel
  generalize iterMinZ child min (loopFuel ctx min) 0 position st = r at h
  obtain ⟨o, st1⟩ := r
  obtain ⟨hm1, hpos⟩ := h
  simp only at hm1 hpos
  cases o with
  | none => exact .nil _ hm1
  | some cp =>
    obtain ⟨count, pos⟩ := cp
    have hDp : D pos := hpos count pos rfl
    simp only [Step.force]
    refine .cons _ _ _ hm1 (fun st'' h'' => ?_)
    have hne : (some pos == (none : Option Nat)) = false := rfl
    simp only [hne, Bool.false_eq_true, if_false, gt_iff_lt, Nat.not_lt_zero]
    exact relMore_force_term hB hT max _ count pos 0 st'' hDp h'' (by omega) (by omega)

set_option linter.unusedVariables false in
theorem repReluctantGen_term (ctx : Ctx)
    (hB : ∀ p st, D p → (child p st).All (fun n => D n ∧ p + d ≤ n ∧ n ≤ ctx.len))
    (hT : ∀ p st, D p → MarkOk b st → (child p st).Term (MarkOk b)) (min max : Nat)
    (hmin : min < ctx.len + 1000)
    (position : Nat) (hD : D position) (st : St) (hm : MarkOk b st) :
    (repReluctantGen ctx child min max position st).Term (MarkOk b) :=
  repReluctantGen_term_all ctx hB hT min max position hD st hm

theorem rfixedGen_term (ctx : Ctx)
    (hB : ∀ p st, D p → (child p st).All (fun n => D n ∧ p + d ≤ n ∧ n ≤ ctx.len))
    (hT : ∀ p st, D p → MarkOk b st → (child p st).Term (MarkOk b)) (hd : 1 ≤ d) (min max : Nat)
    (position : Nat) (hD : D position) (st : St) (hm : MarkOk b st) :
    (rfixedGen ctx child min max position st).Term (MarkOk b) := by
  unfold rfixedGen
  have hfuel : min + 1 ≤ 0 + loopFuel ctx min ∨ (1 ≤ d ∧ ctx.len + 2 ≤ position + loopFuel ctx min) := by
    unfold loopFuel
    change min + 1 ≤ 0 + Min.min (min + 1) (ctx.len + 1000) ∨
      (1 ≤ d ∧ ctx.len + 2 ≤ position + Min.min (min + 1) (ctx.len + 1000))
    rw [Nat.min_def]
    split
    · left; omega
    · right; omega
  have h := iterMin_mk hB hT min (loopFuel ctx min) 0 position st hD hm (loopFuel_pos ctx min) hfuel
  generalize iterMin child min (loopFuel ctx min) 0 position st = r at h
  obtain ⟨o, st1⟩ := r
  obtain ⟨hm1, hpos⟩ := h
  simp only at hm1 hpos
  cases o with
  | none => exact .nil _ hm1
  | some cp =>
    obtain ⟨count, pos⟩ := cp
    have hDp : D pos := hpos count pos rfl
    exact .cons _ _ _ hm1 (fun st'' h'' =>
      rfixedMore_term hB hT hd max position _ count pos st'' hDp h'' (by omega) (by omega))

theorem unambGen_term (ctx : Ctx)
    (hB : ∀ p st, D p → (child p st).All (fun n => D n ∧ p + d ≤ n ∧ n ≤ ctx.len))
    (hT : ∀ p st, D p → MarkOk b st → (child p st).Term (MarkOk b)) (hd : 1 ≤ d) (min max : Nat)
    (position : Nat) (hD : D position) (st : St) (hm : MarkOk b st) :
    (unambGen ctx child min max position st).Term (MarkOk b) := by
  unfold unambGen
  simp only
  have hfuel : max + 1 ≤ 0 + (Nat.min max (ctx.len + 2) + 1) ∨
      ctx.len + 3 ≤ position + (Nat.min max (ctx.len + 2) + 1) := by
    change max + 1 ≤ 0 + (Min.min max (ctx.len + 2) + 1) ∨
      ctx.len + 3 ≤ position + (Min.min max (ctx.len + 2) + 1)
    rw [Nat.min_def]
    split
    · left; omega
    · right; omega
  have h := unambLoop_mk hB hT hd max ctx.len (Nat.min max (ctx.len + 2) + 1) position 0 st hD hm
    (by omega) hfuel
  generalize unambLoop child max ctx.len (Nat.min max (ctx.len + 2) + 1) position 0 st = r at h
  split
  · exact .nil _ h
  · exact .once h

end gens

/-! ### what the body of a repeat yields -/

section bounds

theorem sem_boundsD (ctx : Ctx) (c : Op) (hwc : wfOp c = true) :
    ∀ p st, p ≤ ctx.len → (sem ctx c p st).All (fun n => n ≤ ctx.len ∧ p + 0 ≤ n ∧ n ≤ ctx.len) := by
  intro p st hp
  refine (sem_sound_op ctx c hwc p st).mono (fun n h => ?_)
  have hb := OpR_bounds_op ctx c p n hp (h hp)
  exact ⟨hb.2, by omega, hb.2⟩

theorem sem_boundsLen (ctx : Ctx) (c : Op) (hwc : wfOp c = true) (len : Nat)
    (hc : matchLen c = some len) (hlt : len < usizeMax) :
    ∀ p st, p ≤ ctx.len → (sem ctx c p st).All (fun n => n ≤ ctx.len ∧ p + len ≤ n ∧ n ≤ ctx.len) := by
  intro p st hp
  refine ((sem_sound_op ctx c hwc p st).and (matchLen_sound_op ctx c hwc len hc hlt p st)).mono
    (fun n h => ?_)
  have hb := OpR_bounds_op ctx c p n hp (h.1 hp)
  exact ⟨hb.2, by omega, hb.2⟩

/-- a single character: non-empty literal text or a class -/
def isLeaf1 : Op → Bool
  | .atom cs => !cs.isEmpty
  | .cls _ => true
  | _ => false

/-- a single-character body makes progress and stays inside the input, from every position -/
theorem leaf_bounds (ctx : Ctx) (c : Op) (h : isLeaf1 c = true) (p : Nat) (st : St) :
    (sem ctx c p st).All (fun n => True ∧ p + 1 ≤ n ∧ n ≤ ctx.len) := by
  cases c with
  | atom cs =>
    simp only [sem]
    refine (atomGen_sound ctx cs p st).mono (fun n hn => ?_)
    simp only [OpR] at hn
    have hl : 0 < cs.length := by
      cases cs with
      | nil => simp [isLeaf1] at h
      | cons a as => simp
    exact ⟨trivial, by omega, by omega⟩
  | cls rs =>
    simp only [sem]
    refine (clsGen_sound ctx rs p st).mono (fun n hn => ?_)
    simp only [OpR] at hn
    obtain ⟨rfl, ch, hc, _⟩ := hn
    rcases Nat.lt_or_ge p ctx.input.length with hlt | hge
    · simp only [Ctx.len]; exact ⟨trivial, by omega, by omega⟩
    · rw [List.getElem?_eq_none hge] at hc; cases hc
  | _ => simp [isLeaf1] at h

theorem leaf_term {b : Bool} (ctx : Ctx) (c : Op) (h : isLeaf1 c = true) (p : Nat) (st : St)
    (hm : MarkOk b st) : (sem ctx c p st).Term (MarkOk b) := by
  cases c with
  | atom cs => simp only [sem]; exact atomGen_term ctx cs p st hm
  | cls rs => simp only [sem]; exact clsGen_term ctx rs p st hm
  | _ => simp [isLeaf1] at h

/-- both halves of the termination property from the generic one -/
theorem term_pack {s : Step} (h : ∀ b, s.Term (MarkOk b)) :
    s.NoDiv ∧ s.Inv (fun st => st.panic ≠ some panicDiverge) := by
  refine ⟨(h false).toNoDiv MarkOk.false, ?_⟩
  have h1 := (h true).toInv
  clear h
  induction h1 with
  | nil st hi => exact .nil st (hi rfl)
  | cons n st r hi _ ih => exact .cons n st r (hi rfl) (fun st' h' => ih st' (fun _ => h'))
  | diverge => exact .diverge

end bounds

/-! ### the search -/

section search

/-- the state `match_at` starts the iterator with -/
def matchAtPrep (ctx : Ctx) (i : Nat) (st : St) : St :=
  let cap := { st.cap with parenCount := 1 }
  let cap := cap.setStart 0 i
  let st := { st with cap := cap }
  if ctx.hasBackrefs then
    { st with startBr := List.replicate ctx.maxParens none, endBr := List.replicate ctx.maxParens none }
  else st

theorem matchAt_eqT (ctx : Ctx) (op : Op) (i : Nat) (st : St) :
    matchAt ctx op i st =
      match sem ctx op i (matchAtPrep ctx i st) with
      | .cons n st' _ => (true, { st' with cap := st'.cap.setEnd 0 n })
      | .nil st' => (false, { st' with cap := { st'.cap with parenCount := 0 } })
      | .diverge => (false, (matchAtPrep ctx i st).setPanic panicDiverge) := rfl

theorem matchAtPrep_mk {b : Bool} (ctx : Ctx) (i : Nat) (st : St) (hm : MarkOk b st) :
    MarkOk b (matchAtPrep ctx i st) := by
  unfold matchAtPrep
  simp only
  split
  · exact hm.of_panic_eq rfl
  · exact hm.of_panic_eq rfl

theorem matchAt_mk (ctx : Ctx) (op : Op) (j : Nat)
    (hT : ∀ st, MarkOk true st → (sem ctx op j st).Term (MarkOk true)) (st : St) (hm : MarkOk true st) :
    MarkOk true (matchAt ctx op j st).2 := by
  rw [matchAt_eqT]
  have h := hT _ (matchAtPrep_mk ctx j st hm)
  generalize matchAtPrep ctx j st = st0 at h
  split
  · rename_i n st' r heq
    rw [heq] at h
    cases h with
    | cons _ _ _ hi _ => exact hi.of_panic_eq rfl
  · rename_i st' heq
    rw [heq] at h
    cases h with
    | nil _ hi => exact hi.of_panic_eq rfl
  · rename_i heq
    rw [heq] at h
    exact h.not_diverge.elim

theorem preHolds_mk (ctx : Ctx) (op : Op) (p : Nat)
    (hT : ∀ st, MarkOk true st → (sem ctx op p st).Term (MarkOk true)) (st : St) (hm : MarkOk true st) :
    MarkOk true (preHolds ctx op p st).2 := by
  unfold preHolds
  have h := hT st hm
  split
  · rename_i n st' r heq
    rw [heq] at h
    cases h with
    | cons _ _ _ hi _ => exact hi
  · rename_i st' heq
    rw [heq] at h
    cases h with
    | nil _ hi => exact hi
  · rename_i heq
    rw [heq] at h
    exact h.not_diverge.elim

theorem findFrom_mk (ctx : Ctx) (op : Op)
    (hT : ∀ p st, MarkOk true st → (sem ctx op p st).Term (MarkOk true)) :
    ∀ fuel j st, MarkOk true st → MarkOk true (findFrom ctx op fuel j st).2 := by
  intro fuel
  induction fuel with
  | zero => intro j st hm; exact hm
  | succ f ih =>
    intro j st hm
    unfold findFrom
    split
    · have h := preHolds_mk ctx op j (hT j) st hm
      split
      · rename_i st' heq
        rw [heq] at h; exact h
      · rename_i st' heq
        rw [heq] at h
        split
        · exact h
        · exact ih _ _ h
    · exact hm

theorem checkPre_mk (ctx : Ctx) (start : Nat) :
    ∀ (pres : List Pre), (∀ q ∈ pres, ∀ p st, MarkOk true st → (sem ctx q.op p st).Term (MarkOk true)) →
      ∀ st, MarkOk true st → MarkOk true (checkPre ctx start pres st).2 := by
  intro pres
  induction pres with
  | nil => intro _ st hm; exact hm
  | cons pre rest ih =>
    intro hT st hm
    have hT1 := hT pre List.mem_cons_self
    have hT2 : ∀ q ∈ rest, ∀ p st, MarkOk true st → (sem ctx q.op p st).Term (MarkOk true) :=
      fun q hq => hT q (List.mem_cons_of_mem _ hq)
    unfold checkPre
    split
    · rename_i fixed _
      have h := preHolds_mk ctx pre.op fixed (hT1 fixed) st hm
      split
      · rename_i st' heq
        rw [heq] at h; exact ih hT2 _ h
      · rename_i st' heq
        rw [heq] at h; exact h
    · simp only
      have h := findFrom_mk ctx pre.op hT1 (ctx.len + 1)
        (if start < pre.minPos then pre.minPos else start) st hm
      split
      · rename_i st' heq
        rw [heq] at h; exact ih hT2 _ h
      · rename_i st' heq
        rw [heq] at h; exact h

theorem tryCands_mk (ctx : Ctx) (op : Op)
    (hT : ∀ j st, j ≤ ctx.len → MarkOk true st → (sem ctx op j st).Term (MarkOk true)) :
    ∀ (js : List Nat), (∀ j ∈ js, j ≤ ctx.len) → ∀ st, MarkOk true st →
      MarkOk true (tryCands ctx op js st).2 := by
  intro js
  induction js with
  | nil => intro _ st hm; exact hm
  | cons j js ih =>
    intro hjs st hm
    have hj := hjs j List.mem_cons_self
    have h := matchAt_mk ctx op j (fun st h => hT j st hj h) st hm
    unfold tryCands
    split
    · rename_i st' heq
      rw [heq] at h; exact h
    · rename_i st' heq
      rw [heq] at h
      split
      · exact h
      · exact ih (fun j' hj' => hjs j' (List.mem_cons_of_mem _ hj')) _ h

theorem matchesFrom_mk (ctx : Ctx) (pr : Prog)
    (hT : ∀ j st, j ≤ ctx.len → MarkOk true st → (sem ctx pr.op j st).Term (MarkOk true))
    (hP : ∀ q ∈ pr.pres, ∀ p st, MarkOk true st → (sem ctx q.op p st).Term (MarkOk true))
    (i : Nat) (hi : i ≤ ctx.len) (st0 : St) (hm : MarkOk true st0) :
    MarkOk true (matchesFrom ctx pr i st0).2 := by
  unfold matchesFrom
  simp only
  have hm' : MarkOk true { st0 with cap := {} } := hm.of_panic_eq rfl
  generalize ({ st0 with cap := {} } : St) = st at hm'
  split
  · split
    · split
      · exact hm'
      · have h := checkPre_mk ctx i pr.pres hP st hm'
        split
        · rename_i st' heq
          rw [heq] at h; exact h
        · rename_i st' heq
          rw [heq] at h
          exact matchAt_mk ctx pr.op i (fun st h => hT i st hi h) _ h
    · apply tryCands_mk ctx pr.op hT _ _ _ hm'
      intro j hj
      simp only [List.mem_cons, List.mem_filter, decide_eq_true_eq] at hj
      rcases hj with rfl | hj
      · exact hi
      · omega
  · split
    · exact hm'.setPanic (by decide)
    · split
      · exact hm'
      · split
        · split
          · exact hm'.setPanic (by decide)
          · apply tryCands_mk ctx pr.op hT _ _ _ hm'
            intro j hj
            simp only [List.mem_filter] at hj
            have := mem_rangeFrom hj.1
            omega
        · split
          · apply tryCands_mk ctx pr.op hT _ _ _ hm'
            intro j hj
            simp only [List.mem_filter] at hj
            have := mem_rangeFrom hj.1
            omega
          · have h := checkPre_mk ctx i pr.pres hP st hm'
            split
            · rename_i st' heq
              rw [heq] at h; exact h
            · rename_i st' heq
              rw [heq] at h
              apply tryCands_mk ctx pr.op hT _ _ _ h
              intro j hj
              have := mem_rangeFrom hj
              omega

theorem isMatch_ne_diverge (pr : Prog) (lower : Nat → Nat) (input : List Nat)
    (h : MarkOk true (matchesFrom (pr.ctx lower input) pr 0 {}).2) :
    pr.isMatch lower input ≠ .diverge := by
  unfold Prog.isMatch
  generalize matchesFrom (pr.ctx lower input) pr 0 {} = r at h
  obtain ⟨m, st⟩ := r
  simp only at h ⊢
  split
  · rename_i c hc
    have := h rfl
    rw [hc] at this
    unfold Out.ofFailed
    split
    · rename_i hcd
      simp only [beq_iff_eq] at hcd
      subst hcd
      exact absurd rfl this
    · intro h'; cases h'
  · intro h'; cases h'

end search

end Rx
