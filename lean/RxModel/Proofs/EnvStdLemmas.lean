/-
  Proofs/EnvStdLemmas — helper lemmas for Props/EnvStd (the hypotheses about the environment,
  discharged for the real tables `Env.std`).

  1. association lists with increasing keys: `lookupN` through a moving cursor (`joinMap`,
     `lookupAll`), so that "look up every element of a list in a table" is a linear merge for the
     kernel instead of a quadratic nest of `lookupN`s (`lookupAll_eq`: it computes exactly the
     `lookupN`s; the cursor moves on while the sought keys increase and starts again otherwise —
     one `lookupN` over the 2884-entry closure table costs the kernel about half a second, the
     merge of 1433 keys 5 to 20 seconds);
  2. the decidable checks behind `CaseOKOn` (the case data are adequate on an alphabet) and behind
     the idempotence of the lower-casing function, and their soundness;
  3. canonical range lists as a Boolean (`canonB_sound`), the look-ups `lookupL`, `blockLookupLast`;
  4. the first-set lemmas of Proofs/FirstSetLemmas relative to an alphabet (`sound_op_on`,
     `maxmunch_on`): the same proofs with `CaseOKOn A` in place of `CaseOK`, for inputs over `A`
     and trees whose literals are over `A`.
-/
import RxModel.Props.C10
import RxModel.Props.C11b
import RxModel.Props.C08c
import RxModel.Proofs.ClassFullLemmas
namespace Rx.EnvStdL
open Rx

/-! ### 1. association lists with increasing keys -/

/-- keys strictly increasing, the first one at least `lo` -/
def keysIncFrom {β : Type} : Nat → List (Nat × β) → Bool
  | _, [] => true
  | lo, (a, _) :: t => decide (lo ≤ a) && keysIncFrom (a + 1) t

def keysInc {β : Type} (tbl : List (Nat × β)) : Bool := keysIncFrom 0 tbl

theorem keysIncFrom_mem {β : Type} : ∀ (tbl : List (Nat × β)) (lo : Nat), keysIncFrom lo tbl = true →
    ∀ x ∈ tbl, lo ≤ x.1
  | [], _, _, _, hx => by cases hx
  | (a, b) :: t, lo, h, x, hx => by
    simp only [keysIncFrom, Bool.and_eq_true, decide_eq_true_eq] at h
    rcases List.mem_cons.1 hx with rfl | hx
    · exact h.1
    · have := keysIncFrom_mem t (a + 1) h.2 x hx
      omega

/-- a key below the bound is absent -/
theorem lookupN_none_of_lt {β : Type} (tbl : List (Nat × β)) (lo : Nat) (h : keysIncFrom lo tbl = true)
    (k : Nat) (hk : k < lo) : lookupN tbl k = none := by
  induction tbl generalizing lo with
  | nil => rfl
  | cons e t ih =>
    obtain ⟨a, b⟩ := e
    simp only [keysIncFrom, Bool.and_eq_true, decide_eq_true_eq] at h
    have hne : (a == k) = false := by simp only [beq_eq_false_iff_ne, ne_eq]; omega
    simp only [lookupN, hne, Bool.false_eq_true, if_false]
    exact ih (a + 1) h.2 (by omega)

/-- with increasing keys every entry is what `lookupN` finds at its key -/
theorem lookupN_of_mem {β : Type} (tbl : List (Nat × β)) (lo : Nat) (h : keysIncFrom lo tbl = true)
    (a : Nat) (b : β) (hm : (a, b) ∈ tbl) : lookupN tbl a = some b := by
  induction tbl generalizing lo with
  | nil => cases hm
  | cons e t ih =>
    obtain ⟨a0, b0⟩ := e
    simp only [keysIncFrom, Bool.and_eq_true, decide_eq_true_eq] at h
    rcases List.mem_cons.1 hm with heq | hm
    · cases heq
      simp only [lookupN, beq_self_eq_true, if_true]
    · have hlo := keysIncFrom_mem t (a0 + 1) h.2 _ hm
      have hne : (a0 == a) = false := by simp only [beq_eq_false_iff_ne, ne_eq]; simp only at hlo; omega
      simp only [lookupN, hne, Bool.false_eq_true, if_false]
      exact ih (a0 + 1) h.2 hm

/-- the entries from the first one whose key is at least `k` -/
def seek {β : Type} (k : Nat) : List (Nat × β) → List (Nat × β)
  | [] => []
  | (a, b) :: t => if a < k then seek k t else (a, b) :: t

/-- the value at the head, if the head has key `k` -/
def headVal {β : Type} (k : Nat) : List (Nat × β) → Option β
  | [] => none
  | (a, b) :: _ => if a == k then some b else none

/-- in a table with increasing keys, `lookupN` is "seek, then look at the head" -/
theorem lookupN_eq_seek {β : Type} (tbl : List (Nat × β)) (lo : Nat) (h : keysIncFrom lo tbl = true) (k : Nat) :
    lookupN tbl k = headVal k (seek k tbl) := by
  induction tbl generalizing lo with
  | nil => rfl
  | cons e t ih =>
    obtain ⟨a, b⟩ := e
    simp only [keysIncFrom, Bool.and_eq_true, decide_eq_true_eq] at h
    by_cases hak : a < k
    · have hne : (a == k) = false := by simp only [beq_eq_false_iff_ne, ne_eq]; omega
      simp only [lookupN, seek, hne, hak, Bool.false_eq_true, if_false, if_true]
      exact ih (a + 1) h.2
    · simp only [lookupN, seek, hak, if_false, headVal]
      by_cases hek : a = k
      · subst hek
        simp only [beq_self_eq_true, if_true]
      · have hne : (a == k) = false := by simpa using hek
        simp only [hne, Bool.false_eq_true, if_false]
        exact lookupN_none_of_lt t (a + 1) h.2 k (by omega)

/-- seeking twice is seeking once (no assumption on the order of the keys) -/
theorem seek_seek {β : Type} (k' k : Nat) (hk : k' ≤ k) : ∀ (tbl : List (Nat × β)),
    seek k (seek k' tbl) = seek k tbl
  | [] => rfl
  | (a, b) :: t => by
    by_cases h1 : a < k'
    · have h2 : a < k := by omega
      simp only [seek, h1, h2, if_true]
      exact seek_seek k' k hk t
    · simp only [seek, h1, if_false]

/-- the cursor for key `k`, given the cursor `cur` of the previously sought key `last`: continue from
    `cur` when the keys come in increasing order, start again otherwise -/
def findAt {β : Type} (k last : Nat) (cur tbl : List (Nat × β)) : List (Nat × β) :=
  if last ≤ k then seek k cur else seek k tbl

theorem findAt_eq {β : Type} (tbl : List (Nat × β)) (k last : Nat) (cur : List (Nat × β))
    (hcur : cur = seek last tbl) : findAt k last cur tbl = seek k tbl := by
  unfold findAt
  split
  · rename_i h
    rw [hcur, seek_seek last k h]
  · rfl

/-- look up `key e` for every element `e` of a list, moving a cursor through the table: linear when
    the keys come (mostly) in increasing order -/
def joinMap {α β : Type} (key : α → Nat) (tbl : List (Nat × β)) :
    List α → Nat → List (Nat × β) → List (α × Option β)
  | [], _, _ => []
  | e :: es, last, cur =>
    (e, headVal (key e) (findAt (key e) last cur tbl)) :: joinMap key tbl es (key e) (findAt (key e) last cur tbl)

/-- all look-ups, starting at the head of the table -/
def lookupAll {α β : Type} (key : α → Nat) (tbl : List (Nat × β)) (l : List α) : List (α × Option β) :=
  joinMap key tbl l 0 tbl

theorem seek_zero {β : Type} (tbl : List (Nat × β)) : seek 0 tbl = tbl := by
  cases tbl with
  | nil => rfl
  | cons e t => obtain ⟨a, b⟩ := e; simp only [seek, Nat.not_lt_zero, if_false]

/-- `joinMap` computes exactly the `lookupN`s -/
theorem joinMap_eq {α β : Type} (key : α → Nat) (tbl : List (Nat × β)) (h : keysInc tbl = true) :
    ∀ (l : List α) (last : Nat) (cur : List (Nat × β)), cur = seek last tbl →
      joinMap key tbl l last cur = l.map (fun e => (e, lookupN tbl (key e)))
  | [], _, _, _ => rfl
  | e :: es, last, cur, hcur => by
    have h1 := findAt_eq tbl (key e) last cur hcur
    simp only [joinMap, List.map_cons, h1, ← lookupN_eq_seek tbl 0 h]
    rw [joinMap_eq key tbl h es (key e) _ rfl]

theorem lookupAll_eq {α β : Type} (key : α → Nat) (tbl : List (Nat × β)) (h : keysInc tbl = true) (l : List α) :
    lookupAll key tbl l = l.map (fun e => (e, lookupN tbl (key e))) :=
  joinMap_eq key tbl h l 0 tbl (seek_zero tbl).symm

/-! ### 2. the case tables -/

/-- the closure function of a table -/
def closureOfT (C : List (Nat × List Nat)) (c : Nat) : List Nat := (lookupN C c).getD []

/-- the test on one entry `(k, v)` of the lower-casing table, given the closures of `k` and of `v`:
    `k` is in the closure of `v`, `v` in that of `k`, and whatever else is in the closure of `v` is
    in the closure of `k` — for the characters of the alphabet `A` -/
def caseEntryB (A : Nat → Bool) (k v : Nat) (ck cv : List Nat) : Bool :=
  !A k || (cv.contains k && (!A v || ck.contains v) && cv.all (fun y => y == k || !A y || ck.contains y))

/-- the check, as stated: every entry of the lower-casing table passes the test -/
def caseOnB (A : Nat → Bool) (M : List (Nat × Nat)) (C : List (Nat × List Nat)) : Bool :=
  M.all (fun e => caseEntryB A e.1 e.2 (closureOfT C e.1) (closureOfT C e.2))

/-- the check, as computed: two merges instead of nested look-ups -/
def caseOnFastB (A : Nat → Bool) (M : List (Nat × Nat)) (C : List (Nat × List Nat)) : Bool :=
  (lookupAll (fun r => r.1.2) C (lookupAll (fun e => e.1) C M)).all
    (fun r => caseEntryB A r.1.1.1 r.1.1.2 (r.1.2.getD []) (r.2.getD []))

theorem caseOnFast_eq (A : Nat → Bool) (M : List (Nat × Nat)) (C : List (Nat × List Nat)) (h : keysInc C = true) :
    caseOnFastB A M C = caseOnB A M C := by
  unfold caseOnFastB caseOnB
  rw [lookupAll_eq _ C h M, lookupAll_eq _ C h]
  simp only [List.all_map]
  rfl

/-- soundness of the check: on the alphabet `A`, whatever has the same lower case as `a` is `a` or is
    in the closure of `a` -/
theorem caseOn_of_check (A : Nat → Bool) (M : List (Nat × Nat)) (C : List (Nat × List Nat))
    (h : caseOnB A M C = true) (a x : Nat) (ha : A a = true) (hx : A x = true)
    (he : CaseL.tableLower M x = CaseL.tableLower M a) : x = a ∨ x ∈ closureOfT C a := by
  unfold caseOnB at h
  rw [List.all_eq_true] at h
  have entry : ∀ k v, (k, v) ∈ M → A k = true →
      k ∈ closureOfT C v ∧ (A v = true → v ∈ closureOfT C k) ∧
      ∀ y ∈ closureOfT C v, y = k ∨ A y = false ∨ y ∈ closureOfT C k := by
    intro k v hm hk
    have := h (k, v) hm
    simp only [caseEntryB, hk, Bool.not_true, Bool.false_or, Bool.and_eq_true, List.contains_eq_mem,
      decide_eq_true_eq, Bool.or_eq_true, Bool.not_eq_true', List.all_eq_true, beq_iff_eq] at this
    refine ⟨this.1.1, fun hv => ?_, fun y hy => ?_⟩
    · rcases this.1.2 with h0 | h0
      · rw [hv] at h0; cases h0
      · exact h0
    · rcases this.2 y hy with (h0 | h0) | h0
      · exact .inl h0
      · exact .inr (.inl h0)
      · exact .inr (.inr h0)
  rcases CaseL.tableLower_cases M a with fa | ma <;> rcases CaseL.tableLower_cases M x with fx | mx
  · left; rw [← fx, he, fa]
  · -- `a` is its own lower case, `x` is a key mapped to `a`
    rw [he, fa] at mx
    exact .inr (entry x a mx hx).1
  · -- `x` is its own lower case, `a` is a key mapped to `x`
    rw [← he, fx] at ma
    exact .inr ((entry a x ma ha).2.1 hx)
  · -- both are keys with the same value
    rw [he] at mx
    have hxv := (entry x _ mx hx).1
    rcases (entry a _ ma ha).2.2 x hxv with h0 | h0 | h0
    · exact .inl h0
    · rw [hx] at h0; cases h0
    · exact .inr h0

/-- the idempotence check, as stated: the value of every entry is mapped to itself -/
def idemB (M : List (Nat × Nat)) : Bool := M.all (fun e => (lookupN M e.2).getD e.2 == e.2)

/-- … as computed -/
def idemFastB (M : List (Nat × Nat)) : Bool :=
  (lookupAll (fun e => e.2) M M).all (fun r => r.2.getD r.1.2 == r.1.2)

theorem idemFast_eq (M : List (Nat × Nat)) (h : keysInc M = true) : idemFastB M = idemB M := by
  unfold idemFastB idemB
  rw [lookupAll_eq _ M h M]
  simp only [List.all_map]
  rfl

theorem tableLower_idem (M : List (Nat × Nat)) (h : idemB M = true) (x : Nat) :
    CaseL.tableLower M (CaseL.tableLower M x) = CaseL.tableLower M x := by
  unfold idemB at h
  rw [List.all_eq_true] at h
  rcases CaseL.tableLower_cases M x with fx | mx
  · rw [fx, fx]
  · have := h _ mx
    simpa [CaseL.tableLower] using this

/-- every member of every closure is below the bound -/
def closureBoundB (C : List (Nat × List Nat)) : Bool := C.all (fun e => e.2.all (fun x => decide (x < cpLimit)))

theorem closureBound_of_check (C : List (Nat × List Nat)) (h : closureBoundB C = true) (a x : Nat)
    (hx : x ∈ closureOfT C a) : x < cpLimit := by
  unfold closureOfT at hx
  cases hl : lookupN C a with
  | none => rw [hl] at hx; cases hx
  | some cl =>
    rw [hl] at hx
    unfold closureBoundB at h
    rw [List.all_eq_true] at h
    have := h _ (CaseL.lookupN_mem C a cl hl)
    rw [List.all_eq_true] at this
    simpa using this x hx

/-! ### 3. canonical lists as a Boolean, and the other look-ups -/

/-- `C10.canonB` decides `Canon` -/
theorem canonB_sound : ∀ (rs : Ranges), C10.canonB rs = true → C09.Canon rs
  | [], _ => trivial
  | [(a, b)], h => by
    simp only [C10.canonB, Bool.and_eq_true, decide_eq_true_eq] at h
    simp only [C09.Canon]
    exact h
  | (a, b) :: (c, d) :: rs, h => by
    simp only [C10.canonB, Bool.and_eq_true, decide_eq_true_eq] at h
    simp only [C09.Canon]
    exact ⟨h.1.1, h.1.2, canonB_sound ((c, d) :: rs) h.2⟩

theorem lookupL_mem {β : Type} (tbl : List (List Nat × β)) (k : List Nat) (v : β) (h : lookupL tbl k = some v) :
    (k, v) ∈ tbl := by
  induction tbl with
  | nil => simp [lookupL] at h
  | cons e t ih =>
    obtain ⟨a, b⟩ := e
    simp only [lookupL] at h
    by_cases hak : a = k
    · subst hak
      simp only [beq_self_eq_true, if_true, Option.some.injEq] at h
      subst h
      exact List.mem_cons_self
    · have hne : (a == k) = false := by simpa using hak
      simp only [hne, Bool.false_eq_true, if_false] at h
      exact List.mem_cons_of_mem _ (ih h)

/-- `blockLookupLast` returns the accumulator or the range of some entry -/
theorem blockLookupLast_mem (k : List Nat) : ∀ (tbl : List (List Nat × Nat × Nat)) (acc : Option (Nat × Nat)) (p : Nat × Nat),
    blockLookupLast tbl k acc = some p → acc = some p ∨ ∃ e ∈ tbl, e.2 = p
  | [], acc, p, h => by simp only [blockLookupLast] at h; exact .inl h
  | (n, a, b) :: t, acc, p, h => by
    simp only [blockLookupLast] at h
    rcases blockLookupLast_mem k t _ p h with h1 | ⟨e, he, hp⟩
    · split at h1
      · exact .inr ⟨(n, a, b), List.mem_cons_self, by simpa using h1⟩
      · exact .inl h1
    · exact .inr ⟨e, List.mem_cons_of_mem _ he, hp⟩

/-- every value the category look-up can return is a value of the group table -/
theorem categoryStd_mem (n : List Nat) (rs : Ranges) (h : categoryStd n = some rs) :
    ∃ long, (long, rs) ∈ Gen.grpAll := by
  unfold categoryStd at h
  split at h
  · cases h
  · rename_i long _
    exact ⟨long, lookupL_mem _ _ _ h⟩

/-- every value the block look-up can return is the private-use set or the range of a block -/
theorem blockStd_mem (n : List Nat) (rs : Ranges) (h : blockStd n = some rs) :
    rs = Gen.privateUseRanges.foldl (fun acc r => addRange r.1 (r.2 + 1) acc) [] ∨
    ∃ e ∈ Gen.allBlocks, rs = addRange e.2.1 (e.2.2 + 1) [] := by
  unfold blockStd at h
  split at h
  · exact .inl (by simpa using h.symm)
  · split at h
    · rename_i a b hl
      rcases blockLookupLast_mem n _ none (a, b) hl with h0 | ⟨e, he, hp⟩
      · cases h0
      · refine .inr ⟨e, he, ?_⟩
        rw [hp]
        simpa using h.symm
    · cases h

end Rx.EnvStdL

/-! ### 4. the first-set lemmas relative to an alphabet -/

namespace Rx.C08
open Rx

/-- `CaseOK` for the characters of the alphabet `A`: whatever `equal_case_blind` identifies with `a`
    is `a` itself or in `a`'s closure — for `a` and the other character in `A` — and closures are
    code points -/
def CaseOKOn (A : Nat → Bool) (env : Env) (lower : Nat → Nat) : Prop :=
  (∀ a x, A a = true → A x = true → eqCB lower x a = true → x = a ∨ x ∈ env.closure a) ∧
  (∀ a x, x ∈ env.closure a → x < cpLimit)

theorem CaseOK.on {env : Env} {lower : Nat → Nat} (h : CaseOK env lower) (A : Nat → Bool) : CaseOKOn A env lower :=
  ⟨fun a x _ _ he => h.1 a x he, h.2⟩

theorem caseOKOn_all (env : Env) (lower : Nat → Nat) : CaseOKOn (fun _ => true) env lower ↔ CaseOK env lower :=
  ⟨fun h => ⟨fun a x he => h.1 a x rfl rfl he, h.2⟩, fun h => h.on _⟩

mutual
/-- every character of every literal of the tree is in the alphabet `A` -/
def atomsOverB (A : Nat → Bool) : Op → Bool
  | .atom cs => cs.all A
  | .capture _ c => atomsOverB A c
  | .choice bs => atomsOverBL A bs
  | .seq ops => atomsOverBL A ops
  | .rep _ c _ _ _ => atomsOverB A c
  | .gfixed c _ _ _ => atomsOverB A c
  | .rfixed c _ _ _ => atomsOverB A c
  | .unamb c _ _ => atomsOverB A c
  | _ => true
termination_by structural o => o
def atomsOverBL (A : Nat → Bool) : List Op → Bool
  | [] => true
  | o :: os => atomsOverB A o && atomsOverBL A os
termination_by structural l => l
end

end Rx.C08

namespace Rx.EnvStdL
open Rx Rx.C08 Rx.C09 Rx.FirstL

/-- whatever compares equal to the head of a literal is in the literal's first set (alphabet form) -/
theorem atom_class_mem_on (A : Nat → Bool) (env : Env) (ctx : Ctx)
    (hcase : ctx.caseBlind = true → CaseOKOn A env ctx.lower)
    (hce : ∀ a x, x ∈ env.closure a → x < cpLimit)
    (a : Nat) (t : List Nat) (ha : a < cpLimit) (hAa : A a = true) (x : Nat) (hAx : A x = true)
    (he : ctx.eqAt x a = true) :
    clsContains (initialClass env ctx.caseBlind (.atom (a :: t))) x = true := by
  simp only [initialClass]
  unfold Ctx.eqAt at he
  cases hcb : ctx.caseBlind with
  | true =>
    rw [hcb] at he
    simp only [↓reduceIte] at he ⊢
    rw [contains_addChars _ _ (canon_addChar [] canon_nil a ha) (fun y hy => hce a y hy),
      single_char_class]
    rcases (hcase hcb).1 a x hAa hAx he with rfl | hm
    · simp
    · simp [hm]
  | false =>
    rw [hcb] at he
    simp only [Bool.false_eq_true, ↓reduceIte] at he ⊢
    rw [single_char_class]
    simpa using he

mutual
theorem sound_op_on (A : Nat → Bool) (env : Env) (ctx : Ctx) (hcase : ctx.caseBlind = true → CaseOKOn A env ctx.lower)
    (hce : ∀ a x, x ∈ env.closure a → x < cpLimit) (hin : ∀ c ∈ ctx.input, c < cpLimit)
    (hA : ∀ c ∈ ctx.input, A c = true) :
    ∀ (op : Op), clsCanon op → atomsOverB A op = true → ∀ (p q : Nat), p ≤ ctx.len → OpR ctx op p q → p < q →
      ∃ c, ctx.input[p]? = some c ∧ clsContains (initialClass env ctx.caseBlind op) c = true
  | .atom [], _, _, p, q, _, h, hpq => by
    simp only [OpR, List.length_nil] at h; omega
  | .atom (a :: t), hc, ho, p, q, _, h, _ => by
    simp only [clsCanon] at hc
    simp only [atomsOverB, List.all_cons, Bool.and_eq_true] at ho
    simp only [OpR] at h
    obtain ⟨hq, hl, hm⟩ := h
    obtain ⟨x, hx, he⟩ := atom_first ctx a t p (by omega) hm
    exact ⟨x, hx, atom_class_mem_on A env ctx hcase hce a t (hc a List.mem_cons_self) ho.1 x
      (hA x (List.mem_of_getElem? hx)) he⟩
  | .cls rs, _, _, p, q, _, h, _ => by
    simp only [OpR] at h
    obtain ⟨_, c, h1, h2⟩ := h
    exact ⟨c, h1, by simpa only [initialClass] using h2⟩
  | .choice bs, hc, ho, p, q, hp, h, hpq => by
    simp only [clsCanon] at hc
    simp only [atomsOverB] at ho
    simp only [OpR] at h
    simp only [initialClass]
    exact sound_choice_on A env ctx hcase hce hin hA bs hc ho p q hp h hpq
  | .seq ops, hc, ho, p, q, hp, h, hpq => by
    simp only [clsCanon] at hc
    simp only [atomsOverB] at ho
    simp only [OpR] at h
    simp only [initialClass]
    exact sound_seq_on A env ctx hcase hce hin hA ops hc ho p q hp h hpq
  | .rep id c mn mx g, hc, ho, p, q, hp, h, hpq => by
    have hb := OpR_bounds_op ctx _ p q hp h
    simp only [clsCanon] at hc
    simp only [atomsOverB] at ho
    simp only [OpR] at h
    obtain ⟨k, _, _, hi⟩ := h
    simp only [initialClass]
    split
    · exact first_allR ctx hin p q hb.2 hpq
    · obtain ⟨m, hm, hpm⟩ := iter_first_nonempty (fun a b => OpR_mono ctx c a b) hi hpq
      exact sound_op_on A env ctx hcase hce hin hA c hc ho p m hp hm hpm
  | .bol, _, _, p, q, hp, h, hpq =>
    sound_default env ctx hin _ (by simp only [initialClass]) p q hp h hpq
  | .eol, _, _, p, q, hp, h, hpq =>
    sound_default env ctx hin _ (by simp only [initialClass]) p q hp h hpq
  | .nothing, _, _, p, q, hp, h, hpq =>
    sound_default env ctx hin _ (by simp only [initialClass]) p q hp h hpq
  | .endProgram, _, _, p, q, hp, h, hpq =>
    sound_default env ctx hin _ (by simp only [initialClass]) p q hp h hpq
  | .backref _, _, _, p, q, hp, h, hpq =>
    sound_default env ctx hin _ (by simp only [initialClass]) p q hp h hpq
  | .capture _ _, _, _, p, q, hp, h, hpq =>
    sound_default env ctx hin _ (by simp only [initialClass]) p q hp h hpq
  | .gfixed _ _ _ _, _, _, p, q, hp, h, hpq =>
    sound_default env ctx hin _ (by simp only [initialClass]) p q hp h hpq
  | .rfixed _ _ _ _, _, _, p, q, hp, h, hpq =>
    sound_default env ctx hin _ (by simp only [initialClass]) p q hp h hpq
  | .unamb _ _ _, _, _, p, q, hp, h, hpq =>
    sound_default env ctx hin _ (by simp only [initialClass]) p q hp h hpq
theorem sound_choice_on (A : Nat → Bool) (env : Env) (ctx : Ctx) (hcase : ctx.caseBlind = true → CaseOKOn A env ctx.lower)
    (hce : ∀ a x, x ∈ env.closure a → x < cpLimit) (hin : ∀ c ∈ ctx.input, c < cpLimit)
    (hA : ∀ c ∈ ctx.input, A c = true) :
    ∀ (bs : List Op), clsCanonL bs → atomsOverBL A bs = true → ∀ (p q : Nat), p ≤ ctx.len → OpRAny ctx bs p q → p < q →
      ∃ c, ctx.input[p]? = some c ∧
        clsContains (initialClassChoice env ctx.caseBlind bs) c = true
  | [], _, _, p, q, _, h, _ => by simp only [OpRAny] at h
  | b :: bs, hc, ho, p, q, hp, h, hpq => by
    simp only [clsCanonL] at hc
    simp only [atomsOverBL, Bool.and_eq_true] at ho
    simp only [OpRAny] at h
    simp only [initialClassChoice]
    have ca := ic_canon env ctx.caseBlind hce b hc.1
    have cb := ic_canon_choice env ctx.caseBlind hce bs hc.2
    rcases h with h | h
    · obtain ⟨c, h1, h2⟩ := sound_op_on A env ctx hcase hce hin hA b hc.1 ho.1 p q hp h hpq
      exact ⟨c, h1, contains_union_left _ _ ca cb c h2⟩
    · obtain ⟨c, h1, h2⟩ := sound_choice_on A env ctx hcase hce hin hA bs hc.2 ho.2 p q hp h hpq
      exact ⟨c, h1, contains_union_right _ _ ca cb c h2⟩
theorem sound_seq_on (A : Nat → Bool) (env : Env) (ctx : Ctx) (hcase : ctx.caseBlind = true → CaseOKOn A env ctx.lower)
    (hce : ∀ a x, x ∈ env.closure a → x < cpLimit) (hin : ∀ c ∈ ctx.input, c < cpLimit)
    (hA : ∀ c ∈ ctx.input, A c = true) :
    ∀ (ops : List Op), clsCanonL ops → atomsOverBL A ops = true → ∀ (p q : Nat), p ≤ ctx.len → OpRSeq ctx ops p q → p < q →
      ∃ c, ctx.input[p]? = some c ∧
        clsContains (initialClassSeq env ctx.caseBlind ops) c = true
  | [], _, _, p, q, _, h, hpq => by simp only [OpRSeq] at h; omega
  | o :: os, hc, ho, p, q, hp, h, hpq => by
    simp only [clsCanonL] at hc
    simp only [atomsOverBL, Bool.and_eq_true] at ho
    simp only [OpRSeq] at h
    obtain ⟨m, h1, h2⟩ := h
    have hpm := OpR_mono ctx o p m h1
    have ca := ic_canon env ctx.caseBlind hce o hc.1
    have cb := ic_canon_seq env ctx.caseBlind hce os hc.2
    by_cases hlt : p < m
    · obtain ⟨c, hc1, hc2⟩ := sound_op_on A env ctx hcase hce hin hA o hc.1 ho.1 p m hp h1 hlt
      refine ⟨c, hc1, ?_⟩
      simp only [initialClassSeq]
      split
      · exact hc2
      · exact contains_union_left _ _ ca cb c hc2
    · have hmp : m = p := by omega
      subst hmp
      have hnn : mzs o ≠ ZLS_NEVER := fun hn => mzs_never_sound ctx o hn m h1
      obtain ⟨c, hc1, hc2⟩ := sound_seq_on A env ctx hcase hce hin hA os hc.2 ho.2 m q hp h2 hpq
      refine ⟨c, hc1, ?_⟩
      simp only [initialClassSeq]
      rw [if_neg (by simpa using hnn)]
      exact contains_union_right _ _ ca cb c hc2
end

/-- maximal munch, alphabet form -/
theorem maxmunch_on (A : Nat → Bool) (env : Env) (ctx : Ctx) (hcase : ctx.caseBlind = true → CaseOKOn A env ctx.lower)
    (hce : ∀ a x, x ∈ env.closure a → x < cpLimit) (hin : ∀ c ∈ ctx.input, c < cpLimit)
    (hA : ∀ c ∈ ctx.input, A c = true)
    (hsc : ∀ c ∈ ctx.input, isSurrogate c = false)
    (x next : Op) (hx : isAtomOrClass x = true) (hcx : clsCanon x) (hcn : clsCanon next)
    (hox : atomsOverB A x = true) (hon : atomsOverB A next = true)
    (hnx : noEmptyAtoms x = true) (hnn : noEmptyAtoms next = true) (hns : noEmptySeq next = true)
    (hdis : isDisjoint (initialClass env ctx.caseBlind x) (initialClass env ctx.caseBlind next) = true)
    (k p m q : Nat) (hp : p ≤ ctx.len)
    (hiter : IterR (fun a b => OpR ctx x a b) k p m) (hnext : OpR ctx next m q) :
    ¬ ∃ m', OpR ctx x m m' := by
  intro ⟨m', hx'⟩
  have hm : m ≤ ctx.len := iter_bounds ctx x hiter hp
  have hlt := PreL.atomcls_nonempty ctx x hx hnx m m' hx'
  obtain ⟨c, hc1, hc2⟩ := sound_op_on A env ctx hcase hce hin hA x hcx hox m m' hm hx' hlt
  have hmem : c ∈ ctx.input := List.mem_of_getElem? hc1
  have hq := OpR_mono ctx next m q hnext
  have hc3 : clsContains (initialClass env ctx.caseBlind next) c = true := by
    by_cases hmq : m < q
    · obtain ⟨c', h1, h2⟩ := sound_op_on A env ctx hcase hce hin hA next hcn hon m q hm hnext hmq
      rw [hc1] at h1
      cases h1
      exact h2
    · have hqm : q = m := by omega
      subst hqm
      exact null_op env ctx hce next hcn hnn hns q hm hnext c (hin c hmem)
  have := isDisjoint_sound _ _ (ic_canon env ctx.caseBlind hce next hcn) hdis c (hsc c hmem) hc3
  rw [hc2] at this
  cases this

end Rx.EnvStdL
