/-
  Proofs/LiteralLemmas — helper lemmas for Props/C13 (flag q: literal pattern and replacement).
-/
import RxModel.Model.Compile
import RxModel.Props.C04
import RxModel.Props.C11
namespace Rx.Lit
open Rx Rx.Spec

/-- the literal program's operation tree -/
abbrev litOp (pat : List Nat) : Op := .seq [.atom pat, .endProgram]

/-! ### `match_at` on the literal program -/

theorem matchAt_lit_ok (ctx : Ctx) (hbr : ctx.hasBackrefs = false) (pat : List Nat) (i : Nat) (st : St)
    (hlen : i + pat.length ≤ ctx.len) (hpm : prefixMatch ctx pat (ctx.input.drop i) = true) :
    ∃ st', matchAt ctx (litOp pat) i st = (true, st') ∧ st'.panic = st.panic := by
  have hn : ¬ (i + pat.length > ctx.len) := by omega
  simp [matchAt, sem, semL, seqGen, seqGo, containsCapL, containsCap, isCapture, atomGen, hn, hpm,
    hbr, Step.once, Step.mapSt, Step.bind, Step.append, Step.onNil, endGen, clearBeyond]

theorem tryCands_lit (ctx : Ctx) (hbr : ctx.hasBackrefs = false) (pat : List Nat) :
    ∀ (cands : List Nat) (st : St),
    (∀ j ∈ cands, j + pat.length ≤ ctx.len ∧ prefixMatch ctx pat (ctx.input.drop j) = true) →
    ∃ st', tryCands ctx (litOp pat) cands st = (!cands.isEmpty, st') ∧ st'.panic = st.panic
  | [], st, _ => ⟨st, rfl, rfl⟩
  | j :: js, st, h => by
    obtain ⟨h1, h2⟩ := h j (by simp)
    obtain ⟨st', e, hp⟩ := matchAt_lit_ok ctx hbr pat j st h1 h2
    exact ⟨st', by simp [tryCands, e], hp⟩

theorem mem_rangeFrom (lo hi j : Nat) : j ∈ rangeFrom lo hi ↔ lo ≤ j ∧ j < hi := by
  simp [rangeFrom, and_comm]

/-- the search on a literal program: succeeds, without panic, iff some candidate position exists -/
theorem matchesFrom_lit (pr : Prog) (pat : List Nat) (lower : Nat → Nat) (s : List Nat)
    (hop : pr.op = litOp pat) (hbol : pr.hasBol = false) (hmin : pr.minLen = pat.length)
    (hpre : pr.prefix_ = some pat) (hbr : pr.hasBackrefs = false) :
    ∃ b st, matchesFrom (pr.ctx lower s) pr 0 {} = (b, st) ∧ st.panic = none ∧
      (b = true ↔ ∃ j, j + pat.length ≤ s.length ∧ prefixMatch (pr.ctx lower s) pat (s.drop j) = true) := by
  have hcl : (pr.ctx lower s).len = s.length := rfl
  have hci : (pr.ctx lower s).input = s := rfl
  have hcb : (pr.ctx lower s).hasBackrefs = false := hbr
  unfold matchesFrom
  simp only [hbol, hmin, hpre, hop, hcl, hci, Bool.false_eq_true, if_false, Nat.not_lt_zero, gt_iff_lt,
    Nat.sub_zero]
  by_cases hlt : s.length < pat.length
  · simp only [hlt, if_true]
    refine ⟨false, _, rfl, rfl, ?_⟩
    simp only [Bool.false_eq_true, false_iff, not_exists, not_and]
    intro j hj; omega
  · have hn : ¬ (s.length + 1 < pat.length) := by omega
    simp only [hlt, hn, if_false]
    obtain ⟨st', e, hp⟩ := tryCands_lit (pr.ctx lower s) hcb pat
      ((rangeFrom 0 (s.length + 1 - pat.length)).filter
        (fun j => prefixMatch (pr.ctx lower s) pat (s.drop j)))
      { ({} : St) with cap := {} }
      (by
        intro j hj
        rw [List.mem_filter, mem_rangeFrom] at hj
        exact ⟨by rw [hcl]; omega, by rw [hci]; exact hj.2⟩)
    refine ⟨_, st', e, by rw [hp], ?_⟩
    simp only [Bool.not_eq_true', List.isEmpty_eq_false_iff_exists_mem, List.mem_filter, mem_rangeFrom]
    constructor
    · rintro ⟨j, ⟨_, hj⟩, hpm⟩; exact ⟨j, by omega, hpm⟩
    · rintro ⟨j, hj, hpm⟩; exact ⟨j, ⟨by omega, by omega⟩, hpm⟩

/-! ### the program record -/

theorem mkProgram_lit (fl : CFlags) (pat : List Nat) (hlen : pat.length < usizeMax) :
    ∃ pres, mkProgram pat (litOp pat) 1 fl false =
      { op := litOp pat, caseBlind := fl.caseBlind, multiLine := fl.multiLine, literal := fl.literal,
        hasBackrefs := false, maxParens := 1, minLen := pat.length, pattern := pat,
        prefix_ := some pat, pres := pres } := by
  have hmin : minLenOp (litOp pat) = pat.length := by
    simp only [minLenOp, minLenSeq, satAdd]
    unfold usizeMax at *
    simp only [Nat.min_def]
    split <;> split <;> omega
  refine ⟨numberPres (addPre fl.multiLine (litOp pat) none 0) 0, ?_⟩
  simp only [mkProgram, litOp, numberReps, numberRepsL]
  rw [show minLenOp (.seq [.atom pat, .endProgram]) = pat.length from hmin]

theorem isMatch_of_facts (pr : Prog) (pat : List Nat) (lower : Nat → Nat) (s : List Nat)
    (hop : pr.op = litOp pat) (hbol : pr.hasBol = false) (hmin : pr.minLen = pat.length)
    (hpre : pr.prefix_ = some pat) (hbr : pr.hasBackrefs = false) :
    ∃ b, pr.isMatch lower s = .ok b ∧
      (b = true ↔ ∃ j, j + pat.length ≤ s.length ∧ prefixMatch (pr.ctx lower s) pat (s.drop j) = true) := by
  obtain ⟨b, st, hm, hp, hb⟩ := matchesFrom_lit pr pat lower s hop hbol hmin hpre hbr
  exact ⟨b, by simp only [Prog.isMatch, hm, hp], hb⟩

/-- `is_match` on the literal program, in terms of `prefixMatch` under a context that compares
    characters like the program's own -/
theorem isMatch_lit (fl : CFlags) (pat : List Nat) (hlen : pat.length < usizeMax) (lower : Nat → Nat)
    (s : List Nat) :
    ∃ b ctx, ctx.caseBlind = fl.caseBlind ∧ ctx.lower = lower ∧
      (mkProgram pat (litOp pat) 1 fl false).isMatch lower s = .ok b ∧
      (b = true ↔ ∃ j, j + pat.length ≤ s.length ∧ prefixMatch ctx pat (s.drop j) = true) := by
  obtain ⟨pres, e⟩ := mkProgram_lit fl pat hlen
  obtain ⟨b, hm, hb⟩ := isMatch_of_facts (mkProgram pat (litOp pat) 1 fl false) pat lower s
    (by rw [e]) (by rw [e]) (by rw [e]) (by rw [e]) (by rw [e])
  refine ⟨b, _, ?_, ?_, hm, hb⟩
  · show (mkProgram pat (litOp pat) 1 fl false).caseBlind = _
    rw [e]
  · rfl

theorem infix_iff_drop (pat s : List Nat) :
    (∃ j, j + pat.length ≤ s.length ∧ pat <+: s.drop j) ↔ pat <:+: s := by
  constructor
  · rintro ⟨j, _, h⟩
    exact h.isInfix.trans (List.drop_suffix j s).isInfix
  · rintro ⟨a, b, rfl⟩
    refine ⟨a.length, by simp, ?_⟩
    simp [List.append_assoc]

theorem ci_iff_drop (ctx : Ctx) (hcb : ctx.caseBlind = true) (pat s : List Nat) (j : Nat)
    (hj : j + pat.length ≤ s.length) :
    prefixMatch ctx pat (s.drop j) = true ↔
      ∀ k (hk : k < pat.length), ∃ x, s[j + k]? = some x ∧ eqCB ctx.lower x pat[k] = true := by
  rw [C11.atom_ci ctx hcb]
  simp only [List.length_drop, List.getElem_drop]
  constructor
  · rintro ⟨_, h⟩ k hk
    have hx : j + k < s.length := by omega
    exact ⟨s[j + k], by simp [hx], h k hk (by omega)⟩
  · intro h
    refine ⟨by omega, fun k hk hx => ?_⟩
    obtain ⟨x, h1, h2⟩ := h k hk
    have hx' : j + k < s.length := by omega
    rw [List.getElem?_eq_getElem hx'] at h1
    cases h1
    exact h2

/-! ### `replace` with the literal flag -/

variable {σ : Type}

/-- with `literal = true` the loop only ever asks `subst` at `simple = true` -/
theorem replaceLoop_lit_congr (M : MatcherI σ) (subst : Subst σ) (input repl : List Nat)
    (hsub : ∀ st, subst st true = some (repl, true)) (f : Nat) :
    ∀ (pos : Nat) (st : σ) (first simple : Bool) (acc : List Nat), (first = false → simple = true) →
    replaceLoop M subst input true f pos st first simple acc =
    replaceLoop M (fun _ _ => some (repl, true)) input true f pos st first simple acc := by
  induction f with
  | zero => intros; rfl
  | succ f ih =>
    intro pos st first simple acc hfs
    have hs : (if first = true then true else simple) = true := by
      cases first
      · simp [hfs rfl]
      · simp
    unfold replaceLoop
    simp only [hs, hsub]
    by_cases hlt : pos < input.length
    · simp only [hlt, if_true]
      rcases M.find st pos with ⟨m, st'⟩
      cases m with
      | false => rfl
      | true =>
        simp only
        cases M.failed st' with
        | some c => rfl
        | none =>
          simp only
          cases M.start0 st' with
          | none => rfl
          | some a =>
            simp only
            by_cases ha : a < pos
            · simp only [ha, if_true]
            · simp only [ha, if_false]
              cases M.end0 st' with
              | none => rfl
              | some e => exact ih _ _ _ _ _ (fun _ => rfl)
    · simp only [hlt, if_false]

theorem replaceWith_lit_congr (M : MatcherI σ) (subst : Subst σ) (input repl : List Nat)
    (hsub : ∀ st, subst st true = some (repl, true)) (st0 : σ) :
    replaceWith M subst input true st0 = replaceWith M (fun _ _ => some (repl, true)) input true st0 :=
  replaceLoop_lit_congr M subst input repl hsub _ _ _ _ _ _ (by simp)

theorem ofFailed_ne_err {α : Type} (c : Nat) (e : Err) : (Out.ofFailed c : Out α) ≠ .err e := by
  unfold Out.ofFailed; split <;> simp

/-- a constant substitution never makes the loop report InvalidReplacementString -/
theorem replaceLoop_const_no_error (M : MatcherI σ) (input repl : List Nat) (lit : Bool) (f : Nat) :
    ∀ (pos : Nat) (st : σ) (first simple : Bool) (acc : List Nat),
    replaceLoop M (fun _ _ => some (repl, true)) input lit f pos st first simple acc
      ≠ .err .invalidReplacement := by
  induction f with
  | zero => intros; simp [replaceLoop]
  | succ f ih =>
    intro pos st first simple acc
    unfold replaceLoop
    by_cases hlt : pos < input.length
    · simp only [hlt, if_true]
      rcases M.find st pos with ⟨m, st'⟩
      cases m with
      | false =>
        simp only
        cases M.failed st' with
        | some c => exact ofFailed_ne_err _ _
        | none => cases first <;> simp
      | true =>
        simp only
        cases M.failed st' with
        | some c => exact ofFailed_ne_err _ _
        | none =>
          simp only
          cases M.start0 st' with
          | none => simp
          | some a =>
            simp only
            by_cases ha : a < pos
            · simp [ha]
            · simp only [ha, if_false]
              cases M.end0 st' with
              | none => simp
              | some e => exact ih _ _ _ _ _
    · simp only [hlt, if_false]
      cases first <;> simp

end Rx.Lit
