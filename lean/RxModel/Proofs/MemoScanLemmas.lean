/-
  Proofs/MemoScanLemmas — the memo invariant of Proofs/MemoLemmas made RELATIVE to the positions a search can
  still reach, so that it survives a SUCCESSFUL `matches`.

  `HRX E A R st`: for the (rest of the) root sequence `R` whose head is entered only at positions in `A`,
  every memo entry `(id, p)` at a REACHABLE position `p` is dead — or excused by `E`.  Reachability is pushed
  forward along the sequence (`push`): the element after `e` is entered at the ends of `e` from reachable
  starts.  `HRG A = HRX (no excuse) A`; with `A = (i ≤ ·)` it is the invariant of a search from `i`.
  `Path n` is the excuse left behind by a successful attempt that ended at `n`: the entry is at `p ≤ n`, and
  if `p = n` the followers of the repeat matched the empty string at `n`.

  The development is that of Proofs/MemoLemmas Part B / C, with the reachable set threaded through.
-/
import RxModel.Proofs.MemoLemmas
namespace Rx.MemoScan
open Rx Rx.SearchComplete Rx.Memo
open Rx.C08 (noEmptyAtoms noEmptyAtomsL clsCanon clsCanonL)

/-- the positions at which the element after `o` is entered -/
def push (ctx : Ctx) (A : Nat → Prop) (o : Op) : Nat → Prop :=
  fun m => ∃ q, q ≤ ctx.len ∧ A q ∧ OpR ctx o q m

def HRX (ctx : Ctx) (E : List Op → Nat → Prop) : (Nat → Prop) → List Op → St → Prop
  | _, [], _ => True
  | A, o :: os, st =>
    (∀ id, rep0Id o = some id → ∀ p, p ≤ ctx.len → A p → memPair st.hist id p = true →
      ¬ Live ctx os p ∨ E os p) ∧
    HRX ctx E (push ctx A o) os st

def noExcuse : List Op → Nat → Prop := fun _ _ => False

/-- every reachable entry is dead -/
abbrev HRG (ctx : Ctx) := HRX ctx noExcuse

/-- the excuse after a successful attempt that ended at `n` -/
def Path (ctx : Ctx) (n : Nat) : List Op → Nat → Prop := fun os q => q ≤ n ∧ (q = n → OpRSeq ctx os n n)

theorem HRX_histOnly (ctx : Ctx) (E : List Op → Nat → Prop) : ∀ R A, HistOnly (HRX ctx E A R)
  | [], _ => fun _ _ _ _ => trivial
  | o :: os, A => fun st st' he h => ⟨fun id hid p hp hA hm => h.1 id hid p hp hA (by rw [← he]; exact hm),
      HRX_histOnly ctx E os _ st st' he h.2⟩

theorem HRX_mono (ctx : Ctx) {E E' : List Op → Nat → Prop} (hE : ∀ os p, E os p → E' os p) :
    ∀ R (A A' : Nat → Prop), (∀ p, A' p → A p) → ∀ st, HRX ctx E A R st → HRX ctx E' A' R st
  | [], _, _, _, _, _ => trivial
  | o :: os, A, A', hA, st, h => by
    refine ⟨fun id hid p hp hA' hm => ?_, HRX_mono ctx hE os _ _ ?_ st h.2⟩
    · rcases h.1 id hid p hp (hA p hA') hm with h1 | h1
      · exact .inl h1
      · exact .inr (hE os p h1)
    · rintro m ⟨q, hq, hAq, hr⟩
      exact ⟨q, hq, hA q hAq, hr⟩

theorem HRX_add (ctx : Ctx) (E : List Op → Nat → Prop) (id q : Nat) : ∀ R A, id ∉ rep0Ids R → ∀ st,
    HRX ctx E A R st → HRX ctx E A R { st with hist := (id, q) :: st.hist }
  | [], _, _, _, _ => trivial
  | o :: os, A, hni, st, h => by
    simp only [rep0Ids, List.mem_append, not_or] at hni
    refine ⟨fun id' hid p hp hA hm => h.1 id' hid p hp hA ?_, HRX_add ctx E id q os _ hni.2 st h.2⟩
    simp only [memPair_cons] at hm
    have hne : (id == id') = false := by
      have : id ≠ id' := by
        intro he; subst he
        rw [hid] at hni; exact hni.1 (by simp)
      simpa using this
    simpa [hne] using hm

theorem HRG_of_nil (ctx : Ctx) : ∀ (l : List Op) (A : Nat → Prop) (st : St), st.hist = [] → HRG ctx A l st
  | [], _, _, _ => trivial
  | o :: os, A, st, h => ⟨fun id _ p _ _ hm => by rw [h] at hm; simp [memPair] at hm,
      HRG_of_nil ctx os _ st h⟩

/-- what the iterator of the rest `R`, entered at a reachable `p`, does FIRST -/
def GoodG (ctx : Ctx) (A : Nat → Prop) (R : List Op) (F : St → Prop) (p : Nat) : Step → Prop
  | .nil st' => HRG ctx A R st' ∧ F st' ∧ ¬ Live ctx R p
  | .cons n st1 _ => OpRSeq ctx R p n ∧ HRX ctx (Path ctx n) A R st1 ∧ F st1
  | .diverge => False

theorem bind_goodG {ctx : Ctx} {e : Op} {R' : List Op} {A : Nat → Prop} {F F' : St → Prop} {p : Nat}
    {k : Nat → St → Step} (hF' : HistOnly F') (hp : p ≤ ctx.len) (hA : A p)
    (hK : ∀ n, n ≤ ctx.len → push ctx A e n → ∀ st, HRG ctx (push ctx A e) R' st → F' st →
      GoodG ctx (push ctx A e) R' F' n (k n st))
    (hpost : ∀ st', HRG ctx (push ctx A e) R' st' → F' st' → (∀ m, OpR ctx e p m → ¬ Live ctx R' m) →
      HRG ctx A (e :: R') st' ∧ F st')
    (hpostC : ∀ m n st3, OpR ctx e p m → OpRSeq ctx R' m n → HRX ctx (Path ctx n) (push ctx A e) R' st3 → F' st3 →
      HRX ctx (Path ctx n) A (e :: R') st3 ∧ F st3) :
    ∀ {V : Nat → Prop} {s : Step},
      ES ctx e p (fun st => HRG ctx (push ctx A e) R' st ∧ F' st) (fun n => ¬ Live ctx R' n) (Live ctx R') V s →
      (∀ m, V m → ¬ Live ctx R' m) →
      GoodG ctx A (e :: R') F p ((s.mapSt (fun n st => clearBeyond st n)).bind k) := by
  intro V s hes
  induction hes with
  | nil V st' hI hall =>
    intro hV
    have hdead : ∀ m, OpR ctx e p m → ¬ Live ctx R' m := fun m hm hl => hV m (hall m hm hl) hl
    obtain ⟨a, b⟩ := hpost st' hI.1 hI.2 hdead
    refine ⟨a, b, ?_⟩
    rintro ⟨q, hq⟩
    simp only [OpRSeq] at hq
    obtain ⟨m, hm, hmq⟩ := hq
    exact hdead m hm ⟨q, hmq⟩
  | cons V n st1 r hI hr hn _ ih =>
    intro hV
    simp only [Step.mapSt, Step.bind]
    have hg := hK n hn ⟨p, hp, hA, hr⟩ (clearBeyond st1 n) (HRX_histOnly ctx _ R' _ st1 _ rfl hI.1)
      (hF' st1 _ rfl hI.2)
    generalize k n (clearBeyond st1 n) = g at hg
    cases g with
    | nil st2 =>
      obtain ⟨a, b, c⟩ := hg
      simp only [Step.append]
      refine ih st2 ⟨a, b⟩ c (fun m hm => ?_)
      rcases hm with hm | rfl
      · exact hV m hm
      · exact c
    | cons m st3 r3 =>
      simp only [Step.append]
      show OpRSeq ctx (e :: R') p m ∧ HRX ctx (Path ctx m) A (e :: R') st3 ∧ F st3
      obtain ⟨g1, g2, g3⟩ := hg
      refine ⟨?_, hpostC n m st3 hr g1 g2 g3⟩
      simp only [OpRSeq]
      exact ⟨n, hr, g1⟩
    | diverge => exact hg.elim

theorem last_goodG {ctx : Ctx} {e : Op} {A : Nat → Prop} {F : St → Prop} {p : Nat} {I' : St → Prop}
    (hF : HistOnly F)
    (hpost : ∀ st', I' st' → (∀ m, ¬ OpR ctx e p m) → HRG ctx A [e] st' ∧ F st')
    (hpostC : ∀ n st1, I' st1 → OpR ctx e p n → HRX ctx (Path ctx n) A [e] st1 ∧ F st1) :
    ∀ {V : Nat → Prop} {s : Step},
      ES ctx e p I' (fun n => ¬ Live ctx [] n) (Live ctx []) V s → (∀ m, ¬ V m) →
      GoodG ctx A [e] F p (s.mapSt (fun n st => clearBeyond st n)) := by
  intro V s hes hV
  cases hes with
  | nil _ st' hI hall =>
    have hno : ∀ m, ¬ OpR ctx e p m := fun m hm => hV m (hall m hm ⟨m, rfl⟩)
    obtain ⟨a, b⟩ := hpost st' hI hno
    refine ⟨a, b, ?_⟩
    rintro ⟨q, hq⟩
    simp only [OpRSeq] at hq
    obtain ⟨m, hm, _⟩ := hq
    exact hno m hm
  | cons _ n st1 r hI hr _ _ =>
    show OpRSeq ctx [e] p n ∧ HRX ctx (Path ctx n) A [e] (clearBeyond st1 n) ∧ F (clearBeyond st1 n)
    obtain ⟨a, b⟩ := hpostC n st1 hI hr
    refine ⟨?_, HRX_histOnly ctx _ [e] A st1 _ rfl a, hF st1 _ rfl b⟩
    simp only [OpRSeq]
    exact ⟨n, hr, rfl⟩

/-- the skippable repeat as an element, entered at a reachable position -/
theorem elem_rep0G (env : Env) (ctx : Ctx) (hIn : InputOK env ctx) (id : Nat) (c : Op) (mx : Nat) (os : List Op)
    (h : Clean3.Rep0OK env ctx c mx) (hni : id ∉ rep0Ids os) (A : Nat → Prop)
    {F : St → Prop} (hF : HistOnly F) (hFr : FrameOK F (id :: rep0Ids os))
    (p : Nat) (hp : p ≤ ctx.len) (hA : A p) (st : St) (hst : HRG ctx A (.rep id c 0 mx true :: os) st) (hFst : F st) :
    ∃ V : Nat → Prop, (∀ m, V m → ¬ Live ctx os m) ∧
      ES ctx (.rep id c 0 mx true) p
        (fun s => HRG ctx (push ctx A (.rep id c 0 mx true)) os s ∧ frameOf F id p st s)
        (fun n => ¬ Live ctx os n) (Live ctx os) V (sem ctx (.rep id c 0 mx true) p st) := by
  have hI' : HistOnly (fun s => HRG ctx (push ctx A (.rep id c 0 mx true)) os s ∧ frameOf F id p st s) :=
    fun s s' he hh => ⟨HRX_histOnly ctx _ os _ s s' he hh.1, frameOf_histOnly hF id p st s s' he hh.2⟩
  have C := rep0_child hIn h hI'
  have hw := rep0_wf h id
  have hid : rep0Id (.rep id c 0 mx true) = some id := by simp [rep0Id]
  cases hm : memPair st.hist id p with
  | true =>
    have hex : Step.Ex (sem ctx (.rep id c 0 mx true) p st) _ := Clean3.rep0_hit env ctx hIn id c mx h p hp st hm
    have hdead : ¬ Live ctx os p := by
      rcases hst.1 id hid p hp hA hm with h1 | h1
      · exact h1
      · exact h1.elim
    refine ⟨fun m => m = p, fun m hm' => by rw [hm']; exact hdead, ?_⟩
    refine ES_of_ex hex _ ?_ (fun n hn => ex_sound ctx _ hw hp hex n hn) ?_
    · simp only [sem, if_true]
      exact repGreedyGen_hinv C ctx id 0 mx p st hp ⟨hst.2, hFst, fun q hq => .inr hq⟩ (.inr hm)
    · intro m hm' hl
      rcases rep0_hit_complete env ctx hIn id c mx h p m hp hm' with rfl | hmem
      · exact .inl rfl
      · exact .inr ⟨m, hmem, hl⟩
  | false =>
    have hex : Step.Ex (sem ctx (.rep id c 0 mx true) p st) _ := Clean3.rep0_fresh env ctx hIn id c mx h p hp st hm
    refine ⟨fun _ => False, fun m hm' => hm'.elim, ?_⟩
    refine ES_of_ex hex _ ?_ (fun n hn => ex_sound ctx _ hw hp hex n hn) ?_
    · simp only [sem, if_true]
      refine rep0_fresh_inv C id mx p hp st hm ⟨HRX_add ctx _ id p os _ hni st hst.2,
        hFr st id p List.mem_cons_self hFst, fun q hq => ?_⟩
      simp only [memPair_cons, beq_self_eq_true, Bool.true_and, Bool.or_eq_true, beq_iff_eq] at hq
      rcases hq with hq | hq
      · exact .inl hq.symm
      · exact .inr hq
    · intro m hm' hl
      right
      have hmem := Clean3.rep0_complete env ctx hIn id c mx h p m hp hm'
      rw [← Clean3.rep0_first_pass env ctx hIn id c mx h p hp] at hmem
      exact ⟨m, List.mem_append_left _ hmem, hl⟩

theorem rep0_postG (ctx : Ctx) (id : Nat) (c : Op) (mx : Nat) (os : List Op) (A : Nat → Prop) {F : St → Prop}
    (p : Nat) (st : St) (hst : HRG ctx A (.rep id c 0 mx true :: os) st) (st' : St)
    (h1 : HRG ctx (push ctx A (.rep id c 0 mx true)) os st') (h2 : frameOf F id p st st')
    (hdead : ∀ m, OpR ctx (.rep id c 0 mx true) p m → ¬ Live ctx os m) :
    HRG ctx A (.rep id c 0 mx true :: os) st' ∧ F st' := by
  refine ⟨⟨fun id' hid' q hq hAq hmq => ?_, h1⟩, h2.1⟩
  have : id' = id := by simpa [rep0Id] using hid'.symm
  subst this
  rcases h2.2 q hmq with rfl | hold
  · exact .inl (hdead q (rep0_self ctx id' c mx q))
  · exact hst.1 id' hid' q hq hAq hold

theorem rep0_postC (ctx : Ctx) (id : Nat) (c : Op) (mx : Nat) (os : List Op) (A : Nat → Prop) {F : St → Prop}
    (p : Nat) (hp : p ≤ ctx.len) (st : St) (hst : HRG ctx A (.rep id c 0 mx true :: os) st)
    (m n : Nat) (st3 : St) (hm : OpR ctx (.rep id c 0 mx true) p m) (hmn : OpRSeq ctx os m n)
    (h1 : HRX ctx (Path ctx n) (push ctx A (.rep id c 0 mx true)) os st3) (h2 : frameOf F id p st st3) :
    HRX ctx (Path ctx n) A (.rep id c 0 mx true :: os) st3 ∧ F st3 := by
  refine ⟨⟨fun id' hid' q hq hAq hmq => ?_, h1⟩, h2.1⟩
  have : id' = id := by simpa [rep0Id] using hid'.symm
  subst this
  have b1 := OpR_bounds_op ctx _ p m hp hm
  have b2 := OpR_bounds_seq ctx os m n b1.2 hmn
  rcases h2.2 q hmq with rfl | hold
  · right
    refine ⟨by omega, fun he => ?_⟩
    have : m = n := by omega
    subst this
    exact hmn
  · rcases hst.1 id' hid' q hq hAq hold with h | h
    · exact .inl h
    · exact h.elim

/-! ### the induction along the root sequence -/

theorem seqGoodG (env : Env) (ctx : Ctx) (hIn : InputOK env ctx) : ∀ (R : List Op),
    cleanSeq3m env ctx.caseBlind ctx.multiLine R = true → wfOps R = true → noEmptyAtomsL R = true →
    clsCanonL R → (rep0Ids R).Nodup → R ≠ [] →
    ∀ (A : Nat → Prop) (F : St → Prop), HistOnly F → FrameOK F (rep0Ids R) →
    ∀ p, p ≤ ctx.len → A p → ∀ st, HRG ctx A R st → F st → GoodG ctx A R F p (seqGo (semL ctx R) p st) := by
  intro R
  induction R with
  | nil => intro _ _ _ _ _ hne; exact absurd rfl hne
  | cons e os ih =>
    intro hc hw hn hcc hnd _ A F hF hFr p hp hA st hst hFst
    simp only [cleanSeq3m, elemOK, Bool.and_eq_true, Bool.or_eq_true] at hc
    simp only [wfOps, Bool.and_eq_true] at hw
    simp only [noEmptyAtomsL, Bool.and_eq_true] at hn
    simp only [clsCanonL] at hcc
    have key : ∃ (F' : St → Prop) (V : Nat → Prop), HistOnly F' ∧ FrameOK F' (rep0Ids os) ∧
        (∀ m, V m → ¬ Live ctx os m) ∧
        ES ctx e p (fun s => HRG ctx (push ctx A e) os s ∧ F' s) (fun n => ¬ Live ctx os n) (Live ctx os) V
          (sem ctx e p st) ∧
        (∀ st', HRG ctx (push ctx A e) os st' → F' st' → (∀ m, OpR ctx e p m → ¬ Live ctx os m) →
          HRG ctx A (e :: os) st' ∧ F st') ∧
        (∀ m n st3, OpR ctx e p m → OpRSeq ctx os m n → HRX ctx (Path ctx n) (push ctx A e) os st3 → F' st3 →
          HRX ctx (Path ctx n) A (e :: os) st3 ∧ F st3) := by
      rcases hc.1 with hfree | hrep
      · have hid := rep0Id_of_clean3 env _ _ true os e hfree
        have hids : rep0Ids (e :: os) = rep0Ids os := by simp only [rep0Ids, hid, List.nil_append]
        rw [hids] at hFr
        have hI' : HistOnly (fun s => HRG ctx (push ctx A e) os s ∧ F s) :=
          fun s s' he hh => ⟨HRX_histOnly ctx _ os _ s s' he hh.1, hF s s' he hh.2⟩
        refine ⟨F, fun _ => False, hF, hFr, fun m hm => hm.elim,
          elem_free env ctx hIn e os hfree hw.1 hn.1 hcc.1 hw.2 hn.2 hcc.2 hI' p hp st ⟨hst.2, hFst⟩, ?_, ?_⟩
        · intro st' h1 h2 _
          exact ⟨⟨fun id hid' => (by rw [hid] at hid'; cases hid'), h1⟩, h2⟩
        · intro m n st3 _ _ h1 h2
          exact ⟨⟨fun id hid' => (by rw [hid] at hid'; cases hid'), h1⟩, h2⟩
      · obtain ⟨id, c, mx, rfl, hr⟩ := rep0B_cases env ctx e hrep hw.1 hn.1 hcc.1
        have hids : rep0Ids (.rep id c 0 mx true :: os) = id :: rep0Ids os := by simp [rep0Ids, rep0Id]
        rw [hids] at hFr hnd
        rw [List.nodup_cons] at hnd
        obtain ⟨V, hV, hes⟩ := elem_rep0G env ctx hIn id c mx os hr hnd.1 A hF hFr p hp hA st hst hFst
        exact ⟨frameOf F id p st, V, frameOf_histOnly hF id p st, frameOf_frameOK id p st hFr hnd.1, hV, hes,
          fun st' h1 h2 hd => rep0_postG ctx id c mx os A p st hst st' h1 h2 hd,
          fun m n st3 hm hmn h1 h2 => rep0_postC ctx id c mx os A p hp st hst m n st3 hm hmn h1 h2⟩
    obtain ⟨F', V, hF', hFr', hV, hes, hpost, hpostC⟩ := key
    have hnd' : (rep0Ids os).Nodup := by
      simp only [rep0Ids] at hnd
      exact (List.nodup_append.1 hnd).2.1
    cases os with
    | nil =>
      show GoodG ctx A [e] F p (seqGo [sem ctx e] p st)
      unfold seqGo
      refine last_goodG (I' := fun s => HRG ctx (push ctx A e) [] s ∧ F' s) hF (fun st' hI hno => ?_)
        (fun n st1 hI hr => ?_) hes (fun m hm => hV m hm (live_nil ctx m))
      · exact hpost st' hI.1 hI.2 (fun m hm => absurd hm (hno m))
      · exact hpostC n n st1 hr (by simp only [OpRSeq]) trivial hI.2
    | cons o2 rest =>
      show GoodG ctx A (e :: o2 :: rest) F p (seqGo (sem ctx e :: sem ctx o2 :: semL ctx rest) p st)
      unfold seqGo
      refine bind_goodG hF' hp hA (fun n hn' hAn st2 h1 h2 => ?_) hpost hpostC hes hV
      exact ih hc.2 hw.2 hn.2 hcc.2 hnd' (List.cons_ne_nil _ _) _ F' hF' hFr' n hn' hAn st2 h1 h2

theorem good_onNilG {ctx : Ctx} {A : Nat → Prop} {R : List Op} {F : St → Prop} {p : Nat} (hF : HistOnly F)
    {s : Step} {f : St → St} (hf : ∀ st, (f st).hist = st.hist) (h : GoodG ctx A R F p s) :
    GoodG ctx A R F p (s.onNil f) := by
  cases s with
  | nil st' => exact ⟨HRX_histOnly ctx _ R A st' _ (hf st') h.1, hF st' _ (hf st') h.2.1, h.2.2⟩
  | cons n st1 r => exact h
  | diverge => exact h

theorem rootGoodG (env : Env) (ctx : Ctx) (hIn : InputOK env ctx) (l : List Op)
    (hc : cleanProg3m env ctx.caseBlind ctx.multiLine (.seq l) = true) (hw : wfOp (.seq l) = true)
    (hn : noEmptyAtoms (.seq l) = true) (hcc : clsCanon (.seq l)) (A : Nat → Prop)
    (p : Nat) (hp : p ≤ ctx.len) (hA : A p) (st : St) (hst : HRG ctx A l st) :
    GoodG ctx A l (fun _ => True) p (sem ctx (.seq l) p st) := by
  simp only [cleanProg3m, Bool.and_eq_true, decide_eq_true_eq] at hc
  simp only [wfOp, Bool.and_eq_true, Bool.not_eq_true', List.isEmpty_eq_false_iff] at hw
  simp only [noEmptyAtoms] at hn
  simp only [clsCanon] at hcc
  simp only [sem]
  unfold seqGen
  refine good_onNilG (fun _ _ _ _ => trivial) (fun s => by split <;> rfl) ?_
  exact seqGoodG env ctx hIn l hc.1 hw.2 hn hcc hc.2 hw.1 A (fun _ => True) (fun _ _ _ _ => trivial)
    (fun _ _ _ _ _ => trivial) p hp hA st hst trivial

/-- what a successful attempt leaves: the reported end `n`, and every reachable entry dead or on the path -/
def SuccG (ctx : Ctx) (A : Nat → Prop) (l : List Op) (st' : St) : Prop :=
  ∃ n, getParenEnd st' 0 = some n ∧ HRX ctx (Path ctx n) A l st'

/-- `match_at(j)` at a reachable start, from a state whose reachable memo entries are dead -/
theorem matchAtG (env : Env) (ctx : Ctx) (hIn : InputOK env ctx) (l : List Op)
    (hc : cleanProg3m env ctx.caseBlind ctx.multiLine (.seq l) = true) (hw : wfOp (.seq l) = true)
    (hn : noEmptyAtoms (.seq l) = true) (hcc : clsCanon (.seq l)) (A : Nat → Prop)
    (j : Nat) (hj : j ≤ ctx.len) (hA : A j) (st : St) (hst : HRG ctx A l st) :
    ((matchAt ctx (.seq l) j st).1 = true ↔ ∃ q, OpR ctx (.seq l) j q) ∧
    ((matchAt ctx (.seq l) j st).1 = false → HRG ctx A l (matchAt ctx (.seq l) j st).2) ∧
    ((matchAt ctx (.seq l) j st).1 = true → SuccG ctx A l (matchAt ctx (.seq l) j st).2) := by
  have hg := rootGoodG env ctx hIn l hc hw hn hcc A j hj hA (matchStart ctx j st)
    (HRX_histOnly ctx _ l A st _ (Clean3.matchStart_hist ctx j st) hst)
  rw [matchAt_eq]
  generalize sem ctx (.seq l) j (matchStart ctx j st) = s at hg
  cases s with
  | nil st' =>
    obtain ⟨h1, _, h3⟩ := hg
    refine ⟨⟨fun h => (by simp at h), fun ⟨q, hq⟩ => absurd ⟨q, by simpa only [OpR] using hq⟩ h3⟩, fun _ => ?_,
      fun h => by simp at h⟩
    exact HRX_histOnly ctx _ l A st' _ rfl h1
  | cons n st1 r =>
    obtain ⟨g1, g2, _⟩ := hg
    refine ⟨⟨fun _ => ⟨n, by simpa only [OpR] using g1⟩, fun _ => rfl⟩, fun h => (by simp at h), fun _ => ?_⟩
    refine ⟨n, ?_, HRX_histOnly ctx _ l A st1 _ rfl g2⟩
    simp only [getParenEnd, Cap.setEnd]
    exact getO_setAt_zero _ _
  | diverge => exact hg.elim

/-! ## the candidate loop and `matches` from `i`, with `A = (i ≤ ·)` -/

abbrev From (i : Nat) : Nat → Prop := fun p => i ≤ p

def MIG (ctx : Ctx) (i : Nat) (l : List Op) (st : St) : Prop := st.panic = none ∧ HRG ctx (From i) l st

def OutcomeG (ctx : Ctx) (l : List Op) (i : Nat) (r : Bool × St) : Prop :=
  Outcome ctx (.seq l) i r ∧ (r.1 = false → HRG ctx (From i) l r.2) ∧ (r.1 = true → SuccG ctx (From i) l r.2)

theorem matchAt_casesG {env : Env} {ctx : Ctx} {l : List Op} (T : TreeM env ctx l) (i : Nat)
    (j : Nat) (st : St) (hij : i ≤ j) (hj : j ≤ ctx.len) (hst : MIG ctx i l st) :
    (Has ctx (.seq l) j ∧ ∃ st', matchAt ctx (.seq l) j st = (true, st') ∧ st'.panic = none ∧
      SuccG ctx (From i) l st') ∨
    (¬ Has ctx (.seq l) j ∧ ∃ st', matchAt ctx (.seq l) j st = (false, st') ∧ MIG ctx i l st') := by
  obtain ⟨hiff, hfail, hsucc⟩ := matchAtG env ctx T.inp l T.clean T.wf T.ne T.can (From i) j hj hij st hst.2
  have hp : (matchStart ctx j st).panic = none := by rw [matchStart_panic]; exact hst.1
  obtain ⟨hnd, hpn⟩ := T.quiet j (matchStart ctx j st) hj hp
  have hpan : (matchAt ctx (.seq l) j st).2.panic = none := by
    rw [matchAt_eq]
    cases hs : sem ctx (.seq l) j (matchStart ctx j st) with
    | nil st' => rw [hs] at hpn; exact hpn
    | cons n st' r => rw [hs] at hpn; exact hpn
    | diverge => exact absurd hs hnd
  cases hb : (matchAt ctx (.seq l) j st).1 with
  | true =>
    left
    exact ⟨hiff.1 hb, (matchAt ctx (.seq l) j st).2, by rw [← hb], hpan, hsucc hb⟩
  | false =>
    right
    refine ⟨fun hh => ?_, (matchAt ctx (.seq l) j st).2, by rw [← hb], hpan, hfail hb⟩
    rw [hiff.2 hh] at hb
    cases hb

theorem tryCands_specG {env : Env} {ctx : Ctx} {l : List Op} (T : TreeM env ctx l) (i : Nat) :
    ∀ (cands : List Nat) (st : St), (∀ j ∈ cands, i ≤ j ∧ j ≤ ctx.len) → MIG ctx i l st →
    (∃ pre j post stj st', cands = pre ++ j :: post ∧ (∀ k ∈ pre, ¬ Has ctx (.seq l) k) ∧ Has ctx (.seq l) j ∧
        tryCands ctx (.seq l) cands st = (true, st') ∧ st'.panic = none ∧
        matchAt ctx (.seq l) j stj = (true, st') ∧ SuccG ctx (From i) l st') ∨
    ((∀ k ∈ cands, ¬ Has ctx (.seq l) k) ∧ ∃ st', tryCands ctx (.seq l) cands st = (false, st') ∧ MIG ctx i l st') := by
  intro cands
  induction cands with
  | nil =>
    intro st _ hst
    right
    exact ⟨fun k hk => (by cases hk), st, rfl, hst⟩
  | cons j js ih =>
    intro st hb hst
    have hj := hb j List.mem_cons_self
    have hb' : ∀ k ∈ js, i ≤ k ∧ k ≤ ctx.len := fun k hk => hb k (List.mem_cons_of_mem _ hk)
    rcases matchAt_casesG T i j st hj.1 hj.2 hst with ⟨hm, st', he, hc, hs⟩ | ⟨hm, st1, he, hc⟩
    · left
      refine ⟨[], j, js, st, st', rfl, fun k hk => (by cases hk), hm, ?_, hc, he, hs⟩
      unfold tryCands
      rw [he]
    · have hp : ¬ st1.panic.isSome = true := by rw [hc.1]; simp
      have hstep : tryCands ctx (.seq l) (j :: js) st = tryCands ctx (.seq l) js st1 := tryCands_cons_false he hp
      rcases ih st1 hb' hc with ⟨pre, j', post, stj, st', hcs, hpre, hmj, ht, hcl, hma, hs⟩ | ⟨hall, st', ht, hcl⟩
      · left
        refine ⟨j :: pre, j', post, stj, st', by rw [hcs]; rfl, ?_, hmj, by rw [hstep]; exact ht, hcl, hma, hs⟩
        intro k hk
        rcases List.mem_cons.1 hk with rfl | hk
        · exact hm
        · exact hpre k hk
      · right
        refine ⟨?_, st', by rw [hstep]; exact ht, hcl⟩
        intro k hk
        rcases List.mem_cons.1 hk with rfl | hk
        · exact hm
        · exact hall k hk

theorem tryCands_outcomeG {env : Env} {ctx : Ctx} {l : List Op} (T : TreeM env ctx l) (i : Nat)
    (cands : List Nat) (hsort : cands.Pairwise (· < ·)) (hb : ∀ j ∈ cands, i ≤ j ∧ j ≤ ctx.len)
    (hcover : ∀ j, i ≤ j → j ≤ ctx.len → Has ctx (.seq l) j → j ∈ cands)
    (st : St) (hst : MIG ctx i l st) : OutcomeG ctx l i (tryCands ctx (.seq l) cands st) := by
  rcases tryCands_specG T i cands st hb hst with
    ⟨pre, j, post, stj, st', hcs, hpre, hmj, ht, hcl, hma, hs⟩ | ⟨hall, st', ht, hcl⟩
  · rw [ht]
    refine ⟨⟨hcl, .inl ⟨rfl, j, stj, ?_, ?_, hmj, ?_, hma⟩⟩, fun h => (by cases h), fun _ => hs⟩
    · exact (hb j (by rw [hcs]; simp)).1
    · exact (hb j (by rw [hcs]; simp)).2
    · intro k hik hkj hmk
      have hjl := (hb j (by rw [hcs]; simp)).2
      have hk := hcover k hik (by omega) hmk
      rw [hcs] at hk hsort
      rw [List.pairwise_append] at hsort
      obtain ⟨_, hs2, _⟩ := hsort
      rw [List.pairwise_cons] at hs2
      rcases List.mem_append.1 hk with hk | hk
      · exact hpre k hk hmk
      · rcases List.mem_cons.1 hk with rfl | hk
        · omega
        · have := hs2.1 k hk
          omega
  · rw [ht]
    refine ⟨⟨hcl.1, .inr ⟨rfl, ?_⟩⟩, fun _ => hcl.2, fun h => by cases h⟩
    intro j hij hjl hmj
    exact hall j (hcover j hij hjl hmj) hmj

theorem matchAt_outcomeG {env : Env} {ctx : Ctx} {l : List Op} (T : TreeM env ctx l) (i : Nat)
    (hi : i ≤ ctx.len) (honly : ∀ j, i ≤ j → j ≤ ctx.len → Has ctx (.seq l) j → j = i)
    (st : St) (hst : MIG ctx i l st) : OutcomeG ctx l i (matchAt ctx (.seq l) i st) := by
  rcases matchAt_casesG T i i st (Nat.le_refl _) hi hst with ⟨hm, st', he, hc, hs⟩ | ⟨hm, st', he, hc⟩
  · rw [he]
    exact ⟨⟨hc, .inl ⟨rfl, i, st, Nat.le_refl _, hi, hm, fun k h1 h2 => by omega, he⟩⟩, fun h => (by cases h),
      fun _ => hs⟩
  · rw [he]
    refine ⟨⟨hc.1, .inr ⟨rfl, fun j hij hjl hmj => ?_⟩⟩, fun _ => hc.2, fun h => by cases h⟩
    have := honly j hij hjl hmj
    subst this
    exact hm hmj

theorem pre_thenG {ctx : Ctx} {pr : Prog} {l : List Op} (hop : pr.op = .seq l) (F : SearchFacts ctx pr)
    (hP : ∀ q ∈ pr.pres, PreM ctx q)
    (i : Nat) (st : St) (hst : MIG ctx i l st) (k : St → Bool × St)
    (hk : ∀ st', MIG ctx i l st' → OutcomeG ctx l i (k st')) :
    OutcomeG ctx l i
      (match checkPre ctx i pr.pres st with
       | (false, st') => (false, st')
       | (true, st') => k st') := by
  have hcl := checkPre_clean i pr.pres st (fun q hq => (hP q hq).quiet) hst.1
  have hh := checkPre_hinv ctx (HRX_histOnly ctx _ l (From i)) i pr.pres st hP hst.2
  cases h : checkPre ctx i pr.pres st with
  | mk b st' =>
    rw [h] at hcl hh
    cases b with
    | true => exact hk st' ⟨hcl, hh⟩
    | false =>
      refine ⟨⟨hcl, .inr ⟨rfl, fun j hij hjl hmj => ?_⟩⟩, fun _ => hh, fun h => by cases h⟩
      obtain ⟨q, hq⟩ := hmj
      have hf := F.pres i j q hij hjl (by rw [hop]; exact hq)
      rcases checkPre_spec i pr.pres st (fun p hp => ⟨(hP p hp).comp, (hP p hp).quiet.quiet⟩)
          (fun p hp => (hf p hp).2) hst.1 with ⟨_, st2, he, _⟩ | ⟨hno, _⟩
      · rw [h] at he; cases he
      · exact hno (fun p hp => (hf p hp).1)

theorem bol_singleG {env : Env} {ctx : Ctx} {pr : Prog} {l : List Op} (hop : pr.op = .seq l)
    (T : TreeM env ctx l) (F : SearchFacts ctx pr) (hbol : pr.hasBol = true) (hml : ctx.multiLine = false)
    (hP : ∀ q ∈ pr.pres, PreM ctx q)
    (i : Nat) (hi : i ≤ ctx.len) (st : St) (hst : MIG ctx i l st) :
    OutcomeG ctx l i
      (if i != 0 then (false, st) else
        match checkPre ctx i pr.pres st with
        | (false, st') => (false, st')
        | (true, st') => matchAt ctx (.seq l) i st') := by
  have honly : ∀ j, Has ctx (.seq l) j → j = 0 := by
    rintro j ⟨q, hq⟩
    rcases F.bol hbol j q (by rw [hop]; exact hq) with h | h
    · exact h
    · rw [hml] at h; cases h.1
  by_cases h0 : i = 0
  · subst h0
    simp only [bne_self_eq_false, Bool.false_eq_true, if_false]
    exact pre_thenG hop F hP 0 st hst _ (fun st' hc =>
      matchAt_outcomeG T 0 hi (fun j _ _ hm => honly j hm) st' hc)
  · have hne : (i != 0) = true := by simp [h0]
    rw [if_pos hne]
    refine ⟨⟨hst.1, .inr ⟨rfl, fun j hij _ hmj => ?_⟩⟩, fun _ => hst.2, fun h => by cases h⟩
    have := honly j hmj
    omega

theorem bol_multiG {env : Env} {ctx : Ctx} {pr : Prog} {l : List Op} (hop : pr.op = .seq l)
    (T : TreeM env ctx l) (F : SearchFacts ctx pr) (hbol : pr.hasBol = true)
    (i : Nat) (hi : i ≤ ctx.len) (st : St) (hst : MIG ctx i l st) :
    OutcomeG ctx l i
      (tryCands ctx (.seq l)
        (i :: (((rangeFrom i ctx.len).filter (fun k => ctx.nlAt k)).map (· + 1) |>.filter
          (fun k => decide (k < ctx.len)))) st) := by
  apply tryCands_outcomeG T i _ _ _ _ st hst
  · rw [List.pairwise_cons]
    refine ⟨?_, ?_⟩
    · intro a ha
      simp only [List.mem_filter, List.mem_map, decide_eq_true_eq] at ha
      obtain ⟨⟨k, ⟨hk, _⟩, rfl⟩, _⟩ := ha
      have := mem_rangeFrom hk
      omega
    · apply List.Pairwise.filter
      apply List.Pairwise.map _ _ (List.Pairwise.filter _ (rangeFrom_pairwise i ctx.len))
      intro a b hab
      exact Nat.add_lt_add_right hab 1
  · intro j hj
    simp only [List.mem_cons, List.mem_filter, List.mem_map, decide_eq_true_eq] at hj
    rcases hj with rfl | ⟨⟨k, ⟨hk, _⟩, rfl⟩, hlt⟩
    · exact ⟨Nat.le_refl _, hi⟩
    · have := mem_rangeFrom hk
      omega
  · rintro j hij hjl ⟨q, hq⟩
    by_cases hji : j = i
    · subst hji; exact List.mem_cons_self
    · apply List.mem_cons_of_mem
      rcases F.bol hbol j q (by rw [hop]; exact hq) with h | ⟨_, hnl, hlt⟩
      · omega
      · simp only [List.mem_filter, List.mem_map, decide_eq_true_eq]
        refine ⟨⟨j - 1, ⟨?_, ?_⟩, by omega⟩, hlt⟩
        · rw [mem_rangeFrom_iff]
          omega
        · simp only [Ctx.nlAt, hnl, beq_self_eq_true]

theorem prefix_branchG {env : Env} {ctx : Ctx} {pr : Prog} {l : List Op} (hop : pr.op = .seq l)
    (T : TreeM env ctx l) (F : SearchFacts ctx pr) (cs : List Nat) (hpre : pr.prefix_ = some cs)
    (i : Nat) (st : St) (hst : MIG ctx i l st) :
    OutcomeG ctx l i
      (tryCands ctx (.seq l)
        ((rangeFrom i (ctx.len + 1 - cs.length)).filter
          (fun j => prefixMatch ctx cs (ctx.input.drop j))) st) := by
  apply tryCands_outcomeG T i _ _ _ _ st hst
  · exact List.Pairwise.filter _ (rangeFrom_pairwise _ _)
  · intro j hj
    simp only [List.mem_filter] at hj
    have := mem_rangeFrom hj.1
    omega
  · rintro j hij _ ⟨q, hq⟩
    obtain ⟨h1, h2⟩ := F.prefix_ cs hpre j q (by rw [hop]; exact hq)
    simp only [List.mem_filter]
    refine ⟨?_, h2⟩
    rw [mem_rangeFrom_iff]
    omega

theorem icc_branchG {env : Env} {ctx : Ctx} {pr : Prog} {l : List Op} (hop : pr.op = .seq l)
    (T : TreeM env ctx l) (F : SearchFacts ctx pr) (rs : Ranges) (hicc : pr.icc = some rs)
    (i : Nat) (st : St) (hst : MIG ctx i l st) :
    OutcomeG ctx l i
      (tryCands ctx (.seq l)
        ((rangeFrom i ctx.len).filter (fun j =>
          match ctx.input[j]? with | some c => clsContains rs c | none => false)) st) := by
  apply tryCands_outcomeG T i _ _ _ _ st hst
  · exact List.Pairwise.filter _ (rangeFrom_pairwise _ _)
  · intro j hj
    simp only [List.mem_filter] at hj
    have := mem_rangeFrom hj.1
    omega
  · rintro j hij _ ⟨q, hq⟩
    obtain ⟨c, h1, h2⟩ := F.icc rs hicc j q (by rw [hop]; exact hq)
    simp only [List.mem_filter]
    refine ⟨?_, by rw [h1]; exact h2⟩
    rw [mem_rangeFrom_iff]
    obtain ⟨hlt, _⟩ := List.getElem?_eq_some_iff.1 h1
    exact ⟨hij, hlt⟩

theorem naive_branchG {env : Env} {ctx : Ctx} {l : List Op} (T : TreeM env ctx l)
    (i : Nat) (st : St) (hst : MIG ctx i l st) :
    OutcomeG ctx l i (tryCands ctx (.seq l) (rangeFrom i (ctx.len + 1)) st) := by
  apply tryCands_outcomeG T i _ _ _ _ st hst
  · exact rangeFrom_pairwise _ _
  · intro j hj
    have := mem_rangeFrom hj
    omega
  · intro j hij hjl _
    rw [mem_rangeFrom_iff]
    omega

/-- THE SEARCH LOOP under the relative invariant: `matches(i)` with all five shortcuts, from a state whose
    panic marker is clear and whose memo entries REACHABLE FROM A START `≥ i` are dead -/
theorem matchesFrom_outcomeG {env : Env} {ctx : Ctx} {pr : Prog} {l : List Op} (hop : pr.op = .seq l)
    (T : TreeM env ctx l) (F : SearchFacts ctx pr) (hlen : ctx.len < usizeMax)
    (hP : ∀ q ∈ pr.pres, PreM ctx q)
    (i : Nat) (hi : i ≤ ctx.len) (st0 : St) (hst0 : MIG ctx i l st0) :
    OutcomeG ctx l i (matchesFrom ctx pr i st0) := by
  unfold matchesFrom
  simp only
  rw [hop]
  have hst : MIG ctx i l ({ st0 with cap := {} } : St) := ⟨hst0.1, HRX_histOnly ctx _ l _ st0 _ rfl hst0.2⟩
  generalize ({ st0 with cap := {} } : St) = st at hst
  by_cases hbol : pr.hasBol = true
  · rw [if_pos hbol]
    cases hml : ctx.multiLine with
    | false =>
      simp only [Bool.not_false, if_true]
      exact bol_singleG hop T F hbol hml hP i hi st hst
    | true =>
      simp only [Bool.not_true, Bool.false_eq_true, if_false]
      exact bol_multiG hop T F hbol i hi st hst
  · rw [if_neg hbol]
    rw [if_neg (by omega : ¬ i > ctx.len)]
    by_cases hcut : ctx.len - i < pr.minLen
    · rw [if_pos hcut]
      refine ⟨⟨hst.1, .inr ⟨rfl, ?_⟩⟩, fun _ => hst.2, fun h => by cases h⟩
      rintro j hij hjl ⟨q, hq⟩
      have h1 := F.minLen j q (by rw [hop]; exact hq)
      have h2 := (C01.OpR_bounds ctx (.seq l) j q hjl hq).2
      omega
    · rw [if_neg hcut]
      cases hpre : pr.prefix_ with
      | some cs =>
        simp only
        have hcs : ¬ cs.length > ctx.len + 1 := by
          rcases F.prefixLen cs hpre with h | h <;> omega
        rw [if_neg hcs]
        exact prefix_branchG hop T F cs hpre i st hst
      | none =>
        simp only
        cases hicc : pr.icc with
        | some rs =>
          simp only
          exact icc_branchG hop T F rs hicc i st hst
        | none =>
          simp only
          exact pre_thenG hop F hP i st hst _ (fun st' hc => naive_branchG T i st' hc)

/-! ## after a success: the invariant for the continuation position -/

/-- for a sequence with no zero-length match, the path entries left by a success ending at `n` are not
    reachable from a start `≥ n` -/
theorem path_to_from (ctx : Ctx) (n : Nat) (hn : n ≤ ctx.len) (st : St) : ∀ (R : List Op) (A A' : Nat → Prop) (N : Prop),
    (∀ q, A' q → A q ∧ n ≤ q ∧ (q = n → N)) → (N → ¬ OpRSeq ctx R n n) →
    HRX ctx (Path ctx n) A R st → HRG ctx A' R st
  | [], _, _, _, _, _, _ => trivial
  | o :: os, A, A', N, hA, hN, h => by
    refine ⟨fun id hid p hp hA' hm => ?_, path_to_from ctx n hn st os _ _ (N ∧ OpR ctx o n n) ?_ ?_ h.2⟩
    · obtain ⟨a1, a2, a3⟩ := hA p hA'
      rcases h.1 id hid p hp a1 hm with h1 | ⟨h1, h2⟩
      · exact .inl h1
      · exfalso
        have hpn : p = n := by omega
        subst hpn
        refine hN (a3 rfl) ?_
        simp only [OpRSeq]
        refine ⟨p, ?_, h2 rfl⟩
        cases o with
        | rep id' c mn mx g =>
          simp only [rep0Id] at hid
          split at hid
          · rename_i hc
            simp only [Bool.and_eq_true, beq_iff_eq] at hc
            obtain ⟨rfl, rfl⟩ := hc
            exact rep0_self ctx id' c mx p
          · cases hid
        | _ => simp [rep0Id] at hid
    · rintro m ⟨q, hq, hA'q, hr⟩
      obtain ⟨a1, a2, a3⟩ := hA q hA'q
      have b := OpR_bounds_op ctx o q m hq hr
      refine ⟨⟨q, hq, a1, hr⟩, by omega, fun he => ?_⟩
      have hqn : q = n := by omega
      subst hqn
      subst he
      exact ⟨a3 rfl, hr⟩
    · rintro ⟨hN', hr⟩ hos
      refine hN hN' ?_
      simp only [OpRSeq]
      exact ⟨n, hr, hos⟩

end Rx.MemoScan
