/-
  Proofs/WorldLemmas — helper lemmas for Props/C18 (history independence of `World.run`).
-/
import RxModel.Model.World
namespace Rx

/-- a step never changes the compiled objects -/
theorem World.step_objs (lower : Nat → Nat) (w : World) (op : HOp) :
    (w.step lower op).1.objs = w.objs := by
  cases op <;> simp only [World.step] <;> (repeat' split) <;> rfl

/-- folding steps never changes the compiled objects -/
theorem World.foldl_step_objs (lower : Nat → Nat) (mid : List HOp) (w : World) :
    (mid.foldl (fun w' op => (w'.step lower op).1) w).objs = w.objs := by
  induction mid generalizing w with
  | nil => rfl
  | cons op mid ih => rw [List.foldl_cons, ih, World.step_objs]

/-- a step leaves every iterator it does not name untouched -/
theorem World.step_its_other (lower : Nat → Nat) (w : World) (op : HOp) (i : Nat)
    (hi : match op with
          | .openTok _ j _ => i ≠ j | .openAna _ j _ => i ≠ j | .next j => i ≠ j | .drop j => i ≠ j
          | _ => True) :
    (w.step lower op).1.its i = w.its i := by
  cases op <;> simp only [World.step] <;> (repeat' split) <;>
    first
      | rfl
      | (simp only [World.setIt]; exact if_neg hi)

/-- the world `w` is exactly what the (most-recent-first) history `past` says it must be -/
def Agree (lower : Nat → Nat) (objs : Nat → Option Regex) (w : World) (past : List HOp) : Prop :=
  w.objs = objs ∧ ∀ j, w.its j = freshIter lower objs j past

theorem agree_init (lower : Nat → Nat) (objs : Nat → Option Regex) :
    Agree lower objs { objs := objs, its := fun _ => none } [] :=
  ⟨rfl, fun _ => rfl⟩

/-- the answer of a step is the specified answer -/
theorem step_answer (lower : Nat → Nat) (objs : Nat → Option Regex) (w : World) (past : List HOp)
    (h : Agree lower objs w past) (op : HOp) :
    (w.step lower op).2 = specAnswer lower objs past op := by
  obtain ⟨ho, hit⟩ := h
  subst ho
  cases op with
  | isMatch k input => simp only [World.step, specAnswer]; split <;> rfl
  | replace k input repl => simp only [World.step, specAnswer]; split <;> rfl
  | openTok k j input =>
    simp only [World.step, specAnswer]
    split
    · rfl
    · split <;> rfl
  | openAna k j input =>
    simp only [World.step, specAnswer]
    split
    · rfl
    · split <;> rfl
  | next j =>
    simp only [World.step, specAnswer]
    rw [← hit j]
    split <;> rfl
  | drop j => rfl

/-- a step keeps the world in agreement with the extended history -/
theorem step_agree (lower : Nat → Nat) (objs : Nat → Option Regex) (w : World) (past : List HOp)
    (h : Agree lower objs w past) (op : HOp) :
    Agree lower objs (w.step lower op).1 (op :: past) := by
  refine ⟨(World.step_objs lower w op).trans h.1, ?_⟩
  obtain ⟨ho, hit⟩ := h
  subst ho
  intro i
  cases op with
  | isMatch k input => simp only [World.step, freshIter]; split <;> exact hit i
  | replace k input repl => simp only [World.step, freshIter]; split <;> exact hit i
  | openTok k j input =>
    simp only [World.step, freshIter]
    cases hk : w.objs k with
    | none => simp only [ite_self]; exact hit i
    | some r =>
      simp only
      cases ho : Iter.openTok r input with
      | error e => simp only [ite_self]; exact hit i
      | ok it =>
        simp only [World.setIt]
        by_cases hij : i = j
        · subst hij; simp only [if_true]
        · rw [if_neg hij, if_neg (Ne.symm hij)]; exact hit i
  | openAna k j input =>
    simp only [World.step, freshIter]
    cases hk : w.objs k with
    | none => simp only [ite_self]; exact hit i
    | some r =>
      simp only
      cases ho : Iter.openAna r input with
      | error e => simp only [ite_self]; exact hit i
      | ok it =>
        simp only [World.setIt]
        by_cases hij : i = j
        · subst hij; simp only [if_true]
        · rw [if_neg hij, if_neg (Ne.symm hij)]; exact hit i
  | next j =>
    simp only [World.step, freshIter]
    by_cases hij : i = j
    · subst hij
      simp only [if_true]
      rw [← hit i]
      cases hw : w.its i with
      | none => simp only [Option.map_none]; exact hw
      | some it => simp only [World.setIt, if_true, Option.map_some]
    · rw [if_neg (Ne.symm hij)]
      cases hw : w.its j with
      | none => exact hit i
      | some it => simp only [World.setIt, if_neg hij]; exact hit i
  | drop j =>
    simp only [World.step, freshIter, World.setIt]
    by_cases hij : i = j
    · subst hij; simp only [if_true]
    · rw [if_neg hij, if_neg (Ne.symm hij)]; exact hit i

/-- generalised history independence -/
theorem run_eq_specRun (lower : Nat → Nat) (objs : Nat → Option Regex) (ops : List HOp)
    (w : World) (past : List HOp) (h : Agree lower objs w past) :
    World.run lower w ops = specRun lower objs past ops := by
  induction ops generalizing w past with
  | nil => rfl
  | cons op ops ih =>
    simp only [World.run, specRun]
    rw [step_answer lower objs w past h op, ih _ _ (step_agree lower objs w past h op)]

end Rx
