/-
  Proofs/CleanSearchLemmas — helper lemmas for Props/CleanComplete: the hypotheses of the
  search-loop theorems (Props/SearchComplete) hold on the clean fragment (Spec/Enum, Props/Clean).

    * `cleanOp_numberReps`   numbering the repeat nodes keeps a tree in the fragment
    * `completeAt_clean`     the engine test is complete on clean well-formed trees
    * `completeAt_repLeaf`   … and on the one precondition shape that leaves the fragment:
                             `add_precondition` records `x{n}` (n ≥ 2, `x` a literal or a class) as a
                             GENERAL greedy repeat `rep 0 x n n true`
    * `pres_completeAt`      hence on every precondition tree of a program built from a clean tree
    * `Outcome.span_clean`   on the fragment the end recorded by a successful search is
                             `(enum ctx op j).head?` for the leftmost start `j`
-/
import RxModel.Props.Clean
import RxModel.Proofs.SearchLemmas
import RxModel.Props.WF
namespace Rx.SearchComplete
open Rx

/-! ## numbering keeps the fragment -/

mutual
theorem cleanOp_numberReps : (op : Op) → ∀ n, cleanOp (numberReps op n).1 = cleanOp op
  | .bol, n | .eol, n | .nothing, n | .endProgram, n => by simp only [numberReps]
  | .atom _, n | .cls _, n | .backref _, n => by simp only [numberReps]
  | .capture g c, n => by simp only [numberReps, cleanOp]; exact cleanOp_numberReps c n
  | .choice bs, n => by simp only [numberReps, cleanOp]; exact cleanOps_numberRepsL bs n
  | .seq ops, n => by simp only [numberReps, cleanOp]; exact cleanOps_numberRepsL ops n
  | .rep id c mn mx g, n => by simp only [numberReps, cleanOp]
  | .gfixed c mn mx len, n => by simp only [numberReps, cleanOp]; exact cleanOp_numberReps c n
  | .rfixed c mn mx len, n => by simp only [numberReps, cleanOp]; exact cleanOp_numberReps c n
  | .unamb c mn mx, n => by simp only [numberReps, cleanOp]
termination_by structural op => op
theorem cleanOps_numberRepsL : (l : List Op) → ∀ n, cleanOps (numberRepsL l n).1 = cleanOps l
  | [], n => by simp only [numberRepsL]
  | o :: os, n => by
    simp only [numberRepsL, cleanOps]
    rw [cleanOp_numberReps o n, cleanOps_numberRepsL os]
termination_by structural l => l
end

/-! ## the engine test is complete on the fragment -/

/-- from `Clean.first1_enum` + `Clean.enum_iff_OpR` (for EVERY state, not only clean ones) -/
theorem completeAt_clean (ctx : Ctx) (op : Op) (hc : cleanOp op = true) (hwf : wfOp op = true) :
    CompleteAt ctx op := by
  intro j st hj _
  have h1 := Clean.first1_enum ctx op hc hwf j hj st
  have h2 : (first1 (sem ctx op j st)).1.isSome = (enum ctx op j).head?.isSome := by
    rw [← h1]; cases (first1 (sem ctx op j st)).1 <;> rfl
  rw [h2]
  cases hl : enum ctx op j with
  | nil =>
    simp only [List.head?_nil, Option.isSome_none, Bool.false_eq_true, false_iff]
    rintro ⟨q, hq⟩
    have := (Clean.enum_iff_OpR ctx op hc hwf j q hj).2 hq
    rw [hl] at this
    cases this
  | cons n l =>
    simp only [List.head?_cons, Option.isSome_some, true_iff]
    exact ⟨n, (Clean.enum_iff_OpR ctx op hc hwf j n hj).1 (by rw [hl]; exact List.mem_cons_self)⟩

/-- the side condition `Quiet` on the fragment -/
theorem quiet_clean (ctx : Ctx) (hb : ctx.hasBackrefs = false) (op : Op) (hc : cleanOp op = true)
    (hwf : wfOp op = true) : Quiet ctx op :=
  quiet_of_wf ctx hb op (Clean.clean_noBackref op hc) hwf (Clean.clean_smallMin _ op hc)

/-! ## `x{n}` recorded as a general greedy repeat over a single character -/

/-- a literal or a class yields its unique end, from every state -/
theorem leaf_once (ctx : Ctx) (c : Op) (hac : isAtomOrClass c = true) (n m : Nat) (st : St)
    (h : OpR ctx c n m) : sem ctx c n st = .once m st := by
  cases c with
  | atom cs =>
    simp only [OpR] at h
    obtain ⟨rfl, h2, h3⟩ := h
    simp only [sem, atomGen]
    rw [if_neg (by omega), if_pos h3]
  | cls rs =>
    simp only [OpR] at h
    obtain ⟨rfl, ch, h2, h3⟩ := h
    simp only [sem, clsGen, h2, h3, if_true]
  | _ => simp [isAtomOrClass] at hac

/-- the primed (leftmost) path of the greedy repeat over a single character reaches every
    iteration count the language allows -/
theorem greedyNode_yields (ctx : Ctx) (c : Op) (hac : isAtomOrClass c = true) (mn B : Nat) :
    ∀ (f L k n q : Nat) (st : St), k ≤ f → IterR (fun a b => OpR ctx c a b) k n q → mn ≤ L + k →
      ∃ m st' r, greedyNode (sem ctx c) mn B f L (some k) n st = .cons m st' r := by
  intro f
  induction f with
  | zero =>
    intro L k n q st hk _ hL
    have : k = 0 := by omega
    subst this
    unfold greedyNode
    rw [if_pos (by omega)]
    exact ⟨_, _, _, rfl⟩
  | succ f ih =>
    intro L k n q st hk hi hL
    cases k with
    | zero =>
      unfold greedyNode
      simp only [Nat.lt_irrefl, gt_iff_lt, decide_false, Bool.false_eq_true, if_false, Step.append]
      rw [if_pos (by omega)]
      exact ⟨_, _, _, rfl⟩
    | succ k =>
      obtain ⟨n1, h1, h2⟩ := IterR.uncons hi
      obtain ⟨m, st', r, hm⟩ := ih (L + 1) k n1 q st (by omega) h2 (by omega)
      unfold greedyNode
      simp only [gt_iff_lt, Nat.zero_lt_succ, decide_true, if_true, leaf_once ctx c hac n n1 st h1,
        Step.once, Step.bindFR, Option.map_some, Nat.add_sub_cancel, hm, Step.append]
      exact ⟨_, _, _, rfl⟩

theorem leaf_adv (ctx : Ctx) (c : Op) (hac : isAtomOrClass c = true) (hne : C08.noEmptyAtoms c = true)
    (a b : Nat) (h : OpR ctx c a b) : a + 1 ≤ b :=
  PreL.atomcls_nonempty ctx c hac hne a b h

/-- `x{n}` as a greedy repeat: the iterator yields whenever `n` consecutive `x` are there -/
theorem repGreedy_leaf_yields (ctx : Ctx) (id : Nat) (c : Op) (hac : isAtomOrClass c = true)
    (hne : C08.noEmptyAtoms c = true) (mn : Nat) (hmn : 1 ≤ mn) (p q : Nat) (hp : p ≤ ctx.len) (st : St)
    (hi : IterR (fun a b => OpR ctx c a b) mn p q) :
    ∃ m st' r, repGreedyGen ctx id (sem ctx c) mn mn p st = .cons m st' r := by
  have h1 := OptL.IterR_minlen (d := 1) (leaf_adv ctx c hac hne) hi
  have h2 := (IterR.bounds (L := ctx.len) (fun a b ha hab => OpR_bounds_op ctx c a b ha hab) hi hp).2
  obtain ⟨k, rfl⟩ : ∃ k, mn = k + 1 := ⟨mn - 1, by omega⟩
  obtain ⟨n1, hn1, hrest⟩ := IterR.uncons hi
  have hb : Nat.min (k + 1) (ctx.len + 1 - p) = k + 1 := Nat.min_eq_left (by omega)
  obtain ⟨m, st', r, hm⟩ := greedyNode_yields ctx c hac (k + 1) (k + 1) (ctx.len + 3) 1 k n1 q st
    (by omega) hrest (by omega)
  unfold repGreedyGen
  simp only [hb, Nat.add_one_ne_zero, beq_iff_eq, if_false, leaf_once ctx c hac p n1 st hn1,
    Step.once, Step.bindFR, Nat.add_sub_cancel, hm, Step.append, Step.force]
  exact ⟨_, _, _, rfl⟩

/-- the engine test is complete on `rep id x n n true`, `x` a non-empty literal or a class, `n ≥ 1` -/
theorem completeAt_repLeaf (ctx : Ctx) (id : Nat) (c : Op) (hac : isAtomOrClass c = true)
    (hne : C08.noEmptyAtoms c = true) (mn : Nat) (hmn : 1 ≤ mn) :
    CompleteAt ctx (.rep id c mn mn true) := by
  intro j st hj _
  have hwc : wfOp c = true := by cases c <;> first | rfl | (simp [isAtomOrClass] at hac)
  have hwf : wfOp (.rep id c mn mn true) = true := by
    simp only [wfOp, hwc, Nat.le_refl, decide_true, Bool.and_self, Bool.true_and, decide_eq_true_eq]
    omega
  constructor
  · intro h
    have hs := C01.sem_sound ctx _ hwf j hj st
    cases hsem : sem ctx (.rep id c mn mn true) j st with
    | nil st' => rw [hsem] at h; simp [first1] at h
    | cons n st' r => rw [hsem] at hs; exact ⟨n, hs.head'⟩
    | diverge => rw [hsem] at h; simp [first1] at h
  · rintro ⟨q, hq⟩
    simp only [OpR] at hq
    obtain ⟨k, hk1, hk2, hi⟩ := hq
    have : k = mn := by omega
    subst this
    obtain ⟨m, st', r, hm⟩ := repGreedy_leaf_yields ctx id c hac hne k hmn j q hj st hi
    simp only [sem, if_true, hm, first1, Option.isSome_some]

/-! ## the precondition trees of a clean program -/

/-- the shapes `add_precondition` records for a clean well-formed tree: a clean well-formed tree
    (literal, class, `x{1,m}` as it stands), or `x{n}` as a general greedy repeat over a single
    non-empty literal / class -/
def preShape (o : Op) : Bool :=
  (cleanOp o && wfOp o) ||
  (match o with
   | .rep _ c mn mx g => g && isAtomOrClass c && C08.noEmptyAtoms c && (mn == mx) && decide (1 ≤ mn)
   | _ => false)

theorem preShape_completeAt (ctx : Ctx) (o : Op) (h : preShape o = true) : CompleteAt ctx o := by
  unfold preShape at h
  rcases Bool.or_eq_true_iff.1 h with h | h
  · simp only [Bool.and_eq_true] at h
    exact completeAt_clean ctx o h.1 h.2
  · cases o with
    | rep id c mn mx g =>
      simp only [Bool.and_eq_true, beq_iff_eq, decide_eq_true_eq] at h
      obtain ⟨⟨⟨⟨rfl, hac⟩, hne⟩, rfl⟩, hmn⟩ := h
      exact completeAt_repLeaf ctx id c hac hne mn hmn
    | _ => simp at h

theorem preShape_numberReps (o : Op) (n : Nat) (h : preShape o = true) :
    preShape (numberReps o n).1 = true := by
  unfold preShape at h ⊢
  rcases Bool.or_eq_true_iff.1 h with h | h
  · rw [cleanOp_numberReps, WF.wfOp_numberReps, h]; rfl
  · cases o with
    | rep id c mn mx g =>
      simp only [Bool.and_eq_true] at h
      have hac := h.1.1.1.2
      simp only [numberReps, ApiL.numberReps_leaf c hac]
      exact Bool.or_eq_true_iff.2 (.inr (by simpa only [Bool.and_eq_true] using h))
    | _ => simp at h

/-- the common shape of the two repeat forms of the fragment in `add_precondition` -/
theorem preShape_rep_case (ml : Bool) (c self : Op) (mn : Nat) (fp : Option Nat) (mp : Nat)
    (hne : C08.noEmptyAtoms c = true) (hself : preShape self = true)
    (ih : ∀ q ∈ addPre ml c fp mp, preShape q.op = true) (q : Pre)
    (hq : q ∈ (if mn ≥ 1 then
        (if isAtomOrClass c then
          (if mn == 1 then [({ op := self, fixed := fp, minPos := mp } : Pre)]
           else [{ op := .rep 0 c mn mn true, fixed := fp, minPos := mp }])
         else addPre ml c fp mp)
      else [])) : preShape q.op = true := by
  split at hq
  · rename_i h1
    split at hq
    · rename_i hac
      split at hq
      · simp only [List.mem_singleton] at hq; subst hq; exact hself
      · simp only [List.mem_singleton] at hq; subst hq
        have h1' : 1 ≤ mn := h1
        simp only [preShape, cleanOp, Bool.false_and, Bool.false_or, hac, hne, beq_self_eq_true,
          h1', decide_true, Bool.and_self]
    · exact ih q hq
  · cases hq

mutual
theorem addPre_preShape (ml : Bool) : (o : Op) → cleanOp o = true → wfOp o = true →
    C08.noEmptyAtoms o = true → ∀ fp mp, ∀ q ∈ addPre ml o fp mp, preShape q.op = true
  | .bol, _, _, _, fp, mp, q, hq => by simp only [addPre] at hq; cases hq
  | .eol, _, _, _, fp, mp, q, hq => by simp only [addPre] at hq; cases hq
  | .nothing, _, _, _, fp, mp, q, hq => by simp only [addPre] at hq; cases hq
  | .endProgram, _, _, _, fp, mp, q, hq => by simp only [addPre] at hq; cases hq
  | .backref g, _, _, _, fp, mp, q, hq => by simp only [addPre] at hq; cases hq
  | .choice bs, _, _, _, fp, mp, q, hq => by simp only [addPre] at hq; cases hq
  | .atom cs, _, _, _, fp, mp, q, hq => by
    simp only [addPre, List.mem_singleton] at hq; subst hq; rfl
  | .cls rs, _, _, _, fp, mp, q, hq => by
    simp only [addPre, List.mem_singleton] at hq; subst hq; rfl
  | .capture g c, hc, hwf, hne, fp, mp, q, hq => by
    simp only [cleanOp] at hc
    simp only [wfOp] at hwf
    simp only [C08.noEmptyAtoms] at hne
    simp only [addPre] at hq
    exact addPre_preShape ml c hc hwf hne fp mp q hq
  | .seq ops, hc, hwf, hne, fp, mp, q, hq => by
    simp only [cleanOp] at hc
    simp only [wfOp, Bool.and_eq_true] at hwf
    simp only [C08.noEmptyAtoms] at hne
    simp only [addPre] at hq
    exact addPreSeq_preShape ml ops hc hwf.2 hne fp mp q hq
  | .rep id c mn mx g, hc, _, _, fp, mp, q, hq => by simp [cleanOp] at hc
  | .unamb c mn mx, hc, _, _, fp, mp, q, hq => by simp [cleanOp] at hc
  | .gfixed c mn mx len, hc, hwf, hne, fp, mp, q, hq => by
    have hself : preShape (.gfixed c mn mx len) = true := by
      unfold preShape; rw [hc, hwf]; rfl
    simp only [cleanOp] at hc
    have hwc : wfOp c = true := by simp only [wfOp, Bool.and_eq_true] at hwf; exact hwf.1.1.1.1.1
    simp only [C08.noEmptyAtoms] at hne
    simp only [addPre] at hq
    exact preShape_rep_case ml c _ mn fp mp hne hself (addPre_preShape ml c hc hwc hne fp mp) q hq
  | .rfixed c mn mx len, hc, hwf, hne, fp, mp, q, hq => by
    have hself : preShape (.rfixed c mn mx len) = true := by
      unfold preShape; rw [hc, hwf]; rfl
    simp only [cleanOp] at hc
    have hwc : wfOp c = true := by simp only [wfOp, Bool.and_eq_true] at hwf; exact hwf.1.1.1.1.1
    simp only [C08.noEmptyAtoms] at hne
    simp only [addPre] at hq
    exact preShape_rep_case ml c _ mn fp mp hne hself (addPre_preShape ml c hc hwc hne fp mp) q hq
termination_by structural o => o
theorem addPreSeq_preShape (ml : Bool) : (ops : List Op) → cleanOps ops = true → wfOps ops = true →
    C08.noEmptyAtomsL ops = true → ∀ fp mp, ∀ q ∈ addPreSeq ml ops fp mp, preShape q.op = true
  | [], _, _, _, fp, mp, q, hq => by simp only [addPreSeq] at hq; cases hq
  | o :: os, hc, hwf, hne, fp, mp, q, hq => by
    simp only [cleanOps, Bool.and_eq_true] at hc
    simp only [wfOps, Bool.and_eq_true] at hwf
    simp only [C08.noEmptyAtomsL, Bool.and_eq_true] at hne
    simp only [addPreSeq, List.mem_append] at hq
    rcases hq with hq | hq
    · exact addPre_preShape ml o hc.1 hwf.1 hne.1 _ mp q hq
    · exact addPreSeq_preShape ml os hc.2 hwf.2 hne.2 _ _ q hq
termination_by structural ops => ops
end

/-- every precondition tree of a program built from a clean tree has one of the two shapes -/
theorem mkProgram_pres_preShape (pat : List Nat) (op : Op) (mp : Nat) (fl : CFlags) (hb : Bool)
    (hc : cleanOp op = true) (hwf : wfOp op = true) (hne : C08.noEmptyAtoms op = true) :
    ∀ q ∈ (mkProgram pat op mp fl hb).pres, preShape q.op = true := by
  obtain ⟨_, _, _, _, _, _, _, _, _, hpres⟩ := mkProgram_shape pat op mp fl hb
  intro q hq
  rcases hpres with he | ⟨n, he⟩
  · rw [he] at hq; cases hq
  · rw [he] at hq
    obtain ⟨p, hp, b, rfl⟩ := mem_numberPres _ _ _ hq
    apply preShape_numberReps
    exact addPre_preShape fl.multiLine _ (by rw [cleanOp_numberReps]; exact hc)
      (by rw [WF.wfOp_numberReps]; exact hwf) (by rw [ApiL.noEmptyAtoms_numberReps]; exact hne)
      none 0 p hp

/-- … hence the engine test is complete on it -/
theorem pres_completeAt' (pat : List Nat) (op : Op) (mp : Nat) (fl : CFlags) (hb : Bool) (ctx : Ctx)
    (hc : cleanOp op = true) (hwf : wfOp op = true) (hne : C08.noEmptyAtoms op = true) :
    ∀ q ∈ (mkProgram pat op mp fl hb).pres, CompleteAt ctx q.op :=
  fun q hq => preShape_completeAt ctx q.op (mkProgram_pres_preShape pat op mp fl hb hc hwf hne q hq)

/-! ## outcomes on the fragment: the end is determined, too -/

/-- a successful search on a clean tree: group 0 is `(j, n)`, `j` the LEAST start `≥ i` with a
    match, `n` the FIRST end of the priority order from `j` -/
theorem Outcome.span_clean {ctx : Ctx} {o : Op} (hc : cleanOp o = true) (hwf : wfOp o = true)
    (hcp : C02.capsPos o = true) {i : Nat} {r : Bool × St} (h : Outcome ctx o i r) (ht : r.1 = true) :
    ∃ j n, getParenStart r.2 0 = some j ∧ getParenEnd r.2 0 = some n ∧
      (enum ctx o j).head? = some n ∧ i ≤ j ∧ j ≤ n ∧ n ≤ ctx.len ∧ OpR ctx o j n ∧
      ∀ k q, i ≤ k → k < j → ¬ OpR ctx o k q := by
  rcases h.2 with ⟨_, j, stj, h1, h2, _, hmin, hma⟩ | ⟨hf, _⟩
  · obtain ⟨b, st'⟩ := r
    simp only at ht
    subst ht
    obtain ⟨hs, n, he, hjn, hnl, hopr⟩ := C02.matchAt_span ctx o hwf hcp j h2 stj st' hma
    have hend := Clean.matchAt_end ctx o hc hwf j h2 stj (by rw [hma])
    rw [hma] at hend
    simp only at hend
    exact ⟨j, n, hs, he, by rw [← hend, he], h1, hjn, hnl, hopr,
      fun k q hik hkj hq => hmin k hik hkj ⟨q, hq⟩⟩
  · rw [hf] at ht; cases ht

/-- two searches with the right outcome on a clean tree agree on EVERYTHING they report:
    the Boolean and, on success, the start and the end of group 0 -/
theorem Outcome.agree_clean {ctx : Ctx} {o : Op} (hc : cleanOp o = true) (hwf : wfOp o = true)
    (hcp : C02.capsPos o = true) {i : Nat} {r1 r2 : Bool × St}
    (h1 : Outcome ctx o i r1) (h2 : Outcome ctx o i r2) :
    r1.1 = r2.1 ∧ (r1.1 = true →
      getParenStart r1.2 0 = getParenStart r2.2 0 ∧ getParenEnd r1.2 0 = getParenEnd r2.2 0) := by
  have hb : r1.1 = r2.1 := by
    rw [Bool.eq_iff_iff]
    exact h1.iff.trans h2.iff.symm
  refine ⟨hb, fun ht => ?_⟩
  obtain ⟨j1, n1, hs1, he1, hh1, a1, _, _, hm1, hl1⟩ := h1.span_clean hc hwf hcp ht
  obtain ⟨j2, n2, hs2, he2, hh2, a2, _, _, hm2, hl2⟩ := h2.span_clean hc hwf hcp (hb ▸ ht)
  have : j1 = j2 := by
    rcases Nat.lt_trichotomy j1 j2 with h | h | h
    · exact absurd hm1 (hl2 j1 n1 a1 h)
    · exact h
    · exact absurd hm2 (hl1 j2 n2 a2 h)
  subst this
  rw [hh1] at hh2
  simp only [Option.some.injEq] at hh2
  subst hh2
  exact ⟨by rw [hs1, hs2], by rw [he1, he2]⟩

/-! ## the program built from a clean tree -/

/-- what the program inherits from the tree handed to `ReProgram::new` -/
theorem clean_prog (pat : List Nat) (op : Op) (mp : Nat) (fl : CFlags) (hb : Bool)
    (hc : cleanOp op = true) (hwf : wfOp op = true) :
    cleanOp (mkProgram pat op mp fl hb).op = true ∧ wfOp (mkProgram pat op mp fl hb).op = true ∧
    (C02.capsPos op = true → C02.capsPos (mkProgram pat op mp fl hb).op = true) := by
  obtain ⟨hop, _⟩ := WF.mkProgram_op pat op mp fl hb
  rw [hop, cleanOp_numberReps, WF.wfOp_numberReps, WF.capsPos_numberReps]
  exact ⟨hc, hwf, id⟩

/-- the search on a program built from a clean well-formed tree without empty literal returns the
    right outcome — no hypothesis about the engine left -/
theorem clean_outcome (pat : List Nat) (op : Op) (mp : Nat) (fl : CFlags)
    (lower : Nat → Nat) (input : List Nat)
    (hc : cleanOp op = true) (hwf : wfOp op = true) (hne : C08.noEmptyAtoms op = true)
    (hlen : input.length < usizeMax)
    (i : Nat) (hi : i ≤ input.length) (st : St) (hst : st.panic = none) :
    Outcome ((mkProgram pat op mp fl false).ctx lower input) (mkProgram pat op mp fl false).op i
      (matchesFrom ((mkProgram pat op mp fl false).ctx lower input) (mkProgram pat op mp fl false) i st) := by
  obtain ⟨hc', hw', _⟩ := clean_prog pat op mp fl false hc hwf
  exact mkProgram_outcome pat op mp fl lower input hwf (Clean.clean_noBackref op hc) hne
    (Clean.clean_smallMin _ op hc) hlen (completeAt_clean _ _ hc' hw')
    (pres_completeAt' pat op mp fl false _ hc hwf hne) i hi st hst

/-- … and so does the search with every shortcut off -/
theorem clean_naive_outcome (pat : List Nat) (op : Op) (mp : Nat) (fl : CFlags)
    (lower : Nat → Nat) (input : List Nat)
    (hc : cleanOp op = true) (hwf : wfOp op = true)
    (i : Nat) (st : St) (hst : st.panic = none) :
    Outcome ((mkProgram pat op mp fl false).ctx lower input) (mkProgram pat op mp fl false).op i
      (matchesNaive ((mkProgram pat op mp fl false).ctx lower input) (mkProgram pat op mp fl false).op i st) := by
  obtain ⟨hc', hw', _⟩ := clean_prog pat op mp fl false hc hwf
  obtain ⟨_, hbr⟩ := WF.mkProgram_op pat op mp fl false
  exact matchesNaive_outcome (completeAt_clean _ _ hc' hw') (quiet_clean _ hbr _ hc' hw') i st hst

/-! ## the compiler never builds an empty literal (outside the literal program for "")

  The only place where the parser builds `.atom` is `parseAtom`, guarded by `ub.isEmpty`; every
  other function only combines trees; `optimize` and `numberReps` build no literal at all. -/

open Rx.C08 (noEmptyAtoms noEmptyAtomsL)
open Rx.C17 (POk)

/-- "no empty literal", as a predicate on a parser result -/
abbrev NE : Op → PS → Prop := fun op _ => noEmptyAtoms op = true

theorem noEmptyAtomsL_append (l1 l2 : List Op) :
    noEmptyAtomsL (l1 ++ l2) = (noEmptyAtomsL l1 && noEmptyAtomsL l2) := by
  induction l1 with
  | nil => simp [noEmptyAtomsL]
  | cons a t ih => simp [noEmptyAtomsL, ih, Bool.and_assoc]

theorem noEmptyAtoms_makeSequence (a b : Op) (ha : noEmptyAtoms a = true) (hb : noEmptyAtoms b = true) :
    noEmptyAtoms (makeSequence a b) = true := by
  unfold makeSequence
  split
  · simp only [noEmptyAtoms] at ha hb ⊢; rw [noEmptyAtomsL_append, ha, hb]; rfl
  · simp only [noEmptyAtoms] at ha ⊢; rw [noEmptyAtomsL_append, ha]; simp [noEmptyAtomsL, hb]
  · simp only [noEmptyAtoms] at hb ⊢; simp [noEmptyAtomsL, ha, hb]
  · simp [noEmptyAtoms, noEmptyAtomsL, ha, hb]

theorem parseAtom_NE (c : PC) (s : PS) : POk NE (parseAtom c s) := by
  rw [parseAtom]
  split
  · exact POk.err
  · apply POk.ite <;> intro h
    · exact POk.err
    · refine POk.ok ?_
      simp only [NE, noEmptyAtoms]
      simpa using h

theorem pieceQuant_NE (c : PC) (ret : Op) (s : PS) (h : noEmptyAtoms ret = true) :
    POk NE (pieceQuant c ret s) := by
  rw [pieceQuant]
  apply POk.ite <;> intro _
  · exact POk.ok h
  · extract_lets q r
    clear_value r
    cases r with
    | err e => exact POk.err
    | ok hasQ s1 =>
      dsimp -zeta only
      extract_lets +onlyGivenNames qt0
      generalize hpr : (if (hasQ && isAnchor ret) = true then
          (if (qt0 == 63 || qt0 == 42 || (qt0 == 123 && s1.bmin == 0)) = true then
            ((Op.nothing, 0) : Op × Nat) else (ret, 0)) else (ret, qt0)) = pr
      have hp1 : noEmptyAtoms pr.1 = true := by
        subst hpr
        split
        · split
          · rfl
          · exact h
        · exact h
      clear_value qt0
      clear hpr
      extract_lets qt reluctant s2 greedy mm mn mx
      clear_value mx mn mm greedy s2 qt
      have hg : ∀ a b l, noEmptyAtoms (.gfixed pr.1 a b l) = true := fun _ _ _ => by
        simp only [noEmptyAtoms]; exact hp1
      have hr : ∀ a b l, noEmptyAtoms (.rfixed pr.1 a b l) = true := fun _ _ _ => by
        simp only [noEmptyAtoms]; exact hp1
      have hrep : ∀ a b g, noEmptyAtoms (.rep 0 pr.1 a b g) = true := fun _ _ _ => by
        simp only [noEmptyAtoms]; exact hp1
      apply POk.ite <;> intro _
      · exact POk.err
      apply POk.ite <;> intro _
      · exact POk.ok rfl
      apply POk.ite <;> intro _
      · exact POk.ok hp1
      apply POk.ite <;> intro _
      · apply POk.ite <;> intro _
        · exact POk.ok rfl
        · exact POk.ok hp1
      apply POk.ite <;> intro _
      · split
        · apply POk.ite <;> intro _
          · exact POk.ok (hg _ _ _)
          · exact POk.ok rfl
        · exact POk.ok (hrep _ _ _)
      · split
        · exact POk.ok (hr _ _ _)
        · exact POk.ok (hrep _ _ _)

/-- every tree the parser builds is free of empty literals -/
theorem parse_NE (c : PC) (f : Nat) :
    (∀ s top, POk NE (parseExpr c f s top)) ∧
    (∀ s acc, noEmptyAtomsL acc = true →
      POk (fun l _ => noEmptyAtomsL l = true) (parseBranches c f s acc)) ∧
    (∀ s cur, (∀ o, cur = some o → noEmptyAtoms o = true) → POk NE (parseBranch c f s cur)) ∧
    (∀ s, POk NE (parseTerminal c f s)) := by
  induction f with
  | zero =>
    refine ⟨fun s top => ?_, fun s acc _ => ?_, fun s cur _ => ?_, fun s => ?_⟩
    · rw [parseExpr]; exact POk.err
    · rw [parseBranches]; exact POk.err
    · rw [parseBranch]; exact POk.err
    · rw [parseTerminal]; exact POk.err
  | succ f ih =>
    obtain ⟨ihE, ihBs, ihB, ihT⟩ := ih
    refine ⟨fun s top => ?_, fun s acc hacc => ?_, fun s cur hcur => ?_, fun s => ?_⟩
    · rw [parseExpr]
      split
      · exact POk.err
      · rename_i paren s1 heq
        split
        · exact POk.err
        · rename_i b1 s2 heq2
          have g2 : noEmptyAtoms b1 = true := ihB s1 none (by simp) _ _ heq2
          split
          · exact POk.err
          · rename_i branches s3 heq3
            have g3 : noEmptyAtomsL branches = true :=
              ihBs s2 [b1] (by simp [noEmptyAtomsL, g2]) _ _ heq3
            extract_lets op
            have hop : noEmptyAtoms op = true := by
              simp only [op]
              cases branches with
              | nil => rfl
              | cons b t =>
                cases t with
                | nil => simpa [noEmptyAtomsL] using g3
                | cons b2 t2 => simpa only [noEmptyAtoms] using g3
            clear_value op
            apply POk.ite <;> intro _
            · apply POk.ite <;> intro _
              · apply POk.ite <;> intro _
                · exact POk.ok (by simpa only [NE, noEmptyAtoms] using hop)
                · exact POk.ok hop
              · exact POk.err
            · exact POk.ok (noEmptyAtoms_makeSequence _ _ hop rfl)
    · rw [parseBranches]
      apply POk.ite <;> intro _
      · split
        · exact POk.err
        · rename_i b s1 heq
          have g1 : noEmptyAtoms b = true := ihB { s with idx := s.idx + 1 } none (by simp) _ _ heq
          exact ihBs s1 _ (by rw [noEmptyAtomsL_append, hacc]; simp [noEmptyAtomsL, g1])
      · exact POk.ok hacc
    · rw [parseBranch]
      apply POk.ite <;> intro _
      · split
        · exact POk.err
        · rename_i ret s1 heq
          have g1 : noEmptyAtoms ret = true := ihT s _ _ heq
          split
          · exact POk.err
          · rename_i op s2 heq2
            have gop : noEmptyAtoms op = true := pieceQuant_NE c ret s1 g1 _ _ heq2
            refine ihB s2 _ ?_
            intro o ho
            cases cur with
            | none => cases ho; exact gop
            | some cu => cases ho; exact noEmptyAtoms_makeSequence _ _ (hcur cu rfl) gop
      · refine POk.ok ?_
        cases cur with
        | none => rfl
        | some cu => exact hcur cu rfl
    · rw [parseTerminal]
      repeat' first
        | exact POk.err
        | (apply POk.ite <;> intro _)
        | exact ihE _ _
        | exact parseAtom_NE c s
        | exact POk.ok rfl
      · split
        · exact POk.err
        · exact POk.ok rfl
      · split
        · exact POk.err
        · apply POk.ite <;> intro _
          · exact POk.err
          · exact POk.ok rfl
        · exact parseAtom_NE c _
        · exact POk.ok rfl

theorem repeatParts_NE {opt child : Op} {mn mx : Nat} {g : Bool}
    (h : repeatParts opt = some (child, mn, mx, g)) (hne : noEmptyAtoms opt = true) :
    noEmptyAtoms child = true := by
  cases opt <;> simp only [repeatParts, Option.some.injEq, Prod.mk.injEq, reduceCtorEq] at h
  all_goals (obtain ⟨rfl, _⟩ := h; simpa only [noEmptyAtoms] using hne)

mutual
/-- `optimize` builds no literal -/
theorem optimize_NE (env : Env) (fl : CFlags) : ∀ (op : Op), noEmptyAtoms op = true →
    noEmptyAtoms (optimize env fl op) = true
  | .bol, h | .eol, h | .nothing, h | .endProgram, h | .atom _, h | .cls _, h | .backref _, h => by
    simpa only [optimize] using h
  | .capture g c, h => by
    simp only [noEmptyAtoms] at h
    simp only [optimize, noEmptyAtoms]
    exact optimize_NE env fl c h
  | .choice bs, h => by
    simp only [noEmptyAtoms] at h
    simp only [optimize, noEmptyAtoms]
    exact optimizeL_NE env fl bs h
  | .seq ops, h => by
    simp only [noEmptyAtoms] at h
    cases ops with
    | nil => simp only [optimize]; rfl
    | cons o t =>
      cases t with
      | nil =>
        simp only [optimize]
        simpa [noEmptyAtomsL] using h
      | cons o2 os =>
        simp only [optimize, noEmptyAtoms]
        exact optimizeSeq_NE env fl (o :: o2 :: os) h
  | .rep id c mn mx g, h => by
    simp only [noEmptyAtoms] at h
    simp only [optimize, noEmptyAtoms]
    exact optimize_NE env fl c h
  | .gfixed c mn mx len, h => by
    simp only [noEmptyAtoms] at h
    simp only [optimize]
    split
    · rfl
    · split
      · exact h
      · simp only [noEmptyAtoms]; exact optimize_NE env fl c h
  | .rfixed c mn mx len, h => by
    simp only [noEmptyAtoms] at h
    simp only [optimize, noEmptyAtoms]
    exact optimize_NE env fl c h
  | .unamb c mn mx, h => by
    simp only [noEmptyAtoms] at h
    simp only [optimize, noEmptyAtoms]
    exact optimize_NE env fl c h
termination_by structural op => op
theorem optimizeL_NE (env : Env) (fl : CFlags) : ∀ (l : List Op), noEmptyAtomsL l = true →
    noEmptyAtomsL (optimizeL env fl l) = true
  | [], _ => by simp only [optimizeL]; rfl
  | o :: os, h => by
    simp only [noEmptyAtomsL, Bool.and_eq_true] at h
    simp only [optimizeL, noEmptyAtomsL, Bool.and_eq_true]
    exact ⟨optimize_NE env fl o h.1, optimizeL_NE env fl os h.2⟩
termination_by structural l => l
theorem optimizeSeq_NE (env : Env) (fl : CFlags) : ∀ (l : List Op), noEmptyAtomsL l = true →
    noEmptyAtomsL (optimizeSeq env fl l) = true
  | [], _ => by simp only [optimizeSeq]; rfl
  | [o], h => by
    simp only [noEmptyAtomsL, Bool.and_eq_true] at h
    simp only [optimizeSeq, noEmptyAtomsL, Bool.and_eq_true]
    exact ⟨optimize_NE env fl o h.1, trivial⟩
  | o :: nxt :: os, h => by
    have h' := h
    simp only [noEmptyAtomsL, Bool.and_eq_true] at h
    have ho := optimize_NE env fl o h.1
    have ht : noEmptyAtomsL (optimizeSeq env fl (nxt :: os)) = true :=
      optimizeSeq_NE env fl (nxt :: os) (by simp only [noEmptyAtomsL, Bool.and_eq_true]; exact h.2)
    rw [optimizeSeq]
    simp only [noEmptyAtomsL, Bool.and_eq_true]
    refine ⟨?_, ht⟩
    split
    · rename_i child mn mx greedy heq
      have hch := repeatParts_NE heq ho
      split
      · split
        · simp only [noEmptyAtoms]; exact hch
        · split
          · simp only [noEmptyAtoms]; exact hch
          · exact ho
      · exact ho
    · exact ho
termination_by structural l => l
end

/-- STRETCH: the model's compiler never produces an empty literal — except as the literal program
    (flag `q`) for the empty pattern -/
theorem compile_noEmptyAtoms (env : Env) (fl : CFlags) (pat : List Nat) (pr : Prog)
    (h : compileCore env fl pat true = .ok pr) (hlit : fl.literal = true → pat ≠ []) :
    noEmptyAtoms pr.op = true := by
  unfold compileCore at h
  by_cases hl : fl.literal = true
  · rw [if_pos hl] at h
    simp only [if_true, Out.ok.injEq] at h
    subst h
    rw [(WF.mkProgram_op _ _ _ _ _).1, ApiL.noEmptyAtoms_numberReps]
    have := hlit hl
    cases pat with
    | nil => exact absurd rfl this
    | cons a t => rfl
  · rw [if_neg hl] at h
    dsimp only at h
    cases hp : parseExpr { pat := pat, fl := fl, env := env } (4 * pat.length + 16) {} true with
    | err e => rw [hp] at h; cases h
    | ok op s =>
      rw [hp] at h
      dsimp only at h
      split at h
      · cases h
      · simp only [if_true, Out.ok.injEq] at h
        subst h
        rw [(WF.mkProgram_op _ _ _ _ _).1, ApiL.noEmptyAtoms_numberReps]
        exact optimize_NE env fl op ((parse_NE _ _).1 _ _ _ _ hp)

end Rx.SearchComplete
