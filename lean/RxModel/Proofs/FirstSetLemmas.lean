/-
  Proofs/FirstSetLemmas — helper lemmas for Props/C08c (the first-set analysis behind the
  non-backtracking rewrite): canonicity of `initialClass`, the over-approximation property for
  non-empty members, universality for nullable terms, and the maximal-munch consequence.
  The predicates `clsCanon` / `CaseOK` (moved here unchanged from Props/C08c, because the helper
  lemmas need them) and `noEmptySeq` (no empty sequence anywhere in the tree) live in `Rx.C08`.
-/
import RxModel.Spec.OpLang
import RxModel.Model.Optimize
import RxModel.Props.C08
import RxModel.Props.C09
import RxModel.Proofs.PreLemmas
import RxModel.Proofs.MiscLemmas
import RxModel.Proofs.LawLemmas
import RxModel.Proofs.EngineSound
namespace Rx.C08
open Rx

mutual
/-- every class of the tree is a canonical range list and every literal character is a code point -/
def clsCanon : Op → Prop
  | .atom cs => ∀ c ∈ cs, c < cpLimit
  | .cls rs => C09.Canon rs
  | .capture _ c => clsCanon c
  | .choice bs => clsCanonL bs
  | .seq ops => clsCanonL ops
  | .rep _ c _ _ _ => clsCanon c
  | .gfixed c _ _ _ => clsCanon c
  | .rfixed c _ _ _ => clsCanon c
  | .unamb c _ _ => clsCanon c
  | _ => True
termination_by structural o => o
def clsCanonL : List Op → Prop
  | [] => True
  | o :: os => clsCanon o ∧ clsCanonL os
termination_by structural l => l
end

/-- the case data are adequate for the comparison the matcher uses: whatever `equal_case_blind`
    identifies with `a` is `a` itself or in `a`'s closure, and closures are code points -/
def CaseOK (env : Env) (lower : Nat → Nat) : Prop :=
  (∀ a x, eqCB lower x a = true → x = a ∨ x ∈ env.closure a) ∧ (∀ a x, x ∈ env.closure a → x < cpLimit)

mutual
/-- no empty sequence anywhere in the tree (`wfOp` demands this; the compiler never builds one).
    The empty sequence matches the empty string but its first set is empty. -/
def noEmptySeq : Op → Bool
  | .capture _ c => noEmptySeq c
  | .choice bs => noEmptySeqL bs
  | .seq ops => !ops.isEmpty && noEmptySeqL ops
  | .rep _ c _ _ _ => noEmptySeq c
  | .gfixed c _ _ _ => noEmptySeq c
  | .rfixed c _ _ _ => noEmptySeq c
  | .unamb c _ _ => noEmptySeq c
  | _ => true
termination_by structural o => o
def noEmptySeqL : List Op → Bool
  | [] => true
  | o :: os => noEmptySeq o && noEmptySeqL os
termination_by structural l => l
end

end Rx.C08

namespace Rx.FirstL
open Rx Rx.C08 Rx.C09

/-! ### well-formed trees have no empty sequence -/

mutual
theorem nes_of_wf : ∀ (op : Op), wfOp op = true → noEmptySeq op = true
  | .bol, _ => by simp only [noEmptySeq]
  | .eol, _ => by simp only [noEmptySeq]
  | .nothing, _ => by simp only [noEmptySeq]
  | .endProgram, _ => by simp only [noEmptySeq]
  | .atom _, _ => by simp only [noEmptySeq]
  | .cls _, _ => by simp only [noEmptySeq]
  | .backref _, _ => by simp only [noEmptySeq]
  | .capture _ c, h => by
    simp only [wfOp] at h; simp only [noEmptySeq]; exact nes_of_wf c h
  | .choice bs, h => by
    simp only [wfOp, Bool.and_eq_true] at h; simp only [noEmptySeq]; exact nes_of_wfs bs h.2
  | .seq ops, h => by
    simp only [wfOp, Bool.and_eq_true] at h
    simp only [noEmptySeq, Bool.and_eq_true]
    exact ⟨h.1, nes_of_wfs ops h.2⟩
  | .rep _ c _ _ _, h => by
    simp only [wfOp, Bool.and_eq_true] at h; simp only [noEmptySeq]; exact nes_of_wf c h.1.1
  | .gfixed c _ _ _, h => by
    simp only [wfOp, Bool.and_eq_true] at h; simp only [noEmptySeq]; exact nes_of_wf c h.1.1.1.1.1
  | .rfixed c _ _ _, h => by
    simp only [wfOp, Bool.and_eq_true] at h; simp only [noEmptySeq]; exact nes_of_wf c h.1.1.1.1.1
  | .unamb c _ _, h => by
    simp only [wfOp, Bool.and_eq_true] at h; simp only [noEmptySeq]; exact nes_of_wf c h.1.1
theorem nes_of_wfs : ∀ (ops : List Op), wfOps ops = true → noEmptySeqL ops = true
  | [], _ => by simp only [noEmptySeqL]
  | o :: os, h => by
    simp only [wfOps, Bool.and_eq_true] at h
    simp only [noEmptySeqL, Bool.and_eq_true]
    exact ⟨nes_of_wf o h.1, nes_of_wfs os h.2⟩
end

/-! ### canonical lists -/

theorem canon_nil : Canon [] := by simp only [Canon]

theorem canon_allR : Canon allR := by
  simp only [allR, Canon]
  exact ⟨by decide, Nat.le_refl _⟩

theorem canon_addChar (rs : Ranges) (h : Canon rs) (c : Nat) (hc : c < cpLimit) :
    Canon (addChar c rs) :=
  canon_addRange rs h c (c + 1) (by omega)

theorem canon_addChars (l : List Nat) (rs : Ranges) (h : Canon rs) (hl : ∀ x ∈ l, x < cpLimit) :
    Canon (addChars l rs) := by
  induction l generalizing rs with
  | nil => simpa only [addChars] using h
  | cons ch l ih =>
    simp only [addChars]
    exact ih _ (canon_addChar rs h ch (hl ch List.mem_cons_self))
      (fun y hy => hl y (List.mem_cons_of_mem _ hy))

theorem contains_addChars (l : List Nat) (rs : Ranges) (h : Canon rs) (hl : ∀ x ∈ l, x < cpLimit)
    (x : Nat) : clsContains (addChars l rs) x = (l.contains x || clsContains rs x) := by
  induction l generalizing rs with
  | nil => simp [addChars]
  | cons ch l ih =>
    have hc := canon_addChar rs h ch (hl ch List.mem_cons_self)
    simp only [addChars]
    rw [ih _ hc (fun y hy => hl y (List.mem_cons_of_mem _ hy)), contains_addChar rs h,
      List.contains_cons]
    by_cases hx : x = ch
    · simp [hx]
    · have hb : (x == ch) = false := beq_false_of_ne hx
      simp [hx, hb]

theorem contains_union_left (a b : Ranges) (ha : Canon a) (hb : Canon b) (c : Nat)
    (h : clsContains a c = true) : clsContains (unionR a b) c = true := by
  rw [contains_unionR a b ha hb, h, Bool.true_or]

theorem contains_union_right (a b : Ranges) (ha : Canon a) (hb : Canon b) (c : Nat)
    (h : clsContains b c = true) : clsContains (unionR a b) c = true := by
  rw [contains_unionR a b ha hb, h, Bool.or_true]

/-! ### `initialClass` is canonical -/

mutual
theorem ic_canon (env : Env) (cb : Bool) (hce : ∀ a x, x ∈ env.closure a → x < cpLimit) :
    ∀ (op : Op), clsCanon op → Canon (initialClass env cb op)
  | .atom [], _ => by simp only [initialClass]; exact canon_nil
  | .atom (c :: cs), h => by
    simp only [clsCanon] at h
    have hc := h c List.mem_cons_self
    simp only [initialClass]
    split
    · exact canon_addChars _ _ (canon_addChar [] canon_nil c hc) (fun x hx => hce c x hx)
    · exact canon_addChar [] canon_nil c hc
  | .cls rs, h => by simpa only [initialClass, clsCanon] using h
  | .choice bs, h => by
    simp only [clsCanon] at h; simp only [initialClass]; exact ic_canon_choice env cb hce bs h
  | .seq ops, h => by
    simp only [clsCanon] at h; simp only [initialClass]; exact ic_canon_seq env cb hce ops h
  | .rep _ c mn _ _, h => by
    simp only [clsCanon] at h
    simp only [initialClass]
    split
    · exact canon_allR
    · exact ic_canon env cb hce c h
  | .bol, _ => by simp only [initialClass]; exact canon_allR
  | .eol, _ => by simp only [initialClass]; exact canon_allR
  | .nothing, _ => by simp only [initialClass]; exact canon_allR
  | .endProgram, _ => by simp only [initialClass]; exact canon_allR
  | .backref _, _ => by simp only [initialClass]; exact canon_allR
  | .capture _ _, _ => by simp only [initialClass]; exact canon_allR
  | .gfixed _ _ _ _, _ => by simp only [initialClass]; exact canon_allR
  | .rfixed _ _ _ _, _ => by simp only [initialClass]; exact canon_allR
  | .unamb _ _ _, _ => by simp only [initialClass]; exact canon_allR
theorem ic_canon_choice (env : Env) (cb : Bool) (hce : ∀ a x, x ∈ env.closure a → x < cpLimit) :
    ∀ (bs : List Op), clsCanonL bs → Canon (initialClassChoice env cb bs)
  | [], _ => by simp only [initialClassChoice]; exact canon_nil
  | b :: bs, h => by
    simp only [clsCanonL] at h
    simp only [initialClassChoice]
    exact canon_unionR _ _ (ic_canon env cb hce b h.1) (ic_canon_choice env cb hce bs h.2)
theorem ic_canon_seq (env : Env) (cb : Bool) (hce : ∀ a x, x ∈ env.closure a → x < cpLimit) :
    ∀ (ops : List Op), clsCanonL ops → Canon (initialClassSeq env cb ops)
  | [], _ => by simp only [initialClassSeq]; exact canon_nil
  | o :: os, h => by
    simp only [clsCanonL] at h
    simp only [initialClassSeq]
    split
    · exact ic_canon env cb hce o h.1
    · exact canon_unionR _ _ (ic_canon env cb hce o h.1) (ic_canon_seq env cb hce os h.2)
end

/-! ### the first character of a non-empty match -/

/-- a non-empty step inside the input starts at a character, and that character is in `allR` -/
theorem first_allR (ctx : Ctx) (hin : ∀ c ∈ ctx.input, c < cpLimit) (p q : Nat)
    (hq : q ≤ ctx.len) (hpq : p < q) :
    ∃ c, ctx.input[p]? = some c ∧ clsContains allR c = true := by
  have hlt : p < ctx.input.length := by unfold Ctx.len at hq; omega
  exact ⟨ctx.input[p], List.getElem?_eq_getElem hlt, dot_all _ (hin _ (List.getElem_mem hlt))⟩

/-- the kinds whose first set is the universal class -/
theorem sound_default (env : Env) (ctx : Ctx) (hin : ∀ c ∈ ctx.input, c < cpLimit) (op : Op)
    (hdef : initialClass env ctx.caseBlind op = allR) (p q : Nat) (hp : p ≤ ctx.len)
    (h : OpR ctx op p q) (hpq : p < q) :
    ∃ c, ctx.input[p]? = some c ∧ clsContains (initialClass env ctx.caseBlind op) c = true := by
  rw [hdef]
  exact first_allR ctx hin p q (OpR_bounds_op ctx op p q hp h).2 hpq

/-- a matching non-empty literal: the character at `p` compares equal to the literal's head -/
theorem atom_first (ctx : Ctx) (a : Nat) (t : List Nat) (p : Nat)
    (hq : p + (a :: t).length ≤ ctx.len)
    (hm : prefixMatch ctx (a :: t) (ctx.input.drop p) = true) :
    ∃ x, ctx.input[p]? = some x ∧ ctx.eqAt x a = true := by
  have hlt : p < ctx.input.length := by
    simp only [List.length_cons, Ctx.len] at hq; omega
  rw [List.drop_eq_getElem_cons hlt] at hm
  simp only [prefixMatch, Bool.and_eq_true] at hm
  exact ⟨_, List.getElem?_eq_getElem hlt, hm.1⟩

/-- whatever compares equal to the head of a literal is in the literal's first set -/
theorem atom_class_mem (env : Env) (ctx : Ctx)
    (hcase : ctx.caseBlind = true → CaseOK env ctx.lower)
    (hce : ∀ a x, x ∈ env.closure a → x < cpLimit)
    (a : Nat) (t : List Nat) (ha : a < cpLimit) (x : Nat) (he : ctx.eqAt x a = true) :
    clsContains (initialClass env ctx.caseBlind (.atom (a :: t))) x = true := by
  simp only [initialClass]
  unfold Ctx.eqAt at he
  cases hcb : ctx.caseBlind with
  | true =>
    rw [hcb] at he
    simp only [↓reduceIte] at he ⊢
    rw [contains_addChars _ _ (canon_addChar [] canon_nil a ha) (fun y hy => hce a y hy),
      single_char_class]
    rcases (hcase hcb).1 a x he with rfl | hm
    · simp
    · simp [hm]
  | false =>
    rw [hcb] at he
    simp only [Bool.false_eq_true, ↓reduceIte] at he ⊢
    rw [single_char_class]
    simpa using he

/-- the first non-empty iteration of a non-empty run starts at the run's start -/
theorem iter_first_nonempty {R : Nat → Nat → Prop} (hmono : ∀ a b, R a b → a ≤ b)
    {k p q : Nat} (h : IterR R k p q) (hpq : p < q) : ∃ m, R p m ∧ p < m := by
  induction h with
  | zero p => omega
  | @succ k p q r h' hr ih =>
    have hle := IterR_mono hmono h'
    by_cases hlt : p < q
    · exact ih hlt
    · have hqp : q = p := by omega
      subst hqp
      exact ⟨r, hr, hpq⟩

theorem iter_bounds (ctx : Ctx) (x : Op) {k p m : Nat}
    (h : IterR (fun a b => OpR ctx x a b) k p m) (hp : p ≤ ctx.len) : m ≤ ctx.len := by
  induction h with
  | zero p => exact hp
  | @succ k p q r _ hr ih => exact (OpR_bounds_op ctx x q r (ih hp) hr).2

/-! ### over-approximation -/

mutual
theorem sound_op (env : Env) (ctx : Ctx) (hcase : ctx.caseBlind = true → CaseOK env ctx.lower)
    (hce : ∀ a x, x ∈ env.closure a → x < cpLimit) (hin : ∀ c ∈ ctx.input, c < cpLimit) :
    ∀ (op : Op), clsCanon op → ∀ (p q : Nat), p ≤ ctx.len → OpR ctx op p q → p < q →
      ∃ c, ctx.input[p]? = some c ∧ clsContains (initialClass env ctx.caseBlind op) c = true
  | .atom [], _, p, q, _, h, hpq => by
    simp only [OpR, List.length_nil] at h; omega
  | .atom (a :: t), hc, p, q, _, h, _ => by
    simp only [clsCanon] at hc
    simp only [OpR] at h
    obtain ⟨hq, hl, hm⟩ := h
    obtain ⟨x, hx, he⟩ := atom_first ctx a t p (by omega) hm
    exact ⟨x, hx, atom_class_mem env ctx hcase hce a t (hc a List.mem_cons_self) x he⟩
  | .cls rs, _, p, q, _, h, _ => by
    simp only [OpR] at h
    obtain ⟨_, c, h1, h2⟩ := h
    exact ⟨c, h1, by simpa only [initialClass] using h2⟩
  | .choice bs, hc, p, q, hp, h, hpq => by
    simp only [clsCanon] at hc
    simp only [OpR] at h
    simp only [initialClass]
    exact sound_choice env ctx hcase hce hin bs hc p q hp h hpq
  | .seq ops, hc, p, q, hp, h, hpq => by
    simp only [clsCanon] at hc
    simp only [OpR] at h
    simp only [initialClass]
    exact sound_seq env ctx hcase hce hin ops hc p q hp h hpq
  | .rep id c mn mx g, hc, p, q, hp, h, hpq => by
    have hb := OpR_bounds_op ctx _ p q hp h
    simp only [clsCanon] at hc
    simp only [OpR] at h
    obtain ⟨k, _, _, hi⟩ := h
    simp only [initialClass]
    split
    · exact first_allR ctx hin p q hb.2 hpq
    · obtain ⟨m, hm, hpm⟩ := iter_first_nonempty (fun a b => OpR_mono ctx c a b) hi hpq
      exact sound_op env ctx hcase hce hin c hc p m hp hm hpm
  | .bol, _, p, q, hp, h, hpq =>
    sound_default env ctx hin _ (by simp only [initialClass]) p q hp h hpq
  | .eol, _, p, q, hp, h, hpq =>
    sound_default env ctx hin _ (by simp only [initialClass]) p q hp h hpq
  | .nothing, _, p, q, hp, h, hpq =>
    sound_default env ctx hin _ (by simp only [initialClass]) p q hp h hpq
  | .endProgram, _, p, q, hp, h, hpq =>
    sound_default env ctx hin _ (by simp only [initialClass]) p q hp h hpq
  | .backref _, _, p, q, hp, h, hpq =>
    sound_default env ctx hin _ (by simp only [initialClass]) p q hp h hpq
  | .capture _ _, _, p, q, hp, h, hpq =>
    sound_default env ctx hin _ (by simp only [initialClass]) p q hp h hpq
  | .gfixed _ _ _ _, _, p, q, hp, h, hpq =>
    sound_default env ctx hin _ (by simp only [initialClass]) p q hp h hpq
  | .rfixed _ _ _ _, _, p, q, hp, h, hpq =>
    sound_default env ctx hin _ (by simp only [initialClass]) p q hp h hpq
  | .unamb _ _ _, _, p, q, hp, h, hpq =>
    sound_default env ctx hin _ (by simp only [initialClass]) p q hp h hpq
theorem sound_choice (env : Env) (ctx : Ctx) (hcase : ctx.caseBlind = true → CaseOK env ctx.lower)
    (hce : ∀ a x, x ∈ env.closure a → x < cpLimit) (hin : ∀ c ∈ ctx.input, c < cpLimit) :
    ∀ (bs : List Op), clsCanonL bs → ∀ (p q : Nat), p ≤ ctx.len → OpRAny ctx bs p q → p < q →
      ∃ c, ctx.input[p]? = some c ∧
        clsContains (initialClassChoice env ctx.caseBlind bs) c = true
  | [], _, p, q, _, h, _ => by simp only [OpRAny] at h
  | b :: bs, hc, p, q, hp, h, hpq => by
    simp only [clsCanonL] at hc
    simp only [OpRAny] at h
    simp only [initialClassChoice]
    have ca := ic_canon env ctx.caseBlind hce b hc.1
    have cb := ic_canon_choice env ctx.caseBlind hce bs hc.2
    rcases h with h | h
    · obtain ⟨c, h1, h2⟩ := sound_op env ctx hcase hce hin b hc.1 p q hp h hpq
      exact ⟨c, h1, contains_union_left _ _ ca cb c h2⟩
    · obtain ⟨c, h1, h2⟩ := sound_choice env ctx hcase hce hin bs hc.2 p q hp h hpq
      exact ⟨c, h1, contains_union_right _ _ ca cb c h2⟩
theorem sound_seq (env : Env) (ctx : Ctx) (hcase : ctx.caseBlind = true → CaseOK env ctx.lower)
    (hce : ∀ a x, x ∈ env.closure a → x < cpLimit) (hin : ∀ c ∈ ctx.input, c < cpLimit) :
    ∀ (ops : List Op), clsCanonL ops → ∀ (p q : Nat), p ≤ ctx.len → OpRSeq ctx ops p q → p < q →
      ∃ c, ctx.input[p]? = some c ∧
        clsContains (initialClassSeq env ctx.caseBlind ops) c = true
  | [], _, p, q, _, h, hpq => by simp only [OpRSeq] at h; omega
  | o :: os, hc, p, q, hp, h, hpq => by
    simp only [clsCanonL] at hc
    simp only [OpRSeq] at h
    obtain ⟨m, h1, h2⟩ := h
    have hpm := OpR_mono ctx o p m h1
    have ca := ic_canon env ctx.caseBlind hce o hc.1
    have cb := ic_canon_seq env ctx.caseBlind hce os hc.2
    by_cases hlt : p < m
    · obtain ⟨c, hc1, hc2⟩ := sound_op env ctx hcase hce hin o hc.1 p m hp h1 hlt
      refine ⟨c, hc1, ?_⟩
      simp only [initialClassSeq]
      split
      · exact hc2
      · exact contains_union_left _ _ ca cb c hc2
    · have hmp : m = p := by omega
      subst hmp
      have hnn : mzs o ≠ ZLS_NEVER := fun hn => mzs_never_sound ctx o hn m h1
      obtain ⟨c, hc1, hc2⟩ := sound_seq env ctx hcase hce hin os hc.2 m q hp h2 hpq
      refine ⟨c, hc1, ?_⟩
      simp only [initialClassSeq]
      rw [if_neg (by simpa using hnn)]
      exact contains_union_right _ _ ca cb c hc2
end

/-! ### nullable terms have the universal first set -/

mutual
theorem null_op (env : Env) (ctx : Ctx) (hce : ∀ a x, x ∈ env.closure a → x < cpLimit) :
    ∀ (op : Op), clsCanon op → noEmptyAtoms op = true → noEmptySeq op = true →
      ∀ (p : Nat), p ≤ ctx.len → OpR ctx op p p → ∀ (c : Nat), c < cpLimit →
      clsContains (initialClass env ctx.caseBlind op) c = true
  | .atom [], _, hne, _, _, _, _, _, _ => by simp [noEmptyAtoms] at hne
  | .atom (a :: t), _, _, _, p, _, h, _, _ => by
    simp only [OpR, List.length_cons] at h; omega
  | .cls rs, _, _, _, p, _, h, _, _ => by
    simp only [OpR] at h; omega
  | .choice bs, hc, hne, hns, p, hp, h, c, hcl => by
    simp only [clsCanon] at hc
    simp only [noEmptyAtoms] at hne
    simp only [noEmptySeq] at hns
    simp only [OpR] at h
    simp only [initialClass]
    exact null_choice env ctx hce bs hc hne hns p hp h c hcl
  | .seq ops, hc, hne, hns, p, hp, h, c, hcl => by
    simp only [clsCanon] at hc
    simp only [noEmptyAtoms] at hne
    simp only [noEmptySeq, Bool.and_eq_true] at hns
    simp only [OpR] at h
    simp only [initialClass]
    exact null_seq env ctx hce ops hc hne hns.2 (by simpa using hns.1) p hp h c hcl
  | .rep id x mn mx g, hc, hne, hns, p, hp, h, c, hcl => by
    simp only [clsCanon] at hc
    simp only [noEmptyAtoms] at hne
    simp only [noEmptySeq] at hns
    simp only [OpR] at h
    obtain ⟨k, hk, _, hi⟩ := h
    simp only [initialClass]
    split
    · exact dot_all c hcl
    · rename_i hmn
      have hmn' : mn ≠ 0 := by simpa using hmn
      obtain ⟨k', rfl⟩ : ∃ k', k = k' + 1 := ⟨k - 1, by omega⟩
      obtain ⟨m, hm, hrest⟩ := IterR.uncons hi
      have h1 := OpR_mono ctx x p m hm
      have h2 := IterR_mono (fun a b => OpR_mono ctx x a b) hrest
      have hmp : m = p := by omega
      subst hmp
      exact null_op env ctx hce x hc hne hns m hp hm c hcl
  | .bol, _, _, _, _, _, _, c, hcl => by simp only [initialClass]; exact dot_all c hcl
  | .eol, _, _, _, _, _, _, c, hcl => by simp only [initialClass]; exact dot_all c hcl
  | .nothing, _, _, _, _, _, _, c, hcl => by simp only [initialClass]; exact dot_all c hcl
  | .endProgram, _, _, _, _, _, _, c, hcl => by simp only [initialClass]; exact dot_all c hcl
  | .backref _, _, _, _, _, _, _, c, hcl => by simp only [initialClass]; exact dot_all c hcl
  | .capture _ _, _, _, _, _, _, _, c, hcl => by simp only [initialClass]; exact dot_all c hcl
  | .gfixed _ _ _ _, _, _, _, _, _, _, c, hcl => by simp only [initialClass]; exact dot_all c hcl
  | .rfixed _ _ _ _, _, _, _, _, _, _, c, hcl => by simp only [initialClass]; exact dot_all c hcl
  | .unamb _ _ _, _, _, _, _, _, _, c, hcl => by simp only [initialClass]; exact dot_all c hcl
theorem null_choice (env : Env) (ctx : Ctx) (hce : ∀ a x, x ∈ env.closure a → x < cpLimit) :
    ∀ (bs : List Op), clsCanonL bs → noEmptyAtomsL bs = true → noEmptySeqL bs = true →
      ∀ (p : Nat), p ≤ ctx.len → OpRAny ctx bs p p → ∀ (c : Nat), c < cpLimit →
      clsContains (initialClassChoice env ctx.caseBlind bs) c = true
  | [], _, _, _, p, _, h, _, _ => by simp only [OpRAny] at h
  | b :: bs, hc, hne, hns, p, hp, h, c, hcl => by
    simp only [clsCanonL] at hc
    simp only [noEmptyAtomsL, Bool.and_eq_true] at hne
    simp only [noEmptySeqL, Bool.and_eq_true] at hns
    simp only [OpRAny] at h
    simp only [initialClassChoice]
    have ca := ic_canon env ctx.caseBlind hce b hc.1
    have cb := ic_canon_choice env ctx.caseBlind hce bs hc.2
    rcases h with h | h
    · exact contains_union_left _ _ ca cb c (null_op env ctx hce b hc.1 hne.1 hns.1 p hp h c hcl)
    · exact contains_union_right _ _ ca cb c
        (null_choice env ctx hce bs hc.2 hne.2 hns.2 p hp h c hcl)
theorem null_seq (env : Env) (ctx : Ctx) (hce : ∀ a x, x ∈ env.closure a → x < cpLimit) :
    ∀ (ops : List Op), clsCanonL ops → noEmptyAtomsL ops = true → noEmptySeqL ops = true →
      ops ≠ [] →
      ∀ (p : Nat), p ≤ ctx.len → OpRSeq ctx ops p p → ∀ (c : Nat), c < cpLimit →
      clsContains (initialClassSeq env ctx.caseBlind ops) c = true
  | [], _, _, _, hnil, _, _, _, _, _ => absurd rfl hnil
  | o :: os, hc, hne, hns, _, p, hp, h, c, hcl => by
    simp only [clsCanonL] at hc
    simp only [noEmptyAtomsL, Bool.and_eq_true] at hne
    simp only [noEmptySeqL, Bool.and_eq_true] at hns
    simp only [OpRSeq] at h
    obtain ⟨m, h1, h2⟩ := h
    have b1 := OpR_bounds_op ctx o p m hp h1
    have b2 := OpR_bounds_seq ctx os m p b1.2 h2
    have hmp : m = p := by omega
    subst hmp
    have ca := ic_canon env ctx.caseBlind hce o hc.1
    have cb := ic_canon_seq env ctx.caseBlind hce os hc.2
    have hfirst := null_op env ctx hce o hc.1 hne.1 hns.1 m hp h1 c hcl
    simp only [initialClassSeq]
    split
    · exact hfirst
    · exact contains_union_left _ _ ca cb c hfirst
end

/-! ### maximal munch -/

theorem maxmunch (env : Env) (ctx : Ctx) (hcase : ctx.caseBlind = true → CaseOK env ctx.lower)
    (hce : ∀ a x, x ∈ env.closure a → x < cpLimit) (hin : ∀ c ∈ ctx.input, c < cpLimit)
    (hsc : ∀ c ∈ ctx.input, isSurrogate c = false)
    (x next : Op) (hx : isAtomOrClass x = true) (hcx : clsCanon x) (hcn : clsCanon next)
    (hnx : noEmptyAtoms x = true) (hnn : noEmptyAtoms next = true) (hns : noEmptySeq next = true)
    (hdis : isDisjoint (initialClass env ctx.caseBlind x) (initialClass env ctx.caseBlind next) = true)
    (k p m q : Nat) (hp : p ≤ ctx.len)
    (hiter : IterR (fun a b => OpR ctx x a b) k p m) (hnext : OpR ctx next m q) :
    ¬ ∃ m', OpR ctx x m m' := by
  intro ⟨m', hx'⟩
  have hm : m ≤ ctx.len := iter_bounds ctx x hiter hp
  have hlt := PreL.atomcls_nonempty ctx x hx hnx m m' hx'
  obtain ⟨c, hc1, hc2⟩ := sound_op env ctx hcase hce hin x hcx m m' hm hx' hlt
  have hmem : c ∈ ctx.input := List.mem_of_getElem? hc1
  have hq := OpR_mono ctx next m q hnext
  have hc3 : clsContains (initialClass env ctx.caseBlind next) c = true := by
    by_cases hmq : m < q
    · obtain ⟨c', h1, h2⟩ := sound_op env ctx hcase hce hin next hcn m q hm hnext hmq
      rw [hc1] at h1
      cases h1
      exact h2
    · have hqm : q = m := by omega
      subst hqm
      exact null_op env ctx hce next hcn hnn hns q hm hnext c (hin c hmem)
  have := isDisjoint_sound _ _ (ic_canon env ctx.caseBlind hce next hcn) hdis c (hsc c hmem) hc3
  rw [hc2] at this
  cases this

end Rx.FirstL
