/-
  Proofs/AnalyzeLemmas — helper lemmas for Props/C03: the text held by the analyze handler stack,
  the nesting-table invariant, and monotonicity of `PS.parens` through the parser.
-/
import RxModel.Model.Compile
import RxModel.Spec.Pieces
namespace Rx.C03
open Rx Rx.Spec

/-! ### text of entries -/

theorem mText_str (s : List Nat) : mText (.str s) = s := by simp [mText]
theorem mText_group (nr : Nat) (v : List MEntry) : mText (.group nr v) = mTextL v := by simp [mText]
theorem mTextL_nil : mTextL [] = [] := by simp [mTextL]
theorem mTextL_cons (e : MEntry) (es : List MEntry) : mTextL (e :: es) = mText e ++ mTextL es := by
  simp [mTextL]

theorem mTextL_append (a b : List MEntry) : mTextL (a ++ b) = mTextL a ++ mTextL b := by
  induction a with
  | nil => simp [mTextL_nil]
  | cons e es ih => simp [mTextL_cons, ih, List.append_assoc]

/-- the text held by a handler stack, outermost group first -/
def stackText : HStack → List Nat
  | [] => []
  | (_, es) :: t => stackText t ++ mTextL es

theorem stackText_nil : stackText [] = [] := rfl
theorem stackText_cons (nr : Nat) (es : List MEntry) (t : HStack) :
    stackText ((nr, es) :: t) = stackText t ++ mTextL es := rfl

theorem hChars_text' (stk stk' : HStack) (s : List Nat) (h : hChars stk s = some stk') :
    stackText stk' = stackText stk ++ s := by
  cases stk with
  | nil => simp [hChars] at h
  | cons hd t =>
    obtain ⟨nr, es⟩ := hd
    simp only [hChars, Option.some.injEq] at h
    subst h
    simp [stackText_cons, mTextL_append, mTextL_cons, mTextL_nil, mText_str]

theorem hEvents_text' (evs : List Ev) : ∀ (stk stk' : HStack), hEvents evs stk = some stk' →
    stackText stk' = stackText stk := by
  induction evs with
  | nil =>
    intro stk stk' h
    simp only [hEvents, Option.some.injEq] at h
    subst h; rfl
  | cons ev evs ih =>
    intro stk stk' h
    obtain ⟨b, g⟩ := ev
    cases b with
    | true =>
      simp only [hEvents] at h
      rw [ih _ _ h, stackText_cons, mTextL_nil, List.append_nil]
    | false =>
      match stk, h with
      | [], h => simp [hEvents] at h
      | [_], h => simp [hEvents] at h
      | (nr, es) :: (nr2, es2) :: t, h =>
        simp only [hEvents] at h
        rw [ih _ _ h]
        simp [stackText_cons, mTextL_append, mTextL_cons, mTextL_nil, mText_group, List.append_assoc]

/-- the "flush the pending buffer" step of `walk` -/
theorem flush_text (buf : Option (List Nat)) (stk stk' : HStack)
    (h : (match buf with | some b => hChars stk b | none => some stk) = some stk') :
    stackText stk' = stackText stk ++ buf.getD [] := by
  cases buf with
  | none =>
    simp only [Option.some.injEq] at h
    subst h; simp
  | some b => simpa using hChars_text' _ _ _ h

theorem walk_text' (acts : Actions) (rest : List Nat) : ∀ (i : Nat) (buf : Option (List Nat)) (stk stk' : HStack),
    walk acts rest i buf stk = some stk' →
    stackText stk' = stackText stk ++ buf.getD [] ++ rest := by
  induction rest with
  | nil =>
    intro i buf stk stk' h
    unfold walk at h
    split at h
    · split at h
      · simp at h
      · rename_i stk1 hfl
        rw [hEvents_text' _ _ _ h, flush_text _ _ _ hfl]; simp
    · rw [flush_text _ _ _ h]; simp
  | cons c rest ih =>
    intro i buf stk stk' h
    unfold walk at h
    split at h
    · split at h
      · simp at h
      · rename_i stk1 hfl
        split at h
        · simp at h
        · rename_i stk2 hev
          rw [ih _ _ _ _ h, hEvents_text' _ _ _ hev, flush_text _ _ _ hfl]
          simp [List.append_assoc]
    · rw [ih _ _ _ _ h]
      simp [List.append_assoc]

/-! ### the nesting table -/

theorem nestingGo_inv (pat : List Nat) (plen : Nat) : ∀ (f i : Nat) (stack : List Nat) (capStack : List Bool)
    (group : Nat) (inBr : Int) (tbl res : List (Nat × Nat)),
    1 ≤ group → (∀ x ∈ stack, x < group) → (∀ g p, (g, p) ∈ tbl → p < g) →
    nestingGo pat plen f i stack capStack group inBr tbl = some res →
    ∀ g p, (g, p) ∈ res → p < g := by
  intro f
  induction f with
  | zero =>
    intro i stack capStack group inBr tbl res _ _ htbl h
    simp only [nestingGo, Option.some.injEq] at h
    subst h; exact htbl
  | succ f ih =>
    intro i stack capStack group inBr tbl res hg hst htbl h
    unfold nestingGo at h
    split at h
    · simp only [Option.some.injEq] at h
      subst h; exact htbl
    · split at h
      · exact ih _ _ _ _ _ _ _ hg hst htbl h
      split at h
      · exact ih _ _ _ _ _ _ _ hg hst htbl h
      split at h
      · exact ih _ _ _ _ _ _ _ hg hst htbl h
      split at h
      · split at h
        · simp at h
        · dsimp only at h
          split at h
          · simp at h
          split at h
          · split at h
            · simp at h
            · refine ih _ _ _ _ _ _ _ (by omega) ?_ ?_ h
              · intro x hx
                rcases List.mem_cons.mp hx with hx | hx
                · omega
                · have := hst x hx; omega
              · intro g p hgp
                rcases List.mem_cons.mp hgp with hgp | hgp
                · simp only [Prod.mk.injEq] at hgp
                  obtain ⟨rfl, rfl⟩ := hgp
                  cases stack with
                  | nil => simp; omega
                  | cons a t => simpa using hst a (by simp)
                · exact htbl g p hgp
          · exact ih _ _ _ _ _ _ _ hg hst htbl h
      split at h
      · split at h
        · simp at h
        · split at h
          · refine ih _ _ _ _ _ _ _ hg ?_ htbl h
            intro x hx
            exact hst x (List.mem_of_mem_tail hx)
          · exact ih _ _ _ _ _ _ _ hg hst htbl h
      · exact ih _ _ _ _ _ _ _ hg hst htbl h

/-! ### `PS.parens` never decreases while parsing -/

/-- every accepted result leaves a state satisfying `P` -/
def SOk {α : Type} (P : PS → Prop) (x : PRes α) : Prop := ∀ r s, x = .ok r s → P s

theorem SOk.err {α : Type} {P : PS → Prop} {e : Err} : SOk P (.err e : PRes α) := fun _ _ h => by cases h
theorem SOk.ok {α : Type} {P : PS → Prop} {a : α} {s : PS} (h : P s) : SOk P (.ok a s) :=
  fun _ _ h' => by cases h'; exact h
theorem SOk.ite {α : Type} {P : PS → Prop} {p : Prop} {i1 : Decidable p} {a b : PRes α}
    (h1 : SOk P a) (h2 : SOk P b) : SOk P (@_root_.ite _ p i1 a b) := by
  by_cases hp : p
  · rw [if_pos hp]; exact h1
  · rw [if_neg hp]; exact h2

/-- `n ≤ parens` -/
def GE (n : Nat) : PS → Prop := fun s => n ≤ s.parens

macro "sok_next" h:term "with" h1:ident : tactic =>
  `(tactic| (split <;> first | exact SOk.err | (rename_i heq; have $h1 := ($h) _ _ heq; try dsimp only [GE] at $h1:ident)))

theorem escape_ge (c : PC) (n : Nat) (s : PS) (hb : n ≤ s.parens) (inB : Bool) :
    SOk (GE n) (escape c s inB) := by
  unfold escape
  dsimp only
  repeat' first
    | exact SOk.err
    | apply SOk.ite
    | exact SOk.ok hb
    | split

theorem bracket_ge (c : PC) (n : Nat) (s : PS) (hb : n ≤ s.parens) :
    SOk (GE n) (bracket c s) := by
  unfold bracket
  dsimp only
  repeat' first
    | exact SOk.err
    | apply SOk.ite
    | exact SOk.ok hb

theorem class_ge (c : PC) (n : Nat) (f : Nat) :
    (∀ s, n ≤ s.parens → SOk (GE n) (parseClass c f s)) ∧
    (∀ s k, n ≤ s.parens → SOk (GE n) (classLoop c f s k)) := by
  induction f with
  | zero =>
    refine ⟨fun s _ => ?_, fun s k _ => ?_⟩
    · rw [parseClass]; exact SOk.err
    · rw [classLoop]; exact SOk.err
  | succ f ih =>
    obtain ⟨ihC, ihL⟩ := ih
    refine ⟨fun s hb => ?_, fun s k hb => ?_⟩
    · simp only [parseClass]
      repeat' first
        | exact SOk.err
        | apply SOk.ite
        | exact ihL _ _ hb
    · simp only [classLoop]
      repeat' first
        | exact SOk.err
        | apply SOk.ite
        | exact ihL _ _ hb
        | (apply SOk.ok; exact hb)
      all_goals first
        | (sok_next (escape_ge c n s hb true) with h1 <;>
            repeat' first
              | exact SOk.err | apply SOk.ite | exact ihL _ _ h1 | split)
        | (sok_next (ihC { s with idx := s.idx + 1 } hb) with h1 <;>
            repeat' first
              | exact SOk.err | apply SOk.ite | exact ihL _ _ h1 | split)
        | (repeat' first | exact SOk.err | exact ihL _ _ hb | split)

theorem parseAtomGo_ge (c : PC) (n : Nat) (f : Nat) :
    ∀ s ub, n ≤ s.parens → SOk (GE n) (parseAtomGo c f s ub) := by
  induction f with
  | zero => intro s ub hb; rw [parseAtomGo]; exact SOk.ok hb
  | succ f ih =>
    intro s ub hb
    rw [parseAtomGo]
    apply SOk.ite
    · extract_lets look
      have hlook : SOk (GE n) look := by
        simp only [look]
        repeat' first
          | exact SOk.err | apply SOk.ite | exact SOk.ok hb
        sok_next (escape_ge c n s hb false) with h1
        exact SOk.ok h1
      clear_value look
      cases look with
      | err e => exact SOk.err
      | ok bq s2 =>
        have h2 : n ≤ s2.parens := hlook _ _ rfl
        cases bq with
        | true => exact SOk.ok h2
        | false =>
          dsimp only
          repeat' first
            | exact SOk.err | apply SOk.ite | exact SOk.ok h2 | exact ih _ _ h2
          sok_next (escape_ge c n s2 h2 false) with h3
          all_goals first | exact ih _ _ h3 | exact SOk.ok h3
    · exact SOk.ok hb

theorem parseAtom_ge (c : PC) (n : Nat) (s : PS) (hb : n ≤ s.parens) :
    SOk (GE n) (parseAtom c s) := by
  rw [parseAtom]
  sok_next (parseAtomGo_ge c n _ s [] hb) with h1
  apply SOk.ite
  · exact SOk.err
  · exact SOk.ok h1

theorem pieceQuant_ge (c : PC) (n : Nat) (ret : Op) (s : PS) (hb : n ≤ s.parens) :
    SOk (GE n) (pieceQuant c ret s) := by
  rw [pieceQuant]
  apply SOk.ite
  · exact SOk.ok hb
  · extract_lets q r
    have hr : SOk (GE n) r := by
      simp only [r]
      repeat' first
        | exact SOk.err | apply SOk.ite | exact SOk.ok hb
      sok_next (bracket_ge c n s hb) with h1
      exact SOk.ok h1
    clear_value r
    cases r with
    | err e => exact SOk.err
    | ok hasQ s1 =>
      have h1 : n ≤ s1.parens := hr _ _ rfl
      dsimp -zeta only
      extract_lets qt0 qt reluctant s2 greedy mm mn mx
      have hs2 : n ≤ s2.parens := by
        simp only [s2]
        split <;> exact h1
      clear_value mx mn mm qt s2
      repeat' first
        | exact SOk.err
        | apply SOk.ite
        | exact SOk.ok hs2
        | split

theorem parse_ge (c : PC) (f : Nat) :
    (∀ n s top, n ≤ s.parens → SOk (GE n) (parseExpr c f s top)) ∧
    (∀ n s acc, n ≤ s.parens → SOk (GE n) (parseBranches c f s acc)) ∧
    (∀ n s cur, n ≤ s.parens → SOk (GE n) (parseBranch c f s cur)) ∧
    (∀ n s, n ≤ s.parens → SOk (GE n) (parseTerminal c f s)) := by
  induction f with
  | zero =>
    refine ⟨fun n s top _ => ?_, fun n s acc _ => ?_, fun n s cur _ => ?_, fun n s _ => ?_⟩
    · rw [parseExpr]; exact SOk.err
    · rw [parseBranches]; exact SOk.err
    · rw [parseBranch]; exact SOk.err
    · rw [parseTerminal]; exact SOk.err
  | succ f ih =>
    obtain ⟨ihE, ihBs, ihB, ihT⟩ := ih
    refine ⟨fun n s top hb => ?_, fun n s acc hb => ?_, fun n s cur hb => ?_, fun n s hb => ?_⟩
    · rw [parseExpr]
      split
      · exact SOk.err
      · rename_i paren s1 heq
        have h1 : n ≤ s1.parens := by
          refine (?_ : SOk (GE n) _) _ _ heq
          repeat' first
            | exact SOk.err | apply SOk.ite | exact SOk.ok hb
            | exact SOk.ok (show n ≤ s.parens + 1 from Nat.le_succ_of_le hb)
        sok_next (ihB n s1 none h1) with h2
        sok_next (ihBs n _ _ h2) with h3
        extract_lets op
        clear_value op
        repeat' first
          | exact SOk.err
          | apply SOk.ite
          | exact SOk.ok h3
    · rw [parseBranches]
      apply SOk.ite
      · sok_next (ihB n { s with idx := s.idx + 1 } none hb) with h1
        exact ihBs n _ _ h1
      · exact SOk.ok hb
    · rw [parseBranch]
      apply SOk.ite
      · sok_next (ihT n s hb) with h1
        sok_next (pieceQuant_ge c n _ _ h1) with h2
        exact ihB n _ _ h2
      · exact SOk.ok hb
    · rw [parseTerminal]
      repeat' first
        | exact SOk.err
        | apply SOk.ite
        | exact ihE n _ _ hb
        | exact parseAtom_ge c n s hb
        | exact SOk.ok hb
      · sok_next ((class_ge c n _).1 s hb) with h1
        exact SOk.ok h1
      · sok_next (escape_ge c n s hb false) with h1
        · apply SOk.ite
          · exact SOk.err
          · exact SOk.ok h1
        · exact parseAtom_ge c n _ h1
        · exact SOk.ok h1

/-! ### group numbering -/

theorem group_numbering' (c : PC) (f : Nat) (s s' : PS) (op : Op)
    (hopen : c.at s.idx = 40)
    (hcap : ¬ (s.idx + 2 < c.len ∧ c.at (s.idx + 1) = 63 ∧ c.at (s.idx + 2) = 58))
    (h : parseExpr c (f + 1) s false = .ok op s') :
    ∃ body, op = .capture s.parens body ∧ s.parens < s'.parens ∧ s.parens ∈ s'.captures := by
  have hcap' : (decide (s.idx + 2 < c.len) && c.at (s.idx + 1) == 63 && c.at (s.idx + 2) == 58) = false := by
    apply Bool.eq_false_iff.mpr
    intro hh
    simp only [Bool.and_eq_true, decide_eq_true_eq, beq_iff_eq] at hh
    exact hcap ⟨hh.1.1, hh.1.2, hh.2⟩
  rw [parseExpr] at h
  simp only [hopen, hcap', Bool.not_false, Bool.true_and, BEq.rfl, if_true, Bool.false_eq_true, if_false] at h
  split at h
  · cases h
  · rename_i b1 s1 hb1
    have h1 : s.parens + 1 ≤ s1.parens := (parse_ge c f).2.2.1 _ _ _ (Nat.le_refl _) _ _ hb1
    split at h
    · cases h
    · rename_i branches s2 hb2
      have h2 : s.parens + 1 ≤ s2.parens := (parse_ge c f).2.1 _ _ _ h1 _ _ hb2
      simp only [show (1 != 0) = true from rfl, if_true] at h
      split at h
      · simp only [PRes.ok.injEq] at h
        obtain ⟨rfl, rfl⟩ := h
        exact ⟨_, rfl, h2, List.mem_cons_self⟩
      · cases h

end Rx.C03
