/-
  Proofs/BrCompileLemmas — the compiler establishes `progOK` (Proofs/BrSafeLemmas): group and
  back-reference numbers below `maxParens`, a back-reference only under the `hasBackrefs` flag
  (parser, `optimize`, `numberReps`), plain well-formed preconditions (`add_precondition`),
  `prefix.len ≤ minimum_length` (`ReProgram::new`).
-/
import RxModel.Proofs.BrSafeLemmas
import RxModel.Proofs.WFLemmas
import RxModel.Proofs.AnalyzeLemmas
import RxModel.Proofs.SearchLemmas
namespace Rx
open Rx.C17 (POk)
open Rx.C03 (SOk)
open Rx.OptL (seqElem optimizeSeq_cons2 seqElem_cases)
open Rx.WF

/-! ### the generic shape check under the tree transformations -/

mutual
theorem freeOKg_mono {b1 c1 b2 c2 : Nat → Bool} (hb : ∀ g, b1 g = true → b2 g = true)
    (hc : ∀ g, c1 g = true → c2 g = true) :
    (op : Op) → freeOKg b1 c1 op = true → freeOKg b2 c2 op = true
  | .bol, _ | .eol, _ | .nothing, _ | .endProgram, _ | .atom _, _ | .cls _, _ => rfl
  | .backref g, h => by simp only [freeOKg] at h ⊢; exact hb g h
  | .capture g c, h => by
    simp only [freeOKg, Bool.and_eq_true] at h ⊢
    exact ⟨hc g h.1, freeOKg_mono hb hc c h.2⟩
  | .choice bs, h => by simp only [freeOKg] at h ⊢; exact freeOKgL_mono hb hc bs h
  | .seq ops, h => by simp only [freeOKg] at h ⊢; exact freeOKgL_mono hb hc ops h
  | .rep _ c _ _ _, h => by simp only [freeOKg] at h ⊢; exact freeOKg_mono hb hc c h
  | .gfixed c _ _ _, h => by simp only [freeOKg] at h ⊢; exact freeOKg_mono hb hc c h
  | .rfixed c _ _ _, h => by simp only [freeOKg] at h ⊢; exact freeOKg_mono hb hc c h
  | .unamb c _ _, h => by simp only [freeOKg] at h ⊢; exact freeOKg_mono hb hc c h
termination_by structural op => op
theorem freeOKgL_mono {b1 c1 b2 c2 : Nat → Bool} (hb : ∀ g, b1 g = true → b2 g = true)
    (hc : ∀ g, c1 g = true → c2 g = true) :
    (l : List Op) → freeOKgL b1 c1 l = true → freeOKgL b2 c2 l = true
  | [], _ => rfl
  | o :: os, h => by
    simp only [freeOKgL, Bool.and_eq_true] at h ⊢
    exact ⟨freeOKg_mono hb hc o h.1, freeOKgL_mono hb hc os h.2⟩
termination_by structural l => l
end

theorem freeOKgL_append (b c : Nat → Bool) (l1 l2 : List Op) :
    freeOKgL b c (l1 ++ l2) = (freeOKgL b c l1 && freeOKgL b c l2) := by
  induction l1 with
  | nil => simp [freeOKgL]
  | cons o os ih => simp [freeOKgL, ih, Bool.and_assoc]

theorem freeOKg_makeSequence (b c : Nat → Bool) (x y : Op) :
    freeOKg b c (makeSequence x y) = (freeOKg b c x && freeOKg b c y) := by
  unfold makeSequence
  split <;> simp [freeOKg, freeOKgL, freeOKgL_append]

mutual
theorem freeOKg_numberReps (b c : Nat → Bool) : (op : Op) → ∀ n, freeOKg b c (numberReps op n).1 = freeOKg b c op
  | .bol, n | .eol, n | .nothing, n | .endProgram, n | .atom _, n | .cls _, n | .backref _, n => by
    simp only [numberReps]
  | .capture g x, n => by simp only [numberReps, freeOKg]; rw [freeOKg_numberReps b c x n]
  | .choice bs, n => by simp only [numberReps, freeOKg]; exact freeOKgL_numberRepsL b c bs n
  | .seq ops, n => by simp only [numberReps, freeOKg]; exact freeOKgL_numberRepsL b c ops n
  | .rep id x mn mx g, n => by simp only [numberReps, freeOKg]; exact freeOKg_numberReps b c x (n + 1)
  | .gfixed x mn mx len, n => by simp only [numberReps, freeOKg]; exact freeOKg_numberReps b c x n
  | .rfixed x mn mx len, n => by simp only [numberReps, freeOKg]; exact freeOKg_numberReps b c x n
  | .unamb x mn mx, n => by simp only [numberReps, freeOKg]; exact freeOKg_numberReps b c x n
termination_by structural op => op
theorem freeOKgL_numberRepsL (b c : Nat → Bool) : (l : List Op) → ∀ n,
    freeOKgL b c (numberRepsL l n).1 = freeOKgL b c l
  | [], n => by simp only [numberRepsL]
  | o :: os, n => by
    simp only [numberRepsL, freeOKgL]
    rw [freeOKg_numberReps b c o n, freeOKgL_numberRepsL b c os]
termination_by structural l => l
end


mutual
theorem freeOKg_optimize (env : Env) (fl : CFlags) (b c : Nat → Bool) : ∀ (op : Op), freeOKg b c op = true →
    freeOKg b c (optimize env fl op) = true
  | .bol, h | .eol, h | .nothing, h | .endProgram, h => by simp only [optimize]; exact h
  | .atom _, h | .cls _, h | .backref _, h => by simp only [optimize]; exact h
  | .capture _ x, h => by
      simp only [freeOKg, Bool.and_eq_true] at h
      simp only [optimize, freeOKg, Bool.and_eq_true]; exact ⟨h.1, freeOKg_optimize env fl b c x h.2⟩
  | .choice bs, h => by
      simp only [freeOKg] at h; simp only [optimize, freeOKg]; exact freeOKgL_optimizeL env fl b c bs h
  | .seq ops, h => by
      simp only [freeOKg] at h
      have ih := freeOKgL_optimizeSeq env fl b c ops h
      cases ops with
      | nil => simp only [optimize, freeOKg]
      | cons o t =>
        cases t with
        | nil =>
          simp only [freeOKgL, Bool.and_true] at h
          simp only [optimize]; exact h
        | cons o2 os => simp only [optimize, freeOKg]; exact ih
  | .rep _ x mn mx _, h => by
      simp only [freeOKg] at h; simp only [optimize, freeOKg]; exact freeOKg_optimize env fl b c x h
  | .gfixed x mn mx len, h => by
      simp only [freeOKg] at h
      simp only [optimize]
      split
      · simp only [freeOKg]
      · split
        · exact h
        · simp only [freeOKg]; exact freeOKg_optimize env fl b c x h
  | .rfixed x mn mx len, h => by
      simp only [freeOKg] at h; simp only [optimize, freeOKg]; exact freeOKg_optimize env fl b c x h
  | .unamb x mn mx, h => by
      simp only [freeOKg] at h; simp only [optimize, freeOKg]; exact freeOKg_optimize env fl b c x h
termination_by structural op => op
theorem freeOKgL_optimizeL (env : Env) (fl : CFlags) (b c : Nat → Bool) : ∀ (l : List Op), freeOKgL b c l = true →
    freeOKgL b c (optimizeL env fl l) = true
  | [], _ => by simp only [optimizeL, freeOKgL]
  | o :: os, h => by
      simp only [freeOKgL, Bool.and_eq_true] at h
      simp only [optimizeL, freeOKgL, Bool.and_eq_true]
      exact ⟨freeOKg_optimize env fl b c o h.1, freeOKgL_optimizeL env fl b c os h.2⟩
termination_by structural l => l
theorem freeOKgL_optimizeSeq (env : Env) (fl : CFlags) (b c : Nat → Bool) : ∀ (l : List Op), freeOKgL b c l = true →
    freeOKgL b c (optimizeSeq env fl l) = true
  | [], _ => by simp only [optimizeSeq, freeOKgL]
  | [o], h => by
      simp only [freeOKgL, Bool.and_true] at h
      simp only [optimizeSeq, freeOKgL, Bool.and_true]
      exact freeOKg_optimize env fl b c o h
  | o :: nxt :: os, h => by
      have h' : freeOKg b c o = true ∧ freeOKgL b c (nxt :: os) = true := by
        simpa only [freeOKgL, Bool.and_eq_true] using h
      rw [optimizeSeq_cons2]
      have a1 : freeOKg b c (seqElem env fl (optimize env fl o) nxt) = true := by
        have a0 := freeOKg_optimize env fl b c o h'.1
        rcases seqElem_cases env fl (optimize env fl o) nxt with e | ⟨child, mn, mx, g, hrp, e⟩
        · rw [e]; exact a0
        · rw [e]
          generalize optimize env fl o = opt at a0 hrp
          cases opt <;> simp only [repeatParts, Option.some.injEq, Prod.mk.injEq, reduceCtorEq] at hrp
          all_goals
            obtain ⟨rfl, rfl, rfl, _⟩ := hrp
            simpa only [freeOKg] using a0
      have a2 := freeOKgL_optimizeSeq env fl b c (nxt :: os) h'.2
      simp only [freeOKgL, Bool.and_eq_true] at a2 ⊢
      exact ⟨a1, a2⟩
termination_by structural l => l
end

/-! ### the parser -/

/-- whatever shape check `ret` passes, `op` passes -/
def FP (ret op : Op) : Prop := ∀ b c : Nat → Bool, freeOKg b c ret = true → freeOKg b c op = true

theorem FP.refl (ret : Op) : FP ret ret := fun _ _ h => h
theorem FP.nothing (ret : Op) : FP ret .nothing := fun _ _ _ => rfl
theorem FP.gfixed {ret p : Op} (mn mx l : Nat) (hp : FP ret p) : FP ret (.gfixed p mn mx l) :=
  fun b c h => by simp only [freeOKg]; exact hp b c h
theorem FP.rfixed {ret p : Op} (mn mx l : Nat) (hp : FP ret p) : FP ret (.rfixed p mn mx l) :=
  fun b c h => by simp only [freeOKg]; exact hp b c h
theorem FP.rep {ret p : Op} (id mn mx : Nat) (g : Bool) (hp : FP ret p) : FP ret (.rep id p mn mx g) :=
  fun b c h => by simp only [freeOKg]; exact hp b c h

/-- `pieceQuant` wraps its terminal (or `nothing`) in a repeat node, or returns one of them -/
theorem pieceQuant_FP (c : PC) (ret : Op) (s : PS) : POk (fun op _ => FP ret op) (pieceQuant c ret s) := by
  have hret : FP ret ret := FP.refl ret
  rw [pieceQuant]
  apply POk.ite <;> intro _
  · exact POk.ok hret
  · extract_lets q r
    clear_value r
    cases r with
    | err e => exact POk.err
    | ok hasQ s1 =>
      dsimp -zeta only
      extract_lets +onlyGivenNames qt0
      generalize hpr : (if (hasQ && isAnchor ret) = true then
          (if (qt0 == 63 || qt0 == 42 || (qt0 == 123 && s1.bmin == 0)) = true then
            ((Op.nothing, 0) : Op × Nat) else (ret, 0)) else (ret, qt0)) = pr
      have hp1 : FP ret pr.1 := by
        subst hpr
        split
        · split
          · exact FP.nothing ret
          · exact hret
        · exact hret
      clear_value qt0
      clear hpr
      extract_lets qt reluctant s2 greedy mm mn mx
      clear_value mx mn mm greedy s2 qt
      repeat' first
        | exact POk.err
        | (apply POk.ite <;> intro _)
        | exact POk.ok hp1
        | exact POk.ok (FP.nothing ret)
        | exact POk.ok (FP.gfixed _ _ _ hp1)
        | exact POk.ok (FP.rfixed _ _ _ hp1)
        | exact POk.ok (FP.rep _ _ _ _ hp1)
        | split

/-- the invariant of a parsed tree relative to the state reached: every capture number is below the
    number of groups opened so far; every back-reference number too, and the flag is raised -/
def BP (op : Op) (s : PS) : Prop :=
  freeOKg (fun g => s.hasBackrefs && decide (g < s.parens)) (fun g => decide (g < s.parens)) op = true

def BPL (l : List Op) (s : PS) : Prop :=
  freeOKgL (fun g => s.hasBackrefs && decide (g < s.parens)) (fun g => decide (g < s.parens)) l = true

/-- the state only grows: more groups, the flag stays up -/
def MS (s s' : PS) : Prop := s.parens ≤ s'.parens ∧ (s.hasBackrefs = true → s'.hasBackrefs = true)

theorem MS.refl (s : PS) : MS s s := ⟨Nat.le_refl _, id⟩
theorem MS.trans {a b c : PS} (h1 : MS a b) (h2 : MS b c) : MS a c :=
  ⟨Nat.le_trans h1.1 h2.1, fun h => h2.2 (h1.2 h)⟩

theorem BP.mono {op : Op} {s s' : PS} (h : BP op s) (hs : MS s s') : BP op s' := by
  refine freeOKg_mono (fun g hg => ?_) (fun g hg => ?_) op h
  · simp only [Bool.and_eq_true, decide_eq_true_eq] at hg ⊢
    exact ⟨hs.2 hg.1, Nat.lt_of_lt_of_le hg.2 hs.1⟩
  · simp only [decide_eq_true_eq] at hg ⊢
    exact Nat.lt_of_lt_of_le hg hs.1

theorem BPL.mono {l : List Op} {s s' : PS} (h : BPL l s) (hs : MS s s') : BPL l s' := by
  refine freeOKgL_mono (fun g hg => ?_) (fun g hg => ?_) l h
  · simp only [Bool.and_eq_true, decide_eq_true_eq] at hg ⊢
    exact ⟨hs.2 hg.1, Nat.lt_of_lt_of_le hg.2 hs.1⟩
  · simp only [decide_eq_true_eq] at hg ⊢
    exact Nat.lt_of_lt_of_le hg hs.1

theorem BP.makeSequence {a b : Op} {s : PS} (ha : BP a s) (hb : BP b s) : BP (makeSequence a b) s := by
  unfold BP at ha hb ⊢
  rw [freeOKg_makeSequence, ha, hb]; rfl

theorem BPL.single {b : Op} {s : PS} (h : BP b s) : BPL [b] s := by
  unfold BP at h
  unfold BPL
  simp only [freeOKgL, h, Bool.and_true]

theorem BPL.snoc {acc : List Op} {b : Op} {s : PS} (ha : BPL acc s) (hb : BP b s) : BPL (acc ++ [b]) s := by
  have hb' := BPL.single hb
  unfold BPL at ha hb' ⊢
  rw [freeOKgL_append, ha, hb']; rfl

theorem BP.of_single {b : Op} {s : PS} (h : BPL [b] s) : BP b s := by
  unfold BPL at h
  unfold BP
  simpa only [freeOKgL, Bool.and_true] using h

theorem BP.choice {l : List Op} {s : PS} (h : BPL l s) : BP (.choice l) s := by
  unfold BPL at h
  unfold BP
  simpa only [freeOKg] using h

theorem BP.capture {op : Op} {s : PS} (n : Nat) (hn : n < s.parens) (h : BP op s) : BP (.capture n op) s := by
  unfold BP at h ⊢
  simp only [freeOKg, Bool.and_eq_true, decide_eq_true_eq]
  exact ⟨hn, h⟩

theorem parseAtom_BP (c : PC) (s : PS) : POk BP (parseAtom c s) := by
  rw [parseAtom]
  split
  · exact POk.err
  · apply POk.ite <;> intro _
    · exact POk.err
    · exact POk.ok rfl

/-- the state relation along each parser function (from `parse_st` and `parse_ge`) -/
theorem parse_MS (c : PC) (f : Nat) :
    (∀ s top r s', 1 ≤ s.parens → parseExpr c f s top = .ok r s' → MS s s') ∧
    (∀ s acc r s', 1 ≤ s.parens → parseBranches c f s acc = .ok r s' → MS s s') ∧
    (∀ s cur r s', 1 ≤ s.parens → parseBranch c f s cur = .ok r s' → MS s s') ∧
    (∀ s r s', 1 ≤ s.parens → parseTerminal c f s = .ok r s' → MS s s') := by
  have hst := parse_st c
  have hge := Rx.C03.parse_ge c f
  refine ⟨fun s top r s' hp h => ?_, fun s acc r s' hp h => ?_, fun s cur r s' hp h => ?_, fun s r s' hp h => ?_⟩
  · exact ⟨hge.1 _ s top (Nat.le_refl _) _ _ h, ((hst s.hasBackrefs f).1 s top (ST.refl hp) _ _ h).2⟩
  · exact ⟨hge.2.1 _ s acc (Nat.le_refl _) _ _ h, ((hst s.hasBackrefs f).2.1 s acc (ST.refl hp) _ _ h).2⟩
  · exact ⟨hge.2.2.1 _ s cur (Nat.le_refl _) _ _ h, ((hst s.hasBackrefs f).2.2.1 s cur (ST.refl hp) _ _ h).2⟩
  · exact ⟨hge.2.2.2 _ s (Nat.le_refl _) _ _ h, ((hst s.hasBackrefs f).2.2.2 s (ST.refl hp) _ _ h).2⟩

theorem pieceQuant_MS (c : PC) (ret : Op) (s : PS) (r : Op) (s' : PS) (hp : 1 ≤ s.parens)
    (h : pieceQuant c ret s = .ok r s') : MS s s' :=
  ⟨Rx.C03.pieceQuant_ge c _ ret s (Nat.le_refl _) _ _ h, (pieceQuant_st c _ ret s (ST.refl hp) _ _ h).2⟩

theorem parse_BP (c : PC) (f : Nat) :
    (∀ s top, 1 ≤ s.parens → POk BP (parseExpr c f s top)) ∧
    (∀ s acc, 1 ≤ s.parens → BPL acc s → POk (fun l s' => BPL l s') (parseBranches c f s acc)) ∧
    (∀ s cur, 1 ≤ s.parens → (∀ o, cur = some o → BP o s) → POk BP (parseBranch c f s cur)) ∧
    (∀ s, 1 ≤ s.parens → POk BP (parseTerminal c f s)) := by
  induction f with
  | zero =>
    refine ⟨fun s top _ => ?_, fun s acc _ _ => ?_, fun s cur _ _ => ?_, fun s _ => ?_⟩
    · rw [parseExpr]; exact POk.err
    · rw [parseBranches]; exact POk.err
    · rw [parseBranch]; exact POk.err
    · rw [parseTerminal]; exact POk.err
  | succ f ih =>
    obtain ⟨ihE, ihBs, ihB, ihT⟩ := ih
    have hms := parse_MS c f
    refine ⟨fun s top hp => ?_, fun s acc hp hacc => ?_, fun s cur hp hcur => ?_, fun s hp => ?_⟩
    · rw [parseExpr]
      split
      · exact POk.err
      · rename_i paren s1 heq
        have h1 : s.parens ≤ s1.parens ∧ (paren = 1 → s.parens < s1.parens) := by
          refine (?_ : POk (fun paren s1 => s.parens ≤ s1.parens ∧ (paren = 1 → s.parens < s1.parens)) _) _ _ heq
          repeat' first
            | exact POk.err | (apply POk.ite <;> intro _)
            | exact POk.ok ⟨Nat.le_refl _, fun h => by omega⟩
            | exact POk.ok ⟨Nat.le_succ _, fun _ => Nat.lt_succ_self _⟩
        have hp1 : 1 ≤ s1.parens := Nat.le_trans hp h1.1
        split
        · exact POk.err
        · rename_i b1 s2 heq2
          have g2 : BP b1 s2 := ihB s1 none hp1 (by simp) _ _ heq2
          have t2 : MS s1 s2 := hms.2.2.1 s1 none _ _ hp1 heq2
          have hp2 : 1 ≤ s2.parens := Nat.le_trans hp1 t2.1
          split
          · exact POk.err
          · rename_i branches s3 heq3
            have g3 : BPL branches s3 := ihBs s2 [b1] hp2 (BPL.single g2) _ _ heq3
            have t3 : MS s2 s3 := hms.2.1 s2 [b1] _ _ hp2 heq3
            extract_lets op
            have hop : BP op s3 := by
              simp only [op]
              cases branches with
              | nil => exact BP.choice g3
              | cons b t =>
                cases t with
                | nil => exact BP.of_single g3
                | cons b2 t2 => exact BP.choice g3
            clear_value op
            apply POk.ite <;> intro _
            · apply POk.ite <;> intro _
              · apply POk.ite <;> intro hpar
                · refine POk.ok (BP.capture (s := { s3 with idx := s3.idx + 1, captures := s.parens :: s3.captures }) _ ?_ hop)
                  have : paren = 1 := by simpa using hpar
                  have := h1.2 this
                  have := t2.1
                  have := t3.1
                  show s.parens < s3.parens
                  omega
                · exact POk.ok hop
              · exact POk.err
            · exact POk.ok (BP.makeSequence hop rfl)
    · rw [parseBranches]
      apply POk.ite <;> intro _
      · split
        · exact POk.err
        · rename_i b s1 heq
          have g1 : BP b s1 := ihB { s with idx := s.idx + 1 } none hp (by simp) _ _ heq
          have t1 : MS s s1 := hms.2.2.1 { s with idx := s.idx + 1 } none _ _ hp heq
          exact ihBs s1 _ (Nat.le_trans hp t1.1) (BPL.snoc (hacc.mono t1) g1)
      · exact POk.ok hacc
    · rw [parseBranch]
      apply POk.ite <;> intro _
      · split
        · exact POk.err
        · rename_i ret s1 heq
          have g1 : BP ret s1 := ihT s hp _ _ heq
          have t1 : MS s s1 := hms.2.2.2 s _ _ hp heq
          have hp1 : 1 ≤ s1.parens := Nat.le_trans hp t1.1
          split
          · exact POk.err
          · rename_i op s2 heq2
            have q : FP ret op := pieceQuant_FP c ret s1 _ _ heq2
            have t2 : MS s1 s2 := pieceQuant_MS c ret s1 _ _ hp1 heq2
            have gop : BP op s2 := BP.mono (q _ _ g1) t2
            refine ihB s2 _ (Nat.le_trans hp1 t2.1) ?_
            intro o ho
            cases cur with
            | none => cases ho; exact gop
            | some cu => cases ho; exact BP.makeSequence (((hcur cu rfl).mono t1).mono t2) gop
      · refine POk.ok ?_
        cases cur with
        | none => exact rfl
        | some cu => exact hcur cu rfl
    · rw [parseTerminal]
      repeat' first
        | exact POk.err
        | (apply POk.ite <;> intro _)
        | exact ihE _ _ hp
        | exact parseAtom_BP c s
        | exact POk.ok rfl
      · split
        · exact POk.err
        · exact POk.ok rfl
      · split
        · exact POk.err
        · rename_i n s' heq
          apply POk.ite <;> intro hn
          · exact POk.err
          · refine POk.ok ?_
            have hfl : s'.hasBackrefs = true := escape_backref c s false _ _ heq n rfl
            unfold BP
            simp only [freeOKg, hfl, Bool.true_and, decide_eq_true_eq]
            omega
        · exact parseAtom_BP c _
        · exact POk.ok rfl

/-! ### `ReProgram::new`: preconditions and prefix -/

/-- what `presOK` asks of one precondition tree -/
def PreGood (o : Op) : Prop := wfOp o = true ∧ plainTree o = true

theorem isAtomOrClass_good {c : Op} (h : isAtomOrClass c = true) : wfOp c = true ∧ plainTree c = true := by
  cases c <;> first | exact ⟨rfl, rfl⟩ | (simp [isAtomOrClass] at h)

theorem addPre_rep_good (ml : Bool) (c full : Op) (mn : Nat) (fp : Option Nat) (mp : Nat)
    (hfull : isAtomOrClass c = true → PreGood full)
    (ih : ∀ q ∈ addPre ml c fp mp, PreGood q.op) (q : Pre)
    (hq : q ∈ (if mn ≥ 1 then
        (if isAtomOrClass c then
          (if mn == 1 then [{ op := full, fixed := fp, minPos := mp }]
           else [{ op := .rep 0 c mn mn true, fixed := fp, minPos := mp }])
         else addPre ml c fp mp)
      else [])) : PreGood q.op := by
  split at hq
  · rename_i hmn
    split at hq
    · rename_i hac
      split at hq
      · simp only [List.mem_singleton] at hq; subst hq; exact hfull hac
      · simp only [List.mem_singleton] at hq; subst hq
        obtain ⟨h1, h2⟩ := isAtomOrClass_good hac
        refine ⟨?_, ?_⟩
        · simp only [wfOp, h1, Bool.true_and, Bool.and_eq_true, decide_eq_true_eq]
          omega
        · simpa only [plainTree, freeOKg] using h2
    · exact ih q hq
  · cases hq

mutual
theorem addPre_good (ml : Bool) : (o : Op) → ∀ fp mp, wfOp o = true → ∀ q ∈ addPre ml o fp mp, PreGood q.op
  | .bol, fp, mp, _, q, hq => by simp only [addPre] at hq; cases hq
  | .eol, fp, mp, _, q, hq => by simp only [addPre] at hq; cases hq
  | .nothing, fp, mp, _, q, hq => by simp only [addPre] at hq; cases hq
  | .endProgram, fp, mp, _, q, hq => by simp only [addPre] at hq; cases hq
  | .backref g, fp, mp, _, q, hq => by simp only [addPre] at hq; cases hq
  | .choice bs, fp, mp, _, q, hq => by simp only [addPre] at hq; cases hq
  | .atom cs, fp, mp, _, q, hq => by
    simp only [addPre, List.mem_singleton] at hq; subst hq; exact ⟨rfl, rfl⟩
  | .cls rs, fp, mp, _, q, hq => by
    simp only [addPre, List.mem_singleton] at hq; subst hq; exact ⟨rfl, rfl⟩
  | .capture g c, fp, mp, h, q, hq => by
    simp only [wfOp] at h
    simp only [addPre] at hq
    exact addPre_good ml c fp mp h q hq
  | .seq ops, fp, mp, h, q, hq => by
    simp only [wfOp, Bool.and_eq_true] at h
    simp only [addPre] at hq
    exact addPreSeq_good ml ops fp mp h.2 q hq
  | .rep id c mn mx g, fp, mp, h, q, hq => by
    have hc : wfOp c = true := by
      simp only [wfOp, Bool.and_eq_true] at h; exact h.1.1
    simp only [addPre] at hq
    refine addPre_rep_good ml c _ mn fp mp (fun hac => ⟨h, ?_⟩) (addPre_good ml c fp mp hc) q hq
    simpa only [plainTree, freeOKg] using (isAtomOrClass_good hac).2
  | .gfixed c mn mx len, fp, mp, h, q, hq => by
    have hc : wfOp c = true := by
      simp only [wfOp, Bool.and_eq_true] at h; exact h.1.1.1.1.1
    simp only [addPre] at hq
    refine addPre_rep_good ml c _ mn fp mp (fun hac => ⟨h, ?_⟩) (addPre_good ml c fp mp hc) q hq
    simpa only [plainTree, freeOKg] using (isAtomOrClass_good hac).2
  | .rfixed c mn mx len, fp, mp, h, q, hq => by
    have hc : wfOp c = true := by
      simp only [wfOp, Bool.and_eq_true] at h; exact h.1.1.1.1.1
    simp only [addPre] at hq
    refine addPre_rep_good ml c _ mn fp mp (fun hac => ⟨h, ?_⟩) (addPre_good ml c fp mp hc) q hq
    simpa only [plainTree, freeOKg] using (isAtomOrClass_good hac).2
  | .unamb c mn mx, fp, mp, h, q, hq => by
    have hc : wfOp c = true := by
      simp only [wfOp, Bool.and_eq_true] at h; exact h.1.1
    simp only [addPre] at hq
    refine addPre_rep_good ml c _ mn fp mp (fun hac => ⟨h, ?_⟩) (addPre_good ml c fp mp hc) q hq
    simpa only [plainTree, freeOKg] using (isAtomOrClass_good hac).2
termination_by structural o => o
theorem addPreSeq_good (ml : Bool) : (ops : List Op) → ∀ fp mp, wfOps ops = true →
    ∀ q ∈ addPreSeq ml ops fp mp, PreGood q.op
  | [], fp, mp, _, q, hq => by simp only [addPreSeq] at hq; cases hq
  | o :: os, fp, mp, h, q, hq => by
    simp only [wfOps, Bool.and_eq_true] at h
    simp only [addPreSeq, List.mem_append] at hq
    rcases hq with hq | hq
    · exact addPre_good ml o _ mp h.1 q hq
    · exact addPreSeq_good ml os _ _ h.2 q hq
termination_by structural ops => ops
end

theorem numberPres_good : ∀ (ps : List Pre) (n : Nat), (∀ q ∈ ps, PreGood q.op) →
    ∀ q ∈ numberPres ps n, PreGood q.op := by
  intro ps
  induction ps with
  | nil => intro n _ q hq; simp only [numberPres] at hq; cases hq
  | cons p ps ih =>
    intro n h q hq
    simp only [numberPres, List.mem_cons] at hq
    rcases hq with hq | hq
    · subst hq
      simp only
      obtain ⟨h1, h2⟩ := h p List.mem_cons_self
      refine ⟨by rw [wfOp_numberReps]; exact h1, ?_⟩
      unfold plainTree at h2 ⊢
      rw [freeOKg_numberReps]; exact h2
    · exact ih _ (fun q' hq' => h q' (List.mem_cons_of_mem _ hq')) q hq

/-- the preconditions of a program built from a well-formed tree are well-formed and plain -/
theorem mkProgram_presOK (pat : List Nat) (op : Op) (mp : Nat) (fl : CFlags) (hb : Bool)
    (hwf : wfOp op = true) : presOK (mkProgram pat op mp fl hb) = true := by
  obtain ⟨hop, _, _, _, _, _, _, _, _, hpres⟩ := SearchComplete.mkProgram_shape pat op mp fl hb
  have hw : wfOp (numberReps op 0).1 = true := by rw [wfOp_numberReps]; exact hwf
  simp only [presOK, List.all_eq_true, Bool.and_eq_true]
  intro q hq
  rcases hpres with h0 | ⟨n, hn⟩
  · rw [h0] at hq; cases hq
  · rw [hn] at hq
    exact numberPres_good _ n (addPre_good fl.multiLine _ none 0 hw) q hq

/-- `prefix.len ≤ minimum_length` (or the minimum is saturated), unconditionally -/
theorem mkProgram_prefixOK (pat : List Nat) (op : Op) (mp : Nat) (fl : CFlags) (hb : Bool) :
    prefixOK (mkProgram pat op mp fl hb) = true := by
  obtain ⟨_, _, _, _, _, hmin, _, hpre, _, _⟩ := SearchComplete.mkProgram_shape pat op mp fl hb
  unfold prefixOK
  split
  · rename_i cs hcs
    obtain ⟨rest, hr⟩ := hpre cs hcs
    rw [hmin, hr]
    simp only [minLenOp, minLenSeq, Bool.or_eq_true]
    rcases le_satAdd_or cs.length (minLenSeq rest) with h | h
    · exact .inl (decide_eq_true h)
    · exact .inr (decide_eq_true h)
  · rfl

/-! ### the compiler -/

/-- **every optimised program the compiler produces satisfies `progOK`** (`hns` = the side condition
    of `WF.compile_wf`: no saturated body length) -/
theorem compile_progOK (env : Env) (fl : CFlags) (pat : List Nat) (pr : Prog)
    (h : compileCore env fl pat true = .ok pr)
    (hns : ∀ op s, parseExpr { pat := pat, fl := fl, env := env } (4 * pat.length + 16) {} true = .ok op s →
              noSat (optimize env fl op) = true ∧ noSat op = true) :
    progOK pr = true := by
  unfold compileCore at h
  by_cases hl : fl.literal = true
  · rw [if_pos hl] at h
    simp only [if_true, Out.ok.injEq] at h
    subst h
    have hwf : wfOp (makeSequence (.atom pat) .endProgram) = true := by simp [makeSequence, wfOp, wfOps]
    obtain ⟨e1, e2⟩ := mkProgram_op pat (makeSequence (.atom pat) .endProgram) 1 fl false
    simp only [progOK, Bool.and_eq_true]
    refine ⟨⟨⟨?_, ?_⟩, mkProgram_presOK _ _ _ _ _ hwf⟩, mkProgram_prefixOK _ _ _ _ _⟩
    · rw [e1, wfOp_numberReps]; exact hwf
    · rw [e1]
      unfold brOK
      rw [freeOKg_numberReps]
      simp [makeSequence, freeOKg, freeOKgL]
  · rw [if_neg hl] at h
    dsimp only at h
    cases hp : parseExpr { pat := pat, fl := fl, env := env } (4 * pat.length + 16) {} true with
    | err e => rw [hp] at h; cases h
    | ok op s =>
      rw [hp] at h
      dsimp only at h
      split at h
      · cases h
      · simp only [if_true, Out.ok.injEq] at h
        subst h
        obtain ⟨_, hns2⟩ := hns op s hp
        have g := (parse_G _ _).1 {} true (Nat.le_refl 1) op s hp
        have w1 : wfOp op = true := g.1 hns2
        have hwf : wfOp (optimize env fl op) = true := (wm_optimize env fl op w1).1
        have hbp : BP op s := (parse_BP _ _).1 {} true (Nat.le_refl 1) op s hp
        obtain ⟨hop, _, _, hhb, hmp, _⟩ := SearchComplete.mkProgram_shape pat (optimize env fl op) s.parens fl s.hasBackrefs
        simp only [progOK, Bool.and_eq_true]
        refine ⟨⟨⟨?_, ?_⟩, mkProgram_presOK _ _ _ _ _ hwf⟩, mkProgram_prefixOK _ _ _ _ _⟩
        · rw [hop, wfOp_numberReps]; exact hwf
        · rw [hop, hhb, hmp]
          unfold brOK
          rw [freeOKg_numberReps]
          apply freeOKg_optimize
          refine freeOKg_mono (fun g hg => hg) (fun g hg => ?_) op hbp
          simp only [decide_eq_true_eq] at hg
          simp only [Bool.or_eq_true, decide_eq_true_eq]
          exact .inr hg

end Rx
