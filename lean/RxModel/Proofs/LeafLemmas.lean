/-
  Proofs/LeafLemmas — helper lemmas for Props/C11, C12, C19 (leaf operations and their compilation):
  * `ite_elim` to walk down the long if-chain of `escape`
  * `backrefDigits` only grows the number; `escape` returns a back-reference only from the digit branch
  * `sameText` / `prefixMatch` pointwise characterisations
  * `Sorted`: canonicity without the `cpLimit` bound (so that `addChar` of an arbitrary number keeps
    the invariant), membership in `addChar` / `addChars`
  * the compiler functions that take the whole `PC` but read only `pat` do not depend on the flags
-/
import RxModel.Model.Compile
import RxModel.Proofs.CharSetLemmas
namespace Rx.Leaf
open Rx

/-! ### if-chains -/

theorem ite_elim {α : Sort _} {c : Prop} [Decidable c] {a b r : α} (h : (if c then a else b) = r)
    (ha : a ≠ r) : ¬ c ∧ b = r := by
  by_cases hc : c
  · rw [if_pos hc] at h; exact absurd h ha
  · rw [if_neg hc] at h; exact ⟨hc, h⟩

/-! ### back-references -/

theorem backrefDigits_ge (c : PC) (parens f idx n : Nat) :
    n ≤ (backrefDigits c parens f idx n).2 := by
  induction f generalizing idx n with
  | zero => simp [backrefDigits]
  | succ f ih =>
    simp only [backrefDigits]
    split
    · split
      · exact Nat.le_refl _
      · have := ih (idx + 1) (n * 10 + (c.at idx - 48))
        omega
    · exact Nat.le_refl _

theorem escape_backref (c : PC) (s s' : PS) (inBr : Bool) (n : Nat)
    (h : escape c s inBr = .ok (.backref n) s') :
    inBr = false ∧ c.fl.xsd = false ∧ n ∈ s.captures ∧ s'.hasBackrefs = true ∧ 1 ≤ n := by
  unfold escape at h
  simp only at h
  -- every branch before the digit branch returns an error, a character or a set
  iterate 19 (replace h := (ite_elim h (by intro h'; (repeat' (split at h')) <;> cases h')).2)
  by_cases hd : (decide (49 ≤ c.at (s.idx + 1)) && decide (c.at (s.idx + 1) ≤ 57)) = true
  · rw [if_pos hd] at h
    obtain ⟨h1, h⟩ := ite_elim h (by intro h'; cases h')
    obtain ⟨h2, h⟩ := ite_elim h (by intro h'; cases h')
    obtain ⟨h3, h⟩ := ite_elim h (by intro h'; cases h')
    injection h with h4 h5
    injection h4 with h4
    simp only [Bool.and_eq_true, decide_eq_true_eq] at hd
    have hge := backrefDigits_ge c s.parens (c.len + 1) (s.idx + 2) (c.at (s.idx + 1) - 48)
    subst h4 h5
    refine ⟨by simpa using h1, by simpa using h2, by simpa using h3, rfl, by omega⟩
  · rw [if_neg hd] at h; cases h

theorem sameText_iff (ctx : Ctx) (l p s : Nat) :
    sameText ctx l p s = true ↔
      ∀ k, k < l → ∃ a b, ctx.input[p + k]? = some a ∧ ctx.input[s + k]? = some b ∧ ctx.eqAt a b = true := by
  induction l generalizing p s with
  | zero => simp [sameText]
  | succ l ih =>
    constructor
    · intro h k hk
      simp only [sameText] at h
      cases hp : ctx.input[p]? with
      | none => simp [hp] at h
      | some a =>
        cases hs : ctx.input[s]? with
        | none => simp [hp, hs] at h
        | some b =>
          simp only [hp, hs, Bool.and_eq_true] at h
          cases k with
          | zero => exact ⟨a, b, by simpa using hp, by simpa using hs, h.1⟩
          | succ k =>
            have := (ih (p+1) (s+1)).1 h.2 k (by omega)
            rwa [show p + 1 + k = p + (k + 1) by omega, show s + 1 + k = s + (k + 1) by omega] at this
    · intro h
      obtain ⟨a, b, hp, hs, hab⟩ := h 0 (by omega)
      simp only [Nat.add_zero] at hp hs
      simp only [sameText, hp, hs, hab, Bool.true_and]
      apply (ih (p+1) (s+1)).2
      intro k hk
      have := h (k+1) (by omega)
      rwa [show p + 1 + k = p + (k + 1) by omega, show s + 1 + k = s + (k + 1) by omega]

/-! ### literals under flag i -/

theorem prefixMatch_ci (ctx : Ctx) (hcb : ctx.caseBlind = true) (cs xs : List Nat) :
    prefixMatch ctx cs xs = true ↔
      cs.length ≤ xs.length ∧ ∀ k (hk : k < cs.length) (hx : k < xs.length), eqCB ctx.lower xs[k] cs[k] = true := by
  induction cs generalizing xs with
  | nil => simp [prefixMatch]
  | cons c cs ih =>
    cases xs with
    | nil => simp [prefixMatch]
    | cons x xs =>
      simp only [prefixMatch, Bool.and_eq_true, ih, Ctx.eqAt, hcb, if_true, List.length_cons]
      constructor
      · rintro ⟨h0, hl, hk⟩
        refine ⟨by omega, ?_⟩
        intro k hk1 hk2
        cases k with
        | zero => simpa using h0
        | succ k =>
          simp only [List.getElem_cons_succ]
          exact hk k (by omega) (by omega)
      · rintro ⟨hl, hk⟩
        refine ⟨by simpa using hk 0 (by omega) (by omega), by omega, ?_⟩
        intro k hk1 hk2
        have h' := hk (k+1) (by omega) (by omega)
        simp only [List.getElem_cons_succ] at h'
        exact h'

/-! ### range lists without the `cpLimit` bound -/

/-- `C09.Chain` without the `cpLimit` bound: non-empty ranges, increasing, not adjacent -/
def Sorted (lo : Nat) : Ranges → Prop
  | [] => True
  | (a, b) :: rs => lo ≤ a ∧ a < b ∧ Sorted (b + 1) rs

theorem Sorted.mono {lo lo' : Nat} {rs : Ranges} (h : Sorted lo rs) (hl : lo' ≤ lo) :
    Sorted lo' rs := by
  cases rs with
  | nil => trivial
  | cons r rs =>
    obtain ⟨a, b⟩ := r
    simp only [Sorted] at h ⊢
    exact ⟨by omega, h.2.1, h.2.2⟩

theorem sorted_of_chain {lo : Nat} {rs : Ranges} (h : C09.Chain lo rs) : Sorted lo rs := by
  induction rs generalizing lo with
  | nil => trivial
  | cons r rs ih =>
    obtain ⟨a, b⟩ := r
    simp only [C09.Chain] at h
    simp only [Sorted]
    exact ⟨h.1, h.2.1, ih h.2.2.2⟩

theorem sorted_of_canon {rs : Ranges} (h : C09.Canon rs) : Sorted 0 rs :=
  sorted_of_chain (C09.chain_of_canon rs h)

theorem sorted_contains_addRange {lo : Nat} (rs : Ranges) (h : Sorted lo rs) (a b c : Nat) :
    clsContains (addRange a b rs) c = ((decide (a ≤ c) && decide (c < b)) || clsContains rs c) := by
  induction rs generalizing lo a b with
  | nil =>
    simp only [addRange]
    split
    · simp [clsContains]
    · grind [clsContains]
  | cons r rs ih =>
    obtain ⟨x, y⟩ := r
    simp only [Sorted] at h
    simp only [addRange]
    split
    · grind [clsContains]
    · split
      · simp only [clsContains]
      · split
        · simp only [clsContains, ih h.2.2]
          grind [clsContains]
        · rw [ih h.2.2]
          grind [clsContains]

theorem sorted_addRange {lo : Nat} (rs : Ranges) (h : Sorted lo rs) (a b : Nat) (ha : lo ≤ a) :
    Sorted lo (addRange a b rs) := by
  induction rs generalizing lo a b with
  | nil =>
    simp only [addRange]
    split
    · simp only [Sorted]; exact ⟨ha, by assumption, trivial⟩
    · trivial
  | cons r rs ih =>
    obtain ⟨x, y⟩ := r
    have h' := h
    simp only [Sorted] at h'
    simp only [addRange]
    split
    · exact h
    · split
      · simp only [Sorted]
        exact ⟨ha, by omega, by omega, h'.2.1, h'.2.2⟩
      · split
        · simp only [Sorted]
          exact ⟨h'.1, h'.2.1, ih h'.2.2 a b (by omega)⟩
        · apply ih (h'.2.2.mono (by omega))
          simp only [Nat.min_def]; split <;> omega

theorem sorted_contains_addChar (rs : Ranges) (h : Sorted 0 rs) (ch x : Nat) :
    clsContains (addChar ch rs) x = (decide (x = ch) || clsContains rs x) := by
  unfold addChar
  rw [sorted_contains_addRange rs h]
  grind

theorem sorted_addChar (rs : Ranges) (h : Sorted 0 rs) (ch : Nat) : Sorted 0 (addChar ch rs) :=
  sorted_addRange rs h _ _ (Nat.zero_le _)

theorem addChars_spec (l : List Nat) (rs : Ranges) (h : Sorted 0 rs) (x : Nat) :
    clsContains (addChars l rs) x = (l.contains x || clsContains rs x) ∧ Sorted 0 (addChars l rs) := by
  induction l generalizing rs with
  | nil => simp [addChars, h]
  | cons ch l ih =>
    have hs := sorted_addChar rs h ch
    have hc := sorted_contains_addChar rs h ch x
    obtain ⟨h1, h2⟩ := ih (addChar ch rs) hs
    refine ⟨?_, h2⟩
    simp only [addChars, h1, hc, List.contains_cons]
    grind


/-! ### functions of the pattern text only -/

theorem PC.at_fl (c : PC) (fl : CFlags) (i : Nat) : PC.at { c with fl := fl } i = PC.at c i := rfl
theorem PC.len_fl (c : PC) (fl : CFlags) : PC.len { c with fl := fl } = PC.len c := rfl

theorem findClose_fl (c : PC) (fl : CFlags) (f i : Nat) :
    findClose { c with fl := fl } f i = findClose c f i := by
  induction f generalizing i with
  | zero => rfl
  | succ f ih => simp only [findClose, PC.at_fl, PC.len_fl, ih]

theorem backrefDigits_fl (c : PC) (fl : CFlags) (parens f idx n : Nat) :
    backrefDigits { c with fl := fl } parens f idx n = backrefDigits c parens f idx n := by
  induction f generalizing idx n with
  | zero => rfl
  | succ f ih => simp only [backrefDigits, PC.at_fl, PC.len_fl, ih]; rfl

/-- `escape` reads the pattern, the environment and the dialect flag — nothing else -/
theorem escape_fl (c : PC) (fl : CFlags) (hx : fl.xsd = c.fl.xsd) (s : PS) (inBr : Bool) :
    escape { c with fl := fl } s inBr = escape c s inBr := by
  unfold escape
  simp only [PC.at_fl, PC.len_fl, findClose_fl, backrefDigits_fl, hx]
  rfl

end Rx.Leaf
