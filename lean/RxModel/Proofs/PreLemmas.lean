/-
  Proofs/PreLemmas — helper lemmas for Props/C08b (positional preconditions are sound):
  fixed match lengths in terms of the language `OpR` (exact below saturation, a lower bound at
  saturation), and the structural induction over `addPre` / `addPreSeq`.
-/
import RxModel.Spec.OpLang
import RxModel.Model.Program
import RxModel.Proofs.EngineSound
import RxModel.Proofs.OptLemmas
import RxModel.Proofs.LawLemmas
namespace Rx.C08
open Rx

/-- what `check_preconditions(start)` demands for one recorded precondition, in terms of the language -/
def PreOK (ctx : Ctx) (q : Pre) (start : Nat) : Prop :=
  match q.fixed with
  | some f => ∃ n, OpR ctx q.op f n
  | none => ∃ k n, start ≤ k ∧ q.minPos ≤ k ∧ k < ctx.len ∧ OpR ctx q.op k n

mutual
/-- no empty literal (the compiler never builds one outside the literal program `atom "" · end`,
    whose preconditions are never consulted because it has a prefix) -/
def noEmptyAtoms : Op → Bool
  | .atom cs => !cs.isEmpty
  | .capture _ c => noEmptyAtoms c
  | .choice bs => noEmptyAtomsL bs
  | .seq ops => noEmptyAtomsL ops
  | .rep _ c _ _ _ => noEmptyAtoms c
  | .gfixed c _ _ _ => noEmptyAtoms c
  | .rfixed c _ _ _ => noEmptyAtoms c
  | .unamb c _ _ => noEmptyAtoms c
  | _ => true
termination_by structural o => o
def noEmptyAtomsL : List Op → Bool
  | [] => true
  | o :: os => noEmptyAtoms o && noEmptyAtomsL os
termination_by structural l => l
end

end Rx.C08

namespace Rx.PreL
open Rx Rx.C08

/-! ### fixed match lengths against `OpR` -/

/-- the (possibly saturated) value `l` of `get_match_length` describes the step `x → y`:
    it is a lower bound of the real length, and the real length when it is not saturated -/
def ML (l x y : Nat) : Prop := x + l ≤ y ∧ (l < usizeMax → y = x + l)

theorem IterR_ML {R : Nat → Nat → Prop} {lc : Nat} (hR : ∀ a b, R a b → ML lc a b)
    {k p q : Nat} (h : IterR R k p q) : p + k * lc ≤ q ∧ (lc < usizeMax → q = p + k * lc) := by
  induction h with
  | zero p => simp
  | succ _ hr ih =>
    obtain ⟨h1, h2⟩ := hR _ _ hr
    rw [Nat.succ_mul]
    refine ⟨by omega, fun hl => ?_⟩
    have := h2 hl
    have := ih.2 hl
    omega

theorem rep_ML {R : Nat → Nat → Prop} {mn mx lc l x y : Nat} (hmm : mn = mx) (hpos : 0 < mx)
    (hl : satMul mn lc = l) (hR : ∀ a b, R a b → ML lc a b)
    (h : ∃ k, mn ≤ k ∧ k ≤ mx ∧ IterR R k x y) : ML l x y := by
  obtain ⟨k, h1, h2, hi⟩ := h
  have hk : k = mn := by omega
  subst hk
  obtain ⟨a1, a2⟩ := IterR_ML hR hi
  have h3 := OptL.satMul_le k lc
  refine ⟨by omega, fun hlt => ?_⟩
  have hml := satMul_eq hl hlt
  have h4 : lc ≤ k * lc := Nat.le_mul_of_pos_left lc (by omega)
  have := a2 (by omega)
  omega

mutual
theorem ML_op (ctx : Ctx) : (op : Op) → wfOp op = true → ∀ l, matchLen op = some l →
    ∀ x y, OpR ctx op x y → ML l x y
  | .bol, _, l, hl, x, y, h => by
    simp only [matchLen, Option.some.injEq] at hl; subst hl
    simp only [OpR] at h; simp only [ML]; omega
  | .eol, _, l, hl, x, y, h => by
    simp only [matchLen, Option.some.injEq] at hl; subst hl
    simp only [OpR] at h; simp only [ML]; omega
  | .nothing, _, l, hl, x, y, h => by
    simp only [matchLen, Option.some.injEq] at hl; subst hl
    simp only [OpR] at h; simp only [ML]; omega
  | .endProgram, _, l, hl, x, y, h => by
    simp only [matchLen, Option.some.injEq] at hl; subst hl
    simp only [OpR] at h; simp only [ML]; omega
  | .atom cs, _, l, hl, x, y, h => by
    simp only [matchLen, Option.some.injEq] at hl; subst hl
    simp only [OpR] at h; simp only [ML]; omega
  | .cls rs, _, l, hl, x, y, h => by
    simp only [matchLen, Option.some.injEq] at hl; subst hl
    simp only [OpR] at h; simp only [ML]; omega
  | .backref g, _, l, hl, _, _, _ => by simp [matchLen] at hl
  | .capture g c, hwf, l, hl, x, y, h => by
    simp only [wfOp] at hwf
    simp only [matchLen] at hl
    simp only [OpR] at h
    exact ML_op ctx c hwf l hl x y h
  | .choice bs, hwf, l, hl, x, y, h => by
    simp only [wfOp, Bool.and_eq_true] at hwf
    simp only [matchLen] at hl
    simp only [OpR] at h
    exact ML_choice ctx bs hwf.2 l hl x y h
  | .seq ops, hwf, l, hl, x, y, h => by
    simp only [wfOp, Bool.and_eq_true] at hwf
    simp only [matchLen] at hl
    simp only [OpR] at h
    exact ML_seq ctx ops hwf.2 l hl x y h
  | .rep id c mn mx greedy, hwf, l, hl, x, y, h => by
    simp only [wfOp, Bool.and_eq_true, decide_eq_true_eq] at hwf
    obtain ⟨⟨hwc, hmm⟩, hmx⟩ := hwf
    simp only [matchLen] at hl
    simp only [OpR] at h
    cases hc : matchLen c with
    | none => simp [hc] at hl
    | some lc =>
      simp only [hc] at hl
      split at hl
      · rename_i heq
        simp only [beq_iff_eq] at heq
        simp only [Option.some.injEq] at hl
        exact rep_ML heq hmx hl (fun a b hab => ML_op ctx c hwc lc hc a b hab) h
      · simp at hl
  | .gfixed c mn mx len, hwf, l, hl, x, y, h => by
    simp only [wfOp, Bool.and_eq_true, decide_eq_true_eq, beq_iff_eq] at hwf
    obtain ⟨⟨⟨⟨⟨hwc, hc⟩, hlen0⟩, hlen1⟩, hmm⟩, hmx⟩ := hwf
    simp only [matchLen] at hl
    simp only [OpR] at h
    split at hl
    · rename_i heq
      simp only [beq_iff_eq] at heq
      simp only [Option.some.injEq] at hl
      exact rep_ML heq hmx hl (fun a b hab => ML_op ctx c hwc len hc a b hab) h
    · simp at hl
  | .rfixed c mn mx len, hwf, l, hl, x, y, h => by
    simp only [wfOp, Bool.and_eq_true, decide_eq_true_eq, beq_iff_eq] at hwf
    obtain ⟨⟨⟨⟨⟨hwc, hc⟩, hlen0⟩, hlen1⟩, hmm⟩, hmx⟩ := hwf
    simp only [matchLen] at hl
    simp only [OpR] at h
    split at hl
    · rename_i heq
      simp only [beq_iff_eq] at heq
      simp only [Option.some.injEq] at hl
      exact rep_ML heq hmx hl (fun a b hab => ML_op ctx c hwc len hc a b hab) h
    · simp at hl
  | .unamb c mn mx, hwf, l, hl, x, y, h => by
    simp only [wfOp, Bool.and_eq_true, decide_eq_true_eq] at hwf
    obtain ⟨⟨hwc, hmm⟩, hmx⟩ := hwf
    simp only [matchLen] at hl
    simp only [OpR] at h
    cases hc : matchLen c with
    | none => simp [hc] at hl
    | some lc =>
      simp only [hc] at hl
      split at hl
      · rename_i heq
        simp only [beq_iff_eq] at heq
        simp only [Option.some.injEq] at hl
        exact rep_ML heq hmx hl (fun a b hab => ML_op ctx c hwc lc hc a b hab) h
      · simp at hl
termination_by structural op => op
theorem ML_choice (ctx : Ctx) : (bs : List Op) → wfOps bs = true → ∀ l,
    matchLenChoice bs = some l → ∀ x y, OpRAny ctx bs x y → ML l x y
  | [], _, l, hl, _, _, _ => by simp [matchLenChoice] at hl
  | b :: bs, hwf, l, hl, x, y, h => by
    simp only [wfOps, Bool.and_eq_true] at hwf
    simp only [matchLenChoice] at hl
    simp only [OpRAny] at h
    split at hl
    · rename_i hall
      rw [hl] at hall
      rcases h with h | h
      · exact ML_op ctx b hwf.1 l hl x y h
      · exact ML_allEq ctx bs hwf.2 l hall x y h
    · simp at hl
termination_by structural bs => bs
theorem ML_allEq (ctx : Ctx) : (bs : List Op) → wfOps bs = true → ∀ l,
    matchLenAllEq (some l) bs = true → ∀ x y, OpRAny ctx bs x y → ML l x y
  | [], _, l, _, _, _, h => by simp only [OpRAny] at h
  | b :: bs, hwf, l, hl, x, y, h => by
    simp only [wfOps, Bool.and_eq_true] at hwf
    simp only [matchLenAllEq, Bool.and_eq_true, beq_iff_eq] at hl
    simp only [OpRAny] at h
    rcases h with h | h
    · exact ML_op ctx b hwf.1 l hl.1 x y h
    · exact ML_allEq ctx bs hwf.2 l hl.2 x y h
termination_by structural bs => bs
theorem ML_seq (ctx : Ctx) : (ops : List Op) → wfOps ops = true → ∀ l,
    matchLenSeq ops = some l → ∀ x y, OpRSeq ctx ops x y → ML l x y
  | [], _, l, hl, x, y, h => by
    simp only [matchLenSeq, Option.some.injEq] at hl; subst hl
    simp only [OpRSeq] at h; simp only [ML]; omega
  | o :: os, hwf, l, hl, x, y, h => by
    simp only [wfOps, Bool.and_eq_true] at hwf
    simp only [matchLenSeq] at hl
    simp only [OpRSeq] at h
    obtain ⟨m, h1, h2⟩ := h
    cases ha : matchLen o with
    | none => simp [ha] at hl
    | some a =>
      cases hb : matchLenSeq os with
      | none => simp [ha, hb] at hl
      | some b =>
        simp only [ha, hb, Option.some.injEq] at hl
        obtain ⟨a1, a2⟩ := ML_op ctx o hwf.1 a ha x m h1
        obtain ⟨b1, b2⟩ := ML_seq ctx os hwf.2 b hb m y h2
        have hle := OptL.satAdd_le a b
        refine ⟨by omega, fun hlt => ?_⟩
        have hab := satAdd_eq hl hlt
        have := a2 (by omega)
        have := b2 (by omega)
        omega
termination_by structural ops => ops
end

/-- a fixed length claimed for an operation that matches inside an input shorter than
    `usize::MAX` is not saturated, hence exact -/
theorem ML_exact (ctx : Ctx) (hlen : ctx.len < usizeMax) (op : Op) (hwf : wfOp op = true) (l : Nat)
    (hl : matchLen op = some l) (x y : Nat) (hy : y ≤ ctx.len) (h : OpR ctx op x y) :
    l < usizeMax ∧ y = x + l := by
  obtain ⟨a1, a2⟩ := ML_op ctx op hwf l hl x y h
  have hlt : l < usizeMax := by omega
  exact ⟨hlt, a2 hlt⟩

/-! ### recorded preconditions -/

theorem PreOK_mk (ctx : Ctx) (o : Op) (fp : Option Nat) (mp start x y : Nat)
    (h : OpR ctx o x y) (hfp : ∀ f, fp = some f → x = f) (hmp : mp ≤ x) (hst : start ≤ x)
    (hx : x < ctx.len) : PreOK ctx { op := o, fixed := fp, minPos := mp } start := by
  cases fp with
  | none => exact ⟨x, y, hst, hmp, hx, h⟩
  | some f =>
    have := hfp f rfl
    subst this
    exact ⟨y, h⟩

/-- a (non-empty) literal or a class consumes at least one character -/
theorem atomcls_nonempty (ctx : Ctx) (c : Op) (hac : isAtomOrClass c = true)
    (hne : noEmptyAtoms c = true) (x m : Nat) (h : OpR ctx c x m) : x < m := by
  cases c with
  | atom cs =>
    cases cs with
    | nil => simp [noEmptyAtoms] at hne
    | cons a t => simp only [OpR, List.length_cons] at h; omega
  | cls rs => simp only [OpR] at h; omega
  | _ => simp [isAtomOrClass] at hac

/-- the common shape of the four repeat forms in `add_precondition` -/
theorem rep_case (ctx : Ctx) (c self : Op) (mn mx : Nat) (hne : noEmptyAtoms c = true)
    (fp : Option Nat) (mp start x y : Nat)
    (hself : OpR ctx self x y)
    (hR : ∃ k, mn ≤ k ∧ k ≤ mx ∧ IterR (fun a b => OpR ctx c a b) k x y)
    (hx : x ≤ ctx.len) (hfp : ∀ f, fp = some f → x = f) (hmp : mp ≤ x) (hst : start ≤ x)
    (IH : ∀ m, OpR ctx c x m → ∀ q ∈ addPre ctx.multiLine c fp mp, PreOK ctx q start) :
    ∀ q ∈ (if mn ≥ 1 then
        (if isAtomOrClass c then
          (if mn == 1 then [({ op := self, fixed := fp, minPos := mp } : Pre)]
           else [{ op := .rep 0 c mn mn true, fixed := fp, minPos := mp }])
         else addPre ctx.multiLine c fp mp)
      else []), PreOK ctx q start := by
  intro q hq
  obtain ⟨k, hk1, hk2, hi⟩ := hR
  by_cases h1 : mn ≥ 1
  · rw [if_pos h1] at hq
    obtain ⟨k', rfl⟩ : ∃ k', k = k' + 1 := ⟨k - 1, by omega⟩
    obtain ⟨m, hm, _⟩ := IterR.uncons hi
    by_cases hac : isAtomOrClass c = true
    · rw [if_pos hac] at hq
      have hlt := atomcls_nonempty ctx c hac hne x m hm
      have hb := OpR_bounds_op ctx c x m hx hm
      have hxl : x < ctx.len := by omega
      by_cases h2 : (mn == 1) = true
      · rw [if_pos h2] at hq
        simp only [List.mem_singleton] at hq; subst hq
        exact PreOK_mk ctx self fp mp start x y hself hfp hmp hst hxl
      · rw [if_neg h2] at hq
        simp only [List.mem_singleton] at hq; subst hq
        have hi' : IterR (fun a b => OpR ctx c a b) (mn + (k' + 1 - mn)) x y := by
          rwa [show mn + (k' + 1 - mn) = k' + 1 by omega]
        obtain ⟨z, hz, _⟩ := IterR.split mn (k' + 1 - mn) hi'
        refine PreOK_mk ctx _ fp mp start x z ?_ hfp hmp hst hxl
        simp only [OpR]
        exact ⟨mn, Nat.le_refl _, Nat.le_refl _, hz⟩
    · rw [if_neg hac] at hq
      exact IH m hm q hq
  · rw [if_neg h1] at hq
    cases hq

/-- the fixed position handed to an element of a sequence -/
def fp1 (ml : Bool) (o : Op) (fp : Option Nat) : Option Nat := if isBol o && !ml then some 0 else fp

/-- the fixed position handed to the rest of the sequence -/
def fp2 (fp : Option Nat) (o : Op) : Option Nat :=
  match fp, matchLen o with
  | some f, some l => some (satAdd f l)
  | _, _ => none

theorem addPreSeq_cons (ml : Bool) (o : Op) (os : List Op) (fp : Option Nat) (mp : Nat) :
    addPreSeq ml (o :: os) fp mp =
      addPre ml o (fp1 ml o fp) mp ++ addPreSeq ml os (fp2 (fp1 ml o fp) o) (satAdd mp (minLenOp o)) := by
  simp only [addPreSeq, fp1, fp2]
  rfl

theorem fp1_ok (ctx : Ctx) (o : Op) (fp : Option Nat) (x m : Nat) (h : OpR ctx o x m)
    (hfp : ∀ f, fp = some f → x = f) : ∀ f, fp1 ctx.multiLine o fp = some f → x = f := by
  intro f hf
  unfold fp1 at hf
  split at hf
  · rename_i hc
    simp only [Bool.and_eq_true, Bool.not_eq_true'] at hc
    obtain ⟨hb, hml⟩ := hc
    cases o with
    | bol =>
      simp only [OpR, hml] at h
      simp only [Option.some.injEq] at hf
      rcases h.2 with h0 | h0
      · omega
      · simp at h0
    | _ => simp [isBol] at hb
  · exact hfp f hf

theorem fp2_ok (ctx : Ctx) (hlen : ctx.len < usizeMax) (o : Op) (hwf : wfOp o = true)
    (fp : Option Nat) (x m : Nat) (h : OpR ctx o x m) (hm : m ≤ ctx.len)
    (hfp : ∀ f, fp = some f → x = f) : ∀ f, fp2 fp o = some f → m = f := by
  intro f' hf
  unfold fp2 at hf
  cases fp with
  | none => simp at hf
  | some f =>
    cases hl : matchLen o with
    | none => simp [hl] at hf
    | some l =>
      simp only [hl, Option.some.injEq] at hf
      have hxf := hfp f rfl
      subst hxf
      obtain ⟨_, hy⟩ := ML_exact ctx hlen o hwf l hl x m hm h
      unfold satAdd at hf
      change min (x + l) usizeMax = f' at hf
      rw [Nat.min_def] at hf
      split at hf <;> omega

mutual
theorem addPre_op (ctx : Ctx) (hlen : ctx.len < usizeMax) : (op : Op) → wfOp op = true →
    noEmptyAtoms op = true → ∀ (fp : Option Nat) (mp start x y : Nat), OpR ctx op x y →
    x ≤ ctx.len → (∀ f, fp = some f → x = f) → mp ≤ x → start ≤ x →
    ∀ q ∈ addPre ctx.multiLine op fp mp, PreOK ctx q start
  | .bol, _, _, fp, mp, start, x, y, _, _, _, _, _ => by
    intro q hq; simp only [addPre] at hq; cases hq
  | .eol, _, _, fp, mp, start, x, y, _, _, _, _, _ => by
    intro q hq; simp only [addPre] at hq; cases hq
  | .nothing, _, _, fp, mp, start, x, y, _, _, _, _, _ => by
    intro q hq; simp only [addPre] at hq; cases hq
  | .endProgram, _, _, fp, mp, start, x, y, _, _, _, _, _ => by
    intro q hq; simp only [addPre] at hq; cases hq
  | .backref _, _, _, fp, mp, start, x, y, _, _, _, _, _ => by
    intro q hq; simp only [addPre] at hq; cases hq
  | .choice _, _, _, fp, mp, start, x, y, _, _, _, _, _ => by
    intro q hq; simp only [addPre] at hq; cases hq
  | .atom cs, _, hne, fp, mp, start, x, y, h, hx, hfp, hmp, hst => by
    intro q hq
    simp only [addPre, List.mem_singleton] at hq; subst hq
    have hlt := atomcls_nonempty ctx (.atom cs) rfl hne x y h
    have hb := OpR_bounds_op ctx _ x y hx h
    exact PreOK_mk ctx _ fp mp start x y h hfp hmp hst (by omega)
  | .cls rs, _, hne, fp, mp, start, x, y, h, hx, hfp, hmp, hst => by
    intro q hq
    simp only [addPre, List.mem_singleton] at hq; subst hq
    have hlt := atomcls_nonempty ctx (.cls rs) rfl hne x y h
    have hb := OpR_bounds_op ctx _ x y hx h
    exact PreOK_mk ctx _ fp mp start x y h hfp hmp hst (by omega)
  | .capture _ c, hwf, hne, fp, mp, start, x, y, h, hx, hfp, hmp, hst => by
    simp only [wfOp] at hwf
    simp only [noEmptyAtoms] at hne
    simp only [OpR] at h
    simp only [addPre]
    exact addPre_op ctx hlen c hwf hne fp mp start x y h hx hfp hmp hst
  | .seq ops, hwf, hne, fp, mp, start, x, y, h, hx, hfp, hmp, hst => by
    simp only [wfOp, Bool.and_eq_true] at hwf
    simp only [noEmptyAtoms] at hne
    simp only [OpR] at h
    simp only [addPre]
    exact addPre_seq ctx hlen ops hwf.2 hne fp mp start x y h hx hfp hmp hst
  | .rep id c mn mx g, hwf, hne, fp, mp, start, x, y, h, hx, hfp, hmp, hst => by
    simp only [wfOp, Bool.and_eq_true] at hwf
    simp only [noEmptyAtoms] at hne
    have hR : ∃ k, mn ≤ k ∧ k ≤ mx ∧ IterR (fun a b => OpR ctx c a b) k x y := by
      simpa only [OpR] using h
    simp only [addPre]
    exact rep_case ctx c _ mn mx hne fp mp start x y h hR hx hfp hmp hst
      (fun m hm => addPre_op ctx hlen c hwf.1.1 hne fp mp start x m hm hx hfp hmp hst)
  | .gfixed c mn mx len, hwf, hne, fp, mp, start, x, y, h, hx, hfp, hmp, hst => by
    simp only [wfOp, Bool.and_eq_true] at hwf
    simp only [noEmptyAtoms] at hne
    have hR : ∃ k, mn ≤ k ∧ k ≤ mx ∧ IterR (fun a b => OpR ctx c a b) k x y := by
      simpa only [OpR] using h
    simp only [addPre]
    exact rep_case ctx c _ mn mx hne fp mp start x y h hR hx hfp hmp hst
      (fun m hm => addPre_op ctx hlen c hwf.1.1.1.1.1 hne fp mp start x m hm hx hfp hmp hst)
  | .rfixed c mn mx len, hwf, hne, fp, mp, start, x, y, h, hx, hfp, hmp, hst => by
    simp only [wfOp, Bool.and_eq_true] at hwf
    simp only [noEmptyAtoms] at hne
    have hR : ∃ k, mn ≤ k ∧ k ≤ mx ∧ IterR (fun a b => OpR ctx c a b) k x y := by
      simpa only [OpR] using h
    simp only [addPre]
    exact rep_case ctx c _ mn mx hne fp mp start x y h hR hx hfp hmp hst
      (fun m hm => addPre_op ctx hlen c hwf.1.1.1.1.1 hne fp mp start x m hm hx hfp hmp hst)
  | .unamb c mn mx, hwf, hne, fp, mp, start, x, y, h, hx, hfp, hmp, hst => by
    simp only [wfOp, Bool.and_eq_true] at hwf
    simp only [noEmptyAtoms] at hne
    have hR : ∃ k, mn ≤ k ∧ k ≤ mx ∧ IterR (fun a b => OpR ctx c a b) k x y := by
      simpa only [OpR] using h
    simp only [addPre]
    exact rep_case ctx c _ mn mx hne fp mp start x y h hR hx hfp hmp hst
      (fun m hm => addPre_op ctx hlen c hwf.1.1 hne fp mp start x m hm hx hfp hmp hst)
termination_by structural op => op
theorem addPre_seq (ctx : Ctx) (hlen : ctx.len < usizeMax) : (ops : List Op) → wfOps ops = true →
    noEmptyAtomsL ops = true → ∀ (fp : Option Nat) (mp start x y : Nat), OpRSeq ctx ops x y →
    x ≤ ctx.len → (∀ f, fp = some f → x = f) → mp ≤ x → start ≤ x →
    ∀ q ∈ addPreSeq ctx.multiLine ops fp mp, PreOK ctx q start
  | [], _, _, fp, mp, start, x, y, _, _, _, _, _ => by
    intro q hq; simp only [addPreSeq] at hq; cases hq
  | o :: os, hwf, hne, fp, mp, start, x, y, h, hx, hfp, hmp, hst => by
    simp only [wfOps, Bool.and_eq_true] at hwf
    simp only [noEmptyAtomsL, Bool.and_eq_true] at hne
    simp only [OpRSeq] at h
    obtain ⟨m, h1, h2⟩ := h
    have hb := OpR_bounds_op ctx o x m hx h1
    have hfp1 := fp1_ok ctx o fp x m h1 hfp
    have hfp2 := fp2_ok ctx hlen o hwf.1 _ x m h1 hb.2 hfp1
    have hmin := OptL.minLen_op ctx o x m h1
    have hsat := OptL.satAdd_le mp (minLenOp o)
    intro q hq
    rw [addPreSeq_cons, List.mem_append] at hq
    rcases hq with hq | hq
    · exact addPre_op ctx hlen o hwf.1 hne.1 _ mp start x m h1 hx hfp1 hmp hst q hq
    · exact addPre_seq ctx hlen os hwf.2 hne.2 _ _ start m y h2 hb.2 hfp2 (by omega) (by omega) q hq
termination_by structural ops => ops
end

end Rx.PreL
