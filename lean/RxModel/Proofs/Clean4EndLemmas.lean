/-
  Proofs/Clean4EndLemmas — helper lemmas for Props/Clean4End: `optimize` preserves the enumeration `enum4`
  of a parser tree of the fragment `src4` (Proofs/Clean4OptLemmas): equal AS LISTS on trees without
  EndProgram (`enumEq4_op` / `enumEq4_any` / `enumEq4_seq`), equal HEADS on the root sequence (`headEq4_seq`).
  The induction is the one of Props/Clean2End over `enum4`; the new node `.rep id c mn mx g` is the
  congruence of `greedyIter` / `reluctIter` in the body enumeration, the body itself (a tree of the OLD
  fragment) being handled by `Clean2End.optimize_enum_eq`.
-/
import RxModel.Props.Clean2End
import RxModel.Proofs.Clean4OptLemmas
namespace Rx.Clean4EndL
open Rx Rx.Clean2Opt Rx.SearchComplete Rx.Clean4OptL
open Rx.Clean2End (Setting Progress flatMap_congr' flatMap_head_congr greedyIter_congr reluctIter_congr
  prog_of_fixedBody)
open Rx.OptL (seqElem optimizeSeq_cons2)
open Rx.C08 (noEmptyAtoms noEmptyAtomsL clsCanon clsCanonL)

/-! ### on trees of the OLD fragment `enum4` is `enum` -/

mutual
theorem enum4_eq_enum (ctx : Ctx) : (op : Op) → cleanOp op = true → enum4 ctx op = enum ctx op
  | .bol, _ => by funext p; simp only [enum4, enum]
  | .eol, _ => by funext p; simp only [enum4, enum]
  | .nothing, _ => by funext p; simp only [enum4, enum]
  | .endProgram, _ => by funext p; simp only [enum4, enum]
  | .atom _, _ => by funext p; simp only [enum4, enum]
  | .cls _, _ => by funext p; simp only [enum4, enum]; cases ctx.input[p]? <;> rfl
  | .backref _, h | .rep _ _ _ _ _, h | .unamb _ _ _, h => by simp [cleanOp] at h
  | .capture _ c, h => by
    simp only [cleanOp] at h
    funext p; simp only [enum4, enum]; rw [enum4_eq_enum ctx c h]
  | .choice bs, h => by
    simp only [cleanOp] at h
    funext p; simp only [enum4, enum]; rw [enumAny4_eq_enumAny ctx bs h]
  | .seq ops, h => by
    simp only [cleanOp] at h
    funext p; simp only [enum4, enum]; rw [enumSeq4_eq_enumSeq ctx ops h]
  | .gfixed c _ _ _, h => by
    simp only [cleanOp] at h
    funext p; simp only [enum4, enum]; rw [enum4_eq_enum ctx c h]
  | .rfixed c _ _ _, h => by
    simp only [cleanOp] at h
    funext p; simp only [enum4, enum]; rw [enum4_eq_enum ctx c h]
termination_by structural op => op
theorem enumAny4_eq_enumAny (ctx : Ctx) : (bs : List Op) → cleanOps bs = true → enumAny4 ctx bs = enumAny ctx bs
  | [], _ => by funext p; simp only [enumAny4, enumAny]
  | b :: bs, h => by
    simp only [cleanOps, Bool.and_eq_true] at h
    funext p; simp only [enumAny4, enumAny]; rw [enum4_eq_enum ctx b h.1, enumAny4_eq_enumAny ctx bs h.2]
termination_by structural bs => bs
theorem enumSeq4_eq_enumSeq (ctx : Ctx) : (ops : List Op) → cleanOps ops = true → enumSeq4 ctx ops = enumSeq ctx ops
  | [], _ => by funext p; simp only [enumSeq4, enumSeq]
  | o :: os, h => by
    simp only [cleanOps, Bool.and_eq_true] at h
    funext p; simp only [enumSeq4, enumSeq]; rw [enum4_eq_enum ctx o h.1, enumSeq4_eq_enumSeq ctx os h.2]
termination_by structural ops => ops
end

/-! ### the hypotheses on an un-optimised tree of the fragment `src4` -/

structure Tree4OK (env : Env) (fl : CFlags) (op : Op) : Prop where
  src : src4 env fl op = true
  wf : wfOp op = true
  ge2 : seqGe2 op = true
  ne : noEmptyAtoms op = true
  can : clsCanonB op = true

structure List4OK (env : Env) (fl : CFlags) (l : List Op) : Prop where
  src : src4L env fl l = true
  wf : wfOps l = true
  ge2 : seqGe2L l = true
  ne : noEmptyAtomsL l = true
  can : clsCanonBL l = true

variable {env : Env} {fl : CFlags}

theorem List4OK.head {o : Op} {l : List Op} (h : List4OK env fl (o :: l)) : Tree4OK env fl o := by
  obtain ⟨a, b, c, d, e⟩ := h
  simp only [src4L, wfOps, seqGe2L, noEmptyAtomsL, clsCanonBL, Bool.and_eq_true] at a b c d e
  exact ⟨a.1, b.1, c.1, d.1, e.1⟩

theorem List4OK.tail {o : Op} {l : List Op} (h : List4OK env fl (o :: l)) : List4OK env fl l := by
  obtain ⟨a, b, c, d, e⟩ := h
  simp only [src4L, wfOps, seqGe2L, noEmptyAtomsL, clsCanonBL, Bool.and_eq_true] at a b c d e
  exact ⟨a.2, b.2, c.2, d.2, e.2⟩

theorem Tree4OK.capture {g : Nat} {c : Op} (h : Tree4OK env fl (.capture g c)) : Tree4OK env fl c := by
  obtain ⟨a, b, c', d, e⟩ := h
  simp only [src4, wfOp, seqGe2, noEmptyAtoms, clsCanonB] at a b c' d e
  exact ⟨a, b, c', d, e⟩

theorem Tree4OK.choice {bs : List Op} (h : Tree4OK env fl (.choice bs)) : List4OK env fl bs := by
  obtain ⟨a, b, c', d, e⟩ := h
  simp only [src4, wfOp, seqGe2, noEmptyAtoms, clsCanonB, Bool.and_eq_true] at a b c' d e
  exact ⟨a, b.2, c', d, e⟩

theorem Tree4OK.seq {l : List Op} (h : Tree4OK env fl (.seq l)) : List4OK env fl l ∧ 2 ≤ l.length := by
  obtain ⟨a, b, c', d, e⟩ := h
  simp only [src4, wfOp, seqGe2, noEmptyAtoms, clsCanonB, Bool.and_eq_true, decide_eq_true_eq] at a b c' d e
  exact ⟨⟨a, b.2, c'.2, d, e⟩, c'.1⟩

theorem Tree4OK.gfixed {c : Op} {mn mx len : Nat} (h : Tree4OK env fl (.gfixed c mn mx len)) :
    Tree4OK env fl c := by
  obtain ⟨a, b, c', d, e⟩ := h
  simp only [src4, seqGe2, noEmptyAtoms, clsCanonB] at a c' d e
  simp only [wfOp, Bool.and_eq_true] at b
  exact ⟨a, b.1.1.1.1.1, c', d, e⟩

theorem Tree4OK.rfixed {c : Op} {mn mx len : Nat} (h : Tree4OK env fl (.rfixed c mn mx len)) :
    Tree4OK env fl c := by
  obtain ⟨a, b, c', d, e⟩ := h
  simp only [src4, seqGe2, noEmptyAtoms, clsCanonB] at a c' d e
  simp only [wfOp, Bool.and_eq_true] at b
  exact ⟨a, b.1.1.1.1.1, c', d, e⟩

/-- the body of a general repeat is a tree of the OLD fragment -/
theorem Tree4OK.rep {id : Nat} {c : Op} {mn mx : Nat} {g : Bool} (h : Tree4OK env fl (.rep id c mn mx g)) :
    Clean2End.TreeOK c := by
  obtain ⟨a, b, c', d, e⟩ := h
  simp only [src4, Bool.and_eq_true] at a
  simp only [seqGe2, noEmptyAtoms, clsCanonB] at c' d e
  simp only [wfOp, Bool.and_eq_true] at b
  exact ⟨a.1.1.1.1.1.2, b.1.1, c', d, e⟩

/-- a tree of the OLD fragment is a tree of `src4` -/
theorem Tree4OK.clean4 {o : Op} (h : Tree4OK env fl o) (ctx : Ctx) (S : Setting env fl ctx) (top : Bool)
    (F : List Op) : cleanOp4F env ctx.caseBlind ctx.multiLine top F o = true := by
  rw [S.hcb, S.hml]; exact src4_clean env fl o h.src top F

theorem Tree4OK.canon {o : Op} (h : Tree4OK env fl o) : clsCanon o := clsCanon_of_B o h.can

/-! ### soundness of the un-optimised enumerations, progress of the bodies -/

theorem Tree4OK.sound {o : Op} (h : Tree4OK env fl o) (ctx : Ctx) (S : Setting env fl ctx) {p q : Nat}
    (hp : p ≤ ctx.len) (hq : q ∈ enum4 ctx o p) : OpR ctx o p q :=
  enum4_sound_op env ctx S.ok o false [] (h.clean4 ctx S false []) h.wf h.ne h.canon hp hq

theorem enumSeq4_sound (ctx : Ctx) (S : Setting env fl ctx) (l : List Op) (h : List4OK env fl l) (hne : l ≠ [])
    (m q : Nat) (hm : m ≤ ctx.len) (hq : q ∈ enumSeq4 ctx l m) : OpRSeq ctx l m q := by
  have hc : cleanOp4F env ctx.caseBlind ctx.multiLine false [] (.seq l) = true := by
    simp only [cleanOp4F]; rw [S.hcb, S.hml]; exact src4_cleanSeq env fl l h.src false
  have hw : wfOp (.seq l) = true := by
    simp only [wfOp, Bool.and_eq_true, Bool.not_eq_true', List.isEmpty_eq_false_iff]
    exact ⟨hne, h.wf⟩
  have hn : noEmptyAtoms (.seq l) = true := by simp only [noEmptyAtoms]; exact h.ne
  have hcc : clsCanon (.seq l) := by simp only [clsCanon]; exact clsCanonL_of_B l h.can
  have := enum4_sound_op env ctx S.ok (.seq l) false [] hc hw hn hcc hm
    (show q ∈ enum4 ctx (.seq l) m by simpa only [enum4] using hq)
  simpa only [OpR] using this

/-- the body of a fixed-length quantifier makes progress -/
theorem fixed_progress (ctx : Ctx) (S : Setting env fl ctx) (c : Op) (mn mx len : Nat)
    (hc : Tree4OK env fl c) (hwf : wfOp (.gfixed c mn mx len) = true) : Progress (enum4 ctx c) ctx.len := by
  simp only [wfOp, Bool.and_eq_true, decide_eq_true_eq, beq_iff_eq] at hwf
  obtain ⟨⟨⟨⟨⟨hwc, hml⟩, hlen0⟩, hlen1⟩, _⟩, _⟩ := hwf
  exact prog_of_fixedBody (fixedBody4_of ctx c len hwc hml hlen0 hlen1
    (fun q hq st => sem_ex4_op env ctx S.ok c false [] (hc.clean4 ctx S false []) hwc hc.ne hc.canon q hq st))

/-- the body of a general repeat makes progress -/
theorem rep_progress (ctx : Ctx) (S : Setting env fl ctx) (id : Nat) (c : Op) (mn mx : Nat) (g : Bool)
    (h : Tree4OK env fl (.rep id c mn mx g)) : Progress (enum4 ctx c) ctx.len :=
  (detBody4_of env ctx S.ok (repOK4_of (h.clean4 ctx S false []) h.wf h.ne h.canon)).prog

/-- the body of a general repeat: `optimize` does not change its enumeration -/
theorem rep_body_eq (ctx : Ctx) (S : Setting env fl ctx) (id : Nat) (c : Op) (mn mx : Nat) (g : Bool)
    (h : Tree4OK env fl (.rep id c mn mx g)) (he : noEnd c = true) (q : Nat) (hq : q ≤ ctx.len) :
    enum4 ctx (optimize env fl c) q = enum4 ctx c q := by
  have hb := h.rep
  have hsh : shape2 (optimize env fl c) = true :=
    shape_of_clean2 env _ _ _ _ _ (Clean2Opt.optOK env fl c hb.clean hb.wf hb.ge2 he).clean
  rw [enum4_eq_enum2 ctx _ hsh, enum4_eq_enum ctx c hb.clean]
  exact Clean2End.optimize_enum_eq env fl ctx S c hb he q hq

/-! ### the element behind a rewritten one -/

/-- the un-optimised element behind an element that `optimizeSeq` rewrites to `.unamb`: a fixed-length
    quantifier over ONE literal / class — a tree of the OLD fragment -/
theorem repeat_source4 (o child : Op) (mn mx : Nat) (g : Bool) (h : Tree4OK env fl o) (hne : noEnd o = true)
    (hac : isAtomOrClass child = true)
    (hrp : repeatParts (optimize env fl o) = some (child, mn, mx, g)) :
    cleanOp o = true ∧ Clean2End.TreeOK o := by
  have key : ∀ c0, Tree4OK env fl c0 → optimize env fl c0 = child → cleanOp c0 = true := by
    intro c0 h0 hch
    have := isAtomOrClass_optimize env fl c0 h0.wf h0.ge2 (by rw [hch]; exact hac)
    exact (leaf_clean c0 this).1
  have hcl : cleanOp o = true := by
    cases o with
    | gfixed c0 a b l =>
      rw [Clean2End.optimize_gfixed_wf env fl c0 a b l h.wf] at hrp
      simp only [repeatParts, Option.some.injEq, Prod.mk.injEq] at hrp
      simp only [cleanOp]
      exact key c0 h.gfixed hrp.1
    | rfixed c0 a b l =>
      simp only [optimize, repeatParts, Option.some.injEq, Prod.mk.injEq] at hrp
      simp only [cleanOp]
      exact key c0 h.rfixed hrp.1
    | rep id c a b g' =>
      exfalso
      obtain ⟨hopt, hok⟩ := optOK4_rep env fl id c a b g' h.src h.wf h.ge2 hne
      rw [hopt] at hrp
      simp only [repeatParts, Option.some.injEq, Prod.mk.injEq] at hrp
      have := hok.repBody id (optimize env fl c) a b g' hopt
      rw [hrp.1, hac] at this
      cases this
    | seq ops =>
      have h2 := h.ge2
      simp only [seqGe2, Bool.and_eq_true, decide_eq_true_eq] at h2
      cases ops with
      | nil => simp at h2
      | cons a t =>
        cases t with
        | nil => simp at h2
        | cons b r => simp [optimize, repeatParts] at hrp
    | backref | unamb => have := h.src; simp [src4] at this
    | _ => simp [optimize, repeatParts] at hrp
  exact ⟨hcl, ⟨hcl, h.wf, h.ge2, h.ne, h.can⟩⟩

/-- the optimised followers keep every side condition -/
theorem optSeq_facts4 (l : List Op) (h : List4OK env fl l) :
    wfOps (optimizeSeq env fl l) = true ∧ noEmptyAtomsL (optimizeSeq env fl l) = true ∧
    clsCanonL (optimizeSeq env fl l) :=
  ⟨(WF.wm_optimizeSeq env fl l h.wf).1, optimizeSeq_NE env fl l h.ne,
    clsCanonL_of_B _ (optimizeSeq_clsCanonB env fl l h.can)⟩

/-- members of the optimised element's enumeration lie inside the input -/
theorem elem_bound4 (ctx : Ctx) (S : Setting env fl ctx) (top : Bool) (l : List Op) (hl : List4OK env fl l)
    (hcl : cleanSeq4 env fl.caseBlind fl.multiLine top (optimizeSeq env fl l) = true) (e' : Op) (R' : List Op)
    (he : optimizeSeq env fl l = e' :: R') (p : Nat) (hp : p ≤ ctx.len) :
    ∀ x, x ∈ enum4 ctx e' p → x ≤ ctx.len := by
  intro x hx
  obtain ⟨hw, hn, hcc⟩ := optSeq_facts4 l hl
  rw [he] at hw hn hcc hcl
  simp only [wfOps, Bool.and_eq_true] at hw
  simp only [noEmptyAtomsL, Bool.and_eq_true] at hn
  simp only [clsCanonL] at hcc
  simp only [cleanSeq4, Bool.and_eq_true] at hcl
  rw [← S.hcb, ← S.hml] at hcl
  have := enum4_sound_op env ctx S.ok e' top R' hcl.1 hw.1 hn.1 hcc.1 hp hx
  exact (OpR_bounds_op ctx e' p x hp this).2

/-- the step of the sequence induction at an element that `optimizeSeq` rewrote to `.unamb` -/
theorem seq_step_unamb4 (ctx : Ctx) (S : Setting env fl ctx) (top : Bool)
    (o nxt : Op) (os : List Op) (hl : List4OK env fl (o :: nxt :: os)) (hne : noEnd o = true)
    (hS : SeqOK4 env fl top (o :: nxt :: os))
    (child : Op) (mn mx : Nat) (g : Bool)
    (hrp : repeatParts (optimize env fl o) = some (child, mn, mx, g)) (hac : isAtomOrClass child = true)
    (hs : seqElem env fl (optimize env fl o) nxt = .unamb child mn mx)
    (hnot : ¬ (optimizeSeq env fl (nxt :: os) = [.endProgram] ∧ top = true))
    (p : Nat) (hp : p ≤ ctx.len) :
    (enum4 ctx o p).flatMap (enumSeq4 ctx (nxt :: os)) =
      (enum4 ctx (.unamb child mn mx) p).flatMap (enumSeq4 ctx (nxt :: os)) := by
  obtain ⟨hco, ho⟩ := repeat_source4 o child mn mx g hl.head hne hac hrp
  have hr := hl.tail
  obtain ⟨hwR, hnR, hcR⟩ := optSeq_facts4 (nxt :: os) hr
  obtain ⟨hwA, hnA, hcA⟩ := optSeq_facts4 (o :: nxt :: os) hl
  rw [optimizeSeq_cons2, hs] at hwA hnA hcA
  simp only [wfOps, Bool.and_eq_true] at hwA
  simp only [noEmptyAtomsL, noEmptyAtoms, Bool.and_eq_true] at hnA
  simp only [clsCanonL, clsCanon] at hcA
  have hcl := hS.clean
  rw [optimizeSeq_cons2, hs] at hcl
  simp only [cleanSeq4, Bool.and_eq_true] at hcl
  rw [← S.hcb, ← S.hml, cleanOp4F_unamb] at hcl
  have hlang : ∀ x, OpR ctx (.unamb child mn mx) p x ↔ OpR ctx o p x := fun x =>
    (OptL.unamb_OpR ctx hrp p x).trans (OptL.opt_op env fl ctx o ho.wf p x hp)
  have hnd : (enum ctx o p).Nodup := by
    rcases Clean2End.repeat_source env fl o child mn mx g ho.clean ho.wf ho.ge2 hrp with
      ⟨c0, len, rfl, _, _⟩ | ⟨c0, len, rfl, _, _⟩
    · simp only [enum]
      exact (Clean2End.repeat_nodup ctx c0 mn mx len true ho.gfixed.clean ho.wf p hp).2.1
    · simp only [enum]
      have hw' : wfOp (.gfixed c0 mn mx len) = true := by simpa only [wfOp] using ho.wf
      exact (Clean2End.repeat_nodup ctx c0 mn mx len false ho.rfixed.clean hw' p hp).2.2
  rw [enum4_eq_enum ctx o hco, enum4_unamb ctx child mn mx hac]
  exact Clean2End.unamb_vs_iter env ctx S.ok top o child mn mx (nxt :: os) (optimizeSeq env fl (nxt :: os)) p hp
    ho.clean ho.wf hlang hnd hwA.1 hcl.1 hnot hnA.1 hcA.1 hwR hnR hcR
    (fun m q hm => OptL.opt_seq env fl ctx (nxt :: os) hr.wf m q hm)
    (enumSeq4 ctx (nxt :: os)) (fun m q hm hq => enumSeq4_sound ctx S _ hr (List.cons_ne_nil _ _) m q hm hq)

/-! ### sub-trees: the enumerations are equal as lists -/

mutual
theorem enumEq4_op (ctx : Ctx) (S : Setting env fl ctx) : (op : Op) → Tree4OK env fl op →
    noEnd op = true → ∀ p, p ≤ ctx.len → enum4 ctx (optimize env fl op) p = enum4 ctx op p
  | .bol, _, _, p, _ => by simp only [optimize]
  | .eol, _, _, p, _ => by simp only [optimize]
  | .nothing, _, _, p, _ => by simp only [optimize]
  | .atom cs, _, _, p, _ => by simp only [optimize]
  | .cls rs, _, _, p, _ => by simp only [optimize]
  | .endProgram, _, he, _, _ => by simp [noEnd] at he
  | .backref _, h, _, _, _ => by have := h.src; simp [src4] at this
  | .unamb _ _ _, h, _, _, _ => by have := h.src; simp [src4] at this
  | .rep id c mn mx g, h, he, p, hp => by
    rw [(optOK4_rep env fl id c mn mx g h.src h.wf h.ge2 he).1]
    simp only [noEnd] at he
    have hpr := rep_progress ctx S id c mn mx g h
    have hb : ∀ q, q ≤ ctx.len → enum4 ctx (optimize env fl c) q = enum4 ctx c q :=
      fun q hq => rep_body_eq ctx S id c mn mx g h he q hq
    simp only [enum4]
    rw [greedyIter_congr hpr hb mn mx 0 p hp, reluctIter_congr hpr hb mn mx 0 p hp]
  | .capture g c, h, he, p, hp => by
    simp only [noEnd] at he
    simp only [optimize, enum4]
    exact enumEq4_op ctx S c h.capture he p hp
  | .choice bs, h, he, p, hp => by
    simp only [noEnd] at he
    simp only [optimize, enum4]
    exact enumEq4_any ctx S bs h.choice he p hp
  | .seq l, h, he, p, hp => by
    simp only [noEnd] at he
    obtain ⟨hl, h2⟩ := h.seq
    have ih := enumEq4_seq ctx S l hl he p hp
    obtain ⟨o, o2, os, rfl⟩ : ∃ o o2 os, l = o :: o2 :: os := by
      cases l with
      | nil => simp at h2
      | cons o t =>
        cases t with
        | nil => simp at h2
        | cons o2 os => exact ⟨o, o2, os, rfl⟩
    simp only [optimize, enum4]
    exact ih
  | .gfixed c mn mx len, h, he, p, hp => by
    simp only [noEnd] at he
    rw [Clean2End.optimize_gfixed_wf env fl c mn mx len h.wf]
    simp only [enum4]
    have hpr := fixed_progress ctx S c mn mx len h.gfixed h.wf
    exact greedyIter_congr hpr (fun q hq => enumEq4_op ctx S c h.gfixed he q hq) mn mx 0 p hp
  | .rfixed c mn mx len, h, he, p, hp => by
    simp only [noEnd] at he
    simp only [optimize, enum4]
    have hw' : wfOp (.gfixed c mn mx len) = true := by simpa only [wfOp] using h.wf
    have hpr := fixed_progress ctx S c mn mx len h.rfixed hw'
    exact reluctIter_congr hpr (fun q hq => enumEq4_op ctx S c h.rfixed he q hq) mn mx 0 p hp
termination_by structural op => op
theorem enumEq4_any (ctx : Ctx) (S : Setting env fl ctx) : (bs : List Op) →
    List4OK env fl bs → noEndL bs = true →
    ∀ p, p ≤ ctx.len → enumAny4 ctx (optimizeL env fl bs) p = enumAny4 ctx bs p
  | [], _, _, p, _ => by simp only [optimizeL]
  | b :: bs, h, he, p, hp => by
    simp only [noEndL, Bool.and_eq_true] at he
    simp only [optimizeL, enumAny4]
    rw [enumEq4_op ctx S b h.head he.1 p hp, enumEq4_any ctx S bs h.tail he.2 p hp]
termination_by structural bs => bs
theorem enumEq4_seq (ctx : Ctx) (S : Setting env fl ctx) : (l : List Op) →
    List4OK env fl l → noEndL l = true →
    ∀ p, p ≤ ctx.len → enumSeq4 ctx (optimizeSeq env fl l) p = enumSeq4 ctx l p
  | [], _, _, p, _ => by simp only [optimizeSeq]
  | [o], h, he, p, hp => by
    simp only [noEndL, Bool.and_eq_true] at he
    simp only [optimizeSeq, enumSeq4]
    rw [enumEq4_op ctx S o h.head he.1 p hp]
  | o :: nxt :: os, h, he, p, hp => by
    have he' := he
    simp only [noEndL, Bool.and_eq_true] at he
    have her : noEndL (nxt :: os) = true := by simp only [noEndL, Bool.and_eq_true]; exact he.2
    have hS := optOK4_seq env fl (o :: nxt :: os) h.src h.wf h.ge2 (endLast_of_noEndL _ he') false (fun _ => he')
    have ihs : ∀ m, m ≤ ctx.len →
        enumSeq4 ctx (optimizeSeq env fl (nxt :: os)) m = enumSeq4 ctx (nxt :: os) m :=
      fun m hm => enumEq4_seq ctx S (nxt :: os) h.tail her m hm
    have hb := elem_bound4 ctx S false (o :: nxt :: os) h hS.clean _ _ (optimizeSeq_cons2 env fl o nxt os) p hp
    rw [optimizeSeq_cons2]
    show (enum4 ctx (seqElem env fl (optimize env fl o) nxt) p).flatMap
        (enumSeq4 ctx (optimizeSeq env fl (nxt :: os))) = (enum4 ctx o p).flatMap (enumSeq4 ctx (nxt :: os))
    rw [flatMap_congr' (fun x hx => ihs x (hb x hx))]
    rcases seqElem_cases' env fl (optimize env fl o) nxt with hs | ⟨child, mn, mx, g, hrp, hac, _, hs⟩
    · rw [hs, enumEq4_op ctx S o h.head he.1 p hp]
    · rw [hs]
      exact (seq_step_unamb4 ctx S false o nxt os h he.1 hS child mn mx g hrp hac hs
        (fun hh => by cases hh.2) p hp).symm
termination_by structural l => l
end

/-! ### the root sequence: the same head -/

theorem enumSeq4_end (ctx : Ctx) (m : Nat) : enumSeq4 ctx [.endProgram] m = [m] := by
  simp [enumSeq4, enum4]

theorem headEq4_seq (ctx : Ctx) (S : Setting env fl ctx) : ∀ (l : List Op),
    List4OK env fl l → endLast l = true →
    ∀ p, p ≤ ctx.len → (enumSeq4 ctx (optimizeSeq env fl l) p).head? = (enumSeq4 ctx l p).head? := by
  intro l
  induction l with
  | nil => intro _ _ p _; simp only [optimizeSeq]
  | cons o rest ih =>
    intro h he p hp
    cases rest with
    | nil =>
      simp only [endLast, List.isEmpty_nil, if_true, Bool.or_eq_true] at he
      rcases he with he | he
      · have : o = .endProgram := by cases o <;> first | rfl | (simp [isEnd] at he)
        subst this
        simp only [optimizeSeq, optimize]
      · simp only [optimizeSeq, enumSeq4]
        rw [enumEq4_op ctx S o h.head he p hp]
    | cons nxt os =>
      have he1 : noEnd o = true ∧ endLast (nxt :: os) = true := by simpa [endLast] using he
      have hS := optOK4_seq env fl (o :: nxt :: os) h.src h.wf h.ge2 he true (fun hh => by cases hh)
      have ihs : ∀ m, m ≤ ctx.len →
          (enumSeq4 ctx (optimizeSeq env fl (nxt :: os)) m).head? = (enumSeq4 ctx (nxt :: os) m).head? :=
        fun m hm => ih h.tail he1.2 m hm
      have hb := elem_bound4 ctx S true (o :: nxt :: os) h hS.clean _ _ (optimizeSeq_cons2 env fl o nxt os) p hp
      rw [optimizeSeq_cons2]
      show ((enum4 ctx (seqElem env fl (optimize env fl o) nxt) p).flatMap
          (enumSeq4 ctx (optimizeSeq env fl (nxt :: os)))).head? =
        ((enum4 ctx o p).flatMap (enumSeq4 ctx (nxt :: os))).head?
      rw [flatMap_head_congr (fun x hx => ihs x (hb x hx))]
      rcases seqElem_cases' env fl (optimize env fl o) nxt with hs | ⟨child, mn, mx, g, hrp, hac, hj, hs⟩
      · rw [hs, enumEq4_op ctx S o h.head he1.1 p hp]
      · rw [hs]
        by_cases hfin : nxt = .endProgram ∧ os = []
        · obtain ⟨rfl, rfl⟩ := hfin
          obtain ⟨hco, ho⟩ := repeat_source4 o child mn mx g h.head he1.1 hac hrp
          obtain ⟨hwA, hnA, _⟩ := optSeq_facts4 [o, .endProgram] h
          rw [optimizeSeq_cons2, hs] at hwA hnA
          simp only [wfOps, Bool.and_eq_true] at hwA
          simp only [noEmptyAtomsL, noEmptyAtoms, Bool.and_eq_true] at hnA
          have e1 : ∀ l : List Nat, l.flatMap (enumSeq4 ctx [.endProgram]) = l := by
            intro l
            rw [flatMap_congr' (fun x _ => enumSeq4_end ctx x)]
            exact flatMap_single l
          rw [e1, e1, enum4_eq_enum ctx o hco, enum4_unamb ctx child mn mx hac]
          exact Clean2End.final_head env fl ctx S o ho he1.1 child mn mx g hrp hac hj hwA.1 hnA.1 p hp
        · have hnot : ¬ (optimizeSeq env fl (nxt :: os) = [.endProgram] ∧ true = true) := by
            intro ⟨hR, _⟩
            apply hfin
            cases os with
            | nil =>
              simp only [optimizeSeq, List.cons.injEq, and_true] at hR
              exact ⟨Clean2End.optimize_eq_end env fl nxt h.tail.head.wf h.tail.head.ge2 hR, rfl⟩
            | cons n2 r =>
              rw [optimizeSeq_cons2] at hR
              simp only [List.cons.injEq] at hR
              exact absurd hR.2 (Clean2End.optimizeSeq_ne_nil env fl n2 r)
          rw [seq_step_unamb4 ctx S true o nxt os h he1.1 hS child mn mx g hrp hac hs hnot p hp]

/-! ### towards the program level: `enum4` does not read the ids of `.rep` nodes -/

mutual
theorem enum4_numberReps (ctx : Ctx) : (op : Op) → ∀ n, enum4 ctx (numberReps op n).1 = enum4 ctx op
  | .bol, n | .eol, n | .nothing, n | .endProgram, n => by simp only [numberReps]
  | .atom _, n | .cls _, n | .backref _, n => by simp only [numberReps]
  | .capture g c, n => by
    funext p; simp only [numberReps, enum4]; rw [enum4_numberReps ctx c n]
  | .choice bs, n => by
    funext p; simp only [numberReps, enum4]; rw [enumAny4_numberRepsL ctx bs n]
  | .seq ops, n => by
    funext p; simp only [numberReps, enum4]; rw [enumSeq4_numberRepsL ctx ops n]
  | .rep id c mn mx g, n => by
    funext p; simp only [numberReps, enum4]; rw [enum4_numberReps ctx c (n + 1)]
  | .gfixed c mn mx len, n => by
    funext p; simp only [numberReps, enum4]; rw [enum4_numberReps ctx c n]
  | .rfixed c mn mx len, n => by
    funext p; simp only [numberReps, enum4]; rw [enum4_numberReps ctx c n]
  | .unamb c mn mx, n => by
    funext p; simp only [numberReps, enum4]; rw [enum4_numberReps ctx c n]
termination_by structural op => op
theorem enumAny4_numberRepsL (ctx : Ctx) : (l : List Op) → ∀ n, enumAny4 ctx (numberRepsL l n).1 = enumAny4 ctx l
  | [], n => by simp only [numberRepsL]
  | o :: os, n => by
    funext p; simp only [numberRepsL, enumAny4]
    rw [enum4_numberReps ctx o n, enumAny4_numberRepsL ctx os]
termination_by structural l => l
theorem enumSeq4_numberRepsL (ctx : Ctx) : (l : List Op) → ∀ n, enumSeq4 ctx (numberRepsL l n).1 = enumSeq4 ctx l
  | [], n => by simp only [numberRepsL]
  | o :: os, n => by
    funext p; simp only [numberRepsL, enumSeq4]
    rw [enum4_numberReps ctx o n, enumSeq4_numberRepsL ctx os]
termination_by structural l => l
end

end Rx.Clean4EndL
