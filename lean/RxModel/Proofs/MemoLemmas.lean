/-
  Proofs/MemoLemmas — the zero-length-match memo (`St.hist`) as an INVARIANT of the search.

  Part A  `HistOnly` invariants (predicates of `st.hist` alone) are preserved by every generator that
          does not write the memo — i.e. by everything except `repGreedyGen` with `min = 0`.  (The
          calculus of Proofs/InvLemmas asks `Writes.hist`: closure under ARBITRARY memo writes, which no
          informative predicate of the memo has; the generator lemmas are re-proved here without it.)
  Part B  the skippable general repeat `.rep id c 0 mx true` as an element of the root sequence, and the
          induction along the root sequence: from a state whose memo entries are all DEAD (`HR`), the
          sequence's iterator either yields (soundly), or ends with all entries dead again and the
          language has no member (`seqGood`).
  Part C  the candidate loop and `matches` with the five shortcuts under the invariant.
-/
import RxModel.Props.Clean3
import RxModel.Proofs.Clean3SearchLemmas
namespace Rx.Memo
open Rx Rx.SearchComplete
open Rx.C08 (noEmptyAtoms noEmptyAtomsL clsCanon clsCanonL)

/-! ## Part A: invariants of the memo alone -/

/-- `I` depends on the memo only -/
def HistOnly (I : St → Prop) : Prop := ∀ st st', st'.hist = st.hist → I st → I st'

theorem setPanic_hist (st : St) (c : Nat) : (st.setPanic c).hist = st.hist := by
  unfold St.setPanic; split <;> rfl

section generic
variable {Pos : Nat → Prop} {I : St → Prop}

theorem endGen_hinv (hI : HistOnly I) : GenInv Pos I endGen := by
  intro p st _ h
  exact .once (hI st _ rfl h)

theorem captureGen_hinv (hI : HistOnly I) {child : Gen} (ctx : Ctx) (g : Nat) (hc : GenInv Pos I child) :
    GenInv Pos I (captureGen ctx g child) := by
  refine captureGen_inv ctx g (fun p st h => ?_) (fun p n st h => ?_) hc
  · refine hI st _ ?_ h
    split
    · split
      · exact setPanic_hist _ _
      · rfl
    · rfl
  · refine hI st _ ?_ h
    unfold captureWrite
    simp only
    split <;> rfl

theorem choiceGen_cons_hinv (hI : HistOnly I) {g : Gen} {gs : List Gen}
    (h1 : GenInv Pos I g) (h2 : GenInv Pos I (choiceGen gs)) : GenInv Pos I (choiceGen (g :: gs)) := by
  intro p st hp h
  unfold choiceGen
  exact (h1 p _ hp (hI st (clearBeyond st p) rfl h)).append (fun st' h' => h2 p st' hp h')

theorem seqGo_cons_hinv (hI : HistOnly I) {g : Gen} {gs : List Gen}
    (h1 : GenInv Pos I g) (hpos : ∀ p st, Pos p → (g p st).All Pos)
    (h2 : GenInv Pos I (seqGo gs)) : GenInv Pos I (seqGo (g :: gs)) := by
  intro p st hp h
  cases gs with
  | nil =>
    unfold seqGo
    exact (h1 p st hp h).mapSt (fun n st' h' => hI st' (clearBeyond st' n) rfl h')
  | cons g2 gs =>
    unfold seqGo
    exact Step.Inv.bindP ((h1 p st hp h).mapSt (fun n st' h' => hI st' (clearBeyond st' n) rfl h'))
      (hpos p st hp).mapSt (fun n st' hn h' => h2 n st' hn h')

theorem seqGen_hinv (hI : HistOnly I) {gs : List Gen} (h : GenInv Pos I (seqGo gs)) (hasCap : Bool) :
    GenInv Pos I (seqGen hasCap gs) := by
  intro p st hp hst
  unfold seqGen
  simp only
  refine (h p st hp hst).onNil (fun st' h' => ?_)
  split
  · exact hI st' _ rfl h'
  · exact h'

theorem gfixedLoop_hinv (hI : HistOnly I) {child : Gen} (C : ChildOK Pos I child) (len max guard : Nat)
    (hg : ∀ p, p ≤ guard → Pos p) :
    ∀ fuel p m st, I st → I (gfixedLoop child len max guard fuel p m st).2.2 := by
  intro fuel
  induction fuel with
  | zero => intro p m st h; exact hI st _ (setPanic_hist _ _) h
  | succ f ih =>
    intro p m st h
    unfold gfixedLoop
    split
    · rename_i hle
      have hf := C.fst p st (hg p hle) h
      split
      · rename_i x st' heq
        rw [← first1_snd heq] at hf
        simp only
        split
        · exact hf
        · exact ih _ _ _ hf
      · rename_i st' heq
        rw [← first1_snd heq] at hf
        exact hf
    · exact h

theorem gfixedGen_hinv (hI : HistOnly I) {child : Gen} (C : ChildOK Pos I child) (ctx : Ctx)
    (min max len : Nat) (hg : ∀ p, p ≤ ctx.len → Pos p) :
    GenInv Pos I (gfixedGen ctx child min max len) := by
  intro p st _ h
  unfold gfixedGen
  simp only
  have hguard : (if max < usizeMax then Nat.min ctx.len (p + len * max) else ctx.len) ≤ ctx.len := by
    split
    · exact Nat.min_le_left _ _
    · exact Nat.le_refl _
  generalize (if max < usizeMax then Nat.min ctx.len (p + len * max) else ctx.len) = guard at hguard
  split
  · exact .nil _ h
  · have hr := gfixedLoop_hinv hI C len max guard (fun q hq => hg q (Nat.le_trans hq hguard))
      (ctx.len + 2) p 0 st h
    generalize gfixedLoop child len max guard (ctx.len + 2) p 0 st = r at hr
    split
    · exact .nil _ hr
    · exact descend_inv _ _ _ _ _ hr

theorem iterMin_hinv (hI : HistOnly I) {child : Gen} (C : ChildOK Pos I child) (min : Nat) :
    ∀ fuel count pos st, Pos pos → I st →
      I (iterMin child min fuel count pos st).2 ∧
      ∀ c q, (iterMin child min fuel count pos st).1 = some (c, q) → Pos q := by
  intro fuel
  induction fuel with
  | zero =>
    intro count pos st _ h
    exact ⟨hI st _ (setPanic_hist _ _) h, fun c q hq => by simp [iterMin] at hq⟩
  | succ f ih =>
    intro count pos st hp h
    unfold iterMin
    split
    · have hf := C.fst pos st hp h
      split
      · rename_i n x st' heq
        rw [← first1_snd heq] at hf
        have hn : Pos n := first1_all (C.pos pos st hp) heq
        exact ih _ _ _ hn hf
      · rename_i st' heq
        rw [← first1_snd heq] at hf
        exact ⟨hf, fun c q hq => by simp at hq⟩
    · refine ⟨h, fun c q hq => ?_⟩
      simp only [Option.some.injEq, Prod.mk.injEq] at hq
      rw [← hq.2]; exact hp

theorem rfixedMore_hinv (hI : HistOnly I) {child : Gen} (C : ChildOK Pos I child) (max position : Nat) :
    ∀ fuel count pos st, Pos pos → I st → (rfixedMore child max position fuel count pos st).Inv I := by
  intro fuel
  induction fuel with
  | zero => intro count pos st _ _; exact .diverge
  | succ f ih =>
    intro count pos st hp h
    unfold rfixedMore
    split
    · simp only
      have hf := C.fst pos _ hp (hI st (clearBeyond st position) rfl h)
      split
      · rename_i n x st' heq
        rw [← first1_snd heq] at hf
        have hn : Pos n := first1_all (C.pos pos _ hp) heq
        exact .cons _ _ _ hf (fun st'' h'' => ih _ _ _ hn h'')
      · rename_i st' heq
        rw [← first1_snd heq] at hf
        exact .nil _ hf
    · exact .nil _ h

theorem rfixedGen_hinv (hI : HistOnly I) {child : Gen} (C : ChildOK Pos I child) (ctx : Ctx)
    (min max : Nat) : GenInv Pos I (rfixedGen ctx child min max) := by
  intro p st hp h
  unfold rfixedGen
  have hi := iterMin_hinv hI C min (loopFuel ctx min) 0 p st hp h
  split
  · rename_i st' heq
    rw [heq] at hi
    exact .nil _ hi.1
  · rename_i count pos st' heq
    rw [heq] at hi
    exact .cons _ _ _ hi.1 (fun st'' h'' => rfixedMore_hinv hI C max p _ _ _ _ (hi.2 _ _ rfl) h'')

theorem unambLoop_hinv (hI : HistOnly I) {child : Gen} (C : ChildOK Pos I child) (max guard : Nat)
    (hg : ∀ p, p ≤ guard → Pos p) :
    ∀ fuel p m st, I st → I (unambLoop child max guard fuel p m st).2.2 := by
  intro fuel
  induction fuel with
  | zero => intro p m st h; exact hI st _ (setPanic_hist _ _) h
  | succ f ih =>
    intro p m st h
    unfold unambLoop
    split
    · rename_i hc1
      simp only [Bool.and_eq_true, decide_eq_true_eq] at hc1
      have hf := C.fst p st (hg p hc1.2) h
      split
      · rename_i n x st' heq
        rw [← first1_snd heq] at hf
        exact ih _ _ _ hf
      · rename_i st' heq
        rw [← first1_snd heq] at hf
        exact hf
    · exact h

theorem unambGen_hinv (hI : HistOnly I) {child : Gen} (C : ChildOK Pos I child) (ctx : Ctx)
    (min max : Nat) (hg : ∀ p, p ≤ ctx.len → Pos p) :
    GenInv Pos I (unambGen ctx child min max) := by
  intro p st _ h
  unfold unambGen
  simp only
  have hr := unambLoop_hinv hI C max ctx.len hg (Nat.min max (ctx.len + 2) + 1) p 0 st h
  generalize unambLoop child max ctx.len (Nat.min max (ctx.len + 2) + 1) p 0 st = r at hr
  split
  · exact .nil _ hr
  · exact .once hr

/-- the greedy repeat when it does NOT write the memo: `min ≥ 1`, or the entry is already there -/
theorem repGreedyGen_hinv {child : Gen} (C : ChildOK Pos I child) (ctx : Ctx)
    (id min max : Nat) (p : Nat) (st : St) (hp : Pos p) (h : I st)
    (hno : min ≠ 0 ∨ memPair st.hist id p = true) :
    (repGreedyGen ctx id child min max p st).Inv I := by
  unfold repGreedyGen
  simp only
  generalize Nat.min max (ctx.len + 1 - p) = bound
  have hfirst : ∀ fuel pl, (((child p st).bindFR
        (fun n st2 => greedyNode child min bound fuel 1 pl n st2)
        (fun n st2 => greedyNode child min bound fuel 1 none n st2)).force 0 none).Inv I := by
    intro fuel pl
    apply Step.Inv.force
    exact Step.Inv.bindFRP (C.inv p st hp h) (C.pos p st hp)
      (fun n st2 hn h2 => greedyNode_inv C min bound fuel 1 _ n st2 hn h2)
      (fun n st2 hn h2 => greedyNode_inv C min bound fuel 1 _ n st2 hn h2)
  split
  · rename_i hm0
    split
    · split
      · exact .nil _ h
      · exact hfirst _ _
    · rename_i hmem
      rcases hno with h0 | h0
      · exact absurd (by simpa using hm0) h0
      · exact absurd h0 hmem
  · split
    · exact .nil _ h
    · exact hfirst _ _

end generic

/-! ### the trees of the fragment without a skippable repeat: `HistOnly` invariants are preserved -/

/-- positions inside the input -/
abbrev InP (ctx : Ctx) : Nat → Prop := fun p => p ≤ ctx.len

theorem ex_ne_diverge {s : Step} {l : List Nat} (h : Step.Ex s l) : s ≠ .diverge := by
  intro hd; rw [hd] at h; cases h

theorem childOK_of {ctx : Ctx} {I : St → Prop} {c : Op} (hw : wfOp c = true)
    (hinv : GenInv (InP ctx) I (sem ctx c))
    (hex : ∀ p, p ≤ ctx.len → ∀ st, ∃ l, Step.Ex (sem ctx c p st) l) :
    ChildOK (InP ctx) I (sem ctx c) where
  inv := hinv
  fst := fun p st hp h => by
    obtain ⟨l, hl⟩ := hex p hp st
    exact first1_inv (hinv p st hp h) (fun hd => absurd hd (ex_ne_diverge hl))
  pos := fun p st hp => (C01.sem_bounds ctx c hw p hp st).mono (fun _ h => h.2)

theorem sem_pos (ctx : Ctx) (c : Op) (hw : wfOp c = true) (p : Nat) (st : St) (hp : p ≤ ctx.len) :
    (sem ctx c p st).All (InP ctx) :=
  (C01.sem_bounds ctx c hw p hp st).mono (fun _ h => h.2)

mutual
theorem sem_hinv_op (env : Env) (ctx : Ctx) (hIn : InputOK env ctx) {I : St → Prop} (hI : HistOnly I) :
    (op : Op) → ∀ top F, cleanOp3F env ctx.caseBlind ctx.multiLine top F op = true → wfOp op = true →
    noEmptyAtoms op = true → clsCanon op → GenInv (InP ctx) I (sem ctx op)
  | .bol, _, _, _, _, _, _ => by simp only [sem]; exact bolGen_inv ctx
  | .eol, _, _, _, _, _, _ => by simp only [sem]; exact eolGen_inv ctx
  | .nothing, _, _, _, _, _, _ => by simp only [sem]; exact nothingGen_inv
  | .endProgram, _, _, _, _, _, _ => by simp only [sem]; exact endGen_hinv hI
  | .atom cs, _, _, _, _, _, _ => by simp only [sem]; exact atomGen_inv ctx cs
  | .cls rs, _, _, _, _, _, _ => by simp only [sem]; exact clsGen_inv ctx rs
  | .backref _, _, _, hc, _, _, _ => by simp [cleanOp3F] at hc
  | .rep id c mn mx g, _, _, hc, hwf, hne, hcc => by
    obtain ⟨rfl, hr⟩ := repOK_of hc hwf hne hcc
    have hs := shape_of_clean2 env _ _ c _ _ hr.clean
    have hc3 := clean3_of_clean2 env _ _ c false [] hr.clean
    have C : ChildOK (InP ctx) I (sem ctx c) := childOK_of hr.wf
      (sem_hinv_op env ctx hIn hI c _ _ hc3 hr.wf hr.ne hr.can)
      (fun p hp st => ⟨_, sem_ex2_op ctx c hs hr.wf hr.ne p hp st⟩)
    intro p st hp h
    simp only [sem, if_true]
    exact repGreedyGen_hinv C ctx id mn mx p st hp h (.inl (by have := hr.mn1; omega))
  | .unamb x mn mx, _, _, hc, hwf, hne, hcc => by
    simp only [cleanOp3F, Bool.and_eq_true] at hc
    simp only [wfOp, Bool.and_eq_true] at hwf
    simp only [noEmptyAtoms] at hne
    have hs : shape2 x = true := by cases x <;> first | rfl | (have := hc.1; simp [isAtomOrClass] at this)
    have hxinv : GenInv (InP ctx) I (sem ctx x) := by
      cases x with
      | atom cs => simp only [sem]; exact atomGen_inv ctx cs
      | cls rs => simp only [sem]; exact clsGen_inv ctx rs
      | _ => have := hc.1; simp [isAtomOrClass] at this
    have C : ChildOK (InP ctx) I (sem ctx x) := childOK_of hwf.1.1 hxinv
      (fun p hp st => ⟨_, sem_ex2_op ctx x hs hwf.1.1 hne p hp st⟩)
    simp only [sem]
    exact unambGen_hinv hI C ctx mn mx (fun p hp => hp)
  | .capture g c, _, _, hc, hwf, hne, hcc => by
    simp only [cleanOp3F] at hc
    simp only [wfOp] at hwf
    simp only [noEmptyAtoms] at hne
    simp only [clsCanon] at hcc
    simp only [sem]
    exact captureGen_hinv hI ctx g (sem_hinv_op env ctx hIn hI c _ _ hc hwf hne hcc)
  | .choice bs, _, _, hc, hwf, hne, hcc => by
    simp only [cleanOp3F] at hc
    simp only [wfOp, Bool.and_eq_true] at hwf
    simp only [noEmptyAtoms] at hne
    simp only [clsCanon] at hcc
    simp only [sem]
    exact sem_hinv_any env ctx hIn hI bs hc hwf.2 hne hcc
  | .seq ops, _, _, hc, hwf, hne, hcc => by
    simp only [cleanOp3F] at hc
    simp only [wfOp, Bool.and_eq_true] at hwf
    simp only [noEmptyAtoms] at hne
    simp only [clsCanon] at hcc
    simp only [sem]
    exact seqGen_hinv hI (sem_hinv_seq env ctx hIn hI ops false hc hwf.2 hne hcc) _
  | .gfixed c mn mx len, _, _, hc, hwf, hne, hcc => by
    simp only [cleanOp3F] at hc
    simp only [wfOp, Bool.and_eq_true] at hwf
    simp only [noEmptyAtoms] at hne
    simp only [clsCanon] at hcc
    have hwc := hwf.1.1.1.1.1
    have C : ChildOK (InP ctx) I (sem ctx c) := childOK_of hwc
      (sem_hinv_op env ctx hIn hI c _ _ hc hwc hne hcc)
      (fun p hp st => ⟨_, sem_ex3_op env ctx hIn c _ _ hc hwc hne hcc p hp st⟩)
    simp only [sem]
    exact gfixedGen_hinv hI C ctx mn mx len (fun p hp => hp)
  | .rfixed c mn mx len, _, _, hc, hwf, hne, hcc => by
    simp only [cleanOp3F] at hc
    simp only [wfOp, Bool.and_eq_true] at hwf
    simp only [noEmptyAtoms] at hne
    simp only [clsCanon] at hcc
    have hwc := hwf.1.1.1.1.1
    have C : ChildOK (InP ctx) I (sem ctx c) := childOK_of hwc
      (sem_hinv_op env ctx hIn hI c _ _ hc hwc hne hcc)
      (fun p hp st => ⟨_, sem_ex3_op env ctx hIn c _ _ hc hwc hne hcc p hp st⟩)
    simp only [sem]
    exact rfixedGen_hinv hI C ctx mn mx
termination_by structural op => op
theorem sem_hinv_any (env : Env) (ctx : Ctx) (hIn : InputOK env ctx) {I : St → Prop} (hI : HistOnly I) :
    (bs : List Op) → cleanAll3 env ctx.caseBlind ctx.multiLine bs = true → wfOps bs = true →
    noEmptyAtomsL bs = true → clsCanonL bs → GenInv (InP ctx) I (choiceGen (semL ctx bs))
  | [], _, _, _, _ => by simp only [semL]; exact choiceGen_nil_inv
  | b :: bs, hc, hwf, hne, hcc => by
    simp only [cleanAll3, Bool.and_eq_true] at hc
    simp only [wfOps, Bool.and_eq_true] at hwf
    simp only [noEmptyAtomsL, Bool.and_eq_true] at hne
    simp only [clsCanonL] at hcc
    simp only [semL]
    exact choiceGen_cons_hinv hI (sem_hinv_op env ctx hIn hI b _ _ hc.1 hwf.1 hne.1 hcc.1)
      (sem_hinv_any env ctx hIn hI bs hc.2 hwf.2 hne.2 hcc.2)
termination_by structural bs => bs
theorem sem_hinv_seq (env : Env) (ctx : Ctx) (hIn : InputOK env ctx) {I : St → Prop} (hI : HistOnly I) :
    (ops : List Op) → ∀ top, cleanSeq3 env ctx.caseBlind ctx.multiLine top ops = true → wfOps ops = true →
    noEmptyAtomsL ops = true → clsCanonL ops → GenInv (InP ctx) I (seqGo (semL ctx ops))
  | [], _, _, _, _, _ => by simp only [semL]; exact seqGo_nil_inv
  | o :: os, top, hc, hwf, hne, hcc => by
    simp only [cleanSeq3, Bool.and_eq_true] at hc
    simp only [wfOps, Bool.and_eq_true] at hwf
    simp only [noEmptyAtomsL, Bool.and_eq_true] at hne
    simp only [clsCanonL] at hcc
    simp only [semL]
    exact seqGo_cons_hinv hI (sem_hinv_op env ctx hIn hI o _ _ hc.1 hwf.1 hne.1 hcc.1)
      (fun p st hp => sem_pos ctx o hwf.1 p st hp)
      (sem_hinv_seq env ctx hIn hI os top hc.2 hwf.2 hne.2 hcc.2)
termination_by structural ops => ops
end

/-! ## Part B: the root sequence under the memo invariant -/

/-- the rest `R` of the root sequence has a match from `p` -/
def Live (ctx : Ctx) (R : List Op) (p : Nat) : Prop := ∃ q, OpRSeq ctx R p q

/-- the memo key of a skippable general greedy repeat -/
def rep0Id : Op → Option Nat
  | .rep id _ mn _ g => if mn == 0 && g then some id else none
  | _ => none

def rep0Ids : List Op → List Nat
  | [] => []
  | o :: os => (match rep0Id o with | some id => [id] | none => []) ++ rep0Ids os

/-- THE MEMO INVARIANT for the (rest of the) root sequence: every entry `(id, p)` for a skippable repeat
    `id` of the sequence is DEAD — skipping the repeat at `p` (zero iterations) cannot be continued to a
    match by the elements that follow it -/
def HR (ctx : Ctx) : List Op → St → Prop
  | [], _ => True
  | o :: os, st =>
    (∀ id, rep0Id o = some id → ∀ p, p ≤ ctx.len → memPair st.hist id p = true → ¬ Live ctx os p) ∧
    HR ctx os st

theorem HR_histOnly (ctx : Ctx) : ∀ R, HistOnly (HR ctx R)
  | [] => fun _ _ _ _ => trivial
  | o :: os => fun st st' he h => ⟨fun id hid p hp hm => h.1 id hid p hp (by rw [← he]; exact hm),
      HR_histOnly ctx os st st' he h.2⟩

theorem memPair_cons (h : List (Nat × Nat)) (a b id p : Nat) :
    memPair ((a, b) :: h) id p = ((a == id && b == p) || memPair h id p) := rfl

/-- an entry for a key that is not one of `R`'s does not disturb the invariant for `R` -/
theorem HR_add (ctx : Ctx) (id q : Nat) : ∀ R, id ∉ rep0Ids R → ∀ st, HR ctx R st →
    HR ctx R { st with hist := (id, q) :: st.hist }
  | [], _, _, _ => trivial
  | o :: os, hni, st, h => by
    simp only [rep0Ids, List.mem_append, not_or] at hni
    refine ⟨fun id' hid p hp hm => h.1 id' hid p hp ?_, HR_add ctx id q os hni.2 st h.2⟩
    simp only [memPair_cons] at hm
    have hne : (id == id') = false := by
      have : id ≠ id' := by
        intro he; subst he
        rw [hid] at hni; exact hni.1 (by simp)
      simpa using this
    simpa [hne] using hm

/-- closure of a side invariant under the memo writes of the repeats with keys in `S` -/
def FrameOK (F : St → Prop) (S : List Nat) : Prop :=
  ∀ st id q, id ∈ S → F st → F { st with hist := (id, q) :: st.hist }

/-- what the iterator of the rest `R`, started at `p`, does FIRST: it yields a member of the language,
    or it ends in a state satisfying the invariants and the language has no member from `p` -/
def Good (ctx : Ctx) (R : List Op) (F : St → Prop) (p : Nat) : Step → Prop
  | .nil st' => HR ctx R st' ∧ F st' ∧ ¬ Live ctx R p
  | .cons n _ _ => OpRSeq ctx R p n
  | .diverge => False

/-- an element's iterator under resumption: each yield is an end of the element, exposed in a state
    satisfying `I'`; it is resumed only with `I'`-states and only when the yielded end is dead (`Dd`);
    when it ends, every LIVE end has been yielded (`V` collects the yielded ends) -/
inductive ES (ctx : Ctx) (e : Op) (p : Nat) (I' : St → Prop) (Dd Lv : Nat → Prop) : (Nat → Prop) → Step → Prop
  | nil (V : Nat → Prop) (st' : St) : I' st' → (∀ m, OpR ctx e p m → Lv m → V m) → ES ctx e p I' Dd Lv V (.nil st')
  | cons (V : Nat → Prop) (n : Nat) (st1 : St) (r : St → Step) : I' st1 → OpR ctx e p n → n ≤ ctx.len →
      (∀ st2, I' st2 → Dd n → ES ctx e p I' Dd Lv (fun m => V m ∨ m = n) (r st2)) →
      ES ctx e p I' Dd Lv V (.cons n st1 r)

/-- from an exact list, a state invariant, soundness, and "an unvisited live end ⇒ a listed live end" -/
theorem ES_of_ex {ctx : Ctx} {e : Op} {p : Nat} {I' : St → Prop} {Lv : Nat → Prop} {s : Step} {L : List Nat}
    (hex : Step.Ex s L) : ∀ (V : Nat → Prop), s.Inv I' → (∀ n, n ∈ L → OpR ctx e p n ∧ n ≤ ctx.len) →
    (∀ m, OpR ctx e p m → Lv m → V m ∨ ∃ n, n ∈ L ∧ Lv n) →
    ES ctx e p I' (fun n => ¬ Lv n) Lv V s := by
  induction hex with
  | nil st =>
    intro V hinv _ hcomp
    refine .nil V st hinv.nil_inv (fun m hm hl => ?_)
    rcases hcomp m hm hl with h | ⟨n, hn, _⟩
    · exact h
    · cases hn
  | cons n st r L _ ih =>
    intro V hinv hsound hcomp
    obtain ⟨h1, h2⟩ := hsound n List.mem_cons_self
    refine .cons V n st r hinv.head h1 h2 (fun st2 hst2 hdead => ?_)
    refine ih st2 trivial _ (hinv.tail st2 hst2) (fun k hk => hsound k (List.mem_cons_of_mem _ hk)) ?_
    intro m hm hl
    rcases hcomp m hm hl with h | ⟨k, hk, hkl⟩
    · exact .inl (.inl h)
    · rcases List.mem_cons.1 hk with rfl | hk
      · exact absurd hkl hdead
      · exact .inr ⟨k, hk, hkl⟩

/-- one element followed by the rest: the first step of the `bind` -/
theorem bind_good {ctx : Ctx} {e : Op} {R' : List Op} {F F' : St → Prop} {p : Nat} {k : Nat → St → Step}
    (hF' : HistOnly F')
    (hK : ∀ n, n ≤ ctx.len → ∀ st, HR ctx R' st → F' st → Good ctx R' F' n (k n st))
    (hpost : ∀ st', HR ctx R' st' → F' st' → (∀ m, OpR ctx e p m → ¬ Live ctx R' m) →
      HR ctx (e :: R') st' ∧ F st') :
    ∀ {V : Nat → Prop} {s : Step},
      ES ctx e p (fun st => HR ctx R' st ∧ F' st) (fun n => ¬ Live ctx R' n) (Live ctx R') V s →
      (∀ m, V m → ¬ Live ctx R' m) →
      Good ctx (e :: R') F p ((s.mapSt (fun n st => clearBeyond st n)).bind k) := by
  intro V s hes
  induction hes with
  | nil V st' hI hall =>
    intro hV
    have hdead : ∀ m, OpR ctx e p m → ¬ Live ctx R' m := fun m hm hl => hV m (hall m hm hl) hl
    obtain ⟨a, b⟩ := hpost st' hI.1 hI.2 hdead
    refine ⟨a, b, ?_⟩
    rintro ⟨q, hq⟩
    simp only [OpRSeq] at hq
    obtain ⟨m, hm, hmq⟩ := hq
    exact hdead m hm ⟨q, hmq⟩
  | cons V n st1 r hI hr hn _ ih =>
    intro hV
    simp only [Step.mapSt, Step.bind]
    have hg := hK n hn (clearBeyond st1 n) (HR_histOnly ctx R' st1 _ rfl hI.1) (hF' st1 _ rfl hI.2)
    generalize k n (clearBeyond st1 n) = g at hg
    cases g with
    | nil st2 =>
      obtain ⟨a, b, c⟩ := hg
      simp only [Step.append]
      refine ih st2 ⟨a, b⟩ c (fun m hm => ?_)
      rcases hm with hm | rfl
      · exact hV m hm
      · exact c
    | cons m st3 r3 =>
      simp only [Step.append]
      show OpRSeq ctx (e :: R') p m
      simp only [OpRSeq]
      exact ⟨n, hr, hg⟩
    | diverge => exact hg.elim

/-- the last element of the sequence -/
theorem last_good {ctx : Ctx} {e : Op} {F : St → Prop} {p : Nat} {I' : St → Prop}
    (hpost : ∀ st', I' st' → (∀ m, ¬ OpR ctx e p m) → HR ctx [e] st' ∧ F st') :
    ∀ {V : Nat → Prop} {s : Step},
      ES ctx e p I' (fun n => ¬ Live ctx [] n) (Live ctx []) V s → (∀ m, ¬ V m) →
      Good ctx [e] F p (s.mapSt (fun n st => clearBeyond st n)) := by
  intro V s hes hV
  cases hes with
  | nil _ st' hI hall =>
    have hno : ∀ m, ¬ OpR ctx e p m := fun m hm => hV m (hall m hm ⟨m, rfl⟩)
    obtain ⟨a, b⟩ := hpost st' hI hno
    refine ⟨a, b, ?_⟩
    rintro ⟨q, hq⟩
    simp only [OpRSeq] at hq
    obtain ⟨m, hm, _⟩ := hq
    exact hno m hm
  | cons _ n st1 r _ hr _ _ =>
    show OpRSeq ctx [e] p n
    simp only [OpRSeq]
    exact ⟨n, hr, rfl⟩

/-! ### the fragment: root sequences with skippable repeats as elements -/

/-- a skippable general greedy repeat over a rep-free, non-nullable, end-deterministic body -/
def rep0B (env : Env) (cb ml : Bool) : Op → Bool
  | .rep _ c mn _ g => (mn == 0) && g && cleanOp2 env cb ml c && nonNull c && detB env cb c
  | _ => false

/-- an element of the root sequence: in the fragment of Spec/Enum3 (judged against its followers), or a
    skippable repeat -/
def elemOK (env : Env) (cb ml : Bool) (o : Op) (os : List Op) : Bool :=
  cleanOp3F env cb ml true os o || rep0B env cb ml o

def cleanSeq3m (env : Env) (cb ml : Bool) : List Op → Bool
  | [] => true
  | o :: os => elemOK env cb ml o os && cleanSeq3m env cb ml os

/-- a whole program: a root sequence of such elements, the skippable repeats with pairwise distinct keys -/
def cleanProg3m (env : Env) (cb ml : Bool) : Op → Bool
  | .seq l => cleanSeq3m env cb ml l && decide (rep0Ids l).Nodup
  | _ => false

theorem rep0Id_of_clean3 (env : Env) (cb ml top : Bool) (F : List Op) (o : Op)
    (h : cleanOp3F env cb ml top F o = true) : rep0Id o = none := by
  cases o with
  | rep id c mn mx g =>
    simp only [cleanOp3F, Bool.and_eq_true, decide_eq_true_eq] at h
    have : (mn == 0) = false := by simp; omega
    simp only [rep0Id, this, Bool.false_and, Bool.false_eq_true, if_false]
  | _ => rfl

theorem rep0B_cases (env : Env) (ctx : Ctx) (o : Op) (h : rep0B env ctx.caseBlind ctx.multiLine o = true)
    (hw : wfOp o = true) (hn : noEmptyAtoms o = true) (hcc : clsCanon o) :
    ∃ id c mx, o = .rep id c 0 mx true ∧ Clean3.Rep0OK env ctx c mx := by
  cases o with
  | rep id c mn mx g =>
    simp only [rep0B, Bool.and_eq_true, beq_iff_eq] at h
    obtain ⟨⟨⟨⟨rfl, rfl⟩, h1⟩, h2⟩, h3⟩ := h
    simp only [wfOp, Bool.and_eq_true, decide_eq_true_eq] at hw
    simp only [noEmptyAtoms] at hn
    simp only [clsCanon] at hcc
    exact ⟨id, c, mx, rfl, ⟨hw.2, h1, h2, h3, hw.1.1, hn, hcc⟩⟩
  | _ => simp [rep0B] at h

/-! ### an element without memo writes -/

theorem live_nil (ctx : Ctx) (m : Nat) : Live ctx [] m := ⟨m, by simp only [OpRSeq]⟩

theorem elem_free (env : Env) (ctx : Ctx) (hIn : InputOK env ctx) (e : Op) (os : List Op)
    (hc : cleanOp3F env ctx.caseBlind ctx.multiLine true os e = true)
    (hw : wfOp e = true) (hn : noEmptyAtoms e = true) (hcc : clsCanon e)
    (hwF : wfOps os = true) (hnF : noEmptyAtomsL os = true) (hcF : clsCanonL os)
    {I' : St → Prop} (hI' : HistOnly I') (p : Nat) (hp : p ≤ ctx.len) (st : St) (hst : I' st) :
    ES ctx e p I' (fun n => ¬ Live ctx os n) (Live ctx os) (fun _ => False) (sem ctx e p st) := by
  have hex := sem_ex3_op env ctx hIn e true os hc hw hn hcc p hp st
  refine ES_of_ex hex _ (sem_hinv_op env ctx hIn hI' e true os hc hw hn hcc p st hp hst)
    (fun n hn' => ex_sound ctx e hw hp hex n hn') ?_
  intro m hm hl
  right
  obtain ⟨q, hq⟩ := hl
  by_cases hu : isUnamb e = true
  · obtain ⟨x, mn, mx, rfl⟩ := isUnamb_true hu
    have hnx : noEmptyAtoms x = true := by simpa only [noEmptyAtoms] using hn
    have hcx : clsCanon x := by simpa only [clsCanon] using hcc
    rcases unamb_elem3 env ctx hIn true x mn mx os hc hnx hcx hwF hnF hcF p m q hp hm hq with
      ⟨he, _⟩ | ⟨rfl, _, m', he, _⟩
    · exact ⟨m, by rw [he]; exact List.mem_singleton.2 rfl, ⟨q, hq⟩⟩
    · exact ⟨m', by rw [he]; exact List.mem_singleton.2 rfl, ⟨m', by simp only [OpRSeq, OpR]; exact ⟨m', rfl, rfl⟩⟩⟩
  · have hco : cleanOp3F env ctx.caseBlind ctx.multiLine false [] e = true := by
      rw [← cleanOp3F_irrel env _ _ true os e hu]; exact hc
    exact ⟨m, comp3_op env ctx hIn e hco hw hn hcc p m hp hm, ⟨q, hq⟩⟩

/-! ### the skippable repeat as an element -/

theorem rep0_wf {env : Env} {ctx : Ctx} {c : Op} {mx : Nat} (h : Clean3.Rep0OK env ctx c mx) (id : Nat) :
    wfOp (.rep id c 0 mx true) = true := by
  simp only [wfOp, h.wf, Bool.true_and, Bool.and_eq_true, decide_eq_true_eq]
  exact ⟨Nat.zero_le _, h.mx0⟩

theorem rep0_child {env : Env} {ctx : Ctx} (hIn : InputOK env ctx) {c : Op} {mx : Nat}
    (h : Clean3.Rep0OK env ctx c mx) {I : St → Prop} (hI : HistOnly I) : ChildOK (InP ctx) I (sem ctx c) :=
  childOK_of h.wf
    (sem_hinv_op env ctx hIn hI c _ _ (clean3_of_clean2 env _ _ c false [] h.clean) h.wf h.ne h.can)
    (fun p hp st => ⟨_, sem_ex2_op ctx c (shape_of_clean2 env _ _ c _ _ h.clean) h.wf h.ne p hp st⟩)

/-- the invariant through the repeat when it WRITES its entry -/
theorem rep0_fresh_inv {ctx : Ctx} {child : Gen} {I : St → Prop} (C : ChildOK (InP ctx) I child)
    (id mx p : Nat) (hp : p ≤ ctx.len) (st : St) (hm : memPair st.hist id p = false)
    (h1 : I { st with hist := (id, p) :: st.hist }) :
    (repGreedyGen ctx id child 0 mx p st).Inv I := by
  unfold repGreedyGen
  simp only [beq_self_eq_true, if_true, hm, Bool.false_eq_true, if_false]
  apply Step.Inv.force
  exact Step.Inv.append (greedyNode_inv C 0 _ _ 1 _ p _ hp h1)
    (fun st2 h2 => greedyNode_inv C 0 _ _ 1 _ p st2 hp h2)

/-- every end of the repeat other than the start itself is in the list yielded on a memo hit -/
theorem rep0_hit_complete (env : Env) (ctx : Ctx) (hIn : InputOK env ctx) (id : Nat) (c : Op) (mx : Nat)
    (h : Clean3.Rep0OK env ctx c mx) (p m : Nat) (hp : p ≤ ctx.len) (hm : OpR ctx (.rep id c 0 mx true) p m) :
    m = p ∨ m ∈ (enum3 ctx c p).flatMap
      (fun q => greedyIter (enum3 ctx c) 0 (Nat.min mx (ctx.len + 1 - p) - 1) 0 q) := by
  have hmL := (OpR_bounds_op ctx _ p m hp hm).2
  simp only [OpR] at hm
  obtain ⟨k, _, hk2, hi⟩ := hm
  cases k with
  | zero => exact .inl (IterR.zero_iff.1 hi)
  | succ k =>
    right
    have hd : HeadDet (fun a b => OpR ctx c a b) (enum3 ctx c) ctx.len :=
      headDet_body env ctx hIn (mn := 1) (mx := mx)
        ⟨Nat.le_refl 1, h.mx0, h.mx0, h.clean, h.nn, h.det, h.wf, h.ne, h.can⟩
    have hlen := OptL.IterR_minlen (d := 1) (fun a b hab => nonNull_sound ctx c h.nn a b hab) hi
    obtain ⟨a, ha, hi'⟩ := IterR.uncons hi
    obtain ⟨⟨t, ht⟩, haL⟩ := hd.det p hp a ha
    rw [List.mem_flatMap]
    refine ⟨a, by rw [ht]; exact List.mem_cons_self, ?_⟩
    refine greedyIter_complete hd 0 _ 0 a k m haL hi' ?_ (Nat.zero_le _)
    show k ≤ min mx (ctx.len + 1 - p) - 1
    rw [Nat.min_def]; split <;> omega

theorem rep0_self (ctx : Ctx) (id : Nat) (c : Op) (mx p : Nat) : OpR ctx (.rep id c 0 mx true) p p := by
  simp only [OpR]; exact ⟨0, Nat.le_refl _, Nat.zero_le _, .zero p⟩

/-- the side invariant handed to the followers of the repeat `id` entered at `p` from `st`: the entries
    for `id` are those of `st`, plus `(id, p)` -/
def frameOf (F : St → Prop) (id p : Nat) (st : St) : St → Prop :=
  fun s => F s ∧ ∀ q, memPair s.hist id q = true → q = p ∨ memPair st.hist id q = true

theorem frameOf_histOnly {F : St → Prop} (hF : HistOnly F) (id p : Nat) (st : St) : HistOnly (frameOf F id p st) :=
  fun s s' he h => ⟨hF s s' he h.1, fun q hq => h.2 q (by rw [← he]; exact hq)⟩

theorem frameOf_frameOK {F : St → Prop} {S : List Nat} (id p : Nat) (st : St) (hF : FrameOK F (id :: S))
    (hni : id ∉ S) : FrameOK (frameOf F id p st) S := by
  intro s id' q' hid' h
  refine ⟨hF s id' q' (List.mem_cons_of_mem _ hid') h.1, fun q hq => h.2 q ?_⟩
  simp only [memPair_cons] at hq
  have hne : (id' == id) = false := by
    have : id' ≠ id := fun he => hni (he ▸ hid')
    simpa using this
  simpa [hne] using hq

/-- the skippable repeat as an element of the root sequence, from a state satisfying the invariant -/
theorem elem_rep0 (env : Env) (ctx : Ctx) (hIn : InputOK env ctx) (id : Nat) (c : Op) (mx : Nat) (os : List Op)
    (h : Clean3.Rep0OK env ctx c mx) (hni : id ∉ rep0Ids os)
    {F : St → Prop} (hF : HistOnly F) (hFr : FrameOK F (id :: rep0Ids os))
    (p : Nat) (hp : p ≤ ctx.len) (st : St) (hst : HR ctx (.rep id c 0 mx true :: os) st) (hFst : F st) :
    ∃ V : Nat → Prop, (∀ m, V m → ¬ Live ctx os m) ∧
      ES ctx (.rep id c 0 mx true) p (fun s => HR ctx os s ∧ frameOf F id p st s)
        (fun n => ¬ Live ctx os n) (Live ctx os) V (sem ctx (.rep id c 0 mx true) p st) := by
  have hI' : HistOnly (fun s => HR ctx os s ∧ frameOf F id p st s) :=
    fun s s' he hh => ⟨HR_histOnly ctx os s s' he hh.1, frameOf_histOnly hF id p st s s' he hh.2⟩
  have C := rep0_child hIn h hI'
  have hw := rep0_wf h id
  have hid : rep0Id (.rep id c 0 mx true) = some id := by simp [rep0Id]
  cases hm : memPair st.hist id p with
  | true =>
    have hex : Step.Ex (sem ctx (.rep id c 0 mx true) p st) _ := Clean3.rep0_hit env ctx hIn id c mx h p hp st hm
    refine ⟨fun m => m = p, fun m hm' => by rw [hm']; exact hst.1 id hid p hp hm, ?_⟩
    refine ES_of_ex hex _ ?_ (fun n hn => ex_sound ctx _ hw hp hex n hn) ?_
    · simp only [sem, if_true]
      exact repGreedyGen_hinv C ctx id 0 mx p st hp ⟨hst.2, hFst, fun q hq => .inr hq⟩ (.inr hm)
    · intro m hm' hl
      rcases rep0_hit_complete env ctx hIn id c mx h p m hp hm' with rfl | hmem
      · exact .inl rfl
      · exact .inr ⟨m, hmem, hl⟩
  | false =>
    have hex : Step.Ex (sem ctx (.rep id c 0 mx true) p st) _ := Clean3.rep0_fresh env ctx hIn id c mx h p hp st hm
    refine ⟨fun _ => False, fun m hm' => hm'.elim, ?_⟩
    refine ES_of_ex hex _ ?_ (fun n hn => ex_sound ctx _ hw hp hex n hn) ?_
    · simp only [sem, if_true]
      refine rep0_fresh_inv C id mx p hp st hm ⟨HR_add ctx id p os hni st hst.2,
        hFr st id p List.mem_cons_self hFst, fun q hq => ?_⟩
      simp only [memPair_cons, beq_self_eq_true, Bool.true_and, Bool.or_eq_true, beq_iff_eq] at hq
      rcases hq with hq | hq
      · exact .inl hq.symm
      · exact .inr hq
    · intro m hm' hl
      right
      have hmem := Clean3.rep0_complete env ctx hIn id c mx h p m hp hm'
      rw [← Clean3.rep0_first_pass env ctx hIn id c mx h p hp] at hmem
      exact ⟨m, List.mem_append_left _ hmem, hl⟩

/-- when the repeat's iterator ends with every live end dead, the invariant holds again — now including
    the entry `(id, p)` -/
theorem rep0_post (ctx : Ctx) (id : Nat) (c : Op) (mx : Nat) (os : List Op) {F : St → Prop} (p : Nat) (hp : p ≤ ctx.len)
    (st : St) (hst : HR ctx (.rep id c 0 mx true :: os) st) (st' : St)
    (h1 : HR ctx os st') (h2 : frameOf F id p st st')
    (hdead : ∀ m, OpR ctx (.rep id c 0 mx true) p m → ¬ Live ctx os m) :
    HR ctx (.rep id c 0 mx true :: os) st' ∧ F st' := by
  refine ⟨⟨fun id' hid' q hq hmq => ?_, h1⟩, h2.1⟩
  have : id' = id := by simpa [rep0Id] using hid'.symm
  subst this
  rcases h2.2 q hmq with rfl | hold
  · exact hdead q (rep0_self ctx id' c mx q)
  · exact hst.1 id' hid' q hq hold

/-! ### the induction along the root sequence -/

theorem seqGood (env : Env) (ctx : Ctx) (hIn : InputOK env ctx) : ∀ (R : List Op),
    cleanSeq3m env ctx.caseBlind ctx.multiLine R = true → wfOps R = true → noEmptyAtomsL R = true →
    clsCanonL R → (rep0Ids R).Nodup → R ≠ [] →
    ∀ (F : St → Prop), HistOnly F → FrameOK F (rep0Ids R) →
    ∀ p, p ≤ ctx.len → ∀ st, HR ctx R st → F st → Good ctx R F p (seqGo (semL ctx R) p st) := by
  intro R
  induction R with
  | nil => intro _ _ _ _ _ hne; exact absurd rfl hne
  | cons e os ih =>
    intro hc hw hn hcc hnd _ F hF hFr p hp st hst hFst
    simp only [cleanSeq3m, elemOK, Bool.and_eq_true, Bool.or_eq_true] at hc
    simp only [wfOps, Bool.and_eq_true] at hw
    simp only [noEmptyAtomsL, Bool.and_eq_true] at hn
    simp only [clsCanonL] at hcc
    -- what the element provides, uniformly
    have key : ∃ (F' : St → Prop) (V : Nat → Prop), HistOnly F' ∧ FrameOK F' (rep0Ids os) ∧
        (∀ m, V m → ¬ Live ctx os m) ∧
        ES ctx e p (fun s => HR ctx os s ∧ F' s) (fun n => ¬ Live ctx os n) (Live ctx os) V (sem ctx e p st) ∧
        (∀ st', HR ctx os st' → F' st' → (∀ m, OpR ctx e p m → ¬ Live ctx os m) →
          HR ctx (e :: os) st' ∧ F st') := by
      rcases hc.1 with hfree | hrep
      · have hid := rep0Id_of_clean3 env _ _ true os e hfree
        have hids : rep0Ids (e :: os) = rep0Ids os := by simp only [rep0Ids, hid, List.nil_append]
        rw [hids] at hFr
        have hI' : HistOnly (fun s => HR ctx os s ∧ F s) :=
          fun s s' he hh => ⟨HR_histOnly ctx os s s' he hh.1, hF s s' he hh.2⟩
        refine ⟨F, fun _ => False, hF, hFr, fun m hm => hm.elim,
          elem_free env ctx hIn e os hfree hw.1 hn.1 hcc.1 hw.2 hn.2 hcc.2 hI' p hp st ⟨hst.2, hFst⟩, ?_⟩
        intro st' h1 h2 _
        exact ⟨⟨fun id hid' => (by rw [hid] at hid'; cases hid'), h1⟩, h2⟩
      · obtain ⟨id, c, mx, rfl, hr⟩ := rep0B_cases env ctx e hrep hw.1 hn.1 hcc.1
        have hids : rep0Ids (.rep id c 0 mx true :: os) = id :: rep0Ids os := by simp [rep0Ids, rep0Id]
        rw [hids] at hFr hnd
        rw [List.nodup_cons] at hnd
        obtain ⟨V, hV, hes⟩ := elem_rep0 env ctx hIn id c mx os hr hnd.1 hF hFr p hp st hst hFst
        exact ⟨frameOf F id p st, V, frameOf_histOnly hF id p st, frameOf_frameOK id p st hFr hnd.1, hV, hes,
          fun st' h1 h2 hd => rep0_post ctx id c mx os p hp st hst st' h1 h2 hd⟩
    obtain ⟨F', V, hF', hFr', hV, hes, hpost⟩ := key
    have hnd' : (rep0Ids os).Nodup := by
      simp only [rep0Ids] at hnd
      exact (List.nodup_append.1 hnd).2.1
    cases os with
    | nil =>
      show Good ctx [e] F p (seqGo [sem ctx e] p st)
      unfold seqGo
      refine last_good (I' := fun s => HR ctx [] s ∧ F' s) (fun st' hI hno => ?_) hes
        (fun m hm => hV m hm (live_nil ctx m))
      exact hpost st' hI.1 hI.2 (fun m hm => absurd hm (hno m))
    | cons o2 rest =>
      show Good ctx (e :: o2 :: rest) F p (seqGo (sem ctx e :: sem ctx o2 :: semL ctx rest) p st)
      unfold seqGo
      refine bind_good hF' (fun n hn' st2 h1 h2 => ?_) hpost hes hV
      exact ih hc.2 hw.2 hn.2 hcc.2 hnd' (List.cons_ne_nil _ _) F' hF' hFr' n hn' st2 h1 h2

/-! ### `match_at` under the invariant -/

theorem good_onNil {ctx : Ctx} {R : List Op} {F : St → Prop} {p : Nat} (hF : HistOnly F) {s : Step} {f : St → St}
    (hf : ∀ st, (f st).hist = st.hist) (h : Good ctx R F p s) : Good ctx R F p (s.onNil f) := by
  cases s with
  | nil st' => exact ⟨HR_histOnly ctx R st' _ (hf st') h.1, hF st' _ (hf st') h.2.1, h.2.2⟩
  | cons n st1 r => exact h
  | diverge => exact h

/-- the root sequence: what its iterator does first, from a state satisfying the invariant -/
theorem rootGood (env : Env) (ctx : Ctx) (hIn : InputOK env ctx) (l : List Op)
    (hc : cleanProg3m env ctx.caseBlind ctx.multiLine (.seq l) = true) (hw : wfOp (.seq l) = true)
    (hn : noEmptyAtoms (.seq l) = true) (hcc : clsCanon (.seq l))
    (p : Nat) (hp : p ≤ ctx.len) (st : St) (hst : HR ctx l st) :
    Good ctx l (fun _ => True) p (sem ctx (.seq l) p st) := by
  simp only [cleanProg3m, Bool.and_eq_true, decide_eq_true_eq] at hc
  simp only [wfOp, Bool.and_eq_true, Bool.not_eq_true', List.isEmpty_eq_false_iff] at hw
  simp only [noEmptyAtoms] at hn
  simp only [clsCanon] at hcc
  simp only [sem]
  unfold seqGen
  refine good_onNil (fun _ _ _ _ => trivial) (fun s => by split <;> rfl) ?_
  exact seqGood env ctx hIn l hc.1 hw.2 hn hcc hc.2 hw.1 (fun _ => True) (fun _ _ _ _ => trivial)
    (fun _ _ _ _ _ => trivial) p hp st hst trivial

/-- `match_at(j)` from a state whose memo satisfies the invariant: a correct and COMPLETE test, and a
    failed attempt leaves the invariant intact -/
theorem matchAt_memo (env : Env) (ctx : Ctx) (hIn : InputOK env ctx) (l : List Op)
    (hc : cleanProg3m env ctx.caseBlind ctx.multiLine (.seq l) = true) (hw : wfOp (.seq l) = true)
    (hn : noEmptyAtoms (.seq l) = true) (hcc : clsCanon (.seq l))
    (j : Nat) (hj : j ≤ ctx.len) (st : St) (hst : HR ctx l st) :
    ((matchAt ctx (.seq l) j st).1 = true ↔ ∃ q, OpR ctx (.seq l) j q) ∧
    ((matchAt ctx (.seq l) j st).1 = false → HR ctx l (matchAt ctx (.seq l) j st).2) := by
  have hg := rootGood env ctx hIn l hc hw hn hcc j hj (matchStart ctx j st)
    (HR_histOnly ctx l st _ (Clean3.matchStart_hist ctx j st) hst)
  rw [matchAt_eq]
  generalize sem ctx (.seq l) j (matchStart ctx j st) = s at hg
  cases s with
  | nil st' =>
    obtain ⟨h1, _, h3⟩ := hg
    refine ⟨⟨fun h => by simp at h, fun ⟨q, hq⟩ => absurd ⟨q, by simpa only [OpR] using hq⟩ h3⟩, fun _ => ?_⟩
    exact HR_histOnly ctx l st' _ rfl h1
  | cons n st1 r =>
    have hg' : OpRSeq ctx l j n := hg
    refine ⟨⟨fun _ => ⟨n, by simpa only [OpR] using hg'⟩, fun _ => rfl⟩, fun h => by simp at h⟩
  | diverge => exact hg.elim

/-! ## Part C: the candidate loop and `matches` under the invariant -/

/-- the state invariant of the search: panic marker clear, every memo entry dead -/
def MI (ctx : Ctx) (l : List Op) (st : St) : Prop := st.panic = none ∧ HR ctx l st

/-- the outcome of Proofs/SearchLemmas, plus: a failed search leaves the memo invariant intact -/
def OutcomeM (ctx : Ctx) (l : List Op) (i : Nat) (r : Bool × St) : Prop :=
  Outcome ctx (.seq l) i r ∧ (r.1 = false → HR ctx l r.2)

/-- everything the search needs to know about the program's tree -/
structure TreeM (env : Env) (ctx : Ctx) (l : List Op) : Prop where
  inp : InputOK env ctx
  clean : cleanProg3m env ctx.caseBlind ctx.multiLine (.seq l) = true
  wf : wfOp (.seq l) = true
  ne : noEmptyAtoms (.seq l) = true
  can : clsCanon (.seq l)
  quiet : Quiet ctx (.seq l)

theorem matchAt_cases_memo {env : Env} {ctx : Ctx} {l : List Op} (T : TreeM env ctx l)
    (j : Nat) (st : St) (hj : j ≤ ctx.len) (hst : MI ctx l st) :
    (Has ctx (.seq l) j ∧ ∃ st', matchAt ctx (.seq l) j st = (true, st') ∧ st'.panic = none) ∨
    (¬ Has ctx (.seq l) j ∧ ∃ st', matchAt ctx (.seq l) j st = (false, st') ∧ MI ctx l st') := by
  obtain ⟨hiff, hfail⟩ := matchAt_memo env ctx T.inp l T.clean T.wf T.ne T.can j hj st hst.2
  have hp : (matchStart ctx j st).panic = none := by rw [matchStart_panic]; exact hst.1
  obtain ⟨hnd, hpn⟩ := T.quiet j (matchStart ctx j st) hj hp
  have hpan : (matchAt ctx (.seq l) j st).2.panic = none := by
    rw [matchAt_eq]
    cases hs : sem ctx (.seq l) j (matchStart ctx j st) with
    | nil st' => rw [hs] at hpn; exact hpn
    | cons n st' r => rw [hs] at hpn; exact hpn
    | diverge => exact absurd hs hnd
  cases hb : (matchAt ctx (.seq l) j st).1 with
  | true =>
    left
    exact ⟨hiff.1 hb, (matchAt ctx (.seq l) j st).2, by rw [← hb], hpan⟩
  | false =>
    right
    refine ⟨fun hh => ?_, (matchAt ctx (.seq l) j st).2, by rw [← hb], hpan, hfail hb⟩
    rw [hiff.2 hh] at hb
    cases hb

/-- `tryCands` from a state satisfying the invariant -/
theorem tryCands_spec_memo {env : Env} {ctx : Ctx} {l : List Op} (T : TreeM env ctx l) :
    ∀ (cands : List Nat) (st : St), (∀ j ∈ cands, j ≤ ctx.len) → MI ctx l st →
    (∃ pre j post stj st', cands = pre ++ j :: post ∧ (∀ k ∈ pre, ¬ Has ctx (.seq l) k) ∧ Has ctx (.seq l) j ∧
        tryCands ctx (.seq l) cands st = (true, st') ∧ st'.panic = none ∧
        matchAt ctx (.seq l) j stj = (true, st')) ∨
    ((∀ k ∈ cands, ¬ Has ctx (.seq l) k) ∧ ∃ st', tryCands ctx (.seq l) cands st = (false, st') ∧ MI ctx l st') := by
  intro cands
  induction cands with
  | nil =>
    intro st _ hst
    right
    exact ⟨fun k hk => (by cases hk), st, rfl, hst⟩
  | cons j js ih =>
    intro st hb hst
    have hj := hb j List.mem_cons_self
    have hb' : ∀ k ∈ js, k ≤ ctx.len := fun k hk => hb k (List.mem_cons_of_mem _ hk)
    rcases matchAt_cases_memo T j st hj hst with ⟨hm, st', he, hc⟩ | ⟨hm, st1, he, hc⟩
    · left
      refine ⟨[], j, js, st, st', rfl, fun k hk => (by cases hk), hm, ?_, hc, he⟩
      unfold tryCands
      rw [he]
    · have hp : ¬ st1.panic.isSome = true := by rw [hc.1]; simp
      have hstep : tryCands ctx (.seq l) (j :: js) st = tryCands ctx (.seq l) js st1 := tryCands_cons_false he hp
      rcases ih st1 hb' hc with ⟨pre, j', post, stj, st', hcs, hpre, hmj, ht, hcl, hma⟩ | ⟨hall, st', ht, hcl⟩
      · left
        refine ⟨j :: pre, j', post, stj, st', by rw [hcs]; rfl, ?_, hmj, by rw [hstep]; exact ht, hcl, hma⟩
        intro k hk
        rcases List.mem_cons.1 hk with rfl | hk
        · exact hm
        · exact hpre k hk
      · right
        refine ⟨?_, st', by rw [hstep]; exact ht, hcl⟩
        intro k hk
        rcases List.mem_cons.1 hk with rfl | hk
        · exact hm
        · exact hall k hk

theorem tryCands_outcome_memo {env : Env} {ctx : Ctx} {l : List Op} (T : TreeM env ctx l) (i : Nat)
    (cands : List Nat) (hsort : cands.Pairwise (· < ·)) (hb : ∀ j ∈ cands, i ≤ j ∧ j ≤ ctx.len)
    (hcover : ∀ j, i ≤ j → j ≤ ctx.len → Has ctx (.seq l) j → j ∈ cands)
    (st : St) (hst : MI ctx l st) : OutcomeM ctx l i (tryCands ctx (.seq l) cands st) := by
  rcases tryCands_spec_memo T cands st (fun j hj => (hb j hj).2) hst with
    ⟨pre, j, post, stj, st', hcs, hpre, hmj, ht, hcl, hma⟩ | ⟨hall, st', ht, hcl⟩
  · rw [ht]
    refine ⟨⟨hcl, .inl ⟨rfl, j, stj, ?_, ?_, hmj, ?_, hma⟩⟩, fun h => by cases h⟩
    · exact (hb j (by rw [hcs]; simp)).1
    · exact (hb j (by rw [hcs]; simp)).2
    · intro k hik hkj hmk
      have hjl := (hb j (by rw [hcs]; simp)).2
      have hk := hcover k hik (by omega) hmk
      rw [hcs] at hk hsort
      rw [List.pairwise_append] at hsort
      obtain ⟨_, hs2, _⟩ := hsort
      rw [List.pairwise_cons] at hs2
      rcases List.mem_append.1 hk with hk | hk
      · exact hpre k hk hmk
      · rcases List.mem_cons.1 hk with rfl | hk
        · omega
        · have := hs2.1 k hk
          omega
  · rw [ht]
    refine ⟨⟨hcl.1, .inr ⟨rfl, ?_⟩⟩, fun _ => hcl.2⟩
    intro j hij hjl hmj
    exact hall j (hcover j hij hjl hmj) hmj

/-! ### the precondition tests do not touch the memo -/

/-- a precondition tree does not write the memo: no skippable repeat at its root (its body is one character) -/
def preMemoFree : Op → Bool
  | .rep _ _ mn _ g => g && decide (1 ≤ mn)
  | _ => true

theorem preMemoFree_of_preShape3 (o : Op) (h : preShape3 o = true) : preMemoFree o = true := by
  cases o with
  | rep id c mn mx g =>
    simp only [preShape3, preShape2, preShape, cleanOp, Bool.false_and, Bool.false_or, Bool.or_false,
      Bool.or_eq_true, Bool.and_eq_true, beq_iff_eq, decide_eq_true_eq] at h
    simp only [preMemoFree, Bool.and_eq_true, decide_eq_true_eq]
    rcases h with h | h
    · exact ⟨h.1.1.1.1, h.2⟩
    · exact ⟨h.1.1.1.1.1, by omega⟩
  | _ => rfl

theorem leaf_childOK (ctx : Ctx) {I : St → Prop} (c : Op) (hac : isAtomOrClass c = true) :
    ChildOK (fun _ => True) I (sem ctx c) where
  inv := by
    cases c with
    | atom cs => simp only [sem]; exact atomGen_inv ctx cs
    | cls rs => simp only [sem]; exact clsGen_inv ctx rs
    | _ => simp [isAtomOrClass] at hac
  fst := by
    intro p st _ h
    cases c with
    | atom cs =>
      simp only [sem, atomGen]
      split
      · exact h
      · split <;> exact h
    | cls rs =>
      simp only [sem, clsGen]
      split
      · split <;> exact h
      · exact h
    | _ => simp [isAtomOrClass] at hac
  pos := fun p st _ => Step.All.trivial _

/-- at EVERY position (a fixed-position precondition may be tested beyond the input) -/
theorem pre_hinv (ctx : Ctx) {I : St → Prop} (hI : HistOnly I) (o : Op) (hs : C06.simplePre o = true)
    (hm : preMemoFree o = true) : GenInv (fun _ => True) I (sem ctx o) := by
  cases o with
  | atom cs => simp only [sem]; exact atomGen_inv ctx cs
  | cls rs => simp only [sem]; exact clsGen_inv ctx rs
  | rep id c mn mx g =>
    simp only [C06.simplePre, Bool.and_eq_true] at hs
    simp only [preMemoFree, Bool.and_eq_true, decide_eq_true_eq] at hm
    obtain ⟨rfl, hmn⟩ := hm
    intro p st hp h
    simp only [sem, if_true]
    exact repGreedyGen_hinv (leaf_childOK ctx c hs.1.1.1.1) ctx id mn mx p st hp h (.inl (by omega))
  | gfixed c mn mx len =>
    simp only [C06.simplePre, Bool.and_eq_true] at hs
    simp only [sem]
    exact gfixedGen_hinv hI (leaf_childOK ctx c hs.1.1.1.1.1.1) ctx mn mx len (fun _ _ => trivial)
  | rfixed c mn mx len =>
    simp only [C06.simplePre, Bool.and_eq_true] at hs
    simp only [sem]
    exact rfixedGen_hinv hI (leaf_childOK ctx c hs.1.1.1.1.1.1) ctx mn mx
  | unamb c mn mx =>
    simp only [C06.simplePre, Bool.and_eq_true] at hs
    simp only [sem]
    exact unambGen_hinv hI (leaf_childOK ctx c hs.1.1.1) ctx mn mx (fun _ _ => trivial)
  | _ => simp [C06.simplePre] at hs

/-- what the search needs about one precondition -/
structure PreM (ctx : Ctx) (q : Pre) : Prop where
  comp : CompleteAt ctx q.op
  quiet : QuietAll ctx q.op
  simple : C06.simplePre q.op = true
  free : preMemoFree q.op = true

theorem preHolds_hinv (ctx : Ctx) {I : St → Prop} (hI : HistOnly I) (q : Pre) (hq : PreM ctx q) (j : Nat) (st : St)
    (h : I st) : I (preHolds ctx q.op j st).2 := by
  have hinv := pre_hinv ctx hI q.op hq.simple hq.free j st trivial h
  unfold preHolds
  cases hs : sem ctx q.op j st with
  | nil st' => rw [hs] at hinv; exact hinv.nil_inv
  | cons n st' r => rw [hs] at hinv; exact hinv.head
  | diverge => exact hI st _ (setPanic_hist _ _) h

theorem findFrom_hinv (ctx : Ctx) {I : St → Prop} (hI : HistOnly I) (q : Pre) (hq : PreM ctx q) :
    ∀ fuel j st, I st → I (findFrom ctx q.op fuel j st).2 := by
  intro fuel
  induction fuel with
  | zero => intro j st h; exact h
  | succ f ih =>
    intro j st h
    unfold findFrom
    split
    · have hp := preHolds_hinv ctx hI q hq j st h
      split
      · rename_i st' heq; rw [heq] at hp; exact hp
      · rename_i st' heq
        rw [heq] at hp
        split
        · exact hp
        · exact ih _ _ hp
    · exact h

theorem checkPre_hinv (ctx : Ctx) {I : St → Prop} (hI : HistOnly I) (start : Nat) :
    ∀ (pres : List Pre) (st : St), (∀ q ∈ pres, PreM ctx q) → I st → I (checkPre ctx start pres st).2 := by
  intro pres
  induction pres with
  | nil => intro st _ h; exact h
  | cons pre rest ih =>
    intro st hq h
    have hpre := hq pre List.mem_cons_self
    have hrest : ∀ q ∈ rest, PreM ctx q := fun q hm => hq q (List.mem_cons_of_mem _ hm)
    unfold checkPre
    split
    · rename_i fixed _
      have hp := preHolds_hinv ctx hI pre hpre fixed st h
      split
      · rename_i st' heq; rw [heq] at hp; exact ih _ hrest hp
      · rename_i st' heq; rw [heq] at hp; exact hp
    · simp only
      have hp := findFrom_hinv ctx hI pre hpre (ctx.len + 1)
        (if start < pre.minPos then pre.minPos else start) st h
      split
      · rename_i st' heq; rw [heq] at hp; exact ih _ hrest hp
      · rename_i st' heq; rw [heq] at hp; exact hp

/-! ### the five shortcuts, under the invariant (the argument of Proofs/SearchLemmas, with `MI` for "clean") -/

theorem matchAt_outcome_memo {env : Env} {ctx : Ctx} {l : List Op} (T : TreeM env ctx l) (i : Nat)
    (hi : i ≤ ctx.len) (honly : ∀ j, i ≤ j → j ≤ ctx.len → Has ctx (.seq l) j → j = i)
    (st : St) (hst : MI ctx l st) : OutcomeM ctx l i (matchAt ctx (.seq l) i st) := by
  rcases matchAt_cases_memo T i st hi hst with ⟨hm, st', he, hc⟩ | ⟨hm, st', he, hc⟩
  · rw [he]
    exact ⟨⟨hc, .inl ⟨rfl, i, st, Nat.le_refl _, hi, hm, fun k h1 h2 => by omega, he⟩⟩, fun h => by cases h⟩
  · rw [he]
    refine ⟨⟨hc.1, .inr ⟨rfl, fun j hij hjl hmj => ?_⟩⟩, fun _ => hc.2⟩
    have := honly j hij hjl hmj
    subst this
    exact hm hmj

theorem pre_then_memo {ctx : Ctx} {pr : Prog} {l : List Op} (hop : pr.op = .seq l) (F : SearchFacts ctx pr)
    (hP : ∀ q ∈ pr.pres, PreM ctx q)
    (i : Nat) (st : St) (hst : MI ctx l st) (k : St → Bool × St)
    (hk : ∀ st', MI ctx l st' → OutcomeM ctx l i (k st')) :
    OutcomeM ctx l i
      (match checkPre ctx i pr.pres st with
       | (false, st') => (false, st')
       | (true, st') => k st') := by
  have hcl := checkPre_clean i pr.pres st (fun q hq => (hP q hq).quiet) hst.1
  have hh := checkPre_hinv ctx (HR_histOnly ctx l) i pr.pres st hP hst.2
  cases h : checkPre ctx i pr.pres st with
  | mk b st' =>
    rw [h] at hcl hh
    cases b with
    | true => exact hk st' ⟨hcl, hh⟩
    | false =>
      refine ⟨⟨hcl, .inr ⟨rfl, fun j hij hjl hmj => ?_⟩⟩, fun _ => hh⟩
      obtain ⟨q, hq⟩ := hmj
      have hf := F.pres i j q hij hjl (by rw [hop]; exact hq)
      rcases checkPre_spec i pr.pres st (fun p hp => ⟨(hP p hp).comp, (hP p hp).quiet.quiet⟩)
          (fun p hp => (hf p hp).2) hst.1 with ⟨_, st2, he, _⟩ | ⟨hno, _⟩
      · rw [h] at he; cases he
      · exact hno (fun p hp => (hf p hp).1)

theorem bol_single_memo {env : Env} {ctx : Ctx} {pr : Prog} {l : List Op} (hop : pr.op = .seq l)
    (T : TreeM env ctx l) (F : SearchFacts ctx pr) (hbol : pr.hasBol = true) (hml : ctx.multiLine = false)
    (hP : ∀ q ∈ pr.pres, PreM ctx q)
    (i : Nat) (hi : i ≤ ctx.len) (st : St) (hst : MI ctx l st) :
    OutcomeM ctx l i
      (if i != 0 then (false, st) else
        match checkPre ctx i pr.pres st with
        | (false, st') => (false, st')
        | (true, st') => matchAt ctx (.seq l) i st') := by
  have honly : ∀ j, Has ctx (.seq l) j → j = 0 := by
    rintro j ⟨q, hq⟩
    rcases F.bol hbol j q (by rw [hop]; exact hq) with h | h
    · exact h
    · rw [hml] at h; cases h.1
  by_cases h0 : i = 0
  · subst h0
    simp only [bne_self_eq_false, Bool.false_eq_true, if_false]
    exact pre_then_memo hop F hP 0 st hst _ (fun st' hc =>
      matchAt_outcome_memo T 0 hi (fun j _ _ hm => honly j hm) st' hc)
  · have hne : (i != 0) = true := by simp [h0]
    rw [if_pos hne]
    refine ⟨⟨hst.1, .inr ⟨rfl, fun j hij _ hmj => ?_⟩⟩, fun _ => hst.2⟩
    have := honly j hmj
    omega

theorem bol_multi_memo {env : Env} {ctx : Ctx} {pr : Prog} {l : List Op} (hop : pr.op = .seq l)
    (T : TreeM env ctx l) (F : SearchFacts ctx pr) (hbol : pr.hasBol = true)
    (i : Nat) (hi : i ≤ ctx.len) (st : St) (hst : MI ctx l st) :
    OutcomeM ctx l i
      (tryCands ctx (.seq l)
        (i :: (((rangeFrom i ctx.len).filter (fun k => ctx.nlAt k)).map (· + 1) |>.filter
          (fun k => decide (k < ctx.len)))) st) := by
  apply tryCands_outcome_memo T i _ _ _ _ st hst
  · rw [List.pairwise_cons]
    refine ⟨?_, ?_⟩
    · intro a ha
      simp only [List.mem_filter, List.mem_map, decide_eq_true_eq] at ha
      obtain ⟨⟨k, ⟨hk, _⟩, rfl⟩, _⟩ := ha
      have := mem_rangeFrom hk
      omega
    · apply List.Pairwise.filter
      apply List.Pairwise.map _ _ (List.Pairwise.filter _ (rangeFrom_pairwise i ctx.len))
      intro a b hab
      exact Nat.add_lt_add_right hab 1
  · intro j hj
    simp only [List.mem_cons, List.mem_filter, List.mem_map, decide_eq_true_eq] at hj
    rcases hj with rfl | ⟨⟨k, ⟨hk, _⟩, rfl⟩, hlt⟩
    · exact ⟨Nat.le_refl _, hi⟩
    · have := mem_rangeFrom hk
      omega
  · rintro j hij hjl ⟨q, hq⟩
    by_cases hji : j = i
    · subst hji; exact List.mem_cons_self
    · apply List.mem_cons_of_mem
      rcases F.bol hbol j q (by rw [hop]; exact hq) with h | ⟨_, hnl, hlt⟩
      · omega
      · simp only [List.mem_filter, List.mem_map, decide_eq_true_eq]
        refine ⟨⟨j - 1, ⟨?_, ?_⟩, by omega⟩, hlt⟩
        · rw [mem_rangeFrom_iff]
          omega
        · simp only [Ctx.nlAt, hnl, beq_self_eq_true]

theorem prefix_branch_memo {env : Env} {ctx : Ctx} {pr : Prog} {l : List Op} (hop : pr.op = .seq l)
    (T : TreeM env ctx l) (F : SearchFacts ctx pr) (cs : List Nat) (hpre : pr.prefix_ = some cs)
    (i : Nat) (st : St) (hst : MI ctx l st) :
    OutcomeM ctx l i
      (tryCands ctx (.seq l)
        ((rangeFrom i (ctx.len + 1 - cs.length)).filter
          (fun j => prefixMatch ctx cs (ctx.input.drop j))) st) := by
  apply tryCands_outcome_memo T i _ _ _ _ st hst
  · exact List.Pairwise.filter _ (rangeFrom_pairwise _ _)
  · intro j hj
    simp only [List.mem_filter] at hj
    have := mem_rangeFrom hj.1
    omega
  · rintro j hij _ ⟨q, hq⟩
    obtain ⟨h1, h2⟩ := F.prefix_ cs hpre j q (by rw [hop]; exact hq)
    simp only [List.mem_filter]
    refine ⟨?_, h2⟩
    rw [mem_rangeFrom_iff]
    omega

theorem icc_branch_memo {env : Env} {ctx : Ctx} {pr : Prog} {l : List Op} (hop : pr.op = .seq l)
    (T : TreeM env ctx l) (F : SearchFacts ctx pr) (rs : Ranges) (hicc : pr.icc = some rs)
    (i : Nat) (st : St) (hst : MI ctx l st) :
    OutcomeM ctx l i
      (tryCands ctx (.seq l)
        ((rangeFrom i ctx.len).filter (fun j =>
          match ctx.input[j]? with | some c => clsContains rs c | none => false)) st) := by
  apply tryCands_outcome_memo T i _ _ _ _ st hst
  · exact List.Pairwise.filter _ (rangeFrom_pairwise _ _)
  · intro j hj
    simp only [List.mem_filter] at hj
    have := mem_rangeFrom hj.1
    omega
  · rintro j hij _ ⟨q, hq⟩
    obtain ⟨c, h1, h2⟩ := F.icc rs hicc j q (by rw [hop]; exact hq)
    simp only [List.mem_filter]
    refine ⟨?_, by rw [h1]; exact h2⟩
    rw [mem_rangeFrom_iff]
    obtain ⟨hlt, _⟩ := List.getElem?_eq_some_iff.1 h1
    exact ⟨hij, hlt⟩

theorem naive_branch_memo {env : Env} {ctx : Ctx} {l : List Op} (T : TreeM env ctx l)
    (i : Nat) (st : St) (hst : MI ctx l st) :
    OutcomeM ctx l i (tryCands ctx (.seq l) (rangeFrom i (ctx.len + 1)) st) := by
  apply tryCands_outcome_memo T i _ _ _ _ st hst
  · exact rangeFrom_pairwise _ _
  · intro j hj
    have := mem_rangeFrom hj
    omega
  · intro j hij hjl _
    rw [mem_rangeFrom_iff]
    omega

/-- THE SEARCH LOOP under the memo invariant: `matches(i)` with all five shortcuts returns the right
    outcome from every state whose panic marker is clear and whose memo entries are all dead; a failed
    search leaves such a state -/
theorem matchesFrom_outcome_memo {env : Env} {ctx : Ctx} {pr : Prog} {l : List Op} (hop : pr.op = .seq l)
    (T : TreeM env ctx l) (F : SearchFacts ctx pr) (hlen : ctx.len < usizeMax)
    (hP : ∀ q ∈ pr.pres, PreM ctx q)
    (i : Nat) (hi : i ≤ ctx.len) (st0 : St) (hst0 : MI ctx l st0) :
    OutcomeM ctx l i (matchesFrom ctx pr i st0) := by
  unfold matchesFrom
  simp only
  rw [hop]
  have hst : MI ctx l ({ st0 with cap := {} } : St) := ⟨hst0.1, HR_histOnly ctx l st0 _ rfl hst0.2⟩
  generalize ({ st0 with cap := {} } : St) = st at hst
  by_cases hbol : pr.hasBol = true
  · rw [if_pos hbol]
    cases hml : ctx.multiLine with
    | false =>
      simp only [Bool.not_false, if_true]
      exact bol_single_memo hop T F hbol hml hP i hi st hst
    | true =>
      simp only [Bool.not_true, Bool.false_eq_true, if_false]
      exact bol_multi_memo hop T F hbol i hi st hst
  · rw [if_neg hbol]
    rw [if_neg (by omega : ¬ i > ctx.len)]
    by_cases hcut : ctx.len - i < pr.minLen
    · rw [if_pos hcut]
      refine ⟨⟨hst.1, .inr ⟨rfl, ?_⟩⟩, fun _ => hst.2⟩
      rintro j hij hjl ⟨q, hq⟩
      have h1 := F.minLen j q (by rw [hop]; exact hq)
      have h2 := (C01.OpR_bounds ctx (.seq l) j q hjl hq).2
      omega
    · rw [if_neg hcut]
      cases hpre : pr.prefix_ with
      | some cs =>
        simp only
        have hcs : ¬ cs.length > ctx.len + 1 := by
          rcases F.prefixLen cs hpre with h | h <;> omega
        rw [if_neg hcs]
        exact prefix_branch_memo hop T F cs hpre i st hst
      | none =>
        simp only
        cases hicc : pr.icc with
        | some rs =>
          simp only
          exact icc_branch_memo hop T F rs hicc i st hst
        | none =>
          simp only
          exact pre_then_memo hop F hP i st hst _ (fun st' hc => naive_branch_memo T i st' hc)

/-! ### the program built by `ReProgram::new` -/

theorem HR_of_nil (ctx : Ctx) : ∀ (l : List Op) (st : St), st.hist = [] → HR ctx l st
  | [], _, _ => trivial
  | o :: os, st, h => ⟨fun id _ p _ hm => by rw [h] at hm; simp [memPair] at hm, HR_of_nil ctx os st h⟩

theorem rep0B_body (env : Env) (cb ml : Bool) (o : Op) (h : rep0B env cb ml o = true) :
    ∃ id c mx, o = .rep id c 0 mx true ∧ shape2 c = true := by
  cases o with
  | rep id c mn mx g =>
    simp only [rep0B, Bool.and_eq_true, beq_iff_eq] at h
    obtain ⟨⟨⟨⟨rfl, rfl⟩, h1⟩, _⟩, _⟩ := h
    exact ⟨id, c, mx, rfl, shape_of_clean2 env cb ml c _ _ h1⟩
  | _ => simp [rep0B] at h

theorem noBackref3m (env : Env) (cb ml : Bool) : ∀ (l : List Op), cleanSeq3m env cb ml l = true →
    hasBackrefL l = false
  | [], _ => rfl
  | o :: os, h => by
    simp only [cleanSeq3m, elemOK, Bool.and_eq_true, Bool.or_eq_true] at h
    simp only [hasBackrefL, Bool.or_eq_false_iff]
    refine ⟨?_, noBackref3m env cb ml os h.2⟩
    rcases h.1 with h1 | h1
    · exact clean3_noBackref env cb ml o _ _ h1
    · obtain ⟨id, c, mx, rfl, hs⟩ := rep0B_body env cb ml o h1
      simp only [hasBackref]; exact Clean2.shape2_noBackref c hs

theorem smallMin3m (env : Env) (cb ml : Bool) (n : Nat) : ∀ (l : List Op), cleanSeq3m env cb ml l = true →
    noEmptyAtomsL l = true → C06.smallMinL n l = true
  | [], _, _ => rfl
  | o :: os, h, hne => by
    simp only [cleanSeq3m, elemOK, Bool.and_eq_true, Bool.or_eq_true] at h
    simp only [noEmptyAtomsL, Bool.and_eq_true] at hne
    simp only [C06.smallMinL, Bool.and_eq_true]
    refine ⟨?_, smallMin3m env cb ml n os h.2 hne.2⟩
    rcases h.1 with h1 | h1
    · exact clean3_smallMin env cb ml n o _ _ h1 hne.1
    · obtain ⟨id, c, mx, rfl, hs⟩ := rep0B_body env cb ml o h1
      have hnc : noEmptyAtoms c = true := by simpa only [noEmptyAtoms] using hne.1
      simp only [C06.smallMin, Bool.true_or, Bool.and_true]
      exact Clean2.shape2_smallMin n c hs hnc

/-- `add_precondition` records nothing for a skippable repeat, and the known shapes for the other elements -/
theorem addPreSeq_preShape3m (env : Env) (cb ml mlf : Bool) : ∀ (l : List Op), cleanSeq3m env cb ml l = true →
    wfOps l = true → noEmptyAtomsL l = true → clsCanonBL l = true →
    ∀ fp mp, ∀ q ∈ addPreSeq mlf l fp mp, preShape3 q.op = true
  | [], _, _, _, _, fp, mp, q, hq => by simp only [addPreSeq] at hq; cases hq
  | o :: os, hc, hwf, hne, hcan, fp, mp, q, hq => by
    simp only [cleanSeq3m, elemOK, Bool.and_eq_true, Bool.or_eq_true] at hc
    simp only [wfOps, Bool.and_eq_true] at hwf
    simp only [noEmptyAtomsL, Bool.and_eq_true] at hne
    simp only [clsCanonBL, Bool.and_eq_true] at hcan
    simp only [addPreSeq, List.mem_append] at hq
    rcases hq with hq | hq
    · rcases hc.1 with h1 | h1
      · exact addPre_preShape3 mlf o (shape3_of_clean3 env cb ml o _ _ h1) hwf.1 hne.1 hcan.1 _ mp q hq
      · obtain ⟨id, c, mx, rfl, _⟩ := rep0B_body env cb ml o h1
        simp [addPre] at hq
    · exact addPreSeq_preShape3m env cb ml mlf os hc.2 hwf.2 hne.2 hcan.2 _ _ q hq

/-- everything the search theorem needs, for a program whose (numbered) tree is the root sequence `l` -/
theorem program_facts (env : Env) (pat : List Nat) (op : Op) (mp : Nat) (fl : CFlags)
    (lower : Nat → Nat) (input : List Nat) (hI : InputOKFor env fl lower input) (l : List Op)
    (hop : (mkProgram pat op mp fl false).op = .seq l)
    (hc : cleanProg3m env fl.caseBlind fl.multiLine (.seq l) = true)
    (hwf : wfOp op = true) (hne : noEmptyAtoms op = true) (hcan : clsCanonB (.seq l) = true)
    (hlen : input.length < usizeMax) :
    TreeM env ((mkProgram pat op mp fl false).ctx lower input) l ∧
    SearchFacts ((mkProgram pat op mp fl false).ctx lower input) (mkProgram pat op mp fl false) ∧
    (∀ q ∈ (mkProgram pat op mp fl false).pres, PreM ((mkProgram pat op mp fl false).ctx lower input) q) := by
  obtain ⟨hnum, _⟩ := WF.mkProgram_op pat op mp fl false
  obtain ⟨hcb, hml, _, _, hbr⟩ := mkProgram_ctx pat op mp fl false lower input
  have hT : (numberReps op 0).1 = .seq l := by rw [← hnum]; exact hop
  have hwT : wfOp (.seq l) = true := by rw [← hT, WF.wfOp_numberReps]; exact hwf
  have hnT : noEmptyAtoms (.seq l) = true := by rw [← hT, ApiL.noEmptyAtoms_numberReps]; exact hne
  have hc' := hc
  simp only [cleanProg3m, Bool.and_eq_true, decide_eq_true_eq] at hc'
  have hnbT : hasBackref (.seq l) = false := by simp only [hasBackref]; exact noBackref3m env _ _ l hc'.1
  have hnb : hasBackref op = false := by
    have := hnbT; rwa [← hT, hasBackref_numberReps] at this
  have hsmT : C06.smallMin input.length (.seq l) = true := by
    simp only [C06.smallMin]
    exact smallMin3m env _ _ _ l hc'.1 (by simpa only [noEmptyAtoms] using hnT)
  have hIn := hI.ctx pat op mp false
  refine ⟨⟨hIn, by rw [hcb, hml]; exact hc, hwT, hnT, clsCanon_of_B _ hcan,
    quiet_of_wf _ hbr _ hnbT hwT hsmT⟩,
    mkProgram_searchFacts pat op mp fl false lower input hwf hne hlen, ?_⟩
  intro q hq
  have hfo := WF.mkProgram_factsOK_any pat op mp fl false hnb
  have hps := ApiL.mkProgram_pres_simple pat op mp fl false hwf hne q hq
  have hshape : preShape3 q.op = true := by
    obtain ⟨_, _, _, _, _, _, _, _, _, hpres⟩ := mkProgram_shape pat op mp fl false
    rcases hpres with he | ⟨n, he⟩
    · rw [he] at hq; cases hq
    · rw [he, hT] at hq
      obtain ⟨p, hp, b, rfl⟩ := mem_numberPres _ _ _ hq
      apply preShape3_numberReps
      simp only [addPre] at hp
      simp only [wfOp, Bool.and_eq_true] at hwT
      exact addPreSeq_preShape3m env _ _ fl.multiLine l hc'.1 hwT.2 (by simpa only [noEmptyAtoms] using hnT)
        (by simpa only [clsCanonB] using hcan) none 0 p hp
  exact ⟨preShape3_completeAt env _ hIn q.op hshape,
    quietAll_of_simplePre _ hbr q.op (hfo.2 q hq) hps, hps, preMemoFree_of_preShape3 q.op hshape⟩

end Rx.Memo
