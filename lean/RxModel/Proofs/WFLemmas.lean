/-
  Proofs/WFLemmas — helper lemmas for Props/WF: the compiler (parser, `optimize`, `numberReps`,
  `mkProgram`) establishes the decidable hypotheses of the engine theorems.
-/
import RxModel.Model.Compile
import RxModel.Spec.OpLang
import RxModel.Props.C02
import RxModel.Props.C05
import RxModel.Proofs.XsdLemmas
import RxModel.Proofs.MiscLemmas
import RxModel.Proofs.OptLemmas
import RxModel.Proofs.AnalyzeLemmas
namespace Rx.WF
open Rx
open Rx.C02 (capsPos capsPosL)
open Rx.C17 (POk)
open Rx.OptL (seqElem optimizeSeq_cons2 seqElem_cases)

mutual
/-- no recorded body length of a fixed-length repeat is saturated -/
def noSat : Op → Bool
  | .capture _ c => noSat c
  | .choice bs => noSatL bs
  | .seq ops => noSatL ops
  | .rep _ c _ _ _ => noSat c
  | .gfixed c _ _ len => noSat c && decide (len < usizeMax)
  | .rfixed c _ _ len => noSat c && decide (len < usizeMax)
  | .unamb c _ _ => noSat c
  | _ => true
termination_by structural o => o
def noSatL : List Op → Bool
  | [] => true
  | o :: os => noSat o && noSatL os
termination_by structural l => l
end

/-! ### `numberReps` -/

mutual
theorem matchLen_numberReps : (op : Op) → ∀ n, matchLen (numberReps op n).1 = matchLen op
  | .bol, n | .eol, n | .nothing, n | .endProgram, n => by simp only [numberReps]
  | .atom _, n | .cls _, n | .backref _, n => by simp only [numberReps]
  | .capture g c, n => by simp only [numberReps, matchLen]; exact matchLen_numberReps c n
  | .choice bs, n => by simp only [numberReps, matchLen]; exact matchLenChoice_numberRepsL bs n
  | .seq ops, n => by simp only [numberReps, matchLen]; exact matchLenSeq_numberRepsL ops n
  | .rep id c mn mx g, n => by simp only [numberReps, matchLen]; rw [matchLen_numberReps c (n + 1)]
  | .gfixed c mn mx len, n => by simp only [numberReps, matchLen]
  | .rfixed c mn mx len, n => by simp only [numberReps, matchLen]
  | .unamb c mn mx, n => by simp only [numberReps, matchLen]; rw [matchLen_numberReps c n]
termination_by structural op => op
theorem matchLenChoice_numberRepsL : (l : List Op) → ∀ n,
    matchLenChoice (numberRepsL l n).1 = matchLenChoice l
  | [], n => by simp only [numberRepsL]
  | o :: os, n => by
    simp only [numberRepsL, matchLenChoice]
    rw [matchLen_numberReps o n, matchLenAllEq_numberRepsL os]
termination_by structural l => l
theorem matchLenAllEq_numberRepsL : (l : List Op) → ∀ fx n,
    matchLenAllEq fx (numberRepsL l n).1 = matchLenAllEq fx l
  | [], fx, n => by simp only [numberRepsL]
  | o :: os, fx, n => by
    simp only [numberRepsL, matchLenAllEq]
    rw [matchLen_numberReps o n, matchLenAllEq_numberRepsL os]
termination_by structural l => l
theorem matchLenSeq_numberRepsL : (l : List Op) → ∀ n,
    matchLenSeq (numberRepsL l n).1 = matchLenSeq l
  | [], n => by simp only [numberRepsL]
  | o :: os, n => by
    simp only [numberRepsL, matchLenSeq]
    rw [matchLen_numberReps o n, matchLenSeq_numberRepsL os]
termination_by structural l => l
end

theorem numberRepsL_isEmpty (l : List Op) (n : Nat) : (numberRepsL l n).1.isEmpty = l.isEmpty := by
  cases l <;> simp [numberRepsL]

mutual
theorem wfOp_numberReps : (op : Op) → ∀ n, wfOp (numberReps op n).1 = wfOp op
  | .bol, n | .eol, n | .nothing, n | .endProgram, n => by simp only [numberReps]
  | .atom _, n | .cls _, n | .backref _, n => by simp only [numberReps]
  | .capture g c, n => by simp only [numberReps, wfOp]; exact wfOp_numberReps c n
  | .choice bs, n => by
    simp only [numberReps, wfOp]; rw [wfOps_numberRepsL bs n, numberRepsL_isEmpty]
  | .seq ops, n => by
    simp only [numberReps, wfOp]; rw [wfOps_numberRepsL ops n, numberRepsL_isEmpty]
  | .rep id c mn mx g, n => by simp only [numberReps, wfOp]; rw [wfOp_numberReps c (n + 1)]
  | .gfixed c mn mx len, n => by
    simp only [numberReps, wfOp]; rw [wfOp_numberReps c n, matchLen_numberReps c n]
  | .rfixed c mn mx len, n => by
    simp only [numberReps, wfOp]; rw [wfOp_numberReps c n, matchLen_numberReps c n]
  | .unamb c mn mx, n => by simp only [numberReps, wfOp]; rw [wfOp_numberReps c n]
termination_by structural op => op
theorem wfOps_numberRepsL : (l : List Op) → ∀ n, wfOps (numberRepsL l n).1 = wfOps l
  | [], n => by simp only [numberRepsL]
  | o :: os, n => by
    simp only [numberRepsL, wfOps]
    rw [wfOp_numberReps o n, wfOps_numberRepsL os]
termination_by structural l => l
end

mutual
theorem capsPos_numberReps : (op : Op) → ∀ n, capsPos (numberReps op n).1 = capsPos op
  | .bol, n | .eol, n | .nothing, n | .endProgram, n => by simp only [numberReps]
  | .atom _, n | .cls _, n | .backref _, n => by simp only [numberReps]
  | .capture g c, n => by simp only [numberReps, capsPos]; rw [capsPos_numberReps c n]
  | .choice bs, n => by simp only [numberReps, capsPos]; exact capsPosL_numberRepsL bs n
  | .seq ops, n => by simp only [numberReps, capsPos]; exact capsPosL_numberRepsL ops n
  | .rep id c mn mx g, n => by simp only [numberReps, capsPos]; exact capsPos_numberReps c (n + 1)
  | .gfixed c mn mx len, n => by simp only [numberReps, capsPos]; exact capsPos_numberReps c n
  | .rfixed c mn mx len, n => by simp only [numberReps, capsPos]; exact capsPos_numberReps c n
  | .unamb c mn mx, n => by simp only [numberReps, capsPos]; exact capsPos_numberReps c n
termination_by structural op => op
theorem capsPosL_numberRepsL : (l : List Op) → ∀ n, capsPosL (numberRepsL l n).1 = capsPosL l
  | [], n => by simp only [numberRepsL]
  | o :: os, n => by
    simp only [numberRepsL, capsPosL]
    rw [capsPos_numberReps o n, capsPosL_numberRepsL os]
termination_by structural l => l
end

/-! ### `optimize` -/

/-- replacing a well-formed repeat by its `unamb` form keeps it well-formed, with the same length -/
theorem unamb_wf {opt child : Op} {mn mx : Nat} {g : Bool}
    (h : repeatParts opt = some (child, mn, mx, g)) (hw : wfOp opt = true) :
    wfOp (.unamb child mn mx) = true ∧ matchLen (.unamb child mn mx) = matchLen opt := by
  cases opt <;> simp only [repeatParts, Option.some.injEq, Prod.mk.injEq, reduceCtorEq] at h
  all_goals obtain ⟨rfl, rfl, rfl, _⟩ := h
  · exact ⟨by simpa only [wfOp] using hw, by simp only [matchLen]⟩
  · simp only [wfOp, Bool.and_eq_true, decide_eq_true_eq, beq_iff_eq] at hw
    refine ⟨by simp only [wfOp, Bool.and_eq_true, decide_eq_true_eq]; exact ⟨⟨hw.1.1.1.1.1, hw.1.2⟩, hw.2⟩, ?_⟩
    simp only [matchLen, hw.1.1.1.1.2]
  · simp only [wfOp, Bool.and_eq_true, decide_eq_true_eq, beq_iff_eq] at hw
    refine ⟨by simp only [wfOp, Bool.and_eq_true, decide_eq_true_eq]; exact ⟨⟨hw.1.1.1.1.1, hw.1.2⟩, hw.2⟩, ?_⟩
    simp only [matchLen, hw.1.1.1.1.2]
  · exact ⟨hw, rfl⟩

theorem seqElem_wf (env : Env) (fl : CFlags) (opt nxt : Op) (hw : wfOp opt = true) :
    wfOp (seqElem env fl opt nxt) = true ∧ matchLen (seqElem env fl opt nxt) = matchLen opt := by
  rcases seqElem_cases env fl opt nxt with h | ⟨child, mn, mx, g, hrp, h⟩
  · rw [h]; exact ⟨hw, rfl⟩
  · rw [h]; exact unamb_wf hrp hw

theorem satAdd_lt {a b : Nat} (h : satAdd a b < usizeMax) : satAdd a b = a + b ∧ a < usizeMax ∧ b < usizeMax := by
  unfold satAdd at *
  simp only [Nat.min_def] at *
  split at h <;> (try split) <;> omega

theorem satMul_lt {a b : Nat} (ha : 0 < a) (h : satMul a b < usizeMax) : b < usizeMax := by
  unfold satMul at h
  simp only [Nat.min_def] at h
  have : b ≤ a * b := Nat.le_mul_of_pos_left b ha
  split at h <;> omega

/-- the joint invariant of `optimize`: well-formedness, and a fixed length below saturation is kept -/
def WM (o o' : Op) : Prop :=
  wfOp o' = true ∧ ∀ l, l < usizeMax → matchLen o = some l → matchLen o' = some l

mutual
theorem wm_optimize (env : Env) (fl : CFlags) : ∀ (op : Op), wfOp op = true → WM op (optimize env fl op)
  | .bol, h | .eol, h | .nothing, h | .endProgram, h => by
      simp only [optimize]; exact ⟨h, fun _ _ hl => hl⟩
  | .atom _, h | .cls _, h | .backref _, h => by
      simp only [optimize]; exact ⟨h, fun _ _ hl => hl⟩
  | .capture _ c, h => by
      simp only [wfOp] at h
      obtain ⟨i1, i2⟩ := wm_optimize env fl c h
      simp only [optimize, WM, wfOp, matchLen]
      exact ⟨i1, i2⟩
  | .choice bs, h => by
      simp only [wfOp, Bool.and_eq_true] at h
      obtain ⟨i1, i2⟩ := wm_optimizeL env fl bs h.2
      cases bs with
      | nil => simp at h
      | cons b bs' =>
        simp only [optimize, WM, wfOp, Bool.and_eq_true]
        refine ⟨⟨by simp [optimizeL], i1⟩, ?_⟩
        intro l hlt hl
        simp only [matchLen, matchLenChoice] at hl
        split at hl
        · rename_i hall
          simp only [wfOps, Bool.and_eq_true] at h
          have i3 := (wm_optimize env fl b h.2.1).2 l hlt hl
          have i4 := i2 l hlt
          simp only [optimizeL, matchLenAllEq, Bool.and_eq_true] at i4
          rw [hl] at hall
          simp only [matchLen, optimizeL, matchLenChoice, i3]
          have := (i4 ⟨by simp [hl], hall⟩).2
          simp only [this, if_true]
        · cases hl
  | .seq ops, h => by
      simp only [wfOp, Bool.and_eq_true] at h
      obtain ⟨i1, i2⟩ := wm_optimizeSeq env fl ops h.2
      cases ops with
      | nil => simp at h
      | cons o t =>
        cases t with
        | nil =>
          simp only [wfOps, Bool.and_true] at h
          simp only [optimize, WM]
          refine ⟨h.2, ?_⟩
          intro l hlt hl
          simp only [matchLen, matchLenSeq] at hl
          cases hm : matchLen o with
          | none => simp [hm] at hl
          | some a =>
            simp only [hm, Option.some.injEq] at hl
            have := satAdd_lt (hl ▸ hlt)
            rw [Option.some.injEq]
            omega
        | cons o2 os =>
          simp only [optimize, WM, wfOp, Bool.and_eq_true]
          refine ⟨⟨by simp [optimizeSeq_cons2], i1⟩, ?_⟩
          intro l hlt hl
          simp only [matchLen] at hl ⊢
          exact i2 l hlt hl
  | .rep _ c mn mx _, h => by
      simp only [wfOp, Bool.and_eq_true, decide_eq_true_eq] at h
      obtain ⟨i1, i2⟩ := wm_optimize env fl c h.1.1
      simp only [optimize, WM, wfOp, Bool.and_eq_true, decide_eq_true_eq]
      refine ⟨⟨⟨i1, by split <;> omega⟩, h.2⟩, ?_⟩
      intro l hlt hl
      simp only [matchLen] at hl
      cases hm : matchLen c with
      | none => simp [hm] at hl
      | some a =>
        simp only [hm] at hl
        split at hl
        · rename_i hmm
          simp only [beq_iff_eq] at hmm
          simp only [Option.some.injEq] at hl
          have ha : a < usizeMax := satMul_lt (by omega) (hl ▸ hlt)
          have e0 : (mn == 0) = false := by simp; omega
          subst hmm
          simp only [matchLen, e0, Bool.false_eq_true, false_and, if_false, i2 a ha hm,
            BEq.rfl, if_true, ← hl]
        · cases hl
  | .gfixed c mn mx len, h => by
      simp only [wfOp, Bool.and_eq_true, decide_eq_true_eq, beq_iff_eq] at h
      obtain ⟨⟨⟨⟨⟨h1, h2⟩, h3⟩, h4⟩, h5⟩, h6⟩ := h
      obtain ⟨i1, i2⟩ := wm_optimize env fl c h1
      have e1 : (mx == 0) = false := by simp; omega
      have e2 : (matchLen c == some 0) = false := by simp [h2]; omega
      simp only [optimize, e1, e2, Bool.false_eq_true, if_false, WM, wfOp, Bool.and_eq_true,
        decide_eq_true_eq, beq_iff_eq]
      exact ⟨⟨⟨⟨⟨⟨i1, i2 len h4 h2⟩, h3⟩, h4⟩, h5⟩, h6⟩, fun l _ hl => by simpa only [matchLen] using hl⟩
  | .rfixed c mn mx len, h => by
      simp only [wfOp, Bool.and_eq_true, decide_eq_true_eq, beq_iff_eq] at h
      obtain ⟨⟨⟨⟨⟨h1, h2⟩, h3⟩, h4⟩, h5⟩, h6⟩ := h
      obtain ⟨i1, i2⟩ := wm_optimize env fl c h1
      simp only [optimize, WM, wfOp, Bool.and_eq_true, decide_eq_true_eq, beq_iff_eq]
      exact ⟨⟨⟨⟨⟨⟨i1, i2 len h4 h2⟩, h3⟩, h4⟩, h5⟩, h6⟩, fun l _ hl => by simpa only [matchLen] using hl⟩
  | .unamb c mn mx, h => by
      simp only [wfOp, Bool.and_eq_true, decide_eq_true_eq] at h
      obtain ⟨i1, i2⟩ := wm_optimize env fl c h.1.1
      simp only [optimize, WM, wfOp, Bool.and_eq_true, decide_eq_true_eq]
      refine ⟨⟨⟨i1, h.1.2⟩, h.2⟩, ?_⟩
      intro l hlt hl
      simp only [matchLen] at hl
      cases hm : matchLen c with
      | none => simp [hm] at hl
      | some a =>
        simp only [hm] at hl
        split at hl
        · rename_i hmm
          simp only [beq_iff_eq] at hmm
          simp only [Option.some.injEq] at hl
          have ha : a < usizeMax := satMul_lt (by omega) (hl ▸ hlt)
          simp only [matchLen, i2 a ha hm, hmm, BEq.rfl, if_true, ← hl]
        · cases hl
termination_by structural op => op
theorem wm_optimizeL (env : Env) (fl : CFlags) : ∀ (l : List Op), wfOps l = true →
    wfOps (optimizeL env fl l) = true ∧
    ∀ x, x < usizeMax → matchLenAllEq (some x) l = true → matchLenAllEq (some x) (optimizeL env fl l) = true
  | [], _ => by simp only [optimizeL, wfOps, matchLenAllEq]; exact ⟨trivial, fun _ _ _ => trivial⟩
  | o :: os, h => by
      simp only [wfOps, Bool.and_eq_true] at h
      obtain ⟨i1, i2⟩ := wm_optimize env fl o h.1
      obtain ⟨j1, j2⟩ := wm_optimizeL env fl os h.2
      simp only [optimizeL, wfOps, matchLenAllEq, Bool.and_eq_true, beq_iff_eq]
      exact ⟨⟨i1, j1⟩, fun x hx hh => ⟨i2 x hx hh.1, j2 x hx hh.2⟩⟩
termination_by structural l => l
theorem wm_optimizeSeq (env : Env) (fl : CFlags) : ∀ (l : List Op), wfOps l = true →
    wfOps (optimizeSeq env fl l) = true ∧
    ∀ x, x < usizeMax → matchLenSeq l = some x → matchLenSeq (optimizeSeq env fl l) = some x
  | [], _ => by simp only [optimizeSeq, wfOps]; exact ⟨trivial, fun _ _ hh => hh⟩
  | [o], h => by
      simp only [wfOps, Bool.and_true] at h
      obtain ⟨i1, i2⟩ := wm_optimize env fl o h
      simp only [optimizeSeq, wfOps, Bool.and_true]
      refine ⟨i1, ?_⟩
      intro x hx hh
      simp only [matchLenSeq] at hh ⊢
      cases hm : matchLen o with
      | none => simp [hm] at hh
      | some a =>
        simp only [hm, Option.some.injEq] at hh
        have := satAdd_lt (hh ▸ hx)
        rw [i2 a this.2.1 hm]
        simp only [hh]
  | o :: nxt :: os, h => by
      have h' : wfOp o = true ∧ wfOps (nxt :: os) = true := by
        simpa only [wfOps, Bool.and_eq_true] using h
      obtain ⟨i1, i2⟩ := wm_optimize env fl o h'.1
      obtain ⟨j1, j2⟩ := wm_optimizeSeq env fl (nxt :: os) h'.2
      obtain ⟨k1, k2⟩ := seqElem_wf env fl _ nxt i1
      rw [optimizeSeq_cons2]
      refine ⟨by simp only [wfOps, Bool.and_eq_true] at j1 ⊢; exact ⟨k1, j1⟩, ?_⟩
      intro x hx hh
      rw [matchLenSeq] at hh ⊢
      cases hm : matchLen o with
      | none => simp [hm] at hh
      | some a =>
        cases hm2 : matchLenSeq (nxt :: os) with
        | none => simp [hm, hm2] at hh
        | some b =>
          simp only [hm, hm2, Option.some.injEq] at hh
          have := satAdd_lt (hh ▸ hx)
          rw [k2, i2 a this.2.1 hm, j2 b this.2.2 hm2]
          simp only [hh]
termination_by structural l => l
end

/-- the unrestricted `optimize_matchLen` fails: `.seq [o] ↦ o` un-saturates a saturated length -/
theorem optimize_matchLen_cex (env : Env) (fl : CFlags) :
    let op : Op := .seq [.atom (List.replicate (usizeMax + 1) 0)]
    wfOp op = true ∧ matchLen op = some usizeMax ∧
      matchLen (optimize env fl op) = some (usizeMax + 1) := by
  refine ⟨by simp [wfOp, wfOps], ?_, ?_⟩
  · simp only [matchLen, matchLenSeq, List.length_replicate, satAdd, Nat.min_def, Option.some.injEq]
    split <;> omega
  · simp only [optimize, matchLen, List.length_replicate]

mutual
theorem capsPos_optimize (env : Env) (fl : CFlags) : ∀ (op : Op), capsPos op = true →
    capsPos (optimize env fl op) = true
  | .bol, h | .eol, h | .nothing, h | .endProgram, h => by simp only [optimize]; exact h
  | .atom _, h | .cls _, h | .backref _, h => by simp only [optimize]; exact h
  | .capture _ c, h => by
      simp only [capsPos, Bool.and_eq_true] at h
      simp only [optimize, capsPos, Bool.and_eq_true]; exact ⟨h.1, capsPos_optimize env fl c h.2⟩
  | .choice bs, h => by
      simp only [capsPos] at h; simp only [optimize, capsPos]; exact capsPosL_optimizeL env fl bs h
  | .seq ops, h => by
      simp only [capsPos] at h
      have ih := capsPosL_optimizeSeq env fl ops h
      cases ops with
      | nil => simp only [optimize, capsPos]
      | cons o t =>
        cases t with
        | nil =>
          simp only [capsPosL, Bool.and_true] at h
          simp only [optimize]; exact h
        | cons o2 os => simp only [optimize, capsPos]; exact ih
  | .rep _ c mn mx _, h => by
      simp only [capsPos] at h; simp only [optimize, capsPos]; exact capsPos_optimize env fl c h
  | .gfixed c mn mx len, h => by
      simp only [capsPos] at h
      simp only [optimize]
      split
      · simp only [capsPos]
      · split
        · exact h
        · simp only [capsPos]; exact capsPos_optimize env fl c h
  | .rfixed c mn mx len, h => by
      simp only [capsPos] at h; simp only [optimize, capsPos]; exact capsPos_optimize env fl c h
  | .unamb c mn mx, h => by
      simp only [capsPos] at h; simp only [optimize, capsPos]; exact capsPos_optimize env fl c h
termination_by structural op => op
theorem capsPosL_optimizeL (env : Env) (fl : CFlags) : ∀ (l : List Op), capsPosL l = true →
    capsPosL (optimizeL env fl l) = true
  | [], _ => by simp only [optimizeL, capsPosL]
  | o :: os, h => by
      simp only [capsPosL, Bool.and_eq_true] at h
      simp only [optimizeL, capsPosL, Bool.and_eq_true]
      exact ⟨capsPos_optimize env fl o h.1, capsPosL_optimizeL env fl os h.2⟩
termination_by structural l => l
theorem capsPosL_optimizeSeq (env : Env) (fl : CFlags) : ∀ (l : List Op), capsPosL l = true →
    capsPosL (optimizeSeq env fl l) = true
  | [], _ => by simp only [optimizeSeq, capsPosL]
  | [o], h => by
      simp only [capsPosL, Bool.and_true] at h
      simp only [optimizeSeq, capsPosL, Bool.and_true]
      exact capsPos_optimize env fl o h
  | o :: nxt :: os, h => by
      have h' : capsPos o = true ∧ capsPosL (nxt :: os) = true := by
        simpa only [capsPosL, Bool.and_eq_true] using h
      rw [optimizeSeq_cons2]
      have a1 : capsPos (seqElem env fl (optimize env fl o) nxt) = true := by
        have a0 := capsPos_optimize env fl o h'.1
        rcases seqElem_cases env fl (optimize env fl o) nxt with e | ⟨child, mn, mx, g, hrp, e⟩
        · rw [e]; exact a0
        · rw [e]
          generalize optimize env fl o = opt at a0 hrp
          cases opt <;> simp only [repeatParts, Option.some.injEq, Prod.mk.injEq, reduceCtorEq] at hrp
          all_goals
            obtain ⟨rfl, rfl, rfl, _⟩ := hrp
            simpa only [capsPos] using a0
      have a2 := capsPosL_optimizeSeq env fl (nxt :: os) h'.2
      simp only [capsPosL, Bool.and_eq_true] at a2 ⊢
      exact ⟨a1, a2⟩
termination_by structural l => l
end

mutual
theorem hasBackref_optimize (env : Env) (fl : CFlags) : ∀ (op : Op),
    hasBackref (optimize env fl op) = true → hasBackref op = true
  | .bol, h | .eol, h | .nothing, h | .endProgram, h => by simpa only [optimize] using h
  | .atom _, h | .cls _, h | .backref _, h => by simpa only [optimize] using h
  | .capture _ c, h => by
      simp only [optimize, hasBackref] at h ⊢; exact hasBackref_optimize env fl c h
  | .choice bs, h => by
      simp only [optimize, hasBackref] at h ⊢; exact hasBackrefL_optimizeL env fl bs h
  | .seq ops, h => by
      have ih := hasBackrefL_optimizeSeq env fl ops
      cases ops with
      | nil => simp [optimize, hasBackref] at h
      | cons o t =>
        cases t with
        | nil =>
          simp only [optimize] at h
          simp only [hasBackref, hasBackrefL, Bool.or_false]; exact h
        | cons o2 os => simp only [optimize, hasBackref] at h ⊢; exact ih h
  | .rep _ c mn mx _, h => by
      simp only [optimize, hasBackref] at h ⊢; exact hasBackref_optimize env fl c h
  | .gfixed c mn mx len, h => by
      simp only [optimize] at h
      simp only [hasBackref]
      split at h
      · simp [hasBackref] at h
      · split at h
        · exact h
        · simp only [hasBackref] at h; exact hasBackref_optimize env fl c h
  | .rfixed c mn mx len, h => by
      simp only [optimize, hasBackref] at h ⊢; exact hasBackref_optimize env fl c h
  | .unamb c mn mx, h => by
      simp only [optimize, hasBackref] at h ⊢; exact hasBackref_optimize env fl c h
termination_by structural op => op
theorem hasBackrefL_optimizeL (env : Env) (fl : CFlags) : ∀ (l : List Op),
    hasBackrefL (optimizeL env fl l) = true → hasBackrefL l = true
  | [], h => by simpa only [optimizeL] using h
  | o :: os, h => by
      simp only [optimizeL, hasBackrefL, Bool.or_eq_true] at h ⊢
      rcases h with h | h
      · exact .inl (hasBackref_optimize env fl o h)
      · exact .inr (hasBackrefL_optimizeL env fl os h)
termination_by structural l => l
theorem hasBackrefL_optimizeSeq (env : Env) (fl : CFlags) : ∀ (l : List Op),
    hasBackrefL (optimizeSeq env fl l) = true → hasBackrefL l = true
  | [], h => by simpa only [optimizeSeq] using h
  | [o], h => by
      simp only [optimizeSeq, hasBackrefL, Bool.or_false] at h ⊢
      exact hasBackref_optimize env fl o h
  | o :: nxt :: os, h => by
      rw [optimizeSeq_cons2] at h
      rw [hasBackrefL, Bool.or_eq_true] at h ⊢
      rcases h with h | h
      · left
        apply hasBackref_optimize env fl o
        rcases seqElem_cases env fl (optimize env fl o) nxt with e | ⟨child, mn, mx, g, hrp, e⟩
        · rw [e] at h; exact h
        · rw [e] at h
          generalize optimize env fl o = opt at h hrp ⊢
          cases opt <;> simp only [repeatParts, Option.some.injEq, Prod.mk.injEq, reduceCtorEq] at hrp
          all_goals
            obtain ⟨rfl, rfl, rfl, _⟩ := hrp
            simpa only [hasBackref] using h
      · exact .inr (hasBackrefL_optimizeSeq env fl (nxt :: os) h)
termination_by structural l => l
end

/-! ### the parser: the state invariant -/

open Rx.C03 (SOk)

/-- groups are numbered from 1, and the back-reference flag is at least `b` -/
def ST (b : Bool) : PS → Prop := fun s => 1 ≤ s.parens ∧ (b = true → s.hasBackrefs = true)

theorem ST.refl {s : PS} (h : 1 ≤ s.parens) : ST s.hasBackrefs s := ⟨h, id⟩

macro "st_next" h:term "with" h1:ident : tactic =>
  `(tactic| (split <;> first | exact SOk.err | (rename_i heq; have $h1 := ($h) _ _ heq)))

theorem escape_st (c : PC) (b : Bool) (s : PS) (hst : ST b s) (inB : Bool) :
    SOk (ST b) (escape c s inB) := by
  unfold escape
  dsimp only
  repeat' first
    | exact SOk.err
    | apply SOk.ite
    | exact SOk.ok hst
    | exact SOk.ok ⟨hst.1, fun _ => rfl⟩
    | split

/-- `escape` raises the flag when it returns a back-reference -/
theorem escape_backref (c : PC) (s : PS) (inB : Bool) :
    POk (fun r s' => ∀ n, r = .backref n → s'.hasBackrefs = true) (escape c s inB) := by
  unfold escape
  dsimp only
  repeat' first
    | exact POk.err
    | (apply POk.ite <;> intro _)
    | exact POk.ok (fun _ _ => rfl)
    | exact POk.ok (fun n h => by cases h)
    | split

theorem bracket_st (c : PC) (b : Bool) (s : PS) (hst : ST b s) : SOk (ST b) (bracket c s) := by
  unfold bracket
  dsimp only
  repeat' first
    | exact SOk.err
    | apply SOk.ite
    | exact SOk.ok hst

theorem class_st (c : PC) (b : Bool) (f : Nat) :
    (∀ s, ST b s → SOk (ST b) (parseClass c f s)) ∧
    (∀ s k, ST b s → SOk (ST b) (classLoop c f s k)) := by
  induction f with
  | zero =>
    refine ⟨fun s _ => ?_, fun s k _ => ?_⟩
    · rw [parseClass]; exact SOk.err
    · rw [classLoop]; exact SOk.err
  | succ f ih =>
    obtain ⟨ihC, ihL⟩ := ih
    refine ⟨fun s hb => ?_, fun s k hb => ?_⟩
    · simp only [parseClass]
      repeat' first
        | exact SOk.err
        | apply SOk.ite
        | exact ihL _ _ hb
    · simp only [classLoop]
      repeat' first
        | exact SOk.err
        | apply SOk.ite
        | exact ihL _ _ hb
        | (apply SOk.ok; exact hb)
      all_goals first
        | (st_next (escape_st c b s hb true) with h1 <;>
            repeat' first
              | exact SOk.err | apply SOk.ite | exact ihL _ _ h1 | split)
        | (st_next (ihC { s with idx := s.idx + 1 } hb) with h1 <;>
            repeat' first
              | exact SOk.err | apply SOk.ite | exact ihL _ _ h1 | split)
        | (repeat' first | exact SOk.err | exact ihL _ _ hb | split)

theorem parseAtomGo_st (c : PC) (b : Bool) (f : Nat) :
    ∀ s ub, ST b s → SOk (ST b) (parseAtomGo c f s ub) := by
  induction f with
  | zero => intro s ub hb; rw [parseAtomGo]; exact SOk.ok hb
  | succ f ih =>
    intro s ub hb
    rw [parseAtomGo]
    apply SOk.ite
    · extract_lets look
      have hlook : SOk (ST b) look := by
        simp only [look]
        repeat' first
          | exact SOk.err | apply SOk.ite | exact SOk.ok hb
        st_next (escape_st c b s hb false) with h1
        exact SOk.ok h1
      clear_value look
      cases look with
      | err e => exact SOk.err
      | ok bq s2 =>
        have h2 : ST b s2 := hlook _ _ rfl
        cases bq with
        | true => exact SOk.ok h2
        | false =>
          dsimp only
          repeat' first
            | exact SOk.err | apply SOk.ite | exact SOk.ok h2 | exact ih _ _ h2
          st_next (escape_st c b s2 h2 false) with h3
          all_goals first | exact ih _ _ h3 | exact SOk.ok h3
    · exact SOk.ok hb

theorem parseAtom_st (c : PC) (b : Bool) (s : PS) (hb : ST b s) :
    SOk (ST b) (parseAtom c s) := by
  rw [parseAtom]
  st_next (parseAtomGo_st c b _ s [] hb) with h1
  apply SOk.ite
  · exact SOk.err
  · exact SOk.ok h1

theorem pieceQuant_st (c : PC) (b : Bool) (ret : Op) (s : PS) (hb : ST b s) :
    SOk (ST b) (pieceQuant c ret s) := by
  rw [pieceQuant]
  apply SOk.ite
  · exact SOk.ok hb
  · extract_lets q r
    have hr : SOk (ST b) r := by
      simp only [r]
      repeat' first
        | exact SOk.err | apply SOk.ite | exact SOk.ok hb
      st_next (bracket_st c b s hb) with h1
      exact SOk.ok h1
    clear_value r
    cases r with
    | err e => exact SOk.err
    | ok hasQ s1 =>
      have h1 : ST b s1 := hr _ _ rfl
      dsimp -zeta only
      extract_lets qt0 qt reluctant s2 greedy mm mn mx
      have hs2 : ST b s2 := by
        simp only [s2]
        split <;> exact h1
      clear_value mx mn mm qt s2
      repeat' first
        | exact SOk.err
        | apply SOk.ite
        | exact SOk.ok hs2
        | split

theorem parse_st (c : PC) (b : Bool) (f : Nat) :
    (∀ s top, ST b s → SOk (ST b) (parseExpr c f s top)) ∧
    (∀ s acc, ST b s → SOk (ST b) (parseBranches c f s acc)) ∧
    (∀ s cur, ST b s → SOk (ST b) (parseBranch c f s cur)) ∧
    (∀ s, ST b s → SOk (ST b) (parseTerminal c f s)) := by
  induction f with
  | zero =>
    refine ⟨fun s top _ => ?_, fun s acc _ => ?_, fun s cur _ => ?_, fun s _ => ?_⟩
    · rw [parseExpr]; exact SOk.err
    · rw [parseBranches]; exact SOk.err
    · rw [parseBranch]; exact SOk.err
    · rw [parseTerminal]; exact SOk.err
  | succ f ih =>
    obtain ⟨ihE, ihBs, ihB, ihT⟩ := ih
    refine ⟨fun s top hb => ?_, fun s acc hb => ?_, fun s cur hb => ?_, fun s hb => ?_⟩
    · rw [parseExpr]
      split
      · exact SOk.err
      · rename_i paren s1 heq
        have h1 : ST b s1 := by
          refine (?_ : SOk (ST b) _) _ _ heq
          repeat' first
            | exact SOk.err | apply SOk.ite | exact SOk.ok hb
            | exact SOk.ok (show ST b _ from ⟨Nat.le_succ_of_le hb.1, hb.2⟩)
        st_next (ihB s1 none h1) with h2
        st_next (ihBs _ _ h2) with h3
        extract_lets op
        clear_value op
        repeat' first
          | exact SOk.err
          | apply SOk.ite
          | exact SOk.ok h3
    · rw [parseBranches]
      apply SOk.ite
      · st_next (ihB { s with idx := s.idx + 1 } none hb) with h1
        exact ihBs _ _ h1
      · exact SOk.ok hb
    · rw [parseBranch]
      apply SOk.ite
      · st_next (ihT s hb) with h1
        st_next (pieceQuant_st c b _ _ h1) with h2
        exact ihB _ _ h2
      · exact SOk.ok hb
    · rw [parseTerminal]
      repeat' first
        | exact SOk.err
        | apply SOk.ite
        | exact ihE _ _ hb
        | exact parseAtom_st c b s hb
        | exact SOk.ok hb
      · st_next ((class_st c b _).1 s hb) with h1
        exact SOk.ok h1
      · st_next (escape_st c b s hb false) with h1
        · apply SOk.ite
          · exact SOk.err
          · exact SOk.ok h1
        · exact parseAtom_st c b _ h1
        · exact SOk.ok h1

/-! ### the parser: what is built -/

/-- what `pieceQuant` guarantees about its result, relative to the terminal `ret` -/
def QG (ret op : Op) : Prop :=
  (noSat op = true → wfOp op = true) ∧ capsPos op = true ∧ (hasBackref op = true → hasBackref ret = true)

theorem QG.nothing (ret : Op) : QG ret .nothing := ⟨fun _ => rfl, rfl, fun h => by cases h⟩

theorem QG.gfixed {ret p : Op} {mn mx l : Nat} (hp : QG ret p) (hm : matchLen p = some l) (hl : 0 < l)
    (h1 : mn ≤ mx) (h2 : ¬ (mx == 0) = true) : QG ret (.gfixed p mn mx l) := by
  obtain ⟨p1, p2, p3⟩ := hp
  refine ⟨?_, by simpa only [capsPos] using p2, by simpa only [hasBackref] using p3⟩
  intro hn
  simp only [noSat, Bool.and_eq_true, decide_eq_true_eq] at hn
  simp only [beq_iff_eq] at h2
  simp only [wfOp, Bool.and_eq_true, decide_eq_true_eq, beq_iff_eq]
  exact ⟨⟨⟨⟨⟨p1 hn.1, hm⟩, hl⟩, hn.2⟩, h1⟩, by omega⟩

theorem QG.rfixed {ret p : Op} {mn mx l : Nat} (hp : QG ret p) (hm : matchLen p = some l) (hl : 0 < l)
    (h1 : mn ≤ mx) (h2 : ¬ (mx == 0) = true) : QG ret (.rfixed p mn mx l) := by
  obtain ⟨p1, p2, p3⟩ := hp
  refine ⟨?_, by simpa only [capsPos] using p2, by simpa only [hasBackref] using p3⟩
  intro hn
  simp only [noSat, Bool.and_eq_true, decide_eq_true_eq] at hn
  simp only [beq_iff_eq] at h2
  simp only [wfOp, Bool.and_eq_true, decide_eq_true_eq, beq_iff_eq]
  exact ⟨⟨⟨⟨⟨p1 hn.1, hm⟩, hl⟩, hn.2⟩, h1⟩, by omega⟩

theorem QG.rep {ret p : Op} {mn mx : Nat} {g : Bool} (hp : QG ret p)
    (h1 : mn ≤ mx) (h2 : ¬ (mx == 0) = true) : QG ret (.rep 0 p mn mx g) := by
  obtain ⟨p1, p2, p3⟩ := hp
  refine ⟨?_, by simpa only [capsPos] using p2, by simpa only [hasBackref] using p3⟩
  intro hn
  simp only [noSat] at hn
  simp only [beq_iff_eq] at h2
  simp only [wfOp, Bool.and_eq_true, decide_eq_true_eq]
  exact ⟨⟨p1 hn, h1⟩, by omega⟩

theorem pieceQuant_op (c : PC) (ret : Op) (s : PS)
    (hw : noSat ret = true → wfOp ret = true) (hc : capsPos ret = true) :
    POk (fun op _ => QG ret op) (pieceQuant c ret s) := by
  have hret : QG ret ret := ⟨hw, hc, id⟩
  rw [pieceQuant]
  apply POk.ite <;> intro _
  · exact POk.ok hret
  · extract_lets q r
    have hr : POk (fun hasQ s1 => hasQ = true → q = 123 → s1.bmin ≤ s1.bmax) r := by
      simp only [r]
      apply POk.ite <;> intro hq
      · refine POk.ok (fun _ h123 => ?_)
        rw [h123] at hq
        simp at hq
      · apply POk.ite <;> intro hq2
        · split
          · rename_i s' heq; exact POk.ok (fun _ _ => (bracket_ok_bounds' c s s' heq).1)
          · exact POk.err
        · exact POk.ok (fun h => by cases h)
    clear_value r
    cases r with
    | err e => exact POk.err
    | ok hasQ s1 =>
      have h1 : hasQ = true → q = 123 → s1.bmin ≤ s1.bmax := hr _ _ rfl
      clear hr
      dsimp -zeta only
      extract_lets +onlyGivenNames qt0
      generalize hpr : (if (hasQ && isAnchor ret) = true then
          (if (qt0 == 63 || qt0 == 42 || (qt0 == 123 && s1.bmin == 0)) = true then
            ((Op.nothing, 0) : Op × Nat) else (ret, 0)) else (ret, qt0)) = pr
      have hp1 : QG ret pr.1 := by
        subst hpr
        split
        · split
          · exact QG.nothing ret
          · exact hret
        · exact hret
      have hp2 : pr.2 = 123 → hasQ = true ∧ q = 123 := by
        subst hpr
        split
        · split <;> (intro h; simp at h)
        · intro h
          simp only [qt0] at h
          split at h
          · exact ⟨‹_›, h⟩
          · simp at h
      clear_value qt0
      clear hpr
      extract_lets qt reluctant s2 greedy mm mn mx
      apply POk.ite <;> intro _
      · exact POk.err
      have hqt : qt = 123 → pr.2 = 123 := by
        simp only [qt]
        intro h
        repeat' (split at h)
        all_goals first | omega | (simp_all; done)
      have hmm : mn ≤ mx := by
        simp only [mn, mx, mm]
        split
        · rename_i h123
          simp only [beq_iff_eq] at h123
          obtain ⟨a1, a2⟩ := hp2 (hqt h123)
          have := h1 a1 a2
          simp only [s2]
          split <;> exact this
        · unfold usizeMax
          repeat' split
          all_goals simp
      clear_value mx mn mm greedy s2 qt
      apply POk.ite <;> intro hmx
      · exact POk.ok (QG.nothing ret)
      apply POk.ite <;> intro _
      · exact POk.ok hp1
      apply POk.ite <;> intro hz
      · apply POk.ite <;> intro _
        · exact POk.ok (QG.nothing ret)
        · exact POk.ok hp1
      apply POk.ite <;> intro _
      · split
        · rename_i l hl
          apply POk.ite <;> intro hl0
          · exact POk.ok (QG.gfixed hp1 hl hl0 hmm hmx)
          · exact POk.ok (QG.nothing ret)
        · exact POk.ok (QG.rep hp1 hmm hmx)
      · split
        · rename_i l hl
          refine POk.ok (QG.rfixed hp1 hl ?_ hmm hmx)
          rw [hl] at hz
          simp only [beq_iff_eq, Option.some.injEq] at hz
          omega
        · exact POk.ok (QG.rep hp1 hmm hmx)

/-! ### sequences and choices -/

theorem noSatL_append (l1 l2 : List Op) : noSatL (l1 ++ l2) = (noSatL l1 && noSatL l2) := by
  induction l1 with
  | nil => simp [noSatL]
  | cons o os ih => simp [noSatL, ih, Bool.and_assoc]

theorem wfOps_append (l1 l2 : List Op) : wfOps (l1 ++ l2) = (wfOps l1 && wfOps l2) := by
  induction l1 with
  | nil => simp [wfOps]
  | cons o os ih => simp [wfOps, ih, Bool.and_assoc]

theorem capsPosL_append (l1 l2 : List Op) : capsPosL (l1 ++ l2) = (capsPosL l1 && capsPosL l2) := by
  induction l1 with
  | nil => simp [capsPosL]
  | cons o os ih => simp [capsPosL, ih, Bool.and_assoc]

theorem hasBackrefL_append (l1 l2 : List Op) :
    hasBackrefL (l1 ++ l2) = (hasBackrefL l1 || hasBackrefL l2) := by
  induction l1 with
  | nil => simp [hasBackrefL]
  | cons o os ih => simp [hasBackrefL, ih, Bool.or_assoc]

theorem noSat_makeSequence (a b : Op) : noSat (makeSequence a b) = (noSat a && noSat b) := by
  unfold makeSequence
  split <;> simp [noSat, noSatL, noSatL_append]

theorem capsPos_makeSequence (a b : Op) : capsPos (makeSequence a b) = (capsPos a && capsPos b) := by
  unfold makeSequence
  split <;> simp [capsPos, capsPosL, capsPosL_append]

theorem hasBackref_makeSequence (a b : Op) :
    hasBackref (makeSequence a b) = (hasBackref a || hasBackref b) := by
  unfold makeSequence
  split <;> simp [hasBackref, hasBackrefL, hasBackrefL_append]

theorem wfOp_makeSequence (a b : Op) (ha : wfOp a = true) (hb : wfOp b = true) :
    wfOp (makeSequence a b) = true := by
  unfold makeSequence
  split <;> simp_all [wfOp, wfOps, wfOps_append]

/-- the invariant of a parsed tree, relative to the state reached -/
def G (op : Op) (s : PS) : Prop :=
  (noSat op = true → wfOp op = true) ∧ capsPos op = true ∧
    (hasBackref op = true → s.hasBackrefs = true)

/-- … and of a list of parsed branches -/
def GL (l : List Op) (s : PS) : Prop :=
  (noSatL l = true → wfOps l = true) ∧ capsPosL l = true ∧
    (hasBackrefL l = true → s.hasBackrefs = true)

theorem G.mono {op : Op} {s s' : PS} (h : G op s) (hs : ST s.hasBackrefs s') : G op s' :=
  ⟨h.1, h.2.1, fun hb => hs.2 (h.2.2 hb)⟩

theorem GL.mono {l : List Op} {s s' : PS} (h : GL l s) (hs : ST s.hasBackrefs s') : GL l s' :=
  ⟨h.1, h.2.1, fun hb => hs.2 (h.2.2 hb)⟩

theorem G.makeSequence {a b : Op} {s : PS} (ha : G a s) (hb : G b s) : G (makeSequence a b) s := by
  refine ⟨?_, ?_, ?_⟩
  · intro hn
    rw [noSat_makeSequence, Bool.and_eq_true] at hn
    exact wfOp_makeSequence a b (ha.1 hn.1) (hb.1 hn.2)
  · rw [capsPos_makeSequence, ha.2.1, hb.2.1]; rfl
  · intro h
    rw [hasBackref_makeSequence, Bool.or_eq_true] at h
    rcases h with h | h
    · exact ha.2.2 h
    · exact hb.2.2 h

theorem G.leaf {op : Op} (s : PS) (h1 : wfOp op = true) (h2 : capsPos op = true)
    (h3 : hasBackref op = false) : G op s :=
  ⟨fun _ => h1, h2, fun h => by rw [h3] at h; cases h⟩

theorem GL.single {b : Op} {s : PS} (h : G b s) : GL [b] s := by
  obtain ⟨h1, h2, h3⟩ := h
  refine ⟨?_, ?_, ?_⟩
  · simpa only [noSatL, wfOps, Bool.and_true] using h1
  · simpa only [capsPosL, Bool.and_true] using h2
  · simpa only [hasBackrefL, Bool.or_false] using h3

theorem GL.snoc {acc : List Op} {b : Op} {s : PS} (ha : GL acc s) (hb : G b s) : GL (acc ++ [b]) s := by
  have hb' := GL.single hb
  refine ⟨?_, ?_, ?_⟩
  · intro hn
    rw [noSatL_append, Bool.and_eq_true] at hn
    rw [wfOps_append, ha.1 hn.1, hb'.1 hn.2]; rfl
  · rw [capsPosL_append, ha.2.1, hb'.2.1]; rfl
  · intro h
    rw [hasBackrefL_append, Bool.or_eq_true] at h
    rcases h with h | h
    · exact ha.2.2 h
    · exact hb'.2.2 h

theorem G.of_single {b : Op} {s : PS} (h : GL [b] s) : G b s := by
  obtain ⟨h1, h2, h3⟩ := h
  refine ⟨?_, ?_, ?_⟩
  · simpa only [noSatL, wfOps, Bool.and_true] using h1
  · simpa only [capsPosL, Bool.and_true] using h2
  · simpa only [hasBackrefL, Bool.or_false] using h3

theorem G.choice {l : List Op} {s : PS} (h : GL l s) (hne : l ≠ []) : G (.choice l) s := by
  obtain ⟨h1, h2, h3⟩ := h
  refine ⟨?_, by simpa only [capsPos] using h2, by simpa only [hasBackref] using h3⟩
  intro hn
  simp only [noSat] at hn
  simp only [wfOp, Bool.and_eq_true]
  refine ⟨?_, h1 hn⟩
  cases l with
  | nil => exact absurd rfl hne
  | cons _ _ => rfl

theorem G.capture {op : Op} {s : PS} (n : Nat) (hn : 1 ≤ n) (h : G op s) : G (.capture n op) s := by
  obtain ⟨h1, h2, h3⟩ := h
  refine ⟨by simpa only [noSat, wfOp] using h1, ?_, by simpa only [hasBackref] using h3⟩
  simp only [capsPos, Bool.and_eq_true, decide_eq_true_eq]
  exact ⟨hn, h2⟩

theorem parseAtom_G (c : PC) (s : PS) : POk (fun op s' => G op s') (parseAtom c s) := by
  rw [parseAtom]
  split
  · exact POk.err
  · apply POk.ite <;> intro _
    · exact POk.err
    · exact POk.ok (G.leaf _ rfl rfl rfl)


theorem parse_G (c : PC) (f : Nat) :
    (∀ s top, 1 ≤ s.parens → POk G (parseExpr c f s top)) ∧
    (∀ s acc, 1 ≤ s.parens → GL acc s → acc ≠ [] →
      POk (fun l s' => GL l s' ∧ l ≠ []) (parseBranches c f s acc)) ∧
    (∀ s cur, 1 ≤ s.parens → (∀ o, cur = some o → G o s) → POk G (parseBranch c f s cur)) ∧
    (∀ s, 1 ≤ s.parens → POk G (parseTerminal c f s)) := by
  induction f with
  | zero =>
    refine ⟨fun s top _ => ?_, fun s acc _ _ _ => ?_, fun s cur _ _ => ?_, fun s _ => ?_⟩
    · rw [parseExpr]; exact POk.err
    · rw [parseBranches]; exact POk.err
    · rw [parseBranch]; exact POk.err
    · rw [parseTerminal]; exact POk.err
  | succ f ih =>
    obtain ⟨ihE, ihBs, ihB, ihT⟩ := ih
    refine ⟨fun s top hp => ?_, fun s acc hp hacc hne => ?_, fun s cur hp hcur => ?_, fun s hp => ?_⟩
    · rw [parseExpr]
      split
      · exact POk.err
      · rename_i paren s1 heq
        have h1 : 1 ≤ s1.parens := by
          refine (?_ : SOk (fun s => 1 ≤ s.parens) _) _ _ heq
          repeat' first
            | exact SOk.err | apply SOk.ite | exact SOk.ok hp
            | exact SOk.ok (show 1 ≤ s.parens + 1 from Nat.le_succ_of_le hp)
        split
        · exact POk.err
        · rename_i b1 s2 heq2
          have g2 : G b1 s2 := ihB s1 none h1 (by simp) _ _ heq2
          have t2 : ST s1.hasBackrefs s2 :=
            (parse_st c s1.hasBackrefs f).2.2.1 s1 none (ST.refl h1) _ _ heq2
          split
          · exact POk.err
          · rename_i branches s3 heq3
            have g3 := ihBs s2 [b1] t2.1 (GL.single g2) (by simp) _ _ heq3
            extract_lets op
            have hop : G op s3 := by
              obtain ⟨ga, gb⟩ := g3
              simp only [op]
              cases branches with
              | nil => exact absurd rfl gb
              | cons b t =>
                cases t with
                | nil => exact G.of_single ga
                | cons b2 t2 => exact G.choice ga gb
            clear_value op
            apply POk.ite <;> intro _
            · apply POk.ite <;> intro _
              · apply POk.ite <;> intro _
                · exact POk.ok (G.capture _ hp hop)
                · exact POk.ok hop
              · exact POk.err
            · exact POk.ok (G.makeSequence hop (G.leaf _ rfl rfl rfl))
    · rw [parseBranches]
      apply POk.ite <;> intro _
      · split
        · exact POk.err
        · rename_i b s1 heq
          have g1 : G b s1 := ihB { s with idx := s.idx + 1 } none hp (by simp) _ _ heq
          have t1 : ST s.hasBackrefs s1 :=
            (parse_st c s.hasBackrefs f).2.2.1 { s with idx := s.idx + 1 } none (ST.refl hp) _ _ heq
          exact ihBs s1 _ t1.1 (GL.snoc (hacc.mono t1) g1) (by simp)
      · exact POk.ok ⟨hacc, hne⟩
    · rw [parseBranch]
      apply POk.ite <;> intro _
      · split
        · exact POk.err
        · rename_i ret s1 heq
          have g1 : G ret s1 := ihT s hp _ _ heq
          have t1 : ST s.hasBackrefs s1 :=
            (parse_st c s.hasBackrefs f).2.2.2 s (ST.refl hp) _ _ heq
          split
          · exact POk.err
          · rename_i op s2 heq2
            have q : QG ret op := pieceQuant_op c ret s1 g1.1 g1.2.1 _ _ heq2
            have t2 : ST s1.hasBackrefs s2 := pieceQuant_st c _ ret s1 (ST.refl t1.1) _ _ heq2
            have gop : G op s2 := ⟨q.1, q.2.1, fun h => t2.2 (g1.2.2 (q.2.2 h))⟩
            refine ihB s2 _ t2.1 ?_
            intro o ho
            cases cur with
            | none => cases ho; exact gop
            | some cu => cases ho; exact G.makeSequence (((hcur cu rfl).mono t1).mono t2) gop
      · refine POk.ok ?_
        cases cur with
        | none => exact G.leaf _ rfl rfl rfl
        | some cu => exact hcur cu rfl
    · rw [parseTerminal]
      repeat' first
        | exact POk.err
        | (apply POk.ite <;> intro _)
        | exact ihE _ _ hp
        | exact parseAtom_G c s
        | exact POk.ok (G.leaf _ rfl rfl rfl)
      · split
        · exact POk.err
        · exact POk.ok (G.leaf _ rfl rfl rfl)
      · split
        · exact POk.err
        · rename_i n s' heq
          apply POk.ite <;> intro _
          · exact POk.err
          · exact POk.ok ⟨fun _ => rfl, rfl, fun _ => escape_backref c s false _ _ heq n rfl⟩
        · exact parseAtom_G c _
        · exact POk.ok (G.leaf _ rfl rfl rfl)


/-! ### `mkProgram` -/

theorem mkProgram_hb (pat : List Nat) (op : Op) (mp : Nat) (fl : CFlags) (hb : Bool) :
    mkProgram pat op mp fl hb = { mkProgram pat op mp fl false with hasBackrefs := hb } := by
  unfold mkProgram
  simp only
  split
  · split <;> rfl
  · rfl

theorem mkProgram_op (pat : List Nat) (op : Op) (mp : Nat) (fl : CFlags) (hb : Bool) :
    (mkProgram pat op mp fl hb).op = (numberReps op 0).1 ∧ (mkProgram pat op mp fl hb).hasBackrefs = hb := by
  unfold mkProgram
  simp only
  split
  · split <;> exact ⟨rfl, rfl⟩
  · exact ⟨rfl, rfl⟩

theorem mkProgram_factsOK_any (pat : List Nat) (op : Op) (mp : Nat) (fl : CFlags) (hb : Bool)
    (hop : hasBackref op = false) : C05.FactsOK (mkProgram pat op mp fl hb) := by
  rw [mkProgram_hb]
  exact C05.mkProgram_factsOK pat op mp fl hop

end Rx.WF
