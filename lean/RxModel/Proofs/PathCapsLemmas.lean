/-
  Proofs/PathCapsLemmas — the engine against the path semantics with capture environments
  (Spec/PathCaps), on the fragment `straightCaps`.  Used by Props/C03b.
-/
import RxModel.Spec.PathCaps
import RxModel.Proofs.EnumLemmas
import RxModel.Proofs.InvLemmas
namespace Rx

/-! ### option arrays -/

theorem getO_nil (k : Nat) : getO [] k = none := by simp [getO]

theorem getO_cons_zero (x : Option Nat) (xs : List (Option Nat)) : getO (x :: xs) 0 = x := by
  cases x <;> simp [getO]

theorem getO_cons_succ (x : Option Nat) (xs : List (Option Nat)) (k : Nat) :
    getO (x :: xs) (k + 1) = getO xs k := by simp [getO]

theorem getO_setAt (l : List (Option Nat)) (g : Nat) (v : Option Nat) (k : Nat) :
    getO (setAt l g v) k = if k = g then v else getO l k := by
  induction l generalizing g k with
  | nil =>
    induction g generalizing k with
    | zero =>
      cases k with
      | zero => simp [setAt, getO_cons_zero]
      | succ k => simp [setAt, getO_cons_succ, getO_nil]
    | succ g ih =>
      cases k with
      | zero => simp [setAt, getO_cons_zero, getO_nil]
      | succ k => simp only [setAt, getO_cons_succ, ih, getO_nil, Nat.add_right_cancel_iff]
  | cons x xs ih =>
    cases g with
    | zero =>
      cases k with
      | zero => simp [setAt, getO_cons_zero]
      | succ k => simp [setAt, getO_cons_succ]
    | succ g =>
      cases k with
      | zero => simp [setAt, getO_cons_zero]
      | succ k => simp only [setAt, getO_cons_succ, ih, Nat.add_right_cancel_iff]

theorem length_setIn (l : List (Option Nat)) (g : Nat) (v : Option Nat) : (setIn l g v).length = l.length := by
  induction l generalizing g with
  | nil => rfl
  | cons x xs ih => cases g <;> simp [setIn, ih]

theorem getO_setIn (l : List (Option Nat)) (g : Nat) (v : Option Nat) (k : Nat) :
    getO (setIn l g v) k = if k = g ∧ g < l.length then v else getO l k := by
  induction l generalizing g k with
  | nil => simp [setIn]
  | cons x xs ih =>
    cases g with
    | zero =>
      cases k with
      | zero => simp [setIn, getO_cons_zero]
      | succ k => simp [setIn, getO_cons_succ]
    | succ g =>
      cases k with
      | zero => simp [setIn, getO_cons_zero]
      | succ k => simp only [setIn, getO_cons_succ, ih, Nat.add_right_cancel_iff, List.length_cons, Nat.add_lt_add_iff_right]

theorem getO_clearArr (ss es : List (Option Nat)) (pos k : Nat) :
    getO (clearArr ss es pos) k = if optGe (getO ss k) pos = true then getO ss k else getO es k := by
  induction ss generalizing es k with
  | nil => simp [clearArr, getO_nil, optGe]
  | cons s ss ih =>
    cases es with
    | nil =>
      cases k with
      | zero =>
        simp only [clearArr, getO_cons_zero, getO_nil]
      | succ k => simp only [clearArr, getO_cons_succ, ih, getO_nil]
    | cons e es =>
      cases k with
      | zero =>
        simp only [clearArr, getO_cons_zero]
      | succ k => simp only [clearArr, getO_cons_succ, ih]

theorem length_clearArr_ge (ss es : List (Option Nat)) (pos : Nat) : es.length ≤ (clearArr ss es pos).length := by
  induction ss generalizing es with
  | nil => simp [clearArr]
  | cons s ss ih =>
    cases es with
    | nil => simp [clearArr]
    | cons e es => simp only [clearArr, List.length_cons]; have := ih es; omega

/-! ### environments -/

theorem CEnv.set_same (e : CEnv) (g a b : Nat) : (e.set g a b) g = some (a, b) := by
  simp [CEnv.set]

theorem CEnv.set_other (e : CEnv) (g a b k : Nat) (h : k ≠ g) : (e.set g a b) k = e k := by
  simp [CEnv.set, h]

theorem EnvIn.empty (lo hi : Nat) : EnvIn CEnv.empty lo hi := by
  intro k a b h; simp [CEnv.empty] at h

theorem EnvIn.mono {e : CEnv} {lo hi hi' : Nat} (h : EnvIn e lo hi) (hh : hi ≤ hi') : EnvIn e lo hi' := by
  intro k a b hk
  have := h k a b hk
  omega

theorem EnvIn.set {e : CEnv} {lo hi hi' : Nat} (h : EnvIn e lo hi) (g p q : Nat) (h1 : lo ≤ p) (h2 : p ≤ q)
    (h3 : q ≤ hi') (hh : hi ≤ hi') : EnvIn (e.set g p q) lo hi' := by
  intro k a b hk
  by_cases hkg : k = g
  · subst hkg
    rw [CEnv.set_same] at hk
    simp only [Option.some.injEq, Prod.mk.injEq] at hk
    omega
  · rw [CEnv.set_other _ _ _ _ _ hkg] at hk
    have := h k a b hk
    omega

theorem Dom.nil (e : CEnv) : Dom [] e := by intro g hg; cases hg

theorem Dom.set {l : List Nat} {e : CEnv} (h : Dom l e) (g a b : Nat) : Dom (g :: l) (e.set g a b) := by
  intro k hk
  by_cases hkg : k = g
  · subst hkg; rw [CEnv.set_same]; rfl
  · rw [CEnv.set_other _ _ _ _ _ hkg]
    rcases List.mem_cons.1 hk with h1 | h1
    · exact absurd h1 hkg
    · exact h k h1

theorem Dom.mono {l l' : List Nat} {e : CEnv} (h : Dom l e) (hl : ∀ g, g ∈ l' → g ∈ l) : Dom l' e :=
  fun g hg => h g (hl g hg)

/-! ### the state writes of the engine against `ReprOff` -/

theorem AgreeAt.congr {ctx : Ctx} {st st' : St} {k : Nat} {v : Option (Nat × Nat)} (h : AgreeAt ctx st k v)
    (h1 : getO st'.cap.startn k = getO st.cap.startn k) (h2 : getO st'.cap.endn k = getO st.cap.endn k)
    (h3 : getO st'.startBr k = getO st.startBr k) (h4 : getO st'.endBr k = getO st.endBr k) :
    AgreeAt ctx st' k v := by
  unfold AgreeAt at *
  rw [h1, h2, h3, h4]
  exact h

theorem clear_val (pos : Nat) (v : Option (Nat × Nat)) (hv : ∀ a b, v = some (a, b) → a ≤ b ∧ b ≤ pos)
    (s e : Option Nat) (hs : s = v.map (·.1)) (he : e = v.map (·.2)) :
    (if optGe s pos = true then s else e) = v.map (·.2) := by
  subst hs he
  cases v with
  | none => simp [optGe]
  | some ab =>
    obtain ⟨a, b⟩ := ab
    have := hv a b rfl
    simp only [Option.map_some, optGe, decide_eq_true_eq]
    split
    · congr 1; omega
    · rfl

namespace ReprOff
variable {ctx : Ctx} {T : List Nat} {st : St} {e : CEnv}

theorem mono {T' : List Nat} (h : ReprOff ctx T st e) (hT : ∀ k, k ∈ T → k ∈ T') : ReprOff ctx T' st e :=
  ⟨fun k hk hn => h.agree k hk (fun hm => hn (hT k hm)), h.lens, h.np⟩

theorem clear {lo pos : Nat} (h : ReprOff ctx T st e) (he : EnvIn e lo pos) :
    ReprOff ctx T (clearBeyond st pos) e := by
  refine ⟨fun k hk hn => ?_, fun hb => ?_, h.np⟩
  · obtain ⟨a1, a2, a3⟩ := h.agree k hk hn
    have hv : ∀ a b, e k = some (a, b) → a ≤ b ∧ b ≤ pos := fun a b hab => (he k a b hab).2
    refine ⟨a1, ?_, fun hb => ⟨(a3 hb).1, ?_⟩⟩
    · show getO (clearArr st.cap.startn st.cap.endn pos) k = _
      rw [getO_clearArr]
      exact clear_val pos (e k) hv _ _ a1 a2
    · show getO (clearArr st.startBr st.endBr pos) k = _
      rw [getO_clearArr]
      exact clear_val pos (e k) hv _ _ (a3 hb).1 (a3 hb).2
  · have := h.lens hb
    exact ⟨this.1, Nat.le_trans this.2 (length_clearArr_ge _ _ _)⟩

theorem setDiv (h : ReprOff ctx T st e) : ReprOff ctx T (st.setPanic panicDiverge) e := by
  have hnp : NoRealPanic (st.setPanic panicDiverge) := NoRealPanic.setDiv h.np
  revert hnp
  unfold St.setPanic
  split
  · exact fun _ => h
  · exact fun hnp => ⟨fun k hk hn => h.agree k hk hn, h.lens, hnp⟩

theorem restore {st' : St} (h : ReprOff ctx T st e) (h' : ReprOff ctx T st' e) :
    ReprOff ctx T { st' with cap := st.cap } e :=
  ⟨fun k hk hn => ⟨(h.agree k hk hn).1, (h.agree k hk hn).2.1, (h'.agree k hk hn).2.2⟩, h'.lens, h'.np⟩

theorem setEnd0 (h : ReprOff ctx T st e) (p : Nat) : ReprOff ctx T { st with cap := st.cap.setEnd 0 p } e := by
  refine ⟨fun k hk hn => ?_, h.lens, h.np⟩
  refine (h.agree k hk hn).congr rfl ?_ rfl rfl
  show getO (setAt st.cap.endn 0 (some p)) k = _
  rw [getO_setAt, if_neg (by omega)]

/-- the write `captureGen` does before it runs the body (start of the group in the back-reference
    array) only touches the group itself -/
theorem capturePre (h : ReprOff ctx T st e) (g p : Nat) (hg : g ∈ T) (hgm : g < ctx.maxParens) :
    ReprOff ctx T (if ctx.hasBackrefs then
      (if g ≥ st.startBr.length then st.setPanic panicCaptureIndex
       else { st with startBr := setIn st.startBr g (some p) }) else st) e := by
  split
  · split
    · rename_i hb hge
      have := (h.lens hb).1
      omega
    · refine ⟨fun k hk hn => ?_, fun hb => ?_, h.np⟩
      · refine (h.agree k hk hn).congr rfl rfl ?_ rfl
        show getO (setIn st.startBr g (some p)) k = _
        rw [getO_setIn, if_neg]
        intro hc
        exact hn (hc.1 ▸ hg)
      · have := h.lens hb
        exact ⟨by show _ ≤ (setIn st.startBr g (some p)).length; rw [length_setIn]; exact this.1, this.2⟩
  · exact h

/-- the write at a yield of a capturing group -/
theorem captureWrite {e1 : CEnv} (g p n : Nat) (hg1 : g < ctx.maxParens)
    (h : ReprOff ctx (g :: T) st e1) : ReprOff ctx T (Rx.captureWrite ctx g p n st) (e1.set g p n) := by
  have hcap : ∀ c : Cap, ∀ k,
      getO ((c.setStart g p).setEnd g n).startn k = (if k = g then some p else getO c.startn k) ∧
      getO ((c.setStart g p).setEnd g n).endn k = (if k = g then some n else getO c.endn k) := by
    intro c k
    simp only [Cap.setStart, Cap.setEnd]
    exact ⟨getO_setAt _ _ _ _, getO_setAt _ _ _ _⟩
  have hcap2 : ∀ k,
      getO (((if g ≥ st.cap.parenCount then { st.cap with parenCount := g + 1 } else st.cap).setStart g p).setEnd g n).startn k
        = (if k = g then some p else getO st.cap.startn k) ∧
      getO (((if g ≥ st.cap.parenCount then { st.cap with parenCount := g + 1 } else st.cap).setStart g p).setEnd g n).endn k
        = (if k = g then some n else getO st.cap.endn k) := by
    intro k
    split
    · exact hcap _ k
    · exact hcap _ k
  have hnp : (Rx.captureWrite ctx g p n st).panic = st.panic := by
    unfold Rx.captureWrite
    simp only
    split <;> rfl
  refine ⟨fun k hk hn => ?_, fun hb => ?_, by rw [hnp]; exact h.np⟩
  · by_cases hkg : k = g
    · subst hkg
      rw [CEnv.set_same]
      unfold Rx.captureWrite
      simp only
      split
      · rename_i hb
        have hl := h.lens hb
        refine ⟨?_, ?_, fun _ => ⟨?_, ?_⟩⟩
        · exact ((hcap2 k).1).trans (by simp)
        · exact ((hcap2 k).2).trans (by simp)
        · show getO (setIn st.startBr k (some p)) k = _
          rw [getO_setIn, if_pos ⟨rfl, by omega⟩]; rfl
        · show getO (setIn st.endBr k (some n)) k = _
          rw [getO_setIn, if_pos ⟨rfl, by omega⟩]; rfl
      · rename_i hb
        refine ⟨?_, ?_, fun hb' => absurd hb' hb⟩
        · exact ((hcap2 k).1).trans (by simp)
        · exact ((hcap2 k).2).trans (by simp)
    · rw [CEnv.set_other _ _ _ _ _ hkg]
      have ha := h.agree k hk (by simp [hkg, hn])
      unfold Rx.captureWrite
      simp only
      split
      · refine ha.congr ?_ ?_ ?_ ?_
        · exact ((hcap2 k).1).trans (by simp [hkg])
        · exact ((hcap2 k).2).trans (by simp [hkg])
        · show getO (setIn st.startBr g (some p)) k = _
          rw [getO_setIn, if_neg (fun hc => hkg hc.1)]
        · show getO (setIn st.endBr g (some n)) k = _
          rw [getO_setIn, if_neg (fun hc => hkg hc.1)]
      · refine ha.congr ?_ ?_ rfl rfl
        · exact ((hcap2 k).1).trans (by simp [hkg])
        · exact ((hcap2 k).2).trans (by simp [hkg])
  · have hl := h.lens hb
    unfold Rx.captureWrite
    simp only [hb, if_true]
    exact ⟨by show _ ≤ (setIn st.startBr g (some p)).length; rw [length_setIn]; exact hl.1,
           by show _ ≤ (setIn st.endBr g (some n)).length; rw [length_setIn]; exact hl.2⟩

/-- forgetting a binding: the state still represents the environment without it, off that group -/
theorem unset {e1 : CEnv} {g a b : Nat} (h : ReprOff ctx T st (e1.set g a b)) : ReprOff ctx (g :: T) st e1 := by
  refine ⟨fun k hk hn => ?_, h.lens, h.np⟩
  have hkg : k ≠ g := fun hc => hn (by simp [hc])
  have := h.agree k hk (fun hm => hn (List.mem_cons_of_mem _ hm))
  rw [CEnv.set_other _ _ _ _ _ hkg] at this
  exact this

end ReprOff

/-! ### the calculus of exact (position, environment) lists -/

namespace Step.SeqC
variable {R R1 R' : St → CEnv → Prop} {N N1 N' : St → Prop}

theorem monoN {s : Step} {l : List (Nat × CEnv)} (h : Step.SeqC R N s l) (hN : ∀ st, N st → N' st) :
    Step.SeqC R N' s l := by
  induction h with
  | nil st h => exact .nil st (hN st h)
  | cons n st r e' l hr _ ih => exact .cons n st r e' l hr ih

theorem append {s : Step} {f : St → Step} {l1 l2 : List (Nat × CEnv)}
    (hs : Step.SeqC R N1 s l1) (hf : ∀ st, N1 st → Step.SeqC R N (f st) l2) :
    Step.SeqC R N (s.append f) (l1 ++ l2) := by
  induction hs with
  | nil st h => exact hf st h
  | cons n st r e' l hr _ ih => exact .cons n st _ e' _ hr ih

theorem bind {s : Step} {f : Nat → St → Step} {l : List (Nat × CEnv)} {g : Nat × CEnv → List (Nat × CEnv)}
    (hs : Step.SeqC R1 N1 s l)
    (hf : ∀ x, x ∈ l → ∀ st, R1 st x.2 → Step.SeqC R (fun st' => R1 st' x.2) (f x.1 st) (g x)) :
    Step.SeqC R N1 (s.bind f) (l.flatMap g) := by
  induction hs with
  | nil st h => exact .nil st h
  | cons n st r e' l hr _ ih =>
    rw [List.flatMap_cons]
    exact append (hf (n, e') List.mem_cons_self st hr)
      (fun st' h' => ih st' h' (fun x hx => hf x (List.mem_cons_of_mem _ hx)))

theorem mapSt {s : Step} {f : Nat → St → St} {l : List (Nat × CEnv)} (φ : Nat × CEnv → CEnv)
    (hs : Step.SeqC R N s l)
    (h1 : ∀ x, x ∈ l → ∀ st, R st x.2 → R' (f x.1 st) (φ x))
    (h2 : ∀ x, x ∈ l → ∀ st', R' st' (φ x) → R st' x.2) :
    Step.SeqC R' N (s.mapSt f) (l.map (fun x => (x.1, φ x))) := by
  induction hs with
  | nil st h => exact .nil st h
  | cons n st r e' l hr _ ih =>
    rw [List.map_cons]
    refine .cons n _ _ (φ (n, e')) _ (h1 (n, e') List.mem_cons_self st hr) (fun st' h' => ?_)
    exact ih st' (h2 (n, e') List.mem_cons_self st' h')
      (fun x hx => h1 x (List.mem_cons_of_mem _ hx)) (fun x hx => h2 x (List.mem_cons_of_mem _ hx))

theorem mapSt_same {s : Step} {f : Nat → St → St} {l : List (Nat × CEnv)}
    (hs : Step.SeqC R N s l) (h1 : ∀ x, x ∈ l → ∀ st, R st x.2 → R (f x.1 st) x.2) :
    Step.SeqC R N (s.mapSt f) l := by
  have := mapSt (R' := R) (fun x => x.2) hs h1 (fun _ _ _ h => h)
  simpa using this

theorem onNil {s : Step} {f : St → St} {l : List (Nat × CEnv)} (hs : Step.SeqC R N s l)
    (hf : ∀ st, N st → N' (f st)) : Step.SeqC R N' (s.onNil f) l := by
  induction hs with
  | nil st h => exact .nil _ (hf st h)
  | cons n st r e' l hr _ ih => exact .cons n st _ e' _ hr ih

/-- an iterator that yields exactly the positions `l` under every consumer and keeps the invariant
    "represents `e`" yields exactly `l` paired with `e` -/
theorem of_ex_inv (e : CEnv) {s : Step} {l : List Nat} (hx : Step.Ex s l) (hi : s.Inv (fun st => R st e)) :
    Step.SeqC R (fun st => R st e) s (l.map (fun q => (q, e))) := by
  induction hx with
  | nil st => exact .nil st hi.nil_inv
  | cons n st r l _ ih =>
    rw [List.map_cons]
    exact .cons n st r e _ hi.head (fun st' h' => ih st' trivial (hi.tail st' h'))

/-- soundness-style reading of an exact list -/
theorem caps {s : Step} {l : List (Nat × CEnv)} {Q : Nat → CEnv → Prop} (hs : Step.SeqC R N s l)
    (hq : ∀ x, x ∈ l → Q x.1 x.2) : Step.Caps R Q N s := by
  induction hs with
  | nil st h => exact .nil st h
  | cons n st r e' l hr _ ih =>
    exact .cons n st r e' (hq (n, e') List.mem_cons_self) hr
      (fun st' h' => ih st' h' (fun x hx => hq x (List.mem_cons_of_mem _ hx)))

theorem once {n : Nat} {st : St} {e : CEnv} (h : R st e) (hn : ∀ st', R st' e → N st') :
    Step.SeqC R N (Step.once n st) [(n, e)] :=
  .cons n st _ e [] h (fun st' h' => .nil st' (hn st' h'))

end Step.SeqC

/-! ### state invariants whose preservation by `clearBeyond` depends on the position

  "`st` represents `e`" survives `clear_captured_groups_beyond(pos)` only for `pos` at or after every
  span of `e`; the generic `Writes` of Proofs/InvLemmas asks for every `pos`.  The generators of the
  plain fragment only clear at positions at or after their start. -/

structure WritesFrom (p0 : Nat) (I : St → Prop) : Prop where
  clear : ∀ st p, p0 ≤ p → I st → I (clearBeyond st p)
  div : ∀ st, I st → I (st.setPanic panicDiverge)
  restore : ∀ st st', I st → I st' → I { st' with cap := st.cap }
  setEnd0 : ∀ st p, I st → I { st with cap := st.cap.setEnd 0 p }

theorem Step.Inv.mapStP {I : St → Prop} {P : Nat → Prop} {s : Step} {f : Nat → St → St}
    (hs : s.Inv I) (hp : s.All P) (hf : ∀ n st, P n → I st → I (f n st)) : (s.mapSt f).Inv I := by
  induction hs with
  | nil st h => exact .nil _ h
  | cons n st r h _ ih =>
    cases hp with
    | cons _ _ _ hn hr => exact .cons _ _ _ (hf n st hn h) (fun st' h' => ih st' h' (hr st'))
  | diverge => exact .diverge

section posfrom
variable {p0 L : Nat} {I : St → Prop}

/-- start positions at or after `p0`, inside the input -/
abbrev PosFrom (p0 L : Nat) : Nat → Prop := fun p => p0 ≤ p ∧ p ≤ L

theorem endGen_invF (W : WritesFrom p0 I) : GenInv (PosFrom p0 L) I endGen := by
  intro p st _ h
  exact .once (W.setEnd0 st p h)

theorem choiceGen_cons_invF (W : WritesFrom p0 I) {g : Gen} {gs : List Gen}
    (h1 : GenInv (PosFrom p0 L) I g) (h2 : GenInv (PosFrom p0 L) I (choiceGen gs)) :
    GenInv (PosFrom p0 L) I (choiceGen (g :: gs)) := by
  intro p st hp h
  unfold choiceGen
  exact (h1 p _ hp (W.clear _ _ hp.1 h)).append (fun st' h' => h2 p st' hp h')

theorem seqGo_cons_invF (W : WritesFrom p0 I) {g : Gen} {gs : List Gen}
    (h1 : GenInv (PosFrom p0 L) I g) (hpos : ∀ p st, PosFrom p0 L p → (g p st).All (PosFrom p0 L))
    (h2 : GenInv (PosFrom p0 L) I (seqGo gs)) : GenInv (PosFrom p0 L) I (seqGo (g :: gs)) := by
  intro p st hp h
  cases gs with
  | nil =>
    unfold seqGo
    exact (h1 p st hp h).mapStP (hpos p st hp) (fun n st' hn h' => W.clear _ _ hn.1 h')
  | cons g2 gs =>
    unfold seqGo
    exact Step.Inv.bindP ((h1 p st hp h).mapStP (hpos p st hp) (fun n st' hn h' => W.clear _ _ hn.1 h'))
      (hpos p st hp).mapSt (fun n st' hn h' => h2 n st' hn h')

theorem seqGen_invF (W : WritesFrom p0 I) {gs : List Gen} (h : GenInv (PosFrom p0 L) I (seqGo gs))
    (hasCap : Bool) : GenInv (PosFrom p0 L) I (seqGen hasCap gs) := by
  intro p st hp hst
  unfold seqGen
  simp only
  refine (h p st hp hst).onNil (fun st' h' => ?_)
  split
  · exact W.restore st st' hst h'
  · exact h'

theorem gfixedLoop_invF (W : WritesFrom p0 I) {child : Gen} (C : ChildOK (PosFrom p0 L) I child)
    (len max guard : Nat) (hg : guard ≤ L) :
    ∀ fuel p m st, p0 ≤ p → I st → I (gfixedLoop child len max guard fuel p m st).2.2 := by
  intro fuel
  induction fuel with
  | zero => intro p m st _ h; exact W.div _ h
  | succ f ih =>
    intro p m st hp h
    unfold gfixedLoop
    split
    · rename_i hle
      have hf := C.fst p st ⟨hp, Nat.le_trans hle hg⟩ h
      split
      · rename_i x st' heq
        rw [← first1_snd heq] at hf
        simp only
        split
        · exact hf
        · exact ih _ _ _ (by omega) hf
      · rename_i st' heq
        rw [← first1_snd heq] at hf
        exact hf
    · exact h

theorem gfixedGen_invF (W : WritesFrom p0 I) {child : Gen} (C : ChildOK (PosFrom p0 L) I child) (ctx : Ctx)
    (hL : ctx.len = L) (min max len : Nat) : GenInv (PosFrom p0 L) I (gfixedGen ctx child min max len) := by
  intro p st hp h
  unfold gfixedGen
  simp only
  have hguard : (if max < usizeMax then Nat.min ctx.len (p + len * max) else ctx.len) ≤ ctx.len := by
    split
    · exact Nat.min_le_left _ _
    · exact Nat.le_refl _
  generalize (if max < usizeMax then Nat.min ctx.len (p + len * max) else ctx.len) = guard at hguard
  split
  · exact .nil _ h
  · have hr := gfixedLoop_invF W C len max guard (by omega) (ctx.len + 2) p 0 st hp.1 h
    generalize gfixedLoop child len max guard (ctx.len + 2) p 0 st = r at hr
    split
    · exact .nil _ hr
    · exact descend_inv _ _ _ _ _ hr

theorem iterMin_invF (W : WritesFrom p0 I) {child : Gen} (C : ChildOK (PosFrom p0 L) I child) (min : Nat) :
    ∀ fuel count pos st, PosFrom p0 L pos → I st →
      I (iterMin child min fuel count pos st).2 ∧
      ∀ c q, (iterMin child min fuel count pos st).1 = some (c, q) → PosFrom p0 L q := by
  intro fuel
  induction fuel with
  | zero =>
    intro count pos st _ h
    exact ⟨W.div _ h, fun c q hq => by simp [iterMin] at hq⟩
  | succ f ih =>
    intro count pos st hp h
    unfold iterMin
    split
    · have hf := C.fst pos st hp h
      split
      · rename_i n x st' heq
        rw [← first1_snd heq] at hf
        have hn : PosFrom p0 L n := first1_all (C.pos pos st hp) heq
        exact ih _ _ _ hn hf
      · rename_i st' heq
        rw [← first1_snd heq] at hf
        exact ⟨hf, fun c q hq => by simp at hq⟩
    · refine ⟨h, fun c q hq => ?_⟩
      simp only [Option.some.injEq, Prod.mk.injEq] at hq
      rw [← hq.2]; exact hp

theorem rfixedMore_invF (W : WritesFrom p0 I) {child : Gen} (C : ChildOK (PosFrom p0 L) I child)
    (max position : Nat) (hpos : p0 ≤ position) :
    ∀ fuel count pos st, PosFrom p0 L pos → I st → (rfixedMore child max position fuel count pos st).Inv I := by
  intro fuel
  induction fuel with
  | zero => intro count pos st _ _; exact .diverge
  | succ f ih =>
    intro count pos st hp h
    unfold rfixedMore
    split
    · simp only
      have hf := C.fst pos _ hp (W.clear st position hpos h)
      split
      · rename_i n x st' heq
        rw [← first1_snd heq] at hf
        have hn : PosFrom p0 L n := first1_all (C.pos pos _ hp) heq
        exact .cons _ _ _ hf (fun st'' h'' => ih _ _ _ hn h'')
      · rename_i st' heq
        rw [← first1_snd heq] at hf
        exact .nil _ hf
    · exact .nil _ h

theorem rfixedGen_invF (W : WritesFrom p0 I) {child : Gen} (C : ChildOK (PosFrom p0 L) I child) (ctx : Ctx)
    (min max : Nat) : GenInv (PosFrom p0 L) I (rfixedGen ctx child min max) := by
  intro p st hp h
  unfold rfixedGen
  have hi := iterMin_invF W C min (loopFuel ctx min) 0 p st hp h
  split
  · rename_i st' heq
    rw [heq] at hi
    exact .nil _ hi.1
  · rename_i count pos st' heq
    rw [heq] at hi
    exact .cons _ _ _ hi.1 (fun st'' h'' => rfixedMore_invF W C max p hp.1 _ _ _ _ (hi.2 _ _ rfl) h'')

end posfrom

/-! ### plain trees keep "represents `e`" -/

theorem writesFrom_repr (ctx : Ctx) (T : List Nat) (e : CEnv) (lo p0 : Nat) (he : EnvIn e lo p0) :
    WritesFrom p0 (fun st => ReprOff ctx T st e) where
  clear := fun _ _ hp h => h.clear (he.mono hp)
  div := fun _ h => h.setDiv
  restore := fun _ _ h h' => h.restore h'
  setEnd0 := fun _ p h => h.setEnd0 p

theorem childOK_from {p0 : Nat} {I : St → Prop} (ctx : Ctx) (c : Op) (hwc : wfOp c = true)
    (h : GenInv (PosFrom p0 ctx.len) I (sem ctx c)) : ChildOK (PosFrom p0 ctx.len) I (sem ctx c) where
  inv := h
  fst := fun p st hp hst => first1_inv_nodiv (h p st hp hst) (sem_nd ctx c hwc p st hp.2)
  pos := fun p st hp => (sem_bounds_op ctx c hwc p hp.2 st).mono (fun _ hn => ⟨Nat.le_trans hp.1 hn.1, hn.2⟩)

mutual
theorem plain_inv {p0 : Nat} {I : St → Prop} (W : WritesFrom p0 I) (ctx : Ctx) :
    (op : Op) → plainOp op = true → wfOp op = true → GenInv (PosFrom p0 ctx.len) I (sem ctx op)
  | .bol, _, _ => by simp only [sem]; exact bolGen_inv ctx
  | .eol, _, _ => by simp only [sem]; exact eolGen_inv ctx
  | .nothing, _, _ => by simp only [sem]; exact nothingGen_inv
  | .endProgram, _, _ => by simp only [sem]; exact endGen_invF W
  | .atom cs, _, _ => by simp only [sem]; exact atomGen_inv ctx cs
  | .cls rs, _, _ => by simp only [sem]; exact clsGen_inv ctx rs
  | .backref _, hc, _ | .capture _ _, hc, _ | .rep _ _ _ _ _, hc, _ | .unamb _ _ _, hc, _ => by
    simp [plainOp] at hc
  | .choice bs, hc, hwf => by
    simp only [wfOp, Bool.and_eq_true] at hwf
    simp only [plainOp] at hc
    simp only [sem]
    exact plain_inv_choice W ctx bs hc hwf.2
  | .seq ops, hc, hwf => by
    simp only [wfOp, Bool.and_eq_true] at hwf
    simp only [plainOp] at hc
    simp only [sem]
    exact seqGen_invF W (plain_inv_seq W ctx ops hc hwf.2) _
  | .gfixed c mn mx len, hc, hwf => by
    simp only [wfOp, Bool.and_eq_true, decide_eq_true_eq, beq_iff_eq] at hwf
    obtain ⟨⟨⟨⟨⟨hwc, hml⟩, hlen0⟩, hlen1⟩, hmm⟩, hmx⟩ := hwf
    simp only [plainOp] at hc
    have C := childOK_from ctx c hwc (plain_inv W ctx c hc hwc)
    simp only [sem]
    exact gfixedGen_invF W C ctx rfl mn mx len
  | .rfixed c mn mx len, hc, hwf => by
    simp only [wfOp, Bool.and_eq_true, decide_eq_true_eq, beq_iff_eq] at hwf
    obtain ⟨⟨⟨⟨⟨hwc, hml⟩, hlen0⟩, hlen1⟩, hmm⟩, hmx⟩ := hwf
    simp only [plainOp] at hc
    have C := childOK_from ctx c hwc (plain_inv W ctx c hc hwc)
    simp only [sem]
    exact rfixedGen_invF W C ctx mn mx
termination_by structural op => op
theorem plain_inv_choice {p0 : Nat} {I : St → Prop} (W : WritesFrom p0 I) (ctx : Ctx) :
    (bs : List Op) → plainOps bs = true → wfOps bs = true →
    GenInv (PosFrom p0 ctx.len) I (choiceGen (semL ctx bs))
  | [], _, _ => by simp only [semL]; exact choiceGen_nil_inv
  | b :: bs, hc, hwf => by
    simp only [wfOps, Bool.and_eq_true] at hwf
    simp only [plainOps, Bool.and_eq_true] at hc
    simp only [semL]
    exact choiceGen_cons_invF W (plain_inv W ctx b hc.1 hwf.1) (plain_inv_choice W ctx bs hc.2 hwf.2)
termination_by structural bs => bs
theorem plain_inv_seq {p0 : Nat} {I : St → Prop} (W : WritesFrom p0 I) (ctx : Ctx) :
    (ops : List Op) → plainOps ops = true → wfOps ops = true →
    GenInv (PosFrom p0 ctx.len) I (seqGo (semL ctx ops))
  | [], _, _ => by simp only [semL]; exact seqGo_nil_inv
  | o :: os, hc, hwf => by
    simp only [wfOps, Bool.and_eq_true] at hwf
    simp only [plainOps, Bool.and_eq_true] at hc
    simp only [semL]
    exact seqGo_cons_invF W (plain_inv W ctx o hc.1 hwf.1)
      (fun p st hp => (sem_bounds_op ctx o hwf.1 p hp.2 st).mono (fun _ hn => ⟨Nat.le_trans hp.1 hn.1, hn.2⟩))
      (plain_inv_seq W ctx os hc.2 hwf.2)
termination_by structural ops => ops
end

mutual
theorem plain_clean : (op : Op) → plainOp op = true → cleanOp op = true
  | .bol, _ | .eol, _ | .nothing, _ | .endProgram, _ | .atom _, _ | .cls _, _ => rfl
  | .backref _, h | .capture _ _, h | .rep _ _ _ _ _, h | .unamb _ _ _, h => by simp [plainOp] at h
  | .choice bs, h => by simp only [plainOp] at h; simp only [cleanOp]; exact plain_cleanL bs h
  | .seq ops, h => by simp only [plainOp] at h; simp only [cleanOp]; exact plain_cleanL ops h
  | .gfixed c _ _ _, h => by simp only [plainOp] at h; simp only [cleanOp]; exact plain_clean c h
  | .rfixed c _ _ _, h => by simp only [plainOp] at h; simp only [cleanOp]; exact plain_clean c h
termination_by structural op => op
theorem plain_cleanL : (ops : List Op) → plainOps ops = true → cleanOps ops = true
  | [], _ => rfl
  | o :: os, h => by
    simp only [plainOps, Bool.and_eq_true] at h
    simp only [cleanOps, Bool.and_eq_true]
    exact ⟨plain_clean o h.1, plain_cleanL os h.2⟩
termination_by structural ops => ops
end

mutual
theorem plain_capsOf : (op : Op) → plainOp op = true → capsOf op = []
  | .bol, _ | .eol, _ | .nothing, _ | .endProgram, _ | .atom _, _ | .cls _, _ => rfl
  | .backref _, h | .capture _ _, h | .rep _ _ _ _ _, h | .unamb _ _ _, h => by simp [plainOp] at h
  | .choice bs, h => by simp only [plainOp] at h; simp only [capsOf]; exact plain_capsOfL bs h
  | .seq ops, h => by simp only [plainOp] at h; simp only [capsOf]; exact plain_capsOfL ops h
  | .gfixed c _ _ _, h => by simp only [plainOp] at h; simp only [capsOf]; exact plain_capsOf c h
  | .rfixed c _ _ _, h => by simp only [plainOp] at h; simp only [capsOf]; exact plain_capsOf c h
termination_by structural op => op
theorem plain_capsOfL : (ops : List Op) → plainOps ops = true → capsOfL ops = []
  | [], _ => rfl
  | o :: os, h => by
    simp only [plainOps, Bool.and_eq_true] at h
    simp only [capsOfL, plain_capsOf o h.1, plain_capsOfL os h.2, List.append_nil]
termination_by structural ops => ops
end

/-- a plain tree, started in a state representing `e` (whose spans all end at or before the start),
    yields exactly the ordered enumeration of its ends, always in states representing `e` -/
theorem plain_seqC (ctx : Ctx) (op : Op) (hp : plainOp op = true) (hwf : wfOp op = true)
    (T : List Nat) (e : CEnv) (lo p : Nat) (hpl : p ≤ ctx.len) (he : EnvIn e lo p) (st : St)
    (hst : ReprOff ctx T st e) :
    Step.SeqC (ReprOff ctx T) (fun st' => ReprOff ctx T st' e) (sem ctx op p st)
      ((enum ctx op p).map (fun q => (q, e))) :=
  Step.SeqC.of_ex_inv e (sem_ex_op ctx op (plain_clean op hp) hwf p hpl st)
    (plain_inv (writesFrom_repr ctx T e lo p he) ctx op hp hwf p st ⟨Nat.le_refl _, hpl⟩ hst)

/-! ### plain trees: the path semantics is the language, the environment is untouched -/

theorem IterP_plain {R' : Nat → CEnv → Nat → CEnv → Prop} {R : Nat → Nat → Prop}
    (h : ∀ a x b y, R' a x b y ↔ (y = x ∧ R a b)) {k p q : Nat} {e e' : CEnv} :
    IterP R' k p e q e' ↔ (e' = e ∧ IterR R k p q) := by
  constructor
  · intro hi
    induction hi with
    | zero p e => exact ⟨rfl, .zero p⟩
    | succ _ hr ih =>
      obtain ⟨rfl, h2⟩ := (h _ _ _ _).1 hr
      exact ⟨ih.1, .succ ih.2 h2⟩
  · rintro ⟨rfl, hi⟩
    induction hi with
    | zero p => exact .zero p _
    | succ _ hr ih => exact .succ ih ((h _ _ _ _).2 ⟨rfl, hr⟩)

mutual
theorem PathR_plain (ctx : Ctx) : (op : Op) → plainOp op = true → ∀ p e q e',
    PathR ctx op p e q e' ↔ (e' = e ∧ OpR ctx op p q)
  | .bol, _, _, _, _, _ | .eol, _, _, _, _, _ | .nothing, _, _, _, _, _ | .endProgram, _, _, _, _, _
  | .atom _, _, _, _, _, _ | .cls _, _, _, _, _, _ => by simp only [PathR]
  | .backref _, h, _, _, _, _ | .capture _ _, h, _, _, _, _ | .rep _ _ _ _ _, h, _, _, _, _
  | .unamb _ _ _, h, _, _, _, _ => by simp [plainOp] at h
  | .choice bs, h, p, e, q, e' => by
    simp only [plainOp] at h
    simp only [PathR, OpR]
    exact PathRAny_plain ctx bs h p e q e'
  | .seq ops, h, p, e, q, e' => by
    simp only [plainOp] at h
    simp only [PathR, OpR]
    exact PathRSeq_plain ctx ops h p e q e'
  | .gfixed c mn mx _, h, p, e, q, e' => by
    simp only [plainOp] at h
    simp only [PathR, OpR]
    have hi := fun k => @IterP_plain _ (fun a b => OpR ctx c a b)
      (fun a x b y => PathR_plain ctx c h a x b y) k p q e e'
    constructor
    · rintro ⟨k, h1, h2, h3⟩
      exact ⟨((hi k).1 h3).1, k, h1, h2, ((hi k).1 h3).2⟩
    · rintro ⟨h0, k, h1, h2, h3⟩
      exact ⟨k, h1, h2, (hi k).2 ⟨h0, h3⟩⟩
  | .rfixed c mn mx _, h, p, e, q, e' => by
    simp only [plainOp] at h
    simp only [PathR, OpR]
    have hi := fun k => @IterP_plain _ (fun a b => OpR ctx c a b)
      (fun a x b y => PathR_plain ctx c h a x b y) k p q e e'
    constructor
    · rintro ⟨k, h1, h2, h3⟩
      exact ⟨((hi k).1 h3).1, k, h1, h2, ((hi k).1 h3).2⟩
    · rintro ⟨h0, k, h1, h2, h3⟩
      exact ⟨k, h1, h2, (hi k).2 ⟨h0, h3⟩⟩
termination_by structural op => op
theorem PathRAny_plain (ctx : Ctx) : (bs : List Op) → plainOps bs = true → ∀ p e q e',
    PathRAny ctx bs p e q e' ↔ (e' = e ∧ OpRAny ctx bs p q)
  | [], _, _, _, _, _ => by simp [PathRAny, OpRAny]
  | b :: bs, h, p, e, q, e' => by
    simp only [plainOps, Bool.and_eq_true] at h
    simp only [PathRAny, OpRAny, PathR_plain ctx b h.1 p e q e', PathRAny_plain ctx bs h.2 p e q e']
    constructor
    · rintro (⟨h1, h2⟩ | ⟨h1, h2⟩)
      · exact ⟨h1, .inl h2⟩
      · exact ⟨h1, .inr h2⟩
    · rintro ⟨h1, h2 | h2⟩
      · exact .inl ⟨h1, h2⟩
      · exact .inr ⟨h1, h2⟩
termination_by structural bs => bs
theorem PathRSeq_plain (ctx : Ctx) : (ops : List Op) → plainOps ops = true → ∀ p e q e',
    PathRSeq ctx ops p e q e' ↔ (e' = e ∧ OpRSeq ctx ops p q)
  | [], _, _, _, _, _ => by
    simp only [PathRSeq, OpRSeq]
    exact ⟨fun h => ⟨h.2, h.1⟩, fun h => ⟨h.2, h.1⟩⟩
  | o :: os, h, p, e, q, e' => by
    simp only [plainOps, Bool.and_eq_true] at h
    simp only [PathRSeq, OpRSeq]
    constructor
    · rintro ⟨m, e1, h1, h2⟩
      obtain ⟨rfl, h1'⟩ := (PathR_plain ctx o h.1 p e m e1).1 h1
      obtain ⟨rfl, h2'⟩ := (PathRSeq_plain ctx os h.2 m _ q e').1 h2
      exact ⟨rfl, m, h1', h2'⟩
    · rintro ⟨rfl, m, h1, h2⟩
      exact ⟨m, e', (PathR_plain ctx o h.1 p _ m _).2 ⟨rfl, h1⟩, (PathRSeq_plain ctx os h.2 m _ q _).2 ⟨rfl, h2⟩⟩
termination_by structural ops => ops
end

/-! ### what every member of the enumeration with environments satisfies -/

structure PathFacts (ctx : Ctx) (lo : Nat) (caps cl : List Nat) (P : Nat → CEnv → Prop)
    (p q : Nat) (e' : CEnv) : Prop where
  le : p ≤ q
  len : q ≤ ctx.len
  env : EnvIn e' lo q
  dom : Dom (caps ++ cl) e'
  path : P q e'

theorem plain_facts (ctx : Ctx) (op : Op) (hp : plainOp op = true) (hwf : wfOp op = true)
    (lo : Nat) (cl : List Nat) (p : Nat) (e : CEnv) (hpl : p ≤ ctx.len) (he : EnvIn e lo p) (hd : Dom cl e)
    (x : Nat × CEnv) (hx : x ∈ (enum ctx op p).map (fun q => (q, e))) :
    PathFacts ctx lo (capsOf op) cl (PathR ctx op p e) p x.1 x.2 := by
  obtain ⟨q, hq, rfl⟩ := List.mem_map.1 hx
  have hr := enum_sound ctx op (plain_clean op hp) hwf hpl hq
  have hb := OpR_bounds_op ctx op p q hpl hr
  rw [plain_capsOf op hp]
  exact ⟨hb.1, hb.2, he.mono hb.1, hd, (PathR_plain ctx op hp p e q e).2 ⟨rfl, hr⟩⟩

theorem mem_append_assoc_left {g : Nat} {a b c : List Nat} (h : g ∈ a ++ c) : g ∈ (b ++ a) ++ c := by
  simp only [List.mem_append] at *
  rcases h with h | h
  · exact .inl (.inr h)
  · exact .inr h

mutual
theorem enumC_facts (ctx : Ctx) (lo : Nat) : (op : Op) → straightCaps op = true → wfOp op = true →
    ∀ cl p e, p ≤ ctx.len → lo ≤ p → EnvIn e lo p → Dom cl e →
    ∀ x, x ∈ enumC ctx op p e → PathFacts ctx lo (capsOf op) cl (PathR ctx op p e) p x.1 x.2
  | .bol, _, hwf, cl, p, e, hpl, _, he, hd, x, hx =>
    plain_facts ctx .bol rfl hwf lo cl p e hpl he hd x (by simpa only [enumC] using hx)
  | .eol, _, hwf, cl, p, e, hpl, _, he, hd, x, hx =>
    plain_facts ctx .eol rfl hwf lo cl p e hpl he hd x (by simpa only [enumC] using hx)
  | .nothing, _, hwf, cl, p, e, hpl, _, he, hd, x, hx =>
    plain_facts ctx .nothing rfl hwf lo cl p e hpl he hd x (by simpa only [enumC] using hx)
  | .endProgram, _, hwf, cl, p, e, hpl, _, he, hd, x, hx =>
    plain_facts ctx .endProgram rfl hwf lo cl p e hpl he hd x (by simpa only [enumC] using hx)
  | .atom cs, _, hwf, cl, p, e, hpl, _, he, hd, x, hx =>
    plain_facts ctx (.atom cs) rfl hwf lo cl p e hpl he hd x (by simpa only [enumC] using hx)
  | .cls rs, _, hwf, cl, p, e, hpl, _, he, hd, x, hx =>
    plain_facts ctx (.cls rs) rfl hwf lo cl p e hpl he hd x (by simpa only [enumC] using hx)
  | .choice bs, hs, hwf, cl, p, e, hpl, _, he, hd, x, hx =>
    plain_facts ctx (.choice bs) (by simpa only [straightCaps, plainOp] using hs) hwf lo cl p e hpl he hd x
      (by simpa only [enumC] using hx)
  | .gfixed c mn mx l, hs, hwf, cl, p, e, hpl, _, he, hd, x, hx =>
    plain_facts ctx (.gfixed c mn mx l) (by simpa only [straightCaps, plainOp] using hs) hwf lo cl p e hpl he hd x
      (by simpa only [enumC] using hx)
  | .rfixed c mn mx l, hs, hwf, cl, p, e, hpl, _, he, hd, x, hx =>
    plain_facts ctx (.rfixed c mn mx l) (by simpa only [straightCaps, plainOp] using hs) hwf lo cl p e hpl he hd x
      (by simpa only [enumC] using hx)
  | .rep _ _ _ _ _, hs, _, _, _, _, _, _, _, _, _, _ | .unamb _ _ _, hs, _, _, _, _, _, _, _, _, _, _ => by
    simp [straightCaps] at hs
  | .backref g, _, _, cl, p, e, hpl, _, he, hd, x, hx => by
    simp only [enumC] at hx
    simp only [capsOf]
    cases hg : e g with
    | none =>
      rw [hg] at hx
      simp only [List.mem_singleton] at hx
      subst hx
      refine ⟨Nat.le_refl _, hpl, he, hd, ?_⟩
      simp only [PathR, hg, BackrefR, true_and]
    | some ab =>
      obtain ⟨a, b⟩ := ab
      rw [hg] at hx
      simp only at hx
      split at hx
      · rename_i hc
        simp only [List.mem_singleton] at hx
        subst hx
        refine ⟨Nat.le_add_right _ _, hc.1, he.mono (Nat.le_add_right _ _), hd, ?_⟩
        simp only [PathR, hg, BackrefR, true_and]
        exact ⟨hc.1, hc.2⟩
      · cases hx
  | .capture g c, hs, hwf, cl, p, e, hpl, hlo, he, hd, x, hx => by
    simp only [straightCaps] at hs
    simp only [wfOp] at hwf
    simp only [enumC, List.mem_map] at hx
    obtain ⟨y, hy, rfl⟩ := hx
    have ih := enumC_facts ctx lo c hs hwf cl p e hpl hlo he hd y hy
    simp only [capsOf]
    refine ⟨ih.le, ih.len, ih.env.set g p y.1 hlo ih.le (Nat.le_refl _) (Nat.le_refl _), ?_, ?_⟩
    · exact Dom.set ih.dom g p y.1
    · simp only [PathR]
      exact ⟨y.2, ih.path, rfl⟩
  | .seq ops, hs, hwf, cl, p, e, hpl, hlo, he, hd, x, hx => by
    simp only [straightCaps] at hs
    simp only [wfOp, Bool.and_eq_true] at hwf
    simp only [enumC] at hx
    simp only [capsOf, PathR]
    exact enumCSeq_facts ctx lo ops hs hwf.2 cl p e hpl hlo he hd x hx
termination_by structural op => op
theorem enumCSeq_facts (ctx : Ctx) (lo : Nat) : (ops : List Op) → straightCapsL ops = true → wfOps ops = true →
    ∀ cl p e, p ≤ ctx.len → lo ≤ p → EnvIn e lo p → Dom cl e →
    ∀ x, x ∈ enumCSeq ctx ops p e → PathFacts ctx lo (capsOfL ops) cl (PathRSeq ctx ops p e) p x.1 x.2
  | [], _, _, cl, p, e, hpl, _, he, hd, x, hx => by
    simp only [enumCSeq, List.mem_singleton] at hx
    subst hx
    simp only [capsOfL]
    exact ⟨Nat.le_refl _, hpl, he, hd, by simp only [PathRSeq, and_self]⟩
  | o :: os, hs, hwf, cl, p, e, hpl, hlo, he, hd, x, hx => by
    simp only [straightCapsL, Bool.and_eq_true] at hs
    simp only [wfOps, Bool.and_eq_true] at hwf
    simp only [enumCSeq, List.mem_flatMap] at hx
    obtain ⟨y, hy, hx⟩ := hx
    have h1 := enumC_facts ctx lo o hs.1 hwf.1 cl p e hpl hlo he hd y hy
    have h2 := enumCSeq_facts ctx lo os hs.2 hwf.2 (capsOf o ++ cl) y.1 y.2 h1.len
      (Nat.le_trans hlo h1.le) h1.env h1.dom x hx
    simp only [capsOfL]
    refine ⟨Nat.le_trans h1.le h2.le, h2.len, h2.env, ?_, ?_⟩
    · intro g hg
      apply h2.dom g
      simp only [List.mem_append] at *
      rcases hg with (hg | hg) | hg
      · exact .inr (.inl hg)
      · exact .inl hg
      · exact .inr (.inr hg)
    · simp only [PathRSeq]
      exact ⟨y.1, y.2, h1.path, h2.path⟩
termination_by structural ops => ops
end

/-! ### the engine yields exactly the enumeration with environments -/

theorem getO_some_lt {l : List (Option Nat)} {g a : Nat} (h : getO l g = some a) : g < l.length := by
  apply Classical.byContradiction
  intro hc
  have : l[g]? = none := List.getElem?_eq_none (by omega)
  simp [getO, this] at h

/-- the back-reference generator on recorded arrays `(a, b)` with `a ≤ b` -/
theorem backrefGen_eval (ctx : Ctx) (g p : Nat) (st : St) (a b : Nat) (hpl : p ≤ ctx.len)
    (hs : getO st.startBr g = some a) (he : getO st.endBr g = some b) (hab : a ≤ b) :
    backrefGen ctx g p st =
      if p + (b - a) ≤ ctx.len ∧ sameText ctx (b - a) p a = true then Step.once (p + (b - a)) st
      else Step.nil st := by
  have hg := getO_some_lt hs
  unfold backrefGen
  have h1 : ¬ (g ≥ st.startBr.length) := by omega
  simp only [h1, if_false, hs, he]
  by_cases hab' : a = b
  · subst hab'
    simp only [Nat.le_refl, if_true, Nat.sub_self, Nat.add_zero, sameText, and_true]
    rw [if_pos hpl]
  · have h3 : ¬ (b ≤ a) := by omega
    simp only [h3, if_false]
    by_cases h4 : p + (b - a) ≤ ctx.len
    · have : ¬ (p + (b - a) - 1 ≥ ctx.len) := by omega
      simp only [this, if_false, h4, true_and]
    · have : (p + (b - a) - 1 ≥ ctx.len) := by omega
      simp only [this, if_true, h4, false_and, if_false]

theorem flatMap_pair_single (l : List (Nat × CEnv)) : l.flatMap (fun x => [(x.1, x.2)]) = l := by
  induction l with
  | nil => rfl
  | cons a l ih => rw [List.flatMap_cons, ih]; rfl

/-- the plain constructors inside the straight-line induction -/
theorem plain_case (ctx : Ctx) (op : Op) (hp : plainOp op = true) (hwf : wfOp op = true)
    (T : List Nat) (e : CEnv) (lo p : Nat) (hpl : p ≤ ctx.len) (he : EnvIn e lo p) (st : St)
    (henum : enumC ctx op p e = (enum ctx op p).map (fun q => (q, e)))
    (hst : ReprOff ctx (capsOf op ++ T) st e) :
    Step.SeqC (ReprOff ctx T) (fun st' => ReprOff ctx (capsOf op ++ T) st' e) (sem ctx op p st)
      (enumC ctx op p e) := by
  rw [henum]
  rw [plain_capsOf op hp] at hst ⊢
  exact plain_seqC ctx op hp hwf T e lo p hpl he st hst

mutual
/-- **the engine is an exact, ordered enumerator of (end, environment) pairs on the fragment**:
    started at `p` in a state that represents `e` off the groups of `op` and off `fut`, the iterator
    yields exactly `enumC ctx op p e`, each time in a state that represents the yielded environment
    off `fut`, and ends in a state that again represents `e` off the groups of `op` and `fut` —
    whenever it is resumed with states that still represent the environment of its last yield. -/
theorem sem_seqC (ctx : Ctx) (lo : Nat) : (op : Op) → straightCaps op = true → wfOp op = true →
    ∀ cl T, scopeOK ctx.hasBackrefs ctx.maxParens op cl T = true →
    ∀ p e st, p ≤ ctx.len → lo ≤ p → EnvIn e lo p → Dom cl e → ReprOff ctx (capsOf op ++ T) st e →
    Step.SeqC (ReprOff ctx T) (fun st' => ReprOff ctx (capsOf op ++ T) st' e) (sem ctx op p st)
      (enumC ctx op p e)
  | .bol, _, hwf, _, T, _, p, e, st, hpl, _, he, _, hst =>
    plain_case ctx .bol rfl hwf T e lo p hpl he st (by simp only [enumC]) hst
  | .eol, _, hwf, _, T, _, p, e, st, hpl, _, he, _, hst =>
    plain_case ctx .eol rfl hwf T e lo p hpl he st (by simp only [enumC]) hst
  | .nothing, _, hwf, _, T, _, p, e, st, hpl, _, he, _, hst =>
    plain_case ctx .nothing rfl hwf T e lo p hpl he st (by simp only [enumC]) hst
  | .endProgram, _, hwf, _, T, _, p, e, st, hpl, _, he, _, hst =>
    plain_case ctx .endProgram rfl hwf T e lo p hpl he st (by simp only [enumC]) hst
  | .atom cs, _, hwf, _, T, _, p, e, st, hpl, _, he, _, hst =>
    plain_case ctx (.atom cs) rfl hwf T e lo p hpl he st (by simp only [enumC]) hst
  | .cls rs, _, hwf, _, T, _, p, e, st, hpl, _, he, _, hst =>
    plain_case ctx (.cls rs) rfl hwf T e lo p hpl he st (by simp only [enumC]) hst
  | .choice bs, hs, hwf, _, T, _, p, e, st, hpl, _, he, _, hst =>
    plain_case ctx (.choice bs) (by simpa only [straightCaps, plainOp] using hs) hwf T e lo p hpl he st
      (by simp only [enumC]) hst
  | .gfixed c mn mx l, hs, hwf, _, T, _, p, e, st, hpl, _, he, _, hst =>
    plain_case ctx (.gfixed c mn mx l) (by simpa only [straightCaps, plainOp] using hs) hwf T e lo p hpl he st
      (by simp only [enumC]) hst
  | .rfixed c mn mx l, hs, hwf, _, T, _, p, e, st, hpl, _, he, _, hst =>
    plain_case ctx (.rfixed c mn mx l) (by simpa only [straightCaps, plainOp] using hs) hwf T e lo p hpl he st
      (by simp only [enumC]) hst
  | .rep _ _ _ _ _, hs, _, _, _, _, _, _, _, _, _, _, _, _ | .unamb _ _ _, hs, _, _, _, _, _, _, _, _, _, _, _, _ => by
    simp [straightCaps] at hs
  | .backref g, _, _, cl, T, hsc, p, e, st, hpl, _, he, hd, hst => by
    simp only [scopeOK, Bool.and_eq_true, decide_eq_true_eq, List.contains_eq_mem, Bool.not_eq_true',
      decide_eq_false_iff_not] at hsc
    obtain ⟨⟨⟨hbr, hg1⟩, hgcl⟩, hgT⟩ := hsc
    simp only [capsOf, List.nil_append] at hst ⊢
    have hsome := hd g hgcl
    cases hg : e g with
    | none => rw [hg] at hsome; cases hsome
    | some ab =>
      obtain ⟨a, b⟩ := ab
      have hag := hst.agree g hg1 hgT
      rw [hg] at hag
      have hbrs := hag.2.2 hbr
      have hab := (he g a b hg).2.1
      simp only [sem, enumC, hg]
      rw [backrefGen_eval ctx g p st a b hpl hbrs.1 hbrs.2 hab]
      split
      · exact Step.SeqC.once hst (fun _ h => h)
      · exact .nil st hst
  | .capture g c, hs, hwf, cl, T, hsc, p, e, st, hpl, hlo, he, hd, hst => by
    simp only [straightCaps] at hs
    simp only [wfOp] at hwf
    simp only [scopeOK, Bool.and_eq_true, decide_eq_true_eq] at hsc
    obtain ⟨⟨hg1, hgm⟩, hsc⟩ := hsc
    simp only [capsOf] at hst ⊢
    have hperm : ∀ k, k ∈ g :: capsOf c ++ T ↔ k ∈ capsOf c ++ g :: T := by
      intro k; simp only [List.cons_append, List.mem_cons, List.mem_append]
      constructor
      · rintro (h | h | h)
        · exact .inr (.inl h)
        · exact .inl h
        · exact .inr (.inr h)
      · rintro (h | h | h)
        · exact .inr (.inl h)
        · exact .inl h
        · exact .inr (.inr h)
    have hst1 := (hst.capturePre g p (by simp) hgm).mono (fun k hk => (hperm k).1 hk)
    have ih := sem_seqC ctx lo c hs hwf cl (g :: T) hsc p e _ hpl hlo he hd hst1
    simp only [sem, enumC]
    unfold captureGen
    simp only
    refine (Step.SeqC.mapSt (R' := ReprOff ctx T) (fun x => x.2.set g p x.1) ih ?_ ?_).monoN ?_
    · intro x _ st' h'
      exact h'.captureWrite g p x.1 hgm
    · intro x _ st' h'
      exact h'.unset
    · intro st' h'
      exact h'.mono (fun k hk => (hperm k).2 hk)
  | .seq ops, hs, hwf, cl, T, hsc, p, e, st, hpl, hlo, he, hd, hst => by
    simp only [straightCaps] at hs
    simp only [wfOp, Bool.and_eq_true, Bool.not_eq_true', List.isEmpty_eq_false_iff] at hwf
    simp only [scopeOK] at hsc
    simp only [capsOf] at hst ⊢
    simp only [sem, enumC]
    unfold seqGen
    simp only
    refine (seqGo_seqC ctx lo ops hwf.1 hs hwf.2 cl T hsc p e st hpl hlo he hd hst).onNil (fun st' h' => ?_)
    split
    · exact hst.restore h'
    · exact h'
termination_by structural op => op
theorem seqGo_seqC (ctx : Ctx) (lo : Nat) : (ops : List Op) → ops ≠ [] → straightCapsL ops = true →
    wfOps ops = true → ∀ cl T, scopeOKL ctx.hasBackrefs ctx.maxParens ops cl T = true →
    ∀ p e st, p ≤ ctx.len → lo ≤ p → EnvIn e lo p → Dom cl e → ReprOff ctx (capsOfL ops ++ T) st e →
    Step.SeqC (ReprOff ctx T) (fun st' => ReprOff ctx (capsOfL ops ++ T) st' e) (seqGo (semL ctx ops) p st)
      (enumCSeq ctx ops p e)
  | [], hne, _, _, _, _, _, _, _, _, _, _, _, _, _ => absurd rfl hne
  | [o], _, hs, hwf, cl, T, hsc, p, e, st, hpl, hlo, he, hd, hst => by
    simp only [straightCapsL, Bool.and_eq_true] at hs
    simp only [wfOps, Bool.and_eq_true] at hwf
    simp only [scopeOKL, capsOfL, List.nil_append, Bool.and_true] at hsc
    simp only [capsOfL, List.append_nil] at hst ⊢
    have ih := sem_seqC ctx lo o hs.1 hwf.1 cl T hsc p e st hpl hlo he hd hst
    simp only [semL, enumCSeq]
    rw [flatMap_pair_single]
    unfold seqGo
    refine Step.SeqC.mapSt_same ih (fun x hx st' h' => ?_)
    exact h'.clear (enumC_facts ctx lo o hs.1 hwf.1 cl p e hpl hlo he hd x hx).env
  | o :: o2 :: os, _, hs, hwf, cl, T, hsc, p, e, st, hpl, hlo, he, hd, hst => by
    simp only [straightCapsL, Bool.and_eq_true] at hs
    simp only [wfOps, Bool.and_eq_true] at hwf
    have hs2 : straightCapsL (o2 :: os) = true := by simp only [straightCapsL, Bool.and_eq_true]; exact hs.2
    have hw2 : wfOps (o2 :: os) = true := by simp only [wfOps, Bool.and_eq_true]; exact hwf.2
    rw [scopeOKL, Bool.and_eq_true] at hsc
    rw [capsOfL, List.append_assoc] at hst
    have ih := sem_seqC ctx lo o hs.1 hwf.1 cl (capsOfL (o2 :: os) ++ T) hsc.1 p e st hpl hlo he hd hst
    have hfacts := enumC_facts ctx lo o hs.1 hwf.1 cl p e hpl hlo he hd
    show Step.SeqC _ _ (seqGo (sem ctx o :: sem ctx o2 :: semL ctx os) p st)
      ((enumC ctx o p e).flatMap (fun x => enumCSeq ctx (o2 :: os) x.1 x.2))
    unfold seqGo
    have h1 := Step.SeqC.mapSt_same (f := fun n st' => clearBeyond st' n) ih
      (fun x hx st' h' => h'.clear (hfacts x hx).env)
    have h2 := Step.SeqC.bind (R := ReprOff ctx T) (f := seqGo (sem ctx o2 :: semL ctx os))
      (g := fun x => enumCSeq ctx (o2 :: os) x.1 x.2) h1 (fun x hx st' h' => by
        have hf := hfacts x hx
        exact seqGo_seqC ctx lo (o2 :: os) (List.cons_ne_nil _ _) hs2 hw2 (capsOf o ++ cl) T hsc.2
          x.1 x.2 st' hf.len (Nat.le_trans hlo hf.le) hf.env hf.dom h')
    refine h2.monoN (fun st' h' => ?_)
    rw [capsOfL, List.append_assoc]
    exact h'
termination_by structural ops => ops
end

/-! ### erasing the environments gives the language -/

theorem IterP.erase {R' : Nat → CEnv → Nat → CEnv → Prop} {R : Nat → Nat → Prop} {L : Nat}
    (h : ∀ a x b y, a ≤ L → R' a x b y → R a b ∧ b ≤ L) {k p q : Nat} {e e' : CEnv}
    (hi : IterP R' k p e q e') (hp : p ≤ L) : IterR R k p q ∧ q ≤ L := by
  induction hi with
  | zero p e => exact ⟨.zero p, hp⟩
  | succ _ hr ih =>
    have h1 := ih hp
    have h2 := h _ _ _ _ h1.2 hr
    exact ⟨.succ h1.1 h2.1, h2.2⟩

mutual
theorem PathR_OpR (ctx : Ctx) : (op : Op) → ∀ p e q e', p ≤ ctx.len → PathR ctx op p e q e' → OpR ctx op p q
  | .bol, _, _, _, _, _, h | .eol, _, _, _, _, _, h | .nothing, _, _, _, _, _, h
  | .endProgram, _, _, _, _, _, h | .atom _, _, _, _, _, _, h | .cls _, _, _, _, _, _, h => by
    simp only [PathR] at h; exact h.2
  | .backref g, p, e, q, e', hp, h => by
    simp only [PathR] at h
    simp only [OpR]
    obtain ⟨_, h⟩ := h
    cases hg : e g with
    | none => rw [hg] at h; simp only [BackrefR] at h; omega
    | some ab => obtain ⟨a, b⟩ := ab; rw [hg] at h; simp only [BackrefR] at h; omega
  | .capture g c, p, e, q, e', hp, h => by
    simp only [PathR] at h
    obtain ⟨e1, h1, _⟩ := h
    simp only [OpR]
    exact PathR_OpR ctx c p e q e1 hp h1
  | .choice bs, p, e, q, e', hp, h => by
    simp only [PathR] at h
    simp only [OpR]
    exact PathRAny_OpR ctx bs p e q e' hp h
  | .seq ops, p, e, q, e', hp, h => by
    simp only [PathR] at h
    simp only [OpR]
    exact PathRSeq_OpR ctx ops p e q e' hp h
  | .rep _ c mn mx _, p, e, q, e', hp, h => by
    simp only [PathR] at h
    obtain ⟨k, h1, h2, hi⟩ := h
    simp only [OpR]
    exact ⟨k, h1, h2, (IterP.erase (R := fun a b => OpR ctx c a b) (fun a x b y ha hr =>
      ⟨PathR_OpR ctx c a x b y ha hr, (OpR_bounds_op ctx c a b ha (PathR_OpR ctx c a x b y ha hr)).2⟩) hi hp).1⟩
  | .gfixed c mn mx _, p, e, q, e', hp, h => by
    simp only [PathR] at h
    obtain ⟨k, h1, h2, hi⟩ := h
    simp only [OpR]
    exact ⟨k, h1, h2, (IterP.erase (R := fun a b => OpR ctx c a b) (fun a x b y ha hr =>
      ⟨PathR_OpR ctx c a x b y ha hr, (OpR_bounds_op ctx c a b ha (PathR_OpR ctx c a x b y ha hr)).2⟩) hi hp).1⟩
  | .rfixed c mn mx _, p, e, q, e', hp, h => by
    simp only [PathR] at h
    obtain ⟨k, h1, h2, hi⟩ := h
    simp only [OpR]
    exact ⟨k, h1, h2, (IterP.erase (R := fun a b => OpR ctx c a b) (fun a x b y ha hr =>
      ⟨PathR_OpR ctx c a x b y ha hr, (OpR_bounds_op ctx c a b ha (PathR_OpR ctx c a x b y ha hr)).2⟩) hi hp).1⟩
  | .unamb c mn mx, p, e, q, e', hp, h => by
    simp only [PathR] at h
    obtain ⟨k, h1, h2, hi⟩ := h
    simp only [OpR]
    exact ⟨k, h1, h2, (IterP.erase (R := fun a b => OpR ctx c a b) (fun a x b y ha hr =>
      ⟨PathR_OpR ctx c a x b y ha hr, (OpR_bounds_op ctx c a b ha (PathR_OpR ctx c a x b y ha hr)).2⟩) hi hp).1⟩
termination_by structural op => op
theorem PathRAny_OpR (ctx : Ctx) : (bs : List Op) → ∀ p e q e', p ≤ ctx.len → PathRAny ctx bs p e q e' →
    OpRAny ctx bs p q
  | [], _, _, _, _, _, h => by simp only [PathRAny] at h
  | b :: bs, p, e, q, e', hp, h => by
    simp only [PathRAny] at h
    simp only [OpRAny]
    rcases h with h | h
    · exact .inl (PathR_OpR ctx b p e q e' hp h)
    · exact .inr (PathRAny_OpR ctx bs p e q e' hp h)
termination_by structural bs => bs
theorem PathRSeq_OpR (ctx : Ctx) : (ops : List Op) → ∀ p e q e', p ≤ ctx.len → PathRSeq ctx ops p e q e' →
    OpRSeq ctx ops p q
  | [], _, _, _, _, _, h => by simp only [PathRSeq] at h; simp only [OpRSeq]; exact h.1
  | o :: os, p, e, q, e', hp, h => by
    simp only [PathRSeq] at h
    obtain ⟨m, e1, h1, h2⟩ := h
    simp only [OpRSeq]
    have hr := PathR_OpR ctx o p e m e1 hp h1
    exact ⟨m, hr, PathRSeq_OpR ctx os m e1 q e' (OpR_bounds_op ctx o p m hp hr).2 h2⟩
termination_by structural ops => ops
end

theorem PathR_bounds (ctx : Ctx) (op : Op) {p q : Nat} {e e' : CEnv} (hp : p ≤ ctx.len)
    (h : PathR ctx op p e q e') : p ≤ q ∧ q ≤ ctx.len :=
  OpR_bounds_op ctx op p q hp (PathR_OpR ctx op p e q e' hp h)

/-! ### `enumC` lists every path (completeness of the enumeration) -/

theorem plain_complete (ctx : Ctx) (op : Op) (hp : plainOp op = true) (hwf : wfOp op = true)
    {p q : Nat} {e e' : CEnv} (hpl : p ≤ ctx.len) (h : PathR ctx op p e q e') :
    (q, e') ∈ (enum ctx op p).map (fun q => (q, e)) := by
  obtain ⟨rfl, hr⟩ := (PathR_plain ctx op hp p e q e').1 h
  exact List.mem_map.2 ⟨q, enum_complete_op ctx op (plain_clean op hp) hwf p q hpl hr, rfl⟩

mutual
theorem enumC_complete (ctx : Ctx) : (op : Op) → straightCaps op = true → wfOp op = true →
    ∀ p e q e', p ≤ ctx.len → PathR ctx op p e q e' → (q, e') ∈ enumC ctx op p e
  | .bol, _, hwf, p, e, q, e', hp, h => by simp only [enumC]; exact plain_complete ctx .bol rfl hwf hp h
  | .eol, _, hwf, p, e, q, e', hp, h => by simp only [enumC]; exact plain_complete ctx .eol rfl hwf hp h
  | .nothing, _, hwf, p, e, q, e', hp, h => by simp only [enumC]; exact plain_complete ctx .nothing rfl hwf hp h
  | .endProgram, _, hwf, p, e, q, e', hp, h => by
    simp only [enumC]; exact plain_complete ctx .endProgram rfl hwf hp h
  | .atom cs, _, hwf, p, e, q, e', hp, h => by simp only [enumC]; exact plain_complete ctx (.atom cs) rfl hwf hp h
  | .cls rs, _, hwf, p, e, q, e', hp, h => by simp only [enumC]; exact plain_complete ctx (.cls rs) rfl hwf hp h
  | .choice bs, hs, hwf, p, e, q, e', hp, h => by
    simp only [enumC]
    exact plain_complete ctx (.choice bs) (by simpa only [straightCaps, plainOp] using hs) hwf hp h
  | .gfixed c mn mx l, hs, hwf, p, e, q, e', hp, h => by
    simp only [enumC]
    exact plain_complete ctx (.gfixed c mn mx l) (by simpa only [straightCaps, plainOp] using hs) hwf hp h
  | .rfixed c mn mx l, hs, hwf, p, e, q, e', hp, h => by
    simp only [enumC]
    exact plain_complete ctx (.rfixed c mn mx l) (by simpa only [straightCaps, plainOp] using hs) hwf hp h
  | .rep _ _ _ _ _, hs, _, _, _, _, _, _, _ | .unamb _ _ _, hs, _, _, _, _, _, _, _ => by
    simp [straightCaps] at hs
  | .backref g, _, _, p, e, q, e', _, h => by
    simp only [PathR] at h
    obtain ⟨rfl, h⟩ := h
    simp only [enumC]
    cases hg : e' g with
    | none =>
      rw [hg] at h
      simp only [BackrefR] at h
      subst h
      simp
    | some ab =>
      obtain ⟨a, b⟩ := ab
      rw [hg] at h
      simp only [BackrefR] at h
      obtain ⟨rfl, h2, h3⟩ := h
      simp only
      rw [if_pos ⟨h2, h3⟩]
      simp
  | .capture g c, hs, hwf, p, e, q, e', hp, h => by
    simp only [straightCaps] at hs
    simp only [wfOp] at hwf
    simp only [PathR] at h
    obtain ⟨e1, h1, rfl⟩ := h
    simp only [enumC, List.mem_map]
    exact ⟨(q, e1), enumC_complete ctx c hs hwf p e q e1 hp h1, rfl⟩
  | .seq ops, hs, hwf, p, e, q, e', hp, h => by
    simp only [straightCaps] at hs
    simp only [wfOp, Bool.and_eq_true] at hwf
    simp only [PathR] at h
    simp only [enumC]
    exact enumCSeq_complete ctx ops hs hwf.2 p e q e' hp h
termination_by structural op => op
theorem enumCSeq_complete (ctx : Ctx) : (ops : List Op) → straightCapsL ops = true → wfOps ops = true →
    ∀ p e q e', p ≤ ctx.len → PathRSeq ctx ops p e q e' → (q, e') ∈ enumCSeq ctx ops p e
  | [], _, _, p, e, q, e', _, h => by
    simp only [PathRSeq] at h
    obtain ⟨rfl, rfl⟩ := h
    simp [enumCSeq]
  | o :: os, hs, hwf, p, e, q, e', hp, h => by
    simp only [straightCapsL, Bool.and_eq_true] at hs
    simp only [wfOps, Bool.and_eq_true] at hwf
    simp only [PathRSeq] at h
    obtain ⟨m, e1, h1, h2⟩ := h
    simp only [enumCSeq, List.mem_flatMap]
    exact ⟨(m, e1), enumC_complete ctx o hs.1 hwf.1 p e m e1 hp h1,
      enumCSeq_complete ctx os hs.2 hwf.2 m e1 q e' (PathR_bounds ctx o hp h1).2 h2⟩
termination_by structural ops => ops
end

/-! ### consequences of the path semantics: frame, groups inside, nesting -/

theorem plain_frame (ctx : Ctx) (op : Op) (hp : plainOp op = true) {p q : Nat} {e e' : CEnv}
    (h : PathR ctx op p e q e') : e' = e :=
  ((PathR_plain ctx op hp p e q e').1 h).1

mutual
/-- a path only re-binds the groups of the tree -/
theorem PathR_frame (ctx : Ctx) : (op : Op) → straightCaps op = true → ∀ p e q e', PathR ctx op p e q e' →
    ∀ k, k ∉ capsOf op → e' k = e k
  | .bol, _, _, _, _, _, h, _, _ => by rw [plain_frame ctx .bol rfl h]
  | .eol, _, _, _, _, _, h, _, _ => by rw [plain_frame ctx .eol rfl h]
  | .nothing, _, _, _, _, _, h, _, _ => by rw [plain_frame ctx .nothing rfl h]
  | .endProgram, _, _, _, _, _, h, _, _ => by rw [plain_frame ctx .endProgram rfl h]
  | .atom cs, _, _, _, _, _, h, _, _ => by rw [plain_frame ctx (.atom cs) rfl h]
  | .cls rs, _, _, _, _, _, h, _, _ => by rw [plain_frame ctx (.cls rs) rfl h]
  | .choice bs, hs, _, _, _, _, h, _, _ => by
    rw [plain_frame ctx (.choice bs) (by simpa only [straightCaps, plainOp] using hs) h]
  | .gfixed c mn mx l, hs, _, _, _, _, h, _, _ => by
    rw [plain_frame ctx (.gfixed c mn mx l) (by simpa only [straightCaps, plainOp] using hs) h]
  | .rfixed c mn mx l, hs, _, _, _, _, h, _, _ => by
    rw [plain_frame ctx (.rfixed c mn mx l) (by simpa only [straightCaps, plainOp] using hs) h]
  | .rep _ _ _ _ _, hs, _, _, _, _, _, _, _ | .unamb _ _ _, hs, _, _, _, _, _, _, _ => by
    simp [straightCaps] at hs
  | .backref _, _, _, _, _, _, h, _, _ => by simp only [PathR] at h; rw [h.1]
  | .capture g c, hs, p, e, q, e', h, k, hk => by
    simp only [straightCaps] at hs
    simp only [PathR] at h
    obtain ⟨e1, h1, rfl⟩ := h
    simp only [capsOf, List.mem_cons, not_or] at hk
    rw [CEnv.set_other _ _ _ _ _ hk.1]
    exact PathR_frame ctx c hs p e q e1 h1 k hk.2
  | .seq ops, hs, p, e, q, e', h, k, hk => by
    simp only [straightCaps] at hs
    simp only [PathR] at h
    simp only [capsOf] at hk
    exact PathRSeq_frame ctx ops hs p e q e' h k hk
termination_by structural op => op
theorem PathRSeq_frame (ctx : Ctx) : (ops : List Op) → straightCapsL ops = true → ∀ p e q e',
    PathRSeq ctx ops p e q e' → ∀ k, k ∉ capsOfL ops → e' k = e k
  | [], _, _, _, _, _, h, _, _ => by simp only [PathRSeq] at h; rw [h.2]
  | o :: os, hs, p, e, q, e', h, k, hk => by
    simp only [straightCapsL, Bool.and_eq_true] at hs
    simp only [PathRSeq] at h
    obtain ⟨m, e1, h1, h2⟩ := h
    simp only [capsOfL, List.mem_append, not_or] at hk
    rw [PathRSeq_frame ctx os hs.2 m e1 q e' h2 k hk.2]
    exact PathR_frame ctx o hs.1 p e m e1 h1 k hk.1
termination_by structural ops => ops
end

mutual
/-- every group of the tree is bound, by a span inside the span of the path -/
theorem PathR_inside (ctx : Ctx) : (op : Op) → straightCaps op = true → ∀ p e q e', p ≤ ctx.len →
    PathR ctx op p e q e' → ∀ k, k ∈ capsOf op → ∃ a b, e' k = some (a, b) ∧ p ≤ a ∧ a ≤ b ∧ b ≤ q
  | .bol, _, _, _, _, _, _, _, _, hk | .eol, _, _, _, _, _, _, _, _, hk | .nothing, _, _, _, _, _, _, _, _, hk
  | .endProgram, _, _, _, _, _, _, _, _, hk | .atom _, _, _, _, _, _, _, _, _, hk
  | .cls _, _, _, _, _, _, _, _, _, hk | .backref _, _, _, _, _, _, _, _, _, hk => by simp [capsOf] at hk
  | .choice bs, hs, _, _, _, _, _, _, _, hk => by
    rw [plain_capsOf (.choice bs) (by simpa only [straightCaps, plainOp] using hs)] at hk; cases hk
  | .gfixed c mn mx l, hs, _, _, _, _, _, _, _, hk => by
    rw [plain_capsOf (.gfixed c mn mx l) (by simpa only [straightCaps, plainOp] using hs)] at hk; cases hk
  | .rfixed c mn mx l, hs, _, _, _, _, _, _, _, hk => by
    rw [plain_capsOf (.rfixed c mn mx l) (by simpa only [straightCaps, plainOp] using hs)] at hk; cases hk
  | .rep _ _ _ _ _, hs, _, _, _, _, _, _, _, _ | .unamb _ _ _, hs, _, _, _, _, _, _, _, _ => by
    simp [straightCaps] at hs
  | .capture g c, hs, p, e, q, e', hp, h, k, hk => by
    simp only [straightCaps] at hs
    simp only [PathR] at h
    obtain ⟨e1, h1, rfl⟩ := h
    have hb := PathR_bounds ctx c hp h1
    by_cases hkg : k = g
    · subst hkg
      exact ⟨p, q, CEnv.set_same _ _ _ _, Nat.le_refl _, hb.1, Nat.le_refl _⟩
    · simp only [capsOf, List.mem_cons, hkg, false_or] at hk
      rw [CEnv.set_other _ _ _ _ _ hkg]
      exact PathR_inside ctx c hs p e q e1 hp h1 k hk
  | .seq ops, hs, p, e, q, e', hp, h, k, hk => by
    simp only [straightCaps] at hs
    simp only [PathR] at h
    simp only [capsOf] at hk
    exact PathRSeq_inside ctx ops hs p e q e' hp h k hk
termination_by structural op => op
theorem PathRSeq_inside (ctx : Ctx) : (ops : List Op) → straightCapsL ops = true → ∀ p e q e', p ≤ ctx.len →
    PathRSeq ctx ops p e q e' → ∀ k, k ∈ capsOfL ops → ∃ a b, e' k = some (a, b) ∧ p ≤ a ∧ a ≤ b ∧ b ≤ q
  | [], _, _, _, _, _, _, _, _, hk => by simp [capsOfL] at hk
  | o :: os, hs, p, e, q, e', hp, h, k, hk => by
    simp only [straightCapsL, Bool.and_eq_true] at hs
    simp only [PathRSeq] at h
    obtain ⟨m, e1, h1, h2⟩ := h
    have hb1 := PathR_bounds ctx o hp h1
    have hb2 := OpR_bounds_seq ctx os m q hb1.2 (PathRSeq_OpR ctx os m e1 q e' hb1.2 h2)
    by_cases hk2 : k ∈ capsOfL os
    · obtain ⟨a, b, h3, h4, h5, h6⟩ := PathRSeq_inside ctx os hs.2 m e1 q e' hb1.2 h2 k hk2
      exact ⟨a, b, h3, by omega, h5, h6⟩
    · simp only [capsOfL, List.mem_append, hk2, or_false] at hk
      obtain ⟨a, b, h3, h4, h5, h6⟩ := PathR_inside ctx o hs.1 p e m e1 hp h1 k hk
      rw [PathRSeq_frame ctx os hs.2 m e1 q e' h2 k hk2]
      exact ⟨a, b, h3, h4, h5, by omega⟩
termination_by structural ops => ops
end

mutual
theorem capNodes_sub : (op : Op) → ∀ g c, (g, c) ∈ capNodes op → g ∈ capsOf op ∧ ∀ k, k ∈ capsOf c → k ∈ capsOf op
  | .capture g' c', g, c, h => by
    simp only [capNodes, List.mem_cons, Prod.mk.injEq] at h
    simp only [capsOf, List.mem_cons]
    rcases h with ⟨rfl, rfl⟩ | h
    · exact ⟨.inl rfl, fun k hk => .inr hk⟩
    · have := capNodes_sub c' g c h
      exact ⟨.inr this.1, fun k hk => .inr (this.2 k hk)⟩
  | .seq ops, g, c, h => by
    simp only [capNodes] at h
    simp only [capsOf]
    exact capNodesL_sub ops g c h
  | .bol, _, _, h | .eol, _, _, h | .nothing, _, _, h | .endProgram, _, _, h | .atom _, _, _, h
  | .cls _, _, _, h | .backref _, _, _, h | .choice _, _, _, h | .rep _ _ _ _ _, _, _, h
  | .gfixed _ _ _ _, _, _, h | .rfixed _ _ _ _, _, _, h | .unamb _ _ _, _, _, h => by simp [capNodes] at h
termination_by structural op => op
theorem capNodesL_sub : (ops : List Op) → ∀ g c, (g, c) ∈ capNodesL ops →
    g ∈ capsOfL ops ∧ ∀ k, k ∈ capsOf c → k ∈ capsOfL ops
  | [], _, _, h => by simp [capNodesL] at h
  | o :: os, g, c, h => by
    simp only [capNodesL, List.mem_append] at h
    simp only [capsOfL, List.mem_append]
    rcases h with h | h
    · have := capNodes_sub o g c h
      exact ⟨.inl this.1, fun k hk => .inl (this.2 k hk)⟩
    · have := capNodesL_sub os g c h
      exact ⟨.inr this.1, fun k hk => .inr (this.2 k hk)⟩
termination_by structural ops => ops
end

mutual
/-- with distinct group numbers: every capture node `(g, c)` in straight-line position ends up bound to
    a span `(a, b)` inside the path along which its body `c` matched (`PathR ctx c a _ b eb`), and the
    groups of the body keep, in the final environment, the values they had when the group was closed -/
theorem PathR_capNodes (ctx : Ctx) : (op : Op) → straightCaps op = true → ∀ p e q e', p ≤ ctx.len →
    (capsOf op).Nodup → PathR ctx op p e q e' → ∀ g c, (g, c) ∈ capNodes op →
    ∃ a b ea eb, e' g = some (a, b) ∧ p ≤ a ∧ b ≤ q ∧ PathR ctx c a ea b eb ∧ ∀ k, k ∈ capsOf c → e' k = eb k
  | .capture g' c', hs, p, e, q, e', hp, hnd, h, g, c, hm => by
    simp only [straightCaps] at hs
    simp only [PathR] at h
    obtain ⟨e1, h1, rfl⟩ := h
    simp only [capsOf, List.nodup_cons] at hnd
    simp only [capNodes, List.mem_cons, Prod.mk.injEq] at hm
    rcases hm with ⟨rfl, rfl⟩ | hm
    · refine ⟨p, q, e, e1, CEnv.set_same _ _ _ _, Nat.le_refl _, Nat.le_refl _, h1, fun k hk => ?_⟩
      exact CEnv.set_other _ _ _ _ _ (fun hc => hnd.1 (hc ▸ hk))
    · obtain ⟨a, b, ea, eb, i1, i2, i3, i4, i5⟩ := PathR_capNodes ctx c' hs p e q e1 hp hnd.2 h1 g c hm
      have hsub := capNodes_sub c' g c hm
      refine ⟨a, b, ea, eb, ?_, i2, i3, i4, fun k hk => ?_⟩
      · have hne : g ≠ g' := fun hc => hnd.1 (by rw [← hc]; exact hsub.1)
        rw [CEnv.set_other _ _ _ _ _ hne]; exact i1
      · have hne : k ≠ g' := fun hc => hnd.1 (by rw [← hc]; exact hsub.2 k hk)
        rw [CEnv.set_other _ _ _ _ _ hne]; exact i5 k hk
  | .seq ops, hs, p, e, q, e', hp, hnd, h, g, c, hm => by
    simp only [straightCaps] at hs
    simp only [PathR] at h
    simp only [capsOf] at hnd
    simp only [capNodes] at hm
    exact PathRSeq_capNodes ctx ops hs p e q e' hp hnd h g c hm
  | .bol, _, _, _, _, _, _, _, _, _, _, h | .eol, _, _, _, _, _, _, _, _, _, _, h
  | .nothing, _, _, _, _, _, _, _, _, _, _, h | .endProgram, _, _, _, _, _, _, _, _, _, _, h
  | .atom _, _, _, _, _, _, _, _, _, _, _, h | .cls _, _, _, _, _, _, _, _, _, _, _, h
  | .backref _, _, _, _, _, _, _, _, _, _, _, h | .choice _, _, _, _, _, _, _, _, _, _, _, h
  | .rep _ _ _ _ _, _, _, _, _, _, _, _, _, _, _, h | .gfixed _ _ _ _, _, _, _, _, _, _, _, _, _, _, h
  | .rfixed _ _ _ _, _, _, _, _, _, _, _, _, _, _, h | .unamb _ _ _, _, _, _, _, _, _, _, _, _, _, h => by
    simp [capNodes] at h
termination_by structural op => op
theorem PathRSeq_capNodes (ctx : Ctx) : (ops : List Op) → straightCapsL ops = true → ∀ p e q e', p ≤ ctx.len →
    (capsOfL ops).Nodup → PathRSeq ctx ops p e q e' → ∀ g c, (g, c) ∈ capNodesL ops →
    ∃ a b ea eb, e' g = some (a, b) ∧ p ≤ a ∧ b ≤ q ∧ PathR ctx c a ea b eb ∧ ∀ k, k ∈ capsOf c → e' k = eb k
  | [], _, _, _, _, _, _, _, _, _, _, hm => by simp [capNodesL] at hm
  | o :: os, hs, p, e, q, e', hp, hnd, h, g, c, hm => by
    simp only [straightCapsL, Bool.and_eq_true] at hs
    simp only [PathRSeq] at h
    obtain ⟨m, e1, h1, h2⟩ := h
    simp only [capsOfL, List.nodup_append] at hnd
    obtain ⟨hn1, hn2, hdis⟩ := hnd
    have hb1 := PathR_bounds ctx o hp h1
    have hb2 := OpR_bounds_seq ctx os m q hb1.2 (PathRSeq_OpR ctx os m e1 q e' hb1.2 h2)
    simp only [capNodesL, List.mem_append] at hm
    rcases hm with hm | hm
    · obtain ⟨a, b, ea, eb, i1, i2, i3, i4, i5⟩ := PathR_capNodes ctx o hs.1 p e m e1 hp hn1 h1 g c hm
      have hsub := capNodes_sub o g c hm
      have hfr : ∀ k, k ∈ capsOf o → e' k = e1 k := fun k hk =>
        PathRSeq_frame ctx os hs.2 m e1 q e' h2 k (fun hc => hdis k hk k hc rfl)
      refine ⟨a, b, ea, eb, ?_, i2, by omega, i4, fun k hk => ?_⟩
      · rw [hfr g hsub.1]; exact i1
      · rw [hfr k (hsub.2 k hk)]; exact i5 k hk
    · obtain ⟨a, b, ea, eb, i1, i2, i3, i4, i5⟩ := PathRSeq_capNodes ctx os hs.2 m e1 q e' hb1.2 hn2 h2 g c hm
      exact ⟨a, b, ea, eb, i1, by omega, i3, i4, i5⟩
termination_by structural ops => ops
end

/-! ### `match_at` -/

theorem getO_replicate_none (n k : Nat) : getO (List.replicate n none) k = none := by
  simp only [getO, List.getElem?_replicate]
  split <;> rename_i h
  · split at h
    · simp only [Option.some.injEq] at h; exact h.symm
    · cases h
  · rfl

/-- the reported arrays are clear outside the groups of the tree (so after `matches` has reset the
    capture state, or in a fresh state) -/
def CapsClear (op : Op) (st : St) : Prop :=
  ∀ k, 1 ≤ k → k ∉ capsOf op → getO st.cap.startn k = none ∧ getO st.cap.endn k = none

theorem capsClear_of_nil (op : Op) (st : St) (h1 : st.cap.startn = []) (h2 : st.cap.endn = []) :
    CapsClear op st := by
  intro k _ _
  rw [h1, h2]
  exact ⟨getO_nil k, getO_nil k⟩

/-- the state `match_at` starts the iterator in represents the empty environment off the groups of
    the tree -/
theorem matchStart_repr (ctx : Ctx) (op : Op) (i : Nat) (st : St) (h : CapsClear op st)
    (hnp : st.panic = none ∨ st.panic = some panicDiverge) :
    ReprOff ctx (capsOf op ++ []) (matchStart ctx i st) CEnv.empty := by
  have hs : ∀ k, 1 ≤ k → getO (({ st.cap with parenCount := 1 } : Cap).setStart 0 i).startn k = getO st.cap.startn k := by
    intro k hk
    simp only [Cap.setStart]
    rw [getO_setAt, if_neg (by omega)]
  unfold matchStart
  simp only
  split
  · rename_i hb
    refine ⟨fun k hk hn => ?_, fun _ => ?_, hnp⟩
    · have := h k hk (by simpa using hn)
      refine ⟨?_, ?_, fun _ => ⟨?_, ?_⟩⟩
      · exact (hs k hk).trans this.1
      · exact this.2
      · exact getO_replicate_none _ _
      · exact getO_replicate_none _ _
    · simp
  · rename_i hb
    refine ⟨fun k hk hn => ?_, fun hb' => absurd hb' hb, hnp⟩
    have := h k hk (by simpa using hn)
    exact ⟨(hs k hk).trans this.1, this.2, fun hb' => absurd hb' hb⟩

/-! ### a Boolean equality test on trees (to tie hand-written trees to compiled programs by `decide`) -/

mutual
def opEq : Op → Op → Bool
  | .bol, .bol | .eol, .eol | .nothing, .nothing | .endProgram, .endProgram => true
  | .atom a, .atom b => a == b
  | .cls a, .cls b => a == b
  | .backref a, .backref b => a == b
  | .capture g c, .capture g' c' => g == g' && opEq c c'
  | .choice a, .choice b => opEqL a b
  | .seq a, .seq b => opEqL a b
  | .rep i c mn mx gr, .rep i' c' mn' mx' gr' => i == i' && opEq c c' && mn == mn' && mx == mx' && gr == gr'
  | .gfixed c mn mx l, .gfixed c' mn' mx' l' => opEq c c' && mn == mn' && mx == mx' && l == l'
  | .rfixed c mn mx l, .rfixed c' mn' mx' l' => opEq c c' && mn == mn' && mx == mx' && l == l'
  | .unamb c mn mx, .unamb c' mn' mx' => opEq c c' && mn == mn' && mx == mx'
  | _, _ => false
termination_by structural a => a
def opEqL : List Op → List Op → Bool
  | [], [] => true
  | a :: as, b :: bs => opEq a b && opEqL as bs
  | _, _ => false
termination_by structural a => a
end

mutual
theorem opEq_sound : (a b : Op) → opEq a b = true → a = b
  | .bol, b, h | .eol, b, h | .nothing, b, h | .endProgram, b, h => by
    cases b <;> first | rfl | (simp [opEq] at h)
  | .atom x, b, h => by
    cases b with
    | atom y => simp only [opEq, beq_iff_eq] at h; rw [h]
    | _ => simp [opEq] at h
  | .cls x, b, h => by
    cases b with
    | cls y => simp only [opEq, beq_iff_eq] at h; rw [h]
    | _ => simp [opEq] at h
  | .backref x, b, h => by
    cases b with
    | backref y => simp only [opEq, beq_iff_eq] at h; rw [h]
    | _ => simp [opEq] at h
  | .capture g c, b, h => by
    cases b with
    | capture g' c' =>
      simp only [opEq, Bool.and_eq_true, beq_iff_eq] at h
      rw [h.1, opEq_sound c c' h.2]
    | _ => simp [opEq] at h
  | .choice x, b, h => by
    cases b with
    | choice y => simp only [opEq] at h; rw [opEqL_sound x y h]
    | _ => simp [opEq] at h
  | .seq x, b, h => by
    cases b with
    | seq y => simp only [opEq] at h; rw [opEqL_sound x y h]
    | _ => simp [opEq] at h
  | .rep i c mn mx gr, b, h => by
    cases b with
    | rep i' c' mn' mx' gr' =>
      simp only [opEq, Bool.and_eq_true, beq_iff_eq] at h
      obtain ⟨⟨⟨⟨h1, h2⟩, h3⟩, h4⟩, h5⟩ := h
      rw [h1, opEq_sound c c' h2, h3, h4, h5]
    | _ => simp [opEq] at h
  | .gfixed c mn mx l, b, h => by
    cases b with
    | gfixed c' mn' mx' l' =>
      simp only [opEq, Bool.and_eq_true, beq_iff_eq] at h
      obtain ⟨⟨⟨h2, h3⟩, h4⟩, h5⟩ := h
      rw [opEq_sound c c' h2, h3, h4, h5]
    | _ => simp [opEq] at h
  | .rfixed c mn mx l, b, h => by
    cases b with
    | rfixed c' mn' mx' l' =>
      simp only [opEq, Bool.and_eq_true, beq_iff_eq] at h
      obtain ⟨⟨⟨h2, h3⟩, h4⟩, h5⟩ := h
      rw [opEq_sound c c' h2, h3, h4, h5]
    | _ => simp [opEq] at h
  | .unamb c mn mx, b, h => by
    cases b with
    | unamb c' mn' mx' =>
      simp only [opEq, Bool.and_eq_true, beq_iff_eq] at h
      obtain ⟨⟨h2, h3⟩, h4⟩ := h
      rw [opEq_sound c c' h2, h3, h4]
    | _ => simp [opEq] at h
termination_by structural a => a
theorem opEqL_sound : (a b : List Op) → opEqL a b = true → a = b
  | [], b, h => by cases b <;> first | rfl | (simp [opEqL] at h)
  | x :: xs, b, h => by
    cases b with
    | nil => simp [opEqL] at h
    | cons y ys =>
      simp only [opEqL, Bool.and_eq_true] at h
      rw [opEq_sound x y h.1, opEqL_sound xs ys h.2]
termination_by structural a => a
end

end Rx
