/-
  Proofs/InvLemmas — state invariants of every generator of Model/Engine, by the calculus of
  Proofs/InvCalc.  Generic in the invariant `I` (what the primitive writes must preserve is the
  structure `Writes I`) and in a predicate `Pos` on the positions the generators are started at
  (`True` for C05; "inside the input" for C02, where termination of the body is needed).
-/
import RxModel.Proofs.InvCalc
import RxModel.Proofs.EngineSound
import RxModel.Model.Compile
namespace Rx

/-- the primitive state writes of the engine preserve `I` -/
structure Writes (I : St → Prop) : Prop where
  clear : ∀ st p, I st → I (clearBeyond st p)
  div : ∀ st, I st → I (st.setPanic panicDiverge)
  hist : ∀ st (h : List (Nat × Nat)), I st → I { st with hist := h }
  restore : ∀ st st', I st → I st' → I { st' with cap := st.cap }
  setEnd0 : ∀ st p, I st → I { st with cap := st.cap.setEnd 0 p }

/-- what the loops need of the body of a repeat -/
structure ChildOK (Pos : Nat → Prop) (I : St → Prop) (child : Gen) : Prop where
  inv : ∀ p st, Pos p → I st → (child p st).Inv I
  fst : ∀ p st, Pos p → I st → I (first1 (child p st)).2
  pos : ∀ p st, Pos p → (child p st).All Pos

def GenInv (Pos : Nat → Prop) (I : St → Prop) (g : Gen) : Prop :=
  ∀ p st, Pos p → I st → (g p st).Inv I

section generic
variable {Pos : Nat → Prop} {I : St → Prop}

/-! ### leaves -/

theorem atomGen_inv (ctx : Ctx) (cs : List Nat) : GenInv Pos I (atomGen ctx cs) := by
  intro p st _ h
  unfold atomGen
  split
  · exact .nil _ h
  · split
    · exact .once h
    · exact .nil _ h

theorem clsGen_inv (ctx : Ctx) (rs : Ranges) : GenInv Pos I (clsGen ctx rs) := by
  intro p st _ h
  unfold clsGen
  split
  · split
    · exact .once h
    · exact .nil _ h
  · exact .nil _ h

theorem bolGen_inv (ctx : Ctx) : GenInv Pos I (bolGen ctx) := by
  intro p st _ h
  unfold bolGen
  split
  · split
    · exact .once h
    · exact .nil _ h
  · exact .once h

theorem eolGen_inv (ctx : Ctx) : GenInv Pos I (eolGen ctx) := by
  intro p st _ h
  unfold eolGen
  split
  · split
    · exact .once h
    · exact .nil _ h
  · split
    · exact .once h
    · exact .nil _ h

theorem nothingGen_inv : GenInv Pos I nothingGen := by
  intro p st _ h
  exact .once h

theorem endGen_inv (W : Writes I) : GenInv Pos I endGen := by
  intro p st _ h
  exact .once (W.setEnd0 st p h)

theorem backrefGen_inv (hpanic : ∀ st c, I st → I (st.setPanic c)) (ctx : Ctx) (g : Nat) :
    GenInv Pos I (backrefGen ctx g) := by
  intro p st _ h
  unfold backrefGen
  split
  · exact .nil _ (hpanic _ _ h)
  · split
    · split
      · exact .once h
      · simp only
        split
        · exact .nil _ h
        · split
          · exact .once h
          · exact .nil _ h
    · exact .once h

/-! ### capture, choice, sequence -/

theorem captureGen_inv {child : Gen} (ctx : Ctx) (g : Nat)
    (hpre : ∀ p st, I st → I (if ctx.hasBackrefs then
      (if g ≥ st.startBr.length then st.setPanic panicCaptureIndex
       else { st with startBr := setIn st.startBr g (some p) }) else st))
    (hw : ∀ p n st, I st → I (captureWrite ctx g p n st))
    (hc : GenInv Pos I child) : GenInv Pos I (captureGen ctx g child) := by
  intro p st hp h
  unfold captureGen
  exact (hc p _ hp (hpre p st h)).mapSt (fun n st' h' => hw p n st' h')

theorem choiceGen_nil_inv : GenInv Pos I (choiceGen []) := by
  intro p st _ h
  exact .nil _ h

theorem choiceGen_cons_inv (W : Writes I) {g : Gen} {gs : List Gen}
    (h1 : GenInv Pos I g) (h2 : GenInv Pos I (choiceGen gs)) : GenInv Pos I (choiceGen (g :: gs)) := by
  intro p st hp h
  unfold choiceGen
  exact (h1 p _ hp (W.clear _ _ h)).append (fun st' h' => h2 p st' hp h')

theorem seqGo_nil_inv : GenInv Pos I (seqGo []) := by
  intro p st _ h
  exact .nil _ h

theorem seqGo_cons_inv (W : Writes I) {g : Gen} {gs : List Gen}
    (h1 : GenInv Pos I g) (hpos : ∀ p st, Pos p → (g p st).All Pos)
    (h2 : GenInv Pos I (seqGo gs)) : GenInv Pos I (seqGo (g :: gs)) := by
  intro p st hp h
  cases gs with
  | nil =>
    unfold seqGo
    exact (h1 p st hp h).mapSt (fun n st' h' => W.clear _ _ h')
  | cons g2 gs =>
    unfold seqGo
    exact Step.Inv.bindP ((h1 p st hp h).mapSt (fun n st' h' => W.clear _ _ h'))
      (hpos p st hp).mapSt (fun n st' hn h' => h2 n st' hn h')

theorem seqGen_inv (W : Writes I) {gs : List Gen} (h : GenInv Pos I (seqGo gs)) (hasCap : Bool) :
    GenInv Pos I (seqGen hasCap gs) := by
  intro p st hp hst
  unfold seqGen
  simp only
  refine (h p st hp hst).onNil (fun st' h' => ?_)
  split
  · exact W.restore st st' hst h'
  · exact h'

/-! ### greedy fixed-length repeat -/

theorem gfixedLoop_inv (W : Writes I) {child : Gen} (C : ChildOK Pos I child) (len max guard : Nat)
    (hg : ∀ p, p ≤ guard → Pos p) :
    ∀ fuel p m st, I st → I (gfixedLoop child len max guard fuel p m st).2.2 := by
  intro fuel
  induction fuel with
  | zero => intro p m st h; exact W.div _ h
  | succ f ih =>
    intro p m st h
    unfold gfixedLoop
    split
    · rename_i hle
      have hf := C.fst p st (hg p hle) h
      split
      · rename_i x st' heq
        rw [← first1_snd heq] at hf
        simp only
        split
        · exact hf
        · exact ih _ _ _ hf
      · rename_i st' heq
        rw [← first1_snd heq] at hf
        exact hf
    · exact h

theorem descend_inv (len limit : Nat) :
    ∀ fuel cur st, I st → (descend len limit fuel cur st).Inv I := by
  intro fuel
  induction fuel with
  | zero => intro cur st _; exact .diverge
  | succ f ih =>
    intro cur st h
    unfold descend
    split
    · refine .cons _ _ _ h (fun st' h' => ?_)
      split
      · exact ih _ _ h'
      · exact .nil _ h'
    · exact .nil _ h

theorem gfixedGen_inv (W : Writes I) {child : Gen} (C : ChildOK Pos I child) (ctx : Ctx)
    (min max len : Nat) (hg : ∀ p, p ≤ ctx.len → Pos p) :
    GenInv Pos I (gfixedGen ctx child min max len) := by
  intro p st _ h
  unfold gfixedGen
  simp only
  have hguard : (if max < usizeMax then Nat.min ctx.len (p + len * max) else ctx.len) ≤ ctx.len := by
    split
    · exact Nat.min_le_left _ _
    · exact Nat.le_refl _
  generalize (if max < usizeMax then Nat.min ctx.len (p + len * max) else ctx.len) = guard at hguard
  split
  · exact .nil _ h
  · have hr := gfixedLoop_inv W C len max guard (fun q hq => hg q (Nat.le_trans hq hguard))
      (ctx.len + 2) p 0 st h
    generalize gfixedLoop child len max guard (ctx.len + 2) p 0 st = r at hr
    split
    · exact .nil _ hr
    · exact descend_inv _ _ _ _ _ hr

/-! ### reluctant repeats -/

theorem iterMin_inv (W : Writes I) {child : Gen} (C : ChildOK Pos I child) (min : Nat) :
    ∀ fuel count pos st, Pos pos → I st →
      I (iterMin child min fuel count pos st).2 ∧
      ∀ c q, (iterMin child min fuel count pos st).1 = some (c, q) → Pos q := by
  intro fuel
  induction fuel with
  | zero =>
    intro count pos st _ h
    exact ⟨W.div _ h, fun c q hq => by simp [iterMin] at hq⟩
  | succ f ih =>
    intro count pos st hp h
    unfold iterMin
    split
    · have hf := C.fst pos st hp h
      split
      · rename_i n x st' heq
        rw [← first1_snd heq] at hf
        have hn : Pos n := first1_all (C.pos pos st hp) heq
        exact ih _ _ _ hn hf
      · rename_i st' heq
        rw [← first1_snd heq] at hf
        exact ⟨hf, fun c q hq => by simp at hq⟩
    · refine ⟨h, fun c q hq => ?_⟩
      simp only [Option.some.injEq, Prod.mk.injEq] at hq
      rw [← hq.2]; exact hp

theorem iterMinZ_inv (W : Writes I) {child : Gen} (C : ChildOK Pos I child) (min : Nat) :
    ∀ fuel count pos st, Pos pos → I st →
      I (iterMinZ child min fuel count pos st).2 ∧
      ∀ c q, (iterMinZ child min fuel count pos st).1 = some (c, q) → Pos q := by
  intro fuel
  induction fuel with
  | zero =>
    intro count pos st _ h
    exact ⟨W.div _ h, fun c q hq => by simp [iterMinZ] at hq⟩
  | succ f ih =>
    intro count pos st hp h
    unfold iterMinZ
    split
    · have hf := C.fst pos st hp h
      split
      · rename_i n x st' heq
        rw [← first1_snd heq] at hf
        have hn : Pos n := first1_all (C.pos pos st hp) heq
        split
        · refine ⟨hf, fun c q hq => ?_⟩
          simp only [Option.some.injEq, Prod.mk.injEq] at hq
          rw [← hq.2]; exact hp
        · exact ih _ _ _ hn hf
      · rename_i st' heq
        rw [← first1_snd heq] at hf
        exact ⟨hf, fun c q hq => by simp at hq⟩
    · refine ⟨h, fun c q hq => ?_⟩
      simp only [Option.some.injEq, Prod.mk.injEq] at hq
      rw [← hq.2]; exact hp

theorem rfixedMore_inv (W : Writes I) {child : Gen} (C : ChildOK Pos I child) (max position : Nat) :
    ∀ fuel count pos st, Pos pos → I st → (rfixedMore child max position fuel count pos st).Inv I := by
  intro fuel
  induction fuel with
  | zero => intro count pos st _ _; exact .diverge
  | succ f ih =>
    intro count pos st hp h
    unfold rfixedMore
    split
    · simp only
      have hf := C.fst pos _ hp (W.clear st position h)
      split
      · rename_i n x st' heq
        rw [← first1_snd heq] at hf
        have hn : Pos n := first1_all (C.pos pos _ hp) heq
        exact .cons _ _ _ hf (fun st'' h'' => ih _ _ _ hn h'')
      · rename_i st' heq
        rw [← first1_snd heq] at hf
        exact .nil _ hf
    · exact .nil _ h

theorem rfixedGen_inv (W : Writes I) {child : Gen} (C : ChildOK Pos I child) (ctx : Ctx)
    (min max : Nat) : GenInv Pos I (rfixedGen ctx child min max) := by
  intro p st hp h
  unfold rfixedGen
  have hi := iterMin_inv W C min (loopFuel ctx min) 0 p st hp h
  split
  · rename_i st' heq
    rw [heq] at hi
    exact .nil _ hi.1
  · rename_i count pos st' heq
    rw [heq] at hi
    exact .cons _ _ _ hi.1 (fun st'' h'' => rfixedMore_inv W C max p _ _ _ _ (hi.2 _ _ rfl) h'')

theorem relMore_inv {child : Gen} (C : ChildOK Pos I child) (max : Nat) :
    ∀ fuel count pos st, Pos pos → I st → (relMore child max fuel count pos st).Inv I := by
  intro fuel
  induction fuel with
  | zero => intro count pos st _ _; exact .diverge
  | succ f ih =>
    intro count pos st hp h
    unfold relMore
    split
    · have hf := C.fst pos _ hp h
      split
      · rename_i n x st' heq
        rw [← first1_snd heq] at hf
        have hn : Pos n := first1_all (C.pos pos _ hp) heq
        exact .cons _ _ _ hf (fun st'' h'' => ih _ _ _ hn h'')
      · rename_i st' heq
        rw [← first1_snd heq] at hf
        exact .nil _ hf
    · exact .nil _ h

theorem repReluctantGen_inv (W : Writes I) {child : Gen} (C : ChildOK Pos I child) (ctx : Ctx)
    (min max : Nat) : GenInv Pos I (repReluctantGen ctx child min max) := by
  intro p st hp h
  unfold repReluctantGen
  have hi := iterMinZ_inv W C min (loopFuel ctx min) 0 p st hp h
  split
  · rename_i st' heq
    rw [heq] at hi
    exact .nil _ hi.1
  · rename_i count pos st' heq
    rw [heq] at hi
    apply Step.Inv.force
    exact .cons _ _ _ hi.1 (fun st'' h'' => relMore_inv C max _ _ _ _ (hi.2 _ _ rfl) h'')

/-! ### unambiguous repeat -/

theorem unambLoop_inv (W : Writes I) {child : Gen} (C : ChildOK Pos I child) (max guard : Nat)
    (hg : ∀ p, p ≤ guard → Pos p) :
    ∀ fuel p m st, I st → I (unambLoop child max guard fuel p m st).2.2 := by
  intro fuel
  induction fuel with
  | zero => intro p m st h; exact W.div _ h
  | succ f ih =>
    intro p m st h
    unfold unambLoop
    split
    · rename_i hc1
      simp only [Bool.and_eq_true, decide_eq_true_eq] at hc1
      have hf := C.fst p st (hg p hc1.2) h
      split
      · rename_i n x st' heq
        rw [← first1_snd heq] at hf
        exact ih _ _ _ hf
      · rename_i st' heq
        rw [← first1_snd heq] at hf
        exact hf
    · exact h

theorem unambGen_inv (W : Writes I) {child : Gen} (C : ChildOK Pos I child) (ctx : Ctx)
    (min max : Nat) (hg : ∀ p, p ≤ ctx.len → Pos p) :
    GenInv Pos I (unambGen ctx child min max) := by
  intro p st _ h
  unfold unambGen
  simp only
  have hr := unambLoop_inv W C max ctx.len hg (Nat.min max (ctx.len + 2) + 1) p 0 st h
  generalize unambLoop child max ctx.len (Nat.min max (ctx.len + 2) + 1) p 0 st = r at hr
  split
  · exact .nil _ hr
  · exact .once hr

/-! ### greedy repeat -/

theorem greedyNode_inv {child : Gen} (C : ChildOK Pos I child) (min bound : Nat) :
    ∀ fuel len pl n st, Pos n → I st → (greedyNode child min bound fuel len pl n st).Inv I := by
  intro fuel
  induction fuel with
  | zero =>
    intro len pl n st _ h
    unfold greedyNode
    split
    · exact .once h
    · exact .nil _ h
  | succ f ih =>
    intro len pl n st hn h
    unfold greedyNode
    simp only
    apply Step.Inv.append
    · cases pl with
      | none =>
        simp only [Option.map]
        split
        · exact Step.Inv.bindFRP (C.inv n st hn h) (C.pos n st hn)
            (fun n2 st2 hn2 h2 => ih _ _ n2 st2 hn2 h2) (fun n2 st2 hn2 h2 => ih _ _ n2 st2 hn2 h2)
        · exact .nil _ h
      | some j =>
        simp only [Option.map]
        split
        · exact Step.Inv.bindFRP (C.inv n st hn h) (C.pos n st hn)
            (fun n2 st2 hn2 h2 => ih _ _ n2 st2 hn2 h2) (fun n2 st2 hn2 h2 => ih _ _ n2 st2 hn2 h2)
        · exact .nil _ h
    · intro st' h'
      split
      · exact .once h'
      · exact .nil _ h'

theorem repGreedyGen_inv (W : Writes I) {child : Gen} (C : ChildOK Pos I child) (ctx : Ctx)
    (id min max : Nat) : GenInv Pos I (repGreedyGen ctx id child min max) := by
  intro p st hp h
  unfold repGreedyGen
  simp only
  generalize Nat.min max (ctx.len + 1 - p) = bound
  have hfirst : ∀ fuel pl, (((child p st).bindFR
        (fun n st2 => greedyNode child min bound fuel 1 pl n st2)
        (fun n st2 => greedyNode child min bound fuel 1 none n st2)).force 0 none).Inv I := by
    intro fuel pl
    apply Step.Inv.force
    exact Step.Inv.bindFRP (C.inv p st hp h) (C.pos p st hp)
      (fun n st2 hn h2 => greedyNode_inv C min bound fuel 1 _ n st2 hn h2)
      (fun n st2 hn h2 => greedyNode_inv C min bound fuel 1 _ n st2 hn h2)
  split
  · split
    · split
      · exact .nil _ h
      · exact hfirst _ _
    · apply Step.Inv.force
      apply Step.Inv.append
      · exact greedyNode_inv C min bound _ 1 _ p _ hp (W.hist _ _ h)
      · intro st2 h2
        exact greedyNode_inv C min bound _ 1 _ p _ hp h2
  · split
    · exact .nil _ h
    · exact hfirst _ _

end generic

/-! ## C05: no real panic -/

/-- "no real panic": the marker is clear, or only records non-termination -/
def NoRealPanic (st : St) : Prop := st.panic = none ∨ st.panic = some panicDiverge

theorem NoRealPanic.setDiv {st : St} (h : NoRealPanic st) : NoRealPanic (st.setPanic panicDiverge) := by
  unfold St.setPanic
  split
  · exact h
  · exact .inr rfl

theorem noRealPanic_junk : NoRealPanic junkSt := .inr rfl

theorem writes_np : Writes NoRealPanic where
  clear := fun _ _ h => h
  div := fun _ h => h.setDiv
  hist := fun _ _ h => h
  restore := fun _ _ _ h => h
  setEnd0 := fun _ _ h => h

theorem childOK_np {child : Gen} (h : GenInv (fun _ => True) NoRealPanic child) :
    ChildOK (fun _ => True) NoRealPanic child where
  inv := h
  fst := fun p st hp hst => first1_inv (h p st hp hst) (fun _ => noRealPanic_junk)
  pos := fun _ _ _ => Step.All.trivial _

theorem captureWrite_np (ctx : Ctx) (hb : ctx.hasBackrefs = false) (g p n : Nat) (st : St)
    (h : NoRealPanic st) : NoRealPanic (captureWrite ctx g p n st) := by
  unfold captureWrite
  simp only [hb, Bool.false_eq_true, if_false]
  exact h

mutual
theorem sem_np (ctx : Ctx) (hb : ctx.hasBackrefs = false) :
    (op : Op) → hasBackref op = false → GenInv (fun _ => True) NoRealPanic (sem ctx op)
  | .bol, _ => by simp only [sem]; exact bolGen_inv ctx
  | .eol, _ => by simp only [sem]; exact eolGen_inv ctx
  | .nothing, _ => by simp only [sem]; exact nothingGen_inv
  | .endProgram, _ => by simp only [sem]; exact endGen_inv writes_np
  | .atom cs, _ => by simp only [sem]; exact atomGen_inv ctx cs
  | .cls rs, _ => by simp only [sem]; exact clsGen_inv ctx rs
  | .backref g, h => by simp [hasBackref] at h
  | .capture g c, h => by
    simp only [hasBackref] at h
    simp only [sem]
    refine captureGen_inv ctx g (fun p st hst => ?_) (fun p n st hst => captureWrite_np ctx hb g p n st hst)
      (sem_np ctx hb c h)
    simp only [hb, Bool.false_eq_true, if_false]
    exact hst
  | .choice bs, h => by
    simp only [hasBackref] at h
    simp only [sem]
    exact sem_np_choice ctx hb bs h
  | .seq ops, h => by
    simp only [hasBackref] at h
    simp only [sem]
    exact seqGen_inv writes_np (sem_np_seq ctx hb ops h) _
  | .rep id c mn mx greedy, h => by
    simp only [hasBackref] at h
    have C := childOK_np (sem_np ctx hb c h)
    simp only [sem]
    split
    · exact repGreedyGen_inv writes_np C ctx id mn mx
    · exact repReluctantGen_inv writes_np C ctx mn mx
  | .gfixed c mn mx len, h => by
    simp only [hasBackref] at h
    have C := childOK_np (sem_np ctx hb c h)
    simp only [sem]
    exact gfixedGen_inv writes_np C ctx mn mx len (fun _ _ => trivial)
  | .rfixed c mn mx len, h => by
    simp only [hasBackref] at h
    have C := childOK_np (sem_np ctx hb c h)
    simp only [sem]
    exact rfixedGen_inv writes_np C ctx mn mx
  | .unamb c mn mx, h => by
    simp only [hasBackref] at h
    have C := childOK_np (sem_np ctx hb c h)
    simp only [sem]
    exact unambGen_inv writes_np C ctx mn mx (fun _ _ => trivial)
termination_by structural op => op
theorem sem_np_choice (ctx : Ctx) (hb : ctx.hasBackrefs = false) :
    (bs : List Op) → hasBackrefL bs = false → GenInv (fun _ => True) NoRealPanic (choiceGen (semL ctx bs))
  | [], _ => by simp only [semL]; exact choiceGen_nil_inv
  | b :: bs, h => by
    simp only [hasBackrefL, Bool.or_eq_false_iff] at h
    simp only [semL]
    exact choiceGen_cons_inv writes_np (sem_np ctx hb b h.1) (sem_np_choice ctx hb bs h.2)
termination_by structural bs => bs
theorem sem_np_seq (ctx : Ctx) (hb : ctx.hasBackrefs = false) :
    (ops : List Op) → hasBackrefL ops = false → GenInv (fun _ => True) NoRealPanic (seqGo (semL ctx ops))
  | [], _ => by simp only [semL]; exact seqGo_nil_inv
  | o :: os, h => by
    simp only [hasBackrefL, Bool.or_eq_false_iff] at h
    simp only [semL]
    exact seqGo_cons_inv writes_np (sem_np ctx hb o h.1) (fun _ _ _ => Step.All.trivial _)
      (sem_np_seq ctx hb os h.2)
termination_by structural ops => ops
end

/-! ### the search loop (C05) -/

theorem matchAt_np (ctx : Ctx) (hb : ctx.hasBackrefs = false) (op : Op) (hop : hasBackref op = false)
    (j : Nat) (st : St) (h : NoRealPanic st) : NoRealPanic (matchAt ctx op j st).2 := by
  unfold matchAt
  simp only [hb, Bool.false_eq_true, if_false]
  have h0 : NoRealPanic { st with cap := ({ st.cap with parenCount := 1 } : Cap).setStart 0 j } := h
  have hinv := sem_np ctx hb op hop j _ trivial h0
  split
  · rename_i n st' r heq
    rw [heq] at hinv
    exact hinv.head
  · rename_i st' heq
    rw [heq] at hinv
    exact hinv.nil_inv
  · exact h0.setDiv

theorem preHolds_np (ctx : Ctx) (hb : ctx.hasBackrefs = false) (op : Op) (hop : hasBackref op = false)
    (p : Nat) (st : St) (h : NoRealPanic st) : NoRealPanic (preHolds ctx op p st).2 := by
  unfold preHolds
  have hinv := sem_np ctx hb op hop p st trivial h
  split
  · rename_i n st' r heq
    rw [heq] at hinv
    exact hinv.head
  · rename_i st' heq
    rw [heq] at hinv
    exact hinv.nil_inv
  · exact h.setDiv

theorem findFrom_np (ctx : Ctx) (hb : ctx.hasBackrefs = false) (op : Op) (hop : hasBackref op = false) :
    ∀ fuel j st, NoRealPanic st → NoRealPanic (findFrom ctx op fuel j st).2 := by
  intro fuel
  induction fuel with
  | zero => intro j st h; exact h
  | succ f ih =>
    intro j st h
    unfold findFrom
    split
    · have hp := preHolds_np ctx hb op hop j st h
      split
      · rename_i st' heq
        rw [heq] at hp; exact hp
      · rename_i st' heq
        rw [heq] at hp
        split
        · exact hp
        · exact ih _ _ hp
    · exact h

theorem checkPre_np (ctx : Ctx) (hb : ctx.hasBackrefs = false) (start : Nat) :
    ∀ (pres : List Pre) (st : St), (∀ q ∈ pres, hasBackref q.op = false) → NoRealPanic st →
      NoRealPanic (checkPre ctx start pres st).2 := by
  intro pres
  induction pres with
  | nil => intro st _ h; exact h
  | cons pre rest ih =>
    intro st hq h
    have hpre := hq pre List.mem_cons_self
    have hrest : ∀ q ∈ rest, hasBackref q.op = false := fun q hm => hq q (List.mem_cons_of_mem _ hm)
    unfold checkPre
    split
    · rename_i fixed _
      have hp := preHolds_np ctx hb pre.op hpre fixed st h
      split
      · rename_i st' heq
        rw [heq] at hp
        exact ih _ hrest hp
      · rename_i st' heq
        rw [heq] at hp; exact hp
    · simp only
      have hp := findFrom_np ctx hb pre.op hpre (ctx.len + 1)
        (if start < pre.minPos then pre.minPos else start) st h
      split
      · rename_i st' heq
        rw [heq] at hp
        exact ih _ hrest hp
      · rename_i st' heq
        rw [heq] at hp; exact hp

theorem tryCands_np (ctx : Ctx) (hb : ctx.hasBackrefs = false) (op : Op) (hop : hasBackref op = false) :
    ∀ (js : List Nat) (st : St), NoRealPanic st → NoRealPanic (tryCands ctx op js st).2 := by
  intro js
  induction js with
  | nil => intro st h; exact h
  | cons j js ih =>
    intro st h
    have hm := matchAt_np ctx hb op hop j st h
    unfold tryCands
    split
    · rename_i st' heq
      rw [heq] at hm; exact hm
    · rename_i st' heq
      rw [heq] at hm
      split
      · exact hm
      · exact ih _ hm

theorem matchesFrom_np (pr : Prog) (lower : Nat → Nat) (input : List Nat)
    (hb : pr.hasBackrefs = false) (hop : hasBackref pr.op = false)
    (hpre : ∀ pre, pr.prefix_ = some pre → pre.length ≤ pr.minLen ∨ pr.minLen = usizeMax)
    (hpres : ∀ q ∈ pr.pres, hasBackref q.op = false)
    (hlen : input.length < usizeMax)
    (i : Nat) (hi : i ≤ input.length) (st : St) (h : NoRealPanic st) :
    NoRealPanic (matchesFrom (pr.ctx lower input) pr i st).2 := by
  have hb' : (pr.ctx lower input).hasBackrefs = false := hb
  have hl : (pr.ctx lower input).len = input.length := rfl
  generalize pr.ctx lower input = ctx at hb' hl
  have h0 : NoRealPanic { st with cap := {} } := h
  unfold matchesFrom
  simp only
  split
  · split
    · split
      · exact h0
      · have hc := checkPre_np ctx hb' i pr.pres _ hpres h0
        split
        · rename_i st' heq
          rw [heq] at hc; exact hc
        · rename_i st' heq
          rw [heq] at hc
          exact matchAt_np ctx hb' pr.op hop i st' hc
    · exact tryCands_np ctx hb' pr.op hop _ _ h0
  · split
    · rename_i hgt
      exfalso; omega
    · split
      · exact h0
      · rename_i hmin
        split
        · rename_i pre hpeq
          split
          · rename_i hbig
            exfalso
            rcases hpre pre hpeq with hp | hp <;> omega
          · exact tryCands_np ctx hb' pr.op hop _ _ h0
        · split
          · exact tryCands_np ctx hb' pr.op hop _ _ h0
          · have hc := checkPre_np ctx hb' i pr.pres _ hpres h0
            split
            · rename_i st' heq
              rw [heq] at hc; exact hc
            · rename_i st' heq
              rw [heq] at hc
              exact tryCands_np ctx hb' pr.op hop _ _ hc

theorem isMatch_np (pr : Prog) (lower : Nat → Nat) (input : List Nat)
    (h : NoRealPanic (matchesFrom (pr.ctx lower input) pr 0 {}).2) (c : Nat) :
    pr.isMatch lower input ≠ .panic c := by
  unfold Prog.isMatch
  generalize matchesFrom (pr.ctx lower input) pr 0 {} = r at h
  obtain ⟨m, st⟩ := r
  simp only at h ⊢
  split
  · rename_i c' hc'
    rcases h with h | h
    · rw [hc'] at h; cases h
    · rw [hc'] at h
      simp only [Option.some.injEq] at h
      subst h
      intro hx
      simp [Out.ofFailed] at hx
  · intro hx; cases hx

/-! ### the facts `ReProgram::new` derives (C05) -/

mutual
theorem hasBackref_numberReps : (op : Op) → ∀ n, hasBackref (numberReps op n).1 = hasBackref op
  | .bol, n => by simp only [numberReps]
  | .eol, n => by simp only [numberReps]
  | .nothing, n => by simp only [numberReps]
  | .endProgram, n => by simp only [numberReps]
  | .atom cs, n => by simp only [numberReps]
  | .cls rs, n => by simp only [numberReps]
  | .backref g, n => by simp only [numberReps]
  | .capture g c, n => by simp only [numberReps, hasBackref]; exact hasBackref_numberReps c n
  | .choice bs, n => by simp only [numberReps, hasBackref]; exact hasBackrefL_numberRepsL bs n
  | .seq ops, n => by simp only [numberReps, hasBackref]; exact hasBackrefL_numberRepsL ops n
  | .rep id c mn mx g, n => by simp only [numberReps, hasBackref]; exact hasBackref_numberReps c (n + 1)
  | .gfixed c mn mx len, n => by simp only [numberReps, hasBackref]; exact hasBackref_numberReps c n
  | .rfixed c mn mx len, n => by simp only [numberReps, hasBackref]; exact hasBackref_numberReps c n
  | .unamb c mn mx, n => by simp only [numberReps, hasBackref]; exact hasBackref_numberReps c n
termination_by structural op => op
theorem hasBackrefL_numberRepsL : (ops : List Op) → ∀ n, hasBackrefL (numberRepsL ops n).1 = hasBackrefL ops
  | [], n => by simp only [numberRepsL]
  | o :: os, n => by
    simp only [numberRepsL, hasBackrefL]
    rw [hasBackref_numberReps o n, hasBackrefL_numberRepsL os]
termination_by structural ops => ops
end

theorem addPre_rep_case (ml : Bool) (c full : Op) (mn : Nat) (fp : Option Nat) (mp : Nat)
    (hc : hasBackref c = false) (hfull : hasBackref full = false)
    (ih : ∀ q ∈ addPre ml c fp mp, hasBackref q.op = false) (q : Pre)
    (hq : q ∈ (if mn ≥ 1 then
        (if isAtomOrClass c then
          (if mn == 1 then [{ op := full, fixed := fp, minPos := mp }]
           else [{ op := .rep 0 c mn mn true, fixed := fp, minPos := mp }])
         else addPre ml c fp mp)
      else [])) : hasBackref q.op = false := by
  split at hq
  · split at hq
    · split at hq
      · simp only [List.mem_singleton] at hq; subst hq; exact hfull
      · simp only [List.mem_singleton] at hq; subst hq; simp only [hasBackref]; exact hc
    · exact ih q hq
  · cases hq

mutual
theorem addPre_noBackref (ml : Bool) : (o : Op) → ∀ fp mp, hasBackref o = false →
    ∀ q ∈ addPre ml o fp mp, hasBackref q.op = false
  | .bol, fp, mp, _, q, hq => by simp only [addPre] at hq; cases hq
  | .eol, fp, mp, _, q, hq => by simp only [addPre] at hq; cases hq
  | .nothing, fp, mp, _, q, hq => by simp only [addPre] at hq; cases hq
  | .endProgram, fp, mp, _, q, hq => by simp only [addPre] at hq; cases hq
  | .backref g, fp, mp, _, q, hq => by simp only [addPre] at hq; cases hq
  | .choice bs, fp, mp, _, q, hq => by simp only [addPre] at hq; cases hq
  | .atom cs, fp, mp, _, q, hq => by
    simp only [addPre, List.mem_singleton] at hq; subst hq; simp only [hasBackref]
  | .cls rs, fp, mp, _, q, hq => by
    simp only [addPre, List.mem_singleton] at hq; subst hq; simp only [hasBackref]
  | .capture g c, fp, mp, h, q, hq => by
    simp only [hasBackref] at h
    simp only [addPre] at hq
    exact addPre_noBackref ml c fp mp h q hq
  | .seq ops, fp, mp, h, q, hq => by
    simp only [hasBackref] at h
    simp only [addPre] at hq
    exact addPreSeq_noBackref ml ops fp mp h q hq
  | .rep id c mn mx g, fp, mp, h, q, hq => by
    have hc : hasBackref c = false := by simp only [hasBackref] at h; exact h
    simp only [addPre] at hq
    exact addPre_rep_case ml c _ mn fp mp hc h (addPre_noBackref ml c fp mp hc) q hq
  | .gfixed c mn mx len, fp, mp, h, q, hq => by
    have hc : hasBackref c = false := by simp only [hasBackref] at h; exact h
    simp only [addPre] at hq
    exact addPre_rep_case ml c _ mn fp mp hc h (addPre_noBackref ml c fp mp hc) q hq
  | .rfixed c mn mx len, fp, mp, h, q, hq => by
    have hc : hasBackref c = false := by simp only [hasBackref] at h; exact h
    simp only [addPre] at hq
    exact addPre_rep_case ml c _ mn fp mp hc h (addPre_noBackref ml c fp mp hc) q hq
  | .unamb c mn mx, fp, mp, h, q, hq => by
    have hc : hasBackref c = false := by simp only [hasBackref] at h; exact h
    simp only [addPre] at hq
    exact addPre_rep_case ml c _ mn fp mp hc h (addPre_noBackref ml c fp mp hc) q hq
termination_by structural o => o
theorem addPreSeq_noBackref (ml : Bool) : (ops : List Op) → ∀ fp mp, hasBackrefL ops = false →
    ∀ q ∈ addPreSeq ml ops fp mp, hasBackref q.op = false
  | [], fp, mp, _, q, hq => by simp only [addPreSeq] at hq; cases hq
  | o :: os, fp, mp, h, q, hq => by
    simp only [hasBackrefL, Bool.or_eq_false_iff] at h
    simp only [addPreSeq, List.mem_append] at hq
    rcases hq with hq | hq
    · exact addPre_noBackref ml o _ mp h.1 q hq
    · exact addPreSeq_noBackref ml os _ _ h.2 q hq
termination_by structural ops => ops
end

theorem numberPres_noBackref : ∀ (ps : List Pre) (n : Nat), (∀ q ∈ ps, hasBackref q.op = false) →
    ∀ q ∈ numberPres ps n, hasBackref q.op = false := by
  intro ps
  induction ps with
  | nil => intro n _ q hq; simp only [numberPres] at hq; cases hq
  | cons p ps ih =>
    intro n h q hq
    simp only [numberPres, List.mem_cons] at hq
    rcases hq with hq | hq
    · subst hq
      simp only
      rw [hasBackref_numberReps]
      exact h p List.mem_cons_self
    · exact ih _ (fun q' hq' => h q' (List.mem_cons_of_mem _ hq')) q hq

theorem le_satAdd_or (a b : Nat) : a ≤ satAdd a b ∨ satAdd a b = usizeMax := by
  unfold satAdd
  show a ≤ min (a + b) usizeMax ∨ min (a + b) usizeMax = usizeMax
  rw [Nat.min_def]
  split
  · left; omega
  · right; rfl

theorem mkProgram_facts (pat : List Nat) (op : Op) (mp : Nat) (fl : CFlags) (hop : hasBackref op = false) :
    (∀ pre, (mkProgram pat op mp fl false).prefix_ = some pre →
      pre.length ≤ (mkProgram pat op mp fl false).minLen ∨ (mkProgram pat op mp fl false).minLen = usizeMax) ∧
    (∀ q ∈ (mkProgram pat op mp fl false).pres, hasBackref q.op = false) := by
  unfold mkProgram
  simp only
  have hr := hasBackref_numberReps op 0
  rw [hop] at hr
  generalize numberReps op 0 = r at hr
  obtain ⟨op', n'⟩ := r
  simp only at hr ⊢
  split
  · rename_i first rest
    have hpres : ∀ q ∈ numberPres (addPre fl.multiLine (.seq (first :: rest)) none 0) n',
        hasBackref q.op = false :=
      numberPres_noBackref _ _ (addPre_noBackref _ _ _ _ hr)
    split
    · exact ⟨fun pre hp => by simp at hp, hpres⟩
    · rename_i cs
      refine ⟨fun pre hp => ?_, hpres⟩
      simp only [Option.some.injEq] at hp
      subst hp
      simp only [minLenOp, minLenSeq]
      exact le_satAdd_or _ _
    · exact ⟨fun pre hp => by simp at hp, hpres⟩
    · exact ⟨fun pre hp => by simp at hp, hpres⟩
  · exact ⟨fun pre hp => by simp at hp, fun q hq => by simp at hq⟩

/-! ## C02: the candidate loop -/

theorem tryCands_cons_false {ctx : Ctx} {op : Op} {j : Nat} {js : List Nat} {st st1 : St}
    (hm : matchAt ctx op j st = (false, st1)) (hp : ¬ st1.panic.isSome = true) :
    tryCands ctx op (j :: js) st = tryCands ctx op js st1 := by
  rw [tryCands]
  simp only [hm, hp]
  rfl

theorem tryCands_first_aux (ctx : Ctx) (op : Op) : ∀ (cands : List Nat) (st st' : St),
    tryCands ctx op cands st = (true, st') →
    ∃ pre j post stj, cands = pre ++ j :: post ∧ matchAt ctx op j stj = (true, st') ∧
      (tryCands ctx op pre st = (false, stj)) := by
  intro cands
  induction cands with
  | nil => intro st st' h; simp [tryCands] at h
  | cons j js ih =>
    intro st st' h
    unfold tryCands at h
    split at h
    · rename_i st1 heq
      simp only [Prod.mk.injEq, true_and] at h
      subst h
      exact ⟨[], j, js, st, rfl, heq, rfl⟩
    · rename_i st1 heq
      split at h
      · simp at h
      · rename_i hp
        obtain ⟨pre, j', post, stj, hc, hm, ht⟩ := ih _ _ h
        refine ⟨j :: pre, j', post, stj, by rw [hc]; rfl, hm, ?_⟩
        rw [tryCands_cons_false heq hp]
        exact ht

theorem rangeFrom_nil {lo hi : Nat} (h : hi ≤ lo) : rangeFrom lo hi = [] := by
  unfold rangeFrom
  rw [List.filter_eq_nil_iff]
  intro a ha
  simp only [List.mem_range] at ha
  simp only [ge_iff_le, decide_eq_true_eq]
  omega

theorem rangeFrom_succ (lo hi : Nat) :
    rangeFrom lo (hi + 1) = if lo ≤ hi then rangeFrom lo hi ++ [hi] else rangeFrom lo hi := by
  unfold rangeFrom
  rw [List.range_succ, List.filter_append]
  by_cases h : lo ≤ hi
  · simp [h]
  · simp [h]

theorem rangeFrom_cons : ∀ (hi lo : Nat), lo < hi → rangeFrom lo hi = lo :: rangeFrom (lo + 1) hi := by
  intro hi
  induction hi with
  | zero => intro lo h; omega
  | succ hi ih =>
    intro lo h
    rw [rangeFrom_succ, rangeFrom_succ]
    by_cases hlt : lo < hi
    · rw [ih lo hlt]
      have h1 : lo ≤ hi := by omega
      have h2 : lo + 1 ≤ hi := by omega
      simp only [h1, h2, if_true, List.cons_append]
    · have heq : lo = hi := by omega
      subst heq
      have h2 : ¬ (lo + 1 ≤ lo) := by omega
      simp only [Nat.le_refl, if_true, h2, if_false]
      rw [rangeFrom_nil (Nat.le_refl lo), rangeFrom_nil (Nat.le_succ lo)]
      rfl

theorem tryCands_range_leftmost (ctx : Ctx) (op : Op) (hi : Nat) :
    ∀ (k i : Nat) (st st' : St), hi - i = k → tryCands ctx op (rangeFrom i hi) st = (true, st') →
    ∃ a sta, i ≤ a ∧ a < hi ∧ matchAt ctx op a sta = (true, st') ∧
      tryCands ctx op (rangeFrom i a) st = (false, sta) := by
  intro k
  induction k with
  | zero =>
    intro i st st' hk h
    rw [rangeFrom_nil (by omega)] at h
    simp [tryCands] at h
  | succ k ih =>
    intro i st st' hk h
    have hlt : i < hi := by omega
    rw [rangeFrom_cons hi i hlt] at h
    unfold tryCands at h
    split at h
    · rename_i st1 heq
      simp only [Prod.mk.injEq, true_and] at h
      subst h
      refine ⟨i, st, Nat.le_refl _, hlt, heq, ?_⟩
      rw [rangeFrom_nil (Nat.le_refl i)]
      rfl
    · rename_i st1 heq
      split at h
      · simp at h
      · rename_i hp
        obtain ⟨a, sta, h1, h2, h3, h4⟩ := ih (i + 1) st1 st' (by omega) h
        refine ⟨a, sta, by omega, h2, h3, ?_⟩
        rw [rangeFrom_cons a i (by omega), tryCands_cons_false heq hp]
        exact h4

/-! ## termination of the iterators of well-formed trees started inside the input
    (only what C02 needs: no `.diverge`, whatever the consumer does) -/

theorem Step.Inv.trivial (s : Step) : s.Inv (fun _ => True) := by
  induction s with
  | nil st => exact .nil _ True.intro
  | cons n st r ih => exact .cons _ _ _ True.intro (fun st' _ => ih st')
  | diverge => exact .diverge

/-- the body of a repeat: terminates and stays inside the input -/
structure ChildND (L : Nat) (child : Gen) : Prop where
  nd : ∀ p st, p ≤ L → (child p st).NoDiv
  bd : ∀ p st, p ≤ L → (child p st).All (fun n => p ≤ n ∧ n ≤ L)

def GenND (L : Nat) (g : Gen) : Prop := ∀ p st, p ≤ L → (g p st).NoDiv

theorem ChildND.childOK {L : Nat} {child : Gen} (C : ChildND L child) :
    ChildOK (fun p => p ≤ L) (fun _ => True) child where
  inv := fun _ _ _ _ => Step.Inv.trivial _
  fst := fun _ _ _ _ => True.intro
  pos := fun p st hp => (C.bd p st hp).mono (fun _ h => h.2)

theorem writes_true : Writes (fun _ => True) where
  clear := fun _ _ _ => True.intro
  div := fun _ _ => True.intro
  hist := fun _ _ _ => True.intro
  restore := fun _ _ _ _ => True.intro
  setEnd0 := fun _ _ _ => True.intro

section nodiv
variable {L : Nat}

theorem atomGen_nd (ctx : Ctx) (cs : List Nat) : GenND L (atomGen ctx cs) := by
  intro p st _
  unfold atomGen
  split
  · exact .nil _
  · split
    · exact .once
    · exact .nil _

theorem clsGen_nd (ctx : Ctx) (rs : Ranges) : GenND L (clsGen ctx rs) := by
  intro p st _
  unfold clsGen
  split
  · split
    · exact .once
    · exact .nil _
  · exact .nil _

theorem bolGen_nd (ctx : Ctx) : GenND L (bolGen ctx) := by
  intro p st _
  unfold bolGen
  split
  · split
    · exact .once
    · exact .nil _
  · exact .once

theorem eolGen_nd (ctx : Ctx) : GenND L (eolGen ctx) := by
  intro p st _
  unfold eolGen
  split
  · split
    · exact .once
    · exact .nil _
  · split
    · exact .once
    · exact .nil _

theorem nothingGen_nd : GenND L nothingGen := fun _ _ _ => .once

theorem endGen_nd : GenND L endGen := fun _ _ _ => .once

theorem backrefGen_nd (ctx : Ctx) (g : Nat) : GenND L (backrefGen ctx g) := by
  intro p st _
  unfold backrefGen
  split
  · exact .nil _
  · split
    · split
      · exact .once
      · simp only
        split
        · exact .nil _
        · split
          · exact .once
          · exact .nil _
    · exact .once

theorem captureGen_nd {child : Gen} (ctx : Ctx) (g : Nat) (hc : GenND L child) :
    GenND L (captureGen ctx g child) := by
  intro p st hp
  unfold captureGen
  exact (hc p _ hp).mapSt

theorem choiceGen_nil_nd : GenND L (choiceGen []) := fun _ _ _ => .nil _

theorem choiceGen_cons_nd {g : Gen} {gs : List Gen} (h1 : GenND L g) (h2 : GenND L (choiceGen gs)) :
    GenND L (choiceGen (g :: gs)) := by
  intro p st hp
  unfold choiceGen
  exact (h1 p _ hp).append (fun st' => h2 p st' hp)

theorem seqGo_nil_nd : GenND L (seqGo []) := fun _ _ _ => .nil _

theorem seqGo_cons_nd {g : Gen} {gs : List Gen} (C : ChildND L g) (h2 : GenND L (seqGo gs)) :
    GenND L (seqGo (g :: gs)) := by
  intro p st hp
  cases gs with
  | nil =>
    unfold seqGo
    exact (C.nd p st hp).mapSt
  | cons g2 gs =>
    unfold seqGo
    exact Step.NoDiv.bind (C.nd p st hp).mapSt (C.bd p st hp).mapSt (fun n st' hn => h2 n st' hn.2)

theorem seqGen_nd {gs : List Gen} (h : GenND L (seqGo gs)) (hasCap : Bool) : GenND L (seqGen hasCap gs) := by
  intro p st hp
  unfold seqGen
  exact (h p st hp).onNil

/-! greedy repeat -/

theorem greedyNode_nd {child : Gen} (C : ChildND L child) (min bound : Nat) :
    ∀ fuel len pl n st, n ≤ L → (greedyNode child min bound fuel len pl n st).NoDiv := by
  intro fuel
  induction fuel with
  | zero =>
    intro len pl n st _
    unfold greedyNode
    split
    · exact .once
    · exact .nil _
  | succ f ih =>
    intro len pl n st hn
    unfold greedyNode
    simp only
    apply Step.NoDiv.append
    · cases pl with
      | none =>
        simp only [Option.map]
        split
        · exact Step.NoDiv.bindFR (C.nd n st hn) (C.bd n st hn)
            (fun n2 st2 hn2 => ih _ _ n2 st2 hn2.2) (fun n2 st2 hn2 => ih _ _ n2 st2 hn2.2)
        · exact .nil _
      | some j =>
        simp only [Option.map]
        split
        · exact Step.NoDiv.bindFR (C.nd n st hn) (C.bd n st hn)
            (fun n2 st2 hn2 => ih _ _ n2 st2 hn2.2) (fun n2 st2 hn2 => ih _ _ n2 st2 hn2.2)
        · exact .nil _
    · intro st'
      split
      · exact .once
      · exact .nil _

theorem repGreedyGen_nd {child : Gen} (C : ChildND L child) (ctx : Ctx) (id min max : Nat) :
    GenND L (repGreedyGen ctx id child min max) := by
  intro p st hp
  unfold repGreedyGen
  simp only
  generalize Nat.min max (ctx.len + 1 - p) = bound
  have hfirst : ∀ fuel pl, (((child p st).bindFR
        (fun n st2 => greedyNode child min bound fuel 1 pl n st2)
        (fun n st2 => greedyNode child min bound fuel 1 none n st2)).force 0 none).NoDiv := by
    intro fuel pl
    apply Step.NoDiv.force
    exact Step.NoDiv.bindFR (C.nd p st hp) (C.bd p st hp)
      (fun n st2 hn => greedyNode_nd C min bound fuel 1 _ n st2 hn.2)
      (fun n st2 hn => greedyNode_nd C min bound fuel 1 _ n st2 hn.2)
  split
  · split
    · split
      · exact .nil _
      · exact hfirst _ _
    · apply Step.NoDiv.force
      apply Step.NoDiv.append
      · exact greedyNode_nd C min bound _ 1 _ p _ hp
      · intro st2
        exact greedyNode_nd C min bound _ 1 _ p _ hp
  · split
    · exact .nil _
    · exact hfirst _ _

/-! greedy fixed-length repeat -/

theorem descend_nd (len limit : Nat) (hlen : 0 < len) :
    ∀ fuel cur st, 0 < fuel → cur < limit + fuel → (descend len limit fuel cur st).NoDiv := by
  intro fuel
  induction fuel with
  | zero => intro cur st h; omega
  | succ f ih =>
    intro cur st _ hc
    unfold descend
    split
    · refine .cons _ _ _ (fun st' => ?_)
      split
      · exact ih _ _ (by omega) (by omega)
      · exact .nil _
    · exact .nil _

theorem gfixedLoop_pos {child : Gen} (len max guard : Nat)
    (fx : ∀ p st, p ≤ L → (child p st).All (fun n => n = p + len ∧ n ≤ L)) :
    ∀ fuel p m st, p ≤ L → (gfixedLoop child len max guard fuel p m st).1 ≤ L := by
  intro fuel
  induction fuel with
  | zero => intro p m st hp; exact hp
  | succ f ih =>
    intro p m st hp
    unfold gfixedLoop
    split
    · split
      · rename_i x st' heq
        have hx := first1_all (fx p st hp) heq
        have hp' : p + len ≤ L := by omega
        simp only
        split
        · exact hp'
        · exact ih _ _ _ hp'
      · exact hp
    · exact hp

theorem gfixedGen_nd {child : Gen} (ctx : Ctx) (hL : ctx.len = L) (min max len : Nat) (hlen : 0 < len)
    (fx : ∀ p st, p ≤ L → (child p st).All (fun n => n = p + len ∧ n ≤ L)) :
    GenND L (gfixedGen ctx child min max len) := by
  intro p st hp
  unfold gfixedGen
  simp only
  generalize (if max < usizeMax then Nat.min ctx.len (p + len * max) else ctx.len) = guard
  split
  · exact .nil _
  · have hr := gfixedLoop_pos len max guard fx (ctx.len + 2) p 0 st hp
    generalize gfixedLoop child len max guard (ctx.len + 2) p 0 st = r at hr
    split
    · exact .nil _
    · exact descend_nd len _ hlen _ _ _ (by omega) (by omega)

/-! reluctant repeats -/

theorem rfixedMore_nd {child : Gen} (max position len : Nat) (hlen : 0 < len)
    (fx : ∀ p st, p ≤ L → (child p st).All (fun n => n = p + len ∧ n ≤ L)) :
    ∀ fuel count pos st, pos ≤ L → L < pos + fuel →
      (rfixedMore child max position fuel count pos st).NoDiv := by
  intro fuel
  induction fuel with
  | zero => intro count pos st hp hf; omega
  | succ f ih =>
    intro count pos st hp hf
    unfold rfixedMore
    split
    · simp only
      split
      · rename_i n x st' heq
        have hx := first1_all (fx pos _ hp) heq
        simp only at hx
        exact .cons _ _ _ (fun st'' => ih _ _ _ hx.2 (by omega))
      · exact .nil _
    · exact .nil _

theorem rfixedGen_nd {child : Gen} (C : ChildND L child) (ctx : Ctx) (hL : ctx.len = L)
    (min max len : Nat) (hlen : 0 < len)
    (fx : ∀ p st, p ≤ L → (child p st).All (fun n => n = p + len ∧ n ≤ L)) :
    GenND L (rfixedGen ctx child min max) := by
  intro p st hp
  unfold rfixedGen
  have hi := iterMin_inv writes_true C.childOK min (loopFuel ctx min) 0 p st hp True.intro
  split
  · exact .nil _
  · rename_i count pos st' heq
    rw [heq] at hi
    have hpos : pos ≤ L := hi.2 _ _ rfl
    exact .cons _ _ _ (fun st'' => rfixedMore_nd max p len hlen fx _ _ _ _ hpos (by omega))

/-- a reluctant repeat behind `ForceProgressIterator`: every position is yielded at most five times -/
theorem relForce_nd {child : Gen} (C : ChildND L child) (max : Nat) :
    ∀ fuel count pos st cnt, pos ≤ L → cnt ≤ 3 → 5 * (L - pos) + 4 < fuel + cnt →
      ((relMore child max fuel count pos st).force cnt (some pos)).NoDiv := by
  intro fuel
  induction fuel with
  | zero => intro count pos st cnt hp hc hf; omega
  | succ f ih =>
    intro count pos st cnt hp hc hf
    unfold relMore
    split
    · split
      · rename_i n x st' heq
        have hx := first1_all (C.bd pos _ hp) heq
        simp only at hx
        simp only [Step.force]
        refine .cons _ _ _ (fun st'' => ?_)
        by_cases hn : n = pos
        · subst hn
          simp only [BEq.rfl, if_true]
          by_cases h3 : cnt + 1 > 3
          · simp only [h3, if_true]; exact .nil _
          · simp only [h3, if_false]
            exact ih _ _ _ _ hp (by omega) (by omega)
        · have hne : (some n == some pos) = false := by simp [hn]
          simp only [hne, Bool.false_eq_true, if_false]
          have h0 : ¬ (0 > 3) := by omega
          simp only [h0, if_false]
          exact ih _ _ _ _ hx.2 (by omega) (by omega)
      · exact .nil _
    · exact .nil _

theorem repReluctantGen_nd {child : Gen} (C : ChildND L child) (ctx : Ctx) (hL : ctx.len = L)
    (min max : Nat) : GenND L (repReluctantGen ctx child min max) := by
  intro p st hp
  unfold repReluctantGen
  have hi := iterMinZ_inv writes_true C.childOK min (loopFuel ctx min) 0 p st hp True.intro
  split
  · exact .nil _
  · rename_i count pos st' heq
    rw [heq] at hi
    have hpos : pos ≤ L := hi.2 _ _ rfl
    simp only [Step.force]
    refine .cons _ _ _ (fun st'' => ?_)
    have hne : (some pos == (none : Option Nat)) = false := by simp
    simp only [hne, Bool.false_eq_true, if_false]
    have h0 : ¬ (0 > 3) := by omega
    simp only [h0, if_false]
    exact relForce_nd C max _ _ _ _ _ hpos (by omega) (by omega)

theorem unambGen_nd {child : Gen} (ctx : Ctx) (min max : Nat) : GenND L (unambGen ctx child min max) := by
  intro p st _
  unfold unambGen
  simp only
  split
  · exact .nil _
  · exact .once

end nodiv

theorem sem_bounds_op (ctx : Ctx) (op : Op) (hwf : wfOp op = true) (p : Nat) (hp : p ≤ ctx.len) (st : St) :
    (sem ctx op p st).All (fun n => p ≤ n ∧ n ≤ ctx.len) :=
  (sem_sound_op ctx op hwf p st).mono (fun n h => OpR_bounds_op ctx op p n hp (h hp))

theorem sem_fixed_op (ctx : Ctx) (c : Op) (hwc : wfOp c = true) (len : Nat) (hc : matchLen c = some len)
    (hlen1 : len < usizeMax) (p : Nat) (st : St) (hp : p ≤ ctx.len) :
    (sem ctx c p st).All (fun n => n = p + len ∧ n ≤ ctx.len) :=
  ((matchLen_sound_op ctx c hwc len hc hlen1 p st).and (sem_bounds_op ctx c hwc p hp st)).mono
    (fun _ h => ⟨h.1, h.2.2⟩)

mutual
/-- no iterator of a well-formed tree, started inside the input, reaches `.diverge` -/
theorem sem_nd (ctx : Ctx) : (op : Op) → wfOp op = true → GenND ctx.len (sem ctx op)
  | .bol, _ => by simp only [sem]; exact bolGen_nd ctx
  | .eol, _ => by simp only [sem]; exact eolGen_nd ctx
  | .nothing, _ => by simp only [sem]; exact nothingGen_nd
  | .endProgram, _ => by simp only [sem]; exact endGen_nd
  | .atom cs, _ => by simp only [sem]; exact atomGen_nd ctx cs
  | .cls rs, _ => by simp only [sem]; exact clsGen_nd ctx rs
  | .backref g, _ => by simp only [sem]; exact backrefGen_nd ctx g
  | .capture g c, hwf => by
    simp only [wfOp] at hwf
    simp only [sem]
    exact captureGen_nd ctx g (sem_nd ctx c hwf)
  | .choice bs, hwf => by
    simp only [wfOp, Bool.and_eq_true] at hwf
    simp only [sem]
    exact sem_nd_choice ctx bs hwf.2
  | .seq ops, hwf => by
    simp only [wfOp, Bool.and_eq_true] at hwf
    simp only [sem]
    exact seqGen_nd (sem_nd_seq ctx ops hwf.2) _
  | .rep id c mn mx greedy, hwf => by
    simp only [wfOp, Bool.and_eq_true, decide_eq_true_eq] at hwf
    obtain ⟨⟨hwc, hmm⟩, hmx⟩ := hwf
    have C : ChildND ctx.len (sem ctx c) :=
      ⟨sem_nd ctx c hwc, fun p st hp => sem_bounds_op ctx c hwc p hp st⟩
    simp only [sem]
    split
    · exact repGreedyGen_nd C ctx id mn mx
    · exact repReluctantGen_nd C ctx rfl mn mx
  | .gfixed c mn mx len, hwf => by
    simp only [wfOp, Bool.and_eq_true, decide_eq_true_eq, beq_iff_eq] at hwf
    obtain ⟨⟨⟨⟨⟨hwc, hc⟩, hlen0⟩, hlen1⟩, hmm⟩, hmx⟩ := hwf
    simp only [sem]
    exact gfixedGen_nd ctx rfl mn mx len hlen0 (fun p st hp => sem_fixed_op ctx c hwc len hc hlen1 p st hp)
  | .rfixed c mn mx len, hwf => by
    simp only [wfOp, Bool.and_eq_true, decide_eq_true_eq, beq_iff_eq] at hwf
    obtain ⟨⟨⟨⟨⟨hwc, hc⟩, hlen0⟩, hlen1⟩, hmm⟩, hmx⟩ := hwf
    have C : ChildND ctx.len (sem ctx c) :=
      ⟨sem_nd ctx c hwc, fun p st hp => sem_bounds_op ctx c hwc p hp st⟩
    simp only [sem]
    exact rfixedGen_nd C ctx rfl mn mx len hlen0 (fun p st hp => sem_fixed_op ctx c hwc len hc hlen1 p st hp)
  | .unamb c mn mx, _ => by simp only [sem]; exact unambGen_nd ctx mn mx
termination_by structural op => op
theorem sem_nd_choice (ctx : Ctx) : (bs : List Op) → wfOps bs = true → GenND ctx.len (choiceGen (semL ctx bs))
  | [], _ => by simp only [semL]; exact choiceGen_nil_nd
  | b :: bs, hwf => by
    simp only [wfOps, Bool.and_eq_true] at hwf
    simp only [semL]
    exact choiceGen_cons_nd (sem_nd ctx b hwf.1) (sem_nd_choice ctx bs hwf.2)
termination_by structural bs => bs
theorem sem_nd_seq (ctx : Ctx) : (ops : List Op) → wfOps ops = true → GenND ctx.len (seqGo (semL ctx ops))
  | [], _ => by simp only [semL]; exact seqGo_nil_nd
  | o :: os, hwf => by
    simp only [wfOps, Bool.and_eq_true] at hwf
    simp only [semL]
    exact seqGo_cons_nd ⟨sem_nd ctx o hwf.1, fun p st hp => sem_bounds_op ctx o hwf.1 p hp st⟩
      (sem_nd_seq ctx os hwf.2)
termination_by structural ops => ops
end

/-! ## C02: the start of group 0 -/

mutual
/-- every capturing group of the tree has a number ≥ 1 (same as `C02.capsPos`) -/
def capsPosOp : Op → Bool
  | .capture g c => decide (1 ≤ g) && capsPosOp c
  | .choice bs => capsPosOps bs
  | .seq ops => capsPosOps ops
  | .rep _ c _ _ _ => capsPosOp c
  | .gfixed c _ _ _ => capsPosOp c
  | .rfixed c _ _ _ => capsPosOp c
  | .unamb c _ _ => capsPosOp c
  | _ => true
termination_by structural o => o
def capsPosOps : List Op → Bool
  | [] => true
  | o :: os => capsPosOp o && capsPosOps os
termination_by structural l => l
end

def Start0 (j : Nat) (st : St) : Prop := getO st.cap.startn 0 = some j

theorem getO_setAt_zero (l : List (Option Nat)) (v : Option Nat) : getO (setAt l 0 v) 0 = v := by
  cases l <;> simp [setAt, getO]

theorem getO_setAt_succ (l : List (Option Nat)) (g : Nat) (v : Option Nat) :
    getO (setAt l (g + 1) v) 0 = getO l 0 := by
  cases l <;> simp [setAt, getO]

theorem Start0.setPanic {j : Nat} {st : St} (c : Nat) (h : Start0 j st) : Start0 j (st.setPanic c) := by
  unfold St.setPanic
  split
  · exact h
  · exact h

theorem writes_s0 (j : Nat) : Writes (Start0 j) where
  clear := fun _ _ h => h
  div := fun _ h => h.setPanic _
  hist := fun _ _ h => h
  restore := fun _ _ h _ => h
  setEnd0 := fun _ _ h => h

theorem captureWrite_s0 (ctx : Ctx) (j g p n : Nat) (hg : 1 ≤ g) (st : St) (h : Start0 j st) :
    Start0 j (captureWrite ctx g p n st) := by
  obtain ⟨g', rfl⟩ : ∃ g', g = g' + 1 := ⟨g - 1, by omega⟩
  unfold captureWrite
  simp only
  have key : ∀ c : Cap, getO c.startn 0 = some j →
      getO ((c.setStart (g' + 1) p).setEnd (g' + 1) n).startn 0 = some j := by
    intro c hc
    simp only [Cap.setStart, Cap.setEnd]
    rw [getO_setAt_succ]; exact hc
  have key2 : getO (((if g' + 1 ≥ st.cap.parenCount then { st.cap with parenCount := g' + 1 + 1 } else st.cap).setStart
      (g' + 1) p).setEnd (g' + 1) n).startn 0 = some j := by
    apply key
    split
    · exact h
    · exact h
  split
  · exact key2
  · exact key2

theorem capturePre_s0 (ctx : Ctx) (j g p : Nat) (st : St) (h : Start0 j st) :
    Start0 j (if ctx.hasBackrefs then
      (if g ≥ st.startBr.length then st.setPanic panicCaptureIndex
       else { st with startBr := setIn st.startBr g (some p) }) else st) := by
  split
  · split
    · exact h.setPanic _
    · exact h
  · exact h

theorem childOK_s0 (ctx : Ctx) (j : Nat) (c : Op) (hwc : wfOp c = true)
    (h : GenInv (fun p => p ≤ ctx.len) (Start0 j) (sem ctx c)) :
    ChildOK (fun p => p ≤ ctx.len) (Start0 j) (sem ctx c) where
  inv := h
  fst := fun p st hp hst => first1_inv_nodiv (h p st hp hst) (sem_nd ctx c hwc p st hp)
  pos := fun p st hp => (sem_bounds_op ctx c hwc p hp st).mono (fun _ hn => hn.2)

mutual
theorem sem_s0 (ctx : Ctx) (j : Nat) : (op : Op) → wfOp op = true → capsPosOp op = true →
    GenInv (fun p => p ≤ ctx.len) (Start0 j) (sem ctx op)
  | .bol, _, _ => by simp only [sem]; exact bolGen_inv ctx
  | .eol, _, _ => by simp only [sem]; exact eolGen_inv ctx
  | .nothing, _, _ => by simp only [sem]; exact nothingGen_inv
  | .endProgram, _, _ => by simp only [sem]; exact endGen_inv (writes_s0 j)
  | .atom cs, _, _ => by simp only [sem]; exact atomGen_inv ctx cs
  | .cls rs, _, _ => by simp only [sem]; exact clsGen_inv ctx rs
  | .backref g, _, _ => by
    simp only [sem]
    exact backrefGen_inv (fun st c h => h.setPanic c) ctx g
  | .capture g c, hwf, hc => by
    simp only [wfOp] at hwf
    simp only [capsPosOp, Bool.and_eq_true, decide_eq_true_eq] at hc
    simp only [sem]
    exact captureGen_inv ctx g (fun p st hst => capturePre_s0 ctx j g p st hst)
      (fun p n st hst => captureWrite_s0 ctx j g p n hc.1 st hst) (sem_s0 ctx j c hwf hc.2)
  | .choice bs, hwf, hc => by
    simp only [wfOp, Bool.and_eq_true] at hwf
    simp only [capsPosOp] at hc
    simp only [sem]
    exact sem_s0_choice ctx j bs hwf.2 hc
  | .seq ops, hwf, hc => by
    simp only [wfOp, Bool.and_eq_true] at hwf
    simp only [capsPosOp] at hc
    simp only [sem]
    exact seqGen_inv (writes_s0 j) (sem_s0_seq ctx j ops hwf.2 hc) _
  | .rep id c mn mx greedy, hwf, hc => by
    simp only [wfOp, Bool.and_eq_true, decide_eq_true_eq] at hwf
    obtain ⟨⟨hwc, hmm⟩, hmx⟩ := hwf
    simp only [capsPosOp] at hc
    have C := childOK_s0 ctx j c hwc (sem_s0 ctx j c hwc hc)
    simp only [sem]
    split
    · exact repGreedyGen_inv (writes_s0 j) C ctx id mn mx
    · exact repReluctantGen_inv (writes_s0 j) C ctx mn mx
  | .gfixed c mn mx len, hwf, hc => by
    simp only [wfOp, Bool.and_eq_true, decide_eq_true_eq, beq_iff_eq] at hwf
    obtain ⟨⟨⟨⟨⟨hwc, hml⟩, hlen0⟩, hlen1⟩, hmm⟩, hmx⟩ := hwf
    simp only [capsPosOp] at hc
    have C := childOK_s0 ctx j c hwc (sem_s0 ctx j c hwc hc)
    simp only [sem]
    exact gfixedGen_inv (writes_s0 j) C ctx mn mx len (fun _ h => h)
  | .rfixed c mn mx len, hwf, hc => by
    simp only [wfOp, Bool.and_eq_true, decide_eq_true_eq, beq_iff_eq] at hwf
    obtain ⟨⟨⟨⟨⟨hwc, hml⟩, hlen0⟩, hlen1⟩, hmm⟩, hmx⟩ := hwf
    simp only [capsPosOp] at hc
    have C := childOK_s0 ctx j c hwc (sem_s0 ctx j c hwc hc)
    simp only [sem]
    exact rfixedGen_inv (writes_s0 j) C ctx mn mx
  | .unamb c mn mx, hwf, hc => by
    simp only [wfOp, Bool.and_eq_true, decide_eq_true_eq] at hwf
    obtain ⟨⟨hwc, hmm⟩, hmx⟩ := hwf
    simp only [capsPosOp] at hc
    have C := childOK_s0 ctx j c hwc (sem_s0 ctx j c hwc hc)
    simp only [sem]
    exact unambGen_inv (writes_s0 j) C ctx mn mx (fun _ h => h)
termination_by structural op => op
theorem sem_s0_choice (ctx : Ctx) (j : Nat) : (bs : List Op) → wfOps bs = true → capsPosOps bs = true →
    GenInv (fun p => p ≤ ctx.len) (Start0 j) (choiceGen (semL ctx bs))
  | [], _, _ => by simp only [semL]; exact choiceGen_nil_inv
  | b :: bs, hwf, hc => by
    simp only [wfOps, Bool.and_eq_true] at hwf
    simp only [capsPosOps, Bool.and_eq_true] at hc
    simp only [semL]
    exact choiceGen_cons_inv (writes_s0 j) (sem_s0 ctx j b hwf.1 hc.1) (sem_s0_choice ctx j bs hwf.2 hc.2)
termination_by structural bs => bs
theorem sem_s0_seq (ctx : Ctx) (j : Nat) : (ops : List Op) → wfOps ops = true → capsPosOps ops = true →
    GenInv (fun p => p ≤ ctx.len) (Start0 j) (seqGo (semL ctx ops))
  | [], _, _ => by simp only [semL]; exact seqGo_nil_inv
  | o :: os, hwf, hc => by
    simp only [wfOps, Bool.and_eq_true] at hwf
    simp only [capsPosOps, Bool.and_eq_true] at hc
    simp only [semL]
    exact seqGo_cons_inv (writes_s0 j) (sem_s0 ctx j o hwf.1 hc.1)
      (fun p st hp => (sem_bounds_op ctx o hwf.1 p hp st).mono (fun _ hn => hn.2))
      (sem_s0_seq ctx j os hwf.2 hc.2)
termination_by structural ops => ops
end

/-- the state `match_at(j)` starts the iterator in -/
def matchStart (ctx : Ctx) (j : Nat) (st : St) : St :=
  let st1 : St := { st with cap := ({ st.cap with parenCount := 1 } : Cap).setStart 0 j }
  if ctx.hasBackrefs then
    { st1 with startBr := List.replicate ctx.maxParens none, endBr := List.replicate ctx.maxParens none }
  else st1

theorem matchAt_eq (ctx : Ctx) (op : Op) (j : Nat) (st : St) :
    matchAt ctx op j st =
      match sem ctx op j (matchStart ctx j st) with
      | .cons n st' _ => (true, { st' with cap := st'.cap.setEnd 0 n })
      | .nil st' => (false, { st' with cap := { st'.cap with parenCount := 0 } })
      | .diverge => (false, (matchStart ctx j st).setPanic panicDiverge) := rfl

theorem matchStart_s0 (ctx : Ctx) (j : Nat) (st : St) : Start0 j (matchStart ctx j st) := by
  unfold matchStart
  simp only
  split
  · exact getO_setAt_zero _ _
  · exact getO_setAt_zero _ _

/-- a successful `match_at(j)` -/
theorem matchAt_span_aux (ctx : Ctx) (op : Op) (hwf : wfOp op = true) (hc : capsPosOp op = true)
    (j : Nat) (hj : j ≤ ctx.len) (st st' : St) (h : matchAt ctx op j st = (true, st')) :
    getParenStart st' 0 = some j ∧
    ∃ n, getParenEnd st' 0 = some n ∧ j ≤ n ∧ n ≤ ctx.len ∧ OpR ctx op j n := by
  rw [matchAt_eq] at h
  have h1 := matchStart_s0 ctx j st
  generalize matchStart ctx j st = s0 at h h1
  have hinv := sem_s0 ctx j op hwf hc j s0 hj h1
  have hsound := sem_sound_op ctx op hwf j s0
  split at h
  · rename_i n st1 r heq
    rw [heq] at hinv hsound
    have hs1 : Start0 j st1 := hinv.head
    have hopr : OpR ctx op j n := hsound.head hj
    have hb := OpR_bounds_op ctx op j n hj hopr
    simp only [Prod.mk.injEq, true_and] at h
    subst h
    refine ⟨hs1, n, ?_, hb.1, hb.2, hopr⟩
    simp only [getParenEnd, Cap.setEnd]
    exact getO_setAt_zero _ _
  · simp at h
  · simp at h

theorem tryCands_mem (ctx : Ctx) (op : Op) (cands : List Nat) (st st' : St)
    (h : tryCands ctx op cands st = (true, st')) :
    ∃ j, j ∈ cands ∧ ∃ stj, matchAt ctx op j stj = (true, st') := by
  obtain ⟨pre, j, post, stj, hc, hm, _⟩ := tryCands_first_aux ctx op cands st st' h
  exact ⟨j, by rw [hc]; simp, stj, hm⟩

/-- every branch of `matches(i)` ends in a successful `match_at(j)` with `i ≤ j ≤ len` -/
theorem matchesFrom_cand (ctx : Ctx) (pr : Prog) (i : Nat) (st0 st' : St) (hi : i ≤ ctx.len)
    (h : matchesFrom ctx pr i st0 = (true, st')) :
    ∃ j stj, i ≤ j ∧ j ≤ ctx.len ∧ matchAt ctx pr.op j stj = (true, st') := by
  unfold matchesFrom at h
  simp only at h
  split at h
  · split at h
    · split at h
      · simp at h
      · split at h
        · simp at h
        · exact ⟨i, _, Nat.le_refl _, hi, h⟩
    · obtain ⟨j, hj, stj, hm⟩ := tryCands_mem _ _ _ _ _ h
      refine ⟨j, stj, ?_, ?_, hm⟩
      · simp only [List.mem_cons, List.mem_filter, List.mem_map, decide_eq_true_eq] at hj
        rcases hj with rfl | ⟨⟨k, ⟨hk, _⟩, rfl⟩, _⟩
        · exact Nat.le_refl _
        · have := mem_rangeFrom hk
          omega
      · simp only [List.mem_cons, List.mem_filter, decide_eq_true_eq] at hj
        rcases hj with rfl | hj
        · exact hi
        · omega
  · split at h
    · simp at h
    · split at h
      · simp at h
      · split at h
        · split at h
          · simp at h
          · obtain ⟨j, hj, stj, hm⟩ := tryCands_mem _ _ _ _ _ h
            simp only [List.mem_filter] at hj
            have := mem_rangeFrom hj.1
            exact ⟨j, stj, by omega, by omega, hm⟩
        · split at h
          · obtain ⟨j, hj, stj, hm⟩ := tryCands_mem _ _ _ _ _ h
            simp only [List.mem_filter] at hj
            have := mem_rangeFrom hj.1
            exact ⟨j, stj, by omega, by omega, hm⟩
          · split at h
            · simp at h
            · obtain ⟨j, hj, stj, hm⟩ := tryCands_mem _ _ _ _ _ h
              have := mem_rangeFrom hj
              exact ⟨j, stj, by omega, by omega, hm⟩

end Rx
