/-
  Proofs/Clean2SearchLemmas — helper lemmas for Props/Clean2Complete: the hypotheses of the
  search-loop theorems (Props/SearchComplete) hold on the enlarged fragment (Spec/Enum2, Props/Clean2).

    * `numberReps_shape2`     a tree of the fragment has no general repeat: numbering is the identity
    * `completeAt_unambLeaf`  the engine test is complete on a STANDALONE `x{mn,mx}` non-backtracking
                              repeat over one character (what `add_precondition` records for `.unamb x 1 mx`)
    * `addPre_preShape2`      the shapes `add_precondition` records for a tree of the fragment
    * `clean2_outcome`        the search on a program built from such a tree returns the right outcome
    * `Outcome.span_clean2`   … and the recorded end is `(enum2 ctx op j).head?` for the leftmost start `j`
-/
import RxModel.Props.Clean2
import RxModel.Proofs.CleanSearchLemmas
namespace Rx.SearchComplete
open Rx
open Rx.C08 (noEmptyAtoms noEmptyAtomsL)

/-! ## numbering is the identity on the fragment -/

mutual
theorem numberReps_shape2 : (op : Op) → shape2 op = true → ∀ n, numberReps op n = (op, n)
  | .bol, _, n | .eol, _, n | .nothing, _, n | .endProgram, _, n | .atom _, _, n | .cls _, _, n => by
    simp only [numberReps]
  | .backref _, h, _ | .rep _ _ _ _ _, h, _ => by simp [shape2] at h
  | .unamb x mn mx, h, n => by
    simp only [shape2] at h
    cases x with
    | atom _ => simp only [numberReps]
    | cls _ => simp only [numberReps]
    | _ => simp [isAtomOrClass] at h
  | .capture g c, h, n => by
    simp only [shape2] at h
    simp only [numberReps, numberReps_shape2 c h n]
  | .choice bs, h, n => by
    simp only [shape2] at h
    simp only [numberReps, numberRepsL_shape2 bs h n]
  | .seq ops, h, n => by
    simp only [shape2] at h
    simp only [numberReps, numberRepsL_shape2 ops h n]
  | .gfixed c mn mx len, h, n => by
    simp only [shape2] at h
    simp only [numberReps, numberReps_shape2 c h n]
  | .rfixed c mn mx len, h, n => by
    simp only [shape2] at h
    simp only [numberReps, numberReps_shape2 c h n]
termination_by structural op => op
theorem numberRepsL_shape2 : (ops : List Op) → shape2L ops = true → ∀ n, numberRepsL ops n = (ops, n)
  | [], _, n => by simp only [numberRepsL]
  | o :: os, h, n => by
    simp only [shape2L, Bool.and_eq_true] at h
    simp only [numberRepsL, numberReps_shape2 o h.1 n, numberRepsL_shape2 os h.2 n]
termination_by structural ops => ops
end

/-- the main tree of the program is the tree handed to `ReProgram::new` -/
theorem mkProgram_op_shape2 (pat : List Nat) (op : Op) (mp : Nat) (fl : CFlags) (hb : Bool)
    (hs : shape2 op = true) : (mkProgram pat op mp fl hb).op = op := by
  rw [(WF.mkProgram_op pat op mp fl hb).1, numberReps_shape2 op hs 0]

/-! ## completeness of the engine test from an exact enumeration -/

theorem completeAt_of_ex (ctx : Ctx) (op : Op) (l : Nat → List Nat)
    (hex : ∀ j, j ≤ ctx.len → ∀ st, Step.Ex (sem ctx op j st) (l j))
    (hiff : ∀ j, j ≤ ctx.len → (l j ≠ [] ↔ ∃ q, OpR ctx op j q)) : CompleteAt ctx op := by
  intro j st hj _
  rw [← hiff j hj]
  have h := hex j hj st
  cases hl : l j with
  | nil =>
    rw [hl] at h
    obtain ⟨st', hf⟩ := h.first1_nil
    rw [hf]; simp
  | cons n t =>
    rw [hl] at h
    obtain ⟨st', hf⟩ := h.first1_cons
    rw [hf]; simp

/-- a standalone non-backtracking repeat over one non-empty literal / class: the maximal run has
    `≥ mn` members iff SOME run of `mn … mx` members exists -/
theorem completeAt_unambLeaf (ctx : Ctx) (c : Op) (hac : isAtomOrClass c = true)
    (hne : noEmptyAtoms c = true) (mn mx : Nat) (hmm : mn ≤ mx) (hmx : 0 < mx) :
    CompleteAt ctx (.unamb c mn mx) := by
  have hs : shape2 (.unamb c mn mx) = true := by simp only [shape2]; exact hac
  have hwc : wfOp c = true := (leaf_clean c hac).2
  have hwf : wfOp (.unamb c mn mx) = true := by
    simp only [wfOp, hwc, Bool.true_and, Bool.and_eq_true, decide_eq_true_eq]; exact ⟨hmm, hmx⟩
  have hn : noEmptyAtoms (.unamb c mn mx) = true := by simp only [noEmptyAtoms]; exact hne
  refine completeAt_of_ex ctx _ (enum2 ctx (.unamb c mn mx)) (fun j hj st => sem_ex2_op ctx _ hs hwf hn j hj st) ?_
  intro j hj
  constructor
  · intro hnil
    cases hl : enum2 ctx (.unamb c mn mx) j with
    | nil => exact absurd hl hnil
    | cons q t => exact ⟨q, enum2_sound_of_shape ctx _ hs hwf hn hj (by rw [hl]; exact List.mem_cons_self)⟩
  · rintro ⟨q, hq⟩
    simp only [OpR] at hq
    obtain ⟨k, hk1, hk2, hi⟩ := hq
    have hd := leaf_headDet ctx c hac hne
    have hsd : ∀ a, a ≤ ctx.len → ∀ b t, enum2 ctx c a = b :: t → OpR ctx c a b :=
      fun a ha b t h => leaf_enum2_sound ctx c hac ha h
    have := (munch_max hd hsd mx j k q hj hi hk2).1
    simp only [enum2]
    rw [if_pos (by omega)]
    exact List.cons_ne_nil _ _

/-! ## the precondition trees of a program of the fragment -/

/-- the shapes `add_precondition` records for a tree of the fragment: those of the clean fragment
    (`preShape`), or `x{1,m}` as a non-backtracking repeat over one non-empty literal / class -/
def preShape2 (o : Op) : Bool :=
  preShape o ||
  (match o with
   | .unamb c mn mx => isAtomOrClass c && noEmptyAtoms c && decide (mn ≤ mx) && decide (0 < mx)
   | _ => false)

theorem preShape2_completeAt (ctx : Ctx) (o : Op) (h : preShape2 o = true) : CompleteAt ctx o := by
  unfold preShape2 at h
  rcases Bool.or_eq_true_iff.1 h with h | h
  · exact preShape_completeAt ctx o h
  · cases o with
    | unamb c mn mx =>
      simp only [Bool.and_eq_true, decide_eq_true_eq] at h
      obtain ⟨⟨⟨hac, hne⟩, hmm⟩, hmx⟩ := h
      exact completeAt_unambLeaf ctx c hac hne mn mx hmm hmx
    | _ => simp at h

theorem preShape2_numberReps (o : Op) (n : Nat) (h : preShape2 o = true) :
    preShape2 (numberReps o n).1 = true := by
  unfold preShape2 at h
  rcases Bool.or_eq_true_iff.1 h with h | h
  · unfold preShape2; rw [preShape_numberReps o n h]; rfl
  · cases o with
    | unamb c mn mx =>
      have hac : isAtomOrClass c = true := by
        simp only [Bool.and_eq_true] at h; exact h.1.1.1
      simp only [numberReps, ApiL.numberReps_leaf c hac]
      unfold preShape2
      exact Bool.or_eq_true_iff.2 (.inr h)
    | _ => simp at h

/-- the common shape of the three repeat forms of the fragment in `add_precondition` -/
theorem preShape2_rep_case (ml : Bool) (c self : Op) (mn : Nat) (fp : Option Nat) (mp : Nat)
    (hne : noEmptyAtoms c = true) (hself : isAtomOrClass c = true → preShape2 self = true)
    (ih : ∀ q ∈ addPre ml c fp mp, preShape2 q.op = true) (q : Pre)
    (hq : q ∈ (if mn ≥ 1 then
        (if isAtomOrClass c then
          (if mn == 1 then [({ op := self, fixed := fp, minPos := mp } : Pre)]
           else [{ op := .rep 0 c mn mn true, fixed := fp, minPos := mp }])
         else addPre ml c fp mp)
      else [])) : preShape2 q.op = true := by
  split at hq
  · rename_i h1
    split at hq
    · rename_i hac
      split at hq
      · simp only [List.mem_singleton] at hq; subst hq; exact hself hac
      · simp only [List.mem_singleton] at hq; subst hq
        have h1' : 1 ≤ mn := h1
        simp only [preShape2, preShape, cleanOp, Bool.false_and, Bool.false_or, hac, hne, beq_self_eq_true,
          h1', decide_true, Bool.and_self, Bool.or_false]
    · exact ih q hq
  · cases hq

mutual
theorem addPre_preShape2 (ml : Bool) : (o : Op) → shape2 o = true → wfOp o = true →
    noEmptyAtoms o = true → ∀ fp mp, ∀ q ∈ addPre ml o fp mp, preShape2 q.op = true
  | .bol, _, _, _, fp, mp, q, hq => by simp only [addPre] at hq; cases hq
  | .eol, _, _, _, fp, mp, q, hq => by simp only [addPre] at hq; cases hq
  | .nothing, _, _, _, fp, mp, q, hq => by simp only [addPre] at hq; cases hq
  | .endProgram, _, _, _, fp, mp, q, hq => by simp only [addPre] at hq; cases hq
  | .backref g, _, _, _, fp, mp, q, hq => by simp only [addPre] at hq; cases hq
  | .choice bs, _, _, _, fp, mp, q, hq => by simp only [addPre] at hq; cases hq
  | .atom cs, _, _, _, fp, mp, q, hq => by
    simp only [addPre, List.mem_singleton] at hq; subst hq; rfl
  | .cls rs, _, _, _, fp, mp, q, hq => by
    simp only [addPre, List.mem_singleton] at hq; subst hq; rfl
  | .capture g c, hc, hwf, hne, fp, mp, q, hq => by
    simp only [shape2] at hc
    simp only [wfOp] at hwf
    simp only [noEmptyAtoms] at hne
    simp only [addPre] at hq
    exact addPre_preShape2 ml c hc hwf hne fp mp q hq
  | .seq ops, hc, hwf, hne, fp, mp, q, hq => by
    simp only [shape2] at hc
    simp only [wfOp, Bool.and_eq_true] at hwf
    simp only [noEmptyAtoms] at hne
    simp only [addPre] at hq
    exact addPreSeq_preShape2 ml ops hc hwf.2 hne fp mp q hq
  | .rep id c mn mx g, hc, _, _, fp, mp, q, hq => by simp [shape2] at hc
  | .unamb c mn mx, hc, hwf, hne, fp, mp, q, hq => by
    simp only [shape2] at hc
    simp only [wfOp, Bool.and_eq_true, decide_eq_true_eq] at hwf
    simp only [noEmptyAtoms] at hne
    have hself : isAtomOrClass c = true → preShape2 (.unamb c mn mx) = true := by
      intro hac
      simp only [preShape2, hac, hne, hwf.1.2, hwf.2, decide_true, Bool.and_self, Bool.or_true]
    simp only [addPre] at hq
    refine preShape2_rep_case ml c _ mn fp mp hne hself ?_ q hq
    intro q' hq'
    cases c with
    | atom cs => simp only [addPre, List.mem_singleton] at hq'; subst hq'; rfl
    | cls rs => simp only [addPre, List.mem_singleton] at hq'; subst hq'; rfl
    | _ => simp [isAtomOrClass] at hc
  | .gfixed c mn mx len, hc, hwf, hne, fp, mp, q, hq => by
    have hwf0 := hwf
    simp only [shape2] at hc
    have hwc : wfOp c = true := by simp only [wfOp, Bool.and_eq_true] at hwf; exact hwf.1.1.1.1.1
    simp only [noEmptyAtoms] at hne
    have hself : isAtomOrClass c = true → preShape2 (.gfixed c mn mx len) = true := by
      intro hac
      have : cleanOp (.gfixed c mn mx len) = true := by simp only [cleanOp]; exact (leaf_clean c hac).1
      unfold preShape2 preShape; rw [this, hwf0]; rfl
    simp only [addPre] at hq
    exact preShape2_rep_case ml c _ mn fp mp hne hself (addPre_preShape2 ml c hc hwc hne fp mp) q hq
  | .rfixed c mn mx len, hc, hwf, hne, fp, mp, q, hq => by
    have hwf0 := hwf
    simp only [shape2] at hc
    have hwc : wfOp c = true := by simp only [wfOp, Bool.and_eq_true] at hwf; exact hwf.1.1.1.1.1
    simp only [noEmptyAtoms] at hne
    have hself : isAtomOrClass c = true → preShape2 (.rfixed c mn mx len) = true := by
      intro hac
      have : cleanOp (.rfixed c mn mx len) = true := by simp only [cleanOp]; exact (leaf_clean c hac).1
      unfold preShape2 preShape; rw [this, hwf0]; rfl
    simp only [addPre] at hq
    exact preShape2_rep_case ml c _ mn fp mp hne hself (addPre_preShape2 ml c hc hwc hne fp mp) q hq
termination_by structural o => o
theorem addPreSeq_preShape2 (ml : Bool) : (ops : List Op) → shape2L ops = true → wfOps ops = true →
    noEmptyAtomsL ops = true → ∀ fp mp, ∀ q ∈ addPreSeq ml ops fp mp, preShape2 q.op = true
  | [], _, _, _, fp, mp, q, hq => by simp only [addPreSeq] at hq; cases hq
  | o :: os, hc, hwf, hne, fp, mp, q, hq => by
    simp only [shape2L, Bool.and_eq_true] at hc
    simp only [wfOps, Bool.and_eq_true] at hwf
    simp only [noEmptyAtomsL, Bool.and_eq_true] at hne
    simp only [addPreSeq, List.mem_append] at hq
    rcases hq with hq | hq
    · exact addPre_preShape2 ml o hc.1 hwf.1 hne.1 _ mp q hq
    · exact addPreSeq_preShape2 ml os hc.2 hwf.2 hne.2 _ _ q hq
termination_by structural ops => ops
end

/-- every precondition tree of a program built from a tree of the fragment has one of the shapes -/
theorem mkProgram_pres_preShape2 (pat : List Nat) (op : Op) (mp : Nat) (fl : CFlags) (hb : Bool)
    (hs : shape2 op = true) (hwf : wfOp op = true) (hne : noEmptyAtoms op = true) :
    ∀ q ∈ (mkProgram pat op mp fl hb).pres, preShape2 q.op = true := by
  obtain ⟨_, _, _, _, _, _, _, _, _, hpres⟩ := mkProgram_shape pat op mp fl hb
  intro q hq
  rcases hpres with he | ⟨n, he⟩
  · rw [he] at hq; cases hq
  · rw [he, numberReps_shape2 op hs 0] at hq
    obtain ⟨p, hp, b, rfl⟩ := mem_numberPres _ _ _ hq
    apply preShape2_numberReps
    exact addPre_preShape2 fl.multiLine op hs hwf hne none 0 p hp

theorem pres_completeAt2 (pat : List Nat) (op : Op) (mp : Nat) (fl : CFlags) (hb : Bool) (ctx : Ctx)
    (hs : shape2 op = true) (hwf : wfOp op = true) (hne : noEmptyAtoms op = true) :
    ∀ q ∈ (mkProgram pat op mp fl hb).pres, CompleteAt ctx q.op :=
  fun q hq => preShape2_completeAt ctx q.op (mkProgram_pres_preShape2 pat op mp fl hb hs hwf hne q hq)

/-! ## outcomes on the fragment -/

/-- the context of the program -/
theorem mkProgram_ctx (pat : List Nat) (op : Op) (mp : Nat) (fl : CFlags) (hb : Bool)
    (lower : Nat → Nat) (input : List Nat) :
    ((mkProgram pat op mp fl hb).ctx lower input).caseBlind = fl.caseBlind ∧
    ((mkProgram pat op mp fl hb).ctx lower input).multiLine = fl.multiLine ∧
    ((mkProgram pat op mp fl hb).ctx lower input).lower = lower ∧
    ((mkProgram pat op mp fl hb).ctx lower input).input = input ∧
    ((mkProgram pat op mp fl hb).ctx lower input).hasBackrefs = hb := by
  obtain ⟨_, hcb, hml, hhb, _⟩ := mkProgram_shape pat op mp fl hb
  exact ⟨hcb, hml, rfl, rfl, hhb⟩

/-- the hypotheses on case data and input, for the context of a program with flags `fl` -/
structure InputOKFor (env : Env) (fl : CFlags) (lower : Nat → Nat) (input : List Nat) : Prop where
  hcase : fl.caseBlind = true → C08.CaseOK env lower
  hce : ∀ a x, x ∈ env.closure a → x < cpLimit
  hin : ∀ c ∈ input, c < cpLimit
  hsc : ∀ c ∈ input, isSurrogate c = false

theorem InputOKFor.ctx {env : Env} {fl : CFlags} {lower : Nat → Nat} {input : List Nat}
    (h : InputOKFor env fl lower input) (pat : List Nat) (op : Op) (mp : Nat) (hb : Bool) :
    InputOK env ((mkProgram pat op mp fl hb).ctx lower input) := by
  obtain ⟨hcb, _, hlo, hinp, _⟩ := mkProgram_ctx pat op mp fl hb lower input
  exact ⟨fun hc => by rw [hlo]; exact h.hcase (by rw [← hcb]; exact hc), h.hce,
    by rw [hinp]; exact h.hin, by rw [hinp]; exact h.hsc⟩

/-- the engine test is complete on the main tree of the program -/
theorem prog_completeAt2 (env : Env) (pat : List Nat) (op : Op) (mp : Nat) (fl : CFlags)
    (lower : Nat → Nat) (input : List Nat) (hI : InputOKFor env fl lower input)
    (hc : cleanProg2 env fl.caseBlind fl.multiLine op = true) (hwf : wfOp op = true)
    (hne : noEmptyAtoms op = true) (hcan : clsCanonB op = true) :
    CompleteAt ((mkProgram pat op mp fl false).ctx lower input) (mkProgram pat op mp fl false).op := by
  have hs := Clean2.cleanProg2_shape env _ _ op hc
  obtain ⟨hcb, hml, _⟩ := mkProgram_ctx pat op mp fl false lower input
  rw [mkProgram_op_shape2 pat op mp fl false hs]
  exact Clean2.completeAt_clean2 env _ (hI.ctx pat op mp false) op (by rw [hcb, hml]; exact hc) hwf hne hcan

/-- the search on a program built from a tree of the fragment returns the right outcome -/
theorem clean2_outcome (env : Env) (pat : List Nat) (op : Op) (mp : Nat) (fl : CFlags)
    (lower : Nat → Nat) (input : List Nat) (hI : InputOKFor env fl lower input)
    (hc : cleanProg2 env fl.caseBlind fl.multiLine op = true) (hwf : wfOp op = true)
    (hne : noEmptyAtoms op = true) (hcan : clsCanonB op = true) (hlen : input.length < usizeMax)
    (i : Nat) (hi : i ≤ input.length) (st : St) (hst : st.panic = none) :
    Outcome ((mkProgram pat op mp fl false).ctx lower input) (mkProgram pat op mp fl false).op i
      (matchesFrom ((mkProgram pat op mp fl false).ctx lower input) (mkProgram pat op mp fl false) i st) := by
  have hs := Clean2.cleanProg2_shape env _ _ op hc
  exact mkProgram_outcome pat op mp fl lower input hwf (Clean2.shape2_noBackref op hs) hne
    (Clean2.shape2_smallMin _ op hs hne) hlen
    (prog_completeAt2 env pat op mp fl lower input hI hc hwf hne hcan)
    (pres_completeAt2 pat op mp fl false _ hs hwf hne) i hi st hst

/-- … and so does the search with every shortcut off -/
theorem clean2_naive_outcome (env : Env) (pat : List Nat) (op : Op) (mp : Nat) (fl : CFlags)
    (lower : Nat → Nat) (input : List Nat) (hI : InputOKFor env fl lower input)
    (hc : cleanProg2 env fl.caseBlind fl.multiLine op = true) (hwf : wfOp op = true)
    (hne : noEmptyAtoms op = true) (hcan : clsCanonB op = true)
    (i : Nat) (st : St) (hst : st.panic = none) :
    Outcome ((mkProgram pat op mp fl false).ctx lower input) (mkProgram pat op mp fl false).op i
      (matchesNaive ((mkProgram pat op mp fl false).ctx lower input) (mkProgram pat op mp fl false).op i st) := by
  have hs := Clean2.cleanProg2_shape env _ _ op hc
  have hC := prog_completeAt2 env pat op mp fl lower input hI hc hwf hne hcan
  obtain ⟨_, _, _, _, hbr⟩ := mkProgram_ctx pat op mp fl false lower input
  have hop := mkProgram_op_shape2 pat op mp fl false hs
  have hQ : Quiet ((mkProgram pat op mp fl false).ctx lower input) (mkProgram pat op mp fl false).op := by
    rw [hop]
    exact quiet_of_wf _ hbr op (Clean2.shape2_noBackref op hs) hwf (Clean2.shape2_smallMin _ op hs hne)
  exact matchesNaive_outcome hC hQ i st hst

/-- a successful search on a tree of the fragment: group 0 is `(j, n)`, `j` the LEAST start `≥ i`
    with a match, `n` the head of `enum2` from `j` -/
theorem Outcome.span_clean2 {ctx : Ctx} {o : Op} (hs : shape2 o = true) (hwf : wfOp o = true)
    (hne : noEmptyAtoms o = true)
    (hcp : C02.capsPos o = true) {i : Nat} {r : Bool × St} (h : Outcome ctx o i r) (ht : r.1 = true) :
    ∃ j n, getParenStart r.2 0 = some j ∧ getParenEnd r.2 0 = some n ∧
      (enum2 ctx o j).head? = some n ∧ i ≤ j ∧ j ≤ n ∧ n ≤ ctx.len ∧ OpR ctx o j n ∧
      ∀ k q, i ≤ k → k < j → ¬ OpR ctx o k q := by
  rcases h.2 with ⟨_, j, stj, h1, h2, _, hmin, hma⟩ | ⟨hf, _⟩
  · obtain ⟨b, st'⟩ := r
    simp only at ht
    subst ht
    obtain ⟨hs0, n, he, hjn, hnl, hopr⟩ := C02.matchAt_span ctx o hwf hcp j h2 stj st' hma
    have hend := Clean2.matchAt_end2 ctx o hs hwf hne j h2 stj (by rw [hma])
    rw [hma] at hend
    simp only at hend
    exact ⟨j, n, hs0, he, by rw [← hend, he], h1, hjn, hnl, hopr,
      fun k q hik hkj hq => hmin k hik hkj ⟨q, hq⟩⟩
  · rw [hf] at ht; cases ht

/-- two searches with the right outcome on a tree of the fragment agree on EVERYTHING they report -/
theorem Outcome.agree_clean2 {ctx : Ctx} {o : Op} (hs : shape2 o = true) (hwf : wfOp o = true)
    (hne : noEmptyAtoms o = true)
    (hcp : C02.capsPos o = true) {i : Nat} {r1 r2 : Bool × St}
    (h1 : Outcome ctx o i r1) (h2 : Outcome ctx o i r2) :
    r1.1 = r2.1 ∧ (r1.1 = true →
      getParenStart r1.2 0 = getParenStart r2.2 0 ∧ getParenEnd r1.2 0 = getParenEnd r2.2 0) := by
  have hb : r1.1 = r2.1 := by
    rw [Bool.eq_iff_iff]
    exact h1.iff.trans h2.iff.symm
  refine ⟨hb, fun ht => ?_⟩
  obtain ⟨j1, n1, hs1, he1, hh1, a1, _, _, hm1, hl1⟩ := h1.span_clean2 hs hwf hne hcp ht
  obtain ⟨j2, n2, hs2, he2, hh2, a2, _, _, hm2, hl2⟩ := h2.span_clean2 hs hwf hne hcp (hb ▸ ht)
  have : j1 = j2 := by
    rcases Nat.lt_trichotomy j1 j2 with h | h | h
    · exact absurd hm1 (hl2 j1 n1 a1 h)
    · exact h
    · exact absurd hm2 (hl1 j2 n2 a2 h)
  subst this
  rw [hh1] at hh2
  simp only [Option.some.injEq] at hh2
  subst hh2
  exact ⟨by rw [hs1, hs2], by rw [he1, he2]⟩

end Rx.SearchComplete
