/-
  Proofs/CharSetLemmas — helper lemmas for Props/C09: canonical range lists (`Canon`), the
  lower-bounded formulation `Chain lo`, the builder operations (`addRange`, `unionR`, `complFrom`),
  and the enumeration used by `isDisjoint` (`takeChars`, `isDisjointGo`).
-/
import RxModel.Model.Parser
namespace Rx.C09
open Rx

/-- canonical: non-empty ranges, strictly increasing, not adjacent, below `cpLimit` -/
def Canon : Ranges → Prop
  | [] => True
  | [(a, b)] => a < b ∧ b ≤ cpLimit
  | (a, b) :: (c, d) :: rs => a < b ∧ b < c ∧ Canon ((c, d) :: rs)

/-- `Canon` with a lower bound for the first range start: every range is non-empty, ends at or
    below `cpLimit`, starts at `≥ lo`, and the next one starts strictly above its end. -/
def Chain (lo : Nat) : Ranges → Prop
  | [] => True
  | (a, b) :: rs => lo ≤ a ∧ a < b ∧ b ≤ cpLimit ∧ Chain (b + 1) rs

theorem Chain.mono {lo lo' : Nat} {rs : Ranges} (h : Chain lo rs) (hl : lo' ≤ lo) :
    Chain lo' rs := by
  cases rs with
  | nil => trivial
  | cons r rs =>
    obtain ⟨a, b⟩ := r
    simp only [Chain] at h ⊢
    exact ⟨by omega, h.2.1, h.2.2.1, h.2.2.2⟩

theorem chain_of_canon : ∀ rs : Ranges, Canon rs → Chain 0 rs
  | [], _ => trivial
  | [(a, b)], h => by
    simp only [Canon] at h
    simp only [Chain]
    exact ⟨Nat.zero_le _, h.1, h.2, trivial⟩
  | (a, b) :: (c, d) :: rs, h => by
    simp only [Canon] at h
    have ih := chain_of_canon ((c, d) :: rs) h.2.2
    simp only [Chain] at ih ⊢
    exact ⟨Nat.zero_le _, h.1, by omega, by omega, ih.2.1, ih.2.2.1, ih.2.2.2⟩

theorem canon_of_chain : ∀ (rs : Ranges) (lo : Nat), Chain lo rs → Canon rs
  | [], _, _ => trivial
  | [(a, b)], _, h => by
    simp only [Chain] at h
    simp only [Canon]
    exact ⟨h.2.1, h.2.2.1⟩
  | (a, b) :: (c, d) :: rs, _, h => by
    simp only [Chain] at h
    have ih := canon_of_chain ((c, d) :: rs) (b + 1) (by simp only [Chain]; exact h.2.2.2)
    simp only [Canon]
    exact ⟨h.2.1, by omega, ih⟩

theorem canon_iff_chain (rs : Ranges) : Canon rs ↔ Chain 0 rs :=
  ⟨chain_of_canon rs, canon_of_chain rs 0⟩

/-- Bool equation over `decide`s of linear arithmetic facts -/
macro "bool_omega" : tactic => `(tactic| grind [clsContains])

/-! ### membership below / above the bounds -/

theorem chain_contains_lt {lo : Nat} {rs : Ranges} (h : Chain lo rs) {c : Nat} (hc : c < lo) :
    clsContains rs c = false := by
  induction rs generalizing lo with
  | nil => rfl
  | cons r rs ih =>
    obtain ⟨a, b⟩ := r
    simp only [Chain] at h
    have := ih h.2.2.2 (by omega)
    simp only [clsContains, this, Bool.or_false, Bool.and_eq_false_imp, decide_eq_true_eq,
      decide_eq_false_iff_not]
    omega

theorem chain_contains_limit {lo : Nat} {rs : Ranges} (h : Chain lo rs) {c : Nat}
    (hc : clsContains rs c = true) : c < cpLimit := by
  induction rs generalizing lo with
  | nil => simp [clsContains] at hc
  | cons r rs ih =>
    obtain ⟨a, b⟩ := r
    simp only [Chain] at h
    simp only [clsContains, Bool.or_eq_true, Bool.and_eq_true, decide_eq_true_eq] at hc
    rcases hc with hc | hc
    · omega
    · exact ih h.2.2.2 hc

/-! ### `addRange` -/

theorem chain_contains_addRange {lo : Nat} (rs : Ranges) (h : Chain lo rs) (a b c : Nat) :
    clsContains (addRange a b rs) c = ((decide (a ≤ c) && decide (c < b)) || clsContains rs c) := by
  induction rs generalizing lo a b with
  | nil =>
    simp only [addRange]
    split
    · simp [clsContains]
    · bool_omega
  | cons r rs ih =>
    obtain ⟨x, y⟩ := r
    simp only [Chain] at h
    simp only [addRange]
    split
    · bool_omega
    · split
      · simp only [clsContains]
      · split
        · simp only [clsContains, ih h.2.2.2]
          bool_omega
        · rw [ih h.2.2.2]
          bool_omega

theorem chain_addRange {lo : Nat} (rs : Ranges) (h : Chain lo rs) (a b : Nat) (ha : lo ≤ a)
    (hb : b ≤ cpLimit) : Chain lo (addRange a b rs) := by
  induction rs generalizing lo a b with
  | nil =>
    simp only [addRange]
    split
    · simp only [Chain]; exact ⟨ha, by assumption, hb, trivial⟩
    · trivial
  | cons r rs ih =>
    obtain ⟨x, y⟩ := r
    have h' := h
    simp only [Chain] at h'
    simp only [addRange]
    split
    · exact h
    · split
      · simp only [Chain]
        exact ⟨ha, by omega, hb, by omega, h'.2.1, h'.2.2.1, h'.2.2.2⟩
      · split
        · simp only [Chain]
          exact ⟨h'.1, h'.2.1, h'.2.2.1, ih h'.2.2.2 a b (by omega) hb⟩
        · apply ih (h'.2.2.2.mono (by omega))
          · simp only [Nat.min_def]; split <;> omega
          · simp only [Nat.max_def]; split <;> omega

/-! ### `unionR` -/

theorem chain_unionR_both (a b : Ranges) (ha : Chain 0 a) {lo : Nat} (hb : Chain lo b) :
    Chain 0 (unionR a b) ∧
      ∀ c, clsContains (unionR a b) c = (clsContains a c || clsContains b c) := by
  induction b generalizing a lo with
  | nil => exact ⟨ha, fun c => by simp [unionR, clsContains]⟩
  | cons r rs ih =>
    obtain ⟨x, y⟩ := r
    simp only [Chain] at hb
    have h1 := chain_addRange a ha x y (Nat.zero_le _) hb.2.2.1
    obtain ⟨i1, i2⟩ := ih (addRange x y a) h1 hb.2.2.2
    refine ⟨i1, fun c => ?_⟩
    simp only [unionR]
    rw [i2 c, chain_contains_addRange a ha x y c]
    simp only [clsContains]
    cases clsContains a c <;> cases clsContains rs c <;> simp

/-! ### `complFrom` -/

theorem chain_contains_complFrom {lo : Nat} (rs : Ranges) (h : Chain lo rs) (c : Nat) :
    clsContains (complFrom lo rs) c =
      (decide (lo ≤ c) && decide (c < cpLimit) && !clsContains rs c) := by
  induction rs generalizing lo with
  | nil =>
    simp only [complFrom]
    split <;> bool_omega
  | cons r rs ih =>
    obtain ⟨x, y⟩ := r
    simp only [Chain] at h
    have ih' := ih (h.2.2.2.mono (Nat.le_succ y))
    simp only [complFrom]
    by_cases hcy : c ≤ y
    · have hf : clsContains rs c = false := chain_contains_lt h.2.2.2 (by omega)
      split
      · simp only [clsContains, ih', hf]
        bool_omega
      · simp only [clsContains, ih', hf]
        bool_omega
    · split
      · simp only [clsContains, ih']
        bool_omega
      · simp only [clsContains, ih']
        bool_omega

theorem chain_complFrom {lo : Nat} (rs : Ranges) (h : Chain lo rs) :
    Chain lo (complFrom lo rs) := by
  induction rs generalizing lo with
  | nil =>
    simp only [complFrom]
    split
    · simp only [Chain]; exact ⟨Nat.le_refl _, by assumption, Nat.le_refl _, trivial⟩
    · trivial
  | cons r rs ih =>
    obtain ⟨x, y⟩ := r
    simp only [Chain] at h
    have ih' := ih (h.2.2.2.mono (Nat.le_succ y))
    simp only [complFrom]
    split
    · simp only [Chain]
      exact ⟨Nat.le_refl _, by assumption, by omega, ih'.mono (by omega)⟩
    · exact ih'.mono (by omega)

/-! ### `takeChars` / `isDisjointGo` -/

/-- how many non-emitting steps `takeChars` may still spend on a range: dropping it once it is
    empty, and before that at most one jump over the surrogate gap -/
def cost (r : Nat × Nat) : Nat := if r.1 < r.2 ∧ r.1 < 0xE000 then 2 else 1

def costs : Ranges → Nat
  | [] => 0
  | r :: rs => cost r + costs rs

theorem costs_le (rs : Ranges) : costs rs ≤ 2 * rs.length := by
  induction rs with
  | nil => simp [costs]
  | cons r rs ih =>
    simp only [costs, cost, List.length_cons]
    split <;> omega

/-- if the enumeration was cut off neither by the count nor by the fuel, it is complete -/
theorem takeChars_complete (fuel : Nat) : ∀ (n : Nat) (rs : Ranges), n + costs rs ≤ fuel →
    (takeChars n fuel rs).length < n → ∀ c, isSurrogate c = false → clsContains rs c = true →
    c ∈ takeChars n fuel rs := by
  induction fuel with
  | zero =>
    intro n rs hf hl
    have : n = 0 := by omega
    subst this
    omega
  | succ f ih =>
    intro n rs hf hl c hs hc
    cases n with
    | zero => omega
    | succ n =>
      cases rs with
      | nil => simp [clsContains] at hc
      | cons r rs =>
        obtain ⟨a, b⟩ := r
        simp only [takeChars] at hl ⊢
        simp only [costs, cost] at hf
        simp only [clsContains, Bool.or_eq_true, Bool.and_eq_true, decide_eq_true_eq] at hc
        simp only [isSurrogate, Bool.and_eq_false_imp, decide_eq_true_eq,
          decide_eq_false_iff_not] at hs
        split
        · rename_i hab
          rw [if_pos hab] at hl
          apply ih (n + 1) rs (by split at hf <;> omega) hl c
          · simpa [isSurrogate] using hs
          · rcases hc with hc | hc
            · omega
            · exact hc
        · rename_i hab
          rw [if_neg hab] at hl
          split
          · rename_i hsa
            rw [if_pos hsa] at hl
            simp only [isSurrogate, Bool.and_eq_true, decide_eq_true_eq] at hsa
            apply ih (n + 1) _ _ hl c
            · simpa [isSurrogate] using hs
            · simp only [clsContains, Bool.or_eq_true, Bool.and_eq_true, decide_eq_true_eq,
                Nat.min_def]
              rcases hc with hc | hc
              · left; split <;> omega
              · right; exact hc
            · simp only [costs, cost, Nat.min_def]
              rw [if_pos (by omega)] at hf
              split <;> split <;> omega
          · rename_i hsa
            rw [if_neg hsa] at hl
            simp only [List.length_cons] at hl
            by_cases hca : c = a
            · subst hca; exact List.mem_cons_self
            · apply List.mem_cons_of_mem
              apply ih n _ _ (by omega) c
              · simpa [isSurrogate] using hs
              · simp only [clsContains, Bool.or_eq_true, Bool.and_eq_true, decide_eq_true_eq]
                rcases hc with hc | hc
                · left; omega
                · right; exact hc
              · simp only [costs, cost]
                split at hf <;> split <;> omega

theorem isDisjointGo_true (self : Ranges) (l : List Nat) (count : Nat) (hcount : count ≤ 100)
    (h : isDisjointGo self l count = true) :
    l.length + count ≤ 100 ∧ ∀ c ∈ l, clsContains self c = false := by
  induction l generalizing count with
  | nil => exact ⟨by simpa using hcount, fun c hc => by cases hc⟩
  | cons x xs ih =>
    simp only [isDisjointGo] at h
    split at h
    · cases h
    · rename_i hx
      split at h
      · cases h
      · rename_i hcnt
        obtain ⟨i1, i2⟩ := ih (count + 1) (by omega) h
        refine ⟨by simp only [List.length_cons]; omega, fun c hc => ?_⟩
        rcases List.mem_cons.1 hc with hc | hc
        · subst hc; simpa using hx
        · exact i2 c hc

end Rx.C09
